import json,sys
pid=sys.argv[1]; extra=sys.argv[2] if len(sys.argv)>2 else ""
props={json.loads(l)['id']:json.loads(l) for l in open('/verif/properties.jsonl')}
p=props[pid]
print(f"""You are building the verification check for ONE property ({pid}) of the Go repository voedger (at /repo) inside an existing framework at /verif. The technique is fixed: machine-checked proof in Coq 8.16.1 (called Rocq nowadays) of theorems about a hand-written executable Gallina model, plus a differential correspondence check that runs the real Go code and evaluates the observed traces inside Coq against the model (`agrees`) and against the property oracle (`satisfies`). No network; everything offline. Other agents are building other properties in the same /verif tree at the same time.

THE PROPERTY (fixed text, do not change it):
id: {p['id']}
title: {p['title']}
statement: {p['statement']}
quantifier: {json.dumps(p['quantifier'])}
why tests cannot settle it: {p['why_tests_cant']}
anchors: {json.dumps(p['anchors'])}

START BY READING, in this order: /verif/BUILDING.md (the conventions you must follow exactly), /verif/DESIGN.md sections 0-5 and the section 7.x for {pid} (the intended model M, spec S, theorems T, harness H, anticipated findings F), then the worked example C15 listed in BUILDING.md, then the Go code the property is anchored in.

DELIVERABLES (all under /verif; create only files in your own directories plus the single import line in harness/all/all.go):
- coq/theories/{pid}_<Name>/Model.v (definitions + trace/agrees/satisfies), coq/theories/{pid}_<Name>/Proofs.v, coq/theories/Properties/{pid}.v
- translator/parts/{pid.lower()}.py if the property depends on constants/tables in the Go source
- harness/{pid.lower()}/*.go registered as "{pid}"; corpus/{pid}/ for minimized interesting cases
- bin/props.d/{pid}.py (then run bin/mkmanifest)
- findings/{pid}/… only if you find a genuine defect (see BUILDING.md; never edit /repo)
- a short /verif/notes/{pid}.md: what is modelled, the theorems (one line each), exact hypotheses/domain restrictions and why, what the harness generates, which deliberate wrong edits of the Go code you tried and whether the check caught them, what is left undone.

QUALITY BAR: the theorems must be real (universally quantified over all inputs/histories/schemas the property quantifies over, proved by induction/invariants/refinement; no Admitted/Axiom/admit; `Print Assumptions` = Closed under the global context), stated at full strength, each with a non-vacuity Example. The model must be faithful to the Go code as it is (including its quirks); where the code violates the property, follow the known-finding protocol rather than idealising the model. `agrees` must compare every observable the harness records; `satisfies` must judge the property on observed outputs only. The generator must produce structured, mostly valid inputs with boundary cases and a separate malformed stream, not uniform noise. The check must not raise a false alarm on the unchanged tree and must be deterministic for a fixed seed. Quick tier about one minute.

RULES: do not edit shared framework files (bin/check, bin/props.py, harness/kit, harness/cmd, coq/theories/Lib, coq/theories/Storage, translator/gen_params.py, MANIFEST.json by hand, DESIGN.md, properties.jsonl); if you need a helper, put it in your own package/directory. Do not run git commit/add/checkout in /verif or /repo (the coordinator commits). Do not leave scratch worktrees or files under /tmp when you finish. Use `flock /verif/.build/coq.lock` around `make` in /verif/coq. Be economical: read code selectively, keep files compact, prefer finishing a smaller faithful model with real theorems and a working check over an ambitious unfinished one; but do finish: `bin/check {pid}` must exit 0 with disagree=0 on the unchanged tree before you stop.
{extra}
When done, reply with a concise report: files created, theorems proved (names), domain restrictions, findings (if any) with the failing input, mutation edits tried and results, and anything the coordinator must do (e.g. a verif-tagged export file needed in /repo, as a patch).""")
