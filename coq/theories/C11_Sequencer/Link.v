(* C11 - link theorem: every action sequence the model accepts satisfies the oracle that the check
   evaluates on the observed actions.  Hence on every run on which code and model agree the
   property theorems transfer to the implementation's observed behaviour. *)
From Coq Require Import List NArith Lia Bool ZifyN ZifyNat ZifyBool.
From V Require Import Lib.Check Gen.Params C11_Sequencer.Model C11_Sequencer.Lemmas C11_Sequencer.Invariant C11_Sequencer.Preserve.
Import ListNotations.
Local Open Scope N_scope.

Definition keq (a b : kmap) : Prop := forall k, kget k a = kget k b.

Record Rg (g : ghost) (s : st) : Prop := mkRg {
  r_log : g_log g = p_log s;
  r_nums : keq (g_nums g) (p_nums s);
  r_off : g_off g = p_off s;
  r_txn : v_txn s = true -> keq (g_txn g) (v_inproc s);
  r_pend : forall vals off, (v_fl s = FSnap vals off \/ v_fl s = FNums vals off) ->
             keq (fst (g_pending g)) vals /\ snd (g_pending g) = off
}.

Lemma num_keq a b k : keq a b -> num a k = num b k.
Proof. intros H. unfold num. rewrite H. reflexivity. Qed.

Lemma keq_kmerge a b x y : keq a b -> keq x y -> keq (kmerge a x) (kmerge b y).
Proof. intros H1 H2 k. rewrite !kget_kmerge, H1, H2. reflexivity. Qed.

Lemma keq_kput a b k v : keq a b -> keq (kput k v a) (kput k v b).
Proof. intros H k'. rewrite !kget_kput, H. reflexivity. Qed.

Lemma pair_ok_of_P1 pn po lg : (forall k, log_max_below k lg po <= num pn k) -> pair_ok pn po lg = true.
Proof.
  intros H. unfold pair_ok. apply forallb_forall. intros k _. apply N.leb_le. specialize (H k). unfold num in H. exact H.
Qed.

Ltac step_cases H :=
  repeat match type of H with
         | context [match ?x with _ => _ end] => destruct x eqn:?
         end; try discriminate; inversion H; subst; clear H.

Ltac fin := constructor; cbn; auto; try (intros; congruence); try (intros ? ? [?|?]; discriminate); try (intros ? ? [?|?]; congruence).

Lemma Rg_init : Rg (mkG [] [] 0 ([], 0) []) init.
Proof. constructor; cbn; auto; try (intros k; reflexivity); try discriminate. intros vals off [H|H]; discriminate. Qed.

(* one step: the oracle's check for the action holds and the relation is kept *)
Lemma link_step c g s a s' : Inv s -> Rg g s -> step c s a = Some s' ->
  exists g', (forall r, oracle g (a :: r) = oracle g' r) /\ Rg g' s'.
Proof.
  intros HI HR H. pose proof (step_preserves_inv c s a s' HI H) as HI'.
  destruct HR as [Rl Rn Ro Rt Rp].
  destruct a.
  - (* CStart *)
    destruct ok.
    + pose proof (fun Hne => cstart_offset c s off s' HI H Hne) as Hoff.
      exists (mkG (g_log g) (g_nums g) (g_off g) (g_pending g) []). split.
      * intros r. cbn [oracle]. rewrite Rl. destruct (p_log s) eqn:El; [reflexivity|].
        rewrite (Hoff ltac:(discriminate)). rewrite N.eqb_refl. reflexivity.
      * cbn [step] in H. step_cases H. fin.
        intros _ k. destruct (i_notxn s HI) as [Hin _]; auto. rewrite Hin. reflexivity.
    + exists g. split; [reflexivity|]. cbn [step] in H. step_cases H; fin.
  - (* CNext *)
    destruct (cnext_fresh c s k n s' HI H) as (F1 & F2 & F3).
    assert (Ht : v_txn s = true) by (cbn [step] in H; destruct (v_txn s); [reflexivity|discriminate]).
    exists (mkG (g_log g) (g_nums g) (g_off g) (g_pending g) (kput k n (g_txn g))). split.
    + intros r. cbn [oracle]. rewrite Rl.
      destruct (N.ltb_spec (log_max k (p_log s)) n); [|lia].
      fold (num (g_nums g) k). rewrite (num_keq _ _ k Rn). destruct (N.ltb_spec (num (p_nums s) k) n); [|lia].
      rewrite (Rt Ht k). destruct (kget k (v_inproc s)) as [i|] eqn:Ei.
      * specialize (F3 i eq_refl). destruct (N.ltb_spec i n); [reflexivity|lia].
      * destruct (N.ltb_spec 0 n); [reflexivity|lia].
    + cbn [step] in H. rewrite Ht in H. cbn [negb orb] in H.
      assert (E : p_log s' = p_log s /\ p_nums s' = p_nums s /\ p_off s' = p_off s /\ v_fl s' = v_fl s /\ v_inproc s' = kput k n (v_inproc s)).
      { step_cases H; cbn; auto. }
      destruct E as (E1 & E2 & E3 & E4 & E5). constructor; cbn [g_log g_nums g_off g_pending g_txn]; try congruence.
      * intros _. rewrite E5. apply keq_kput. apply Rt. exact Ht.
      * rewrite E4. exact Rp.
  - (* EAppend *)
    exists (mkG (g_log g ++ [(off, vals)]) (g_nums g) (g_off g) (g_pending g) (g_txn g)). split; [reflexivity|].
    cbn [step] in H. step_cases H. fin. intros _. apply Rt. destruct (v_txn s); [reflexivity|cbn in *; discriminate].
  - (* CFlush *)
    exists g. split; [reflexivity|]. cbn [step] in H. step_cases H. fin.
  - (* CActualize *)
    exists g. split; [reflexivity|]. cbn [step] in H. step_cases H. fin.
  - exists g. split; [reflexivity|]. cbn [step] in H. step_cases H. fin.
  - exists g. split; [reflexivity|]. cbn [step] in H. step_cases H. fin.
  - exists g. split; [reflexivity|]. cbn [step] in H. step_cases H. fin.
  - (* FSnapshot *)
    exists (mkG (g_log g) (g_nums g) (g_off g) (vals, off) (g_txn g)). split; [reflexivity|].
    cbn [step] in H. destruct (v_fl s) eqn:Efl; try discriminate.
    destruct (negb (v_tbfoff s =? 0)); [|discriminate]. cbn [andb] in H.
    destruct (N.eqb_spec off (v_tbfoff s)); [|discriminate]. cbn [andb] in H.
    destruct (keqb vals (v_tbf s)) eqn:Ek; [|discriminate]. inversion H; subst s'. clear H.
    constructor; cbn; auto. intros v o [X|X]; inversion X; subst. split; [exact (keqb_get _ _ Ek)|reflexivity].
  - (* FWriteNums *)
    cbn [step] in H. destruct (v_fl s) as [| |vals off| |] eqn:Efl; try discriminate. inversion H; subst s'. clear H.
    destruct (Rp vals off (or_introl eq_refl)) as [P1 P2].
    exists (mkG (g_log g) (kmerge (g_nums g) (fst (g_pending g))) (g_off g) (g_pending g) (g_txn g)). split.
    + intros r. cbn [oracle]. rewrite Rl, Ro.
      rewrite pair_ok_of_P1; [reflexivity|]. intros k.
      rewrite (num_keq _ (kmerge (p_nums s) vals) k (keq_kmerge _ _ _ _ Rn P1)). apply (i_P1 _ HI').
    + constructor; cbn; auto.
      * apply keq_kmerge; auto.
      * intros v o [X|X]; inversion X; subst. auto.
  - (* FWriteOff *)
    cbn [step] in H. destruct (v_fl s) as [| | |vals off|] eqn:Efl; try discriminate. inversion H; subst s'. clear H.
    destruct (Rp vals off (or_intror eq_refl)) as [P1 P2].
    exists (mkG (g_log g) (g_nums g) (snd (g_pending g)) (g_pending g) (g_txn g)). split.
    + intros r. cbn [oracle]. rewrite Rl, P2.
      rewrite pair_ok_of_P1; [reflexivity|]. intros k. rewrite (num_keq _ _ k Rn). apply (i_P1 _ HI').
    + constructor; cbn; auto. intros v o [X|X]; discriminate.
  - (* FWriteErr *)
    exists g. split; [reflexivity|]. cbn [step] in H. destruct (v_fl s) as [| |vals off|vals off|] eqn:Efl; try discriminate.
    + inversion H; subst s'. constructor; auto. rewrite Efl. exact Rp.
    + inversion H; subst s'. constructor; cbn; auto. intros v o [X|X]; inversion X; subst. apply Rp. right. reflexivity.
  - exists g. split; [reflexivity|]. cbn [step] in H. step_cases H. fin.
  - exists g. split; [reflexivity|]. cbn [step] in H. step_cases H. fin.
  - exists g. split; [reflexivity|]. cbn [step] in H. step_cases H. fin.
  - exists g. split; [reflexivity|]. cbn [step] in H. step_cases H. fin.
  - exists g. split; [reflexivity|]. cbn [step] in H. step_cases H; fin.
  - exists g. split; [reflexivity|]. cbn [step] in H. step_cases H. fin.
  - exists g. split; [reflexivity|]. cbn [step] in H. step_cases H. fin.
  - exists g. split; [reflexivity|]. cbn [step] in H. step_cases H; fin.
  - exists g. split; [reflexivity|]. cbn [step] in H. step_cases H. fin.
  - exists g. split; [reflexivity|]. cbn [step] in H. step_cases H. fin.
  - exists g. split; [reflexivity|]. cbn [step] in H. step_cases H. fin.
Qed.

Theorem accepted_runs_satisfy_oracle c acts : forall g s s',
  Inv s -> Rg g s -> run c s acts = Some s' -> oracle g acts = true.
Proof.
  induction acts as [|a r IH]; intros g s s' HI HR H; [reflexivity|].
  cbn [run] in H. destruct (step c s a) as [s1|] eqn:Es; [|discriminate].
  destruct (link_step c g s a s1 HI HR Es) as (g' & Ho & HR').
  rewrite Ho. eapply IH; [eapply step_preserves_inv; eauto|exact HR'|exact H].
Qed.

Lemma first_rejected_none_run c acts : forall s i, first_rejected c s i acts = None -> exists s', run c s acts = Some s'.
Proof.
  induction acts as [|a r IH]; intros s i H; cbn in *; [eauto|].
  destruct (step c s a) as [s1|]; [|discriminate]. eapply IH; eauto.
Qed.

Theorem agrees_implies_satisfies_proved t : agrees t = true -> satisfies t = true.
Proof.
  unfold agrees, satisfies. destruct (first_rejected _ init 0 (t_acts t)) eqn:E; [discriminate|]. intros _.
  destruct (first_rejected_none_run _ _ _ _ E) as [s' Hs'].
  eapply accepted_runs_satisfy_oracle; [exact Inv_init|exact Rg_init|exact Hs'].
Qed.
