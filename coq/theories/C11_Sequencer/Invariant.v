(* C11 - the inductive invariant of the sequencer model and its preservation by every action. *)
From Coq Require Import List NArith Lia Bool ZifyN ZifyNat ZifyBool.
From V Require Import Lib.Check Gen.Params C11_Sequencer.Model C11_Sequencer.Lemmas.
Import ListNotations.
Local Open Scope N_scope.

(* the repaired batcher publishes offset and numbers in one critical section *)
Lemma batcher_is_one_step : seq_batcher_two_step = false.
Proof. reflexivity. Qed.

Definition snap_val (vals pn : kmap) (k : N) : N := match kget k vals with Some v => v | None => num pn k end.

Definition scanning (a : apc) : Prop := exists t, a = AScan t.

Record Inv (s : st) : Prop := mkInv {
  i_sorted : offs_sorted (p_log s);
  i_mono : log_mono (p_log s);
  i_P1 : forall k, log_max_below k (p_log s) (p_off s) <= num (p_nums s) k;
  i_F : forall k, num (p_nums s) k <= log_max k (p_log s);
  i_Ftbf : forall k v, kget k (v_tbf s) = Some v -> v <= log_max k (p_log s);
  i_cov : v_act s <> ACleared -> forall k, log_max_below k (p_log s) (v_next s) <= eff (v_tbf s) (p_nums s) k;
  i_tboff : v_tbfoff s = 0 \/ (p_off s <= v_tbfoff s /\ v_tbfoff s <= v_next s);
  i_ponext : (v_act s = ANone \/ scanning (v_act s)) -> p_off s <= v_next s;
  i_idle : v_act s = ANone -> forall e, In e (p_log s) -> fst e < v_next s \/ (v_app s = true /\ fst e = v_next s);
  i_app : v_app s = true -> v_txn s = true /\
            exists done vals, p_log s = done ++ [(v_next s, vals)] /\ forall k, kget k vals = kget k (v_inproc s);
  i_txn : v_txn s = true -> v_act s = ANone;
  i_notxn : v_txn s = false -> v_inproc s = [] /\ v_app s = false;
  i_scan : forall todo, v_act s = AScan todo ->
            exists done, p_log s = done ++ todo /\ (forall e, In e done -> fst e < v_next s) /\ (forall e, In e todo -> v_next s <= fst e);
  i_between : forall e todo, v_act s <> ABetween e todo;
  i_cleared : v_act s = ACleared -> v_tbf s = [] /\ v_tbfoff s = 0 /\ (v_fl s = FWait \/ v_fl s = FWoken);
  i_snap : forall vals off, (v_fl s = FSnap vals off \/ v_fl s = FNums vals off) ->
            off <> 0 /\ p_off s <= off /\ off <= v_next s /\ off <= v_tbfoff s /\ NoDup (map fst vals) /\
            (forall k, log_max_below k (p_log s) off <= snap_val vals (p_nums s) k) /\
            (forall k v, kget k vals = Some v -> (exists v', kget k (v_tbf s) = Some v') /\ v <= log_max k (p_log s));
  i_nums : forall vals off, v_fl s = FNums vals off -> forall k v, kget k vals = Some v -> num (p_nums s) k = v;
  i_written : forall vals, v_fl s = FWritten vals -> NoDup (map fst vals) /\ forall k v, kget k vals = Some v -> num (p_nums s) k = v;
  i_nodup : NoDup (map fst (v_tbf s));
  i_inproc : forall k i, kget k (v_inproc s) = Some i ->
            eff (v_tbf s) (p_nums s) k <= i /\ log_max k (p_log s) <= i /\ (v_app s = false -> log_max k (p_log s) < i);
  i_cache : forall k c, kget k (v_cache s) = Some c ->
            eff (v_tbf s) (p_nums s) k <= c /\ log_max k (p_log s) <= c /\ (forall i, kget k (v_inproc s) = Some i -> i <= c);
  i_cachempty : v_act s <> ANone -> v_cache s = [];
  i_nextle : p_log s <> [] -> v_next s <= last_off (p_log s) + 1;
  i_pole : p_log s <> [] -> p_off s <= last_off (p_log s) + 1
}.

Lemma Inv_fresh pn po lg :
  offs_sorted lg -> log_mono lg ->
  (forall k, log_max_below k lg po <= num pn k) ->
  (forall k, num pn k <= log_max k lg) ->
  (lg <> [] -> po <= last_off lg + 1) ->
  Inv (fresh pn po lg).
Proof.
  intros S M P1 F PL. constructor; cbn [fresh p_nums p_off p_log v_cache v_inproc v_tbf v_tbfoff v_next v_txn v_app v_act v_fl v_flrun v_flcancel v_sig kget];
    auto; try discriminate; try (intros; discriminate); try (intros; congruence).
  - intros _ k. rewrite log_max_below_none by (intros; lia). lia.
  - intros [H|[t H]]; discriminate.
  - intros vals off [H|H]; discriminate.
  - constructor.
  - intros _. lia.
Qed.

Lemma Inv_init : Inv init.
Proof. apply Inv_fresh; cbn; auto; try (intros; lia); try (intros H; contradiction). constructor. Qed.
