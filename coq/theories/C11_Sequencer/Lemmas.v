(* C11 - lemmas about the small maps and the log measures used by the sequencer model. *)
From Coq Require Import List NArith Lia Bool ZifyN ZifyNat ZifyBool.
From V Require Import Lib.Check Gen.Params C11_Sequencer.Model.
Import ListNotations.
Local Open Scope N_scope.

Definition num (m : kmap) (k : N) : N := match kget k m with Some v => v | None => 0 end.
Definition eff (tbf pn : kmap) (k : N) : N := match kget k tbf with Some v => v | None => num pn k end.

(* ---- kget / kdel / kput / kmerge ---- *)

Lemma kget_kdel_same k m : kget k (kdel k m) = None.
Proof.
  induction m as [|[k' v] r IH]; cbn; auto.
  destruct (N.eqb_spec k k'); auto. cbn. destruct (N.eqb_spec k k'); [contradiction|auto].
Qed.

Lemma kget_kdel_other k k' m : k <> k' -> kget k' (kdel k m) = kget k' m.
Proof.
  intros N. induction m as [|[k0 v] r IH]; cbn; auto.
  destruct (N.eqb_spec k k0).
  - subst. destruct (N.eqb_spec k' k0); [congruence|auto].
  - cbn. destruct (N.eqb_spec k' k0); auto.
Qed.

Lemma kget_kput_same k v m : kget k (kput k v m) = Some v.
Proof. unfold kput. cbn. rewrite N.eqb_refl. reflexivity. Qed.

Lemma kget_kput_other k k' v m : k <> k' -> kget k' (kput k v m) = kget k' m.
Proof.
  intros N. unfold kput. cbn. destruct (N.eqb_spec k' k); [congruence|]. apply kget_kdel_other. exact N.
Qed.

Lemma kget_kput k k' v m : kget k' (kput k v m) = if k' =? k then Some v else kget k' m.
Proof.
  destruct (N.eqb_spec k' k).
  - subst. apply kget_kput_same.
  - apply kget_kput_other. congruence.
Qed.

(* maps.Copy: the source overrides *)
Lemma kget_kmerge k dst src :
  kget k (kmerge dst src) = match kget k src with Some v => Some v | None => kget k dst end.
Proof.
  unfold kmerge. induction src as [|[k' v] r IH]; [reflexivity|].
  cbn [fold_right fst snd]. rewrite kget_kput. cbn [kget]. destruct (N.eqb_spec k k'); auto.
Qed.

Lemma kget_kmerge_nil_l k src : kget k (kmerge [] src) = kget k src.
Proof. rewrite kget_kmerge. destruct (kget k src); reflexivity. Qed.

(* removal of flushed values: a binding disappears only if it equals a flushed one *)
Definition rm_step (acc : kmap) (kv : N * N) : kmap :=
  match kget (fst kv) acc with
  | Some v => if v =? snd kv then kdel (fst kv) acc else acc
  | None => acc
  end.

Lemma kremove_same_cons m kv r : kremove_same m (kv :: r) = kremove_same (rm_step m kv) r.
Proof. reflexivity. Qed.

Lemma rm_step_get k m kv v : kget k (rm_step m kv) = Some v -> kget k m = Some v.
Proof.
  unfold rm_step. destruct kv as [k' v']. cbn [fst snd].
  destruct (kget k' m) as [v0|] eqn:E; auto. destruct (N.eqb_spec v0 v'); auto. subst.
  destruct (N.eq_dec k' k) as [->|Nk]; [rewrite kget_kdel_same; discriminate|].
  rewrite kget_kdel_other by assumption. auto.
Qed.

Lemma rm_step_none k m kv : kget k (rm_step m kv) = None ->
  kget k m = None \/ (kget k m = Some (snd kv) /\ fst kv = k).
Proof.
  unfold rm_step. destruct kv as [k' v']. cbn [fst snd].
  destruct (kget k' m) as [v0|] eqn:E; auto. destruct (N.eqb_spec v0 v'); auto. subst.
  destruct (N.eq_dec k' k) as [->|Nk]; [auto|].
  rewrite kget_kdel_other by assumption. auto.
Qed.

Lemma kremove_same_get k m vals v : kget k (kremove_same m vals) = Some v -> kget k m = Some v.
Proof.
  revert m. induction vals as [|kv r IH]; intros m H; [exact H|].
  rewrite kremove_same_cons in H. apply IH in H. eapply rm_step_get; eauto.
Qed.

Lemma kremove_same_none k m vals : kget k (kremove_same m vals) = None ->
  kget k m = None \/ exists v, kget k m = Some v /\ In (k, v) vals.
Proof.
  revert m. induction vals as [|kv r IH]; intros m H; [left; exact H|].
  rewrite kremove_same_cons in H. apply IH in H. destruct H as [H|[v [H1 H2]]].
  - apply rm_step_none in H. destruct H as [H|[H1 H2]]; [auto|].
    right. exists (snd kv). split; auto. left. destruct kv; cbn in *; subst; reflexivity.
  - right. exists v. split; [eapply rm_step_get; eauto|right; exact H2].
Qed.

Lemma ksub_spec a b : ksub a b = true -> forall k v, In (k, v) a -> kget k b = Some v.
Proof.
  unfold ksub. rewrite forallb_forall. intros H k v Hin. specialize (H _ Hin). cbn in H.
  destruct (kget k b) as [v'|]; [|discriminate]. apply N.eqb_eq in H. congruence.
Qed.

Lemma kget_In k m v : kget k m = Some v -> In (k, v) m.
Proof.
  induction m as [|[k' v'] r IH]; cbn; [discriminate|].
  destruct (N.eqb_spec k k'); intros H; [inversion H; subst; auto|auto].
Qed.

(* keqb a b: every first binding of one is the binding of the other *)
Lemma keqb_get a b : keqb a b = true -> forall k, kget k a = kget k b.
Proof.
  unfold keqb. intros H k. apply andb_prop in H. destruct H as [Hab Hba].
  destruct (kget k a) as [v|] eqn:Ea.
  - symmetry. eapply ksub_spec; eauto. apply kget_In. exact Ea.
  - destruct (kget k b) as [v|] eqn:Eb; auto.
    pose proof (ksub_spec _ _ Hba k v (kget_In _ _ _ Eb)). congruence.
Qed.

Lemma filter_all_true' {T} (f : T -> bool) (l : list T) : (forall x, In x l -> f x = true) -> filter f l = l.
Proof.
  induction l as [|x l IH]; cbn; auto. intros H. rewrite (H x) by (left; reflexivity).
  f_equal. apply IH. intros y Hy. apply H. right. exact Hy.
Qed.

(* ---- log measures ---- *)

Definition ev_val (k : N) (e : event) : N := match kget k (snd e) with Some v => v | None => 0 end.

Lemma log_max_below_app k lg e off :
  log_max_below k (lg ++ [e]) off =
  if fst e <? off then N.max (log_max_below k lg off) (ev_val k e) else log_max_below k lg off.
Proof.
  unfold log_max_below, ev_val. rewrite fold_left_app. cbn.
  destruct (fst e <? off); auto. destruct (kget k (snd e)); auto. symmetry; apply N.max_0_r.
Qed.

Lemma log_max_app k lg e : log_max k (lg ++ [e]) = N.max (log_max k lg) (ev_val k e).
Proof.
  unfold log_max, ev_val. rewrite fold_left_app. cbn. destruct (kget k (snd e)); auto. symmetry; apply N.max_0_r.
Qed.

Lemma fold_max_ge {T} (f : N -> T -> N) (l : list T) (a : N) :
  (forall m x, m <= f m x) -> a <= fold_left f l a.
Proof.
  intros H. revert a. induction l as [|x l IH]; intros a; cbn; [lia|].
  specialize (IH (f a x)). specialize (H a x). lia.
Qed.

Lemma fold_max_mono {T} (f g : N -> T -> N) (l : list T) (a b : N) :
  (forall m n x, m <= n -> f m x <= g n x) -> a <= b -> fold_left f l a <= fold_left g l b.
Proof.
  intros H. revert a b. induction l as [|x l IH]; intros a b Hab; cbn; auto.
Qed.

Lemma log_max_below_le_max k lg off : log_max_below k lg off <= log_max k lg.
Proof.
  unfold log_max_below, log_max. apply fold_max_mono; [|lia].
  intros m n e Hmn. destruct (fst e <? off); destruct (kget k (snd e)); lia.
Qed.

Lemma log_max_below_mono k lg o o' : o <= o' -> log_max_below k lg o <= log_max_below k lg o'.
Proof.
  intros Ho. unfold log_max_below. apply fold_max_mono; [|lia].
  intros m n e Hmn. destruct (N.ltb_spec (fst e) o); destruct (N.ltb_spec (fst e) o'); destruct (kget k (snd e)); lia.
Qed.

Lemma log_max_below_all k lg off : (forall e, In e lg -> fst e < off) -> log_max_below k lg off = log_max k lg.
Proof.
  induction lg as [|e lg IH] using rev_ind; intros H; [reflexivity|].
  rewrite log_max_below_app, log_max_app.
  assert (He : fst e < off) by (apply H, in_or_app; right; left; reflexivity).
  destruct (N.ltb_spec (fst e) off); [|lia]. rewrite IH; auto.
  intros e' Hin. apply H, in_or_app. auto.
Qed.

Lemma log_max_below_none k lg off : (forall e, In e lg -> off <= fst e) -> log_max_below k lg off = 0.
Proof.
  induction lg as [|e lg IH] using rev_ind; intros H; [reflexivity|].
  rewrite log_max_below_app.
  assert (He : off <= fst e) by (apply H, in_or_app; right; left; reflexivity).
  destruct (N.ltb_spec (fst e) off); [lia|]. apply IH. intros e' Hin. apply H, in_or_app. auto.
Qed.

(* log_max_below over a split log *)
Lemma log_max_below_split k done todo off :
  (forall e, In e done -> fst e < off) -> (forall e, In e todo -> off <= fst e) ->
  log_max_below k (done ++ todo) off = log_max k done.
Proof.
  intros Hd Ht. induction todo as [|e todo IH] using rev_ind.
  - rewrite app_nil_r. apply log_max_below_all. exact Hd.
  - rewrite app_assoc, log_max_below_app.
    assert (He : off <= fst e) by (apply Ht, in_or_app; right; left; reflexivity).
    destruct (N.ltb_spec (fst e) off); [lia|]. apply IH. intros e' Hin. apply Ht, in_or_app. auto.
Qed.

Lemma last_off_app lg e : last_off (lg ++ [e]) = N.max (last_off lg) (fst e).
Proof. unfold last_off. rewrite fold_left_app. reflexivity. Qed.

Lemma last_off_ge lg e : In e lg -> fst e <= last_off lg.
Proof.
  induction lg as [|x lg IH] using rev_ind; [intros []|].
  rewrite last_off_app. intros H. apply in_app_or in H. destruct H as [H|[<-|[]]]; [specialize (IH H)|]; lia.
Qed.

(* strictly increasing offsets *)
Fixpoint offs_sorted (lg : list event) : Prop :=
  match lg with
  | [] => True
  | e :: r => (forall e', In e' r -> fst e < fst e') /\ offs_sorted r
  end.

Lemma offs_sorted_app lg e : offs_sorted lg -> (forall e', In e' lg -> fst e' < fst e) -> offs_sorted (lg ++ [e]).
Proof.
  induction lg as [|x lg IH]; intros S H; cbn; [tauto|].
  destruct S as [S1 S2]. split.
  - intros e' Hin. apply in_app_or in Hin. destruct Hin as [Hin|[<-|[]]]; [auto|apply H; left; reflexivity].
  - apply IH; auto. intros e' Hin. apply H. right. exact Hin.
Qed.

Lemma offs_sorted_app_inv a b : offs_sorted (a ++ b) ->
  offs_sorted a /\ offs_sorted b /\ forall x y, In x a -> In y b -> fst x < fst y.
Proof.
  induction a as [|e a IH]; cbn; intros S.
  - repeat split; auto. intros x y [].
  - destruct S as [S1 S2]. destruct (IH S2) as (Ha & Hb & Hab). repeat split; auto.
    + intros e' Hin. apply S1, in_or_app. auto.
    + intros x y [<-|Hx] Hy; [apply S1, in_or_app; auto|auto].
Qed.

(* for a sorted log, the events at or above an offset are a suffix *)
Lemma log_from_split lg off : offs_sorted lg ->
  exists done, lg = done ++ log_from lg off /\ (forall e, In e done -> fst e < off) /\ (forall e, In e (log_from lg off) -> off <= fst e).
Proof.
  intros S. induction lg as [|e lg IH]; cbn.
  - exists []. repeat split; auto; intros e [].
  - destruct S as [S1 S2]. destruct (IH S2) as (done & E & Hd & Ht).
    destruct (N.leb_spec off (fst e)) as [Hle|Hlt].
    + (* e and everything after it is at or above off: nothing before *)
      exists []. cbn. split; [|split; [intros x []|]].
      * f_equal. unfold log_from. symmetry. apply filter_all_true'. intros x Hx. apply N.leb_le.
        specialize (S1 x Hx). lia.
      * intros x [<-|Hx]; [exact Hle|]. unfold log_from in Hx. apply filter_In in Hx. destruct Hx as [_ Hx]. apply N.leb_le. exact Hx.
    + exists (e :: done). cbn. split; [f_equal; exact E|]. split; [intros x [<-|Hx]; auto|exact Ht].
Qed.

(* ---- the LRU cache ---- *)

Lemma kget_removelast k m v : kget k (removelast m) = Some v -> kget k m = Some v.
Proof.
  induction m as [|[k' v'] r IH]; cbn; [discriminate|].
  destruct r as [|x r']; [cbn; discriminate|].
  cbn [kget]. destruct (N.eqb_spec k k'); auto.
Qed.

Lemma lru_add_get cap k n c k' v : kget k' (lru_add cap k n c) = Some v ->
  (k' = k /\ v = n) \/ (k' <> k /\ kget k' c = Some v).
Proof.
  unfold lru_add. intros H.
  assert (G : kget k' ((k, n) :: kdel k c) = Some v).
  { destruct (ksize ((k, n) :: kdel k c) <=? cap); [exact H|apply kget_removelast; exact H]. }
  cbn [kget] in G. destruct (N.eqb_spec k' k).
  - left. inversion G; auto.
  - right. split; auto. rewrite kget_kdel_other in G by congruence. exact G.
Qed.

Lemma lru_get_spec k c v c' : lru_get k c = Some (v, c') ->
  kget k c = Some v /\ forall k', kget k' c' = kget k' c.
Proof.
  unfold lru_get. destruct (kget k c) as [v0|] eqn:E; [|discriminate]. intros H; inversion H; subst.
  split; auto. intros k'. cbn [kget]. destruct (N.eqb_spec k' k); [subst; auto|].
  apply kget_kdel_other. congruence.
Qed.

Lemma lru_get_none k c : lru_get k c = None -> kget k c = None.
Proof. unfold lru_get. destruct (kget k c); [discriminate|auto]. Qed.

Lemma ev_val_le_log_max k lg e : In e lg -> ev_val k e <= log_max k lg.
Proof.
  induction lg as [|x lg IH] using rev_ind; [intros []|].
  rewrite log_max_app. intros H. apply in_app_or in H. destruct H as [H|[<-|[]]]; [specialize (IH H)|]; lia.
Qed.

Lemma kget_le_log_max k lg e v : In e lg -> kget k (snd e) = Some v -> v <= log_max k lg.
Proof. intros Hin Hk. pose proof (ev_val_le_log_max k lg e Hin) as H. unfold ev_val in H. rewrite Hk in H. exact H. Qed.

(* ---- maps keep their keys unique ---- *)

Lemma In_kdel k k' m : In k' (map fst (kdel k m)) -> In k' (map fst m) /\ k' <> k.
Proof.
  induction m as [|[k0 v] r IH]; cbn; [tauto|].
  destruct (N.eqb_spec k k0).
  - subst. intros H. destruct (IH H). split; auto.
  - cbn. intros [<-|H]; [split; auto; congruence|]. destruct (IH H). split; auto.
Qed.

Lemma NoDup_kdel k m : NoDup (map fst m) -> NoDup (map fst (kdel k m)).
Proof.
  induction m as [|[k0 v] r IH]; cbn; intros ND; [constructor|].
  inversion ND as [|? ? Hn Hr]; subst. destruct (N.eqb_spec k k0); [auto|].
  cbn. constructor; auto. intros Hin. apply In_kdel in Hin. tauto.
Qed.

Lemma NoDup_kput k v m : NoDup (map fst m) -> NoDup (map fst (kput k v m)).
Proof.
  intros ND. unfold kput. cbn. constructor; [|apply NoDup_kdel; exact ND].
  intros Hin. apply In_kdel in Hin. tauto.
Qed.

Lemma NoDup_kmerge dst src : NoDup (map fst dst) -> NoDup (map fst (kmerge dst src)).
Proof.
  intros ND. unfold kmerge. induction src as [|[k v] r IH]; cbn [fold_right fst snd]; auto. apply NoDup_kput. exact IH.
Qed.

Lemma NoDup_rm_step m kv : NoDup (map fst m) -> NoDup (map fst (rm_step m kv)).
Proof.
  intros ND. unfold rm_step. destruct (kget (fst kv) m); auto. destruct (_ =? _); auto. apply NoDup_kdel. exact ND.
Qed.

Lemma NoDup_kremove m vals : NoDup (map fst m) -> NoDup (map fst (kremove_same m vals)).
Proof.
  revert m. induction vals as [|kv r IH]; intros m ND; [exact ND|].
  rewrite kremove_same_cons. apply IH. apply NoDup_rm_step. exact ND.
Qed.

Lemma NoDup_In_kget k v m : NoDup (map fst m) -> In (k, v) m -> kget k m = Some v.
Proof.
  induction m as [|[k0 v0] r IH]; cbn; [tauto|]. intros ND [E|Hin].
  - inversion E; subst. rewrite N.eqb_refl. reflexivity.
  - inversion ND as [|? ? Hn Hr]; subst. destruct (N.eqb_spec k k0).
    + subst. exfalso. apply Hn. apply (in_map fst) in Hin. exact Hin.
    + apply IH; auto.
Qed.

(* ---- numbers recorded for a key grow along the log ---- *)
Inductive log_mono : list event -> Prop :=
| mono_nil : log_mono []
| mono_snoc lg e : log_mono lg -> (forall k v, kget k (snd e) = Some v -> log_max k lg <= v) -> log_mono (lg ++ [e]).

Lemma log_mono_prefix a b : log_mono (a ++ b) -> log_mono a.
Proof.
  induction b as [|x b IH] using rev_ind; intros H.
  - rewrite app_nil_r in H. exact H.
  - rewrite app_assoc in H. inversion H as [E|lg e Hl He E].
    + destruct (a ++ b); discriminate.
    + apply app_inj_tail in E. destruct E as [-> ->]. apply IH. exact Hl.
Qed.

Lemma log_mono_at done e rest : log_mono (done ++ e :: rest) ->
  forall k v, kget k (snd e) = Some v -> log_max k done <= v.
Proof.
  intros H. replace (done ++ e :: rest) with ((done ++ [e]) ++ rest) in H by (rewrite <- app_assoc; reflexivity).
  apply log_mono_prefix in H. inversion H as [E|lg e' Hl He E].
  - destruct done; discriminate.
  - apply app_inj_tail in E. destruct E as [-> ->]. exact He.
Qed.
