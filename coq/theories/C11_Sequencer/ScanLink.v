(* C11 - the real log scan connected to the invariant of the interleaving model: a sequencer
   (re)started on a persisted pair over a protocol log, reading it through the filtered scan, starts in
   a state that satisfies Inv, so every theorem about reachable states holds from there; the
   unfiltered scan (finding C11-F2) does not meet the hypothesis and the model re-issues a number. *)
From Coq Require Import List NArith Lia Bool.
From V Require Import Lib.Check Gen.Params C11_Sequencer.Model C11_Sequencer.Lemmas C11_Sequencer.Invariant
  C11_Sequencer.Preserve C11_Sequencer.Scan.
Import ListNotations.
Local Open Scope N_scope.

(* ---- boolean checkers for concrete events / logs (used by the examples and witnesses) ---- *)
Definition ids_okb (e : sevent) : bool :=
  forallb (fun id => in_reserved id || (seq_first_user_id <=? id)) (rec_ids e).

Lemma ids_okb_ok e : ids_okb e = true -> ids_ok e.
Proof.
  unfold ids_okb, ids_ok. rewrite forallb_forall. intros H id Hin. specialize (H id Hin).
  apply orb_true_iff in H. destruct H as [H|H]; [left; exact H|right; apply N.leb_le; exact H].
Qed.

Definition follows (e : sevent) (off : N) (oe' : N * sevent) : bool :=
  (fst oe' <? off) &&
  (if se_ws (snd oe') =? se_ws e
   then (se_wlog (snd oe') <=? se_wlog e)
        && forallb (fun id => forallb (fun id' => id' <=? id) (issued_ids (snd oe'))) (issued_ids e)
   else true).

Fixpoint protocol_from (done todo : list (N * sevent)) : bool :=
  match todo with
  | [] => true
  | (off, e) :: r => ids_okb e && forallb (follows e off) done && protocol_from (done ++ [(off, e)]) r
  end.

Lemma protocol_from_ok todo : forall done, protocol_log done -> protocol_from done todo = true -> protocol_log (done ++ todo).
Proof.
  induction todo as [|[off e] r IH]; intros done Hd H.
  - rewrite app_nil_r. exact Hd.
  - cbn in H. apply andb_true_iff in H. destruct H as [H H3]. apply andb_true_iff in H. destruct H as [H1 H2].
    replace (done ++ (off, e) :: r) with ((done ++ [(off, e)]) ++ r) by (rewrite <- app_assoc; reflexivity).
    apply IH; [|exact H3]. rewrite forallb_forall in H2.
    constructor; [exact Hd|apply ids_okb_ok; exact H1| |].
    + intros o' e' Hin. specialize (H2 _ Hin). unfold follows in H2. apply andb_true_iff in H2.
      destruct H2 as [H2 _]. apply N.ltb_lt in H2. exact H2.
    + intros o' e' Hin Ews. specialize (H2 _ Hin). unfold follows in H2. apply andb_true_iff in H2.
      destruct H2 as [_ H2]. cbn [snd] in H2. rewrite Ews, N.eqb_refl in H2. apply andb_true_iff in H2.
      destruct H2 as [Hw Hi]. split; [apply N.leb_le; exact Hw|].
      intros id id' Hid Hid'. rewrite forallb_forall in Hi. specialize (Hi id Hid).
      rewrite forallb_forall in Hi. apply N.leb_le. apply Hi. exact Hid'.
Qed.

Definition protocol_logb (lg : list (N * sevent)) : bool := protocol_from [] lg.

Lemma protocol_logb_ok lg : protocol_logb lg = true -> protocol_log lg.
Proof. intros H. apply (protocol_from_ok lg [] pl_nil H). Qed.

(* ---- (b) the hypothesis of the invariant holds of what the filtered scan delivers ---- *)
Lemma real_scan_log_ok lg : protocol_log lg -> log_mono (model_log true lg) /\ offs_sorted (model_log true lg).
Proof. intros H. split; [apply model_log_mono; exact H|apply model_log_sorted; exact H]. Qed.

(* a persisted pair that the flusher can have left behind: covers the log below its offset, holds no
   number the log does not have, its offset is at most one past the log *)
Definition pair_fits (pn : kmap) (po : N) (L : list event) : Prop :=
  (forall k, log_max_below k L po <= num pn k) /\ (forall k, num pn k <= log_max k L) /\ (L <> [] -> po <= last_off L + 1).

Lemma real_scan_restart_inv lg pn po :
  protocol_log lg -> pair_fits pn po (model_log true lg) -> Inv (fresh pn po (model_log true lg)).
Proof.
  intros Hp (P1 & F & PL). destruct (real_scan_log_ok lg Hp) as [M S]. apply Inv_fresh; auto.
Qed.

Lemma real_scan_restart_reachable c lg pn po acts s :
  protocol_log lg -> pair_fits pn po (model_log true lg) ->
  run c (fresh pn po (model_log true lg)) acts = Some s -> Inv s.
Proof. intros Hp Hf H. eapply reachable_inv; [apply real_scan_restart_inv; eauto|exact H]. Qed.

Lemma real_scan_next_fresh c lg pn po acts s k n s' :
  protocol_log lg -> pair_fits pn po (model_log true lg) ->
  run c (fresh pn po (model_log true lg)) acts = Some s -> step c s (CNext k n) = Some s' ->
  log_max k (p_log s) < n /\ num (p_nums s) k < n /\ (forall i, kget k (v_inproc s) = Some i -> i < n).
Proof. intros Hp Hf H. apply cnext_fresh. eapply real_scan_restart_reachable; eauto. Qed.

Lemma real_scan_pair_consistent c lg pn po acts s :
  protocol_log lg -> pair_fits pn po (model_log true lg) ->
  run c (fresh pn po (model_log true lg)) acts = Some s ->
  forall k, log_max_below k (p_log s) (p_off s) <= num (p_nums s) k.
Proof. intros Hp Hf H. apply i_P1. eapply real_scan_restart_reachable; eauto. Qed.

(* ---- the witness of C11-F2 ---- *)
Definition f2_docs : sevent := mkSEv 1 1 false [] [(true, 200001); (true, 200002); (true, 200003); (true, 200004); (true, 200005)].
Definition f2_single : sevent := mkSEv 1 2 false [] [(true, 65536)].
Definition f2_log : list (N * sevent) := [(1, f2_docs); (2, f2_single)].
Definition f2_key : skey := (1, seq_record_id_seq).

Lemma f2_log_protocol : protocol_log f2_log.
Proof. apply protocol_logb_ok. vm_compute. reflexivity. Qed.

Lemma unfiltered_batch_wrong :
  ids_ok f2_single /\ sk_get f2_key (batch_max (event_batch false f2_single)) <> event_numbers f2_single f2_key.
Proof. split; [apply ids_okb_ok; vm_compute; reflexivity|vm_compute; discriminate]. Qed.

Lemma unfiltered_log_not_mono : ~ log_mono (model_log false f2_log).
Proof.
  intros H. pose proof (log_mono_at [model_event false (1, f2_docs)] (model_event false (2, f2_single)) [] H (enc f2_key) 65536) as G.
  assert (E : kget (enc f2_key) (snd (model_event false (2, f2_single))) = Some 65536) by (vm_compute; reflexivity).
  specialize (G E). vm_compute in G. apply G. reflexivity.
Qed.

Definition f2_acts : list act :=
  [XStop; XStopped; XClear; XReadOff true; XBatchOff 2; XBatchOff 3; XDone; CStart true 3].

Lemma unfiltered_pair_fits : pair_fits [] 1 (model_log false f2_log).
Proof.
  split; [|split].
  - intros k. rewrite log_max_below_none; [unfold num; cbn; lia|].
    intros e [<-|[<-|[]]]; cbn; lia.
  - intros k. unfold num. cbn. lia.
  - intros _. vm_compute. discriminate.
Qed.

Lemma unfiltered_reissues :
  exists s s', run (mkCfg 100 500) (fresh [] 1 (model_log false f2_log)) f2_acts = Some s /\
               step (mkCfg 100 500) s (CNext (enc f2_key) 65537) = Some s' /\
               65537 <= log_max (enc f2_key) (p_log s).
Proof.
  eexists. eexists. split; [vm_compute; reflexivity|]. split; [vm_compute; reflexivity|]. vm_compute. discriminate.
Qed.

(* the same restart through the filtered scan: the model refuses 65537 and accepts 200006 *)
Lemma filtered_restart_example :
  exists s s', run (mkCfg 100 500) (fresh [] 1 (model_log true f2_log)) f2_acts = Some s /\
               step (mkCfg 100 500) s (CNext (enc f2_key) 65537) = None /\
               step (mkCfg 100 500) s (CNext (enc f2_key) 200006) = Some s'.
Proof.
  eexists. eexists. split; [vm_compute; reflexivity|]. split; vm_compute; reflexivity.
Qed.

(* ---- the order hypothesis of protocol_log is needed: explicit ids of the sequence's range that come
   out of order (two synced events of devices that number their own records) are outside it ---- *)
Definition ooo_log : list (N * sevent) := [(1, mkSEv 1 1 false [] [(true, 500000)]); (2, mkSEv 1 2 false [] [(true, 300000)])].

Lemma ooo_log_shape : Forall (fun oe => ids_ok (snd oe)) ooo_log /\ offs_sorted (model_log true ooo_log).
Proof.
  split.
  - constructor; [apply ids_okb_ok; vm_compute; reflexivity|].
    constructor; [apply ids_okb_ok; vm_compute; reflexivity|constructor].
  - cbn. split; [intros e' [<-|[]]; cbn; lia|]. split; [intros e' []|exact I].
Qed.

Lemma ooo_log_not_mono : ~ log_mono (model_log true ooo_log).
Proof.
  intros H. pose proof (log_mono_at [model_event true (1, mkSEv 1 1 false [] [(true, 500000)])]
                          (model_event true (2, mkSEv 1 2 false [] [(true, 300000)])) [] H (enc f2_key) 300000) as G.
  assert (E : kget (enc f2_key) (snd (model_event true (2, mkSEv 1 2 false [] [(true, 300000)]))) = Some 300000) by (vm_compute; reflexivity).
  specialize (G E). vm_compute in G. apply G. reflexivity.
Qed.

(* ---- the second condition of pair_fits (the storage holds no number the log does not have) is needed:
   a stored number whose event never reached the log - numbers flushed before the append, outside the
   client protocol - is returned again, because Next prefers the log-derived toBeFlushed value ---- *)
Definition ahead_log : list event := [(5, [(0, 101)])].
Definition ahead_acts : list act := [XStop; XStopped; XClear; XReadOff true; XBatchOff 6; XDone; CStart true 6].

Lemma ahead_log_shape : log_mono ahead_log /\ offs_sorted ahead_log /\
  (forall k, log_max_below k ahead_log 5 <= num [(0, 102)] k) /\ (ahead_log <> [] -> 5 <= last_off ahead_log + 1).
Proof.
  split; [|split; [|split]].
  - apply (mono_snoc [] (5, [(0, 101)])); [constructor|]. intros k v _. cbn. lia.
  - cbn. split; [intros e' []|exact I].
  - intros k. rewrite log_max_below_none; [lia|]. intros e [<-|[]]. cbn. lia.
  - intros _. vm_compute. discriminate.
Qed.

Lemma stored_number_ahead_of_log_returned_again :
  exists s s', run (mkCfg 100 500) (fresh [(0, 102)] 5 ahead_log) ahead_acts = Some s /\
               step (mkCfg 100 500) s (CNext 0 102) = Some s' /\ 102 <= num (p_nums s) 0.
Proof. eexists. eexists. split; [vm_compute; reflexivity|]. split; [vm_compute; reflexivity|]. vm_compute. discriminate. Qed.
