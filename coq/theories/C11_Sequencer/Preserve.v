(* C11 - every action of the model preserves the invariant (for the one-step batcher). *)
From Coq Require Import List NArith Lia Bool ZifyN ZifyNat ZifyBool.
From V Require Import Lib.Check Gen.Params C11_Sequencer.Model C11_Sequencer.Lemmas C11_Sequencer.Invariant.
Import ListNotations.
Local Open Scope N_scope.

Ltac proj := cbn [p_nums p_off p_log v_cache v_inproc v_tbf v_tbfoff v_next v_txn v_app v_act v_fl v_flrun v_flcancel v_sig
                  set_sig set_fl set_act fresh] in *.

Ltac use HI :=
  first [ exact (i_sorted _ HI) | exact (i_mono _ HI) | exact (i_P1 _ HI) | exact (i_F _ HI) | exact (i_Ftbf _ HI) | exact (i_cov _ HI)
        | exact (i_tboff _ HI) | exact (i_ponext _ HI) | exact (i_idle _ HI) | exact (i_app _ HI) | exact (i_txn _ HI)
        | exact (i_notxn _ HI) | exact (i_scan _ HI) | exact (i_between _ HI) | exact (i_cleared _ HI) | exact (i_snap _ HI)
        | exact (i_nums _ HI) | exact (i_written _ HI) | exact (i_nodup _ HI) | exact (i_inproc _ HI) | exact (i_cache _ HI) | exact (i_cachempty _ HI)
        | exact (i_nextle _ HI) | exact (i_pole _ HI) ].

Ltac inv_frame HI := constructor; proj; try (use HI).

Lemma Inv_set_sig s b : Inv s -> Inv (set_sig s b).
Proof. intros HI. inv_frame HI. Qed.

(* ---------------- caller ---------------- *)

Lemma pres_CStart c s ok off s' : Inv s -> step c s (CStart ok off) = Some s' -> Inv s'.
Proof.
  intros HI H. cbn [step] in H.
  destruct (v_txn s) eqn:Et; [discriminate|].
  destruct (negb (is_anone (v_act s))) eqn:Ea.
  { destruct (negb ok && (off =? 0)); inversion H; subst; exact HI. }
  destruct (c_max c <? ksize (v_tbf s)).
  { destruct (negb ok && (off =? 0)); inversion H; subst. apply Inv_set_sig. exact HI. }
  destruct (ok && (off =? v_next s)); inversion H; subst s'. clear H.
  pose proof (i_notxn s HI Et) as [Hin Hap].
  inv_frame HI.
  all: try congruence.
  - intros Ha e He. destruct (i_idle _ HI Ha e He) as [L|[A _]]; [left; exact L|congruence].
  - intros _. destruct (v_act s); try discriminate. reflexivity.
  - intros k i Hk. rewrite Hin in Hk. discriminate.
Qed.

Lemma pres_CNext c s k n s' : Inv s -> step c s (CNext k n) = Some s' -> Inv s'.
Proof.
  intros HI H. cbn [step] in H.
  destruct (v_txn s) eqn:Et; [|discriminate]. destruct (v_app s) eqn:Eap; [discriminate|]. cbn [negb orb] in H.
  pose proof (i_txn s HI Et) as Hact.
  assert (Hall : forall e, In e (p_log s) -> fst e < v_next s).
  { intros e He. destruct (i_idle s HI Hact e He) as [L|[A _]]; [exact L|congruence]. }
  assert (Hmax : log_max k (p_log s) <= eff (v_tbf s) (p_nums s) k).
  { rewrite <- (log_max_below_all k (p_log s) (v_next s) Hall). apply (i_cov s HI). rewrite Hact. discriminate. }
  (* the base value is above the effective stored value and above everything in the log *)
  assert (Hbase : exists base cache1, n = base + 1 /\ eff (v_tbf s) (p_nums s) k <= base /\ log_max k (p_log s) <= base
            /\ (forall i, kget k (v_inproc s) = Some i -> i <= base)
            /\ (forall k' v, kget k' cache1 = Some v -> kget k' (v_cache s) = Some v)
            /\ s' = mkSt (p_nums s) (p_off s) (p_log s) (lru_add (c_cap c) k n cache1) (kput k n (v_inproc s))
                         (v_tbf s) (v_tbfoff s) (v_next s) true false (v_act s) (v_fl s) (v_flrun s) (v_flcancel s) (v_sig s)).
  { destruct (lru_get k (v_cache s)) as [[v c']|] eqn:El.
    - destruct (lru_get_spec _ _ _ _ El) as [Hg Hc'].
      destruct (i_cache s HI k v Hg) as (A & B & C).
      destruct (N.eqb_spec n (v + 1)); [|discriminate]. inversion H; subst s'.
      exists v, c'. repeat split; auto. intros k' v0 Hk. rewrite Hc' in Hk. exact Hk.
    - destruct (kget k (v_inproc s)) as [i|] eqn:Ei.
      + destruct (i_inproc s HI k i Ei) as (A & B & _).
        destruct (N.eqb_spec n (i + 1)); [|discriminate]. inversion H; subst s'.
        exists i, (v_cache s). repeat split; auto. intros i0 E0. inversion E0; lia.
      + match type of H with (if n =? ?b + 1 then _ else _) = _ => destruct (N.eqb_spec n (b + 1)); [|discriminate] end.
        inversion H; subst s'.
        exists (eff (v_tbf s) (p_nums s) k), (v_cache s). unfold eff, num in *.
        repeat split; auto; try lia. intros i0 E0; discriminate. }
  destruct Hbase as (base & cache1 & En & Heff & Hlm & Hin & Hc1 & ->). clear H.
  inv_frame HI.
  - intros _ e He. left. apply Hall; auto.
  - intros A; discriminate.
  - intros _. exact Hact.
  - intros A; discriminate.
  - intros k0 i Hk. rewrite kget_kput in Hk. destruct (N.eqb_spec k0 k).
    + subst k0. inversion Hk; subst i. repeat split; try lia.
    + pose proof (i_inproc s HI k0 i Hk) as G. rewrite Eap in G. exact G.
  - intros k0 c0 Hk. apply lru_add_get in Hk. destruct Hk as [[-> ->]|[Nk Hk]].
    + repeat split; try lia. intros i Hi. rewrite kget_kput_same in Hi. inversion Hi; lia.
    + apply Hc1 in Hk. destruct (i_cache s HI k0 c0 Hk) as (A & B & C). repeat split; auto.
      intros i Hi. rewrite kget_kput_other in Hi by congruence. auto.
  - intros Hn. rewrite Hact in Hn. contradiction.
Qed.

Lemma pres_EAppend c s off vals s' : Inv s -> step c s (EAppend off vals) = Some s' -> Inv s'.
Proof.
  intros HI H. cbn [step] in H.
  destruct (v_txn s) eqn:Et; [|discriminate]. destruct (v_app s) eqn:Eap; [discriminate|]. cbn [negb andb] in H.
  destruct (N.eqb_spec off (v_next s)) as [->|]; [|discriminate]. cbn [andb] in H.
  destruct (keqb vals (v_inproc s)) eqn:Ek; [|discriminate]. inversion H; subst s'. clear H.
  pose proof (keqb_get _ _ Ek) as Hv.
  pose proof (i_txn s HI Et) as Hact.
  assert (Hall : forall e, In e (p_log s) -> fst e < v_next s).
  { intros e He. destruct (i_idle s HI Hact e He) as [L|[A _]]; [exact L|congruence]. }
  assert (Hpo : p_off s <= v_next s) by (apply (i_ponext s HI); left; exact Hact).
  assert (Hev : forall k, ev_val k (v_next s, vals) = match kget k (v_inproc s) with Some i => i | None => 0 end).
  { intros k. unfold ev_val. cbn [snd]. rewrite Hv. reflexivity. }
  inv_frame HI.
  - apply offs_sorted_app; [exact (i_sorted s HI)|]. intros e He. cbn [fst]. apply Hall. exact He.
  - constructor; [exact (i_mono s HI)|]. cbn [snd]. intros k v Hk. rewrite Hv in Hk.
    destruct (i_inproc s HI k v Hk) as (_ & _ & C). specialize (C Eap). lia.
  - intros k. rewrite log_max_below_app. cbn [fst]. destruct (N.ltb_spec (v_next s) (p_off s)); [lia|]. apply (i_P1 s HI).
  - intros k. rewrite log_max_app. pose proof (i_F s HI k). lia.
  - intros k v Hk. rewrite log_max_app. pose proof (i_Ftbf s HI k v Hk). lia.
  - intros Ha k. rewrite log_max_below_app. cbn [fst]. destruct (N.ltb_spec (v_next s) (v_next s)); [lia|]. apply (i_cov s HI Ha).
  - intros _ e He. apply in_app_or in He. destruct He as [He|[<-|[]]]; [left; apply Hall; exact He|right; auto].
  - intros _. split; [reflexivity|]. exists (p_log s), vals. split; [reflexivity|exact Hv].
  - intros _. exact Hact.
  - intros A; discriminate.
  - intros todo Ha. rewrite Hact in Ha. discriminate.
  - intros vals0 off0 Hfl. destruct (i_snap s HI vals0 off0 Hfl) as (A & B & C & C2 & ND & D & E).
    repeat split; auto.
    + intros k. rewrite log_max_below_app. cbn [fst]. destruct (N.ltb_spec (v_next s) off0); [lia|]. apply D.
    + destruct (E k v H) as [E1 _]. exact E1.
    + destruct (E k v H) as [_ E2]. rewrite log_max_app. lia.
  - intros k i Hk. destruct (i_inproc s HI k i Hk) as (A & B & C). specialize (C Eap).
    rewrite log_max_app, Hev, Hk. repeat split; try lia; try (intros X; discriminate).
  - intros k c0 Hk. destruct (i_cache s HI k c0 Hk) as (A & B & C).
    rewrite log_max_app, Hev. repeat split; auto.
    destruct (kget k (v_inproc s)) as [i|] eqn:Ei; [specialize (C i eq_refl); lia|lia].
  - intros _. rewrite last_off_app. cbn [fst]. lia.
  - intros _. rewrite last_off_app. cbn [fst]. lia.
Qed.

Lemma eff_kmerge tbf src pn k :
  eff (kmerge tbf src) pn k = match kget k src with Some v => v | None => eff tbf pn k end.
Proof. unfold eff. rewrite kget_kmerge. destruct (kget k src); reflexivity. Qed.

Lemma pres_CFlush c s s' : Inv s -> step c s CFlush = Some s' -> Inv s'.
Proof.
  intros HI H. cbn [step] in H.
  destruct (v_txn s) eqn:Et; [|discriminate]. destruct (v_app s) eqn:Eap; [|discriminate]. cbn [negb orb] in H.
  inversion H; subst s'. clear H.
  pose proof (i_txn s HI Et) as Hact.
  destruct (i_app s HI Eap) as (_ & done & vals & Hlg & Hv).
  assert (Hpo : p_off s <= v_next s) by (apply (i_ponext s HI); left; exact Hact).
  pose proof (i_sorted s HI) as Hs. rewrite Hlg in Hs. apply offs_sorted_app_inv in Hs. destruct Hs as (_ & _ & Hdl).
  assert (Hdone : forall e, In e done -> fst e < v_next s).
  { intros e He. specialize (Hdl e (v_next s, vals) He (or_introl eq_refl)). exact Hdl. }
  assert (Hle : forall e, In e (p_log s) -> fst e < v_next s + 1).
  { intros e He. rewrite Hlg in He. apply in_app_or in He. destruct He as [He|[<-|[]]]; [specialize (Hdone e He); lia|cbn; lia]. }
  assert (Hin : In (v_next s, vals) (p_log s)) by (rewrite Hlg; apply in_or_app; right; left; reflexivity).
  assert (Hlmax : forall k, log_max k (p_log s) = N.max (log_max k done) (match kget k (v_inproc s) with Some i => i | None => 0 end)).
  { intros k. rewrite Hlg, log_max_app. unfold ev_val. cbn [snd]. rewrite Hv. reflexivity. }
  assert (Hbelow : forall k, log_max_below k (p_log s) (v_next s) = log_max k done).
  { intros k. rewrite Hlg. apply log_max_below_split; auto. intros e [<-|[]]. cbn. lia. }
  inv_frame HI.
  - intros k v Hk. rewrite kget_kmerge in Hk. destruct (kget k (v_inproc s)) as [i|] eqn:Ei.
    + inversion Hk; subst v. eapply kget_le_log_max; [exact Hin|]. cbn [snd]. rewrite Hv. exact Ei.
    + exact (i_Ftbf s HI k v Hk).
  - intros _ k. rewrite (log_max_below_all k (p_log s) (v_next s + 1) Hle), eff_kmerge, Hlmax.
    destruct (kget k (v_inproc s)) as [i|] eqn:Ei.
    + destruct (i_inproc s HI k i Ei) as (A & B & _). rewrite Hlmax, Ei in B. lia.
    + assert (G : log_max_below k (p_log s) (v_next s) <= eff (v_tbf s) (p_nums s) k) by (apply (i_cov s HI); rewrite Hact; discriminate).
      rewrite Hbelow in G. lia.
  - right. lia.
  - intros _. lia.
  - intros _ e He. left. apply Hle. exact He.
  - intros A; discriminate.
  - intros A; discriminate.
  - intros _. split; reflexivity.
  - intros todo Ha. rewrite Hact in Ha. discriminate.
  - intros Ha. rewrite Hact in Ha. discriminate.
  - intros vals0 off0 Hfl. destruct (i_snap s HI vals0 off0 Hfl) as (A & B & C & C2 & ND & D & E).
    repeat split; auto; try lia.
    + destruct (E k v H) as [[v' E1] _]. rewrite kget_kmerge. destruct (kget k (v_inproc s)); eauto.
    + destruct (E k v H) as [_ E2]. exact E2.
  - apply NoDup_kmerge. exact (i_nodup s HI).
  - intros k i Hk. discriminate.
  - intros k c0 Hk. destruct (i_cache s HI k c0 Hk) as (A & B & C). rewrite eff_kmerge.
    repeat split; auto; [|intros i Hi; discriminate].
    destruct (kget k (v_inproc s)) as [i|] eqn:Ei; [apply C; reflexivity|exact A].
  - intros _. pose proof (last_off_ge (p_log s) _ Hin). cbn [fst] in *. lia.
Qed.

Lemma pres_CActualize c s s' : Inv s -> step c s CActualize = Some s' -> Inv s'.
Proof.
  intros HI H. cbn [step] in H.
  destruct (v_txn s) eqn:Et; [|discriminate]. cbn [negb orb] in H.
  destruct (v_act s) eqn:Hact; try discriminate. cbn in H. inversion H; subst s'. clear H.
  inv_frame HI.
  - intros _. apply (i_cov s HI). rewrite Hact. discriminate.
  - intros [A|[t A]]; discriminate.
  - intros A; discriminate.
  - intros A; discriminate.
  - intros A; discriminate.
  - intros _. split; reflexivity.
  - intros todo A; discriminate.
  - intros e todo A; discriminate.
  - intros A; discriminate.
  - intros k i A; discriminate.
  - intros k c0 A; discriminate.
  - reflexivity.
Qed.

(* ---------------- flusher ---------------- *)

Lemma pres_FWake c s s' : Inv s -> step c s FWake = Some s' -> Inv s'.
Proof.
  intros HI H. cbn [step] in H. destruct (v_fl s) eqn:Efl; try discriminate.
  destruct (v_flrun s && v_sig s && negb (v_flcancel s)); [|discriminate]. inversion H; subst s'. clear H.
  inv_frame HI.
  - intros Ha. destruct (i_cleared s HI Ha) as (A & B & _). auto.
  - intros vals off [A|A]; discriminate.
  - intros vals off A; discriminate.
  - intros vals A; discriminate.
Qed.

Lemma pres_FExit c s s' : Inv s -> step c s FExit = Some s' -> Inv s'.
Proof.
  intros HI H. cbn [step] in H. destruct (v_fl s) eqn:Efl; try discriminate.
  destruct (v_flrun s && v_flcancel s); [|discriminate]. inversion H; subst s'. clear H.
  inv_frame HI.
  - intros Ha. destruct (i_cleared s HI Ha) as (A & B & _). auto.
  - intros vals off [A|A]; discriminate.
  - intros vals off A; discriminate.
  - intros vals A; discriminate.
Qed.

Lemma pres_FSkip c s s' : Inv s -> step c s FSkip = Some s' -> Inv s'.
Proof.
  intros HI H. cbn [step] in H. destruct (v_fl s) eqn:Efl; try discriminate.
  destruct (v_tbfoff s =? 0); [|discriminate]. inversion H; subst s'. clear H.
  inv_frame HI.
  - intros Ha. destruct (i_cleared s HI Ha) as (A & B & _). auto.
  - intros vals off [A|A]; discriminate.
  - intros vals off A; discriminate.
  - intros vals A; discriminate.
Qed.

Lemma pres_FSnapshot c s vals off s' : Inv s -> step c s (FSnapshot vals off) = Some s' -> Inv s'.
Proof.
  intros HI H. cbn [step] in H. destruct (v_fl s) eqn:Efl; try discriminate.
  destruct (N.eqb_spec (v_tbfoff s) 0) as [|Hnz]; [discriminate|]. cbn [negb andb] in H.
  destruct (off =? v_tbfoff s); [|discriminate]. destruct (keqb vals (v_tbf s)); [|discriminate].
  inversion H; subst s'. clear H.
  destruct (i_tboff s HI) as [Z|[T1 T2]]; [contradiction|].
  assert (Hnc : v_act s <> ACleared).
  { intros Ha. destruct (i_cleared s HI Ha) as (_ & B & _). contradiction. }
  inv_frame HI.
  - intros Ha. contradiction.
  - intros vals0 off0 [A|A]; inversion A; subst vals0 off0. repeat split; auto; try lia.
    + exact (i_nodup s HI).
    + intros k. unfold snap_val. fold (eff (v_tbf s) (p_nums s) k).
      pose proof (log_max_below_mono k (p_log s) _ _ T2). pose proof (i_cov s HI Hnc k). lia.
    + eauto.
    + exact (i_Ftbf s HI k v H).
  - intros vals0 off0 A; discriminate.
  - intros vals0 A; discriminate.
Qed.

Lemma eff_nums_merge tbf pn vals k :
  (forall k v, kget k vals = Some v -> exists v', kget k tbf = Some v') ->
  eff tbf (kmerge pn vals) k = eff tbf pn k.
Proof.
  intros H. unfold eff. destruct (kget k tbf) eqn:Et; auto. unfold num. rewrite kget_kmerge.
  destruct (kget k vals) as [v|] eqn:Ev; auto. destruct (H k v Ev) as [v' Hv']. congruence.
Qed.

Lemma num_merge pn vals k : num (kmerge pn vals) k = snap_val vals pn k.
Proof. unfold num, snap_val. rewrite kget_kmerge. destruct (kget k vals); reflexivity. Qed.

Lemma pres_FWriteNums c s s' : Inv s -> step c s FWriteNums = Some s' -> Inv s'.
Proof.
  intros HI H. cbn [step] in H. destruct (v_fl s) as [| |vals off| |] eqn:Efl; try discriminate.
  inversion H; subst s'. clear H.
  destruct (i_snap s HI vals off (or_introl Efl)) as (A & B & C & C2 & ND & D & E).
  assert (E1 : forall k v, kget k vals = Some v -> exists v', kget k (v_tbf s) = Some v') by (intros k v Hk; apply (E k v Hk)).
  assert (Hnc : v_act s <> ACleared).
  { intros Ha. destruct (i_cleared s HI Ha) as (_ & _ & [F|F]); congruence. }
  inv_frame HI.
  - intros k. rewrite num_merge. pose proof (log_max_below_mono k (p_log s) _ _ B). specialize (D k). lia.
  - intros k. rewrite num_merge. unfold snap_val. destruct (kget k vals) as [v|] eqn:Ev; [apply (E k v Ev)|apply (i_F s HI)].
  - intros Ha k. rewrite eff_nums_merge by exact E1. apply (i_cov s HI Ha).
  - intros Ha. contradiction.
  - intros vals0 off0 [X|X]; inversion X; subst vals0 off0. repeat split; auto.
    + intros k. unfold snap_val. rewrite num_merge. unfold snap_val. specialize (D k). unfold snap_val in D.
      destruct (kget k vals); exact D.
    + apply (E k v H).
    + apply (E k v H).
  - intros vals0 off0 X; inversion X; subst vals0 off0. intros k v Hk. rewrite num_merge. unfold snap_val. rewrite Hk. reflexivity.
  - intros vals0 X; discriminate.
  - intros k i Hk. rewrite eff_nums_merge by exact E1. apply (i_inproc s HI k i Hk).
  - intros k c0 Hk. rewrite eff_nums_merge by exact E1. apply (i_cache s HI k c0 Hk).
Qed.

Lemma pres_FWriteOff c s s' : Inv s -> step c s FWriteOff = Some s' -> Inv s'.
Proof.
  intros HI H. cbn [step] in H. destruct (v_fl s) as [| | |vals off|] eqn:Efl; try discriminate.
  inversion H; subst s'. clear H.
  destruct (i_snap s HI vals off (or_intror Efl)) as (A & B & C & C2 & ND & D & E).
  pose proof (i_nums s HI vals off Efl) as Hn.
  assert (Hnc : v_act s <> ACleared).
  { intros Ha. destruct (i_cleared s HI Ha) as (_ & _ & [F|F]); congruence. }
  inv_frame HI.
  - intros k. specialize (D k). unfold snap_val in D. destruct (kget k vals) as [v|] eqn:Ev; [rewrite (Hn k v Ev); exact D|exact D].
  - destruct (i_tboff s HI) as [Z|[T1 T2]]; [lia|]. right. lia.
  - intros _. exact C.
  - intros Ha. contradiction.
  - intros vals0 off0 [X|X]; discriminate.
  - intros vals0 off0 X; discriminate.
  - intros vals0 X; inversion X; subst vals0. split; [exact ND|exact Hn].
  - intros Hl. pose proof (i_nextle s HI Hl). lia.
Qed.

Lemma pres_FWriteErr c s s' : Inv s -> step c s FWriteErr = Some s' -> Inv s'.
Proof.
  intros HI H. cbn [step] in H. destruct (v_fl s) as [| |vals off|vals off|] eqn:Efl; try discriminate.
  - inversion H; subst; exact HI.
  - inversion H; subst s'. clear H.
    assert (Hnc : v_act s <> ACleared).
    { intros Ha. destruct (i_cleared s HI Ha) as (_ & _ & [F|F]); congruence. }
    inv_frame HI.
    + intros Ha. contradiction.
    + intros vals0 off0 [X|X]; inversion X; subst vals0 off0. apply (i_snap s HI vals off). right. exact Efl.
    + intros vals0 off0 X; discriminate.
    + intros vals0 X; discriminate.
Qed.

Lemma eff_remove tbf pn vals k :
  NoDup (map fst vals) -> (forall k v, kget k vals = Some v -> num pn k = v) ->
  eff (kremove_same tbf vals) pn k = eff tbf pn k.
Proof.
  intros ND Hw. unfold eff. destruct (kget k (kremove_same tbf vals)) as [v|] eqn:E.
  - rewrite (kremove_same_get _ _ _ _ E). reflexivity.
  - apply kremove_same_none in E. destruct E as [E|[v [E1 E2]]]; [rewrite E; reflexivity|].
    rewrite E1. apply NoDup_In_kget in E2; auto.
Qed.

Lemma pres_FRemove c s s' : Inv s -> step c s FRemove = Some s' -> Inv s'.
Proof.
  intros HI H. cbn [step] in H. destruct (v_fl s) as [| | | |vals] eqn:Efl; try discriminate.
  inversion H; subst s'. clear H.
  destruct (i_written s HI vals Efl) as [ND Hw].
  assert (Hnc : v_act s <> ACleared).
  { intros Ha. destruct (i_cleared s HI Ha) as (_ & _ & [F|F]); congruence. }
  inv_frame HI.
  - intros k v Hk. apply kremove_same_get in Hk. apply (i_Ftbf s HI k v Hk).
  - intros Ha k. rewrite eff_remove by assumption. apply (i_cov s HI Ha).
  - intros Ha. contradiction.
  - intros vals0 off0 [X|X]; discriminate.
  - intros vals0 off0 X; discriminate.
  - intros vals0 X; discriminate.
  - apply NoDup_kremove. exact (i_nodup s HI).
  - intros k i Hk. rewrite eff_remove by assumption. apply (i_inproc s HI k i Hk).
  - intros k c0 Hk. rewrite eff_remove by assumption. apply (i_cache s HI k c0 Hk).
Qed.

(* ---------------- actualizer ---------------- *)

Lemma notxn_of_act s : Inv s -> v_act s <> ANone -> v_txn s = false.
Proof. intros HI Ha. destruct (v_txn s) eqn:Et; auto. exfalso. apply Ha. apply (i_txn s HI Et). Qed.

Lemma pres_XStop c s s' : Inv s -> step c s XStop = Some s' -> Inv s'.
Proof.
  intros HI H. cbn [step] in H. destruct (v_act s) eqn:Ha; try discriminate. inversion H; subst s'. clear H.
  assert (Ht : v_txn s = false) by (apply notxn_of_act; auto; congruence).
  inv_frame HI.
  - intros _. apply (i_cov s HI). congruence.
  - intros [A|[t A]]; discriminate.
  - intros A; discriminate.
  - intros T. congruence.
  - intros todo A; discriminate.
  - intros e todo A; discriminate.
  - intros A; discriminate.
  - intros _. apply (i_cachempty s HI). congruence.
Qed.

Lemma pres_XStopped c s s' : Inv s -> step c s XStopped = Some s' -> Inv s'.
Proof.
  intros HI H. cbn [step] in H. destruct (v_act s) eqn:Ha; try discriminate.
  destruct (negb (v_flrun s)); [|discriminate]. inversion H; subst s'. clear H.
  assert (Ht : v_txn s = false) by (apply notxn_of_act; auto; congruence).
  inv_frame HI.
  - intros _. apply (i_cov s HI). congruence.
  - intros [A|[t A]]; discriminate.
  - intros A; discriminate.
  - intros T. congruence.
  - intros todo A; discriminate.
  - intros e todo A; discriminate.
  - intros A; discriminate.
  - intros _. apply (i_cachempty s HI). congruence.
Qed.

Lemma pres_XClear c s s' : Inv s -> step c s XClear = Some s' -> Inv s'.
Proof.
  intros HI H. cbn [step] in H. destruct (v_act s) eqn:Ha; try discriminate. inversion H; subst s'. clear H.
  assert (Ht : v_txn s = false) by (apply notxn_of_act; auto; congruence).
  destruct (i_notxn s HI Ht) as [Hin Hap].
  assert (Hc : v_cache s = []) by (apply (i_cachempty s HI); congruence).
  inv_frame HI.
  - intros k v A; discriminate.
  - intros A; contradiction.
  - left; reflexivity.
  - intros [A|[t A]]; discriminate.
  - intros A; discriminate.
  - intros T. congruence.
  - intros todo A; discriminate.
  - intros e todo A; discriminate.
  - intros _. auto.
  - intros vals off [A|A]; discriminate.
  - intros vals off A; discriminate.
  - intros vals A; discriminate.
  - constructor.
  - intros k i Hk. rewrite Hin in Hk. discriminate.
  - intros k c0 Hk. rewrite Hc in Hk. discriminate.
  - intros _. exact Hc.
Qed.

Lemma pres_XReadOff c s ok s' : Inv s -> step c s (XReadOff ok) = Some s' -> Inv s'.
Proof.
  intros HI H. cbn [step] in H. destruct (v_act s) eqn:Ha; try discriminate.
  destruct ok; [|inversion H; subst; exact HI]. inversion H; subst s'. clear H.
  assert (Ht : v_txn s = false) by (apply notxn_of_act; auto; congruence).
  destruct (i_notxn s HI Ht) as [Hin Hap].
  assert (Hc : v_cache s = []) by (apply (i_cachempty s HI); congruence).
  destruct (i_cleared s HI Ha) as (Htbf & Htb & Hfl).
  inv_frame HI.
  - intros _ k. rewrite Htbf. unfold eff. cbn [kget]. apply (i_P1 s HI).
  - left. exact Htb.
  - intros _. lia.
  - intros A; discriminate.
  - intros A. congruence.
  - intros T. congruence.
  - intros todo A. inversion A; subst todo. apply log_from_split. exact (i_sorted s HI).
  - intros e todo A; discriminate.
  - intros A; discriminate.
  - intros vals off [A|A]; destruct Hfl; congruence.
  - intros _. exact Hc.
Qed.

Lemma pres_XScanErr c s s' : Inv s -> step c s XScanErr = Some s' -> Inv s'.
Proof.
  intros HI H. cbn [step] in H. destruct (v_act s) as [| | | | |t|] eqn:Ha; try discriminate.
  inversion H; subst s'. clear H.
  assert (Ht : v_txn s = false) by (apply notxn_of_act; auto; congruence).
  inv_frame HI.
  - intros _. apply (i_cov s HI). congruence.
  - intros _. apply (i_ponext s HI). right. exists t. exact Ha.
  - intros A; discriminate.
  - intros T. congruence.
  - intros todo A. inversion A; subst todo. apply log_from_split. exact (i_sorted s HI).
  - intros e todo A; discriminate.
  - intros A; discriminate.
  - intros _. apply (i_cachempty s HI). congruence.
Qed.

Lemma pres_XBatchWait c s s' : Inv s -> step c s XBatchWait = Some s' -> Inv s'.
Proof.
  intros HI H. cbn [step] in H. destruct (v_act s) as [| | | | |[|e t]|] eqn:Ha; try discriminate.
  destruct (c_max c <=? ksize (v_tbf s)); [|discriminate]. inversion H; subst s'. apply Inv_set_sig. exact HI.
Qed.

Lemma pres_XBatchOff c s off s' : Inv s -> step c s (XBatchOff off) = Some s' -> Inv s'.
Proof.
  intros HI H. cbn [step] in H. destruct (v_act s) as [| | | | |[|e todo]|] eqn:Ha; try discriminate.
  destruct ((ksize (v_tbf s) <? c_max c) && (off =? fst e + 1)); [|discriminate].
  rewrite batcher_is_one_step in H. inversion H; subst s'. clear H.
  assert (Ht : v_txn s = false) by (apply notxn_of_act; auto; congruence).
  destruct (i_notxn s HI Ht) as [Hin Hap].
  assert (Hc : v_cache s = []) by (apply (i_cachempty s HI); congruence).
  destruct (i_scan s HI (e :: todo) Ha) as (done & Hlg & Hd & Htd).
  assert (Hne : v_next s <= fst e) by (apply Htd; left; reflexivity).
  assert (Hpo : p_off s <= v_next s) by (apply (i_ponext s HI); right; eexists; exact Ha).
  pose proof (i_sorted s HI) as Hs. rewrite Hlg in Hs. apply offs_sorted_app_inv in Hs. destruct Hs as (_ & Hs2 & _).
  cbn [offs_sorted] in Hs2. destruct Hs2 as [Hlt _].
  assert (Hin_e : In e (p_log s)) by (rewrite Hlg; apply in_or_app; right; left; reflexivity).
  assert (Hlg' : p_log s = (done ++ [e]) ++ todo) by (rewrite <- app_assoc; exact Hlg).
  assert (Hd' : forall x, In x (done ++ [e]) -> fst x < fst e + 1).
  { intros x Hx. apply in_app_or in Hx. destruct Hx as [Hx|[<-|[]]]; [specialize (Hd x Hx); lia|lia]. }
  assert (Htd' : forall x, In x todo -> fst e + 1 <= fst x) by (intros x Hx; specialize (Hlt x Hx); lia).
  assert (Hmono : forall k v, kget k (snd e) = Some v -> log_max k done <= v).
  { apply (log_mono_at done e todo). rewrite <- Hlg. exact (i_mono s HI). }
  assert (Hbelow : forall k, log_max_below k (p_log s) (v_next s) = log_max k done).
  { intros k. rewrite Hlg. apply log_max_below_split; auto. }
  inv_frame HI.
  - intros k v Hk. rewrite kget_kmerge in Hk. destruct (kget k (snd e)) as [v0|] eqn:Ee.
    + inversion Hk; subst v0. eapply kget_le_log_max; eauto.
    + exact (i_Ftbf s HI k v Hk).
  - intros _ k.
    assert (G0 : log_max_below k (p_log s) (fst e + 1) = log_max k (done ++ [e])) by (rewrite Hlg'; apply log_max_below_split; auto).
    rewrite G0, log_max_app, eff_kmerge.
    unfold ev_val. destruct (kget k (snd e)) as [v|] eqn:Ee.
    + specialize (Hmono k v Ee). lia.
    + assert (G : log_max_below k (p_log s) (v_next s) <= eff (v_tbf s) (p_nums s) k) by (apply (i_cov s HI); congruence).
      rewrite Hbelow in G. lia.
  - right. lia.
  - intros _. lia.
  - intros A; discriminate.
  - intros A. congruence.
  - intros T. congruence.
  - intros todo0 A. inversion A; subst todo0. exists (done ++ [e]). repeat split; auto.
  - intros e0 todo0 A; discriminate.
  - intros A; discriminate.
  - intros vals0 off0 Hfl. destruct (i_snap s HI vals0 off0 Hfl) as (A & B & C & C2 & ND & D & E).
    repeat split; auto; try lia.
    + destruct (E k v H) as [[v' E1] _]. rewrite kget_kmerge. destruct (kget k (snd e)); eauto.
    + destruct (E k v H) as [_ E2]. exact E2.
  - apply NoDup_kmerge. exact (i_nodup s HI).
  - intros k i Hk. rewrite Hin in Hk. discriminate.
  - intros k c0 Hk. rewrite Hc in Hk. discriminate.
  - intros _. exact Hc.
  - intros _. pose proof (last_off_ge (p_log s) e Hin_e). lia.
Qed.

Lemma pres_XBatchVals c s s' : Inv s -> step c s XBatchVals = Some s' -> Inv s'.
Proof.
  intros HI H. cbn [step] in H. destruct (v_act s) as [| | | | | |e todo] eqn:Ha; try discriminate.
  exfalso. exact (i_between s HI e todo Ha).
Qed.

Lemma pres_XDone c s s' : Inv s -> step c s XDone = Some s' -> Inv s'.
Proof.
  intros HI H. cbn [step] in H. destruct (v_act s) as [| | | | |[|e t]|] eqn:Ha; try discriminate.
  inversion H; subst s'. clear H.
  assert (Ht : v_txn s = false) by (apply notxn_of_act; auto; congruence).
  destruct (i_notxn s HI Ht) as [Hin Hap].
  destruct (i_scan s HI [] Ha) as (done & Hlg & Hd & _). rewrite app_nil_r in Hlg.
  inv_frame HI.
  - intros _. apply (i_cov s HI). congruence.
  - intros _. apply (i_ponext s HI). right. eexists; exact Ha.
  - intros _ e He. left. apply Hd. rewrite <- Hlg. exact He.
  - intros _. reflexivity.
  - intros todo A; discriminate.
  - intros e todo A; discriminate.
  - intros A; discriminate.
  - intros A; contradiction.
Qed.

Lemma pres_Crash c s s' : Inv s -> step c s Crash = Some s' -> Inv s'.
Proof.
  intros HI H. cbn [step] in H. inversion H; subst s'.
  apply Inv_fresh; [exact (i_sorted s HI)|exact (i_mono s HI)|exact (i_P1 s HI)|exact (i_F s HI)|exact (i_pole s HI)].
Qed.

(* ---------------- all actions ---------------- *)

Theorem step_preserves_inv c s a s' : Inv s -> step c s a = Some s' -> Inv s'.
Proof.
  intros HI H. destruct a.
  - eapply pres_CStart; eauto.
  - eapply pres_CNext; eauto.
  - eapply pres_EAppend; eauto.
  - eapply pres_CFlush; eauto.
  - eapply pres_CActualize; eauto.
  - eapply pres_FWake; eauto.
  - eapply pres_FExit; eauto.
  - eapply pres_FSkip; eauto.
  - eapply pres_FSnapshot; eauto.
  - eapply pres_FWriteNums; eauto.
  - eapply pres_FWriteOff; eauto.
  - eapply pres_FWriteErr; eauto.
  - eapply pres_FRemove; eauto.
  - eapply pres_XStop; eauto.
  - eapply pres_XStopped; eauto.
  - eapply pres_XClear; eauto.
  - eapply pres_XReadOff; eauto.
  - eapply pres_XScanErr; eauto.
  - eapply pres_XBatchWait; eauto.
  - eapply pres_XBatchOff; eauto.
  - eapply pres_XBatchVals; eauto.
  - eapply pres_XDone; eauto.
  - eapply pres_Crash; eauto.
Qed.

Theorem reachable_inv c acts : forall s s', Inv s -> run c s acts = Some s' -> Inv s'.
Proof.
  induction acts as [|a r IH]; intros s s' HI H; cbn in H.
  - inversion H; subst; exact HI.
  - destruct (step c s a) as [s1|] eqn:Es; [|discriminate]. eapply IH; [|exact H]. eapply step_preserves_inv; eauto.
Qed.

(* ---------------- consequences ---------------- *)

Lemma last_off_in lg : lg <> [] -> exists e, In e lg /\ (fst e = last_off lg \/ last_off lg = 0).
Proof.
  induction lg as [|x lg IH] using rev_ind; [congruence|]. intros _.
  rewrite last_off_app. destruct lg as [|y lg'].
  - exists x. split; [left; reflexivity|]. cbn. left. lia.
  - destruct IH as (e & He & Hl); [discriminate|].
    destruct (N.leb_spec (last_off (y :: lg')) (fst x)).
    + exists x. split; [apply in_or_app; right; left; reflexivity|]. left. lia.
    + exists e. split; [apply in_or_app; left; exact He|]. destruct Hl as [Hl|Hl]; [left; lia|right; lia].
Qed.

(* every number handed out is above everything recorded in the log and in sequence storage,
   and above the numbers already handed out for the key in this transaction *)
Theorem cnext_fresh c s k n s' : Inv s -> step c s (CNext k n) = Some s' ->
  log_max k (p_log s) < n /\ num (p_nums s) k < n /\ (forall i, kget k (v_inproc s) = Some i -> i < n).
Proof.
  intros HI H. pose proof (pres_CNext c s k n s' HI H) as HI'.
  cbn [step] in H. destruct (v_txn s) eqn:Et; [|discriminate]. destruct (v_app s) eqn:Eap; [discriminate|]. cbn [negb orb] in H.
  assert (Hlog : log_max k (p_log s) < n).
  { assert (E : p_log s' = p_log s /\ kget k (v_inproc s') = Some n /\ v_app s' = false).
    { destruct (lru_get k (v_cache s)) as [[v c']|];
        match type of H with (if ?b then _ else _) = _ => destruct b; [|discriminate] end;
        inversion H; subst s'; cbn [p_log v_inproc v_app]; rewrite kget_kput_same; auto. }
    destruct E as (E1 & E2 & E3). destruct (i_inproc s' HI' k n E2) as (_ & _ & C). rewrite E1 in C. auto. }
  split; [exact Hlog|]. split; [pose proof (i_F s HI k); lia|].
  intros i Hi.
  destruct (lru_get k (v_cache s)) as [[v c']|] eqn:El.
  - destruct (lru_get_spec _ _ _ _ El) as [Hg _]. destruct (i_cache s HI k v Hg) as (_ & _ & C).
    destruct (N.eqb_spec n (v + 1)); [|discriminate]. specialize (C i Hi). lia.
  - rewrite Hi in H. destruct (N.eqb_spec n (i + 1)); [|discriminate]. lia.
Qed.

Theorem cstart_offset c s off s' : Inv s -> step c s (CStart true off) = Some s' -> p_log s <> [] ->
  off = last_off (p_log s) + 1.
Proof.
  intros HI H Hne. cbn [step] in H.
  destruct (v_txn s) eqn:Et; [discriminate|].
  destruct (v_act s) eqn:Ha; cbn in H; try discriminate.
  destruct (c_max c <? ksize (v_tbf s)); [discriminate|].
  destruct (N.eqb_spec off (v_next s)) as [->|]; [|discriminate].
  destruct (i_notxn s HI Et) as [_ Hap].
  pose proof (i_nextle s HI Hne) as Hle.
  destruct (last_off_in (p_log s) Hne) as (e & He & Hl).
  destruct (i_idle s HI Ha e He) as [L|[A _]]; [|congruence].
  destruct Hl as [Hl|Hl]; [lia|].
  (* last_off = 0: every offset is 0 and below next *)
  assert (v_next s <> 0) by lia. lia.
Qed.
