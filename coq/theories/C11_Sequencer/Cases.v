(* C11 - what the check evaluates: action histories of the stepped sequencer (Model.v: `trace`) and
   scan cases: real events stored in a real PLog, the batches the real
   seqstorage.ActualizeSequencesFromPLog delivered for them from several start offsets, and the
   numbers a real sequencer issued after a restart on a persisted pair over that log.
   `agrees_c` compares the deliveries with `event_batch` (Scan.v) and the restart with the model of
   what the restarted sequencer knows; `satisfies_c` judges the property on the delivered batches
   and the issued numbers alone, against what the harness knows was recorded.  Definitions only. *)
From Coq Require Import List NArith Lia Bool.
From V Require Import Lib.Check Gen.Params C11_Sequencer.Model C11_Sequencer.Scan.
Import ListNotations.
Local Open Scope N_scope.

(* one event: what the harness did (offset, workspace, WLog offset it put into the event, the record
   ids it knows were recorded for the sequence: those the generator issued for this event and the
   explicit ids of the sequence's range it stored) and the stored content read back from the PLog *)
Record sobs := mkSObs { so_off : N; so_ws : N; so_wlog : N; so_issued : list N; so_stored : sevent }.

(* restart: the persisted pair the sequencer was started on and the (key, number) it returned, in call order *)
Record srestart := mkSRestart { sr_po : N; sr_pn : skmap; sr_calls : list (skey * N) }.

Definition delivery := (N * list (skey * N))%type.      (* offset, batch in delivery order *)

Inductive c11case :=
| CHistory (t : trace)
| CScan (evs : list sobs) (runs : list (N * list delivery)) (rs : option srestart)
| CBroken.   (* the harness could not run the case to its end (a call of the real code that does not return, a
                panic, steps the driver cannot follow): rejected by both checks, the text is in the replay *)

(* ================= agrees: the implementation model ================= *)
Definition sv_eqb (x y : skey * N) : bool := skey_eqb (fst x) (fst y) && (snd x =? snd y).
Definition delivery_eqb (x y : delivery) : bool := (fst x =? fst y) && list_eqb sv_eqb (snd x) (snd y).

(* ReadPLog from `start` to the end, each event mapped by the scan *)
Definition scan_model (flt : bool) (evs : list sobs) (start : N) : list delivery :=
  map (fun o => (so_off o, event_batch flt (so_stored o))) (filter (fun o => start <=? so_off o) evs).

(* what the restarted sequencer knows for a key once the actualization is through: the batcher
   overwrites toBeFlushed event by event and the flusher overwrites the stored number, so it is the
   maximum of the LAST scanned event that has the key, else the persisted number *)
Definition restart_base (flt : bool) (evs : list sobs) (po : N) (pn : skmap) (k : skey) : option N :=
  fold_left (fun acc o => if po <=? so_off o
                          then match sk_get k (batch_max (event_batch flt (so_stored o))) with Some v => Some v | None => acc end
                          else acc) evs (sk_get k pn).

Definition initial_of (k : skey) : N := if snd k =? seq_record_id_seq then seq_first_user_id else 1.

Fixpoint replay_calls (flt : bool) (evs : list sobs) (po : N) (pn vol : skmap) (calls : list (skey * N)) : bool :=
  match calls with
  | [] => true
  | (k, n) :: r =>
      let base := match sk_get k vol with
                  | Some v => v
                  | None => match restart_base flt evs po pn k with
                            | Some v => if v =? 0 then initial_of k - 1 else v
                            | None => initial_of k - 1
                            end
                  end in
      (n =? base + 1) && replay_calls flt evs po pn (sk_put k n vol) r
  end.

Definition scan_agrees (flt : bool) (evs : list sobs) (runs : list (N * list delivery)) (rs : option srestart) : bool :=
  forallb (fun run => list_eqb delivery_eqb (snd run) (scan_model flt evs (fst run))) runs
  && match rs with
     | None => true
     | Some r => replay_calls flt evs (sr_po r) (sr_pn r) [] (sr_calls r)
     end.

Definition agrees_c (c : c11case) : bool :=
  match c with
  | CHistory t => agrees t
  | CScan evs runs rs => scan_agrees seq_scan_skips_reserved_ids evs runs rs
  | CBroken => false
  end.

(* ================= satisfies: the property on the observed values ================= *)
(* the numbers an event records, as the harness knows them *)
Definition rec_nums (o : sobs) : list (skey * N) :=
  map (fun id => ((so_ws o, seq_record_id_seq), id)) (so_issued o) ++ [((so_ws o, seq_wlog_offset_seq), so_wlog o)].

Definition hi_add (hi : skmap) (kv : skey * N) : skmap :=
  match sk_get (fst kv) hi with
  | Some v => if v <? snd kv then sk_put (fst kv) (snd kv) hi else hi
  | None => sk_put (fst kv) (snd kv) hi
  end.

Definition find_obs (evs : list sobs) (off : N) : option sobs := find (fun o => so_off o =? off) evs.

(* the largest value a delivered batch has for a key *)
Definition delivered_max (k : skey) (b : list (skey * N)) : option N := lmax (kvals k b).

(* along one scan: every delivered batch must give, for every key the event records a number for and
   for every key it mentions, a maximum that is not below any number recorded for the key in this or
   an earlier delivered event - otherwise the sequencer, which takes the batch maximum as the last
   number of the key, re-issues recorded numbers *)
Fixpoint deliveries_ok (evs : list sobs) (hi : skmap) (ds : list delivery) : bool :=
  match ds with
  | [] => true
  | (off, b) :: r =>
      match find_obs evs off with
      | None => false
      | Some o =>
          let hi' := fold_left hi_add (rec_nums o) hi in
          forallb (fun kv => match delivered_max (fst kv) b with
                             | Some m => match sk_get (fst kv) hi' with Some h => h <=? m | None => true end
                             | None => false end) (rec_nums o)
          && forallb (fun kv => match delivered_max (fst kv) b, sk_get (fst kv) hi' with
                                | Some m, Some h => h <=? m
                                | _, _ => true end) b
          && deliveries_ok evs hi' r
      end
  end.

Definition run_ok (evs : list sobs) (run : N * list delivery) : bool :=
  (* every event from the start offset on is delivered once, in log order *)
  list_eqb N.eqb (map fst (snd run)) (map so_off (filter (fun o => fst run <=? so_off o) evs))
  && deliveries_ok evs [] (snd run).

(* after the restart: every number is above everything recorded for its key anywhere in the log and
   above the numbers returned before it *)
Fixpoint calls_ok (hi : skmap) (calls : list (skey * N)) : bool :=
  match calls with
  | [] => true
  | (k, n) :: r => (match sk_get k hi with Some h => h <? n | None => 0 <? n end) && calls_ok (sk_put k n hi) r
  end.

Definition scan_satisfies (evs : list sobs) (runs : list (N * list delivery)) (rs : option srestart) : bool :=
  forallb (run_ok evs) runs
  && match rs with
     | None => true
     | Some r => calls_ok (fold_left (fun hi o => fold_left hi_add (rec_nums o) hi) evs []) (sr_calls r)
     end.

Definition satisfies_c (c : c11case) : bool :=
  match c with
  | CHistory t => satisfies t
  | CScan evs runs rs => scan_satisfies evs runs rs
  | CBroken => false
  end.
