(* C11 - interleaving model of pkg/isequencer/impl.go: the caller (Start/Next/Flush/Actualize),
   the flusher goroutine and the actualizer goroutine with its log batcher, over a persistent
   (numbers, next-offset, log) state; storage failures, cache eviction (exact LRU), crash/restart.
   One step = one lock-delimited section of the code (the verifhook points and the storage calls
   delimit them).  Definitions only. *)
From Coq Require Import List NArith Lia Bool.
From V Require Import Lib.Check Gen.Params.
Import ListNotations.
Local Open Scope N_scope.

(* ---- small maps keyed by N (a key = (workspace, sequence) numbered by the harness) ---- *)
Definition kmap := list (N * N).

Fixpoint kget (k : N) (m : kmap) : option N :=
  match m with
  | [] => None
  | (k', v) :: r => if k =? k' then Some v else kget k r
  end.

Fixpoint kdel (k : N) (m : kmap) : kmap :=
  match m with
  | [] => []
  | (k', v) :: r => if k =? k' then kdel k r else (k', v) :: kdel k r
  end.

Definition kput (k v : N) (m : kmap) : kmap := (k, v) :: kdel k m.

(* maps.Copy(dst, src): src overrides *)
Definition kmerge (dst src : kmap) : kmap := fold_right (fun kv acc => kput (fst kv) (snd kv) acc) dst src.

Definition ksize (m : kmap) : N := N.of_nat (length m).

(* remove the keys of vals whose current value equals the flushed one *)
Definition kremove_same (m vals : kmap) : kmap :=
  fold_left (fun acc kv => match kget (fst kv) acc with
                           | Some v => if v =? snd kv then kdel (fst kv) acc else acc
                           | None => acc end) vals m.

(* canonical comparison of maps as sets of bindings (Go map iteration order is arbitrary) *)
Definition ksub (a b : kmap) : bool := forallb (fun kv => match kget (fst kv) b with Some v => v =? snd kv | None => false end) a.
Definition keqb (a b : kmap) : bool := ksub a b && ksub b a.

(* ---- exact LRU (hashicorp/golang-lru): most recent first ---- *)
Definition lru_get (k : N) (c : kmap) : option (N * kmap) :=
  match kget k c with Some v => Some (v, (k, v) :: kdel k c) | None => None end.
Definition lru_add (cap : N) (k v : N) (c : kmap) : kmap :=
  let c' := (k, v) :: kdel k c in
  if ksize c' <=? cap then c' else removelast c'.

(* ---- state ---- *)
Definition event := (N * kmap)%type.      (* offset, highest number per key recorded in it *)

Inductive fpc :=
| FWait | FWoken
| FSnap (vals : kmap) (off : N)
| FNums (vals : kmap) (off : N)       (* numbers written, offset not yet *)
| FWritten (vals : kmap).

Inductive apc :=
| ANone | AStart | AStopping | AStopped | ACleared
| AScan (todo : list event)
| ABetween (e : event) (todo : list event).

Record st := mkSt {
  p_nums : kmap; p_off : N; p_log : list event;             (* persistent *)
  v_cache : kmap; v_inproc : kmap; v_tbf : kmap; v_tbfoff : N; v_next : N;
  v_txn : bool; v_app : bool;   (* a transaction is open; its event has been appended *)
  v_act : apc;
  v_fl : fpc; v_flrun : bool; v_flcancel : bool; v_sig : bool
}.

Record cfg := mkCfg { c_cap : N; c_max : N }.

Definition fresh (pn : kmap) (po : N) (lg : list event) : st :=
  (* New(): transactionIsInProgress := true; Actualize() *)
  mkSt pn po lg [] [] [] 0 0 false false AStart FWait false false false.

Definition init : st := fresh [] 0 [].

(* ---- actions, with the outputs the harness observed ---- *)
Inductive act :=
| CStart (ok : bool) (off : N)
| CNext (k n : N)
| EAppend (off : N) (vals : kmap)
| CFlush
| CActualize
| FWake | FExit | FSkip
| FSnapshot (vals : kmap) (off : N)     (* what the flusher then hands to the storage *)
| FWriteNums | FWriteOff | FWriteErr
| FRemove
| XStop | XStopped | XClear
| XReadOff (ok : bool)
| XScanErr
| XBatchWait
| XBatchOff (off : N)
| XBatchVals
| XDone
| Crash.

Definition log_from (lg : list event) (off : N) : list event := filter (fun e => off <=? fst e) lg.
Definition last_off (lg : list event) : N := fold_left (fun m e => N.max m (fst e)) lg 0.

Definition set_fl (s : st) (f : fpc) : st :=
  mkSt (p_nums s) (p_off s) (p_log s) (v_cache s) (v_inproc s) (v_tbf s) (v_tbfoff s) (v_next s) (v_txn s) (v_app s) (v_act s) f (v_flrun s) (v_flcancel s) (v_sig s).
Definition set_act (s : st) (a : apc) : st :=
  mkSt (p_nums s) (p_off s) (p_log s) (v_cache s) (v_inproc s) (v_tbf s) (v_tbfoff s) (v_next s) (v_txn s) (v_app s) a (v_fl s) (v_flrun s) (v_flcancel s) (v_sig s).
Definition set_sig (s : st) (b : bool) : st :=
  mkSt (p_nums s) (p_off s) (p_log s) (v_cache s) (v_inproc s) (v_tbf s) (v_tbfoff s) (v_next s) (v_txn s) (v_app s) (v_act s) (v_fl s) (v_flrun s) (v_flcancel s) b.

Definition is_anone (a : apc) : bool := match a with ANone => true | _ => false end.

Definition step (c : cfg) (s : st) (a : act) : option st :=
  match a with
  | CStart ok off =>
      if v_txn s then None
      else if negb (is_anone (v_act s)) then (if negb ok && (off =? 0) then Some s else None)
      else if c_max c <? ksize (v_tbf s) then (if negb ok && (off =? 0) then Some (set_sig s true) else None)
      else if ok && (off =? v_next s)
           then Some (mkSt (p_nums s) (p_off s) (p_log s) (v_cache s) (v_inproc s) (v_tbf s) (v_tbfoff s) (v_next s) true false (v_act s) (v_fl s) (v_flrun s) (v_flcancel s) (v_sig s))
           else None
  | CNext k n =>
      (* client protocol: numbers are drawn before the transaction's event is appended *)
      if negb (v_txn s) || v_app s then None else
      let '(base, cache1) :=
        match lru_get k (v_cache s) with
        | Some (v, c') => (v, c')
        | None =>
            (match kget k (v_inproc s) with
             | Some v => v
             | None => match kget k (v_tbf s) with
                       | Some v => v
                       | None => match kget k (p_nums s) with Some v => v | None => 0 end
                       end
             end, v_cache s)
        end in
      if n =? base + 1
      then Some (mkSt (p_nums s) (p_off s) (p_log s) (lru_add (c_cap c) k n cache1) (kput k n (v_inproc s)) (v_tbf s) (v_tbfoff s) (v_next s) true (v_app s) (v_act s) (v_fl s) (v_flrun s) (v_flcancel s) (v_sig s))
      else None
  | EAppend off vals =>
      (* the client appends the event that carries exactly the numbers issued in this transaction *)
      if v_txn s && negb (v_app s) && (off =? v_next s) && keqb vals (v_inproc s)
      then Some (mkSt (p_nums s) (p_off s) (p_log s ++ [(off, vals)]) (v_cache s) (v_inproc s) (v_tbf s) (v_tbfoff s)
                      (v_next s) true true (v_act s) (v_fl s) (v_flrun s) (v_flcancel s) (v_sig s))
      else None
  | CFlush =>
      (* client protocol: Flush only after the transaction's event was appended *)
      if negb (v_txn s) || negb (v_app s) then None else
      Some (mkSt (p_nums s) (p_off s) (p_log s) (v_cache s) [] (kmerge (v_tbf s) (v_inproc s)) (v_next s) (v_next s + 1) false false (v_act s) (v_fl s) (v_flrun s) (v_flcancel s) true)
  | CActualize =>
      if negb (v_txn s) || negb (is_anone (v_act s)) then None else
      Some (mkSt (p_nums s) (p_off s) (p_log s) [] [] (v_tbf s) (v_tbfoff s) (v_next s) false false AStart (v_fl s) (v_flrun s) (v_flcancel s) (v_sig s))
  | FWake =>
      match v_fl s with
      | FWait => if v_flrun s && v_sig s && negb (v_flcancel s) then Some (set_sig (set_fl s FWoken) false) else None
      | _ => None
      end
  | FExit =>
      match v_fl s with
      | FWait => if v_flrun s && v_flcancel s
                 then Some (mkSt (p_nums s) (p_off s) (p_log s) (v_cache s) (v_inproc s) (v_tbf s) (v_tbfoff s) (v_next s) (v_txn s) (v_app s) (v_act s) FWait false (v_flcancel s) (v_sig s))
                 else None
      | _ => None
      end
  | FSkip =>
      match v_fl s with
      | FWoken => if v_tbfoff s =? 0 then Some (set_fl s FWait) else None
      | _ => None
      end
  | FSnapshot vals off =>
      match v_fl s with
      | FWoken => if negb (v_tbfoff s =? 0) && (off =? v_tbfoff s) && keqb vals (v_tbf s)
                  then Some (set_fl s (FSnap (v_tbf s) (v_tbfoff s))) else None
      | _ => None
      end
  | FWriteNums =>
      match v_fl s with
      | FSnap vals off =>
          Some (mkSt (kmerge (p_nums s) vals) (p_off s) (p_log s) (v_cache s) (v_inproc s) (v_tbf s) (v_tbfoff s) (v_next s) (v_txn s) (v_app s) (v_act s) (FNums vals off) (v_flrun s) (v_flcancel s) (v_sig s))
      | _ => None
      end
  | FWriteOff =>
      match v_fl s with
      | FNums vals off =>
          Some (mkSt (p_nums s) off (p_log s) (v_cache s) (v_inproc s) (v_tbf s) (v_tbfoff s) (v_next s) (v_txn s) (v_app s) (v_act s) (FWritten vals) (v_flrun s) (v_flcancel s) (v_sig s))
      | _ => None
      end
  | FWriteErr =>
      (* the write failed (before anything, or between numbers and offset): retried from the start *)
      match v_fl s with
      | FSnap vals off => Some s
      | FNums vals off => Some (set_fl s (FSnap vals off))
      | _ => None
      end
  | FRemove =>
      match v_fl s with
      | FWritten vals =>
          Some (mkSt (p_nums s) (p_off s) (p_log s) (v_cache s) (v_inproc s) (kremove_same (v_tbf s) vals) (v_tbfoff s) (v_next s) (v_txn s) (v_app s) (v_act s) FWait (v_flrun s) (v_flcancel s) (v_sig s))
      | _ => None
      end
  | XStop =>
      match v_act s with
      | AStart => Some (mkSt (p_nums s) (p_off s) (p_log s) (v_cache s) (v_inproc s) (v_tbf s) (v_tbfoff s) (v_next s) (v_txn s) (v_app s) AStopping (v_fl s) (v_flrun s) true (v_sig s))
      | _ => None
      end
  | XStopped =>
      match v_act s with
      | AStopping => if negb (v_flrun s) then Some (set_sig (set_act s AStopped) false) else None
      | _ => None
      end
  | XClear =>
      match v_act s with
      | AStopped => Some (mkSt (p_nums s) (p_off s) (p_log s) (v_cache s) (v_inproc s) [] 0 (v_next s) (v_txn s) (v_app s) ACleared FWait true false (v_sig s))
      | _ => None
      end
  | XReadOff ok =>
      match v_act s with
      | ACleared =>
          if ok then Some (mkSt (p_nums s) (p_off s) (p_log s) (v_cache s) (v_inproc s) (v_tbf s) (v_tbfoff s) (p_off s) (v_txn s) (v_app s) (AScan (log_from (p_log s) (p_off s))) (v_fl s) (v_flrun s) (v_flcancel s) (v_sig s))
          else Some s
      | _ => None
      end
  | XScanErr =>
      (* ActualizeSequencesFromPLog failed between two events: retried from the current next offset *)
      match v_act s with
      | AScan _ => Some (set_act s (AScan (log_from (p_log s) (v_next s))))
      | _ => None
      end
  | XBatchWait =>
      match v_act s with
      | AScan (_ :: _) => if c_max c <=? ksize (v_tbf s) then Some (set_sig s true) else None
      | _ => None
      end
  | XBatchOff off =>
      match v_act s with
      | AScan (e :: todo) =>
          if (ksize (v_tbf s) <? c_max c) && (off =? fst e + 1)
          then if seq_batcher_two_step
               then Some (mkSt (p_nums s) (p_off s) (p_log s) (v_cache s) (v_inproc s) (v_tbf s) (fst e + 1) (fst e + 1) (v_txn s) (v_app s) (ABetween e todo) (v_fl s) (v_flrun s) (v_flcancel s) (v_sig s))
               else Some (mkSt (p_nums s) (p_off s) (p_log s) (v_cache s) (v_inproc s) (kmerge (v_tbf s) (snd e)) (fst e + 1) (fst e + 1) (v_txn s) (v_app s) (AScan todo) (v_fl s) (v_flrun s) (v_flcancel s) (v_sig s))
          else None
      | _ => None
      end
  | XBatchVals =>
      match v_act s with
      | ABetween e todo =>
          Some (mkSt (p_nums s) (p_off s) (p_log s) (v_cache s) (v_inproc s) (kmerge (v_tbf s) (snd e)) (v_tbfoff s) (v_next s) (v_txn s) (v_app s) (AScan todo) (v_fl s) (v_flrun s) (v_flcancel s) (v_sig s))
      | _ => None
      end
  | XDone =>
      match v_act s with
      | AScan [] => Some (set_act s ANone)
      | _ => None
      end
  | Crash => Some (fresh (p_nums s) (p_off s) (p_log s))
  end.

Fixpoint run (c : cfg) (s : st) (l : list act) : option st :=
  match l with
  | [] => Some s
  | a :: r => match step c s a with Some s' => run c s' r | None => None end
  end.

(* ================= trace checking ================= *)
Record trace := mkTrace { t_cap : N; t_max : N; t_acts : list act }.

(* index of the first action the model does not accept (None = all accepted) *)
Fixpoint first_rejected (c : cfg) (s : st) (i : N) (l : list act) : option N :=
  match l with
  | [] => None
  | a :: r => match step c s a with Some s' => first_rejected c s' (i + 1) r | None => Some i end
  end.

Definition agrees (t : trace) : bool :=
  match first_rejected (mkCfg (t_cap t) (t_max t)) init 0 (t_acts t) with None => true | Some _ => false end.

(* ---- the property on the observed actions alone ----
   ghost state reconstructed from what was observed: the log (EAppend), the persisted pair (the
   arguments of the storage writes: FSnapshot tells what FWriteNums/FWriteOff then persist). *)
Definition log_max_below (k : N) (lg : list event) (off : N) : N :=
  fold_left (fun m e => if fst e <? off then match kget k (snd e) with Some v => N.max m v | None => m end else m) lg 0.
Definition log_max (k : N) (lg : list event) : N :=
  fold_left (fun m e => match kget k (snd e) with Some v => N.max m v | None => m end) lg 0.
Definition log_keys (lg : list event) : list N := flat_map (fun e => map fst (snd e)) lg.

Definition pair_ok (pn : kmap) (po : N) (lg : list event) : bool :=
  forallb (fun k => log_max_below k lg po <=? match kget k pn with Some v => v | None => 0 end) (log_keys lg).

Record ghost := mkG { g_log : list event; g_nums : kmap; g_off : N; g_pending : kmap * N; g_txn : kmap }.

Fixpoint oracle (g : ghost) (l : list act) : bool :=
  match l with
  | [] => true
  | a :: r =>
      match a with
      | CStart true off =>
          (* offsets handed out are consecutive with the log *)
          (match g_log g with [] => true | _ => off =? last_off (g_log g) + 1 end)
          && oracle (mkG (g_log g) (g_nums g) (g_off g) (g_pending g) []) r
      | CNext k n =>
          (* above everything recorded in the log and in sequence storage, increasing inside the transaction *)
          (log_max k (g_log g) <? n)
          && ((match kget k (g_nums g) with Some v => v | None => 0 end) <? n)
          && ((match kget k (g_txn g) with Some v => v | None => 0 end) <? n)
          && oracle (mkG (g_log g) (g_nums g) (g_off g) (g_pending g) (kput k n (g_txn g))) r
      | EAppend off vals => oracle (mkG (g_log g ++ [(off, vals)]) (g_nums g) (g_off g) (g_pending g) (g_txn g)) r
      | FSnapshot vals off => oracle (mkG (g_log g) (g_nums g) (g_off g) (vals, off) (g_txn g)) r
      | FWriteNums =>
          let pn := kmerge (g_nums g) (fst (g_pending g)) in
          pair_ok pn (g_off g) (g_log g) && oracle (mkG (g_log g) pn (g_off g) (g_pending g) (g_txn g)) r
      | FWriteOff =>
          let po := snd (g_pending g) in
          pair_ok (g_nums g) po (g_log g) && oracle (mkG (g_log g) (g_nums g) po (g_pending g) (g_txn g)) r
      | _ => oracle g r
      end
  end.

Definition satisfies (t : trace) : bool := oracle (mkG [] [] 0 ([], 0) []) (t_acts t).
