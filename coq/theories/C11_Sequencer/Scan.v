(* C11 - the log scan of pkg/appparts/internal/seqstorage (ActualizeSequencesFromPLog) and the
   per-event maximum of the sequencer's batcher, as functions of the content of a stored event.

   An event gives: the ids of the argument ODoc and of its nested records (pre-order), the ids of the
   NEW CUD rows - both into the record-id sequence of the event's workspace - and the event's WLog
   offset into the WLog-offset sequence.  `flt` is the translator flag seq_scan_skips_reserved_ids:
   ids of the reserved range (singletons: istructs.MinReservedRecordID .. MaxReservedRecordID) are not
   issued by the record-id sequence and are left out (repair of finding C11-F2).

   The bridge to the interleaving model (Model.v): the model's log event is (offset, highest number
   per key); `model_log` computes it from the real events through this scan; for a log written by
   the protocol it satisfies `log_mono`/`offs_sorted`, the hypotheses of `Inv_fresh`. *)
From Coq Require Import List NArith Lia Bool.
From V Require Import Lib.Check Gen.Params C11_Sequencer.Model C11_Sequencer.Lemmas.
Import ListNotations.
Local Open Scope N_scope.

(* ---- stored event content ---- *)
Definition skey := (N * N)%type.                      (* workspace, sequence id *)
Definition skey_eqb (a b : skey) : bool := (fst a =? fst b) && (snd a =? snd b).

Record sevent := mkSEv {
  se_ws : N;
  se_wlog : N;
  se_odoc : bool;                 (* the argument object is an ODoc *)
  se_arg : list N;                (* ids of the argument tree, pre-order *)
  se_cuds : list (bool * N)       (* CUD rows in event order: is-new, id *)
}.

Definition in_reserved (id : N) : bool := (seq_min_reserved_id <=? id) && (id <=? seq_max_reserved_id).
Definition scan_keeps (flt : bool) (id : N) : bool := negb (flt && in_reserved id).

(* every id the scan hands to addToBatch, in order *)
Definition rec_ids (e : sevent) : list N :=
  (if se_odoc e then se_arg e else []) ++ map snd (filter fst (se_cuds e)).

Definition event_batch (flt : bool) (e : sevent) : list (skey * N) :=
  map (fun id => ((se_ws e, seq_record_id_seq), id)) (filter (scan_keeps flt) (rec_ids e))
  ++ [((se_ws e, seq_wlog_offset_seq), se_wlog e)].

(* ---- the batcher's maxValues map ---- *)
Definition skmap := list (skey * N).

Fixpoint sk_get (k : skey) (m : skmap) : option N :=
  match m with
  | [] => None
  | (k', v) :: r => if skey_eqb k k' then Some v else sk_get k r
  end.

Fixpoint sk_del (k : skey) (m : skmap) : skmap :=
  match m with
  | [] => []
  | (k', v) :: r => if skey_eqb k k' then sk_del k r else (k', v) :: sk_del k r
  end.

Definition sk_put (k : skey) (v : N) (m : skmap) : skmap := (k, v) :: sk_del k m.

(* if current, exists := maxValues[sv.Key]; !exists || sv.Value > current { maxValues[sv.Key] = sv.Value } *)
Definition bm_step (m : skmap) (kv : skey * N) : skmap :=
  match sk_get (fst kv) m with
  | Some cur => if cur <? snd kv then sk_put (fst kv) (snd kv) m else m
  | None => sk_put (fst kv) (snd kv) m
  end.

Definition batch_max (b : list (skey * N)) : skmap := fold_left bm_step b [].

(* ---- what an event records for a key: the specification side ---- *)
Definition omax (a : option N) (v : N) : option N :=
  match a with Some x => Some (N.max x v) | None => Some v end.
Definition lmax (l : list N) : option N := fold_left omax l None.

Definition issued_ids (e : sevent) : list N := filter (fun id => seq_first_user_id <=? id) (rec_ids e).

Definition event_numbers (e : sevent) (k : skey) : option N :=
  if skey_eqb k (se_ws e, seq_record_id_seq) then lmax (issued_ids e)
  else if skey_eqb k (se_ws e, seq_wlog_offset_seq) then Some (se_wlog e)
  else None.

(* every id handed to the scan is one the sequence issued (>= FirstUserRecordID) or a reserved one *)
Definition ids_ok (e : sevent) : Prop :=
  forall id, In id (rec_ids e) -> in_reserved id = true \/ seq_first_user_id <= id.

(* ---- the model's log computed from real events through the scan ---- *)
Definition enc (k : skey) : N := fst k * 65536 + snd k.
Definition enc_map (m : skmap) : kmap := map (fun kv => (enc (fst kv), snd kv)) m.
Definition model_event (flt : bool) (oe : N * sevent) : event :=
  (fst oe, enc_map (batch_max (event_batch flt (snd oe)))).
Definition model_log (flt : bool) (lg : list (N * sevent)) : list event := map (model_event flt) lg.

(* a log written by the protocol: per workspace the issued record ids and the WLog offsets grow from
   event to event; offsets grow *)
Inductive protocol_log : list (N * sevent) -> Prop :=
| pl_nil : protocol_log []
| pl_snoc lg off e :
    protocol_log lg -> ids_ok e ->
    (forall o' e', In (o', e') lg -> o' < off) ->
    (forall o' e', In (o', e') lg -> se_ws e' = se_ws e ->
       se_wlog e' <= se_wlog e /\ forall id id', In id (issued_ids e) -> In id' (issued_ids e') -> id' <= id) ->
    protocol_log (lg ++ [(off, e)]).

(* ================= proofs ================= *)

Lemma skey_eqb_eq a b : skey_eqb a b = true <-> a = b.
Proof.
  destruct a as [a1 a2], b as [b1 b2]; unfold skey_eqb; cbn. rewrite andb_true_iff, !N.eqb_eq.
  split; [intros [-> ->]; reflexivity|intros H; inversion H; auto].
Qed.

Lemma skey_eqb_refl a : skey_eqb a a = true.
Proof. apply skey_eqb_eq; reflexivity. Qed.

Lemma skey_eqb_neq a b : skey_eqb a b = false <-> a <> b.
Proof.
  split; intros H.
  - intros E. apply skey_eqb_eq in E. congruence.
  - destruct (skey_eqb a b) eqn:E; auto. apply skey_eqb_eq in E. contradiction.
Qed.

Lemma skey_eqb_sym a b : skey_eqb a b = skey_eqb b a.
Proof. unfold skey_eqb. rewrite (N.eqb_sym (fst a)), (N.eqb_sym (snd a)). reflexivity. Qed.

Lemma sk_get_del_same k m : sk_get k (sk_del k m) = None.
Proof.
  induction m as [|[k' v] r IH]; cbn; auto.
  destruct (skey_eqb k k') eqn:E; auto. cbn. rewrite E. exact IH.
Qed.

Lemma sk_get_del_other k k' m : k <> k' -> sk_get k' (sk_del k m) = sk_get k' m.
Proof.
  intros Hn. induction m as [|[k2 v] r IH]; cbn; auto.
  destruct (skey_eqb k k2) eqn:E.
  - apply skey_eqb_eq in E. subst k2. rewrite IH.
    destruct (skey_eqb k' k) eqn:E2; auto. apply skey_eqb_eq in E2. congruence.
  - cbn. rewrite IH. reflexivity.
Qed.

Lemma sk_get_put k v m k' : sk_get k' (sk_put k v m) = if skey_eqb k' k then Some v else sk_get k' m.
Proof.
  unfold sk_put. cbn. destruct (skey_eqb k' k) eqn:E; auto.
  apply sk_get_del_other. apply skey_eqb_neq in E. congruence.
Qed.

Definition kvals (k : skey) (b : list (skey * N)) : list N :=
  map snd (filter (fun kv => skey_eqb (fst kv) k) b).

Lemma omax_fold l a : fold_left omax l (Some a) = Some (fold_left N.max l a).
Proof. revert a; induction l as [|x l IH]; intros a; cbn; auto. Qed.

Lemma bm_step_get m kv k :
  sk_get k (bm_step m kv) = if skey_eqb (fst kv) k then omax (sk_get k m) (snd kv) else sk_get k m.
Proof.
  destruct kv as [k0 v]. unfold bm_step. cbn [fst snd].
  destruct (skey_eqb k0 k) eqn:E.
  - apply skey_eqb_eq in E. subst k0.
    destruct (sk_get k m) as [cur|] eqn:G; cbn [omax].
    + destruct (N.ltb_spec cur v).
      * rewrite sk_get_put, skey_eqb_refl. f_equal. lia.
      * rewrite G. f_equal. lia.
    + rewrite sk_get_put, skey_eqb_refl. reflexivity.
  - assert (Hk : skey_eqb k k0 = false) by (rewrite skey_eqb_sym; exact E).
    destruct (sk_get k0 m) as [cur|]; [destruct (cur <? v)|]; auto; rewrite sk_get_put, Hk; reflexivity.
Qed.

Lemma batch_fold_get b : forall m k,
  sk_get k (fold_left bm_step b m) = fold_left omax (kvals k b) (sk_get k m).
Proof.
  induction b as [|kv b IH]; intros m k; cbn; auto.
  rewrite IH, bm_step_get. unfold kvals. cbn [filter].
  destruct (skey_eqb (fst kv) k); reflexivity.
Qed.

(* the batcher's map holds, per key, the largest value of the batch *)
Lemma batch_max_spec b k : sk_get k (batch_max b) = lmax (kvals k b).
Proof. unfold batch_max, lmax. rewrite batch_fold_get. reflexivity. Qed.

Lemma kvals_app k a b : kvals k (a ++ b) = kvals k a ++ kvals k b.
Proof. unfold kvals. rewrite filter_app, map_app. reflexivity. Qed.

Lemma kvals_map_same k l : kvals k (map (fun id => (k, id)) l) = l.
Proof.
  unfold kvals. induction l as [|x l IH]; cbn; auto. rewrite skey_eqb_refl. cbn. f_equal. exact IH.
Qed.

Lemma kvals_map_other k k' l : k <> k' -> kvals k' (map (fun id => (k, id)) l) = [].
Proof.
  intros Hn. unfold kvals. induction l as [|x l IH]; cbn; auto.
  destruct (skey_eqb k k') eqn:E; [apply skey_eqb_eq in E; contradiction|exact IH].
Qed.

(* the two sequences are different sequences *)
Lemma seq_ids_differ : seq_record_id_seq <> seq_wlog_offset_seq.
Proof. vm_compute. discriminate. Qed.

Lemma reserved_below_first_user id : in_reserved id = true -> seq_first_user_id <= id -> False.
Proof.
  unfold in_reserved. rewrite andb_true_iff, !N.leb_le. intros [_ H].
  assert (seq_max_reserved_id < seq_first_user_id) by (vm_compute; reflexivity). lia.
Qed.

(* with the filter, what survives of an ids_ok event is exactly its issued ids, in order *)
Lemma filter_keeps_issued l :
  (forall id, In id l -> in_reserved id = true \/ seq_first_user_id <= id) ->
  filter (scan_keeps true) l = filter (fun id => seq_first_user_id <=? id) l.
Proof.
  induction l as [|x l IH]; intros H; cbn; auto.
  rewrite IH by (intros id Hid; apply H; right; exact Hid).
  unfold scan_keeps at 1. cbn [andb].
  destruct (H x (or_introl eq_refl)) as [R|U].
  - rewrite R. cbn. destruct (N.leb_spec seq_first_user_id x); auto.
    exfalso. eapply reserved_below_first_user; eauto.
  - destruct (in_reserved x) eqn:R; [exfalso; eapply reserved_below_first_user; eauto|].
    cbn. apply N.leb_le in U. rewrite U. reflexivity.
Qed.

(* (a) the real scan + the batcher's maximum give, per key, exactly the largest number the event
   records for the key: the largest issued record id, the WLog offset, nothing else *)
Lemma scan_batch_spec e : ids_ok e ->
  forall k, sk_get k (batch_max (event_batch true e)) = event_numbers e k.
Proof.
  intros Hok k. rewrite batch_max_spec. unfold event_batch, event_numbers.
  rewrite kvals_app. rewrite (filter_keeps_issued _ Hok). fold (issued_ids e).
  destruct (skey_eqb k (se_ws e, seq_record_id_seq)) eqn:E1.
  - apply skey_eqb_eq in E1. subst k. rewrite kvals_map_same.
    unfold kvals. cbn. unfold skey_eqb at 1. cbn.
    destruct (N.eqb_spec seq_wlog_offset_seq seq_record_id_seq) as [E|E].
    + exfalso. apply seq_ids_differ. auto.
    + rewrite andb_false_r. cbn. rewrite app_nil_r. reflexivity.
  - apply skey_eqb_neq in E1. rewrite kvals_map_other by congruence. cbn [app].
    unfold kvals. cbn. rewrite skey_eqb_sym.
    destruct (skey_eqb k (se_ws e, seq_wlog_offset_seq)); reflexivity.
Qed.

(* ---- encoding of (workspace, sequence) keys into the model's N keys ---- *)
Definition small_seq (m : skmap) : Prop := forall k v, In (k, v) m -> snd k < 65536.

Lemma enc_inj a b : snd a < 65536 -> snd b < 65536 -> enc a = enc b -> a = b.
Proof.
  destruct a as [a1 a2], b as [b1 b2]; unfold enc; cbn. intros Ha Hb H.
  assert (a1 = b1) by nia. subst. f_equal. lia.
Qed.

Lemma kget_enc_map k m : snd k < 65536 -> small_seq m -> kget (enc k) (enc_map m) = sk_get k m.
Proof.
  intros Hk. induction m as [|[k' v] r IH]; intros Hs; cbn; auto.
  assert (Hk' : snd k' < 65536) by (apply (Hs k' v); left; reflexivity).
  assert (Hr : small_seq r) by (intros k2 v2 H2; apply (Hs k2 v2); right; exact H2).
  destruct (skey_eqb k k') eqn:E.
  - apply skey_eqb_eq in E. subst k'. rewrite N.eqb_refl. reflexivity.
  - destruct (N.eqb_spec (enc k) (enc k')) as [E2|E2].
    + apply enc_inj in E2; auto. apply skey_eqb_neq in E. contradiction.
    + apply IH. exact Hr.
Qed.

Lemma kget_enc_map_inv k' m v : kget k' (enc_map m) = Some v -> exists k w, In (k, w) m /\ k' = enc k.
Proof.
  induction m as [|[k w] r IH]; cbn; [discriminate|].
  destruct (N.eqb_spec k' (enc k)) as [E|E].
  - intros _. exists k, w. split; [left; reflexivity|exact E].
  - intros H. destruct (IH H) as (k2 & w2 & Hin & He). exists k2, w2. split; [right; exact Hin|exact He].
Qed.

Lemma bm_step_keys m kv k v : In (k, v) (bm_step m kv) -> k = fst kv \/ exists v', In (k, v') m.
Proof.
  assert (Hdel : forall k0 (m0 : skmap) k1 v1, In (k1, v1) (sk_del k0 m0) -> In (k1, v1) m0).
  { intros k0 m0 k1 v1. induction m0 as [|[k2 v2] r IH]; cbn; auto.
    destruct (skey_eqb k0 k2); cbn; [intros H; right; auto|intros [H|H]; [left; exact H|right; auto]]. }
  destruct kv as [k0 v0]. unfold bm_step. cbn [fst snd].
  assert (Hput : In (k, v) (sk_put k0 v0 m) -> k = k0 \/ exists v', In (k, v') m).
  { unfold sk_put. intros [H|H]; [left; inversion H; reflexivity|right; exists v; eapply Hdel; exact H]. }
  destruct (sk_get k0 m) as [cur|]; [destruct (cur <? v0)|]; auto. intros H. right. exists v. exact H.
Qed.

Lemma batch_max_keys b : forall m k v, In (k, v) (fold_left bm_step b m) ->
  (exists v', In (k, v') m) \/ In k (map fst b).
Proof.
  induction b as [|kv b IH]; intros m k v H; cbn in *.
  - left. exists v. exact H.
  - destruct (IH _ _ _ H) as [[v' Hv]|Hin]; [|right; right; exact Hin].
    destruct (bm_step_keys _ _ _ _ Hv) as [->|[v2 H2]]; [right; left; reflexivity|left; exists v2; exact H2].
Qed.

Lemma event_batch_small flt e : small_seq (batch_max (event_batch flt e)).
Proof.
  intros k v H. unfold batch_max in H. apply batch_max_keys in H. destruct H as [[v' []]|H].
  unfold event_batch in H. rewrite map_app, map_map in H. apply in_app_or in H. destruct H as [H|[<-|[]]].
  - apply in_map_iff in H. destruct H as (id & <- & _). cbn. vm_compute. reflexivity.
  - cbn. vm_compute. reflexivity.
Qed.

Lemma event_batch_keys flt e k v : In (k, v) (batch_max (event_batch flt e)) ->
  k = (se_ws e, seq_record_id_seq) \/ k = (se_ws e, seq_wlog_offset_seq).
Proof.
  intros H. unfold batch_max in H. apply batch_max_keys in H. destruct H as [[v' []]|H].
  unfold event_batch in H. rewrite map_app, map_map in H. apply in_app_or in H. destruct H as [H|[<-|[]]].
  - apply in_map_iff in H. destruct H as (id & <- & _). left. reflexivity.
  - right. reflexivity.
Qed.

(* what the model event holds under an encoded key *)
Lemma model_event_get flt off e k : snd k < 65536 ->
  kget (enc k) (snd (model_event flt (off, e))) = sk_get k (batch_max (event_batch flt e)).
Proof. intros Hk. cbn. apply kget_enc_map; [exact Hk|apply event_batch_small]. Qed.

Lemma fold_nmax_init l : forall c, c <= fold_left N.max l c.
Proof. induction l as [|z l IH]; intros c; cbn; [lia|]. specialize (IH (N.max c z)). lia. Qed.

Lemma fold_nmax_ge l : forall c x, In x l -> x <= fold_left N.max l c.
Proof.
  induction l as [|z l IH]; intros c x H; cbn; [contradiction|]. destruct H as [<-|H].
  - pose proof (fold_nmax_init l (N.max c z)). lia.
  - apply IH. exact H.
Qed.

Lemma fold_nmax_in l : forall c, fold_left N.max l c = c \/ In (fold_left N.max l c) l.
Proof.
  induction l as [|z l IH]; intros c; cbn; [left; reflexivity|].
  destruct (IH (N.max c z)) as [E|H]; [|right; right; exact H].
  rewrite E. destruct (N.max_spec c z) as [[_ M]|[_ M]]; rewrite M; [right; left; reflexivity|left; reflexivity].
Qed.

Lemma lmax_ge l v x : lmax l = Some v -> In x l -> x <= v.
Proof.
  unfold lmax. destruct l as [|a l]; [discriminate|]. cbn [fold_left omax]. rewrite omax_fold.
  intros H. inversion H; subst. clear H. intros [<-|Hin]; [apply fold_nmax_init|apply fold_nmax_ge; exact Hin].
Qed.

Lemma lmax_in l v : lmax l = Some v -> In v l.
Proof.
  unfold lmax. destruct l as [|a l]; [discriminate|]. cbn [fold_left omax]. rewrite omax_fold.
  intros H. inversion H; subst. clear H. destruct (fold_nmax_in l a) as [E|Hin]; [left; symmetry; exact E|right; exact Hin].
Qed.

Lemma log_max_le k lg v : (forall e, In e lg -> ev_val k e <= v) -> log_max k lg <= v.
Proof.
  induction lg as [|e lg IH] using rev_ind; intros H.
  - cbn. lia.
  - rewrite log_max_app. assert (ev_val k e <= v) by (apply H; apply in_or_app; right; left; reflexivity).
    assert (log_max k lg <= v) by (apply IH; intros e' He'; apply H; apply in_or_app; left; exact He'). lia.
Qed.

(* (b) the batches the filtered scan delivers for a protocol log satisfy the model's hypothesis *)
Lemma model_log_mono lg : protocol_log lg -> log_mono (model_log true lg).
Proof.
  induction 1 as [|lg off e Hpl IH Hok Hoff Hws].
  - constructor.
  - unfold model_log. rewrite map_app. cbn [map]. constructor; [exact IH|].
    intros k' v Hget. apply log_max_le. intros me Hme.
    apply in_map_iff in Hme. destruct Hme as ([o' e'] & <- & Hin).
    cbn [model_event snd fst] in Hget.
    destruct (kget_enc_map_inv _ _ _ Hget) as (k & w & Hk & ->).
    assert (Hsmall : snd k < 65536) by (eapply event_batch_small; exact Hk).
    rewrite kget_enc_map in Hget by (auto using event_batch_small).
    rewrite scan_batch_spec in Hget by exact Hok.
    unfold ev_val. rewrite model_event_get by exact Hsmall.
    destruct (sk_get k (batch_max (event_batch true e'))) as [v'|] eqn:G'; [|lia].
    assert (Hok' : ids_ok e').
    { clear - Hpl Hin. induction Hpl as [|lg0 off0 e0 Hp IHp Hok0 _ _]; [contradiction|].
      apply in_app_or in Hin. destruct Hin as [Hin|[Hin|[]]]; [auto|inversion Hin; subst; exact Hok0]. }
    rewrite scan_batch_spec in G' by exact Hok'.
    unfold event_numbers in Hget, G'.
    destruct (skey_eqb k (se_ws e, seq_record_id_seq)) eqn:E1.
    + apply skey_eqb_eq in E1. subst k.
      destruct (skey_eqb (se_ws e, seq_record_id_seq) (se_ws e', seq_record_id_seq)) eqn:E2.
      * apply skey_eqb_eq in E2. inversion E2 as [Ews].
        destruct (Hws o' e' Hin (eq_sym Ews)) as [_ Hids].
        apply Hids; [eapply lmax_in; exact Hget|eapply lmax_in; exact G'].
      * destruct (skey_eqb (se_ws e, seq_record_id_seq) (se_ws e', seq_wlog_offset_seq)) eqn:E3; [|discriminate].
        apply skey_eqb_eq in E3. exfalso. apply seq_ids_differ. congruence.
    + destruct (skey_eqb k (se_ws e, seq_wlog_offset_seq)) eqn:E2; [|discriminate].
      apply skey_eqb_eq in E2. subst k. inversion Hget; subst v.
      destruct (skey_eqb (se_ws e, seq_wlog_offset_seq) (se_ws e', seq_record_id_seq)) eqn:E3.
      * apply skey_eqb_eq in E3. exfalso. apply seq_ids_differ. congruence.
      * destruct (skey_eqb (se_ws e, seq_wlog_offset_seq) (se_ws e', seq_wlog_offset_seq)) eqn:E4; [|discriminate].
        apply skey_eqb_eq in E4. inversion E4 as [Ews]. inversion G'; subst v'.
        destruct (Hws o' e' Hin (eq_sym Ews)) as [Hw _]. exact Hw.
Qed.

Lemma model_log_sorted flt lg : protocol_log lg -> offs_sorted (model_log flt lg).
Proof.
  induction 1 as [|lg off e Hpl IH Hok Hoff Hws].
  - exact I.
  - unfold model_log. rewrite map_app. cbn [map]. apply offs_sorted_app; [exact IH|].
    intros me Hme. apply in_map_iff in Hme. destruct Hme as ([o' e'] & <- & Hin). cbn. eapply Hoff. exact Hin.
Qed.
