(* C14 - token validation: executable model of itokensjwt.ValidateToken (with the jwt/v5 parser
   steps it relies on), itokens-payloads.implIAppTokens.ValidateToken and itokensjwt.IssueToken.
   Definitions only.

   The model works on an abstract VIEW of the token string: how the string splits, what the
   header and claims segments decode to (a small JSON ADT), whether the signature segment decodes
   and whether it is the HMAC of header.claims under the validator's key.  base64, encoding/json,
   HMAC-SHA2, time parsing and the decoding of the claims into the payload struct are library
   code: their results enter as fields of the view (computed by the harness independently of
   itokensjwt and jwt/v5), never as axioms.  Time is in nanoseconds since the Unix epoch. *)
From Coq Require Import List NArith ZArith Bool.
From V Require Import Lib.Lex Lib.Check Gen.Params.
Import ListNotations.
Local Open Scope Z_scope.

(* ---- JSON values as far as the validator can tell them apart ---- *)
Inductive jval :=
| JNull
| JBool (b : bool)
| JNum (int64 : option Z) (floor : Z)   (* json.Number: its Int64() result if it has one; floor of its value
                                          (of an integer literal: the integer itself, of any size) *)
| JStr (s : bytes)
| JArr
| JObj.

Definition claims := list (bytes * jval).    (* a decoded JSON object (Go map: one entry per key) *)

Fixpoint get (k : bytes) (c : claims) : option jval :=
  match c with
  | [] => None
  | (k', v) :: r => if lex_eqb k k' then Some v else get k r
  end.

Definition JInt (z : Z) : jval := JNum (Some z) z.

(* ---- the view of a token string ---- *)
Inductive hdr := HBadB64 | HBadJSON | HObj (alg : option bytes).   (* alg: header["alg"] when it is a string *)
Inductive cseg := CBadB64 | CBadJSON | CObj (c : claims).

Record tokparts := mkTok {
  tk_hdr : hdr;
  tk_claims : cseg;
  tk_sig_b64 : bool;        (* the signature segment is base64url *)
  tk_mac_key : option bytes; (* ... and is HMAC_alg(k, header "." claims) for this HMAC key k - the key block (hmac_key
                               below) of a secret, found by recomputing the MAC under every WHOLE secret of the run;
                               None: under none *)
  tk_sig_canon : bool;      (* the signature segment is exactly the unpadded base64url text of the bytes it decodes to *)
  tk_iat : option Z;        (* claim IssuedAt, when it is a string: result of parsing it as RFC 3339 (ns) *)
  tk_pl : option N          (* digest of the claims decoded into the expected payload struct; None = does not decode *)
}.

Inductive view := VNoSplit | VTok (t : tokparts).   (* VNoSplit: the string has not exactly two '.' *)

(* ---- results ---- *)
Inductive ekind :=
| EInvalidToken   (* itokens.ErrInvalidToken *)
| EExpired        (* itokens.ErrTokenExpired *)
| EAudience       (* itokens.ErrInvalidAudience *)
| EPayload        (* itokens.ErrInvalidPayload *)
| EOtherApp       (* payloads.ErrTokenIssuedForAnotherApp *)
| EMalformed      (* jwt.ErrTokenMalformed, passed through *)
| ESignature      (* jwt.ErrTokenSignatureInvalid, passed through *)
| EClaims         (* jwt.ErrTokenInvalidClaims other than expiry, passed through *)
| EDecode.        (* error of decoding the claims into the payload struct *)

Record gp := mkGp { gp_app : bytes; gp_dur : Z; gp_iat : option Z }.   (* istructs.GenericPayload *)

Inductive outcome := Panic | Err (e : ekind) | Ok (g : gp) (payload : N).

(* ---- names ---- *)
Definition s_HS256 : bytes := [72;83;50;53;54]%N.
Definition s_HS384 : bytes := [72;83;51;56;52]%N.
Definition s_HS512 : bytes := [72;83;53;49;50]%N.
Definition is_hmac (a : bytes) : bool := lex_eqb a s_HS256 || lex_eqb a s_HS384 || lex_eqb a s_HS512.
(* the other signing methods jwt/v5 registers: none RS256 RS384 RS512 ES256 ES384 ES512 PS256 PS384 PS512 EdDSA *)
Definition other_methods : list bytes :=
  [[110;111;110;101]; [82;83;50;53;54]; [82;83;51;56;52]; [82;83;53;49;50]; [69;83;50;53;54]; [69;83;51;56;52]; [69;83;53;49;50];
   [80;83;50;53;54]; [80;83;51;56;52]; [80;83;53;49;50]; [69;100;68;83;65]]%N.
Definition is_other_method (a : bytes) : bool := existsb (lex_eqb a) other_methods.

Definition k_exp : bytes := [101;120;112]%N.   (* jwt/v5 MapClaims.GetExpirationTime *)
Definition k_nbf : bytes := [110;98;102]%N.    (* jwt/v5 MapClaims.GetNotBefore *)
(* the claim names ValidateToken / buildGenericPayload read: Gen.Params jwt_k_*_validate *)

Definition ns_per_s : Z := 1000000000.

(* ---- jwt/v5 Parser.ParseWithClaims after the segments decoded ---- *)
Inductive jerr := JMalformed | JUnverifiable | JSignature | JExpired | JClaims.

Inductive dres := DOk | DFail | DType.
(* verifyExpiresAt: now.Before(exp), exp = NumericDate truncated to the second; absent = not checked *)
Definition exp_check (now : Z) (c : claims) : dres :=
  match get k_exp c with
  | None => DOk
  | Some (JNum _ fl) => if now <? fl * ns_per_s then DOk else DFail
  | Some _ => DType
  end.
(* verifyNotBefore: !now.Before(nbf) *)
Definition nbf_check (now : Z) (c : claims) : dres :=
  match get k_nbf c with
  | None => DOk
  | Some (JNum _ fl) => if now <? fl * ns_per_s then DFail else DOk
  | Some _ => DType
  end.
(* the errors are joined; ValidateToken asks errors.Is(err, ErrTokenExpired) first *)
Definition claims_verdict (now : Z) (c : claims) : option jerr :=
  match exp_check now c, nbf_check now c with
  | DOk, DOk => None
  | DFail, _ => Some JExpired
  | _, _ => Some JClaims
  end.

(* HMAC does not use a secret as it is: a secret longer than the block of the hash is replaced by
   its hash, and the result is padded with zero bytes to the block.  This block is the key of the
   MAC; two secrets with the same block are the same signer as far as HMAC can tell (H: the hash of
   the method, B: its block size - SHA-256: 64, SHA-384/512: 128). *)
Definition hmac_key (H : bytes -> bytes) (B : nat) (k : bytes) : bytes :=
  let k0 := if Nat.ltb B (length k) then H k else k in
  k0 ++ repeat 0%N (B - length k0).

(* The keys of this model (key, k, t_key ...) are such key blocks, computed by the harness with the
   real SHA-2 from the WHOLE secret for the method of the token at hand.
   HMAC as an ideal MAC: a signature made under key k verifies under key k' iff k = k' *)
Definition mac_under (key : bytes) (t : tokparts) : bool := option_eqb lex_eqb (tk_mac_key t) (Some key).

Definition parse_verdict (now : Z) (alg : option bytes) (c : claims) (sig_b64 sig_ok : bool) : option jerr :=
  match alg with
  | None => Some JUnverifiable                                   (* alg unspecified *)
  | Some a =>
      if negb (is_hmac a || is_other_method a) then Some JUnverifiable   (* alg unavailable *)
      else if negb sig_b64 then Some JMalformed
      else if negb (is_hmac a) then Some JUnverifiable           (* keyfunc of ValidateToken refuses non-HMAC methods *)
      else if negb sig_ok then Some JSignature
      else claims_verdict now c
  end.

(* setErrorDescription *)
Definition describe (e : jerr) : ekind :=
  match e with
  | JMalformed => EMalformed
  | JUnverifiable => EInvalidToken
  | JSignature => ESignature
  | JExpired => EExpired
  | JClaims => EClaims
  end.

(* ---- ValidateToken's own reading of the claims ---- *)
(* audience = claims["aud"].(string): unchecked in the code as it is (panics when the claim is
   absent or not a string); with a checked assertion the audience is the empty string *)
Definition aud_of_g (checked : bool) (c : claims) : option bytes :=
  match get jwt_k_aud_validate c with
  | Some (JStr a) => Some a
  | _ => if checked then Some []%N else None
  end.

Fixpoint count_byte (b : N) (s : bytes) : nat :=
  match s with
  | [] => O
  | x :: r => if (x =? b)%N then S (count_byte b r) else count_byte b r
  end.

(* AppQName.UnmarshalJSON of the re-marshalled claim: a string with exactly one '/' *)
Definition app_parse (v : option jval) : option bytes :=
  match v with
  | Some (JStr s) => if Nat.eqb (count_byte 47%N s) 1 then Some s else None
  | _ => None
  end.

(* time.Time.UnmarshalJSON of the re-marshalled claim: null (or absent) leaves the zero time *)
Definition iat_parse (v : option jval) (parsed : option Z) : option (option Z) :=
  match v with
  | None | Some JNull => Some None
  | Some (JStr _) => match parsed with Some t => Some (Some t) | None => None end
  | Some _ => None
  end.

Inductive gpres := GPanic | GErr | GOk (g : gp).

(* buildGenericPayload: claims["Duration"].(json.Number) unchecked, then Int64(), IssuedAt, AppQName *)
Definition build_gp_g (checked : bool) (c : claims) (iat : option Z) : gpres :=
  match get jwt_k_dur_validate c with
  | Some (JNum i _) =>
      match i with
      | None => GErr
      | Some d =>
          match iat_parse (get jwt_k_issuedat_validate c) iat with
          | None => GErr
          | Some t =>
              match app_parse (get jwt_k_app_validate c) with
              | None => GErr
              | Some a => GOk (mkGp a d t)
              end
          end
      end
  | _ => if checked then GErr else GPanic
  end.

(* JWTSigner.ValidateToken; ac / dc: whether the aud / Duration assertions are checked ones;
   sc: whether a valid token's signature segment is compared with its canonical encoding;
   key: the secret the validator was constructed with (the whole byte string) *)
Definition validate_tok_g (ac dc sc : bool) (key expected_aud : bytes) (now : Z) (v : view) : outcome :=
  match v with
  | VNoSplit => Err EInvalidToken              (* parser returns no token: error wrapped with ErrInvalidToken *)
  | VTok t =>
      match tk_hdr t with
      | HBadB64 | HBadJSON => Err EMalformed   (* token.Claims still nil: the claims block is skipped *)
      | HObj alg =>
          (* token.Claims is the (possibly still empty) map from here on *)
          let '(c, pv) := match tk_claims t with
                          | CObj c => (c, parse_verdict now alg c (tk_sig_b64 t) (mac_under key t))
                          | _ => ([], Some JMalformed)
                          end in
          match aud_of_g ac c with
          | None => Panic
          | Some aud =>
              match build_gp_g dc c (tk_iat t) with
              | GPanic => Panic
              | GErr => Err EPayload
              | GOk g =>
                  match pv with
                  | Some e => Err (describe e)
                  | None =>
                      if negb (lex_eqb expected_aud aud) then Err EAudience
                      else if sc && negb (tk_sig_canon t) then Err EInvalidToken
                      else match tk_pl t with Some p => Ok g p | None => Err EDecode end
                  end
              end
          end
      end
  end.

(* implIAppTokens.ValidateToken *)
Definition validate_app_g (ac dc sc : bool) (key expected_aud app : bytes) (now : Z) (v : view) : outcome :=
  match validate_tok_g ac dc sc key expected_aud now v with
  | Ok g p => if lex_eqb (gp_app g) app then Ok g p else Err EOtherApp
  | o => o
  end.

(* the code as it is now: the flags are read from the source by the translator *)
Definition aud_of := aud_of_g jwt_aud_assert_checked.
Definition build_gp := build_gp_g jwt_dur_assert_checked.
Definition validate_tok := validate_tok_g jwt_aud_assert_checked jwt_dur_assert_checked jwt_sig_canon_checked.
Definition validate_app := validate_app_g jwt_aud_assert_checked jwt_dur_assert_checked jwt_sig_canon_checked.

(* ---- IssueToken: the claims of an issued token ---- *)
(* standard claims override payload fields of the same name (mergeClaimsMaps(m, claims)) *)
Definition issue_claims (aud app : bytes) (d t0 : Z) (iat_text : bytes) (payload : claims) : claims :=
  [ (jwt_k_iat_issue, JInt (t0 / ns_per_s));
    (jwt_k_exp_issue, JInt ((t0 + d) / ns_per_s));
    (jwt_k_aud_issue, JStr aud);
    (jwt_k_dur_issue, JInt d);
    (jwt_k_app_issue, JStr app);
    (jwt_k_issuedat_issue, JStr iat_text) ] ++ payload.

(* IssueToken marshals the payload and decodes it into the claims map.  Without json.Number every
   number passes through a float64: an integer is rounded to 53 significant bits (nearest, ties to
   even).  What is then written is the shortest decimal of that float - the same integer as long as
   it is at most 2^53 in magnitude; beyond that the model stops at the float value. *)
Definition two53 : Z := 9007199254740992.
Definition f64_int (z : Z) : Z :=
  let a := Z.abs z in
  if a <=? two53 then z
  else
    let e := Z.log2 a - 52 in
    let q := a / 2 ^ e in
    let r := a mod 2 ^ e in
    let h := 2 ^ (e - 1) in
    let q' := if r <? h then q else if h <? r then q + 1 else if Z.even q then q else q + 1 in
    Z.sgn z * (q' * 2 ^ e).
Definition issue_number (use_number : bool) (z : Z) : Z := if use_number then z else f64_int z.

(* the claim IssueToken writes for the integer payload field (k, z), where the model determines it *)
Definition issued_int_ok (use_number : bool) (c : claims) (kz : bytes * Z) : bool :=
  let f := issue_number use_number (snd kz) in
  if use_number || (Z.abs f <=? two53)
  then match get (fst kz) c with Some (JNum _ fl) => fl =? f | _ => false end
  else true.

(* NewJWTSigner: secrets shorter than SecretKeyLength are refused (panic) *)
Definition signer_constructible (key : bytes) : bool := (jwt_secret_min_len <=? N.of_nat (length key))%N.

(* view of a token issued by a signer with secret k: signed with HS256 under k (so the signature
   verifies exactly under the byte string k); the signature segment is the canonical encoding
   (jwt/v5 encodes it); library round trips (RFC 3339 text of t0 parses back
   to t0, the payload's JSON decodes back into its type) appear as the two last fields *)
Definition issued_view (k : bytes) (aud app : bytes) (d t0 : Z) (iat_text : bytes) (payload : claims) (digest : option N) : view :=
  VTok (mkTok (HObj (Some s_HS256)) (CObj (issue_claims aud app d t0 iat_text payload)) true (Some k) true (Some t0) digest).

(* ---- observed traces ---- *)
Inductive obs := OPanic | OErr (e : ekind) | OOk (g : gp) (payload : N).

(* how the harness produced the string (what it knows without looking at any result) *)
Inductive origin :=
| OIssued (key : bytes) (intact : bool) (app aud : bytes) (t0 d : Z) (payload : N) (ints : list (bytes * Z))
    (* IssueToken of the real code, by a signer constructed with secret key, at clock t0 for app /
       payload type aud / duration d; intact: the string was not changed; payload: digest of the
       payload handed to IssueToken, ints: its top-level integer fields *)
| OSigned (key : option bytes) (aud app : option bytes) (exp : option Z)
    (* header.claims written by the harness; key: the secret it signed them with by a real HMAC of
       the header's method (None: not signed that way); aud/app/exp: the claims as the harness wrote them (exp in whole seconds, rounded down) *)
| ORaw.  (* any other string: nothing in it was computed from a secret *)

Record vtrace := mkTrace {
  t_key : bytes;        (* HMAC key (block of the whole secret) the validating signer was constructed with *)
  t_key_buf : bytes;    (* HMAC key of what the caller's slice holds when the validation runs (the caller may have overwritten it) *)
  t_empty : bool;       (* the string is the empty string (for Authenticate: no token, the guest) *)
  t_now : Z;
  t_aud : bytes;        (* payload type the validator expects *)
  t_app : bytes;        (* application of the IAppTokens *)
  t_view : view;
  t_origin : origin;
  t_tok : obs;          (* ITokens.ValidateToken *)
  t_apptok : obs;       (* IAppTokens.ValidateToken *)
  t_auth : option N     (* IAuthenticator.Authenticate: 0 accepted with the principals of a token, 1 error, 2 panic,
                           3 accepted as sys.Guest; None = not run *)
}.

Definition ekind_eqb (a b : ekind) : bool :=
  match a, b with
  | EInvalidToken, EInvalidToken | EExpired, EExpired | EAudience, EAudience | EPayload, EPayload
  | EOtherApp, EOtherApp | EMalformed, EMalformed | ESignature, ESignature | EClaims, EClaims | EDecode, EDecode => true
  | _, _ => false
  end.

Definition gp_eqb (a b : gp) : bool :=
  lex_eqb (gp_app a) (gp_app b) && (gp_dur a =? gp_dur b) && option_eqb Z.eqb (gp_iat a) (gp_iat b).

Definition out_obs_eqb (o : outcome) (b : obs) : bool :=
  match o, b with
  | Panic, OPanic => true
  | Err e, OErr e' => ekind_eqb e e'
  | Ok g p, OOk g' p' => gp_eqb g g' && (p =? p')%N
  | _, _ => false
  end.

Definition auth_code (o : outcome) : N := match o with Ok _ _ => 0 | Err _ => 1 | Panic => 2 end%N.
(* Authenticate: the empty string is "no token" (guest); every other string goes to IAppTokens.ValidateToken as it is *)
Definition auth_model (empty : bool) (o : outcome) : N := if empty then 3%N else auth_code o.

(* agrees: the model reproduces every recorded result *)
(* NewJWTSigner keeps the caller's slice unless it copies it: the secret the signer works with is
   then whatever the caller's buffer holds at the time of the call *)
Definition working_key_g (copies : bool) (t : vtrace) : bytes := if copies then t_key t else t_key_buf t.
Definition working_key := working_key_g jwt_signer_copies_secret.

Definition agrees_v (t : vtrace) : bool :=
  out_obs_eqb (validate_tok (working_key t) (t_aud t) (t_now t) (t_view t)) (t_tok t)
  && out_obs_eqb (validate_app (working_key t) (t_aud t) (t_app t) (t_now t) (t_view t)) (t_apptok t)
  && match t_auth t with
     | None => true
     | Some c => (c =? auth_model (t_empty t) (validate_app (working_key t) (t_aud t) (t_app t) (t_now t) (t_view t)))%N
     end
  (* the integer fields of the payload in the claims of an unchanged issued token *)
  && match t_origin t, t_view t with
     | OIssued _ true _ _ _ _ _ ints, VTok tk =>
         match tk_claims tk with CObj c => forallb (issued_int_ok jwt_issue_uses_number c) ints | _ => false end
     | _, _ => true
     end.

(* satisfies: the property on the observed results and the origin of the string only.
   No call may panic.  A call may succeed only if the string is an unchanged token issued with the
   validator's HMAC key - the key block of the whole secret it was constructed with, whatever the
   caller did to its buffer afterwards - (or a header.claims pair
   HMAC-signed with that secret), for the expected
   payload type, for the validator's application when the validation is application-bound, and
   its lifetime has not elapsed; the generic and decoded payloads of an issued token are the
   issued ones. *)
Definition origin_allows (bound : bool) (t : vtrace) : bool :=
  match t_origin t with
  | OIssued key intact app aud t0 d _ _ =>
      lex_eqb key (t_key t) && intact && lex_eqb aud (t_aud t) && (t_now t <? t0 + d) && (negb bound || lex_eqb app (t_app t))
  | OSigned key aud app exp =>
      option_eqb lex_eqb key (Some (t_key t)) && option_eqb lex_eqb aud (Some (t_aud t))
      && match exp with Some e => t_now t <? e * ns_per_s | None => true end
      && (negb bound || option_eqb lex_eqb app (Some (t_app t)))
  | ORaw => false
  end.

Definition payload_matches (t : vtrace) (g : gp) (p : N) : bool :=
  match t_origin t with
  | OIssued _ _ app _ t0 d dig _ => lex_eqb (gp_app g) app && (gp_dur g =? d) && option_eqb Z.eqb (gp_iat g) (Some t0) && (p =? dig)%N
  | OSigned _ _ app _ => option_eqb lex_eqb app (Some (gp_app g))
  | ORaw => true
  end.

Definition obs_allowed (bound : bool) (t : vtrace) (o : obs) : bool :=
  match o with
  | OPanic => false
  | OErr _ => true
  | OOk g p => origin_allows bound t && payload_matches t g p
  end.

Definition satisfies_v (t : vtrace) : bool :=
  obs_allowed false t (t_tok t)
  && obs_allowed true t (t_apptok t)
  && match t_auth t with
     | None => true
     | Some c =>
         (* no panic; the principals of a token only for what an app-bound validation may accept;
            the guest only for the empty string - never for any other string that is not a token *)
         negb (c =? 2)%N && (negb (c =? 0)%N || origin_allows true t) && (negb (c =? 3)%N || t_empty t)
     end.

(* ---- secrets: construction and CryptoHash256 of two signers side by side ---- *)
Record ktrace := mkKeys {
  k_a : bytes; k_b : bytes;            (* the two secrets, whole *)
  k_na : bytes; k_nb : bytes;          (* their HMAC-SHA256 key blocks *)
  k_ctor_a : bool; k_ctor_b : bool;    (* NewJWTSigner returned (true) or panicked (false) *)
  k_hash_eq : option bool              (* both constructed: CryptoHash256(data) of a = that of b, same data *)
}.

(* model: construction succeeds from the minimum length on; the keyed hash is an ideal MAC, equal
   for equal secrets and only for them *)
Definition agrees_k (t : ktrace) : bool :=
  Bool.eqb (k_ctor_a t) (signer_constructible (k_a t))
  && Bool.eqb (k_ctor_b t) (signer_constructible (k_b t))
  && option_eqb Bool.eqb (k_hash_eq t)
       (if signer_constructible (k_a t) && signer_constructible (k_b t) then Some (lex_eqb (k_na t) (k_nb t)) else None).

(* property side: signers with different HMAC keys are different signers - their keyed hashes of
   the same data differ; the same key gives the same hash *)
Definition satisfies_k (t : ktrace) : bool :=
  match k_hash_eq t with
  | Some e => Bool.eqb e (lex_eqb (k_na t) (k_nb t))
  | None => true
  end.

Inductive trace := TVal (t : vtrace) | TKeys (t : ktrace).
Definition agrees (t : trace) : bool := match t with TVal v => agrees_v v | TKeys k => agrees_k k end.
Definition satisfies (t : trace) : bool := match t with TVal v => satisfies_v v | TKeys k => satisfies_k k end.
