(* C14 - proofs about the token validation model. All statements are for arbitrary values of the
   two "assertion is checked" flags, so they survive the repair of F13 unchanged. *)
From Coq Require Import List NArith ZArith Bool Lia.
From V Require Import Lib.Lex Lib.Check Gen.Params C14_Tokens.Model.
Import ListNotations.
Local Open Scope Z_scope.

(* ---------- the shape ValidateToken gives to every token that reaches the claims block ---------- *)

Definition claims_of (t : tokparts) : claims := match tk_claims t with CObj c => c | _ => [] end.

Definition pv_of (key : bytes) (now : Z) (alg : option bytes) (t : tokparts) : option jerr :=
  match tk_claims t with
  | CObj c => parse_verdict now alg c (tk_sig_b64 t) (mac_under key t)
  | _ => Some JMalformed
  end.

(* the claims map ValidateToken reads, if it gets that far *)
Definition reaches_claims (v : view) : option claims :=
  match v with
  | VNoSplit => None
  | VTok t => match tk_hdr t with HObj _ => Some (claims_of t) | _ => None end
  end.

Definition str_claim (k : bytes) (c : claims) : bool := match get k c with Some (JStr _) => true | _ => false end.
Definition num_claim (k : bytes) (c : claims) : bool := match get k c with Some (JNum _ _) => true | _ => false end.

(* the claims ValidateToken asserts the type of are present with that type, or the assertion is a checked one *)
Definition asserted_ok (ac dc : bool) (c : claims) : bool :=
  (ac || str_claim jwt_k_aud_validate c) && (dc || num_claim jwt_k_dur_validate c).

Lemma validate_core ac dc sc key aud now t alg :
  tk_hdr t = HObj alg ->
  validate_tok_g ac dc sc key aud now (VTok t) =
    match aud_of_g ac (claims_of t) with
    | None => Panic
    | Some a =>
        match build_gp_g dc (claims_of t) (tk_iat t) with
        | GPanic => Panic
        | GErr => Err EPayload
        | GOk g =>
            match pv_of key now alg t with
            | Some e => Err (describe e)
            | None => if negb (lex_eqb aud a) then Err EAudience
                      else if sc && negb (tk_sig_canon t) then Err EInvalidToken
                      else match tk_pl t with Some p => Ok g p | None => Err EDecode end
            end
        end
    end.
Proof.
  intros H. unfold validate_tok_g, claims_of, pv_of. rewrite H. destruct (tk_claims t); reflexivity.
Qed.

Lemma aud_of_none ac c : aud_of_g ac c = None <-> ac = false /\ str_claim jwt_k_aud_validate c = false.
Proof.
  unfold aud_of_g, str_claim. destruct (get jwt_k_aud_validate c) as [[| | | | |]|]; destruct ac; split; intros H;
    try discriminate; try (destruct H; discriminate); auto.
Qed.

Lemma build_gp_panic dc c i : build_gp_g dc c i = GPanic <-> dc = false /\ num_claim jwt_k_dur_validate c = false.
Proof.
  unfold build_gp_g, num_claim. destruct (get jwt_k_dur_validate c) as [[| |n fl| | |]|]; destruct dc; split; intros H;
    try discriminate; try (destruct H; discriminate); auto.
  all: exfalso; destruct n as [d|]; try discriminate;
    destruct (iat_parse _ _); try discriminate; destruct (app_parse _); discriminate.
Qed.

(* ---------- 1. totality: exactly when a validation panics ---------- *)

Theorem panic_iff ac dc sc key aud now v :
  validate_tok_g ac dc sc key aud now v = Panic <-> exists c, reaches_claims v = Some c /\ asserted_ok ac dc c = false.
Proof.
  destruct v as [|t]; cbn [reaches_claims].
  - split; [discriminate | intros (c & H & _); discriminate].
  - destruct (tk_hdr t) as [| |alg] eqn:Hh.
    + unfold validate_tok_g; rewrite Hh. split; [discriminate | intros (c & H & _); discriminate].
    + unfold validate_tok_g; rewrite Hh. split; [discriminate | intros (c & H & _); discriminate].
    + rewrite (validate_core ac dc sc key aud now t alg Hh). unfold asserted_ok.
      split.
      * intros H. exists (claims_of t). split; [reflexivity|].
        destruct (aud_of_g ac (claims_of t)) as [a|] eqn:Ea.
        -- destruct (build_gp_g dc (claims_of t) (tk_iat t)) eqn:Eg; try discriminate.
           ++ apply build_gp_panic in Eg as [-> ->]. cbn. apply andb_false_r.
           ++ destruct (pv_of key now alg t); try discriminate. destruct (negb _); try discriminate. destruct (sc && _); try discriminate. destruct (tk_pl t); discriminate.
        -- apply aud_of_none in Ea as [-> ->]. reflexivity.
      * intros (c & Hc & Hf). cbn in Hc. injection Hc as <-.
        destruct (aud_of_g ac (claims_of t)) as [a|] eqn:Ea; [|reflexivity].
        destruct (build_gp_g dc (claims_of t) (tk_iat t)) eqn:Eg; [reflexivity| |]; exfalso.
        -- apply andb_false_iff in Hf as [Hf|Hf].
           ++ destruct (aud_of_none ac (claims_of t)) as [_ K]. apply orb_false_iff in Hf. rewrite (K Hf) in Ea. discriminate.
           ++ apply orb_false_iff in Hf. destruct (build_gp_panic dc (claims_of t) (tk_iat t)) as [_ K]. rewrite (K Hf) in Eg. discriminate.
        -- apply andb_false_iff in Hf as [Hf|Hf].
           ++ destruct (aud_of_none ac (claims_of t)) as [_ K]. apply orb_false_iff in Hf. rewrite (K Hf) in Ea. discriminate.
           ++ apply orb_false_iff in Hf. destruct (build_gp_panic dc (claims_of t) (tk_iat t)) as [_ K]. rewrite (K Hf) in Eg. discriminate.
Qed.

(* a header-only token with an empty claims object: the witness of F13 *)
Definition bare_view : view := VTok (mkTok (HObj None) (CObj []) false None false None None).

Lemma bare_view_panics ac dc sc key aud now : ac && dc = false -> validate_tok_g ac dc sc key aud now bare_view = Panic.
Proof.
  intros E. apply panic_iff. exists []. split; [reflexivity|].
  unfold asserted_ok, str_claim, num_claim. cbn. rewrite !orb_false_r. exact E.
Qed.

Theorem no_panic_iff_checked ac dc sc :
  (forall key aud now v, validate_tok_g ac dc sc key aud now v <> Panic) <-> ac && dc = true.
Proof.
  split.
  - intros H. destruct (ac && dc) eqn:E; [reflexivity|]. exfalso.
    exact (H [] [] 0 bare_view (bare_view_panics ac dc sc [] [] 0 E)).
  - intros E key aud now v H. apply panic_iff in H as (c & _ & Hf). apply andb_true_iff in E as [-> ->]. discriminate.
Qed.

Theorem no_panic_typed ac dc sc key aud now v :
  (forall c, reaches_claims v = Some c -> str_claim jwt_k_aud_validate c = true /\ num_claim jwt_k_dur_validate c = true) ->
  validate_tok_g ac dc sc key aud now v <> Panic.
Proof.
  intros H E. apply panic_iff in E as (c & Hc & Hf). destruct (H c Hc) as [A B].
  unfold asserted_ok in Hf. rewrite A, B, !orb_true_r in Hf. discriminate.
Qed.

Lemma app_panic_iff ac dc sc key aud app now v : validate_app_g ac dc sc key aud app now v = Panic <-> validate_tok_g ac dc sc key aud now v = Panic.
Proof.
  unfold validate_app_g. destruct (validate_tok_g ac dc sc key aud now v) as [|e|g p]; try tauto.
  destruct (lex_eqb _ _); split; discriminate.
Qed.

(* ---------- 2. soundness of acceptance ---------- *)

Lemma parse_verdict_none now alg c sb so :
  parse_verdict now alg c sb so = None ->
  exists a, alg = Some a /\ is_hmac a = true /\ sb = true /\ so = true /\ exp_check now c = DOk /\ nbf_check now c = DOk.
Proof.
  unfold parse_verdict. destruct alg as [a|]; [|discriminate].
  destruct (is_hmac a) eqn:Eh; cbn [orb negb].
  - destruct sb; cbn [negb]; [|discriminate]. destruct so; cbn [negb]; [|discriminate].
    unfold claims_verdict. destruct (exp_check now c), (nbf_check now c); try discriminate. eauto 10.
  - destruct (is_other_method a); cbn [negb]; [|discriminate]. destruct sb; discriminate.
Qed.

Lemma app_parse_some v a : app_parse v = Some a -> v = Some (JStr a) /\ count_byte 47%N a = 1%nat.
Proof.
  unfold app_parse. destruct v as [[| | | s| |]|]; try discriminate.
  destruct (Nat.eqb (count_byte 47%N s) 1) eqn:E; [|discriminate]. intros H; injection H as <-.
  apply Nat.eqb_eq in E. auto.
Qed.

Lemma build_gp_ok dc c i g :
  build_gp_g dc c i = GOk g ->
  exists d fl t, get jwt_k_dur_validate c = Some (JNum (Some d) fl)
    /\ iat_parse (get jwt_k_issuedat_validate c) i = Some t
    /\ get jwt_k_app_validate c = Some (JStr (gp_app g)) /\ count_byte 47%N (gp_app g) = 1%nat
    /\ g = mkGp (gp_app g) d t.
Proof.
  unfold build_gp_g. destruct (get jwt_k_dur_validate c) as [[| |n fl| | |]|]; try (destruct dc; discriminate).
  destruct n as [d|]; [|discriminate]. destruct (iat_parse _ i) as [t|] eqn:Ei; [|discriminate].
  destruct (app_parse _) as [a|] eqn:Ea; [|discriminate]. intros H; injection H as <-.
  apply app_parse_some in Ea as [Ea Ec]. cbn. eauto 10.
Qed.

(* the token's expiry claim, if any, is a number and lies in the future; same for not-before *)
Definition not_expired (now : Z) (c : claims) : Prop :=
  match get k_exp c with None => True | Some (JNum _ fl) => now < fl * ns_per_s | Some _ => False end.
Definition already_valid (now : Z) (c : claims) : Prop :=
  match get k_nbf c with None => True | Some (JNum _ fl) => fl * ns_per_s <= now | Some _ => False end.

Lemma exp_check_ok now c : exp_check now c = DOk -> not_expired now c.
Proof.
  unfold exp_check, not_expired. destruct (get k_exp c) as [[| |n fl| | |]|]; try discriminate; auto.
  destruct (now <? fl * ns_per_s) eqn:E; [|discriminate]. intros _. apply Z.ltb_lt. exact E.
Qed.

Lemma nbf_check_ok now c : nbf_check now c = DOk -> already_valid now c.
Proof.
  unfold nbf_check, already_valid. destruct (get k_nbf c) as [[| |n fl| | |]|]; try discriminate; auto.
  destruct (now <? fl * ns_per_s) eqn:E; [discriminate|]. intros _. apply Z.ltb_ge. exact E.
Qed.

Inductive accepted (ac dc sc : bool) (key aud : bytes) (now : Z) (v : view) (g : gp) (p : N) : Prop :=
| mkAccepted (t : tokparts) (alg : bytes) (c : claims)
    (acc_view : v = VTok t)
    (acc_hdr : tk_hdr t = HObj (Some alg))
    (acc_hmac : is_hmac alg = true)                      (* an HMAC method ... *)
    (acc_cl : tk_claims t = CObj c)
    (acc_b64 : tk_sig_b64 t = true)
    (acc_sig : tk_mac_key t = Some key)                  (* ... computed under exactly the validator's secret (the whole byte string) *)
    (acc_canon : sc = true -> tk_sig_canon t = true)     (* (if the code compares it) in its one canonical spelling *)
    (acc_aud : aud_of_g ac c = Some aud)                 (* audience = expected payload type *)
    (acc_exp : not_expired now c)                        (* lifetime not elapsed *)
    (acc_nbf : already_valid now c)
    (acc_gp : build_gp_g dc c (tk_iat t) = GOk g)        (* generic payload = what the claims say *)
    (acc_pl : tk_pl t = Some p).                         (* payload = the claims decoded into the expected type *)

Lemma mac_under_eq key t : mac_under key t = true <-> tk_mac_key t = Some key.
Proof.
  unfold mac_under. destruct (tk_mac_key t) as [k|]; cbn; [|split; discriminate].
  rewrite lex_eqb_eq. split; congruence.
Qed.

Theorem accept_sound_g ac dc sc key aud now v g p :
  validate_tok_g ac dc sc key aud now v = Ok g p -> accepted ac dc sc key aud now v g p.
Proof.
  destruct v as [|t]; [discriminate|].
  destruct (tk_hdr t) as [| |alg] eqn:Hh; try (unfold validate_tok_g; rewrite Hh; discriminate).
  rewrite (validate_core ac dc sc key aud now t alg Hh).
  destruct (aud_of_g ac (claims_of t)) as [a|] eqn:Ea; [|discriminate].
  destruct (build_gp_g dc (claims_of t) (tk_iat t)) as [| |g'] eqn:Eg; try discriminate.
  destruct (pv_of key now alg t) as [e|] eqn:Ep; [discriminate|].
  destruct (lex_eqb aud a) eqn:Eq; [|discriminate]. cbn [negb].
  destruct (sc && negb (tk_sig_canon t)) eqn:Esc; [discriminate|].
  assert (Hcanon : sc = true -> tk_sig_canon t = true).
  { intros ->. cbn in Esc. destruct (tk_sig_canon t); [reflexivity|discriminate]. }
  destruct (tk_pl t) as [p'|] eqn:El; [|discriminate].
  intros H; injection H as <- <-.
  apply lex_eqb_eq in Eq; subst a.
  unfold pv_of in Ep. unfold claims_of in Ea, Eg.
  destruct (tk_claims t) as [| |c] eqn:Ec; [discriminate|discriminate|].
  apply parse_verdict_none in Ep as (al & -> & Hm & Hb & Hs & He & Hn).
  exact (mkAccepted ac dc sc key aud now (VTok t) g' p' t al c eq_refl Hh Hm Ec Hb (proj1 (mac_under_eq key t) Hs) Hcanon Ea (exp_check_ok _ _ He) (nbf_check_ok _ _ Hn) Eg El).
Qed.

Theorem accept_app_sound_g ac dc sc key aud app now v g p :
  validate_app_g ac dc sc key aud app now v = Ok g p ->
  validate_tok_g ac dc sc key aud now v = Ok g p /\ gp_app g = app.
Proof.
  unfold validate_app_g. destruct (validate_tok_g ac dc sc key aud now v) as [|e|g' p']; try discriminate.
  destruct (lex_eqb (gp_app g') app) eqn:E; [|discriminate]. intros H; injection H as <- <-.
  apply lex_eqb_eq in E. auto.
Qed.

(* without a MAC computed under the validator's secret nothing is accepted.  The secret is the
   whole byte string the signer was constructed with: a signature made under ANY other byte string -
   shorter, longer, a prefix or an extension of the validator's secret, equal to it in its first 64
   bytes - is the signature of a different secret *)
Definition sig_verifies (key : bytes) (v : view) : bool := match v with VNoSplit => false | VTok t => mac_under key t end.

Theorem unsigned_rejected_g ac dc sc key aud now v :
  sig_verifies key v = false -> forall g p, validate_tok_g ac dc sc key aud now v <> Ok g p.
Proof.
  intros H g p E. destruct (accept_sound_g _ _ _ _ _ _ _ _ _ E) as [t al c Hv _ _ _ _ Hs _ _ _ _ _ _].
  subst v. cbn in H. rewrite (proj2 (mac_under_eq key t) Hs) in H. discriminate.
Qed.

Theorem other_secret_rejected_g ac dc sc key aud now t k :
  tk_mac_key t = Some k -> k <> key -> forall g p, validate_tok_g ac dc sc key aud now (VTok t) <> Ok g p.
Proof.
  intros Hk Hne. apply unsigned_rejected_g. cbn. unfold mac_under. rewrite Hk. cbn.
  apply lex_eqb_neq. exact Hne.
Qed.

(* the spelling of the signature segment: compared with the canonical one iff sc *)
Theorem accepted_canonical ac dc key aud now t g p :
  validate_tok_g ac dc true key aud now (VTok t) = Ok g p -> tk_sig_canon t = true.
Proof.
  intros E. destruct (accept_sound_g _ _ _ _ _ _ _ _ _ E) as [t' al c Hv _ _ _ _ _ Hc _ _ _ _ _].
  injection Hv as <-. exact (Hc eq_refl).
Qed.

Definition respelled_view : view :=
  VTok (mkTok (HObj (Some s_HS256))
              (CObj [(jwt_k_aud_validate, JStr [80]%N); (jwt_k_dur_validate, JInt 1); (jwt_k_app_validate, JStr [97;47;98]%N)])
              true (Some [1;2;3]%N) false None (Some 7%N)).

Theorem respelled_accepted ac dc :
  validate_tok_g ac dc false [1;2;3]%N [80]%N 0 respelled_view = Ok (mkGp [97;47;98]%N 1 None) 7.
Proof. vm_compute. reflexivity. Qed.

(* ---------- 3. issued tokens ---------- *)

(* what IssueToken writes is what ValidateToken reads (closed by computation on the names the
   translator took from the source) *)
Definition keys_consistent : Prop :=
  forall aud app d t0 txt pl,
    let c := issue_claims aud app d t0 txt pl in
    get jwt_k_aud_validate c = Some (JStr aud)
    /\ get jwt_k_dur_validate c = Some (JInt d)
    /\ get jwt_k_issuedat_validate c = Some (JStr txt)
    /\ get jwt_k_app_validate c = Some (JStr app)
    /\ get k_exp c = Some (JInt ((t0 + d) / ns_per_s))
    /\ get k_nbf c = get k_nbf pl.

Definition expiry (t0 d : Z) : Z := (t0 + d) / ns_per_s * ns_per_s.   (* exp claim: whole seconds, rounded down *)

Lemma expiry_le t0 d : expiry t0 d <= t0 + d.
Proof. unfold expiry, ns_per_s. pose proof (Z.mul_div_le (t0 + d) 1000000000). lia. Qed.

Lemma expiry_gt t0 d : t0 + d - ns_per_s < expiry t0 d.
Proof. unfold expiry, ns_per_s. pose proof (Z.mod_pos_bound (t0 + d) 1000000000). pose proof (Z.div_mod (t0 + d) 1000000000). lia. Qed.

(* k: secret of the issuing signer; key: secret of the validating signer *)
Definition issued_result (k key : bytes) (aud app : bytes) (d t0 : Z) (dg : option N) (aud' : bytes) (now : Z) : outcome :=
  if negb (lex_eqb k key) then Err ESignature
  else if now <? expiry t0 d then
    (if lex_eqb aud' aud then match dg with Some x => Ok (mkGp app d (Some t0)) x | None => Err EDecode end
     else Err EAudience)
  else Err EExpired.

Lemma is_hmac_HS256 : is_hmac s_HS256 = true.
Proof. reflexivity. Qed.

Lemma issued_tok_result ac dc sc :
  keys_consistent ->
  forall k key aud app d t0 txt pl dg aud' now,
  count_byte 47%N app = 1%nat -> get k_nbf pl = None ->
  validate_tok_g ac dc sc key aud' now (issued_view k aud app d t0 txt pl dg) = issued_result k key aud app d t0 dg aud' now.
Proof.
  intros K k key aud app d t0 txt pl dg aud' now Happ Hnbf.
  destruct (K aud app d t0 txt pl) as (Ka & Kd & Ki & Kp & Ke & Kn).
  unfold issued_view.
  rewrite (validate_core ac dc sc key aud' now (mkTok (HObj (Some s_HS256)) (CObj (issue_claims aud app d t0 txt pl)) true (Some k) true (Some t0) dg)
             (Some s_HS256) eq_refl).
  unfold claims_of, pv_of, mac_under. cbn [tk_claims tk_iat tk_pl tk_sig_b64 tk_mac_key tk_sig_canon option_eqb]. rewrite andb_false_r.
  set (c := issue_claims aud app d t0 txt pl) in *.
  assert (Ea : aud_of_g ac c = Some aud) by (unfold aud_of_g; rewrite Ka; reflexivity).
  assert (Eg : build_gp_g dc c (Some t0) = GOk (mkGp app d (Some t0))).
  { unfold build_gp_g. rewrite Kd. unfold JInt. rewrite Ki, Kp. cbn [iat_parse app_parse]. rewrite Happ. reflexivity. }
  rewrite Ea, Eg. unfold issued_result, parse_verdict. rewrite is_hmac_HS256. cbn [orb negb].
  destruct (lex_eqb k key); cbn [negb]; [|reflexivity].
  unfold claims_verdict, exp_check, nbf_check. rewrite Ke, Kn, Hnbf. unfold JInt. fold (expiry t0 d).
  destruct (now <? expiry t0 d); [|reflexivity].
  destruct (lex_eqb aud' aud); reflexivity.
Qed.

(* a token issued by a signer with secret k is accepted by an application-bound validator with
   secret key exactly when key = k (the same byte string), the validator expects the issued payload
   type, is bound to the issuing application and the clock is before the expiry instant; the result
   is then the issued generic payload and the issued payload *)
Theorem issued_accept_iff_g ac dc sc :
  keys_consistent ->
  forall k key aud app d t0 txt pl dg aud' app' now g p,
  count_byte 47%N app = 1%nat -> get k_nbf pl = None ->
  (validate_app_g ac dc sc key aud' app' now (issued_view k aud app d t0 txt pl (Some dg)) = Ok g p
   <-> key = k /\ aud' = aud /\ app' = app /\ now < expiry t0 d /\ g = mkGp app d (Some t0) /\ p = dg).
Proof.
  intros K k key aud app d t0 txt pl dg aud' app' now g p Happ Hnbf.
  unfold validate_app_g. rewrite (issued_tok_result ac dc sc K) by assumption.
  unfold issued_result.
  destruct (lex_eqb k key) eqn:Ek; cbn [negb].
  2:{ apply lex_eqb_neq in Ek. split; [discriminate | intros (H & _); congruence]. }
  apply lex_eqb_eq in Ek.
  destruct (now <? expiry t0 d) eqn:En.
  2:{ split; [discriminate | intros (_ & _ & _ & H & _)]. apply Z.ltb_ge in En. lia. }
  apply Z.ltb_lt in En.
  destruct (lex_eqb aud' aud) eqn:Ea.
  2:{ split; [discriminate | intros (_ & H & _)]. apply lex_eqb_neq in Ea. contradiction. }
  apply lex_eqb_eq in Ea. cbn [gp_app].
  destruct (lex_eqb app app') eqn:Ep.
  - apply lex_eqb_eq in Ep. split.
    + intros H; injection H as <- <-. auto 10.
    + intros (_ & _ & _ & _ & -> & ->). reflexivity.
  - apply lex_eqb_neq in Ep. split; [discriminate | intros (_ & _ & H & _); congruence].
Qed.

(* a validator whose secret differs from the issuer's in any way - another length, one byte
   anywhere, including beyond the minimum length - refuses the token with "signature invalid" *)
Theorem issued_other_secret_g ac dc sc :
  keys_consistent ->
  forall k key aud app d t0 txt pl dg aud' now,
  count_byte 47%N app = 1%nat -> get k_nbf pl = None -> key <> k ->
  validate_tok_g ac dc sc key aud' now (issued_view k aud app d t0 txt pl dg) = Err ESignature.
Proof.
  intros K k key aud app d t0 txt pl dg aud' now Happ Hnbf Hne.
  rewrite (issued_tok_result ac dc sc K) by assumption. unfold issued_result.
  destruct (lex_eqb k key) eqn:E; [|reflexivity]. apply lex_eqb_eq in E. congruence.
Qed.

(* ... in particular only while its lifetime t0 + d has not elapsed (the expiry instant is the
   lifetime's end rounded down to the second: a token may die up to one second early, never late) *)
Theorem issued_within_lifetime_g ac dc sc :
  keys_consistent ->
  forall k key aud app d t0 txt pl dg aud' app' now g p,
  count_byte 47%N app = 1%nat -> get k_nbf pl = None ->
  validate_app_g ac dc sc key aud' app' now (issued_view k aud app d t0 txt pl (Some dg)) = Ok g p ->
  now < t0 + d.
Proof.
  intros K k key aud app d t0 txt pl dg aud' app' now g p Happ Hnbf H.
  apply (issued_accept_iff_g ac dc sc K) in H as (_ & _ & _ & H & _); try assumption.
  pose proof (expiry_le t0 d). lia.
Qed.

(* ---------- 4. link between the model and the trace oracle ---------- *)

Definition str_of (v : option jval) : option bytes := match v with Some (JStr s) => Some s | _ => None end.
Definition floor_of (v : option jval) : option Z := match v with Some (JNum _ fl) => Some fl | _ => None end.

(* what the origin recorded by the harness means for the view: strings nothing was signed in, and
   changed issued tokens, carry no MAC verifying under the validator's secret (unforgeability of
   HMAC - an assumption); claims signed by the harness under a secret verify under the validator's
   secret only if it is that secret; an unchanged issued token has the issued view of its signer *)
Definition origin_consistent (t : vtrace) : Prop :=
  match t_origin t with
  | ORaw => sig_verifies (t_key t) (t_view t) = false
  | OSigned key aud app exp =>
      (sig_verifies (t_key t) (t_view t) = true -> key = Some (t_key t))
      /\ forall tk c, t_view t = VTok tk -> tk_claims tk = CObj c ->
           aud = str_of (get jwt_k_aud_validate c) /\ app = str_of (get jwt_k_app_validate c) /\ exp = floor_of (get k_exp c)
  | OIssued k intact app aud t0 d dig _ =>
      if intact then
        exists txt pl dg, count_byte 47%N app = 1%nat /\ get k_nbf pl = None
          /\ t_view t = issued_view k aud app d t0 txt pl dg /\ (aud = t_aud t -> dg = Some dig)
      else sig_verifies (t_key t) (t_view t) = false
  end.

Lemma gp_eqb_eq a b : gp_eqb a b = true -> a = b.
Proof.
  destruct a as [a1 a2 a3], b as [b1 b2 b3]. unfold gp_eqb; cbn.
  intros H. apply andb_true_iff in H as [H H3]. apply andb_true_iff in H as [H1 H2].
  apply lex_eqb_eq in H1. apply Z.eqb_eq in H2. subst.
  destruct a3 as [x|], b3 as [y|]; cbn in H3; try discriminate; [apply Z.eqb_eq in H3; subst|]; reflexivity.
Qed.

Lemma tok_ok_allowed ac dc sc t g p :
  keys_consistent -> origin_consistent t -> t_aud t <> []%N ->
  validate_tok_g ac dc sc (t_key t) (t_aud t) (t_now t) (t_view t) = Ok g p ->
  origin_allows false t = true /\ payload_matches t g p = true.
Proof.
  intros K OC Haud H. unfold origin_consistent in OC. unfold origin_allows, payload_matches.
  destruct (t_origin t) as [k intact app aud t0 d dig ints | k aud app exp |].
  - destruct intact.
    + destruct OC as (txt & pl & dg & Happ & Hnbf & Hv & Hdg).
      rewrite Hv, (issued_tok_result ac dc sc K) in H by assumption. unfold issued_result in H.
      destruct (lex_eqb k (t_key t)) eqn:Ek; [|discriminate]. cbn [negb] in H.
      destruct (t_now t <? expiry t0 d) eqn:En; [|discriminate].
      destruct (lex_eqb (t_aud t) aud) eqn:Ea; [|discriminate].
      apply lex_eqb_eq in Ea. destruct dg as [x|]; [|discriminate]. injection H as <- <-.
      specialize (Hdg (eq_sym Ea)). injection Hdg as ->.
      apply Z.ltb_lt in En. pose proof (expiry_le t0 d).
      assert (L : (t_now t <? t0 + d) = true) by (apply Z.ltb_lt; lia).
      rewrite L, <- Ea, !lex_eqb_refl, Z.eqb_refl, N.eqb_refl. cbn. rewrite Z.eqb_refl. auto.
    + exfalso. exact (unsigned_rejected_g ac dc sc _ _ _ _ OC g p H).
  - destruct OC as [Hsk Hcl].
    destruct (accept_sound_g _ _ _ _ _ _ _ _ _ H) as [tk al c Hv _ _ Hc _ Hs _ Ha He _ Hg _].
    destruct (Hcl tk c Hv Hc) as (-> & -> & ->).
    rewrite Hv in Hsk. cbn in Hsk. rewrite (Hsk (proj2 (mac_under_eq _ _) Hs)).
    apply build_gp_ok in Hg as (dd & fl & ti & _ & _ & Happ & _ & _).
    rewrite Happ. cbn [str_of option_eqb]. rewrite !lex_eqb_refl.
    unfold aud_of_g in Ha. unfold not_expired in He.
    destruct (get jwt_k_aud_validate c) as [[| | | s| |]|]; try (destruct ac; [injection Ha as Ha; congruence | discriminate]).
    injection Ha as ->. cbn [str_of option_eqb]. rewrite lex_eqb_refl.
    destruct (get k_exp c) as [[| |n fl'| | |]|]; cbn [floor_of]; try contradiction; cbn; auto.
    apply Z.ltb_lt in He. rewrite He. auto.
  - exfalso. exact (unsigned_rejected_g ac dc sc _ _ _ _ OC g p H).
Qed.

Lemma allows_bound t g p :
  origin_allows false t = true -> payload_matches t g p = true -> gp_app g = t_app t -> origin_allows true t = true.
Proof.
  unfold origin_allows, payload_matches. intros A P E.
  destruct (t_origin t) as [k intact app aud t0 d dig ints | k aud app exp |]; [| |discriminate].
  - cbn [negb orb] in *. rewrite andb_true_r in A. rewrite A. cbn.
    repeat (apply andb_true_iff in P as [P _]). apply lex_eqb_eq in P. rewrite <- P, E. apply lex_eqb_refl.
  - cbn [negb orb] in *. rewrite andb_true_r in A. rewrite A. cbn.
    destruct app as [a|]; cbn in P; [|discriminate]. apply lex_eqb_eq in P. subst a. cbn. rewrite E. apply lex_eqb_refl.
Qed.

(* On every validation trace whose recorded origin is truthful, on which model and code agree, and
   on which the model does not panic, the property oracle holds: the oracle can only fail where the
   code leaves the model, where the model panics (F13), or where the origin assumption breaks. *)
Theorem agrees_satisfies :
  keys_consistent ->
  forall t, origin_consistent t -> t_aud t <> []%N ->
  working_key t = t_key t ->      (* the signer copied the secret, or the caller left its buffer alone *)
  validate_tok (t_key t) (t_aud t) (t_now t) (t_view t) <> Panic ->
  agrees_v t = true -> satisfies_v t = true.
Proof.
  intros K t OC Haud WK NP A. unfold agrees_v in A. rewrite WK in A. unfold satisfies_v.
  unfold validate_tok, validate_app in *.
  set (ac := jwt_aud_assert_checked) in *. set (dc := jwt_dur_assert_checked) in *. set (sc := jwt_sig_canon_checked) in *. clearbody ac dc sc.
  apply andb_true_iff in A as [A _]. apply andb_true_iff in A as [A A3]. apply andb_true_iff in A as [A1 A2].
  assert (NP2 : validate_app_g ac dc sc (t_key t) (t_aud t) (t_app t) (t_now t) (t_view t) <> Panic)
    by (intros E; apply app_panic_iff in E; contradiction).
  assert (B : forall g p, validate_app_g ac dc sc (t_key t) (t_aud t) (t_app t) (t_now t) (t_view t) = Ok g p ->
                          origin_allows true t = true /\ payload_matches t g p = true).
  { intros g p E. apply accept_app_sound_g in E as [E1 E2].
    destruct (tok_ok_allowed ac dc sc t g p K OC Haud E1) as [X Y]. split; [exact (allows_bound t g p X Y E2) | exact Y]. }
  apply andb_true_iff; split; [apply andb_true_iff; split|].
  - destruct (validate_tok_g ac dc sc (t_key t) (t_aud t) (t_now t) (t_view t)) as [|e|g p] eqn:E; [contradiction| |];
      destruct (t_tok t) as [|e'|g' p']; try discriminate; [reflexivity|].
    cbn in A1. apply andb_true_iff in A1 as [G P]. apply gp_eqb_eq in G. apply N.eqb_eq in P. subst g' p'.
    destruct (tok_ok_allowed ac dc sc t g p K OC Haud E) as [X Y]. cbn. rewrite X, Y. reflexivity.
  - destruct (validate_app_g ac dc sc (t_key t) (t_aud t) (t_app t) (t_now t) (t_view t)) as [|e|g p] eqn:E; [contradiction| |];
      destruct (t_apptok t) as [|e'|g' p']; try discriminate; [reflexivity|].
    cbn in A2. apply andb_true_iff in A2 as [G P]. apply gp_eqb_eq in G. apply N.eqb_eq in P. subst g' p'.
    destruct (B g p eq_refl) as [X Y]. cbn. rewrite X, Y. reflexivity.
  - destruct (t_auth t) as [c|]; [|reflexivity]. apply N.eqb_eq in A3. subst c. unfold auth_model.
    destruct (t_empty t); [reflexivity|].
    destruct (validate_app_g ac dc sc (t_key t) (t_aud t) (t_app t) (t_now t) (t_view t)) as [|e|g p] eqn:E; [contradiction|reflexivity|].
    cbn. destruct (B g p eq_refl) as [X _]. rewrite X. reflexivity.
Qed.

(* the secrets side: where the code agrees with the ideal-MAC model the oracle on keyed hashes holds *)
Theorem agrees_satisfies_k t : agrees_k t = true -> satisfies_k t = true.
Proof.
  unfold agrees_k, satisfies_k. intros A. apply andb_true_iff in A as [_ A].
  destruct (k_hash_eq t) as [e|]; [|reflexivity].
  destruct (signer_constructible (k_a t) && signer_constructible (k_b t)); cbn in A; [exact A|discriminate].
Qed.

(* ---------- 5. integer payload fields on the issuing side ---------- *)

Theorem issue_number_small u z : Z.abs z <= two53 -> issue_number u z = z.
Proof.
  intros H. unfold issue_number, f64_int. destruct u; [reflexivity|].
  destruct (Z.abs z <=? two53) eqn:E; [reflexivity|]. apply Z.leb_gt in E. lia.
Qed.

Theorem issue_number_exact_iff u : (forall z, issue_number u z = z) <-> u = true.
Proof.
  split.
  - intros H. destruct u; [reflexivity|]. specialize (H (two53 + 1)). vm_compute in H. discriminate.
  - intros ->. reflexivity.
Qed.

(* ---------- 6. the secret the signer works with ---------- *)
Theorem working_key_copied t : working_key_g true t = t_key t.
Proof. reflexivity. Qed.

Theorem working_key_iff copies : (forall t, working_key_g copies t = t_key t) <-> copies = true.
Proof.
  split.
  - intros H. destruct copies; [reflexivity|].
    specialize (H (mkTrace [1]%N [0]%N false 0 [] [] VNoSplit ORaw OPanic OPanic None)). discriminate.
  - intros ->. reflexivity.
Qed.

(* ---------- 7. which secrets are the same HMAC key ---------- *)
Section HMACKey.
Variable H : bytes -> bytes.
Variable B : nat.
Local Notation hk := (hmac_key H B).

Lemma hmac_key_block k : length k = B -> hk k = k.
Proof.
  intros E. unfold hmac_key. rewrite E, Nat.ltb_irrefl. cbn zeta. rewrite E, Nat.sub_diag. apply app_nil_r.
Qed.

Lemma hmac_key_length k : (B < length k -> length (H k) <= B)%nat -> length (hk k) = B.
Proof.
  intros Hh. unfold hmac_key. destruct (Nat.ltb B (length k)) eqn:E; cbn zeta; rewrite app_length, repeat_length.
  - apply Nat.ltb_lt in E. specialize (Hh E). lia.
  - apply Nat.ltb_ge in E. lia.
Qed.

(* the block of a secret, used as a secret, is the same key: for every secret whose length is not
   the block size there is a DIFFERENT secret with the same key (for a 100-byte secret under HS256:
   its SHA-256 followed by 32 zero bytes) *)
Lemma hmac_key_idem k : (B < length k -> length (H k) <= B)%nat -> hk (hk k) = hk k.
Proof. intros Hh. apply hmac_key_block. apply hmac_key_length. exact Hh. Qed.

Theorem secrets_not_injective k :
  (B < length k -> length (H k) <= B)%nat -> length k <> B -> exists k', k' <> k /\ hk k' = hk k.
Proof.
  intros Hh Hl. exists (hk k). split.
  - intros E. apply Hl. rewrite <- E. apply hmac_key_length. exact Hh.
  - apply hmac_key_idem. exact Hh.
Qed.

(* trailing zero bytes below the block size do not count *)
Lemma hmac_key_zero_ext k n : (length k + n <= B)%nat -> hk (k ++ repeat 0%N n) = hk k.
Proof.
  intros L. unfold hmac_key. rewrite app_length, repeat_length.
  destruct (Nat.ltb B (length k + n)) eqn:E1; [apply Nat.ltb_lt in E1; lia|].
  destruct (Nat.ltb B (length k)) eqn:E2; [apply Nat.ltb_lt in E2; lia|]. cbn zeta.
  rewrite app_length, repeat_length, <- app_assoc, <- repeat_app. f_equal. f_equal. lia.
Qed.

(* secrets of one length up to the block size: different secrets are different keys *)
Theorem hmac_key_short_inj k k' : length k = length k' -> (length k <= B)%nat -> hk k = hk k' -> k = k'.
Proof.
  intros El L. unfold hmac_key. rewrite <- El.
  destruct (Nat.ltb B (length k)) eqn:E; [apply Nat.ltb_lt in E; lia|]. cbn zeta. rewrite <- El.
  apply app_inv_tail.
Qed.

(* secrets longer than the block: different keys unless the hash collides *)
Theorem hmac_key_long_inj k k' :
  (B < length k)%nat -> (B < length k')%nat -> length (H k) = length (H k') -> hk k = hk k' -> H k = H k'.
Proof.
  intros L L' El. unfold hmac_key.
  apply Nat.ltb_lt in L. apply Nat.ltb_lt in L'. rewrite L, L'. cbn zeta. rewrite <- El. apply app_inv_tail.
Qed.
End HMACKey.
