(* C08 - proofs about the view-records model: key encoding (injective, decodable, fixed widths),
   partial-key ranges (prefix <-> range for utils.PrefixSuccessor and for the former utils.IncBytes),
   round trip / frame of Put and Get over every write history, exactness of partial-key reads. *)
From Coq Require Import List NArith ZArith Lia Bool ZifyNat ZifyN ZifyBool.
From V Require Import Lib.Lex Lib.SMap Lib.Check Storage.Spec Storage.SpecLaws Gen.Params C08_Views.Model.
Import ListNotations.
Local Open Scope N_scope.

(* ---------- lists ---------- *)

Lemma app_eq_len {A} (a b x y : list A) : length a = length b -> a ++ x = b ++ y -> a = b /\ x = y.
Proof.
  revert b; induction a as [|h a IH]; intros [|h' b] HL E; cbn in *; try discriminate; auto.
  inversion E as [[E1 E2]]. destruct (IH b) as [-> ->]; auto.
Qed.

Lemma firstn_len_app {A} (a b : list A) : firstn (length a) (a ++ b) = a.
Proof. induction a as [|h a IH]; cbn; [destruct b; reflexivity|]. rewrite IH. reflexivity. Qed.

Lemma skipn_len_app {A} (a b : list A) : skipn (length a) (a ++ b) = b.
Proof. induction a as [|h a IH]; cbn; auto. Qed.

Lemma is_prefix_app_len a b x y : length a = length b ->
  is_prefix (a ++ x) (b ++ y) = lex_eqb a b && is_prefix x y.
Proof.
  revert b; induction a as [|h a IH]; intros [|h' b] HL; cbn in *; try discriminate; auto.
  rewrite IH by lia. unfold lex_eqb. cbn [lex_cmp].
  destruct (N.eqb_spec h h') as [->|N].
  - rewrite N.compare_refl. reflexivity.
  - destruct (N.compare_spec h h'); try contradiction; reflexivity.
Qed.

Lemma wf_app a b : wf a -> wf b -> wf (a ++ b).
Proof. unfold wf. intros. apply Forall_app. auto. Qed.

Lemma wf_app_inv a b : wf (a ++ b) -> wf a /\ wf b.
Proof. unfold wf. intros H. apply Forall_app in H. exact H. Qed.

(* ---------- fixed-width values ---------- *)

Lemma be_val_be_bytes w n : be_val (be_bytes w n) = n mod 256 ^ N.of_nat w.
Proof.
  induction w as [|w IH]; cbn [be_bytes be_val].
  - cbn. rewrite N.mod_1_r. reflexivity.
  - rewrite be_bytes_length, IH. rewrite Nat2N.inj_succ, N.pow_succ_r'.
    assert (HP : 256 ^ N.of_nat w <> 0) by (apply N.pow_nonzero; lia).
    rewrite (N.mul_comm 256). rewrite N.mod_mul_r by (try assumption; lia). lia.
Qed.

Lemma kbound_le k : kbound k <= 256 ^ N.of_nat (kwidth k).
Proof. destruct k; cbn; lia. Qed.

Lemma dec_val_enc k v : v < kbound k -> dec_val k (be_bytes (kwidth k) v) = v.
Proof.
  intros H. pose proof (kbound_le k) as L. unfold dec_val.
  rewrite be_val_be_bytes, N.mod_small by lia.
  destruct k; try reflexivity. cbn in H. destruct (N.eqb_spec v 0); lia.
Qed.

Lemma be_eqb w a b : a < 256 ^ N.of_nat w -> b < 256 ^ N.of_nat w ->
  lex_eqb (be_bytes w a) (be_bytes w b) = (a =? b).
Proof.
  intros Ha Hb. destruct (N.eqb_spec a b) as [->|N].
  - apply lex_eqb_refl.
  - apply lex_eqb_neq. intros E. apply N. eapply be_bytes_inj; eauto.
Qed.

(* ---------- well-formed keys ---------- *)

Definition wf_vals (ks : list kind) (vs : list (option N)) : Prop :=
  Forall2 (fun k o => match o with Some v => v < kbound k | None => True end) ks vs.

Definition wf_key (s : schema) (k : vkey) : Prop :=
  wf_vals (s_pk s) (k_p k) /\ wf_vals (s_cc s) (k_c k) /\ wf (k_v k) /\ (s_var s = false -> k_v k = []).

(* a complete key as Put/Get accept it *)
Definition full_key (s : schema) (k : vkey) : Prop := validate_key s false k = true /\ wf_key s k.

Lemma full_key_parts s k : full_key s k ->
  all_set (k_p k) = true /\ all_set (k_c k) = true /\ wf_vals (s_pk s) (k_p k) /\ wf_vals (s_cc s) (k_c k)
  /\ wf (k_v k) /\ (s_var s = false -> k_v k = []).
Proof.
  intros [V (W1 & W2 & W3 & W4)]. unfold validate_key, key_shape_ok in V.
  apply andb_prop in V. destruct V as [_ V]. apply andb_prop in V. destruct V as [V1 V2]. apply andb_prop in V2. destruct V2 as [V2 _]. auto 10.
Qed.

Lemma enc_fields_wf ks vs : wf (enc_fields ks vs).
Proof.
  revert vs; induction ks as [|k ks IH]; intros [|[v|] vs]; cbn; try constructor; auto.
  apply wf_app; [apply be_bytes_wf|apply IH].
Qed.

Lemma enc_none ks vs : none_set vs = true -> enc_fields ks vs = [].
Proof.
  revert vs; induction ks as [|k ks IH]; intros [|[v|] vs] H; cbn in *; try discriminate; auto.
Qed.

Lemma enc_fields_inj ks a b ra rb : wf_vals ks a -> wf_vals ks b -> all_set a = true -> all_set b = true ->
  enc_fields ks a ++ ra = enc_fields ks b ++ rb -> a = b /\ ra = rb.
Proof.
  intros Wa. revert b. induction Wa as [|k oa ks a Ha Wa IH]; intros b Wb Sa Sb E.
  - inversion Wb; subst. cbn in E. auto.
  - inversion Wb as [|? ob ? b' Hb Wb']; subst.
    destruct oa as [x|]; [|discriminate]. destruct ob as [y|]; [|discriminate].
    cbn in Sa, Sb. cbn [enc_fields] in E. rewrite <- !app_assoc in E.
    apply app_eq_len in E; [|rewrite !be_bytes_length; reflexivity]. destruct E as [E1 E2].
    pose proof (kbound_le k) as L.
    apply be_bytes_inj in E1; try lia. subst y.
    destruct (IH b' Wb' Sa Sb E2) as [-> ->]. auto.
Qed.

Lemma enc_fields_len_le ks q k : wf_vals ks q -> wf_vals ks k -> all_set k = true ->
  (length (enc_fields ks q) <= length (enc_fields ks k))%nat.
Proof.
  intros Wq. revert k. induction Wq as [|kd oq ks q Hq Wq IH]; intros k Wk Sk.
  - cbn. lia.
  - inversion Wk as [|? ok ? k' Hk Wk']; subst. destruct ok as [y|]; [|discriminate]. cbn in Sk.
    specialize (IH k' Wk' Sk). destruct oq; cbn [enc_fields]; rewrite ?app_length, ?be_bytes_length; lia.
Qed.

Lemma map_Some_vals l : all_set l = true -> map Some (vals l) = l.
Proof.
  induction l as [|[v|] l IH]; cbn; intros H; try discriminate; auto. f_equal. apply IH. assumption.
Qed.

Lemma vals_map_Some l : vals (map Some l) = l.
Proof. induction l as [|v l IH]; cbn; auto. f_equal. apply IH. Qed.

(* loading what was stored gives the values back, for every layout *)
Lemma dec_enc_fields ks vs rest : wf_vals ks vs -> all_set vs = true ->
  dec_fields ks (enc_fields ks vs ++ rest) = Some (vals vs, rest).
Proof.
  intros W. induction W as [|k o ks vs Hv W IH]; intros S; [reflexivity|].
  destruct o as [v|]; [|discriminate]. cbn in S. cbn [enc_fields dec_fields].
  rewrite <- app_assoc.
  assert (HL : length (be_bytes (kwidth k) v) = kwidth k) by apply be_bytes_length.
  destruct (Nat.ltb_spec (length (be_bytes (kwidth k) v ++ enc_fields ks vs ++ rest)) (kwidth k)) as [Hlt|_].
  { rewrite app_length in Hlt. lia. }
  remember (be_bytes (kwidth k) v) as B eqn:EB. rewrite <- HL.
  rewrite firstn_len_app, skipn_len_app. rewrite IH by assumption. subst B.
  rewrite dec_val_enc by assumption. reflexivity.
Qed.

Theorem ccols_roundtrip_proved s k : full_key s k ->
  dec_fields (s_cc s) (enc_ccols s k) = Some (vals (k_c k), k_v k).
Proof.
  intros F. apply full_key_parts in F. destruct F as (_ & S & _ & W & _).
  unfold enc_ccols. apply dec_enc_fields; assumption.
Qed.

Theorem ccols_injective_proved s k k' : full_key s k -> full_key s k' ->
  enc_ccols s k = enc_ccols s k' -> k_c k = k_c k' /\ k_v k = k_v k'.
Proof.
  intros F F' E. apply full_key_parts in F, F'.
  destruct F as (_ & S & _ & W & _). destruct F' as (_ & S' & _ & W' & _).
  unfold enc_ccols in E. eapply enc_fields_inj; eauto.
Qed.

(* different view, workspace or partition values give different partition keys *)
Theorem pkey_isolates_proved s s' ws ws' k k' :
  s_view s < 2 ^ 16 -> s_view s' < 2 ^ 16 -> ws < 2 ^ 64 -> ws' < 2 ^ 64 ->
  wf_vals (s_pk s) (k_p k) -> wf_vals (s_pk s') (k_p k') -> all_set (k_p k) = true -> all_set (k_p k') = true ->
  enc_pkey s ws k = enc_pkey s' ws' k' ->
  s_view s = s_view s' /\ ws = ws' /\ (s_pk s = s_pk s' -> k_p k = k_p k').
Proof.
  intros Hv Hv' Hw Hw' W W' S S' E. unfold enc_pkey in E.
  apply app_eq_len in E; [|rewrite !be_bytes_length; reflexivity]. destruct E as [E1 E].
  apply app_eq_len in E; [|rewrite !be_bytes_length; reflexivity]. destruct E as [E2 E3].
  apply be_bytes_inj in E1; [|exact Hv|exact Hv']. apply be_bytes_inj in E2; [|exact Hw|exact Hw'].
  repeat split; auto. intros Epk. rewrite <- Epk in W'.
  rewrite <- (app_nil_r (enc_fields (s_pk s) (k_p k))) in E3.
  rewrite <- (app_nil_r (enc_fields (s_pk s') (k_p k'))) in E3. rewrite <- Epk in E3.
  eapply enc_fields_inj in E3; eauto. tauto.
Qed.

(* ---------- the range scanned for a partial key ---------- *)

(* the prefix successor makes "prefix of" and "in the range" the same thing, for all byte strings *)
Theorem succ_prefix_range p k : wf p -> wf k -> is_prefix p k = in_rng (succ_prefix p) p k.
Proof.
  unfold in_rng, lex_le, lex_lt.
  revert k; induction p as [|x p IH]; intros k Wp Wk.
  - cbn. destruct k; reflexivity.
  - destruct k as [|y k]; [reflexivity|].
    inversion Wp as [|? ? Hx Wp']; subst. inversion Wk as [|? ? Hy Wk']; subst.
    specialize (IH k Wp' Wk').
    cbn [is_prefix lex_cmp succ_prefix].
    destruct (N.compare_spec x y) as [E|L|G].
    + subst y. rewrite N.eqb_refl. cbn [andb]. rewrite IH.
      destruct (succ_prefix p) as [q|] eqn:Eq.
      * cbn [lex_cmp]. rewrite N.compare_refl. reflexivity.
      * destruct (N.ltb_spec x 255) as [Hl|Hl].
        -- cbn [lex_cmp]. destruct (N.compare_spec x (x + 1)); try lia;
           destruct (lex_cmp p k); reflexivity.
        -- destruct (lex_cmp p k); reflexivity.
    + destruct (N.eqb_spec x y); [lia|]. cbn [andb].
      destruct (succ_prefix p) as [q|] eqn:Eq.
      * cbn [lex_cmp]. destruct (N.compare_spec y x); try lia; try reflexivity.
      * destruct (N.ltb_spec x 255) as [Hl|Hl]; [|lia].
        cbn [lex_cmp]. destruct (N.compare_spec y (x + 1)) as [E2|L2|G2]; try lia; try reflexivity;
        destruct k; reflexivity.
    + destruct (N.eqb_spec x y); [lia|]. reflexivity.
Qed.

(* last byte is 0xff *)
Fixpoint ends_ff (p : bytes) : bool :=
  match p with
  | [] => false
  | x :: r => match r with [] => x =? 255 | _ => ends_ff r end
  end.

Lemma inc_some_not_ends_ff p : wf p -> p <> [] -> ends_ff p = false -> inc_bytes p <> None.
Proof.
  induction p as [|x p IH]; intros W NE E; [congruence|].
  inversion W as [|? ? Hx W']; subst. destruct p as [|y r].
  - cbn in *. destruct (N.ltb_spec x 255); [discriminate|]. destruct (N.eqb_spec x 255); [discriminate|lia].
  - cbn [ends_ff] in E. specialize (IH W' ltac:(discriminate) E).
    cbn [inc_bytes]. cbn [inc_bytes] in IH. destruct (inc_bytes r) eqn:Er.
    + discriminate.
    + destruct (y <? 255); [discriminate|]. congruence.
Qed.

(* when the prefix does not end in 0xff IncBytes is the prefix successor *)
Lemma inc_eq_succ p : wf p -> ends_ff p = false -> inc_bytes p = succ_prefix p.
Proof.
  induction p as [|x p IH]; intros W E; [reflexivity|].
  inversion W as [|? ? Hx W']; subst. destruct p as [|y r]; [reflexivity|].
  cbn [ends_ff] in E. specialize (IH W' E).
  pose proof (inc_some_not_ends_ff (y :: r) W' ltac:(discriminate) E) as NN.
  change (inc_bytes (x :: y :: r)) with
    (match inc_bytes (y :: r) with Some r' => Some (x :: r') | None => if x <? 255 then Some ((x + 1) :: map (fun _ => 0) (y :: r)) else None end).
  change (succ_prefix (x :: y :: r)) with
    (match succ_prefix (y :: r) with Some r' => Some (x :: r') | None => if x <? 255 then Some [x + 1] else None end).
  rewrite <- IH. destruct (inc_bytes (y :: r)); [reflexivity|congruence].
Qed.

Lemma ends_ff_app a b : b <> [] -> ends_ff (a ++ b) = ends_ff b.
Proof.
  intros NE. induction a as [|x a IH]; [reflexivity|].
  cbn [app ends_ff]. destruct (a ++ b) eqn:E; [|exact IH].
  destruct a; cbn in E; [congruence|discriminate].
Qed.

Theorem ub_exact keeps p k : wf p -> wf k ->
  (keeps = false \/ (length p <= length k)%nat \/ ends_ff p = false) ->
  is_prefix p k = in_rng (upper_bound keeps p) p k.
Proof.
  intros Wp Wk H. unfold upper_bound. destruct keeps.
  - destruct H as [H|[H|H]]; [discriminate| |].
    + apply prefix_range; assumption.
    + rewrite inc_eq_succ by assumption. apply succ_prefix_range; assumption.
  - apply succ_prefix_range; assumption.
Qed.

Lemma upper_bound_nonempty keeps c q : upper_bound keeps c = Some q -> q <> [].
Proof.
  unfold upper_bound. destruct keeps; destruct c as [|x r]; cbn; try discriminate.
  - destruct (inc_bytes r); [|destruct (x <? 255)]; intros E; inversion E; discriminate.
  - destruct (succ_prefix r); [|destruct (x <? 255)]; intros E; inversion E; discriminate.
Qed.

(* ---------- byte prefixes of clustering columns = equal leading column values ---------- *)

Lemma enc_prefix_matches ks q k qv kv :
  wf_vals ks q -> wf_vals ks k -> prefix_set q = true -> all_set k = true ->
  (all_set q = false -> qv = []) ->
  is_prefix (enc_fields ks q ++ qv) (enc_fields ks k ++ kv) = match_fixed q k && is_prefix qv kv.
Proof.
  intros Wq. revert k. induction Wq as [|kd oq ks q Hq Wq IH]; intros k Wk Pq Sk Hv.
  - inversion Wk; subst. reflexivity.
  - inversion Wk as [|? ok ? k' Hk Wk']; subst. destruct ok as [b|]; [|discriminate]. cbn in Sk.
    destruct oq as [a|].
    + cbn [enc_fields match_fixed]. rewrite <- !app_assoc.
      rewrite is_prefix_app_len by (rewrite !be_bytes_length; reflexivity).
      pose proof (kbound_le kd) as L. rewrite be_eqb by lia.
      rewrite IH; auto. apply andb_assoc.
    + cbn [prefix_set] in Pq. cbn [enc_fields]. rewrite (enc_none ks q Pq).
      rewrite Hv by reflexivity. reflexivity.
Qed.

Lemma partial_parts s q : validate_key s true q = true ->
  all_set (k_p q) = true /\ prefix_set (k_c q) = true /\ (all_set (k_c q) = false -> k_v q = []).
Proof.
  unfold validate_key, key_shape_ok. intros V. apply andb_prop in V. destruct V as [_ V]. apply andb_prop in V. destruct V as [V1 V2].
  apply andb_prop in V2. destruct V2 as [V2 V3]. repeat split; auto.
  intros A. rewrite A in V3. cbn in V3. destruct (k_v q); [reflexivity|discriminate].
Qed.

Lemma ccols_prefix_matches s q k : validate_key s true q = true -> wf_key s q -> full_key s k ->
  is_prefix (enc_ccols s q) (enc_ccols s k) = key_matches q k.
Proof.
  intros V (_ & Wq & _) F. apply full_key_parts in F. destruct F as (_ & Sk & _ & Wk & _).
  apply partial_parts in V. destruct V as (_ & P & Hv).
  unfold enc_ccols, key_matches. apply enc_prefix_matches; assumption.
Qed.

(* the side condition under which the scanned range is exactly the prefix set *)
Lemma ccols_range_matches keeps s q k : validate_key s true q = true -> wf_key s q -> full_key s k ->
  (keeps = false \/ ends_ff (k_v q) = false) ->
  in_rng (upper_bound keeps (enc_ccols s q)) (enc_ccols s q) (enc_ccols s k) = key_matches q k.
Proof.
  intros V Wq F H. rewrite <- (ccols_prefix_matches s q k V Wq F). symmetry.
  pose proof Wq as (_ & Wqc & Wqv & _). pose proof (full_key_parts s k F) as (_ & Sk & _ & Wk & Wkv & _).
  apply ub_exact.
  - unfold enc_ccols. apply wf_app; [apply enc_fields_wf|assumption].
  - unfold enc_ccols. apply wf_app; [apply enc_fields_wf|assumption].
  - destruct H as [H|H]; [left; exact H|right].
    destruct (k_v q) as [|b r] eqn:Ev.
    + left. unfold enc_ccols. rewrite Ev, app_nil_r, app_length.
      pose proof (enc_fields_len_le (s_cc s) (k_c q) (k_c k) Wqc Wk Sk). lia.
    + right. unfold enc_ccols. rewrite Ev. rewrite ends_ff_app by discriminate. exact H.
Qed.

(* ---------- point operations: round trip and frame ---------- *)

Lemma never_expired (r : row N) : expired 0%Z r = false.
Proof. unfold expired. destruct (Z.ltb_spec 0 (rexp r)); destruct (Z.leb_spec (rexp r) 0); cbn; try reflexivity; lia. Qed.

Theorem view_get_put_proved (st : vstore) s ws k v : validate_key s false k = true ->
  view_get (fst (view_put st s ws k v)) s ws k = GVal v.
Proof.
  intros V. unfold view_put, view_get. rewrite V. cbn [fst]. rewrite get_put_same. reflexivity.
Qed.

(* one application: view ids are below 2^16 and name one layout each *)
Definition reg_ok (views : list schema) : Prop :=
  (forall s, In s views -> s_view s < 2 ^ 16) /\
  (forall s s', In s views -> In s' views -> s_view s = s_view s' -> s = s').

(* distinct (view, workspace, key values) are stored under distinct (pKey, cCols) *)
Lemma key_bytes_inj views s s' ws ws' k k' :
  reg_ok views -> In s views -> In s' views -> ws < 2 ^ 64 -> ws' < 2 ^ 64 ->
  full_key s k -> full_key s' k' ->
  enc_pkey s ws k = enc_pkey s' ws' k' -> enc_ccols s k = enc_ccols s' k' ->
  s = s' /\ ws = ws' /\ k = k'.
Proof.
  intros [Rb Ri] I I' Hw Hw' F F' Ep Ec.
  pose proof (full_key_parts s k F) as (Sp & Sc & Wp & Wc & _).
  pose proof (full_key_parts s' k' F') as (Sp' & Sc' & Wp' & Wc' & _).
  destruct (pkey_isolates_proved s s' ws ws' k k' (Rb s I) (Rb s' I') Hw Hw' Wp Wp' Sp Sp' Ep) as (Ev & Ew & Epk).
  pose proof (Ri s s' I I' Ev) as Es. subst s'. specialize (Epk eq_refl).
  destruct (ccols_injective_proved s k k' F F' Ec) as [E1 E2].
  repeat split; auto. destruct k, k'; cbn in *; congruence.
Qed.

Theorem view_put_frame_proved views (st : vstore) s s' ws ws' k k' v :
  reg_ok views -> In s views -> In s' views -> ws < 2 ^ 64 -> ws' < 2 ^ 64 ->
  full_key s k -> full_key s' k' ->
  (s_view s, ws, k) <> (s_view s', ws', k') ->
  view_get (fst (view_put st s ws k v)) s' ws' k' = view_get st s' ws' k'.
Proof.
  intros R I I' Hw Hw' F F' NE. unfold view_put, view_get. destruct F as [V W]. rewrite V. cbn [fst].
  destruct (validate_key s' false k'); [|reflexivity].
  rewrite get_put_other; [reflexivity|]. intros E. pose proof (f_equal fst E) as E1. pose proof (f_equal snd E) as E2. cbn [fst snd] in E1, E2.
  destruct (key_bytes_inj views s' s ws' ws k' k R I' I Hw' Hw F' (conj V W) E1 E2) as (-> & -> & ->).
  apply NE. reflexivity.
Qed.

(* ---------- write histories ---------- *)

Inductive wop :=
| WPut (s : schema) (ws : N) (k : vkey) (v : N)
| WBatch (ws : N) (items : list (schema * vkey * N)).

Definition apply_wop (st : vstore) (o : wop) : vstore :=
  match o with
  | WPut s ws k v => fst (view_put st s ws k v)
  | WBatch ws items => fst (view_put_batch st ws items)
  end.

Definition run_wops (st : vstore) (ops : list wop) : vstore := fold_left apply_wop ops st.

Definition item_ok (views : list schema) (it : schema * vkey * N) : Prop :=
  In (fst (fst it)) views /\ wf_key (fst (fst it)) (snd (fst it)).

Definition wop_ok (views : list schema) (o : wop) : Prop :=
  match o with
  | WPut s ws k v => ws < 2 ^ 64 /\ item_ok views (s, k, v)
  | WBatch ws items => ws < 2 ^ 64 /\ Forall (item_ok views) items
  end.

(* the writes a history performs, oldest first: rejected operations perform none *)
Definition writes_of (o : wop) : list (schema * N * vkey * N) :=
  match o with
  | WPut s ws k v => if validate_key s false k then [(s, ws, k, v)] else []
  | WBatch ws items =>
      if forallb (fun it => validate_key (fst (fst it)) false (snd (fst it))) items
      then map (fun it => (fst (fst it), ws, snd (fst it), snd it)) items else []
  end.

Definition put_w (st : vstore) (w : schema * N * vkey * N) : vstore :=
  let '(s, ws, k, v) := w in put st (enc_pkey s ws k) (enc_ccols s k) v.

Lemma put_batch_writes ws items : forall st : vstore,
  put_batch st (map (batch_item ws) items) =
  fold_left put_w (map (fun it : schema * vkey * N => (fst (fst it), ws, snd (fst it), snd it)) items) st.
Proof.
  unfold put_batch. induction items as [|[[s k] v] items IH]; intros st; [reflexivity|].
  cbn [map fold_left]. rewrite IH. reflexivity.
Qed.

Lemma apply_wop_writes st o : apply_wop st o = fold_left put_w (writes_of o) st.
Proof.
  destruct o as [s ws k v|ws items]; cbn.
  - unfold view_put. destruct (validate_key s false k); reflexivity.
  - unfold view_put_batch. destruct (forallb _ items); [|reflexivity]. cbn [fst].
    apply put_batch_writes.
Qed.

Lemma run_wops_writes ops : forall st, run_wops st ops = fold_left put_w (flat_map writes_of ops) st.
Proof.
  induction ops as [|o ops IH]; intros st; [reflexivity|].
  cbn [run_wops fold_left flat_map]. rewrite fold_left_app. rewrite <- apply_wop_writes. apply IH.
Qed.

Definition w_ok (views : list schema) (w : schema * N * vkey * N) : Prop :=
  let '(s, ws, k, v) := w in In s views /\ ws < 2 ^ 64 /\ full_key s k.

Lemma writes_ok views o : wop_ok views o -> Forall (w_ok views) (writes_of o).
Proof.
  destruct o as [s ws k v|ws items]; cbn.
  - intros (Hw & I & W). destruct (validate_key s false k) eqn:V; constructor; [|constructor].
    cbn in I, W. split; [exact I|]. split; [exact Hw|]. split; assumption.
  - intros (Hw & Hi). destruct (forallb _ items) eqn:V; [|constructor].
    rewrite forallb_forall in V. rewrite Forall_forall in *. intros w Hin.
    apply in_map_iff in Hin. destruct Hin as [[[s k] v] [<- Hin]]. cbn.
    destruct (Hi _ Hin) as [I W]. specialize (V _ Hin). cbn in I, W, V.
    split; [exact I|]. split; [exact Hw|]. split; assumption.
Qed.

Lemma all_writes_ok views ops : Forall (wop_ok views) ops -> Forall (w_ok views) (flat_map writes_of ops).
Proof.
  induction 1 as [|o ops Ho _ IH]; cbn; [constructor|]. apply Forall_app. split; [apply writes_ok; assumption|exact IH].
Qed.

(* the value of the newest write to (view, workspace, key values) *)
Fixpoint last_write (view ws : N) (k : vkey) (ws_ : list (schema * N * vkey * N)) : option N :=
  match ws_ with
  | [] => None
  | (s, w, k', v) :: r =>
      match last_write view ws k r with
      | Some x => Some x
      | None => if (s_view s =? view) && (w =? ws) && vkey_eqb k' k then Some v else None
      end
  end.

Lemma optN_eqb_eq a b : optN_eqb a b = true <-> a = b.
Proof.
  destruct a, b; cbn; try (split; congruence). rewrite N.eqb_eq. split; congruence.
Qed.

Lemma vkey_eqb_eq a b : vkey_eqb a b = true <-> a = b.
Proof.
  unfold vkey_eqb. rewrite !andb_true_iff, !(list_eqb_eq optN_eqb optN_eqb_eq), lex_eqb_eq.
  destruct a, b; cbn. split; [intros [[-> ->] ->]; reflexivity|intros E; inversion E; auto].
Qed.

Lemma get_after_writes views wl : forall (st : vstore) s ws k,
  reg_ok views -> Forall (w_ok views) wl -> In s views -> ws < 2 ^ 64 -> full_key s k ->
  view_get (fold_left put_w wl st) s ws k =
  match last_write (s_view s) ws k wl with Some v => GVal v | None => view_get st s ws k end.
Proof.
  induction wl as [|[[[s0 w0] k0] v0] wl IH]; intros st s ws k R Hwl I Hw F; [reflexivity|].
  inversion Hwl as [|? ? H0 Hwl']; subst. cbn in H0. destruct H0 as (I0 & Hw0 & F0).
  cbn [fold_left last_write]. rewrite (IH _ s ws k R Hwl' I Hw F).
  destruct (last_write (s_view s) ws k wl); [reflexivity|].
  pose proof (view_put_frame_proved views st s0 s w0 ws k0 k v0 R I0 I Hw0 Hw F0 F) as Fr.
  pose proof (view_get_put_proved st s0 w0 k0 v0 (proj1 F0)) as Gp.
  unfold view_put in Fr, Gp. rewrite (proj1 F0) in Fr, Gp. cbn [fst] in Fr, Gp. cbn [put_w].
  destruct ((s_view s0 =? s_view s) && (w0 =? ws) && vkey_eqb k0 k) eqn:E.
  - apply andb_prop in E. destruct E as [E E3]. apply andb_prop in E. destruct E as [E1 E2].
    apply N.eqb_eq in E1, E2. apply vkey_eqb_eq in E3. subst w0 k0.
    destruct R as [Rb Ri]. rewrite (Ri s0 s I0 I E1) in *. exact Gp.
  - apply Fr. intros EE. inversion EE as [[E1 E2 E3]]. subst.
    rewrite E1, !N.eqb_refl in E. cbn in E. rewrite (proj2 (vkey_eqb_eq k k) eq_refl) in E. discriminate.
Qed.

(* A get returns the value of the newest write under exactly that key, whatever else was written *)
Theorem view_get_history_proved views ops (st : vstore) s ws k :
  reg_ok views -> Forall (wop_ok views) ops -> In s views -> ws < 2 ^ 64 -> full_key s k ->
  view_get (run_wops st ops) s ws k =
  match last_write (s_view s) ws k (flat_map writes_of ops) with
  | Some v => GVal v
  | None => view_get st s ws k
  end.
Proof.
  intros R Ho I Hw F. rewrite run_wops_writes. apply (get_after_writes views); auto. apply all_writes_ok. exact Ho.
Qed.

(* ---------- every row of a view partition is the encoding of a complete key ---------- *)

Definition typed (views : list schema) (st : vstore) : Prop :=
  forall s ws q cc r, In s views -> ws < 2 ^ 64 -> all_set (k_p q) = true -> wf_vals (s_pk s) (k_p q) ->
    raw_lookup st (enc_pkey s ws q) cc = Some r ->
    exists k, full_key s k /\ k_p k = k_p q /\ cc = enc_ccols s k.

Lemma typed_nil views : typed views [].
Proof. intros s ws q cc r _ _ _ _ H. discriminate. Qed.

Lemma typed_put_w views st w : reg_ok views -> w_ok views w -> typed views st -> typed views (put_w st w).
Proof.
  destruct w as [[[s0 w0] k0] v0]. intros R (I0 & Hw0 & F0) T s ws q cc r I Hw Sq Wq L.
  cbn [put_w] in L. unfold put in L.
  destruct (list_eq_dec N.eq_dec (enc_pkey s ws q) (enc_pkey s0 w0 k0)) as [Ep|Np].
  - pose proof (full_key_parts s0 k0 F0) as (Sp0 & _ & Wp0 & _).
    destruct R as [Rb Ri].
    destruct (pkey_isolates_proved s s0 ws w0 q k0 (Rb s I) (Rb s0 I0) Hw Hw0 Wq Wp0 Sq Sp0 Ep) as (Ev & Ew & Epk).
    pose proof (Ri s s0 I I0 Ev) as Es. subst s0 w0. specialize (Epk eq_refl).
    destruct (list_eq_dec N.eq_dec cc (enc_ccols s k0)) as [Ec|Nc].
    + exists k0. auto.
    + rewrite raw_set_other in L by congruence. rewrite Ep in L.
      destruct (T s ws k0 cc r I Hw Sp0 Wp0 L) as (k & Fk & Ek & Ecc). exists k. split; [exact Fk|]. split; [congruence|exact Ecc].
  - rewrite raw_set_other in L by congruence. eapply T; eauto.
Qed.

Lemma parts_sorted_put_w (st : vstore) w : parts_sorted st -> parts_sorted (put_w st w).
Proof. destruct w as [[[s0 w0] k0] v0]. apply put_sorted. Qed.

Lemma typed_writes views wl : forall st, reg_ok views -> Forall (w_ok views) wl ->
  typed views st /\ parts_sorted st -> typed views (fold_left put_w wl st) /\ parts_sorted (fold_left put_w wl st).
Proof.
  induction wl as [|w wl IH]; intros st R H [T S]; [auto|].
  inversion H; subst. cbn [fold_left]. apply IH; auto. split; [apply typed_put_w; auto|apply parts_sorted_put_w; auto].
Qed.

(* every store reached from the empty one by any history of view writes *)
Theorem reachable_typed_proved views ops : reg_ok views -> Forall (wop_ok views) ops ->
  typed views (run_wops [] ops) /\ parts_sorted (run_wops [] ops).
Proof.
  intros R H. rewrite run_wops_writes. apply typed_writes; auto.
  - apply all_writes_ok. exact H.
  - split; [apply typed_nil|apply parts_sorted_nil].
Qed.

(* ---------- partial-key reads ---------- *)

Definition stored (st : vstore) (s : schema) (ws : N) (k : vkey) (v : N) : Prop :=
  exists r, raw_lookup st (enc_pkey s ws k) (enc_ccols s k) = Some r /\ rval r = v.

Definition row_of_raw (s : schema) (p : list N) (kv : bytes * N) : rrow :=
  match dec_fields (s_cc s) (fst kv) with
  | Some (c, rest) => mkRRow p c (if s_var s then rest else []) (snd kv)
  | None => mkRRow p [] [] (snd kv)
  end.

Lemma decode_rows_ok s p raw : Forall (fun kv => dec_fields (s_cc s) (fst kv) <> None) raw ->
  decode_rows s p raw = (map (row_of_raw s p) raw, true).
Proof.
  induction 1 as [|[cc v] raw H _ IH]; [reflexivity|].
  cbn [decode_rows map]. unfold row_of_raw at 1. cbn [fst snd] in *.
  destruct (dec_fields (s_cc s) cc) as [[c rest]|]; [|congruence]. rewrite IH. reflexivity.
Qed.

Lemma row_of_raw_enc s k v : full_key s k -> row_of_raw s (vals (k_p k)) (enc_ccols s k, v) = row_of k v.
Proof.
  intros F. unfold row_of_raw. cbn [fst snd]. rewrite (ccols_roundtrip_proved s k F).
  apply full_key_parts in F. destruct F as (_ & _ & _ & _ & _ & Hv). unfold row_of.
  destruct (s_var s); [reflexivity|]. rewrite Hv by reflexivity. reflexivity.
Qed.

Lemma key_of_row_of k v : all_set (k_p k) = true -> all_set (k_c k) = true -> key_of_row (row_of k v) = k.
Proof.
  intros Sp Sc. unfold key_of_row, row_of. cbn. rewrite !map_Some_vals by assumption. destruct k; reflexivity.
Qed.

Lemma enc_pkey_same_p s ws k q : k_p k = k_p q -> enc_pkey s ws k = enc_pkey s ws q.
Proof. unfold enc_pkey. intros ->. reflexivity. Qed.

Theorem partial_read_exact_gen keeps nk views (st : vstore) s ws q :
  reg_ok views -> typed views st -> parts_sorted st -> In s views -> ws < 2 ^ 64 ->
  validate_key s true q = true -> wf_key s q ->
  (keeps = false \/ ends_ff (k_v q) = false) ->
  (nk = false \/ raw_lookup st (enc_pkey s ws q) [0] = None) ->
  exists rows, view_read keeps nk st s ws q = (0, rows) /\
    (forall r, In r rows <->
       exists k, full_key s k /\ k_p k = k_p q /\ key_matches q k = true
                 /\ stored st s ws k (r_n r) /\ r = row_of k (r_n r)) /\
    ascending (map (fun r => enc_ccols s (key_of_row r)) rows).
Proof.
  intros R T S I Hw V Wq Hff Hnk.
  pose proof (partial_parts s q V) as (Sq & _ & _). pose proof Wq as (Wqp & _).
  set (raw := read_raw keeps st s ws q).
  set (c := enc_ccols s q).
  (* what the storage returns: typed rows inside the range *)
  assert (Hraw : forall cc v, In (cc, v) raw <->
            (exists r, raw_lookup st (enc_pkey s ws q) cc = Some r /\ rval r = v) /\ in_rng (upper_bound keeps c) c cc = true).
  { intros cc v. unfold raw, read_raw. fold c. rewrite (read_exact 0%Z st _ _ _ cc v S).
    unfold live_in, in_rng. split.
    - intros [[r [L [_ Ev]]] [Lo Hi]]. split; [exists r; auto|]. rewrite Lo. cbn.
      destruct (upper_bound keeps c) as [u|] eqn:Eu; [|reflexivity]. cbn in Hi.
      destruct Hi as [Hi|Hi]; [|exact Hi]. exfalso. eapply upper_bound_nonempty; eauto.
    - intros [[r [L Ev]] B]. apply andb_prop in B. destruct B as [Lo Hi].
      split; [exists r; split; [exact L|split; [apply never_expired|exact Ev]]|]. split; [exact Lo|].
      destruct (upper_bound keeps c) as [u|]; cbn; [right; exact Hi|left; reflexivity]. }
  assert (Hty : forall cc v, In (cc, v) raw ->
            exists k, full_key s k /\ k_p k = k_p q /\ cc = enc_ccols s k /\ key_matches q k = true
                      /\ stored st s ws k v /\ unsafe_key nk cc = cc).
  { intros cc v Hin. apply Hraw in Hin. destruct Hin as [[r [L Ev]] B].
    destruct (T s ws q cc r I Hw Sq Wqp L) as (k & Fk & Ek & Ecc). exists k. subst cc. unfold c in B.
    rewrite (ccols_range_matches keeps s q k V Wq Fk Hff) in B.
    split; [exact Fk|]. split; [exact Ek|]. split; [reflexivity|]. split; [exact B|]. split.
    - exists r. rewrite (enc_pkey_same_p s ws k q Ek). auto.
    - unfold unsafe_key. destruct nk; [|reflexivity]. destruct Hnk as [Hnk|Hnk]; [discriminate|].
      destruct (lex_eqb (enc_ccols s k) [0]) eqn:E0; [|reflexivity].
      apply lex_eqb_eq in E0. rewrite E0 in L. congruence. }
  set (raw' := map (fun kv : bytes * N => (unsafe_key nk (fst kv), snd kv)) raw).
  assert (Eraw' : raw' = raw).
  { unfold raw'. rewrite <- (map_id raw) at 2. apply map_ext_in. intros [cc v] Hin.
    destruct (Hty cc v Hin) as (k & _ & _ & _ & _ & _ & U). cbn. rewrite U. reflexivity. }
  assert (Hrows : map (row_of_raw s (vals (k_p q))) raw = map (fun kv => row_of_raw s (vals (k_p q)) kv) raw) by reflexivity.
  exists (map (row_of_raw s (vals (k_p q))) raw). split; [|split].
  - unfold view_read. rewrite V. fold raw. fold raw'. rewrite Eraw'.
    rewrite decode_rows_ok; [reflexivity|]. apply Forall_forall. intros [cc v] Hin.
    destruct (Hty cc v Hin) as (k & Fk & _ & Ecc & _). cbn [fst]. rewrite Ecc, (ccols_roundtrip_proved s k Fk). discriminate.
  - intros r. rewrite in_map_iff. split.
    + intros [[cc v] [Er Hin]]. destruct (Hty cc v Hin) as (k & Fk & Ek & Ecc & M & St & _).
      subst cc. rewrite <- Ek, (row_of_raw_enc s k v Fk) in Er. subst r. cbn [row_of r_n].
      exists k. auto 10.
    + intros (k & Fk & Ek & M & [r0 [L Ev]] & Er). exists (enc_ccols s k, r_n r). split.
      * rewrite <- Ek, (row_of_raw_enc s k _ Fk). auto.
      * apply Hraw. split; [exists r0; rewrite <- (enc_pkey_same_p s ws k q Ek); auto|].
        unfold c. rewrite (ccols_range_matches keeps s q k V Wq Fk Hff). exact M.
  - rewrite map_map.
    assert (E : map (fun x => enc_ccols s (key_of_row (row_of_raw s (vals (k_p q)) x))) raw = map fst raw).
    { apply map_ext_in. intros [cc v] Hin. destruct (Hty cc v Hin) as (k & Fk & Ek & Ecc & _).
      subst cc. rewrite <- Ek, (row_of_raw_enc s k v Fk).
      pose proof (full_key_parts s k Fk) as (Sp & Sc & _). rewrite key_of_row_of by assumption. reflexivity. }
    rewrite E. unfold raw, read_raw. apply read_ascending. exact S.
Qed.

(* strictly ascending key bytes: no row is delivered twice *)
Theorem ascending_rows_NoDup s rows : ascending (map (fun r => enc_ccols s (key_of_row r)) rows) -> NoDup rows.
Proof.
  intros A. apply ascending_NoDup in A. eapply NoDup_map_inv. exact A.
Qed.

(* ---------- constraints on the trailing column, batch reads ---------- *)

Lemma constraint_ok_nomin s k : s_vmin s = 0 -> constraint_ok s k = true.
Proof. intros E. unfold constraint_ok. rewrite E. destruct (N.of_nat (length (k_v k))); cbn; apply orb_true_r. Qed.

(* the partial-read theorem with the two parts of the key check kept apart: the shape is what the
   property asks of a partial key, the constraint is what the code asks in addition *)
Theorem partial_read_exact_shape keeps nk views (st : vstore) s ws q :
  reg_ok views -> typed views st -> parts_sorted st -> In s views -> ws < 2 ^ 64 ->
  key_shape_ok s true q = true -> wf_key s q ->
  constraint_ok s q = true ->
  (keeps = false \/ ends_ff (k_v q) = false) ->
  (nk = false \/ raw_lookup st (enc_pkey s ws q) [0] = None) ->
  exists rows, view_read keeps nk st s ws q = (0, rows) /\
    (forall r, In r rows <->
       exists k, full_key s k /\ k_p k = k_p q /\ key_matches q k = true
                 /\ stored st s ws k (r_n r) /\ r = row_of k (r_n r)) /\
    ascending (map (fun r => enc_ccols s (key_of_row r)) rows).
Proof.
  intros R T S I W V K C Hf Hn. apply (partial_read_exact_gen keeps nk views); auto. unfold validate_key. rewrite C, V. reflexivity.
Qed.

(* a batch get is the list of the single gets, for any number of keys, partitions and repetitions *)
Theorem batch_get_is_pointwise_proved (st : vstore) ws items res :
  view_get_batch st ws items = Some res ->
  length res = length items /\
  forall i s k, nth_error items i = Some (s, k) -> nth_error res i = Some (view_get st s ws k).
Proof.
  unfold view_get_batch. destruct (forallb _ items); [|discriminate]. intros E. inversion E; subst. clear E.
  split; [apply map_length|]. intros i s k H. rewrite nth_error_map, H. reflexivity.
Qed.

Theorem batch_get_accepts_proved (st : vstore) ws items :
  Forall (fun it => validate_key (fst it) false (snd it) = true) items ->
  view_get_batch st ws items = Some (map (fun it => view_get st (fst it) ws (snd it)) items).
Proof.
  intros H. unfold view_get_batch. rewrite (proj2 (forallb_forall _ items)); [reflexivity|].
  rewrite Forall_forall in H. exact H.
Qed.
