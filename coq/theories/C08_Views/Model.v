(* C08 - model of pkg/istructsmem view records (viewrecords-types.go, viewrecords-dynobuf.go,
   validation.go validateViewKey, internal/utils/bytes.go IncBytes) over the reference storage.
   A key builder is the list of its fields, each set or not; values of fixed-size fields are
   their unsigned bit patterns (two's complement ints, IEEE bits of floats, 0/1, QName id).
   Definitions only. *)
From Coq Require Import List NArith ZArith Lia Bool.
From V Require Import Lib.Lex Lib.SMap Lib.Check Storage.Spec Gen.Params.
Import ListNotations.
Local Open Scope N_scope.

Inductive kind := KI8 | KI16 | KI32 | KI64 | KF32 | KF64 | KBool | KRecID | KQName.
Definition all_kinds : list kind := [KI8; KI16; KI32; KI64; KF32; KF64; KBool; KRecID; KQName].

(* bytes written by utils.SafeWriteBuf for the Go value dynobuffers returns for the kind *)
Definition kwidth (k : kind) : nat :=
  match k with
  | KI8 | KBool => 1 | KI16 | KQName => 2 | KI32 | KF32 => 4 | KI64 | KF64 | KRecID => 8
  end%nat.

Definition kind_eqb (a b : kind) : bool :=
  match a, b with
  | KI8, KI8 | KI16, KI16 | KI32, KI32 | KI64, KI64 | KF32, KF32 | KF64, KF64
  | KBool, KBool | KRecID, KRecID | KQName, KQName => true
  | _, _ => false
  end.

(* values a field of the kind can hold *)
Definition kbound (k : kind) : N := match k with KBool => 2 | _ => 256 ^ N.of_nat (kwidth k) end.

(* s_vmin: MinLen constraint of the trailing column (0 = none) *)
Record schema := mkSchema { s_view : N; s_pk : list kind; s_cc : list kind; s_var : bool; s_vmin : N }.

(* key builder contents: partition fields, fixed-size clustering fields (None = not set), and
   the trailing string/bytes column ([] = not set: HasValue is false for an empty value) *)
Record vkey := mkKey { k_p : list (option N); k_c : list (option N); k_v : bytes }.

Definition is_some {A} (o : option A) : bool := match o with Some _ => true | None => false end.
Definition all_set (vs : list (option N)) : bool := forallb is_some vs.
Definition none_set (vs : list (option N)) : bool := forallb (fun o => negb (is_some o)) vs.
Fixpoint prefix_set (vs : list (option N)) : bool :=
  match vs with
  | [] => true
  | Some _ :: r => prefix_set r
  | None :: r => none_set r
  end.
Definition nonempty (b : bytes) : bool := match b with [] => false | _ => true end.

(* validateViewKey(key, partialClust) *)
Definition key_shape_ok (s : schema) (partial : bool) (k : vkey) : bool :=
  all_set (k_p k) &&
  (if partial then prefix_set (k_c k) && (all_set (k_c k) || negb (nonempty (k_v k)))
   else all_set (k_c k) && (negb (s_var s) || nonempty (k_v k))).

(* rowType.putValue checks the field's constraints on whatever is put into the builder - also on
   the prefix given for a range read; the error surfaces in key.build(), before validateViewKey *)
Definition constraint_ok (s : schema) (k : vkey) : bool :=
  negb (nonempty (k_v k)) || (s_vmin s <=? N.of_nat (length (k_v k))).

Definition validate_key (s : schema) (partial : bool) (k : vkey) : bool :=
  constraint_ok s k && key_shape_ok s partial k.

(* observed code of a refusal: 9 constraint violation (build error), 1 validation error *)
Definition reject_code (s : schema) (k : vkey) : N := if constraint_ok s k then 1 else 9.

(* storeViewPartKey / storeViewClustKey: fields not set write nothing *)
Fixpoint enc_fields (ks : list kind) (vs : list (option N)) : bytes :=
  match ks, vs with
  | k :: ks', Some v :: vs' => be_bytes (kwidth k) v ++ enc_fields ks' vs'
  | _ :: ks', None :: vs' => enc_fields ks' vs'
  | _, _ => []
  end.

Definition enc_pkey (s : schema) (ws : N) (k : vkey) : bytes :=
  be_bytes 2 (s_view s) ++ be_bytes 8 ws ++ enc_fields (s_pk s) (k_p k).
Definition enc_ccols (s : schema) (k : vkey) : bytes := enc_fields (s_cc s) (k_c k) ++ k_v k.

Definition vals (l : list (option N)) : list N :=
  flat_map (fun o => match o with Some v => [v] | None => [] end) l.

(* loadViewClustKey_00 *)
Fixpoint be_val (b : bytes) : N :=
  match b with [] => 0 | x :: r => x * 256 ^ N.of_nat (length r) + be_val r end.
Definition dec_val (k : kind) (b : bytes) : N :=
  match k with KBool => if be_val b =? 0 then 0 else 1 | _ => be_val b end.
Fixpoint dec_fields (ks : list kind) (b : bytes) : option (list N * bytes) :=
  match ks with
  | [] => Some ([], b)
  | k :: ks' =>
      if (length b <? kwidth k)%nat then None
      else match dec_fields ks' (skipn (kwidth k) b) with
           | Some (vs, rest) => Some (dec_val k (firstn (kwidth k) b) :: vs, rest)
           | None => None
           end
  end.

(* ---- the range of a partial key ---- *)

(* utils.PrefixSuccessor (fix of finding F22): strip trailing 0xff bytes, increment the last one *)
Fixpoint succ_prefix (b : bytes) : option bytes :=
  match b with
  | [] => None
  | x :: r => match succ_prefix r with
              | Some r' => Some (x :: r')
              | None => if x <? 255 then Some [x + 1] else None
              end
  end.

(* keeps = false: utils.PrefixSuccessor, what Read uses; keeps = true: the former utils.IncBytes
   (Lex.inc_bytes); the translator reports which one the source calls *)
Definition upper_bound (keeps : bool) (c : bytes) : option bytes :=
  if keeps then inc_bytes c else succ_prefix c.
Definition fin_of (o : option bytes) : bytes := match o with Some q => q | None => [] end.
Definition in_rng (ub : option bytes) (p k : bytes) : bool :=
  lex_le p k && match ub with Some q => lex_lt k q | None => true end.

(* bbolt hands the stored clustering columns {0x00} back as empty (unSafeKey) *)
Definition unsafe_key (nk : bool) (cc : bytes) : bytes := if nk && lex_eqb cc [0] then [] else cc.

(* ---- operations of IViewRecords over the reference storage (no TTL: clock fixed at 0) ---- *)

Definition vstore := store N.

Definition view_put (st : vstore) (s : schema) (ws : N) (k : vkey) (v : N) : vstore * bool :=
  if validate_key s false k then (put st (enc_pkey s ws k) (enc_ccols s k) v, true) else (st, false).

Definition batch_item (ws : N) (it : schema * vkey * N) : bytes * bytes * N :=
  let '(s, k, v) := it in (enc_pkey s ws k, enc_ccols s k, v).

(* PutBatch validates and encodes every item before the one storage call *)
Definition view_put_batch (st : vstore) (ws : N) (items : list (schema * vkey * N)) : vstore * bool :=
  if forallb (fun it => validate_key (fst (fst it)) false (snd (fst it))) items
  then (put_batch st (map (batch_item ws) items), true) else (st, false).

Inductive gres := GVal (n : N) | GNone | GInvalid | GOther.

Definition view_get (st : vstore) (s : schema) (ws : N) (k : vkey) : gres :=
  if validate_key s false k
  then match get 0%Z st (enc_pkey s ws k) (enc_ccols s k) with Some v => GVal v | None => GNone end
  else if constraint_ok s k then GInvalid else GOther.

Definition view_get_batch (st : vstore) (ws : N) (items : list (schema * vkey)) : option (list gres) :=
  if forallb (fun it => validate_key (fst it) false (snd it)) items
  then Some (map (fun it => view_get st (fst it) ws (snd it)) items) else None.

Record rrow := mkRRow { r_p : list N; r_c : list N; r_v : bytes; r_n : N }.

(* the Read callback: rows are decoded one by one; the first failure aborts the read *)
Fixpoint decode_rows (s : schema) (p : list N) (raw : list (bytes * N)) : list rrow * bool :=
  match raw with
  | [] => ([], true)
  | (cc, v) :: r =>
      match dec_fields (s_cc s) cc with
      | Some (c, rest) =>
          let '(rs, ok) := decode_rows s p r in
          (mkRRow p c (if s_var s then rest else []) v :: rs, ok)
      | None => ([], false)
      end
  end.

Definition read_raw (keeps : bool) (st : vstore) (s : schema) (ws : N) (q : vkey) : list (bytes * N) :=
  let c := enc_ccols s q in read 0%Z st (enc_pkey s ws q) c (fin_of (upper_bound keeps c)).

(* result code: 0 ok, 1 key rejected, 9 a row could not be loaded *)
Definition view_read (keeps nk : bool) (st : vstore) (s : schema) (ws : N) (q : vkey) : N * list rrow :=
  if validate_key s true q then
    let '(rows, ok) := decode_rows s (vals (k_p q))
                         (map (fun kv => (unsafe_key nk (fst kv), snd kv)) (read_raw keeps st s ws q)) in
    (if ok then 0 else 9, rows)
  else (reject_code s q, []).

(* ---- what the property talks about: rows selected by a partial key ---- *)

Fixpoint match_fixed (q k : list (option N)) : bool :=
  match q, k with
  | Some a :: q', Some b :: k' => (a =? b) && match_fixed q' k'
  | _, _ => true
  end.

(* leading clustering values equal the given ones; prefix match on the trailing column *)
Definition key_matches (q k : vkey) : bool := match_fixed (k_c q) (k_c k) && is_prefix (k_v q) (k_v k).

Definition optN_eqb := option_eqb N.eqb.
Definition vkey_eqb (a b : vkey) : bool :=
  list_eqb optN_eqb (k_p a) (k_p b) && list_eqb optN_eqb (k_c a) (k_c b) && lex_eqb (k_v a) (k_v b).

Definition row_of (k : vkey) (v : N) : rrow := mkRRow (vals (k_p k)) (vals (k_c k)) (k_v k) v.
Definition key_of_row (r : rrow) : vkey := mkKey (map Some (r_p r)) (map Some (r_c r)) (r_v r).

(* ================= trace checking (correspondence + oracle) ================= *)

(* calls into IAppStorage observed by the recording wrapper; a GetBatch is recorded as one SGet
   per requested row *)
Inductive scall :=
| SPut (pk cc : bytes)
| SPutBatch (l : list (bytes * bytes))
| SGet (pk cc : bytes)
| SRead (pk start finish : bytes).

Definition pair_eqb (a b : bytes * bytes) : bool := lex_eqb (fst a) (fst b) && lex_eqb (snd a) (snd b).
Definition scall_eqb (a b : scall) : bool :=
  match a, b with
  | SPut p c, SPut p' c' => lex_eqb p p' && lex_eqb c c'
  | SPutBatch l, SPutBatch l' => list_eqb pair_eqb l l'
  | SGet p c, SGet p' c' => lex_eqb p p' && lex_eqb c c'
  | SRead p a b, SRead p' a' b' => lex_eqb p p' && lex_eqb a a' && lex_eqb b b'
  | _, _ => false
  end.

Definition count_of (x : scall) (l : list scall) : nat := length (filter (scall_eqb x) l).
(* equal as multisets: GetBatch asks the storage partition by partition in Go map order *)
Definition same_calls (a b : list scall) : bool :=
  Nat.eqb (length a) (length b) && forallb (fun x => Nat.eqb (count_of x a) (count_of x b)) a.

Definition gres_eqb (a b : gres) : bool :=
  match a, b with
  | GVal x, GVal y => x =? y
  | GNone, GNone | GInvalid, GInvalid | GOther, GOther => true
  | _, _ => false
  end.

Definition rrow_eqb (a b : rrow) : bool :=
  list_eqb N.eqb (r_p a) (r_p b) && list_eqb N.eqb (r_c a) (r_c b) && lex_eqb (r_v a) (r_v b) && (r_n a =? r_n b).

(* observed result codes: 0 ok, 1 key rejected by validation, 2 record not found, 9 other *)
Inductive vop :=
| OPut (view ws : N) (k : vkey) (n code : N) (calls : list scall)
| OPutBatch (ws : N) (items : list (N * vkey * N)) (code : N) (calls : list scall)
| OGet (view ws : N) (k : vkey) (res : gres) (calls : list scall)
| OGetBatch (ws : N) (items : list (N * vkey)) (code : N) (res : list gres) (calls : list scall)
| ORead (view ws : N) (k : vkey) (code : N) (rows : list rrow) (calls : list scall).

(* t_nullkey: the backend is bbolt (directly or under the cache) *)
Record trace := mkTrace { t_nullkey : bool; t_views : list schema; t_ops : list vop }.

Definition view_at (views : list schema) (i : N) : option schema := nth_error views (N.to_nat i).

(* the builder carries one entry per declared field, and a trailing value only if declared *)
Definition shape_ok (s : schema) (k : vkey) : bool :=
  Nat.eqb (length (k_p k)) (length (s_pk s)) && Nat.eqb (length (k_c k)) (length (s_cc s))
  && (s_var s || negb (nonempty (k_v k))).

Fixpoint resolve3 (views : list schema) (items : list (N * vkey * N)) : option (list (schema * vkey * N)) :=
  match items with
  | [] => Some []
  | (i, k, v) :: r =>
      match view_at views i, resolve3 views r with
      | Some s, Some r' => if shape_ok s k then Some ((s, k, v) :: r') else None
      | _, _ => None
      end
  end.

Fixpoint resolve2 (views : list schema) (items : list (N * vkey)) : option (list (schema * vkey)) :=
  match items with
  | [] => Some []
  | (i, k) :: r =>
      match view_at views i, resolve2 views r with
      | Some s, Some r' => if shape_ok s k then Some ((s, k) :: r') else None
      | _, _ => None
      end
  end.

(* PutBatch / GetBatch stop at the first key that cannot be built or validated *)
Fixpoint first_reject (its : list (schema * vkey)) : N :=
  match its with
  | [] => 0
  | (s, k) :: r => if validate_key s false k then first_reject r else reject_code s k
  end.

Fixpoint agrees_from (nk : bool) (views : list schema) (st : vstore) (ops : list vop) : bool :=
  match ops with
  | [] => true
  | OPut i ws k n code calls :: rest =>
      match view_at views i with
      | Some s =>
          let '(st', ok) := view_put st s ws k n in
          shape_ok s k
          && (if ok then (code =? 0) && list_eqb scall_eqb [SPut (enc_pkey s ws k) (enc_ccols s k)] calls
              else (code =? reject_code s k) && list_eqb scall_eqb [] calls)
          && agrees_from nk views st' rest
      | None => false
      end
  | OPutBatch ws items code calls :: rest =>
      match resolve3 views items with
      | Some its =>
          let '(st', ok) := view_put_batch st ws its in
          (if ok then (code =? 0)
                      && list_eqb scall_eqb [SPutBatch (map (fun it => (fst (fst (batch_item ws it)), snd (fst (batch_item ws it)))) its)] calls
           else (code =? first_reject (map fst its)) && list_eqb scall_eqb [] calls)
          && agrees_from nk views st' rest
      | None => false
      end
  | OGet i ws k res calls :: rest =>
      match view_at views i with
      | Some s =>
          let m := view_get st s ws k in
          shape_ok s k && gres_eqb m res
          && list_eqb scall_eqb (match m with GInvalid | GOther => [] | _ => [SGet (enc_pkey s ws k) (enc_ccols s k)] end) calls
          && agrees_from nk views st rest
      | None => false
      end
  | OGetBatch ws items code res calls :: rest =>
      match resolve2 views items with
      | Some its =>
          match view_get_batch st ws its with
          | Some m => (code =? 0) && list_eqb gres_eqb m res
                      && same_calls (map (fun it => SGet (enc_pkey (fst it) ws (snd it)) (enc_ccols (fst it) (snd it))) its) calls
          | None => (code =? first_reject its) && list_eqb gres_eqb [] res && list_eqb scall_eqb [] calls
          end
          && agrees_from nk views st rest
      | None => false
      end
  | ORead i ws q code rows calls :: rest =>
      match view_at views i with
      | Some s =>
          let '(mcode, mrows) := view_read view_incbytes_keeps_length nk st s ws q in
          let c := enc_ccols s q in
          shape_ok s q && (mcode =? code) && list_eqb rrow_eqb mrows rows
          && list_eqb scall_eqb
               (if validate_key s true q then [SRead (enc_pkey s ws q) c (fin_of (upper_bound view_incbytes_keeps_length c))] else []) calls
          && agrees_from nk views st rest
      | None => false
      end
  end.

Definition agrees (t : trace) : bool := agrees_from (t_nullkey t) (t_views t) [] (t_ops t).

(* ---- satisfies: the property judged on the observed outputs alone.  The only state is the
   list of successful writes (newest first) keyed by (view, workspace, key values). ---- *)

Definition lkey := (N * N * vkey)%type.
Definition lkey_eqb (a b : lkey) : bool :=
  (fst (fst a) =? fst (fst b)) && (snd (fst a) =? snd (fst b)) && vkey_eqb (snd a) (snd b).

Fixpoint llookup (k : lkey) (m : list (lkey * N)) : option N :=
  match m with
  | [] => None
  | (k', v) :: r => if lkey_eqb k k' then Some v else llookup k r
  end.

(* entries not shadowed by a newer write *)
Fixpoint live_entries (m : list (lkey * N)) : list (lkey * N) :=
  match m with
  | [] => []
  | (k, v) :: r => (k, v) :: filter (fun e => negb (lkey_eqb k (fst e))) (live_entries r)
  end.

(* every given value, leading or not, is the row's value *)
Fixpoint match_spec (q k : list (option N)) : bool :=
  match q, k with
  | Some a :: q', Some b :: k' => (a =? b) && match_spec q' k'
  | None :: q', _ :: k' => match_spec q' k'
  | _, _ => true
  end.

Definition get_ok (m : list (lkey * N)) (k : lkey) (res : gres) : bool :=
  match llookup k m with
  | Some v => gres_eqb res (GVal v)
  | None => match res with GVal _ => false | _ => true end
  end.

Fixpoint ascending_b (ks : list bytes) : bool :=
  match ks with
  | [] => true
  | k :: r => match r with [] => true | k' :: _ => lex_lt k k' end && ascending_b r
  end.

Definition read_ok (m : list (lkey * N)) (s : schema) (i ws : N) (q : vkey) (code : N) (rows : list rrow) : bool :=
  (* a partial key in the sense of the property: all partition fields, leading clustering fields *)
  if key_shape_ok s true q then
    (code =? 0)
    (* every returned row was written with that value, belongs to the partition, matches the partial key *)
    && forallb (fun r => let k := key_of_row r in
                  option_eqb N.eqb (llookup (i, ws, k) m) (Some (r_n r))
                  && list_eqb N.eqb (r_p r) (vals (k_p q)) && key_matches q k) rows
    (* every written row of the partition that matches is returned *)
    && forallb (fun e => let '(j, w, k) := fst e in
                  negb ((j =? i) && (w =? ws) && list_eqb optN_eqb (k_p k) (k_p q) && key_matches q k)
                  || existsb (rrow_eqb (row_of k (snd e))) rows) (live_entries m)
    (* ascending in key bytes, hence each once *)
    && ascending_b (map (fun r => enc_ccols s (key_of_row r)) rows)
  else
    (* not a partial key in the sense of the property (hole, missing partition field): nothing is
       required of a refusal; if the read is served, no returned row may contradict a given value *)
    negb (code =? 0)
    || forallb (fun r => match_spec (k_c q) (map Some (r_c r)) && is_prefix (k_v q) (r_v r)) rows.

Fixpoint satisfies_from (views : list schema) (m : list (lkey * N)) (ops : list vop) : bool :=
  match ops with
  | [] => true
  | OPut i ws k n code _ :: rest =>
      satisfies_from views (if code =? 0 then ((i, ws, k), n) :: m else m) rest
  | OPutBatch ws items code _ :: rest =>
      satisfies_from views
        (if code =? 0 then fold_left (fun acc it => ((fst (fst it), ws, snd (fst it)), snd it) :: acc) items m else m) rest
  | OGet i ws k res _ :: rest => get_ok m (i, ws, k) res && satisfies_from views m rest
  | OGetBatch ws items code res _ :: rest =>
      (if code =? 0
       then Nat.eqb (length items) (length res)
            && forallb (fun ir => get_ok m (fst (fst ir), ws, snd (fst ir)) (snd ir)) (combine items res)
       else existsb (fun it => negb (is_some (llookup (fst it, ws, snd it) m))) items)
      && satisfies_from views m rest
  | ORead i ws q code rows _ :: rest =>
      match view_at views i with
      | Some s => read_ok m s i ws q code rows
      | None => false
      end && satisfies_from views m rest
  end.

Definition satisfies (t : trace) : bool := satisfies_from (t_views t) [] (t_ops t).
