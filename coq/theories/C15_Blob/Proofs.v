(* C15 - proofs about the BLOB storage model. *)
From Coq Require Import List NArith ZArith Lia Bool ZifyNat ZifyN ZifyBool.
From V Require Import Lib.Lex Lib.SMap Lib.Check Storage.Spec Gen.Params C15_Blob.Model.
Import ListNotations.
Local Open Scope N_scope.

Lemma filter_all_true {T} (f : T -> bool) l : forallb f l = true -> filter f l = l.
Proof.
  induction l as [|x l IH]; cbn; auto. intros H. apply andb_prop in H. destruct H as [Hx Hl].
  rewrite Hx, IH; auto.
Qed.

(* ---------- partitions under set_row ---------- *)
Section Parts.
Context {V : Type}.

Lemma part_set_row_same (st : store V) pk cc r : part (set_row st pk cc r) pk = sm_put cc r (part st pk).
Proof. unfold part at 1, set_row. rewrite sm_get_put_same. reflexivity. Qed.

Lemma part_set_row_other (st : store V) pk pk' cc r : pk' <> pk -> part (set_row st pk cc r) pk' = part st pk'.
Proof. intros N. unfold part, set_row. rewrite sm_get_put_other by assumption. reflexivity. Qed.

End Parts.

(* ---------- key encodings are injective ---------- *)

Lemma nbytes_length e w n : length (nbytes e w n) = w.
Proof. destruct e; [apply le_bytes_length|apply be_bytes_length]. Qed.

Lemma nbytes_inj e w a b : a < 256 ^ N.of_nat w -> b < 256 ^ N.of_nat w -> nbytes e w a = nbytes e w b -> a = b.
Proof. destruct e; [apply le_bytes_inj|apply be_bytes_inj]. Qed.

Lemma app_inj_length {T} (a b c d : list T) : length a = length c -> a ++ b = c ++ d -> a = c /\ b = d.
Proof.
  revert c; induction a as [|x a IH]; intros [|y c] L E; cbn in *; try discriminate; auto.
  inversion E; subst. destruct (IH c) as [-> ->]; auto.
Qed.

Lemma pkey_inj_bucket k b b' : b < 2 ^ 64 -> b' < 2 ^ 64 -> pkey k b = pkey k b' -> b = b'.
Proof.
  unfold pkey. intros Hb Hb' E. apply app_inv_head in E.
  eapply nbytes_inj; [| |exact E]; assumption.
Qed.

Lemma key_bytes_inj k k' : wf_key k -> wf_key k' -> key_bytes k = key_bytes k' -> k = k'.
Proof.
  destruct k as [a w i|a w s], k' as [a' w' i'|a' w' s']; unfold key_bytes; cbn [wf_key]; intros W W' E.
  - destruct W as (Ha & Hw & Hi), W' as (Ha' & Hw' & Hi').
    apply app_inj_length in E; [|reflexivity]. destruct E as [_ E].
    apply app_inj_length in E; [|rewrite !le_bytes_length; reflexivity]. destruct E as [E1 E].
    apply app_inj_length in E; [|rewrite !le_bytes_length; reflexivity]. destruct E as [E2 E3].
    apply le_bytes_inj in E1; [|assumption..]. apply le_bytes_inj in E2; [|assumption..].
    apply le_bytes_inj in E3; [|assumption..]. congruence.
  - vm_compute in E. discriminate.
  - vm_compute in E. discriminate.
  - destruct W as (Ha & Hw & Hs), W' as (Ha' & Hw' & Hs').
    apply app_inj_length in E; [|reflexivity]. destruct E as [_ E].
    apply app_inj_length in E; [|rewrite !le_bytes_length; reflexivity]. destruct E as [E1 E].
    apply app_inj_length in E; [|rewrite !le_bytes_length; reflexivity]. destruct E as [E2 E3].
    apply le_bytes_inj in E1; [|assumption..]. apply le_bytes_inj in E2; [|assumption..]. congruence.
Qed.

Lemma pkey_inj k k' b b' : wf_key k -> wf_key k' -> b < 2 ^ 64 -> b' < 2 ^ 64 ->
  pkey k b = pkey k' b' -> k = k' /\ b = b'.
Proof.
  intros W W' Hb Hb' E. unfold pkey in E.
  assert (L : length (key_bytes k) = length (key_bytes k')).
  { apply (f_equal (@length N)) in E. rewrite !app_length, !nbytes_length in E. lia. }
  apply app_inj_length in E; [|exact L]. destruct E as [E1 E2].
  split; [apply key_bytes_inj; assumption|eapply nbytes_inj; [| |exact E2]; assumption].
Qed.

(* ---------- layout of one bucket ---------- *)
Section Layout.
Context {A : Type} (aeqb : A -> A -> bool).
Notation chunk := (chunk A).
Notation bval := (bval A).
Notation bstore := (bstore A).

(* rows of chunks cs numbered first, first+1, ... all with expiry e *)
Fixpoint rows_of (e : Z) (first : N) (cs : list chunk) : smap (row bval) :=
  match cs with
  | [] => []
  | c :: r => (ccol_chunk first, mkRow (VChunk c) e) :: rows_of e (first + 1) r
  end.

Lemma rows_of_app e first cs c :
  rows_of e first (cs ++ [c]) = rows_of e first cs ++ [(ccol_chunk (first + N.of_nat (length cs)), mkRow (VChunk c) e)].
Proof.
  revert first; induction cs as [|x cs IH]; intros first; cbn [rows_of app length].
  - rewrite N.add_0_r. reflexivity.
  - rewrite IH. replace (first + 1 + N.of_nat (length cs)) with (first + N.of_nat (S (length cs))) by lia. reflexivity.
Qed.

Hypothesis BE_chunks : blob_chunk_endian = BE.

Lemma ccol_chunk_lt i j : i < j -> j < 2 ^ 64 -> lex_lt (ccol_chunk i) (ccol_chunk j) = true.
Proof.
  intros Hij Hj. unfold ccol_chunk, lex_lt. rewrite BE_chunks. cbn [nbytes].
  rewrite be_bytes_cmp by (change (256 ^ N.of_nat 8) with (2 ^ 64); lia).
  apply N.compare_lt_iff in Hij. rewrite Hij. reflexivity.
Qed.

Lemma rows_of_gt_all e first cs n : first + N.of_nat (length cs) <= n -> n < 2 ^ 64 ->
  gt_all (ccol_chunk n) (rows_of e first cs).
Proof.
  revert first; induction cs as [|x cs IH]; intros first H Hn; cbn [rows_of]; [constructor|].
  cbn [length] in H. constructor.
  - cbn. apply ccol_chunk_lt; lia.
  - apply IH; lia.
Qed.

Definition visible (now : Z) (rows : smap (row bval)) : list (bytes * bval) :=
  map (fun kv => (fst kv, rval (snd kv))) (filter (fun kv => negb (expired now (snd kv))) rows).

Lemma read_all now (st : bstore) pk : read now st pk [] [] = visible now (part st pk).
Proof.
  unfold read, visible, sm_range, hi_of. f_equal. f_equal.
  rewrite (filter_all_true _ (part st pk)); auto.
  apply forallb_forall. intros [k v] _. unfold in_bounds. cbn. rewrite lex_nil_le. reflexivity.
Qed.

Definition alive (now e : Z) : bool := negb ((0 <? e)%Z && (e <=? now)%Z).

Lemma visible_rows_of now e first cs : alive now e = true ->
  visible now (rows_of e first cs) = map (fun kv => (fst kv, rval (snd kv))) (rows_of e first cs).
Proof.
  intros Al. unfold visible. f_equal.
  apply filter_all_true. revert first; induction cs as [|c cs IH]; intros first; cbn; auto.
  rewrite IH. unfold alive in Al. unfold expired. cbn. rewrite Al. reflexivity.
Qed.

Lemma row_chunks_rows_of e first cs :
  row_chunks (map (fun kv : bytes * row bval => (fst kv, rval (snd kv))) (rows_of e first cs)) = cs.
Proof.
  revert first; induction cs as [|c cs IH]; intros first; cbn; auto. f_equal. apply IH.
Qed.

End Layout.

(* ---------- the chunk loop ---------- *)
Section Main.
Context {A : Type} (aeqb : A -> A -> bool).
Notation chunk := (chunk A).
Notation bval := (bval A).
Notation bstore := (bstore A).

Hypothesis BE_chunks : blob_chunk_endian = BE.
Hypothesis bucket_size_pos : 1 <= blob_bucket_size.

Variable k : bkey.
Variable now : Z.
Variable dur : Z.
Variable quota : option N.

(* expiry the inserter gives to a row *)
Definition ins_exp : Z := if is_persistent k then 0%Z else exp_of now (dur * 86400)%Z.

Definition quota_ok (x : N) : Prop := match quota with None => True | Some q => x <= q end.

Lemma sm_get_gt_all {T} (kk : bytes) (m : smap T) : gt_all kk m -> sm_get kk m = None.
Proof.
  induction m as [|[k' v'] r IH]; intros G; cbn; auto.
  inversion G as [|? ? Hh Ht]; subst. cbn in Hh. unfold lex_lt in Hh.
  rewrite (lex_cmp_antisym k' kk). destruct (lex_cmp k' kk); try discriminate. cbn. apply IH; exact Ht.
Qed.

Lemma ins_fresh (st : bstore) pk cc v : raw_lookup st pk cc = None ->
  ins now k dur st pk cc v = (set_row st pk cc (mkRow v ins_exp), true).
Proof.
  intros H. unfold ins, ins_exp. destruct (is_persistent k); [reflexivity|].
  unfold insert_if_not_exists, lookup. rewrite H. reflexivity.
Qed.

Inductive buckets_from (now' : Z) (st : bstore) : N -> list chunk -> Prop :=
| bf_end b : read now' st (pkey k b) [] [] = [] -> buckets_from now' st b []
| bf_next b rows cs : read now' st (pkey k b) [] [] = rows -> rows <> [] -> b + 1 < 2 ^ 64 ->
    buckets_from now' st (b + 1) cs -> buckets_from now' st b (row_chunks rows ++ cs).

Lemma total_len_cons (c : chunk) cs : total_len (c :: cs) = clen c + total_len cs.
Proof. reflexivity. Qed.

Lemma chunk_le_cap (c : chunk) : clen c <= blob_chunk_size -> clen c <= bucket_cap.
Proof. unfold bucket_cap. intros H. nia. Qed.

Lemma read_rows_of now' (st : bstore) pk e first cs : alive now' e = true ->
  part st pk = rows_of e first cs ->
  read now' st pk [] [] = map (fun kv => (fst kv, rval (snd kv))) (rows_of e first cs).
Proof. intros Al P. rewrite read_all, P. apply visible_rows_of. exact Al. Qed.

Lemma write_chunks_spec now' : alive now' ins_exp = true ->
  forall reads (st : bstore) bytesRead chunkNo cur cs_cur,
  Forall (fun c => 1 <= clen c <= blob_chunk_size) reads ->
  1 <= cur -> cur + N.of_nat (length reads) + 1 < 2 ^ 64 ->
  chunkNo + N.of_nat (length reads) < 2 ^ 64 ->
  N.of_nat (length cs_cur) <= chunkNo ->
  part st (pkey k cur) = rows_of ins_exp (chunkNo - N.of_nat (length cs_cur)) cs_cur ->
  (forall b, cur < b -> b < 2 ^ 64 -> part st (pkey k b) = []) ->
  bytesRead <= bucket_cap * cur ->
  (cs_cur = [] -> bytesRead = 0) ->
  quota_ok (bytesRead + total_len reads) ->
  exists st',
    write_chunks now k dur quota st reads bytesRead chunkNo cur = (st', bytesRead + total_len reads, None) /\
    (forall pk, (forall b, cur <= b -> b < 2 ^ 64 -> pk <> pkey k b) -> part st' pk = part st pk) /\
    buckets_from now' st' cur (cs_cur ++ reads).
Proof.
  intros Al. induction reads as [|c rest IH]; intros st bytesRead chunkNo cur cs_cur HF Hcur Hb Hn Hlen HP Habove Hcap Hempty HQ.
  - exists st. cbn [write_chunks total_len fold_right]. rewrite N.add_0_r, app_nil_r.
    split; [reflexivity|]. split; [auto|].
    pose proof (read_rows_of now' st _ _ _ _ Al HP) as HR.
    destruct cs_cur as [|c0 cs0].
    + apply bf_end. rewrite HR. reflexivity.
    + rewrite <- (app_nil_r (c0 :: cs0)). rewrite <- (row_chunks_rows_of ins_exp (chunkNo - N.of_nat (length (c0 :: cs0))) (c0 :: cs0)) at 1.
      eapply bf_next; [exact HR| cbn; discriminate | lia |].
      apply bf_end. rewrite read_all, Habove by (cbn [length] in *; lia). reflexivity.
  - inversion HF as [|? ? Hc HF']; subst. cbn [length] in Hb, Hn.
    cbn [write_chunks].
    assert (HQ1 : over_quota quota (bytesRead + clen c) = false).
    { unfold quota_ok in HQ. unfold over_quota. destruct quota as [q|]; auto.
      rewrite total_len_cons in HQ. apply N.ltb_ge. lia. }
    rewrite HQ1.
    assert (Hfirst : chunkNo - N.of_nat (length cs_cur) + N.of_nat (length cs_cur) = chunkNo) by lia.
    destruct (N.ltb_spec (bucket_cap * cur) (bytesRead + clen c)) as [Hsw|Hns].
    + (* switch to the next bucket *)
      assert (Hne : cs_cur <> []).
      { intros E. specialize (Hempty E). subst bytesRead.
        pose proof (chunk_le_cap c (proj2 Hc)). nia. }
      assert (Hnew : part st (pkey k (cur + 1)) = []) by (apply Habove; lia).
      rewrite ins_fresh by (unfold raw_lookup; rewrite Hnew; reflexivity).
      set (st1 := set_row st (pkey k (cur + 1)) (ccol_chunk chunkNo) (mkRow (VChunk c) ins_exp)).
      assert (Hneq : pkey k cur <> pkey k (cur + 1)).
      { intros E. apply pkey_inj_bucket in E; lia. }
      destruct (IH st1 (bytesRead + clen c) (chunkNo + 1) (cur + 1) [c]) as (st' & Hw & Hfr & Hbf); auto; try lia.
      * cbn [length]. lia.
      * unfold st1. rewrite part_set_row_same, Hnew. cbn [length]. cbn.
        replace (chunkNo + 1 - 1) with chunkNo by lia. reflexivity.
      * intros b Hb1 Hb2. unfold st1. rewrite part_set_row_other.
        -- apply Habove; lia.
        -- intros E. apply pkey_inj_bucket in E; lia.
      * pose proof (chunk_le_cap c (proj2 Hc)). nia.
      * intros E. discriminate.
      * rewrite total_len_cons in HQ. unfold quota_ok in *. destruct quota; auto. lia.
      * exists st'. split; [|split].
        -- rewrite Hw. rewrite total_len_cons. f_equal. f_equal. lia.
        -- intros pk Hpk. rewrite Hfr.
           ++ unfold st1. apply part_set_row_other. apply Hpk; lia.
           ++ intros b Hb1 Hb2. apply Hpk; lia.
        -- assert (HPcur : part st' (pkey k cur) = rows_of ins_exp (chunkNo - N.of_nat (length cs_cur)) cs_cur).
           { rewrite Hfr.
             - unfold st1. rewrite part_set_row_other; auto.
             - intros b Hb1 Hb2 E. apply pkey_inj_bucket in E; lia. }
           pose proof (read_rows_of now' st' _ _ _ _ Al HPcur) as HR.
           rewrite <- (row_chunks_rows_of ins_exp (chunkNo - N.of_nat (length cs_cur)) cs_cur) at 1.
           eapply bf_next; [exact HR| | lia |exact Hbf].
           destruct cs_cur; [contradiction|cbn; discriminate].
    + (* same bucket *)
      assert (HG : gt_all (ccol_chunk chunkNo) (part st (pkey k cur))).
      { rewrite HP. apply rows_of_gt_all; auto; lia. }
      rewrite ins_fresh by (unfold raw_lookup; apply sm_get_gt_all; exact HG).
      set (st1 := set_row st (pkey k cur) (ccol_chunk chunkNo) (mkRow (VChunk c) ins_exp)).
      destruct (IH st1 (bytesRead + clen c) (chunkNo + 1) cur (cs_cur ++ [c])) as (st' & Hw & Hfr & Hbf); auto; try lia.
      * rewrite app_length. cbn [length]. lia.
      * unfold st1. rewrite part_set_row_same, sm_put_gt_all by exact HG.
        rewrite HP, rows_of_app, app_length. cbn [length].
        replace (chunkNo + 1 - N.of_nat (length cs_cur + 1)) with (chunkNo - N.of_nat (length cs_cur)) by lia.
        rewrite Hfirst. reflexivity.
      * intros b Hb1 Hb2. unfold st1. rewrite part_set_row_other.
        -- apply Habove; lia.
        -- intros E. apply pkey_inj_bucket in E; lia.
      * intros E. destruct cs_cur; discriminate.
      * rewrite total_len_cons in HQ. unfold quota_ok in *. destruct quota; auto. lia.
      * exists st'. split; [|split].
        -- rewrite Hw. rewrite total_len_cons. f_equal. f_equal. lia.
        -- intros pk Hpk. rewrite Hfr by assumption.
           unfold st1. apply part_set_row_other. apply Hpk; lia.
        -- rewrite <- app_assoc in Hbf. exact Hbf.
Qed.

(* ---------- from the derivation to the fuelled reader ---------- *)

Lemma sm_get_keys {T} (kk : bytes) (m : smap T) v : sm_get kk m = Some v -> In kk (keys m).
Proof.
  induction m as [|[k' v'] r IH]; cbn; [discriminate|].
  destruct (lex_cmp kk k') eqn:E; intros H; try discriminate.
  - apply lex_cmp_eq in E. auto.
  - right. apply IH. exact H.
Qed.

Lemma part_nonempty_key (st : bstore) pk : part st pk <> [] -> In pk (keys st).
Proof.
  unfold part. destruct (sm_get pk st) eqn:E; [|congruence]. intros _. eapply sm_get_keys; eauto.
Qed.

Lemma read_nonempty_part now' (st : bstore) pk : read now' st pk [] [] <> [] -> part st pk <> [].
Proof. rewrite read_all. intros H E. rewrite E in H. apply H. reflexivity. Qed.

Lemma bf_fuel now' (st : bstore) b cs : buckets_from now' st b cs -> b < 2 ^ 64 ->
  exists pks, NoDup pks /\
    (forall pk, In pk pks -> exists b', b <= b' /\ b' < 2 ^ 64 /\ pk = pkey k b' /\ part st pk <> []) /\
    forall f, (length pks < f)%nat -> read_buckets f now' st k b = Some cs.
Proof.
  induction 1 as [b Hr|b rows cs Hr Hne Hb1 Hbf IH]; intros Hb.
  - exists []. split; [constructor|]. split; [intros pk []|].
    intros f Hf. destruct f; [cbn in Hf; lia|]. cbn [read_buckets]. rewrite Hr. reflexivity.
  - destruct (IH Hb1) as (pks & ND & Hin & Hfuel).
    exists (pkey k b :: pks). split; [|split].
    + constructor; auto. intros Hi. destruct (Hin _ Hi) as (b' & L1 & L2 & E & _).
      apply pkey_inj_bucket in E; lia.
    + intros pk [<-|Hi].
      * exists b. repeat split; try lia. apply read_nonempty_part with (now' := now'). rewrite Hr. exact Hne.
      * destruct (Hin _ Hi) as (b' & L1 & L2 & E & P). exists b'. repeat split; auto; lia.
    + intros f Hf. destruct f; [cbn in Hf; lia|]. cbn [read_buckets]. rewrite Hr.
      destruct rows as [|r0 rows]; [contradiction|].
      rewrite Hfuel by (cbn [length] in Hf; lia). reflexivity.
Qed.

Lemma bf_read now' (st : bstore) cs : buckets_from now' st 1 cs ->
  read_buckets (S (length st)) now' st k 1 = Some cs.
Proof.
  intros H. destruct (bf_fuel _ _ _ _ H) as (pks & ND & Hin & Hfuel); [reflexivity|].
  apply Hfuel.
  assert (L : (length pks <= length (keys st))%nat).
  { apply NoDup_incl_length; auto. intros pk Hi. destruct (Hin _ Hi) as (b' & _ & _ & _ & P).
    apply part_nonempty_key. exact P. }
  unfold keys in L. rewrite map_length in L. lia.
Qed.

Lemma buckets_from_ext now' (st st' : bstore) b cs :
  (forall b', b <= b' -> b' < 2 ^ 64 -> part st' (pkey k b') = part st (pkey k b')) ->
  b < 2 ^ 64 -> buckets_from now' st b cs -> buckets_from now' st' b cs.
Proof.
  intros Hext Hb H. revert Hext Hb. induction H as [b Hr|b rows cs Hr Hne Hb1 Hbf IH]; intros Hext Hb.
  - apply bf_end. rewrite read_all in *. rewrite Hext by lia. exact Hr.
  - eapply bf_next; eauto.
    + rewrite read_all in *. rewrite Hext by lia. exact Hr.
    + apply IH; auto. intros b' L1 L2. apply Hext; lia.
Qed.

End Main.

(* ---------- whole-BLOB theorems ---------- *)
Section Top.
Context {A : Type} (aeqb : A -> A -> bool).
Hypothesis aeqb_refl : forall a, aeqb a a = true.
Notation chunk := (chunk A).
Notation bval := (bval A).
Notation bstore := (bstore A).

Lemma bstate_eqb_refl s : bstate_eqb s s = true.
Proof.
  unfold bstate_eqb. rewrite !N.eqb_refl, Z.eqb_refl, Bool.eqb_reflx.
  destruct (bs_status s); reflexivity.
Qed.

Lemma bval_eqb_refl (v : bval) : bval_eqb aeqb v v = true.
Proof. destruct v; cbn; [apply bstate_eqb_refl|rewrite N.eqb_refl, aeqb_refl; reflexivity]. Qed.

Lemma alive_at_write k now dur : alive now (ins_exp k now dur) = true.
Proof.
  unfold alive, ins_exp, exp_of. destruct (is_persistent k); [reflexivity|].
  destruct (Z.ltb_spec 0 (dur * 86400)%Z); [|reflexivity].
  apply negb_true_iff, andb_false_iff. right. apply Z.leb_gt. lia.
Qed.

Lemma alive_lookup now' (st : bstore) pk cc (v : bval) e :
  alive now' e = true -> raw_lookup st pk cc = Some (mkRow v e) -> lookup now' st pk cc = Some (mkRow v e).
Proof.
  intros Al H. unfold lookup. rewrite H. unfold expired. cbn. unfold alive in Al.
  apply negb_true_iff in Al. rewrite Al. reflexivity.
Qed.

(* the updater of the state row succeeds when the row inserted by this write is still there *)
Lemma upd_ok k now dur (st : bstore) pk cc (s0 s1 : bval) :
  raw_lookup st pk cc = Some (mkRow s0 (ins_exp k now dur)) ->
  upd aeqb now k dur st pk cc s0 s1 = (set_row st pk cc (mkRow s1 (ins_exp k now dur)), true).
Proof.
  intros H. unfold upd, ins_exp in *. destruct (is_persistent k); [reflexivity|].
  unfold compare_and_swap.
  rewrite (alive_lookup now st pk cc s0 _ (alive_at_write (KTemp 0 0 []) now dur) H).
  cbn [rval]. rewrite bval_eqb_refl. reflexivity.
Qed.

Definition fresh_key (st : bstore) (k : bkey) : Prop := forall b, b < 2 ^ 64 -> part st (pkey k b) = [].

Lemma raw_lookup_set_same (st : bstore) pk cc r : raw_lookup (set_row st pk cc r) pk cc = Some r.
Proof. unfold raw_lookup. rewrite part_set_row_same. apply sm_get_put_same. Qed.

Theorem read_write_id_proved :
  blob_chunk_endian = BE -> 1 <= blob_bucket_size ->
  forall (st : bstore) k now now' descr dur quota reads,
  fresh_key st k ->
  Forall (fun c : chunk => 1 <= clen c <= blob_chunk_size) reads ->
  N.of_nat (length reads) + 3 < 2 ^ 64 ->
  quota_ok quota (total_len reads) ->
  alive now' (ins_exp k now dur) = true ->
  exists st',
    write_blob aeqb now st k descr dur quota reads EndEOF = (st', WOk (total_len reads)) /\
    read_blob now' st' k = ROk (mkState descr (total_len reads) StCompleted false dur) reads.
Proof.
  intros HBE BS st k now now' descr dur quota reads Hfresh HF Hlen HQ Al.
  unfold write_blob.
  set (s0 := mkState descr 0 StInProcess false dur).
  rewrite (ins_fresh k now dur st (pkey k 0) ccol_state (VState s0))
    by (unfold raw_lookup; rewrite Hfresh by reflexivity; reflexivity).
  cbn [negb].
  set (st1 := set_row st (pkey k 0) ccol_state (mkRow (VState s0) (ins_exp k now dur))).
  assert (N01 : forall b, 1 <= b -> b < 2 ^ 64 -> pkey k b <> pkey k 0).
  { intros b L1 L2 E. apply pkey_inj_bucket in E; try lia. }
  destruct (write_chunks_spec HBE BS k now dur quota now' Al reads st1 0 0 1 []) as (st2 & Hw & Hfr & Hbf); auto; try (cbn [length]; lia).
  - cbn [length]. unfold st1. rewrite part_set_row_other by (apply N01; lia). rewrite Hfresh by reflexivity. reflexivity.
  - intros b L1 L2. unfold st1. rewrite part_set_row_other by (apply N01; lia). apply Hfresh; exact L2.
  - rewrite Hw. rewrite N.add_0_l.
    set (s1 := mkState descr (total_len reads) StCompleted false dur).
    assert (HP0 : part st2 (pkey k 0) = part st1 (pkey k 0)).
    { apply Hfr. intros b L1 L2 E. symmetry in E. revert E. apply N01; lia. }
    rewrite (upd_ok k now dur st2 (pkey k 0) ccol_state (VState s0) (VState s1)).
    2:{ unfold raw_lookup. rewrite HP0. unfold st1. rewrite part_set_row_same. apply sm_get_put_same. }
    eexists. split; [reflexivity|].
    set (st3 := set_row st2 (pkey k 0) ccol_state (mkRow (VState s1) (ins_exp k now dur))).
    unfold read_blob, read_blob_gen, query_state, get.
    rewrite (alive_lookup now' st3 (pkey k 0) ccol_state (VState s1) _ Al) by apply raw_lookup_set_same.
    cbn [option_map rval bs_err s1].
    assert (HB3 : buckets_from k now' st3 1 reads).
    { eapply buckets_from_ext; [exact BS| |reflexivity|exact Hbf].
      intros b L1 L2. unfold st3. apply part_set_row_other. apply N01; lia. }
    erewrite bf_read; [|exact BS|exact HB3].
    cbn [bs_size s1]. rewrite N.eqb_refl. reflexivity.
Qed.

(* ---- frame: a write only touches the partitions of its own key ---- *)

Lemma ins_frame k now dur (st st' : bstore) pk cc v ok pk' :
  ins now k dur st pk cc v = (st', ok) -> pk' <> pk -> part st' pk' = part st pk'.
Proof.
  unfold ins, put, insert_if_not_exists. destruct (is_persistent k).
  - intros E N. inversion E; subst. apply part_set_row_other. exact N.
  - destruct (lookup now st pk cc); intros E N; inversion E; subst; auto. apply part_set_row_other. exact N.
Qed.

Lemma upd_frame k now dur (st st' : bstore) pk cc v0 v ok pk' :
  upd aeqb now k dur st pk cc v0 v = (st', ok) -> pk' <> pk -> part st' pk' = part st pk'.
Proof.
  unfold upd, put, compare_and_swap. destruct (is_persistent k).
  - intros E N. inversion E; subst. apply part_set_row_other. exact N.
  - destruct (lookup now st pk cc) as [r|]; [destruct (bval_eqb aeqb (rval r) v0)|]; intros E N; inversion E; subst; auto.
    apply part_set_row_other. exact N.
Qed.

Lemma write_chunks_frame k now dur quota reads : forall (st st' : bstore) bytesRead chunkNo cur sz err pk,
  write_chunks now k dur quota st reads bytesRead chunkNo cur = (st', sz, err) ->
  (forall b, cur <= b <= cur + N.of_nat (length reads) -> pk <> pkey k b) ->
  part st' pk = part st pk.
Proof.
  induction reads as [|c rest IH]; intros st st' bytesRead chunkNo cur sz err pk H Hpk.
  - cbn in H. inversion H; subst. reflexivity.
  - cbn [write_chunks] in H. destruct (over_quota quota (bytesRead + clen c)).
    + inversion H; subst. reflexivity.
    + set (b' := if bucket_cap * cur <? bytesRead + clen c then cur + 1 else cur) in *.
      assert (Hb' : cur <= b' <= cur + 1) by (unfold b'; destruct (_ <? _); lia).
      destruct (ins now k dur st (pkey k b') (ccol_chunk chunkNo) (VChunk c)) as [st1 ok] eqn:Ei.
      assert (P1 : part st1 pk = part st pk).
      { eapply ins_frame; eauto. apply Hpk. cbn [length]. lia. }
      destruct ok.
      * rewrite <- P1. eapply IH; eauto. intros b Lb. apply Hpk. cbn [length]. lia.
      * inversion H; subst. exact P1.
Qed.

Theorem write_frame_proved : forall (st st' : bstore) k now descr dur quota reads e r pk,
  write_blob aeqb now st k descr dur quota reads e = (st', r) ->
  (forall b, b <= N.of_nat (length reads) + 1 -> pk <> pkey k b) ->
  part st' pk = part st pk.
Proof.
  intros st st' k now descr dur quota reads e r pk H Hpk. unfold write_blob in H.
  destruct (ins now k dur st (pkey k 0) ccol_state _) as [st1 ok1] eqn:E1.
  assert (P1 : part st1 pk = part st pk) by (eapply ins_frame; eauto; apply Hpk; lia).
  destruct ok1; cbn [negb] in H; [|inversion H; subst; exact P1].
  destruct (write_chunks now k dur quota st1 reads 0 0 1) as [[st2 sz] err] eqn:E2.
  assert (P2 : part st2 pk = part st1 pk).
  { eapply write_chunks_frame; eauto. intros b Lb. apply Hpk. lia. }
  destruct (upd aeqb now k dur st2 (pkey k 0) ccol_state _ _) as [st3 ok3] eqn:E3.
  assert (P3 : part st3 pk = part st2 pk) by (eapply upd_frame; eauto; apply Hpk; lia).
  assert (st' = st3).
  { destruct err as [x|]; [inversion H; auto|]. destruct e; try (inversion H; auto; fail).
    destruct ok3; inversion H; auto. }
  subst st'. congruence.
Qed.

(* different keys never share a partition *)
Theorem key_isolation_proved : forall (st st' : bstore) k k' now descr dur quota reads e r b',
  wf_key k -> wf_key k' -> k <> k' -> b' < 2 ^ 64 -> N.of_nat (length reads) + 1 < 2 ^ 64 ->
  write_blob aeqb now st k descr dur quota reads e = (st', r) ->
  part st' (pkey k' b') = part st (pkey k' b').
Proof.
  intros st st' k k' now descr dur quota reads e r b' W W' NE Hb' Hlen H.
  eapply write_frame_proved; eauto. intros b Lb E.
  apply pkey_inj in E; auto; try lia. destruct E as [E _]. congruence.
Qed.

(* ---- a refused or interrupted write is never readable as a complete BLOB ---- *)

Definition failed_midway (r : wres) : Prop :=
  match r with WFail _ WQuota | WFail _ WReader | WFail _ WCancel | WFail _ WInsert => True | _ => False end.

Theorem interrupted_not_complete_proved : forall (st st' : bstore) k now now' descr dur quota reads e r,
  N.of_nat (length reads) + 1 < 2 ^ 64 ->
  write_blob aeqb now st k descr dur quota reads e = (st', r) ->
  failed_midway r ->
  exists err, read_blob now' st' k = RFail err.
Proof.
  intros st st' k now now' descr dur quota reads e r Hlen H Hf. unfold write_blob in H.
  set (s0 := mkState descr 0 StInProcess false dur) in *.
  destruct (ins now k dur st (pkey k 0) ccol_state (VState s0)) as [st1 ok1] eqn:E1.
  destruct ok1; cbn [negb] in H; [|inversion H; subst; contradiction].
  (* the inserted state row *)
  assert (R1 : raw_lookup st1 (pkey k 0) ccol_state = Some (mkRow (VState s0) (ins_exp k now dur))).
  { unfold ins, ins_exp, put, insert_if_not_exists in *. destruct (is_persistent k).
    - inversion E1; subst. apply raw_lookup_set_same.
    - destruct (lookup now st (pkey k 0) ccol_state); inversion E1; subst. apply raw_lookup_set_same. }
  destruct (write_chunks now k dur quota st1 reads 0 0 1) as [[st2 sz] err] eqn:E2.
  assert (P2 : part st2 (pkey k 0) = part st1 (pkey k 0)).
  { eapply write_chunks_frame; eauto. intros b Lb E. apply pkey_inj_bucket in E; lia. }
  set (err' := match err with Some x => Some x | None => match e with EndEOF => None | EndErr => Some WReader | EndCancel => Some WCancel end end) in *.
  destruct err' as [x|] eqn:Ee.
  - set (s1 := mkState descr sz StUnknown true dur) in *.
    rewrite (upd_ok k now dur st2 (pkey k 0) ccol_state (VState s0) (VState s1)) in H
      by (unfold raw_lookup in *; rewrite P2; exact R1).
    inversion H; subst st' r. clear H.
    unfold read_blob, read_blob_gen, query_state, get, lookup. rewrite raw_lookup_set_same.
    destruct (expired now' _); cbn [option_map rval].
    + destruct (read now' _ (pkey k 1) [] []); eexists; reflexivity.
    + cbn. eexists; reflexivity.
  - destruct (upd aeqb now k dur st2 (pkey k 0) ccol_state _ _) as [st3 ok3].
    destruct ok3; inversion H; subst; contradiction.
Qed.

End Top.
