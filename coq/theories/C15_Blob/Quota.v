(* C15 - the size quota is enforced on the whole stream, whatever the chunking. *)
From Coq Require Import List NArith ZArith Lia Bool.
From V Require Import Lib.Lex Lib.SMap Lib.Check Storage.Spec Gen.Params C15_Blob.Model.
Import ListNotations.
Local Open Scope N_scope.

Section Quota.
Context {A : Type} (aeqb : A -> A -> bool).

Definition within (quota : option N) (x : N) : Prop := match quota with None => True | Some q => x <= q end.

(* a chunk loop that ends without an error consumed every Read() result and never went over the quota *)
Lemma write_chunks_ok_within now k dur quota : forall reads (st st' : bstore A) bytesRead chunkNo bucket sz,
  write_chunks now k dur quota st reads bytesRead chunkNo bucket = (st', sz, None) ->
  sz = bytesRead + total_len reads /\ (within quota bytesRead -> within quota sz).
Proof.
  induction reads as [|c rest IH]; intros st st' bytesRead chunkNo bucket sz H; cbn [write_chunks] in H.
  - inversion H; subst. cbn. split; [lia|auto].
  - destruct (over_quota quota (bytesRead + clen c)) eqn:Eq; [discriminate|].
    destruct (ins now k dur st _ _ _) as [st1 ok] eqn:Ei. destruct ok; [|discriminate].
    apply IH in H. destruct H as [Hs Hw]. split.
    + rewrite Hs. cbn [total_len fold_right]. fold (total_len rest). lia.
    + intros _. apply Hw. unfold over_quota in Eq. unfold within. destruct quota as [q|]; auto.
      apply N.ltb_ge in Eq. exact Eq.
Qed.

(* a write that reports success stored exactly the bytes the reader delivered, and their number is
   within the quota: an over-quota stream is never accepted, however it is cut into Read() results *)
Theorem ok_write_is_within_quota_proved : forall (st st' : bstore A) k now descr dur quota reads e sz,
  write_blob aeqb now st k descr dur quota reads e = (st', WOk sz) ->
  sz = total_len reads /\ within quota sz /\ e = EndEOF.
Proof.
  intros st st' k now descr dur quota reads e sz H. unfold write_blob in H.
  destruct (ins now k dur st (pkey k 0) ccol_state _) as [st1 ok] eqn:E1.
  destruct ok; cbn [negb] in H; [|inversion H].
  destruct (write_chunks now k dur quota st1 reads 0 0 1) as [[st2 size] err] eqn:Ew.
  destruct err as [x|].
  - destruct (upd _ _ _ _ _ _ _ _ _) as [st3 ok3]. inversion H.
  - destruct e; destruct (upd _ _ _ _ _ _ _ _ _) as [st3 ok3]; try (inversion H; fail).
    destruct ok3; inversion H; subst.
    apply write_chunks_ok_within in Ew. destruct Ew as [Hs Hw]. rewrite N.add_0_l in Hs. split; [exact Hs|split; [|reflexivity]].
    apply Hw. unfold within. destruct quota; auto. lia.
Qed.

End Quota.
