(* C15 - model of pkg/iblobstoragestg (writeBLOB / ReadBLOB / QueryBLOBState) over the
   reference storage.  Polymorphic in the chunk payload [A]: the storage never splits or
   merges a Read() result, each becomes exactly one row, so everything below holds for
   every payload type; the correspondence check instantiates A with (length, digest).
   Definitions only. *)
From Coq Require Import List NArith ZArith Lia Bool.
From V Require Import Lib.Lex Lib.SMap Lib.Check Storage.Spec Gen.Params.
Import ListNotations.
Local Open Scope N_scope.

Definition nbytes (e : endian) (w : nat) (n : N) : bytes :=
  match e with LE => le_bytes w n | BE => be_bytes w n end.

Inductive bkey :=
| KPersistent (app ws id : N)
| KTemp (app ws : N) (suuid : bytes).

(* iblobstorage: PersistentBLOBKeyType.Bytes / TempBLOBKeyType.Bytes *)
Definition key_bytes (k : bkey) : bytes :=
  match k with
  | KPersistent app ws id => le_bytes 8 1 ++ le_bytes 4 app ++ le_bytes 8 ws ++ le_bytes 8 id
  | KTemp app ws s => le_bytes 8 2 ++ le_bytes 4 app ++ le_bytes 8 ws ++ s
  end.

Definition is_persistent (k : bkey) : bool := match k with KPersistent _ _ _ => true | _ => false end.

Definition wf_key (k : bkey) : Prop :=
  match k with
  | KPersistent app ws id => app < 2 ^ 32 /\ ws < 2 ^ 64 /\ id < 2 ^ 64
  | KTemp app ws s => app < 2 ^ 32 /\ ws < 2 ^ 64 /\ wf s
  end.

(* newKeyWithBucketNumber / mutateBucketNumber *)
Definition pkey (k : bkey) (bucket : N) : bytes := key_bytes k ++ nbytes blob_bucket_endian 8 bucket.
Definition ccol_state : bytes := repeat 0 8.
(* mutateChunkNumber *)
Definition ccol_chunk (n : N) : bytes := nbytes blob_chunk_endian 8 n.

Definition bucket_cap : N := blob_chunk_size * blob_bucket_size.

Inductive status := StUnknown | StInProcess | StCompleted.
Definition status_eqb (a b : status) : bool :=
  match a, b with StUnknown, StUnknown | StInProcess, StInProcess | StCompleted, StCompleted => true | _, _ => false end.

(* the observable projection of iblobstorage.BLOBState (timestamps are not modelled) *)
Record bstate := mkState { bs_descr : N; bs_size : N; bs_status : status; bs_err : bool; bs_dur : Z }.

Definition bstate_eqb (a b : bstate) : bool :=
  (bs_descr a =? bs_descr b) && (bs_size a =? bs_size b) && status_eqb (bs_status a) (bs_status b)
  && Bool.eqb (bs_err a) (bs_err b) && (bs_dur a =? bs_dur b)%Z.

Section Blob.
Context {A : Type} (aeqb : A -> A -> bool).

Record chunk := mkChunk { clen : N; ctag : A }.

Inductive bval := VState (s : bstate) | VChunk (c : chunk).

Definition bval_eqb (a b : bval) : bool :=
  match a, b with
  | VState x, VState y => bstate_eqb x y
  | VChunk x, VChunk y => (clen x =? clen y) && aeqb (ctag x) (ctag y)
  | _, _ => false
  end.

Definition bstore := store bval.

(* how the reader's stream ends *)
Inductive ending := EndEOF | EndErr | EndCancel.
Inductive werr := WQuota | WInsert | WReader | WCancel | WState.
Inductive wres := WOk (size : N) | WFail (size : N) (e : werr).

(* inserter: Put for persistent BLOBs, InsertIfNotExists(ttl) for temporary ones *)
Definition ins (now : Z) (k : bkey) (dur : Z) (st : bstore) (pk cc : bytes) (v : bval) : bstore * bool :=
  if is_persistent k then (put st pk cc v, true)
  else insert_if_not_exists now st pk cc v (dur * 86400)%Z.

(* updater: Put / CompareAndSwap(old) *)
Definition upd (now : Z) (k : bkey) (dur : Z) (st : bstore) (pk cc : bytes) (old v : bval) : bstore * bool :=
  if is_persistent k then (put st pk cc v, true)
  else compare_and_swap bval_eqb now st pk cc old v (dur * 86400)%Z.

Definition over_quota (quota : option N) (uploaded : N) : bool :=
  match quota with Some q => q <? uploaded | None => false end.

(* the chunk loop of writeBLOB: one storage row per Read() result *)
Fixpoint write_chunks (now : Z) (k : bkey) (dur : Z) (quota : option N) (st : bstore)
         (reads : list chunk) (bytesRead chunkNo bucket : N) : bstore * N * option werr :=
  match reads with
  | [] => (st, bytesRead, None)
  | c :: rest =>
      let bytesRead' := bytesRead + clen c in
      if over_quota quota bytesRead' then (st, bytesRead', Some WQuota)
      else
        let bucket' := if bucket_cap * bucket <? bytesRead' then bucket + 1 else bucket in
        let '(st', ok) := ins now k dur st (pkey k bucket') (ccol_chunk chunkNo) (VChunk c) in
        if ok then write_chunks now k dur quota st' rest bytesRead' (chunkNo + 1) bucket'
        else (st', bytesRead', Some WInsert)
  end.

Definition write_blob (now : Z) (st : bstore) (k : bkey) (descr : N) (dur : Z) (quota : option N)
           (reads : list chunk) (e : ending) : bstore * wres :=
  let s0 := mkState descr 0 StInProcess false dur in
  let '(st1, ok) := ins now k dur st (pkey k 0) ccol_state (VState s0) in
  if negb ok then (st1, WFail 0 WState)
  else
    let '(st2, size, err) := write_chunks now k dur quota st1 reads 0 0 1 in
    let err' := match err with
                | Some x => Some x
                | None => match e with EndEOF => None | EndErr => Some WReader | EndCancel => Some WCancel end
                end in
    let s1 := match err' with
              | None => mkState descr size StCompleted false dur
              | Some _ => mkState descr size StUnknown true dur
              end in
    let '(st3, ok3) := upd now k dur st2 (pkey k 0) ccol_state (VState s0) (VState s1) in
    match err' with
    | Some x => (st3, WFail size x)
    | None => if ok3 then (st3, WOk size) else (st3, WFail 0 WState)
    end.

(* a write whose process dies (or whose storage stops answering) after its first [ncalls] storage
   calls: the state row first, then one call per chunk; nothing records how the write ended *)
Definition write_crashed (now : Z) (st : bstore) (k : bkey) (descr : N) (dur : Z) (quota : option N)
           (reads : list chunk) (ncalls : nat) : bstore :=
  match ncalls with
  | O => st
  | S m =>
      let s0 := mkState descr 0 StInProcess false dur in
      let '(st1, ok) := ins now k dur st (pkey k 0) ccol_state (VState s0) in
      if negb ok then st1
      else let '(st2, _, _) := write_chunks now k dur quota st1 (firstn m reads) 0 0 1 in st2
  end.

(* ---- reading ---- *)

Inductive rerr := RNotFound | RCorrupted | RFuel.
Inductive rres := ROk (s : bstate) (rows : list chunk) | RFail (e : rerr).

Definition query_state (now : Z) (st : bstore) (k : bkey) : option bstate :=
  match get now st (pkey k 0) ccol_state with
  | Some (VState s) => Some s
  | _ => None
  end.

Definition row_chunks (rows : list (bytes * bval)) : list chunk :=
  flat_map (fun kv => match snd kv with VChunk c => [c] | VState _ => [] end) rows.

(* buckets 1,2,... in storage order until the first empty one *)
Fixpoint read_buckets (fuel : nat) (now : Z) (st : bstore) (k : bkey) (b : N) : option (list chunk) :=
  match fuel with
  | O => None
  | S f =>
      match read now st (pkey k b) [] [] with
      | [] => Some []
      | rows => option_map (app (row_chunks rows)) (read_buckets f now st k (b + 1))
      end
  end.

Definition total_len (cs : list chunk) : N := fold_right (fun c acc => clen c + acc) 0 cs.

Definition read_blob_gen (req : bool) (now : Z) (st : bstore) (k : bkey) : rres :=
  let so := query_state now st k in
  match so with
  | Some s => if bs_err s then RFail RCorrupted else
      (* a BLOB whose write has not recorded its end (still going on, or its process died) *)
      if req && negb (status_eqb (bs_status s) StCompleted) then RFail RCorrupted else
      match read_buckets (S (length st)) now st k 1 with
      | None => RFail RFuel
      | Some cs => if total_len cs =? bs_size s then ROk s cs else RFail RCorrupted
      end
  | None =>
      (* state missing: any data row makes the BLOB corrupted, none makes it not found *)
      match read now st (pkey k 1) [] [] with
      | [] => RFail RNotFound
      | _ => RFail RCorrupted
      end
  end.

Definition read_blob := read_blob_gen blob_read_requires_completed.

End Blob.

Arguments chunk : clear implicits.
Arguments bval : clear implicits.
Arguments bstore : clear implicits.
Arguments mkChunk {A}.

(* ================= trace checking (correspondence + oracle) ================= *)

(* payload tag used by the harness: a digest of the chunk's bytes *)
Definition tchunk := chunk N.
Definition teqb := N.eqb.

(* storage calls observed by the recording IAppStorage wrapper *)
Inductive scall :=
| SPut (pk cc : bytes) (len : N)
| SIns (pk cc : bytes) (len : N) (ttl : Z)
| SCas (pk cc : bytes) (ttl : Z).

Definition scall_eqb (a b : scall) : bool :=
  match a, b with
  | SPut p c l, SPut p' c' l' => lex_eqb p p' && lex_eqb c c' && (l =? l')
  | SIns p c l t, SIns p' c' l' t' => lex_eqb p p' && lex_eqb c c' && (l =? l') && (t =? t')%Z
  | SCas p c t, SCas p' c' t' => lex_eqb p p' && lex_eqb c c' && (t =? t')%Z
  | _, _ => false
  end.

Definition chunk_eqb (a b : tchunk) : bool := (clen a =? clen b) && (ctag a =? ctag b).

(* observed write outcome: 0 ok, 1 quota, 2 insert/state refused, 3 reader error, 4 cancelled *)
Record wobs := mkWobs { wo_code : N; wo_size : N }.
(* observed read outcome: 0 ok, 1 not found, 2 corrupted, 9 other *)
Record robs := mkRobs { ro_code : N; ro_size : N; ro_status : N; ro_haserr : bool; ro_descr : N;
                        ro_rows : list tchunk; ro_len : N; ro_digest : N }.

(* one scenario on a fresh storage: a sequence of writes (possibly to several keys, possibly
   the same key twice) with clock positions, each followed by reads of some keys *)
Inductive bop :=
| BWrite (now : Z) (k : bkey) (descr : N) (dur : Z) (quota : option N) (reads : list tchunk) (e : ending)
         (wlen wdigest : N) (calls : list scall) (res : wobs)
| BRead (now : Z) (k : bkey) (res : robs)
(* a write on a key not written before whose storage calls stop taking effect after the first [ncalls] *)
| BCrash (now : Z) (k : bkey) (descr : N) (dur : Z) (quota : option N) (reads : list tchunk) (ncalls : nat).

Definition trace := list bop.

Definition wcode (r : wres) : wobs :=
  match r with
  | WOk s => mkWobs 0 s
  | WFail s WQuota => mkWobs 1 s
  | WFail s WInsert => mkWobs 2 s
  | WFail s WState => mkWobs 2 s
  | WFail s WReader => mkWobs 3 s
  | WFail s WCancel => mkWobs 4 s
  end.

Definition status_code (s : status) : N := match s with StUnknown => 0 | StInProcess => 1 | StCompleted => 2 end.

(* expected storage calls of one write, derived from the model's own run *)
Fixpoint chunk_calls (k : bkey) (dur : Z) (quota : option N) (reads : list tchunk) (bytesRead chunkNo bucket : N)
  : list scall :=
  match reads with
  | [] => []
  | c :: rest =>
      let bytesRead' := bytesRead + clen c in
      if over_quota quota bytesRead' then []
      else
        let bucket' := if bucket_cap * bucket <? bytesRead' then bucket + 1 else bucket in
        (if is_persistent k then SPut (pkey k bucket') (ccol_chunk chunkNo) (clen c)
         else SIns (pkey k bucket') (ccol_chunk chunkNo) (clen c) (dur * 86400)%Z)
        :: chunk_calls k dur quota rest bytesRead' (chunkNo + 1) bucket'
  end.

(* the state rows are JSON of varying length: their length is not compared (0 = wildcard) *)
Definition scall_match (model obs : scall) : bool :=
  match model, obs with
  | SPut p c 0, SPut p' c' _ => lex_eqb p p' && lex_eqb c c'
  | SIns p c 0 t, SIns p' c' _ t' => lex_eqb p p' && lex_eqb c c' && (t =? t')%Z
  | _, _ => scall_eqb model obs
  end.

Definition robs_of (r : rres (A:=N)) : N * list tchunk * N * N * bool * N :=
  match r with
  | ROk s rows => (0, rows, bs_size s, status_code (bs_status s), bs_err s, bs_descr s)
  | RFail RNotFound => (1, [], 0, 0, false, 0)
  | RFail RCorrupted => (2, [], 0, 0, false, 0)
  | RFail RFuel => (9, [], 0, 0, false, 0)
  end.

(* agrees: replay on the model, compare every observable (and the storage calls of writes,
   as far as they were successful in the model: after a refused insert the model stops) *)
Fixpoint agrees_from (st : bstore N) (t : trace) : bool :=
  match t with
  | [] => true
  | BWrite now k descr dur quota reads e _ _ calls res :: rest =>
      let '(st', r) := write_blob teqb now st k descr dur quota reads e in
      let w := wcode r in
      let code_ok := (wo_code w =? wo_code res) && (wo_size w =? wo_size res) in
      let calls_ok :=
        if (wo_code w =? 2) then true
        else
          let st_call := if is_persistent k then SPut (pkey k 0) ccol_state 0 else SIns (pkey k 0) ccol_state 0 (dur * 86400)%Z in
          let fin_call := if is_persistent k then SPut (pkey k 0) ccol_state 0 else SCas (pkey k 0) ccol_state (dur * 86400)%Z in
          list_eqb scall_match (st_call :: chunk_calls k dur quota reads 0 0 1 ++ [fin_call]) calls in
      code_ok && calls_ok && agrees_from st' rest
  | BCrash now k descr dur quota reads n :: rest =>
      agrees_from (write_crashed now st k descr dur quota reads n) rest
  | BRead now k res :: rest =>
      let '(code, rows, size, stc, haserr, descr) := robs_of (read_blob now st k) in
      (* a temporary BLOB whose rows expired: backends differ in whether the plain range read
         still shows the expired chunk rows (interface note), so "corrupted" vs "not found" is
         not compared for temporary keys; both are failures *)
      ((code =? ro_code res) || (negb (is_persistent k) && negb (code =? 0) && negb (ro_code res =? 0)))
      && (if code =? 0 then list_eqb chunk_eqb rows (ro_rows res) && (size =? ro_size res)
                            && (stc =? ro_status res) && Bool.eqb haserr (ro_haserr res) && (descr =? ro_descr res)
          else true)
      && agrees_from st rest
  end.

Definition agrees (t : trace) : bool := agrees_from [] t.

(* satisfies: the property itself, judged on observed outputs only (no model run).
   - a read that follows a successful write of the same key (the latest write of that key)
     while the BLOB has not expired must succeed with the written size, descriptor and
     content (length + digest of the whole stream);
   - if the latest write of the key was refused (quota) or interrupted, a read must not
     succeed;
   - a read of a key never written must report "not found";
   - a write reported as successful is complete and within its quota (write_ok_for). *)
Definition bkey_eqb (a b : bkey) : bool :=
  match a, b with
  | KPersistent x y z, KPersistent x' y' z' => (x =? x') && (y =? y') && (z =? z')
  | KTemp x y s, KTemp x' y' s' => (x =? x') && (y =? y') && lex_eqb s s'
  | _, _ => false
  end.

(* latest write to key k in the (reversed) history *)
Fixpoint last_write (k : bkey) (hist : list bop) : option bop :=
  match hist with
  | [] => None
  | (BWrite _ k' _ _ _ _ _ _ _ _ _ as w) :: rest => if bkey_eqb k k' then Some w else last_write k rest
  | (BCrash _ k' _ _ _ _ _ as w) :: rest => if bkey_eqb k k' then Some w else last_write k rest
  | _ :: rest => last_write k rest
  end.

(* number of writes to k in the history: with more than one write to a temporary key the
   second is refused while the first is alive; the oracle only judges single-writer keys or
   keys whose latest write was admitted with code 0 after all earlier ones *)
Definition read_ok_for (w : bop) (now : Z) (res : robs) : bool :=
  match w with
  | BWrite wnow k descr dur _ _ _ wlen wdig _ wres =>
      let alive := orb (is_persistent k) (now <? wnow + dur * 86400 * 1000)%Z in
      if wo_code wres =? 0 then
        if alive then (ro_code res =? 0) && (ro_size res =? wlen) && (ro_len res =? wlen)
                      && (ro_digest res =? wdig) && (ro_descr res =? descr) && (ro_status res =? 2)
        else negb (ro_code res =? 0)
      else if wo_code wres =? 2 then true  (* write refused at the state row: earlier BLOB stays *)
      else negb (ro_code res =? 0)
  | BCrash _ _ _ _ _ _ ncalls =>
      (* nothing records how the write ended: whatever it left must not read back as a BLOB *)
      match ncalls with O => ro_code res =? 1 | _ => negb (ro_code res =? 0) end
  | _ => true
  end.

(* a write reported as successful stored the whole stream the reader delivered, the stream ended
   normally, and its length is within the quota - whatever the chunking (a quota applied to the
   chunks one by one would accept an over-quota BLOB) *)
Definition write_ok_for (w : bop) : bool :=
  match w with
  | BWrite _ _ _ _ quota reads e _ _ _ res =>
      if wo_code res =? 0 then
        (match quota with Some q => total_len reads <=? q | None => true end)
        && (wo_size res =? total_len reads)
        && (match e with EndEOF => true | _ => false end)
      else true
  | _ => true
  end.

Fixpoint satisfies_from (hist : list bop) (t : trace) : bool :=
  match t with
  | [] => true
  | (BWrite _ _ _ _ _ _ _ _ _ _ res as w) :: rest =>
      write_ok_for w &&
      satisfies_from (if wo_code res =? 2 then hist else w :: hist) rest
  | (BCrash _ k _ _ _ _ _ as w) :: rest =>
      (* judged only on keys not written before (the generator crashes first writes only) *)
      satisfies_from (match last_write k hist with None => w :: hist | Some _ => hist end) rest
  | (BRead now k res as r) :: rest =>
      (match last_write k hist with
       | Some w => read_ok_for w now res
       | None => ro_code res =? 1
       end) && satisfies_from hist rest
  end.

Definition satisfies (t : trace) : bool := satisfies_from [] t.
