(* C15 - a write whose process dies after any number of its storage calls is never readable as a BLOB. *)
From Coq Require Import List NArith ZArith Lia Bool.
From V Require Import Lib.Lex Lib.SMap Lib.Check Storage.Spec Storage.SpecLaws Gen.Params C15_Blob.Model C15_Blob.Proofs.
Import ListNotations.
Local Open Scope N_scope.

Section Crash.
Context {A : Type} (aeqb : A -> A -> bool).

Lemma firstn_length_le {T} (m : nat) (l : list T) : (length (firstn m l) <= length l)%nat.
Proof. rewrite firstn_length. lia. Qed.

Theorem crashed_write_not_complete_proved :
  blob_read_requires_completed = true ->
  forall (st : bstore A) k now now' descr dur quota (reads : list (chunk A)) n,
  raw_lookup st (pkey k 0) ccol_state = None ->
  N.of_nat (length reads) + 1 < 2 ^ 64 ->
  (1 <= n)%nat ->
  exists err, read_blob now' (write_crashed now st k descr dur quota reads n) k = RFail err.
Proof.
  intros Hflag st k now now' descr dur quota reads n Hfresh Hlen Hn.
  destruct n as [|m]; [lia|]. cbn [write_crashed].
  set (s0 := mkState descr 0 StInProcess false dur).
  destruct (ins now k dur st (pkey k 0) ccol_state (VState s0)) as [st1 ok1] eqn:E1.
  assert (Hok : ok1 = true /\ raw_lookup st1 (pkey k 0) ccol_state = Some (mkRow (VState s0) (ins_exp k now dur))).
  { unfold ins, ins_exp, put, insert_if_not_exists, lookup in *. rewrite Hfresh in E1. cbn [option_map] in E1.
    destruct (is_persistent k); inversion E1; subst; split; auto; apply raw_lookup_set_same. }
  destruct Hok as [-> R1]. cbn [negb].
  destruct (write_chunks now k dur quota st1 (firstn m reads) 0 0 1) as [[st2 sz] err] eqn:E2.
  assert (P2 : part st2 (pkey k 0) = part st1 (pkey k 0)).
  { eapply write_chunks_frame; eauto. intros b Lb E. pose proof (firstn_length_le m reads).
    apply pkey_inj_bucket in E; lia. }
  unfold read_blob, read_blob_gen, query_state, get, lookup.
  assert (R2 : raw_lookup st2 (pkey k 0) ccol_state = Some (mkRow (VState s0) (ins_exp k now dur))).
  { unfold raw_lookup in *. rewrite P2. exact R1. }
  rewrite R2. destruct (expired now' _); cbn [option_map rval].
  - destruct (read now' st2 (pkey k 1) [] []); eexists; reflexivity.
  - cbn [bs_err s0 bs_status]. rewrite Hflag. cbn. eexists; reflexivity.
Qed.

End Crash.
