(* C09 - traces the model accepts (`agrees`) are runs of the transition system in the property's domain *)
From Coq Require Import List NArith Lia Bool ZifyNat ZifyN ZifyBool.
From V Require Import Lib.Check C09_Actualizer.Model C09_Actualizer.Lemmas C09_Actualizer.Inv C09_Actualizer.Tac.
Import ListNotations.
Local Open Scope N_scope.

Definition is_notify (a : act) : bool := match a with Notify _ => true | _ => false end.
Definition is_append (a : act) : bool := match a with Append _ => true | _ => false end.
Definition quiet_act (a : act) : bool := negb (is_notify a) && negb (is_append a).

Lemma step_lg c s a s' : step c s a = Some s' ->
  lg (sp s') = match a with Append e => lg (sp s) ++ [e] | _ => lg (sp s) end.
Proof.
  intros H. open_state s. destruct a; cbn in H; unfold flow in H; cbn in H;
    guards H; inversion H; subst; clear H; reflexivity.
Qed.

Lemma first_enabled_in c s l h s' : first_enabled c s l = Some (h, s') -> In h l /\ step c s h = Some s'.
Proof.
  induction l as [|x l IH]; cbn; [discriminate|]. destruct (step c s x) eqn:E.
  - intros H; inversion H; subst. split; [left; reflexivity | exact E].
  - intros H. destruct (IH H). split; [right|]; assumption.
Qed.

Lemma hidden_quiet h : In h hidden_order -> quiet_act h = true.
Proof. cbn. intros H. repeat (destruct H as [<-|H]; [reflexivity|]). destruct H. Qed.

Lemma settle_quiet c fuel : forall s, forallb quiet_act (settle_acts c fuel s) = true.
Proof.
  induction fuel as [|k IH]; intros s; cbn [settle_acts]; [reflexivity|].
  destruct (first_enabled c s hidden_order) as [[h s']|] eqn:E; [|reflexivity].
  cbn [forallb]. apply first_enabled_in in E. rewrite (hidden_quiet _ (proj1 E)). apply IH.
Qed.

Local Opaque fuel0.
Local Arguments settle_acts : simpl never.

(* actions that are neither Notify nor Append pass the domain guard and leave the log alone *)
Lemma runG_quiet c l : forallb quiet_act l = true -> forall s s', run c s l = Some s' ->
  runG false c s l = Some s' /\ lg (sp s') = lg (sp s).
Proof.
  induction l as [|a l IH]; intros Hq s s' H; cbn [run forallb runG] in *.
  - inversion H; subst. split; reflexivity.
  - apply andb_true_iff in Hq. destruct Hq as [Ha Hl]. destruct (step c s a) as [s1|] eqn:Es; [|discriminate].
    assert (Hin : input_okb s a = true) by (destruct a; try reflexivity; discriminate Ha).
    rewrite Hin. cbn [andb negb orb]. destruct (IH Hl _ _ H) as [R1 R2]. split; [exact R1|].
    rewrite R2. rewrite (step_lg _ _ _ _ Es). destruct a; try reflexivity; discriminate Ha.
Qed.

Lemma runG_app g c l1 l2 s : runG g c s (l1 ++ l2) = match runG g c s l1 with Some s' => runG g c s' l2 | None => None end.
Proof.
  revert s; induction l1 as [|a l IH]; intros s; cbn; [reflexivity|].
  destruct (input_okb s a && (negb g || mail_first_okb s a)); [|reflexivity]. destruct (step c s a); auto.
Qed.

Theorem elaborate_runG_proved c : forall l s l' s', elaborate c s l = Some (l', s') -> dom_ok (len (lg (sp s))) l = true ->
  runG false c s l' = Some s'.
Proof.
  induction l as [|a l IH]; intros s l' s' H Hd; cbn [elaborate] in H.
  - inversion H; subst. reflexivity.
  - destruct (step c s a) as [s1|] eqn:Es; [|discriminate].
    destruct (run c s1 (settle_acts c fuel0 s1)) as [s2|] eqn:Er; [|discriminate].
    destruct (elaborate c s2 l) as [[l2 s3]|] eqn:Ee; [|discriminate]. injection H as <- <-.
    destruct (runG_quiet c _ (settle_quiet c fuel0 s1) _ _ Er) as [R1 R2].
    assert (Hin : input_okb s a = true /\ dom_ok (len (lg (sp s2))) l = true).
    { rewrite R2, (step_lg _ _ _ _ Es). destruct a; cbn in Hd |- *; try (split; [reflexivity | exact Hd]).
      - rewrite len_snoc. split; [reflexivity | exact Hd].
      - apply andb_true_iff in Hd. exact Hd. }
    destruct Hin as [Hin Hd2]. cbn [runG app]. rewrite Hin. cbn [andb negb orb]. rewrite Es. rewrite runG_app, R1. apply (IH _ _ _ Ee Hd2).
Qed.
