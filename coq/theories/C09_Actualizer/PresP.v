(* C09 - the operator's actions preserve the structural invariant *)
From Coq Require Import List NArith Lia Bool ZifyNat ZifyN ZifyBool.
From V Require Import Lib.Check C09_Actualizer.Model C09_Actualizer.Lemmas C09_Actualizer.Inv C09_Actualizer.Tac.
Import ListNotations.
Local Open Scope N_scope.

Section Pres.
Variable c : cfg.
Hypothesis Hc : cfg_ok c.

Ltac start HI H s := intros HI H; destruct Hc as [Hb Hn Hdm]; open_state s; cbn in H.
Ltac q_inv :=
  match goal with
  | Q : _ = true -> _ = true -> _ = false -> _ /\ _ |- _ =>
      destruct (Q ltac:(first [reflexivity | assumption]) ltac:(first [reflexivity | assumption]) ltac:(first [reflexivity | assumption])) as [Qa Qb];
      cbn in Qa; injection Qa as Qo Ql
  end.

Lemma presS_HTake s s' : InvS s -> step c s HTake = Some s' -> InvS s'.
Proof.
  start HI H s. guards H. inversion H; subst; clear H. bools. subst. destruct HI; cbn in *.
  q_inv. lens.
  subst n. constructor; cbn; fin.
  all: try (rewrite Ql at 1; f_equal; lia).
Qed.
Lemma presS_HSkip s s' : InvS s -> step c s HSkip = Some s' -> InvS s'.
Proof.
  start HI H s. guards H. inversion H; subst; clear H. bools. subst. destruct HI; cbn in *.
  q_inv. lens. subst n. destruct tp; cbn; constructor; cbn; fin.
  all: try (rewrite Ql at 1; f_equal; lia).
Qed.

Lemma presS_HDrop s s' : InvS s -> step c s HDrop = Some s' -> InvS s'.
Proof.
  start HI H s. guards H. inversion H; subst; clear H. bools. subst. destruct HI; cbn in *.
  match goal with X : _ || _ = true |- _ => apply orb_true_iff in X; destruct X; bools; subst end;
    constructor; cbn; fin.
Qed.

Lemma presS_PLookup s o present s' : InvS s -> step c s (PLookup o present) = Some s' -> InvS s'.
Proof.
  start HI H s. guards H; inversion H; subst; clear H; bools; subst; destruct HI; cbn in *;
    destruct (i_pin _ eq_refl) as (P1 & P2 & P3 & P4); destruct (i_f0 ltac:(discriminate)) as [F1 F2]; subst;
    try (destruct tp; cbn); constructor; cbn; fin.
Qed.

Lemma presS_PInvoke s o ok s' : InvS s -> step c s (PInvoke o ok) = Some s' -> InvS s'.
Proof.
  start HI H s. guards H; inversion H; subst; clear H; bools; subst; destruct HI; cbn in *;
    destruct (i_pin _ eq_refl) as (P1 & P2 & P3 & P4); destruct (i_f0 ltac:(discriminate)) as [F1 F2]; subst;
    try (destruct tp; cbn); constructor; cbn; fin.
Qed.

Lemma presS_HTimer s s' : InvS s -> step c s HTimer = Some s' -> InvS s'.
Proof.
  start HI H s. guards H. inversion H; subst; clear H. bools. subst. destruct HI; cbn in *.
  destruct ac, stp; cbn; constructor; cbn; fin.
Qed.

Lemma presS_HClose s s' : InvS s -> step c s HClose = Some s' -> InvS s'.
Proof.
  start HI H s. guards H; inversion H; subst; clear H; bools; subst; destruct HI; cbn in *; constructor; cbn; fin.
Qed.

Lemma presS_PFlushStart s s' : InvS s -> step c s PFlushStart = Some s' -> InvS s'.
Proof.
  start HI H s. guards H; inversion H; subst; clear H; bools; subst; destruct HI; cbn in *;
    destruct (i_f0 ltac:(discriminate)) as [F1 F2]; subst; try (destruct w; cbn);
    constructor; cbn; fin.
Qed.

Lemma presS_PPutWS s ws offs v s' : InvS s -> step c s (PPutWS ws offs v) = Some s' -> InvS s'.
Proof.
  start HI H s. unfold flow in H; cbn in H. guards H; inversion H; subst; clear H; destruct HI; cbn in *;
    destruct (i_f0 ltac:(discriminate)) as [F1 F2]; subst; try (destruct w; cbn); constructor; cbn; fin.
Qed.

Lemma presS_PPutPos s p v s' : InvS s -> step c s (PPutPos p v) = Some s' -> InvS s'.
Proof.
  start HI H s. unfold flow in H; cbn in H. guards H; inversion H; subst; clear H; bools; subst; destruct HI; cbn in *;
    destruct (i_f0 ltac:(discriminate)) as [F1 F2]; subst; pose proof (i_fp _ _ eq_refl eq_refl) as Fp;
    try (destruct w; cbn); constructor; cbn; fin.
Qed.

Lemma presS_PMail s o ok s' : InvS s -> step c s (PMail o ok) = Some s' -> InvS s'.
Proof.
  start HI H s. unfold flow in H; cbn in H. guards H; inversion H; subst; clear H; destruct HI; cbn in *;
    destruct (i_f0 ltac:(discriminate)) as [F1 F2]; subst; try (destruct w; cbn); constructor; cbn; fin.
Qed.

Lemma presS_HFlushDone s s' : InvS s -> step c s HFlushDone = Some s' -> InvS s'.
Proof.
  start HI H s. unfold flow in H; cbn in H. guards H; inversion H; subst; clear H; destruct HI; cbn in *;
    destruct (i_f0 ltac:(discriminate)) as [F1 F2]; subst; destruct w; cbn; try (destruct tp; cbn); constructor; cbn; fin.
Qed.

End Pres.
