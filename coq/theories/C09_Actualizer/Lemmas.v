(* C09 - list / log lemmas used by the invariant proofs *)
From Coq Require Import List NArith Lia Bool ZifyNat ZifyN ZifyBool.
From V Require Import Lib.Check C09_Actualizer.Model.
Import ListNotations.
Local Open Scope N_scope.

(* keep the log accessors folded under cbn *)
Global Arguments len : simpl never.
Global Arguments lookup : simpl never.
Global Arguments trig : simpl never.
Global Arguments ws_of : simpl never.
Global Arguments mailev : simpl never.

Lemma len_nil {T} : len (@nil T) = 0. Proof. reflexivity. Qed.
Lemma len_app {T} (a b : list T) : len (a ++ b) = len a + len b.
Proof. unfold len. rewrite app_length. lia. Qed.
Lemma len_cons {T} (x : T) l : len (x :: l) = len l + 1.
Proof. unfold len. cbn [length]. lia. Qed.
Lemma len_snoc {T} (l : list T) x : len (l ++ [x]) = len l + 1.
Proof. rewrite len_app. reflexivity. Qed.

Lemma is_nil_true {T} (l : list T) : is_nil l = true <-> l = [].
Proof. destruct l; cbn; split; congruence. Qed.

Lemma list_eqb_N a b : list_eqb N.eqb a b = true <-> a = b.
Proof. apply list_eqb_eq. intros x y. apply N.eqb_eq. Qed.

Lemma mem_In x l : mem x l = true <-> In x l.
Proof.
  unfold mem. rewrite existsb_exists. split.
  - intros [y [Hy E]]. apply N.eqb_eq in E. subst. exact Hy.
  - intros H. exists x. split; [exact H | apply N.eqb_refl].
Qed.

(* ---- seqN ---- *)
Lemma seqN_length a n : length (seqN a n) = n.
Proof. revert a; induction n; intros; cbn; auto. Qed.

Lemma In_seqN x a n : In x (seqN a n) <-> a <= x < a + N.of_nat n.
Proof.
  revert a; induction n as [|n IH]; intros a; cbn [seqN In].
  - lia.
  - rewrite IH. lia.
Qed.

Lemma seqN_app a n m : seqN a (n + m) = seqN a n ++ seqN (a + N.of_nat n) m.
Proof.
  revert a; induction n as [|n IH]; intros a; cbn [seqN plus app].
  - f_equal. lia.
  - rewrite IH. do 3 f_equal. lia.
Qed.

Lemma seqN_snoc a n : seqN a (S n) = seqN a n ++ [a + N.of_nat n].
Proof. replace (S n) with (n + 1)%nat by lia. rewrite seqN_app. reflexivity. Qed.

Lemma seqN_cons_inv a n o l : seqN a n = o :: l -> o = a /\ l = seqN (a + 1) (pred n).
Proof. destruct n; cbn; intros H; inversion H; auto. Qed.

(* ---- the log ---- *)
Lemma lookup_app_old l e o : o <= len l -> lookup (l ++ [e]) o = lookup l o.
Proof.
  unfold lookup, len. intros H. destruct (o =? 0) eqn:E; [reflexivity|].
  apply N.eqb_neq in E. apply nth_error_app1. lia.
Qed.

Lemma lookup_beyond l o : len l < o -> lookup l o = None.
Proof.
  unfold lookup, len. intros H. destruct (o =? 0) eqn:E; [reflexivity|].
  apply nth_error_None. lia.
Qed.

Lemma lookup_zero l : lookup l 0 = None.
Proof. reflexivity. Qed.

Lemma trig_app_old l e o : o <= len l -> trig (l ++ [e]) o = trig l o.
Proof. intros H. unfold trig. rewrite lookup_app_old by exact H. reflexivity. Qed.
Lemma ws_of_app_old l e o : o <= len l -> ws_of (l ++ [e]) o = ws_of l o.
Proof. intros H. unfold ws_of. rewrite lookup_app_old by exact H. reflexivity. Qed.
Lemma mailev_app_old c l e o : o <= len l -> mailev c (l ++ [e]) o = mailev c l o.
Proof. intros H. unfold mailev. rewrite lookup_app_old by exact H. reflexivity. Qed.

Lemma trig_le_len l o : trig l o = true -> 1 <= o <= len l.
Proof.
  unfold trig. intros H. destruct (N.eq_dec o 0) as [->|Hz]; [rewrite lookup_zero in H; discriminate|].
  destruct (N.ltb_spec (len l) o) as [Hlt|Hle]; [rewrite lookup_beyond in H by exact Hlt; discriminate | lia].
Qed.

Lemma filter_trig_app_old l e xs :
  (forall x, In x xs -> x <= len l) -> filter (trig (l ++ [e])) xs = filter (trig l) xs.
Proof. intros H. apply filter_ext_in. intros x Hx. apply trig_app_old. auto. Qed.

Lemma filter_snoc {T} (f : T -> bool) l x : filter f (l ++ [x]) = if f x then filter f l ++ [x] else filter f l.
Proof. rewrite filter_app. cbn. destruct (f x); [reflexivity | apply app_nil_r]. Qed.

Lemma filter_split_In {T} (f : T -> bool) l x : In x l -> In x (filter f l) \/ In x (filter (fun y => negb (f y)) l).
Proof. intros H. destruct (f x) eqn:E; [left | right]; apply filter_In; split; auto. rewrite E. reflexivity. Qed.

(* ---- run ---- *)
Lemma run_app c s l1 l2 : run c s (l1 ++ l2) = match run c s l1 with Some s' => run c s' l2 | None => None end.
Proof. revert s; induction l1 as [|a l IH]; intros s; cbn; [reflexivity|]. destruct (step c s a); auto. Qed.
