(* C09 - every action preserves the effects invariant InvE (given the structural one) *)
From Coq Require Import List NArith Lia Bool ZifyNat ZifyN ZifyBool.
From V Require Import Lib.Check C09_Actualizer.Model C09_Actualizer.Lemmas C09_Actualizer.Inv C09_Actualizer.Tac.
Import ListNotations.
Local Open Scope N_scope.

Section Pres.
Variable g : bool.
Variable c : cfg.
Hypothesis Hc : cfg_ok c.

Ltac jcase A :=
  first [ left; exact A
        | right; left; first [exact A | apply in_or_app; left; exact A]
        | injection A as A; subst; first [right; left; apply in_or_app; right; left; reflexivity | congruence]
        | right; right; exact A
        | discriminate A ].

Ltac startE HS HE Hg H s :=
  intros HS HE Hg H; destruct Hc as [Hb Hn Hdm]; open_state s; cbn in H, Hg; unfold flow in H; cbn in H.

Lemma presE_Append s e s' :
  InvS s -> InvE g c s -> (g = true -> mail_first_okb s (Append e) = true) -> step c s (Append e) = Some s' -> InvE g c s'.
Proof.
  startE HS HE Hg H s.
  inversion H; subst; clear H. destruct HS, HE; cbn in *.
  constructor; cbn; intros;
    repeat match goal with
    | X : trig (L ++ [e]) ?o = true |- _ => rewrite trig_app_old in X by lia
    | X : mailev c (L ++ [e]) ?o = true |- _ => rewrite mailev_app_old in X by lia
    end; eauto.
Qed.

Lemma presE_RInitOk s p s' :
  InvS s -> InvE g c s -> (g = true -> mail_first_okb s (RInitOk p) = true) -> step c s (RInitOk p) = Some s' -> InvE g c s'.
Proof.
  startE HS HE Hg H s.
  guards H; inversion H; subst; clear H. bools. subst. destruct HE; cbn in *.
  constructor; cbn; intros; try discriminate; try lia; eauto.
Qed.

Lemma presE_PInvoke s o ok s' :
  InvS s -> InvE g c s -> (g = true -> mail_first_okb s (PInvoke o ok) = true) -> step c s (PInvoke o ok) = Some s' -> InvE g c s'.
Proof.
  startE HS HE Hg H s.
  guards H; inversion H; subst; clear H; bools; subst; destruct HS, HE; cbn in *;
    destruct (i_pin _ eq_refl) as (P1 & P2 & P3 & P4); destruct (i_f0 ltac:(intro X; discriminate X)) as [F1 F2]; subst;
    try (destruct tp; cbn); constructor; cbn; intros; try discriminate; eauto.
  all: first
    [ edestruct i_j2m as [A|[A|A]]; [eassumption|reflexivity|reflexivity|eassumption|eassumption|eassumption| | |]; jcase A
    | edestruct i_j2 as [A|[A|A]]; [reflexivity|reflexivity|eassumption|eassumption| | |]; jcase A ].
Qed.

Lemma presE_PFlushStart s  s' :
  InvS s -> InvE g c s -> (g = true -> mail_first_okb s PFlushStart = true) -> step c s PFlushStart = Some s' -> InvE g c s'.
Proof.
  startE HS HE Hg H s.
  guards H; inversion H; subst; clear H; bools; subst; destruct HS, HE; cbn in *;
    destruct (i_f0 ltac:(intro X; discriminate X)) as [F1 F2]; subst; try (destruct w; cbn);
    constructor; cbn; intros; try discriminate; eauto.
  all: first
    [ edestruct i_j2m as [A|[A|A]]; [eassumption|reflexivity|reflexivity|eassumption|eassumption|eassumption| | |]; jcase A
    | edestruct i_j2 as [A|[A|A]]; [reflexivity|reflexivity|eassumption|eassumption| | |]; jcase A ].
Qed.

Lemma presE_PPutWS s ws offs v s' :
  InvS s -> InvE g c s -> (g = true -> mail_first_okb s (PPutWS ws offs v) = true) -> step c s (PPutWS ws offs v) = Some s' -> InvE g c s'.
Proof.
  startE HS HE Hg H s.
  guards H; inversion H; subst; clear H; bools; subst; destruct HS, HE; cbn in *;
    destruct (i_f0 ltac:(intro X; discriminate X)) as [F1 F2]; subst; try (destruct w; cbn);
    constructor; cbn; intros; try discriminate; eauto using in_or_app.
  all: try (edestruct i_j2 as [A|[A|A]]; [reflexivity|reflexivity|eassumption|eassumption| | |];
            [left; apply in_or_app; left; exact A | right; left; exact A | right; right; exact A]).
  all: match goal with X : PFl _ = PFl _ |- _ => clear X end;
       edestruct i_j3 as [A|A]; [reflexivity|eassumption| left; apply in_or_app; left; exact A |];
       apply (filter_split_In (fun o => ws_of L o =? ws)) in A; destruct A as [A|A];
       [left; apply in_or_app; right; exact A | right; exact A].
Qed.

End Pres.
