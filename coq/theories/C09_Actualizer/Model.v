(* C09 - interleaving model of one asynchronous actualizer (pkg/processors/actualizers/async.go)
   with the pipeline operator that runs its projector (pkg/pipeline/async.go, wired-operator.go),
   the bundled intents (pkg/state/stateprovide/impl_bundled_host_state.go), the view storage's
   ApplyBatch (pkg/sys/storages/impl_view_records_storage.go) and the n10n subscription
   (pkg/in10nmem WatchChannel), over a persistent state {PLog, view rows, sent mails, position}.

   Two goroutines: the reader R (init / readPlogToTheEnd / WatchChannel callback / finit / retry)
   and the projector operator P (puller_async: DoAsync, timer flush, flush at disassembly).
   One action = one step between two points at which the harness can park the goroutine
   (reader: readOffset, ReadPLog; operator: projector function, PutBatch, e-mail sender, the
   partition borrow of Flush) or one hidden step in between (H...: channel send/receive, loop
   exits, error propagation).  Hidden steps are ordinary actions of the transition system, so the
   theorems cover every timing of them; `settle` picks the canonical ones that have happened when
   the real goroutines are quiescent, which is when the harness acts.  Definitions only. *)
From Coq Require Import List NArith Lia Bool.
From V Require Import Lib.Check Gen.Params.
Import ListNotations.
Local Open Scope N_scope.

(* ---- events, log ---- *)
Record ev := mkEv { e_trig : bool; e_ws : N; e_mail : bool }.

(* c_limit     BundlesLimit
   c_nonbuf    the projector declares a non-view intent (sys.SendMail): flush after every event
   c_posticks  FlushPositionInterval in units of FlushInterval (one Tick)
   c_batch     plogReadBatchSize
   c_qcap      capacity of the pipeline's input channel (the reader blocks when it is full)
   c_nulllast  the view storage writes the NullWSID batch (position) after the workspace batches
   c_viewlast  FlushBundles applies the view storage after the other storages (false: map order)
   c_descmust  isProjectorDefined demands the workspace descriptor (MustExist): an event whose
               descriptor is not readable yet is an error (false: CanExist, the event is passed over)
   c_earlyrel  DoAsync releases the event although its intents stay in the bundle: what a later flush
               stores for it may be read from a buffer that was handed out again (finding C09-F2) *)
Record cfg := mkCfg { c_limit : N; c_nonbuf : bool; c_posticks : N; c_batch : N; c_qcap : N; c_nulllast : bool; c_viewlast : bool;
                      c_descmust : bool; c_earlyrel : bool }.

Definition len {T} (l : list T) : N := N.of_nat (length l).
Definition lookup (l : list ev) (o : N) : option ev := if o =? 0 then None else nth_error l (N.to_nat (o - 1)).
Definition trig (l : list ev) (o : N) : bool := match lookup l o with Some e => e_trig e | None => false end.
Definition ws_of (l : list ev) (o : N) : N := match lookup l o with Some e => e_ws e | None => 0 end.
Definition mailev (c : cfg) (l : list ev) (o : N) : bool :=
  c_nonbuf c && match lookup l o with Some e => e_mail e | None => false end.

Fixpoint seqN (a : N) (n : nat) : list N := match n with O => [] | S k => a :: seqN (a + 1) k end.
Definition mem (x : N) (l : list N) : bool := existsb (N.eqb x) l.
Definition is_nil {T} (l : list T) : bool := match l with [] => true | _ => false end.

(* ---- state ---- *)
Record pers := mkP { lg : list ev; eff : list N; mails : list N; pos : N; ntf : N }.

Inductive rph := ROff | RInit | RToEnd | RWatch | RLoop (ro : N) | RSend | RClosing | RRetry.
Record rdr := mkR { r : rph; rd : N; batch : list N; dlv : N; stopped : bool }.

Inductive why := FDo | FTimer | FClose.
(* PLook o: event o taken, its workspace descriptor being looked up; PIn o: inside the projector function *)
Inductive ppc := PIdle | PLook (o : N) | PIn (o : N) | PWant (w : why) | PFl (w : why).
(* alive: the operator goroutine exists; actv: no DoAsync/Flush error so far (wo.err == nil);
   q: workpieces sent and not yet taken; cur: pLogOffset (0 = NullOffset); acc: acceptedSinceSave;
   since: Ticks since lastSave; bv/bm: offsets whose view row / mail sits in the bundles;
   armed: flush timer running; tickp: timer fired, not yet consumed;
   fv/fpos/fm: what the running FlushBundles still has to write; fsto: storage in progress *)
Record prj := mkJ { alive : bool; actv : bool; q : list N; pc : ppc; cur : N; acc : bool; since : N;
                    bv : list N; bm : list N; armed : bool; tickp : bool;
                    fv : list N; fpos : option N; fm : list N; fsto : option bool }.

(* history variables: position read by the last init, last offset the operator took, offsets invoked since *)
Record ghost := mkG { g_init : N; g_done : N; g_inv : list N }.

Record st := mkSt { sp : pers; sr : rdr; sj : prj; sg : ghost }.

Definition dead_prj : prj := mkJ false true [] PIdle 0 false 0 [] [] false false [] None [] None.
Definition fresh_prj (since0 : N) : prj := mkJ true true [] PIdle 0 false since0 [] [] false false [] None [] None.
Definition init : st := mkSt (mkP [] [] [] 0 0) (mkR ROff 0 [] 0 false) dead_prj (mkG 0 0 []).

(* ---- actions ---- *)
Inductive verdict := VOk | VBefore | VAfter.   (* VBefore: fails without writing; VAfter: writes, then reports failure *)
Definition wrote (v : verdict) : bool := match v with VBefore => false | _ => true end.

Inductive act :=
(* the harness / environment *)
| Append (e : ev) | Notify (n : N) | Start | Stop | Tick
| Check (p : N) (effs ms bad : list N)   (* bad: stored rows whose content is not their event's *)
(* reader, at its parking points *)
| RInitOk (p : N) | RInitErr
| RReadEnd (got : list N) | RReadEndErr
| RReadOne (o : N) (found : bool) | RReadOneErr (o : N)
(* operator, at its parking points *)
| PLookup (o : N) (present : bool)
| PInvoke (o : N) (ok : bool)
| PFlushStart
| PPutWS (ws : N) (offs : list N) (v : verdict)
| PPutPos (p : N) (v : verdict)
| PMail (o : N) (ok : bool)
(* hidden steps *)
| HSend | HLoopExit | HNextRound | HDeliver | HNotice | HClosed | HRetryStop
| HTake | HSkip | HDrop | HTimer | HClose | HFlushDone.

(* ---- operator updates ---- *)
Definition arm (j : prj) : prj :=
  if tickp j then j else
  mkJ (alive j) (actv j) (q j) (pc j) (cur j) (acc j) (since j) (bv j) (bm j) true (tickp j) (fv j) (fpos j) (fm j) (fsto j).
Definition j_q (j : prj) (q' : list N) : prj :=
  mkJ (alive j) (actv j) q' (pc j) (cur j) (acc j) (since j) (bv j) (bm j) (armed j) (tickp j) (fv j) (fpos j) (fm j) (fsto j).
Definition j_take (j : prj) (o : N) (q' : list N) : prj :=
  mkJ (alive j) (actv j) q' (PLook o) o (acc j) (since j) (bv j) (bm j) (armed j) (tickp j) (fv j) (fpos j) (fm j) (fsto j).
Definition j_skip (j : prj) (o : N) (q' : list N) : prj :=
  arm (mkJ (alive j) (actv j) q' PIdle o (acc j) (since j) (bv j) (bm j) (armed j) (tickp j) (fv j) (fpos j) (fm j) (fsto j)).
Definition j_pc (j : prj) (p : ppc) : prj :=
  mkJ (alive j) (actv j) (q j) p (cur j) (acc j) (since j) (bv j) (bm j) (armed j) (tickp j) (fv j) (fpos j) (fm j) (fsto j).
Definition j_die (j : prj) : prj :=
  mkJ false (actv j) (q j) PIdle (cur j) (acc j) (since j) (bv j) (bm j) (armed j) (tickp j) (fv j) (fpos j) (fm j) (fsto j).
Definition j_invfail (j : prj) : prj :=
  mkJ (alive j) false (q j) PIdle (cur j) (acc j) (since j) (bv j) (bm j) (armed j) (tickp j) (fv j) (fpos j) (fm j) (fsto j).
Definition j_buffer (j : prj) (o : N) (m : bool) : prj :=
  mkJ (alive j) (actv j) (q j) PIdle (cur j) true (since j) (bv j ++ [o]) (if m then bm j ++ [o] else bm j)
      (armed j) (tickp j) (fv j) (fpos j) (fm j) (fsto j).
Definition j_tick (j : prj) (wake : bool) : prj :=
  mkJ (alive j) (actv j) (q j) (pc j) (cur j) (acc j) (if wake then 0 else since j + 1) (bv j) (bm j)
      false (tickp j || armed j) (fv j) (fpos j) (fm j) (fsto j).
Definition j_since0 (j : prj) : prj :=
  mkJ (alive j) (actv j) (q j) (pc j) (cur j) (acc j) 0 (bv j) (bm j) (armed j) (tickp j) (fv j) (fpos j) (fm j) (fsto j).
Definition j_timer (j : prj) (go : bool) : prj :=
  mkJ (alive j) (actv j) (q j) (if go then PWant FTimer else pc j) (cur j) (acc j) (since j) (bv j) (bm j)
      (armed j) false (fv j) (fpos j) (fm j) (fsto j).
(* asyncProjector.flush with a current offset: position intent (if due), ApplyIntents, FlushBundles starts *)
Definition begin_flush (c : cfg) (j : prj) (w : why) : prj :=
  let savep := acc j || (c_posticks c <=? since j) in
  mkJ (alive j) (actv j) (q j) (PFl w) (cur j) (if savep then false else acc j) (if savep then 0 else since j)
      (bv j) (bm j) (armed j) (tickp j) (bv j) (if savep then Some (cur j) else None) (bm j) None.
(* flush without a current offset: returns at once *)
Definition end_noop (j : prj) (w : why) : prj := match w with FClose => j_die j | _ => j_pc j PIdle end.
(* FlushBundles returned nil: bundles cleared, offset reset; DoAsync returning nil re-arms the timer *)
Definition end_ok (j : prj) (w : why) : prj :=
  let j' := mkJ (match w with FClose => false | _ => alive j end) (actv j) (q j) PIdle 0 (acc j) (since j) [] []
                (armed j) (tickp j) [] None [] None in
  match w with FDo => arm j' | _ => j' end.
(* a storage call of the flush failed: bundles cleared, operator inactive from now on *)
Definition fail_flush (j : prj) (w : why) : prj :=
  mkJ (match w with FClose => false | _ => alive j end) false (q j) PIdle 0 (acc j) (since j) [] []
      (armed j) (tickp j) [] None [] None.
Definition j_view (j : prj) (fv' : list N) (fpos' : option N) : prj :=
  mkJ (alive j) (actv j) (q j) (pc j) (cur j) (acc j) (since j) (bv j) (bm j) (armed j) (tickp j) fv' fpos' (fm j) (Some true).
Definition j_mail (j : prj) (fm' : list N) : prj :=
  mkJ (alive j) (actv j) (q j) (pc j) (cur j) (acc j) (since j) (bv j) (bm j) (armed j) (tickp j) (fv j) (fpos j) fm' (Some false).

Definition view_turn (c : cfg) (j : prj) : bool :=
  match fsto j with Some false => is_nil (fm j) | _ => true end && (negb (c_viewlast c) || is_nil (fm j)).
Definition mail_turn (j : prj) : bool :=
  match fsto j with Some true => is_nil (fv j) && match fpos j with None => true | Some _ => false end | _ => true end.

Definition flow (j : prj) : option why := match pc j with PFl w => Some w | _ => None end.
Definition running (p : rph) : bool := match p with RToEnd | RWatch | RLoop _ | RSend => true | _ => false end.
(* equality of multisets: a view row counts how often its event's effect was stored *)
Definition occ (x : N) (l : list N) : N := len (filter (N.eqb x) l).
Definition ms_eqb (a b : list N) : bool := forallb (fun x => occ x a =? occ x b) (a ++ b).

Definition r_ph (x : rdr) (p : rph) : rdr := mkR p (rd x) (batch x) (dlv x) (stopped x).
Definition r_batch (x : rdr) (p : rph) (b : list N) : rdr := mkR p (rd x) b (dlv x) (stopped x).

(* ---- the transition system ---- *)
Definition step (c : cfg) (s : st) (a : act) : option st :=
  let P := sp s in let R := sr s in let J := sj s in let G := sg s in
  match a with
  | Append e => Some (mkSt (mkP (lg P ++ [e]) (eff P) (mails P) (pos P) (ntf P)) R J G)
  | Notify n => Some (mkSt (mkP (lg P) (eff P) (mails P) (pos P) n) R J G)
  | Start =>
      match r R with
      | ROff => if alive J then None else Some (mkSt P (mkR RInit (rd R) [] (dlv R) false) (j_since0 J) G)
      | _ => None
      end
  | Stop => match r R with ROff => None | _ => Some (mkSt P (mkR (r R) (rd R) (batch R) (dlv R) true) J G) end
  | Tick =>
      let wake := match r R with RRetry => true | _ => false end in
      Some (mkSt P (if wake then r_ph R RInit else R) (j_tick J wake) G)
  | Check p effs ms bad =>
      if (p =? pos P) && ms_eqb effs (eff P) && list_eqb N.eqb ms (mails P) && (c_earlyrel c || is_nil bad)
      then Some s else None
  | RInitOk p =>
      match r R with
      | RInit => if negb (stopped R) && (p =? pos P)
                 then Some (mkSt P (mkR RToEnd p [] 0 false) (fresh_prj (since J)) (mkG p p []))
                 else None
      | _ => None
      end
  | RInitErr => match r R with RInit => if stopped R then None else Some (mkSt P (r_ph R RRetry) J G) | _ => None end
  | RReadEnd got =>
      match r R, batch R with
      | RToEnd, [] =>
          if list_eqb N.eqb got (seqN (rd R + 1) (N.to_nat (N.min (c_batch c) (len (lg P) - rd R))))
          then Some (mkSt P (r_batch R (if is_nil got then RWatch else RToEnd) got) J G)
          else None
      | _, _ => None
      end
  | RReadEndErr => match r R, batch R with RToEnd, [] => Some (mkSt P (r_ph R RClosing) J G) | _, _ => None end
  | RReadOne o found =>
      match r R with
      | RLoop ro =>
          if (o =? ro) && (ro <=? dlv R) && (len (batch R) <? c_batch c) && Bool.eqb found (o <=? len (lg P))
          then Some (mkSt P (r_batch R (RLoop (ro + 1)) (if found then batch R ++ [o] else batch R)) J G)
          else None
      | _ => None
      end
  | RReadOneErr o =>
      match r R with
      | RLoop ro =>
          if (o =? ro) && (ro <=? dlv R) && (len (batch R) <? c_batch c)
          then Some (mkSt P (r_ph R (if is_nil (batch R) then RClosing else RSend)) J G)
          else None
      | _ => None
      end
  | HLoopExit =>
      match r R with
      | RLoop ro =>
          if (dlv R <? ro) || (c_batch c <=? len (batch R))
          then Some (mkSt P (r_ph R (if is_nil (batch R) then RWatch else RSend)) J G)
          else None
      | _ => None
      end
  | HSend =>
      match r R, batch R with
      | RToEnd, o :: b | RSend, o :: b =>
          if stopped R || negb (len (q J) <? c_qcap c) then None
          else Some (mkSt P (mkR (r R) o b (dlv R) (stopped R)) (j_q J (q J ++ [o])) G)
      | _, _ => None
      end
  | HNextRound => match r R, batch R with RSend, [] => Some (mkSt P (r_ph R (RLoop (rd R + 1))) J G) | _, _ => None end
  | HDeliver =>
      match r R with
      | RWatch => if dlv R <? ntf P
                  then Some (mkSt P (mkR (if rd R <? ntf P then RLoop (rd R + 1) else RWatch) (rd R) (batch R) (ntf P) (stopped R)) J G)
                  else None
      | _ => None
      end
  | HNotice =>
      if (running (r R) && (stopped R || negb (actv J))) || (match r R with RInit => stopped R | _ => false end)
      then Some (mkSt P (r_batch R RClosing []) J G) else None
  | HClosed =>
      match r R with
      | RClosing => if alive J then None else Some (mkSt P (r_ph R (if stopped R then ROff else RRetry)) J G)
      | _ => None
      end
  | HRetryStop => match r R with RRetry => if stopped R then Some (mkSt P (r_ph R ROff) J G) else None | _ => None end
  | HTake =>
      match pc J, q J with
      | PIdle, o :: q' =>
          if alive J && actv J && negb (stopped R) && trig (lg P) o
          then Some (mkSt P R (j_take J o q') (mkG (g_init G) o (g_inv G))) else None
      | _, _ => None
      end
  | HSkip =>
      match pc J, q J with
      | PIdle, o :: q' =>
          if alive J && actv J && negb (stopped R) && negb (trig (lg P) o)
          then Some (mkSt P R (j_skip J o q') (mkG (g_init G) o (g_inv G))) else None
      | _, _ => None
      end
  | HDrop =>
      match pc J, q J with
      | PIdle, o :: q' => if alive J && (negb (actv J) || stopped R) then Some (mkSt P R (j_q J q') G) else None
      | _, _ => None
      end
  | PLookup o present =>
      match pc J with
      | PLook o' =>
          if o =? o' then
            if present then Some (mkSt P R (j_pc J (PIn o)) G)
            else if c_descmust c
                 then Some (mkSt P R (j_invfail J) (mkG (g_init G) (o - 1) (g_inv G)))   (* error; o was not invoked *)
                 else Some (mkSt P R (arm (j_pc J PIdle)) G)                              (* passed over *)
          else None
      | _ => None
      end
  | PInvoke o ok =>
      match pc J with
      | PIn o' =>
          if o =? o' then
            let G' := mkG (g_init G) (g_done G) (g_inv G ++ [o]) in
            if ok then
              let j1 := j_buffer J o (mailev c (lg P) o) in
              if (c_limit c <=? len (bv j1) + len (bm j1)) || c_nonbuf c
              then Some (mkSt P R (begin_flush c j1 FDo) G')
              else Some (mkSt P R (arm j1) G')
            else Some (mkSt P R (j_invfail J) G')
          else None
      | _ => None
      end
  | HTimer =>
      match pc J with
      | PIdle => if alive J && tickp J then Some (mkSt P R (j_timer J (actv J && negb (stopped R))) G) else None
      | _ => None
      end
  | HClose =>
      match pc J, q J, r R with
      | PIdle, [], RClosing =>
          if alive J then Some (mkSt P R (if actv J && negb (stopped R) then j_pc J (PWant FClose) else j_die J) G) else None
      | _, _, _ => None
      end
  | PFlushStart =>
      match pc J with
      | PWant w => Some (mkSt P R (if cur J =? 0 then end_noop J w else begin_flush c J w) G)
      | _ => None
      end
  | PPutWS ws offs v =>
      match flow J with
      | Some w =>
          if view_turn c J && negb (is_nil offs) && list_eqb N.eqb offs (filter (fun o => ws_of (lg P) o =? ws) (fv J))
          then match v with
               | VOk => Some (mkSt (mkP (lg P) (eff P ++ offs) (mails P) (pos P) (ntf P)) R
                                   (j_view J (filter (fun o => negb (ws_of (lg P) o =? ws)) (fv J)) (fpos J)) G)
               | VAfter => Some (mkSt (mkP (lg P) (eff P ++ offs) (mails P) (pos P) (ntf P)) R (fail_flush J w) G)
               | VBefore => Some (mkSt P R (fail_flush J w) G)
               end
          else None
      | None => None
      end
  | PPutPos p v =>
      match flow J, fpos J with
      | Some w, Some p' =>
          if view_turn c J && (negb (c_nulllast c) || is_nil (fv J)) && (p =? p')
          then match v with
               | VOk => Some (mkSt (mkP (lg P) (eff P) (mails P) p (ntf P)) R (j_view J (fv J) None) G)
               | VAfter => Some (mkSt (mkP (lg P) (eff P) (mails P) p (ntf P)) R (fail_flush J w) G)
               | VBefore => Some (mkSt P R (fail_flush J w) G)
               end
          else None
      | _, _ => None
      end
  | PMail o ok =>
      match flow J, fm J with
      | Some w, o' :: m' =>
          if mail_turn J && (o =? o')
          then if ok then Some (mkSt (mkP (lg P) (eff P) (mails P ++ [o]) (pos P) (ntf P)) R (j_mail J m') G)
               else Some (mkSt P R (fail_flush J w) G)
          else None
      | _, _ => None
      end
  | HFlushDone =>
      match flow J, fv J, fpos J, fm J with
      | Some w, [], None, [] => Some (mkSt P R (end_ok J w) G)
      | _, _, _, _ => None
      end
  end.

Fixpoint run (c : cfg) (s : st) (l : list act) : option st :=
  match l with
  | [] => Some s
  | a :: t => match step c s a with Some s' => run c s' t | None => None end
  end.

(* ---- runs inside the property's domain ----
   input_okb: a notification never runs ahead of the log (the command processor notifies after it
   stored the event).  mail_first_okb (only when g = true): a flush writes the position after the
   mails of the same flush were sent - the order FlushBundles does not guarantee (finding F21). *)
Definition input_okb (s : st) (a : act) : bool :=
  match a with Notify n => n <=? len (lg (sp s)) | _ => true end.
Definition mail_first_okb (s : st) (a : act) : bool :=
  match a with PPutPos _ v => negb (wrote v) || is_nil (fm (sj s)) | _ => true end.

Fixpoint runG (g : bool) (c : cfg) (s : st) (l : list act) : option st :=
  match l with
  | [] => Some s
  | a :: t =>
      if input_okb s a && (negb g || mail_first_okb s a)
      then match step c s a with Some s' => runG g c s' t | None => None end
      else None
  end.

(* what a run shows of the current incarnation: the position its init read and the offsets its
   projector was invoked with since, in order *)
Definition track (pi : N * list N) (a : act) : N * list N :=
  match a with
  | RInitOk p => (p, [])
  | PInvoke o _ => (fst pi, snd pi ++ [o])
  | _ => pi
  end.
Definition tracked (l : list act) : N * list N := fold_left track l (0, []).

(* nothing left to do: the reader waits for a notification beyond the last one it was told about,
   which covers the whole log; the operator is idle with an empty input and no flush timer pending *)
Definition quiescentb (s : st) : bool :=
  match r (sr s), pc (sj s), q (sj s) with
  | RWatch, PIdle, [] =>
      (dlv (sr s) =? ntf (sp s)) && (ntf (sp s) =? len (lg (sp s))) && alive (sj s) && actv (sj s)
      && negb (stopped (sr s)) && negb (armed (sj s)) && negb (tickp (sj s))
  | _, _, _ => false
  end.

(* ---- quiescence: the canonical hidden steps ---- *)
Definition hidden_order : list act :=
  [HNotice; HSend; HLoopExit; HNextRound; HDeliver; HDrop; HSkip; HTake; HFlushDone; HTimer; HClose; HClosed; HRetryStop].

Fixpoint first_enabled (c : cfg) (s : st) (l : list act) : option (act * st) :=
  match l with
  | [] => None
  | h :: t => match step c s h with Some s' => Some (h, s') | None => first_enabled c s t end
  end.

(* the hidden steps taken until none is enabled (bounded by fuel) *)
Fixpoint settle_acts (c : cfg) (fuel : nat) (s : st) : list act :=
  match fuel with
  | O => []
  | S k => match first_enabled c s hidden_order with Some (h, s') => h :: settle_acts c k s' | None => [] end
  end.

Definition fuel0 : nat := 1500.

(* a list of observed (parking-point) actions, each followed by the hidden steps up to quiescence *)
Fixpoint elaborate (c : cfg) (s : st) (l : list act) : option (list act * st) :=
  match l with
  | [] => Some ([], s)
  | a :: t =>
      match step c s a with
      | None => None
      | Some s1 =>
          let hs := settle_acts c fuel0 s1 in
          match run c s1 hs with
          | None => None
          | Some s2 => match elaborate c s2 t with Some (l', s') => Some (a :: hs ++ l', s') | None => None end
          end
      end
  end.

(* ================= trace checking ================= *)
Record trace := mkTrace { t_limit : N; t_nonbuf : bool; t_posticks : N; t_quiet : bool; t_acts : list act }.

Definition cfg_of (t : trace) : cfg :=
  mkCfg (t_limit t) (t_nonbuf t) (t_posticks t) c09_plog_read_batch_size c09_pipeline_stdin_cap c09_null_wsid_last c09_flush_view_last
        c09_descriptor_must_exist c09_event_released_before_flush.

(* every observed action is enabled in the model with the observed values, and when the harness
   found the real actualizer quiescent at the end, the model's state is quiescent too *)
Definition agrees (t : trace) : bool :=
  match elaborate (cfg_of t) init (t_acts t) with
  | Some (_, s) => negb (t_quiet t) || quiescentb s
  | None => false
  end.

(* ---- the property on the observed actions alone ----
   Reconstructed from observations only: the log (Append), what is persisted (the storage calls that
   were performed: PPutWS / PPutPos / PMail with a verdict that wrote), the position each
   incarnation started from (RInitOk) and the offsets its projector was invoked with (PInvoke). *)
Record og := mkO { o_lg : list ev; o_eff : list N; o_mails : list N; o_last : N; o_dom : bool }.

Definition covered (nonbuf : bool) (l : list ev) (p : N) (effs ms : list N) : bool :=
  forallb (fun o => negb (trig l o) ||
                    (mem o effs && (negb (nonbuf && match lookup l o with Some e => e_mail e | None => false end) || mem o ms)))
          (seqN 1 (N.to_nat p)).

Definition none_between (l : list ev) (a b : N) : bool :=
  forallb (fun o => negb (trig l o)) (seqN (a + 1) (N.to_nat (b - a - 1))).

(* once a notification ran ahead of the log the trace is outside the property's domain (the code then
   skips events, see notes/C09.md): nothing is demanded of the rest of it *)
Fixpoint oracle (nonbuf : bool) (g : og) (l : list act) : bool :=
  match l with
  | [] => true
  | a :: t =>
      match a with
      | Append e => oracle nonbuf (mkO (o_lg g ++ [e]) (o_eff g) (o_mails g) (o_last g) (o_dom g)) t
      | Notify n => oracle nonbuf (mkO (o_lg g) (o_eff g) (o_mails g) (o_last g) (o_dom g && (n <=? len (o_lg g)))) t
      | RInitOk p =>
          (* resumes no later than the first event whose effects are not persisted *)
          (negb (o_dom g) || covered nonbuf (o_lg g) p (o_eff g) (o_mails g))
          && oracle nonbuf (mkO (o_lg g) (o_eff g) (o_mails g) p (o_dom g)) t
      | PInvoke o _ =>
          (* strictly increasing, a triggering event, none skipped *)
          (negb (o_dom g) || (trig (o_lg g) o && (o_last g <? o) && none_between (o_lg g) (o_last g) o))
          && oracle nonbuf (mkO (o_lg g) (o_eff g) (o_mails g) o (o_dom g)) t
      | PPutWS _ offs v =>
          oracle nonbuf (mkO (o_lg g) (if wrote v then o_eff g ++ offs else o_eff g) (o_mails g) (o_last g) (o_dom g)) t
      | PMail o ok =>
          oracle nonbuf (mkO (o_lg g) (o_eff g) (if ok then o_mails g ++ [o] else o_mails g) (o_last g) (o_dom g)) t
      | PPutPos p v =>
          (* the persisted position is never ahead of the persisted effects *)
          (negb (o_dom g) || negb (wrote v) || covered nonbuf (o_lg g) p (o_eff g) (o_mails g)) && oracle nonbuf g t
      | Check p effs ms bad =>
          (* what is stored for an event is that event's own effect *)
          is_nil bad && (negb (o_dom g) || covered nonbuf (o_lg g) p effs ms) && oracle nonbuf g t
      | _ => oracle nonbuf g t
      end
  end.

Definition final_log (l : list act) : list ev :=
  flat_map (fun a => match a with Append e => [e] | _ => [] end) l.

(* when the scenario ended quiescent (log complete and notified, no faults, timers run out):
   the last observation of the store shows every triggering event's effects *)
Definition final_ok (t : trace) : bool :=
  negb (t_quiet t) ||
  match rev (t_acts t) with
  | Check p effs ms _ :: _ => covered (t_nonbuf t) (final_log (t_acts t)) (len (final_log (t_acts t))) effs ms
  | _ => false
  end.

(* domain of the property: a notification never runs ahead of the log (the command processor
   notifies after it stored the event) *)
Fixpoint dom_ok (n : N) (l : list act) : bool :=
  match l with
  | [] => true
  | Append _ :: t => dom_ok (n + 1) t
  | Notify k :: t => (k <=? n) && dom_ok n t
  | _ :: t => dom_ok n t
  end.

Definition satisfies (t : trace) : bool :=
  oracle (t_nonbuf t) (mkO [] [] [] 0 true) (t_acts t) && (negb (dom_ok 0 (t_acts t)) || final_ok t).
