(* C09 - the invariants: definitions and the facts that hold initially *)
From Coq Require Import List NArith Lia Bool ZifyNat ZifyN ZifyBool.
From V Require Import Lib.Check C09_Actualizer.Model C09_Actualizer.Lemmas.
Import ListNotations.
Local Open Scope N_scope.

(* configurations the proofs are about: batches are not empty (plogReadBatchSize > 0) and the
   view storage writes the position after the workspace batches *)
Record cfg_ok (c : cfg) : Prop := { ok_batch : 0 < c_batch c; ok_nulllast : c_nulllast c = true; ok_descmust : c_descmust c = true }.

(* the event the operator has taken and not yet handed to the projector function / is inside it *)
Definition took (p : ppc) : option N := match p with PLook o | PIn o => Some o | _ => None end.
Definition pend (j : prj) : list N := match pc j with PLook o | PIn o => [o] | _ => [] end.

(* structure: bounds, the reader's batch, the queue, the operator's program counter *)
Record InvS (s : st) : Prop := {
  i_ntf : ntf (sp s) <= len (lg (sp s));
  i_dlv : dlv (sr s) <= len (lg (sp s));
  i_pos : pos (sp s) <= len (lg (sp s));
  i_gid : g_init (sg s) <= g_done (sg s);
  i_gdn : g_done (sg s) <= len (lg (sp s));
  i_b1 : batch (sr s) = seqN (rd (sr s) + 1) (length (batch (sr s)));
  i_b2 : rd (sr s) + len (batch (sr s)) <= len (lg (sp s));
  i_r3 : forall ro, r (sr s) = RLoop ro -> ro = rd (sr s) + len (batch (sr s)) + 1;
  i_r4 : r (sr s) = RWatch -> batch (sr s) = [] /\ dlv (sr s) <= rd (sr s);
  i_q1 : alive (sj s) = true -> actv (sj s) = true -> stopped (sr s) = false ->
         q (sj s) = seqN (g_done (sg s) + 1) (length (q (sj s))) /\ rd (sr s) = g_done (sg s) + len (q (sj s));
  i_f0 : pc (sj s) <> PIdle -> alive (sj s) = true /\ actv (sj s) = true;
  i_pin : forall o, took (pc (sj s)) = Some o -> cur (sj s) = o /\ g_done (sg s) = o /\ g_init (sg s) < o /\ trig (lg (sp s)) o = true;
  i_c1 : actv (sj s) = true -> cur (sj s) = 0 \/ cur (sj s) = g_done (sg s);
  i_c2 : cur (sj s) = 0 -> bv (sj s) = [] /\ bm (sj s) = [];
  i_k3 : alive (sj s) = true -> actv (sj s) = true -> stopped (sr s) = false -> pc (sj s) = PIdle ->
         armed (sj s) = false -> tickp (sj s) = false -> bv (sj s) = [] /\ bm (sj s) = [];
  i_fp : forall w p, pc (sj s) = PFl w -> fpos (sj s) = Some p -> p = g_done (sg s)
}.

(* order: what was invoked since the last init is exactly the triggering events after the
   position that init read, up to the last offset the operator took *)
Definition InvO (s : st) : Prop :=
  g_inv (sg s) ++ pend (sj s) =
  filter (trig (lg (sp s))) (seqN (g_init (sg s) + 1) (N.to_nat (g_done (sg s) - g_init (sg s)))).

(* effects: the persisted position is covered by persisted view rows (and, in runs where every
   flush sends its mails before it writes the position - g = true -, by sent mails) *)
Record InvE (g : bool) (c : cfg) (s : st) : Prop := {
  i_t2 : forall o, o <= pos (sp s) -> trig (lg (sp s)) o = true -> In o (eff (sp s));
  i_j1 : forall o, o <= g_init (sg s) -> trig (lg (sp s)) o = true -> In o (eff (sp s));
  i_j2 : alive (sj s) = true -> actv (sj s) = true -> forall o, g_init (sg s) < o <= g_done (sg s) -> trig (lg (sp s)) o = true ->
         In o (eff (sp s)) \/ In o (bv (sj s)) \/ took (pc (sj s)) = Some o;
  i_j3 : forall w, pc (sj s) = PFl w -> forall o, In o (bv (sj s)) -> In o (eff (sp s)) \/ In o (fv (sj s));
  i_t2m : g = true -> forall o, o <= pos (sp s) -> trig (lg (sp s)) o = true -> mailev c (lg (sp s)) o = true -> In o (mails (sp s));
  i_j1m : g = true -> forall o, o <= g_init (sg s) -> trig (lg (sp s)) o = true -> mailev c (lg (sp s)) o = true -> In o (mails (sp s));
  i_j2m : g = true -> alive (sj s) = true -> actv (sj s) = true -> forall o, g_init (sg s) < o <= g_done (sg s) ->
          trig (lg (sp s)) o = true -> mailev c (lg (sp s)) o = true -> In o (mails (sp s)) \/ In o (bm (sj s)) \/ took (pc (sj s)) = Some o;
  i_j3m : g = true -> forall w, pc (sj s) = PFl w -> forall o, In o (bm (sj s)) -> In o (mails (sp s)) \/ In o (fm (sj s))
}.

Lemma InvS_init : InvS init.
Proof. constructor; cbn; intros; try lia; try discriminate; try tauto; auto. Qed.

Lemma InvO_init : InvO init.
Proof. reflexivity. Qed.

Lemma InvE_init g c : InvE g c init.
Proof.
  constructor; cbn; intros; try lia; try discriminate; try tauto;
    match goal with H : trig [] _ = true |- _ => apply trig_le_len in H; cbn in H; lia end.
Qed.
