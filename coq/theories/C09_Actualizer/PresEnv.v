(* C09 - the environment's actions preserve the structural invariant *)
From Coq Require Import List NArith Lia Bool ZifyNat ZifyN ZifyBool.
From V Require Import Lib.Check C09_Actualizer.Model C09_Actualizer.Lemmas C09_Actualizer.Inv C09_Actualizer.Tac.
Import ListNotations.
Local Open Scope N_scope.

Section Pres.
Variable c : cfg.

Lemma presS_env s a s' :
  InvS s -> input_okb s a = true -> step c s a = Some s' ->
  match a with Append _ | Notify _ | Start | Stop | Tick | Check _ _ _ _ => True | _ => False end -> InvS s'.
Proof.
  intros HI Hin H Ha. open_state s. destruct a; try contradiction; cbn in H, Hin.
  - (* Append *)
    inversion H; subst; clear H. destruct HI; cbn in *.
    constructor; cbn; fin.
    rewrite trig_app_old by lia; auto.
  - (* Notify *)
    inversion H; subst; clear H. bools. destruct HI; cbn in *. constructor; cbn; fin.
  - (* Start *)
    guards H. inversion H; subst; clear H. destruct HI; cbn in *.
    constructor; cbn; fin.
  - (* Stop *)
    guards H; inversion H; subst; clear H; destruct HI; cbn in *;
      constructor; cbn; fin.
  - (* Tick *)
    inversion H; subst; clear H. destruct HI; cbn in *.
    destruct rp; cbn; constructor; cbn; fin;
      apply i_k3; auto; destruct tp, ar; cbn in *; auto; discriminate.
  - (* Check *)
    guards H. inversion H; subst. exact HI.
Qed.

End Pres.
