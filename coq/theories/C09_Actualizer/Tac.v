(* C09 - tactics shared by the preservation proofs *)
From Coq Require Import List NArith Lia Bool ZifyNat ZifyN ZifyBool.
From V Require Import Lib.Check C09_Actualizer.Model C09_Actualizer.Lemmas C09_Actualizer.Inv.
Import ListNotations.
Local Open Scope N_scope.

Ltac open_state s :=
  destruct s as [[L E M ps nf] [rp rdo b dl stp] [al ac qq pcc cu acc si bv bm ar tp fv fp fm fs] [gi gd gv]].

Ltac bools :=
  repeat match goal with
  | H : _ && _ = true |- _ => apply andb_true_iff in H; destruct H
  | H : _ || _ = false |- _ => apply orb_false_iff in H; destruct H
  | H : negb _ = true |- _ => apply negb_true_iff in H
  | H : negb _ = false |- _ => apply negb_false_iff in H
  | H : (_ =? _) = true |- _ => apply N.eqb_eq in H
  | H : (_ =? _) = false |- _ => apply N.eqb_neq in H
  | H : (_ <=? _) = true |- _ => apply N.leb_le in H
  | H : (_ <=? _) = false |- _ => apply N.leb_gt in H
  | H : (_ <? _) = true |- _ => apply N.ltb_lt in H
  | H : (_ <? _) = false |- _ => apply N.ltb_ge in H
  | H : is_nil _ = true |- _ => apply is_nil_true in H
  | H : list_eqb N.eqb _ _ = true |- _ => apply list_eqb_N in H
  | H : Bool.eqb _ _ = true |- _ => apply Bool.eqb_prop in H
  end.

(* case analysis on the guards of a step, closing the disabled branches *)
Ltac is_simple x :=
  lazymatch x with
  | context [match _ with _ => _ end] => fail
  | context [if _ then _ else _] => fail
  | _ => idtac
  end.
Ltac guards H :=
  repeat match type of H with
  | context [match ?x with _ => _ end] => is_simple x; destruct x eqn:?; try discriminate H
  | context [if ?x then _ else _] => is_simple x; destruct x eqn:?; try discriminate H
  end.

Ltac lens := rewrite ?len_snoc, ?len_app, ?len_cons, ?len_nil in *.
Ltac use_all :=
  repeat match goal with
  | I : ?A -> _, H : ?A |- _ => specialize (I H)
  | I : ?x = ?x -> _ |- _ => specialize (I eq_refl)
  | I : forall o, took ?x = Some o -> _, H : took ?x = Some ?o |- _ => specialize (I _ H)
  | I : forall o, Some ?n = Some o -> _ |- _ => specialize (I _ eq_refl)
  | I : forall o, ?x = RLoop o -> _, H : ?x = RLoop ?o |- _ => specialize (I _ H)
  | I : forall w p, ?x = PFl w -> _, H : ?x = PFl ?w |- _ => specialize (fun p => I _ p H)
  | I : forall w, ?x = PFl w -> _, H : ?x = PFl ?w |- _ => specialize (I _ H)
  | I : _ /\ _ |- _ => destruct I
  end.
Ltac arith :=
  lazymatch goal with
  | |- @eq N _ _ => lia
  | |- @eq nat _ _ => lia
  | |- _ <= _ => lia
  | |- _ < _ => lia
  | |- False => lia
  end.
Ltac injs :=
  repeat match goal with
  | H : PIn _ = PIn _ |- _ => injection H as H
  | H : RLoop _ = RLoop _ |- _ => injection H as H
  | H : PFl _ = PFl _ |- _ => injection H as H
  | H : PWant _ = PWant _ |- _ => injection H as H
  | H : Some _ = Some _ |- _ => injection H as H
  | H : (if ?b then Some _ else None) = Some _ |- _ => destruct b eqn:?; [injection H as H | discriminate H]
  end.
Ltac fin := intros; lens; use_all; injs; subst; use_all; repeat split; try reflexivity; try discriminate; try (solve [eauto 3]); try congruence; try arith;
            try (exfalso; lia).

