(* C09 - every action preserves the order invariant InvO (given the structural one) *)
From Coq Require Import List NArith Lia Bool ZifyNat ZifyN ZifyBool.
From V Require Import Lib.Check C09_Actualizer.Model C09_Actualizer.Lemmas C09_Actualizer.Inv C09_Actualizer.Tac.
Import ListNotations.
Local Open Scope N_scope.

Lemma range_snoc gi gd : gi <= gd ->
  seqN (gi + 1) (N.to_nat (gd + 1 - gi)) = seqN (gi + 1) (N.to_nat (gd - gi)) ++ [gd + 1].
Proof.
  intros H. replace (N.to_nat (gd + 1 - gi)) with (S (N.to_nat (gd - gi))) by lia.
  rewrite seqN_snoc. f_equal. f_equal. lia.
Qed.

Lemma presO c s a s' : c_descmust c = true -> InvS s -> InvO s -> step c s a = Some s' -> InvO s'.
Proof.
  intros Hdm HS HO H. unfold InvO in *. open_state s. destruct a; cbn in H; unfold flow in H; cbn in H.
  all: try (guards H; inversion H; subst; clear H; cbn in *; try (destruct tp; cbn); try (destruct w; cbn); exact HO).
  - (* Append *)
    inversion H; subst; clear H. destruct HS; cbn in *.
    rewrite filter_trig_app_old; [exact HO|].
    intros x Hx. apply In_seqN in Hx. lia.
  - (* RInitOk *)
    guards H; inversion H; subst; clear H. cbn. rewrite N.sub_diag. reflexivity.
  - (* PLookup: the descriptor is absent - an error, the event was not invoked *)
    guards H; inversion H; subst; clear H; bools; subst; try congruence; cbn in *; try exact HO. destruct HS; cbn in *.
    destruct (i_pin _ eq_refl) as (_ & Hgd & Hlt & Ht). subst. rewrite ?app_nil_r.
    match type of HO with _ ++ [?n] = filter _ (seqN (?g + 1) _) =>
      replace (N.to_nat (n - g)) with (S (N.to_nat (n - 1 - g))) in HO by lia;
      rewrite seqN_snoc, filter_snoc in HO;
      replace (g + 1 + N.of_nat (N.to_nat (n - 1 - g))) with n in HO by lia end.
    rewrite Ht in HO. apply app_inj_tail in HO. exact (proj1 HO).
  - (* PInvoke *)
    guards H; inversion H; subst; clear H; bools; subst; cbn in *; try (destruct tp; cbn);
      rewrite app_nil_r; exact HO.
  - (* HTake *)
    guards H; inversion H; subst; clear H. bools. subst. destruct HS; cbn in *.
    destruct (i_q1 eq_refl eq_refl eq_refl) as [Qa _]. cbn in Qa. injection Qa as Qo _. subst n.
    rewrite app_nil_r in HO. rewrite range_snoc by exact i_gid. rewrite filter_snoc, H0, HO. reflexivity.
  - (* HSkip *)
    guards H; inversion H; subst; clear H. bools. subst. destruct HS; cbn in *.
    destruct (i_q1 eq_refl eq_refl eq_refl) as [Qa _]. cbn in Qa. injection Qa as Qo _. subst n.
    rewrite range_snoc by exact i_gid. rewrite filter_snoc, H0. destruct tp; exact HO.
  - (* HTimer *)
    guards H; inversion H; subst; clear H; cbn in *. destruct ac, stp; exact HO.
Qed.
