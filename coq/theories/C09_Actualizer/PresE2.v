(* C09 - InvE preservation, continued *)
From Coq Require Import List NArith Lia Bool ZifyNat ZifyN ZifyBool.
From V Require Import Lib.Check C09_Actualizer.Model C09_Actualizer.Lemmas C09_Actualizer.Inv C09_Actualizer.Tac.
Import ListNotations.
Local Open Scope N_scope.

Section Pres.
Variable g : bool.
Variable c : cfg.
Hypothesis Hc : cfg_ok c.

Ltac startE HS HE Hg H s :=
  intros HS HE Hg H; destruct Hc as [Hb Hn Hdm]; open_state s; cbn in H, Hg; unfold flow in H; cbn in H.

Lemma presE_PPutPos s p v s' :
  InvS s -> InvE g c s -> (g = true -> mail_first_okb s (PPutPos p v) = true) -> step c s (PPutPos p v) = Some s' -> InvE g c s'.
Proof.
  startE HS HE Hg H s.
  guards H; inversion H; subst; clear H; bools; subst; destruct HS, HE; cbn in *;
    destruct (i_f0 ltac:(intro X; discriminate X)) as [F1 F2]; subst;
    pose proof (i_fp _ _ eq_refl eq_refl) as Fp; subst; rewrite Hn in *; cbn in *; bools; subst;
    try (destruct w; cbn); constructor; cbn; intros; try discriminate; eauto.
  all: try (edestruct i_j2 as [A|[A|A]]; [reflexivity|reflexivity|eassumption|eassumption| | |];
            [left; exact A | right; left; exact A | right; right; exact A]).
  all: match goal with
       | Gt : g = true |- _ =>
           specialize (Hg Gt); apply is_nil_true in Hg; subst;
           match goal with X : ?o <= _ |- In ?o _ =>
             match type of i_j1 with forall o, o <= ?G -> _ => destruct (N.le_gt_cases o G) as [Le|Lt] end; [eapply i_j1m; first [eassumption|reflexivity]|];
             edestruct i_j2m as [A|[A|A]]; [first [eassumption|reflexivity]|reflexivity|reflexivity|split; [exact Lt|eassumption]|eassumption|eassumption|exact A| |discriminate A];
             edestruct i_j3m as [B|B]; [first [eassumption|reflexivity]|reflexivity|exact A|exact B|destruct B]
           end
       | X : ?o <= _ |- In ?o _ =>
           match type of i_j1 with forall o, o <= ?G -> _ => destruct (N.le_gt_cases o G) as [Le|Lt] end; [eapply i_j1; eassumption|];
           edestruct i_j2 as [A|[A|A]]; [reflexivity|reflexivity|split; [exact Lt|eassumption]|eassumption|exact A| |discriminate A];
           edestruct i_j3 as [B|B]; [reflexivity|exact A|exact B|destruct B]
       end.
Qed.

Ltac jcase A :=
  first [ left; exact A
        | right; left; first [exact A | apply in_or_app; left; exact A]
        | left; apply in_or_app; left; exact A
        | right; right; exact A
        | discriminate A ].
Ltac j2_with Jm J :=
  match goal with |- In ?o _ \/ _ =>
    first
      [ edestruct (Jm ltac:(first [eassumption|reflexivity]) eq_refl eq_refl o) as [A|[A|A]];
          [first [eassumption|lia]|eassumption|eassumption| | |]; jcase A
      | edestruct (J eq_refl eq_refl o) as [A|[A|A]]; [first [eassumption|lia]|eassumption| | |]; jcase A ]
  end.

Lemma presE_PMail s o ok s' :
  InvS s -> InvE g c s -> (g = true -> mail_first_okb s (PMail o ok) = true) -> step c s (PMail o ok) = Some s' -> InvE g c s'.
Proof.
  startE HS HE Hg H s.
  guards H; inversion H; subst; clear H; bools; subst; destruct HS, HE; cbn in *;
    destruct (i_f0 ltac:(intro X; discriminate X)) as [F1 F2]; subst; try (destruct w; cbn);
    constructor; cbn; intros; try discriminate; eauto using in_or_app.
  all: try (j2_with i_j2m i_j2).
  all: match goal with X : PFl _ = PFl _ |- _ => clear X end;
       edestruct i_j3m as [A|A]; [eassumption|reflexivity|eassumption| left; apply in_or_app; left; exact A |];
       destruct A as [A|A]; [subst; left; apply in_or_app; right; left; reflexivity | right; exact A].
Qed.

Lemma presE_HTake s s' :
  InvS s -> InvE g c s -> (g = true -> mail_first_okb s HTake = true) -> step c s HTake = Some s' -> InvE g c s'.
Proof.
  startE HS HE Hg H s.
  guards H; inversion H; subst; clear H; bools; subst; destruct HS, HE; cbn in *.
  destruct (i_q1 eq_refl eq_refl eq_refl) as [Qa _]; cbn in Qa; injection Qa as Qo _; subst.
  constructor; cbn; intros; try discriminate; eauto.
  all: match goal with R : _ < ?o <= ?gd + 1 |- _ =>
         destruct (N.eq_dec o (gd + 1)) as [->|Ne]; [right; right; reflexivity|] end.
  all: j2_with i_j2m i_j2.
Qed.

Lemma presE_HSkip s s' :
  InvS s -> InvE g c s -> (g = true -> mail_first_okb s HSkip = true) -> step c s HSkip = Some s' -> InvE g c s'.
Proof.
  startE HS HE Hg H s.
  guards H; inversion H; subst; clear H; bools; subst; destruct HS, HE; cbn in *.
  destruct (i_q1 eq_refl eq_refl eq_refl) as [Qa _]; cbn in Qa; injection Qa as Qo _; subst.
  destruct tp; cbn; constructor; cbn; intros; try discriminate; eauto.
  all: match goal with R : _ < ?o <= ?gd + 1 |- _ =>
         destruct (N.eq_dec o (gd + 1)) as [->|Ne]; [congruence|] end.
  all: j2_with i_j2m i_j2.
Qed.

Lemma presE_HTimer s s' :
  InvS s -> InvE g c s -> (g = true -> mail_first_okb s HTimer = true) -> step c s HTimer = Some s' -> InvE g c s'.
Proof.
  startE HS HE Hg H s.
  guards H; inversion H; subst; clear H; bools; subst; destruct HS, HE; cbn in *.
  destruct ac, stp; cbn; constructor; cbn; intros; try discriminate; eauto.
  all: j2_with i_j2m i_j2.
Qed.

Lemma presE_HClose s s' :
  InvS s -> InvE g c s -> (g = true -> mail_first_okb s HClose = true) -> step c s HClose = Some s' -> InvE g c s'.
Proof.
  startE HS HE Hg H s.
  guards H; inversion H; subst; clear H; bools; subst; destruct HS, HE; cbn in *;
    constructor; cbn; intros; try discriminate; eauto.
  all: j2_with i_j2m i_j2.
Qed.

Lemma presE_HFlushDone s s' :
  InvS s -> InvE g c s -> (g = true -> mail_first_okb s HFlushDone = true) -> step c s HFlushDone = Some s' -> InvE g c s'.
Proof.
  startE HS HE Hg H s.
  guards H; inversion H; subst; clear H; bools; subst; destruct HS, HE; cbn in *;
    destruct (i_f0 ltac:(intro X; discriminate X)) as [F1 F2]; subst; destruct w; cbn; try (destruct tp; cbn);
    constructor; cbn; intros; try discriminate; eauto.
  all: match goal with
       | |- In ?o _ \/ _ =>
         first
           [ edestruct (i_j2m ltac:(first [eassumption|reflexivity]) eq_refl eq_refl o) as [A|[A|A]];
               [eassumption|eassumption|eassumption|left; exact A| |discriminate A];
             edestruct i_j3m as [B|B]; [first [eassumption|reflexivity]|reflexivity|exact A|left; exact B|destruct B]
           | edestruct (i_j2 eq_refl eq_refl o) as [A|[A|A]]; [eassumption|eassumption|left; exact A| |discriminate A];
             edestruct i_j3 as [B|B]; [reflexivity|exact A|left; exact B|destruct B] ]
       end.
Qed.

Lemma presE_PLookup s o present s' :
  InvS s -> InvE g c s -> (g = true -> mail_first_okb s (PLookup o present) = true) -> step c s (PLookup o present) = Some s' -> InvE g c s'.
Proof.
  startE HS HE Hg H s.
  guards H; inversion H; subst; clear H; bools; subst; try congruence; destruct HS, HE; cbn in *;
    constructor; cbn; intros; try discriminate; eauto.
Qed.

End Pres.
