(* C09 - the invariants hold along every run; the property theorems *)
From Coq Require Import List NArith Lia Bool ZifyNat ZifyN ZifyBool.
From V Require Import Lib.Check C09_Actualizer.Model C09_Actualizer.Lemmas C09_Actualizer.Inv C09_Actualizer.Tac
  C09_Actualizer.PresEnv C09_Actualizer.PresR C09_Actualizer.PresP C09_Actualizer.PresO C09_Actualizer.PresE C09_Actualizer.PresE2.
Import ListNotations.
Local Open Scope N_scope.

Lemma presS c s a s' : cfg_ok c -> InvS s -> input_okb s a = true -> step c s a = Some s' -> InvS s'.
Proof.
  intros Hc HS Hin H.
  destruct a;
    first [ eapply presS_env; [exact HS | exact Hin | exact H | exact I]
          | eapply presS_RInitOk; eassumption | eapply presS_RInitErr; eassumption
          | eapply presS_RReadEnd; eassumption | eapply presS_RReadEndErr; eassumption
          | eapply presS_RReadOne; eassumption | eapply presS_RReadOneErr; eassumption
          | eapply presS_HLoopExit; eassumption | eapply presS_HSend; eassumption
          | eapply presS_HNextRound; eassumption | eapply presS_HDeliver; eassumption
          | eapply presS_HNotice; eassumption | eapply presS_HClosed; eassumption
          | eapply presS_HRetryStop; eassumption
          | eapply presS_HTake; eassumption | eapply presS_HSkip; eassumption | eapply presS_HDrop; eassumption
          | eapply presS_PLookup; eassumption | eapply presS_PInvoke; eassumption | eapply presS_HTimer; eassumption | eapply presS_HClose; eassumption
          | eapply presS_PFlushStart; eassumption | eapply presS_PPutWS; eassumption | eapply presS_PPutPos; eassumption
          | eapply presS_PMail; eassumption | eapply presS_HFlushDone; eassumption ].
Qed.

Lemma presE g c s a s' :
  cfg_ok c -> InvS s -> InvE g c s -> (g = true -> mail_first_okb s a = true) -> step c s a = Some s' -> InvE g c s'.
Proof.
  intros Hc HS HE Hg H.
  destruct a;
    try first [ eapply presE_PLookup; eassumption | eapply presE_Append; eassumption | eapply presE_RInitOk; eassumption | eapply presE_PInvoke; eassumption
              | eapply presE_PFlushStart; eassumption | eapply presE_PPutWS; eassumption | eapply presE_PPutPos; eassumption
              | eapply presE_PMail; eassumption | eapply presE_HTake; eassumption | eapply presE_HSkip; eassumption
              | eapply presE_HTimer; eassumption | eapply presE_HClose; eassumption | eapply presE_HFlushDone; eassumption ].
  all: open_state s; cbn in H; guards H; inversion H; subst; clear H; destruct HE; cbn in *; constructor; cbn; assumption.
Qed.

Record Inv (g : bool) (c : cfg) (s : st) : Prop := { inv_s : InvS s; inv_o : InvO s; inv_e : InvE g c s }.

Lemma Inv_init g c : Inv g c init.
Proof. constructor; [apply InvS_init | apply InvO_init | apply InvE_init]. Qed.

Lemma runG_inv g c : cfg_ok c -> forall l s s', Inv g c s -> runG g c s l = Some s' -> Inv g c s'.
Proof.
  intros Hc l. induction l as [|a l IH]; intros s s' HI H; cbn in H.
  - inversion H; subst; exact HI.
  - destruct (input_okb s a) eqn:Ein; cbn in H; [|discriminate].
    destruct (negb g || mail_first_okb s a) eqn:Eg; [|discriminate].
    destruct (step c s a) as [s1|] eqn:Es; [|discriminate].
    apply (IH s1 s'); [|exact H]. destruct HI as [HS HO HE]. constructor.
    + eapply presS; eassumption.
    + eapply presO; try eassumption. exact (ok_descmust _ Hc).
    + eapply presE; try eassumption. intros ->. exact Eg.
Qed.

(* ---- the property theorems ---- *)

Lemma run_inv g c l s : cfg_ok c -> runG g c init l = Some s -> Inv g c s.
Proof. intros Hc H. eapply runG_inv; [exact Hc | apply Inv_init | exact H]. Qed.

(* history variables = what the run shows *)
Lemma step_track c s a s' : step c s a = Some s' ->
  track (g_init (sg s), g_inv (sg s)) a = (g_init (sg s'), g_inv (sg s')).
Proof.
  intros H. open_state s. destruct a; cbn in H; unfold flow in H; cbn in H;
    guards H; inversion H; subst; clear H; cbn; bools; subst; try reflexivity;
    try (destruct tp; reflexivity); try (destruct w; try destruct tp; reflexivity).
Qed.

Lemma runG_track g c l : forall s s', runG g c s l = Some s' ->
  fold_left track l (g_init (sg s), g_inv (sg s)) = (g_init (sg s'), g_inv (sg s')).
Proof.
  induction l as [|a l IH]; intros s s' H; cbn in H.
  - inversion H; reflexivity.
  - destruct (input_okb s a && (negb g || mail_first_okb s a)); [|discriminate].
    destruct (step c s a) as [s1|] eqn:Es; [|discriminate].
    cbn [fold_left]. rewrite (step_track _ _ _ _ Es). apply IH. exact H.
Qed.

Theorem invoked_in_order_proved c l s : cfg_ok c -> runG false c init l = Some s ->
  exists k, snd (tracked l) = filter (trig (lg (sp s))) (seqN (fst (tracked l) + 1) k)
            /\ fst (tracked l) + N.of_nat k <= len (lg (sp s)).
Proof.
  intros Hc H. pose proof (run_inv _ _ _ _ Hc H) as [HS HO _].
  unfold tracked. change (0, @nil N) with (g_init (sg init), g_inv (sg init)).
  rewrite (runG_track _ _ _ _ _ H). cbn [fst snd]. unfold InvO in HO.
  destruct HS. unfold pend in HO. destruct (pc (sj s)) eqn:Epc.
  1,4,5: exists (N.to_nat (g_done (sg s) - g_init (sg s))); rewrite app_nil_r in HO; split; [exact HO | lia].
  all: destruct (i_pin _ eq_refl) as (_ & Hd & Hlt & Ht); subst o.
  all: exists (N.to_nat (g_done (sg s) - 1 - g_init (sg s))); (split; [|lia]).
  all: replace (N.to_nat (g_done (sg s) - g_init (sg s))) with (S (N.to_nat (g_done (sg s) - 1 - g_init (sg s)))) in HO by lia.
  all: rewrite seqN_snoc, filter_snoc in HO.
  all: replace (g_init (sg s) + 1 + N.of_nat (N.to_nat (g_done (sg s) - 1 - g_init (sg s)))) with (g_done (sg s)) in HO by lia.
  all: rewrite Ht in HO; apply app_inj_tail in HO; exact (proj1 HO).
Qed.

Theorem position_le_effects_proved c l s : cfg_ok c -> runG false c init l = Some s ->
  forall o, o <= pos (sp s) -> trig (lg (sp s)) o = true -> In o (eff (sp s)).
Proof. intros Hc H. exact (i_t2 _ _ _ (inv_e _ _ _ (run_inv _ _ _ _ Hc H))). Qed.

Theorem position_le_mails_partial_proved c l s : cfg_ok c -> runG true c init l = Some s ->
  forall o, o <= pos (sp s) -> trig (lg (sp s)) o = true -> mailev c (lg (sp s)) o = true -> In o (mails (sp s)).
Proof. intros Hc H. exact (i_t2m _ _ _ (inv_e _ _ _ (run_inv _ _ _ _ Hc H)) eq_refl). Qed.

(* with the view storage flushed last (c_viewlast) every run sends the mails first *)
Lemma viewlast_mail_first c s a s' : c_viewlast c = true -> step c s a = Some s' -> mail_first_okb s a = true.
Proof.
  intros Hv H. destruct a; try reflexivity. cbn. destruct (wrote v); [cbn | reflexivity].
  open_state s. cbn in *. unfold flow in H; cbn in H.
  destruct pcc; try discriminate H. destruct fp; try discriminate H.
  match type of H with context [if ?b then _ else _] => destruct b eqn:Eb; [|discriminate H] end.
  unfold view_turn in Eb. cbn in Eb. rewrite Hv in Eb. cbn in Eb.
  destruct (is_nil fm); [reflexivity|]. rewrite andb_false_r in Eb. discriminate Eb.
Qed.

Lemma runG_viewlast c l : c_viewlast c = true -> forall s s', runG false c s l = Some s' -> runG true c s l = Some s'.
Proof.
  intros Hv. induction l as [|a l IH]; intros s s' H; cbn in *; [exact H|].
  destruct (input_okb s a); cbn in *; [|discriminate].
  destruct (step c s a) as [s1|] eqn:Es; [|discriminate].
  rewrite (viewlast_mail_first _ _ _ _ Hv Es). apply IH. exact H.
Qed.

Theorem position_le_mails_viewlast_proved c l s : cfg_ok c -> c_viewlast c = true -> runG false c init l = Some s ->
  forall o, o <= pos (sp s) -> trig (lg (sp s)) o = true -> mailev c (lg (sp s)) o = true -> In o (mails (sp s)).
Proof. intros Hc Hv H. eapply position_le_mails_partial_proved; [exact Hc | apply runG_viewlast; eassumption]. Qed.

Theorem resume_not_past_unpersisted_proved c l s p s' : cfg_ok c -> runG false c init l = Some s ->
  step c s (RInitOk p) = Some s' ->
  rd (sr s') = pos (sp s') /\ forall o, trig (lg (sp s')) o = true -> ~ In o (eff (sp s')) -> rd (sr s') < o.
Proof.
  intros Hc H Hs. pose proof (position_le_effects_proved _ _ _ Hc H) as T.
  open_state s. cbn in Hs. guards Hs. inversion Hs; subst; clear Hs. bools. subst. cbn in *.
  split; [reflexivity|]. intros o Ht Hn. destruct (N.ltb_spec ps o) as [?|Hle]; [assumption|]. exfalso. apply Hn. apply T; assumption.
Qed.

(* all effects, when the view storage is flushed last *)
Theorem resume_all_effects_proved c l s p s' : cfg_ok c -> c_viewlast c = true -> runG false c init l = Some s ->
  step c s (RInitOk p) = Some s' ->
  rd (sr s') = pos (sp s') /\
  forall o, trig (lg (sp s')) o = true ->
            (~ In o (eff (sp s')) \/ (mailev c (lg (sp s')) o = true /\ ~ In o (mails (sp s')))) -> rd (sr s') < o.
Proof.
  intros Hc Hv H Hs. pose proof (position_le_effects_proved _ _ _ Hc H) as T.
  pose proof (position_le_mails_viewlast_proved _ _ _ Hc Hv H) as Tm.
  open_state s. cbn in Hs. guards Hs. inversion Hs; subst; clear Hs. bools. subst. cbn in *.
  split; [reflexivity|]. intros o Ht Hn. destruct (N.ltb_spec ps o) as [?|Hle]; [assumption|]. exfalso.
  destruct Hn as [Hn|[Hm Hn]]; apply Hn; [apply T | apply Tm]; assumption.
Qed.

Lemma quiescent_inv g c s : Inv g c s -> quiescentb s = true ->
  forall o, trig (lg (sp s)) o = true ->
  In o (eff (sp s)) /\ (g = true -> mailev c (lg (sp s)) o = true -> In o (mails (sp s))).
Proof.
  intros [HS _ HE] Hq o Ht.
  apply trig_le_len in Ht as Hlen. unfold quiescentb in Hq.
  destruct s as [P R J G]. destruct HS, HE. cbn in *.
  destruct (r R) eqn:Er; try discriminate. destruct (pc J) eqn:Epc; try discriminate. destruct (q J) eqn:Eq; try discriminate.
  bools. destruct (i_r4 eq_refl) as [Hb0 Hd]. rewrite Hb0 in *.
  destruct (i_q1 ltac:(assumption) ltac:(assumption) ltac:(assumption)) as [_ Hrd]. rewrite len_nil in *.
  destruct (i_k3 ltac:(assumption) ltac:(assumption) ltac:(assumption) eq_refl ltac:(assumption) ltac:(assumption)) as [Hbv Hbm].
  assert (Hgd : g_done G = len (lg P)) by lia.
  split.
  - destruct (N.le_gt_cases o (g_init G)) as [Hle|Hgt]; [apply i_j1; assumption|].
    destruct (i_j2 ltac:(assumption) ltac:(assumption) o ltac:(lia) Ht) as [A|[A|A]]; [exact A| rewrite Hbv in A; destruct A | discriminate A].
  - intros Hg Hm. destruct (N.le_gt_cases o (g_init G)) as [Hle|Hgt]; [apply i_j1m; assumption|].
    destruct (i_j2m Hg ltac:(assumption) ltac:(assumption) o ltac:(lia) Ht Hm) as [A|[A|A]]; [exact A| rewrite Hbm in A; destruct A | discriminate A].
Qed.

Theorem quiescent_all_effects_proved g c l s : cfg_ok c -> runG g c init l = Some s -> quiescentb s = true ->
  forall o, trig (lg (sp s)) o = true ->
  In o (eff (sp s)) /\ (g = true -> mailev c (lg (sp s)) o = true -> In o (mails (sp s))).
Proof. intros Hc H. apply quiescent_inv. exact (run_inv _ _ _ _ Hc H). Qed.

Theorem quiescent_all_effects_viewlast_proved c l s : cfg_ok c -> c_viewlast c = true -> runG false c init l = Some s ->
  quiescentb s = true -> forall o, trig (lg (sp s)) o = true ->
  In o (eff (sp s)) /\ (mailev c (lg (sp s)) o = true -> In o (mails (sp s))).
Proof.
  intros Hc Hv H Hq o Ht. apply (runG_viewlast _ _ Hv) in H.
  destruct (quiescent_all_effects_proved true c l s Hc H Hq o Ht) as [A B]. split; [exact A | exact (B eq_refl)].
Qed.

(* every action of a run was enabled where it was taken *)
Lemma runG_in_enabled g c : forall l s s', runG g c s l = Some s' ->
  forall a, In a l -> exists s0 s1, step c s0 a = Some s1.
Proof.
  induction l as [|x l IH]; intros s s' H a Ha; [contradiction|]. cbn in H.
  destruct (input_okb s x && (negb g || mail_first_okb s x)); [|discriminate].
  destruct (step c s x) as [s1|] eqn:Es; [|discriminate].
  destruct Ha as [->|Ha]; [exists s, s1; exact Es | exact (IH _ _ H _ Ha)].
Qed.

(* when events are held until the flush that stores their intents, no look at the store finds a row
   with another event's content (the model admits such a look only in the early-release variant) *)
Theorem stored_content_is_own_proved g c l s : c_earlyrel c = false -> runG g c init l = Some s ->
  forall p effs ms bad, In (Check p effs ms bad) l -> bad = [].
Proof.
  intros He H p effs ms bad Hin. destruct (runG_in_enabled _ _ _ _ _ H _ Hin) as (s0 & s1 & Es).
  cbn in Es. rewrite He in Es. cbn in Es.
  destruct bad; [reflexivity|]. cbn in Es. rewrite !andb_false_r in Es. discriminate.
Qed.
