(* C09 - the reader's actions preserve the structural invariant *)
From Coq Require Import List NArith Lia Bool ZifyNat ZifyN ZifyBool.
From V Require Import Lib.Check C09_Actualizer.Model C09_Actualizer.Lemmas C09_Actualizer.Inv C09_Actualizer.Tac.
Import ListNotations.
Local Open Scope N_scope.

Section Pres.
Variable c : cfg.
Hypothesis Hc : cfg_ok c.

Ltac start HI H s := intros HI H; destruct Hc as [Hb Hn Hdm]; open_state s; cbn in H.

Lemma presS_RInitOk s p s' : InvS s -> step c s (RInitOk p) = Some s' -> InvS s'.
Proof.
  start HI H s. guards H. inversion H; subst; clear H. bools. subst. destruct HI; cbn in *.
  constructor; cbn; fin.
Qed.

Lemma presS_RInitErr s s' : InvS s -> step c s RInitErr = Some s' -> InvS s'.
Proof.
  start HI H s. guards H; inversion H; subst; clear H; destruct HI; cbn in *; constructor; cbn; fin.
Qed.

Lemma presS_RReadEnd s got s' : InvS s -> step c s (RReadEnd got) = Some s' -> InvS s'.
Proof.
  start HI H s. guards H; inversion H; subst; clear H; bools; subst; destruct HI; cbn in *; lens.
  - assert (Hz : N.to_nat (N.min (c_batch c) (len L - rdo)) = 0%nat).
    { destruct (N.to_nat (N.min (c_batch c) (len L - rdo))); [reflexivity | discriminate]. }
    constructor; cbn; fin; try (rewrite seqN_length; reflexivity); try (unfold len in *; rewrite seqN_length; lia).
  - constructor; cbn; fin; try (rewrite seqN_length; reflexivity); try (unfold len in *; rewrite seqN_length; lia).
Qed.

Lemma presS_RReadEndErr s s' : InvS s -> step c s RReadEndErr = Some s' -> InvS s'.
Proof.
  start HI H s. guards H; inversion H; subst; clear H; destruct HI; cbn in *; constructor; cbn; fin.
Qed.

Lemma presS_RReadOne s o found s' : InvS s -> step c s (RReadOne o found) = Some s' -> InvS s'.
Proof.
  start HI H s. guards H; inversion H; subst; clear H; bools; subst; destruct HI; cbn in *;
    pose proof (i_r3 _ eq_refl) as Hro.
  - match goal with X : true = (_ <=? _) |- _ => symmetry in X; apply N.leb_le in X end.
    constructor; cbn; fin.
    all: try (rewrite app_length; cbn; replace (length b + 1)%nat with (S (length b)) by lia;
              rewrite seqN_snoc, <- i_b1; f_equal; f_equal; unfold len in *; lia).
  - exfalso. match goal with X : false = (_ <=? _) |- _ => symmetry in X; apply N.leb_gt in X end. lia.
Qed.
Lemma presS_RReadOneErr s o s' : InvS s -> step c s (RReadOneErr o) = Some s' -> InvS s'.
Proof.
  start HI H s. guards H; inversion H; subst; clear H; destruct HI; cbn in *; constructor; cbn; fin.
Qed.

Lemma presS_HLoopExit s s' : InvS s -> step c s HLoopExit = Some s' -> InvS s'.
Proof.
  start HI H s. guards H; inversion H; subst; clear H; bools; subst; destruct HI; cbn in *;
    pose proof (i_r3 _ eq_refl) as Hro; constructor; cbn; fin.
Qed.

Lemma presS_HSend s s' : InvS s -> step c s HSend = Some s' -> InvS s'.
Proof.
  start HI H s.
  guards H; inversion H; subst; clear H; bools; destruct HI; cbn in *;
    injection i_b1 as Ho Hl; subst n; constructor; cbn; fin.
  all: try (rewrite Hl at 1; f_equal; lia).
  all: match goal with Q : ?q = seqN _ (length ?q) |- ?q ++ [_] = _ =>
         rewrite app_length; cbn; replace (length q + 1)%nat with (S (length q)) by lia;
         rewrite seqN_snoc, <- Q; f_equal; f_equal; unfold len in *; lia end.
Qed.

Lemma presS_HNextRound s s' : InvS s -> step c s HNextRound = Some s' -> InvS s'.
Proof.
  start HI H s. guards H; inversion H; subst; clear H; destruct HI; cbn in *; constructor; cbn; fin.
Qed.

Lemma presS_HDeliver s s' : InvS s -> step c s HDeliver = Some s' -> InvS s'.
Proof.
  start HI H s.
  guards H; inversion H; subst; clear H; bools; destruct HI; cbn in *; destruct (i_r4 eq_refl) as [Hb0 Hd]; subst b;
    constructor; cbn; fin.
Qed.

Lemma presS_HNotice s s' : InvS s -> step c s HNotice = Some s' -> InvS s'.
Proof.
  start HI H s. guards H; inversion H; subst; clear H; destruct HI; cbn in *; constructor; cbn; fin.
Qed.

Lemma presS_HClosed s s' : InvS s -> step c s HClosed = Some s' -> InvS s'.
Proof.
  start HI H s. guards H; inversion H; subst; clear H; destruct HI; cbn in *; constructor; cbn; fin.
Qed.

Lemma presS_HRetryStop s s' : InvS s -> step c s HRetryStop = Some s' -> InvS s'.
Proof.
  start HI H s. guards H; inversion H; subst; clear H; destruct HI; cbn in *; constructor; cbn; fin.
Qed.

End Pres.
