(* C09 - the oracle (`satisfies`) passes on every trace the model accepts inside the property's
   domain: what the check demands of observed behaviour is implied by the theorems about the model. *)
From Coq Require Import List NArith Lia Bool Sorting.Sorted ZifyNat ZifyN ZifyBool.
From V Require Import Lib.Check C09_Actualizer.Model C09_Actualizer.Lemmas C09_Actualizer.Inv C09_Actualizer.Tac
  C09_Actualizer.Proofs C09_Actualizer.Link.
Import ListNotations.
Local Open Scope N_scope.

(* ---- what an action does to the observable part of the state ---- *)
Lemma step_obs c s a s' : step c s a = Some s' ->
  eff (sp s') = (match a with PPutWS _ offs v => if wrote v then eff (sp s) ++ offs else eff (sp s) | _ => eff (sp s) end) /\
  mails (sp s') = (match a with PMail o ok => if ok then mails (sp s) ++ [o] else mails (sp s) | _ => mails (sp s) end).
Proof.
  intros H. open_state s. destruct a; cbn in H; unfold flow in H; cbn in H;
    guards H; inversion H; subst; clear H; split; reflexivity.
Qed.

Definition silent (a : act) : bool :=
  match a with
  | HSend | HLoopExit | HNextRound | HDeliver | HNotice | HClosed | HRetryStop
  | HTake | HSkip | HDrop | HTimer | HClose | HFlushDone => true
  | _ => false
  end.

Lemma hidden_silent h : In h hidden_order -> silent h = true.
Proof. cbn. intros H. repeat (destruct H as [<-|H]; [reflexivity|]). destruct H. Qed.

Lemma settle_silent c fuel : forall s, forallb silent (settle_acts c fuel s) = true.
Proof.
  induction fuel as [|k IH]; intros s; cbn [settle_acts]; [reflexivity|].
  destruct (first_enabled c s hidden_order) as [[h s']|] eqn:E; [|reflexivity].
  cbn [forallb]. apply first_enabled_in in E. rewrite (hidden_silent _ (proj1 E)). apply IH.
Qed.

Local Opaque fuel0.
Local Arguments settle_acts : simpl never.

Lemma silent_obs c l : forallb silent l = true -> forall s s', run c s l = Some s' ->
  eff (sp s') = eff (sp s) /\ mails (sp s') = mails (sp s) /\ g_init (sg s') = g_init (sg s) /\ g_inv (sg s') = g_inv (sg s).
Proof.
  induction l as [|a l IH]; intros Hq s s' H; cbn [run forallb] in *.
  - inversion H; subst. repeat split; reflexivity.
  - apply andb_true_iff in Hq. destruct Hq as [Ha Hl]. destruct (step c s a) as [s1|] eqn:Es; [|discriminate].
    destruct (IH Hl _ _ H) as (A & B & C & D). destruct (step_obs _ _ _ _ Es) as [E1 E2].
    pose proof (step_track _ _ _ _ Es) as T.
    rewrite A, B, C, D, E1, E2. destruct a; try discriminate Ha; cbn in T; inversion T; repeat split; congruence.
Qed.

(* ---- boolean oracle clauses from propositional facts ---- *)
Lemma covered_intro c L p E M :
  (forall o, o <= p -> trig L o = true -> In o E /\ (mailev c L o = true -> In o M)) ->
  covered (c_nonbuf c) L p E M = true.
Proof.
  intros H. unfold covered. apply forallb_forall. intros o Ho. apply In_seqN in Ho.
  destruct (trig L o) eqn:Et; [cbn | reflexivity].
  destruct (H o ltac:(lia) Et) as [A B]. apply mem_In in A. rewrite A. cbn.
  unfold mailev in B. destruct (c_nonbuf c && match lookup L o with Some e => e_mail e | None => false end) eqn:Em; [|reflexivity].
  cbn. apply mem_In. apply B. reflexivity.
Qed.

Lemma none_between_intro L a b : (forall x, a < x < b -> trig L x = false) -> none_between L a b = true.
Proof.
  intros H. unfold none_between. apply forallb_forall. intros x Hx. apply In_seqN in Hx. rewrite H by lia. reflexivity.
Qed.

Lemma occ_pos x l : In x l <-> 0 < occ x l.
Proof.
  unfold occ, len. split.
  - intros H. assert (In x (filter (N.eqb x) l)) by (apply filter_In; split; [exact H | apply N.eqb_refl]).
    destruct (filter (N.eqb x) l); [contradiction | cbn; lia].
  - intros H. destruct (filter (N.eqb x) l) as [|y r] eqn:E; [cbn in H; lia|].
    assert (Hy : In y (filter (N.eqb x) l)) by (rewrite E; left; reflexivity).
    apply filter_In in Hy. destruct Hy as [Hy Hxy]. apply N.eqb_eq in Hxy. subst. exact Hy.
Qed.

Lemma ms_eqb_In a b x : ms_eqb a b = true -> In x b -> In x a.
Proof.
  unfold ms_eqb. intros H Hb. rewrite forallb_forall in H.
  specialize (H x ltac:(apply in_or_app; right; exact Hb)). apply N.eqb_eq in H.
  apply occ_pos. rewrite H. apply occ_pos. exact Hb.
Qed.

(* ---- sortedness of what was invoked ---- *)
Lemma seqN_sorted a n : StronglySorted N.lt (seqN a n).
Proof.
  revert a; induction n as [|n IH]; intros a; cbn; constructor; [apply IH|].
  apply Forall_forall. intros x Hx. apply In_seqN in Hx. lia.
Qed.

Lemma filter_sorted (f : N -> bool) l : StronglySorted N.lt l -> StronglySorted N.lt (filter f l).
Proof.
  induction 1 as [|x l Hs IH Hx]; cbn; [constructor|]. destruct (f x); [|exact IH].
  constructor; [exact IH|]. apply Forall_forall. intros y Hy. apply filter_In in Hy.
  rewrite Forall_forall in Hx. apply Hx. tauto.
Qed.

Lemma sorted_le_last l d : StronglySorted N.lt l -> forall x, In x l -> x <= last l d.
Proof.
  induction 1 as [|y l Hs IH Hy]; intros x; [contradiction|]. intros [->|Hx].
  - destruct l as [|z r]; [cbn; lia|]. rewrite Forall_forall in Hy.
    assert (z <= last (z :: r) d) by (apply IH; left; reflexivity).
    specialize (Hy z ltac:(left; reflexivity)). cbn [last] in *. lia.
  - destruct l as [|z r]; [contradiction|]. specialize (IH _ Hx). cbn [last] in *. exact IH.
Qed.

Lemma sorted_app_lt l o x : StronglySorted N.lt (l ++ [o]) -> In x l -> x < o.
Proof.
  induction l as [|y l IH]; [contradiction|]. cbn. intros Hs [->|Hx].
  - inversion Hs as [|? ? _ Hf]; subst. rewrite Forall_forall in Hf. apply Hf. apply in_or_app. right. left. reflexivity.
  - inversion Hs; subst. apply IH; assumption.
Qed.

Lemma last_In_or (l : list N) (d : N) : (l = [] /\ last l d = d) \/ In (last l d) l.
Proof.
  induction l as [|y l IH]; [left; split; reflexivity|]. right.
  destruct l as [|z r]; [left; reflexivity|]. destruct IH as [[E _]|IH]; [discriminate|]. right. exact IH.
Qed.

Lemma sorted_app_l (l r : list N) : StronglySorted N.lt (l ++ r) -> StronglySorted N.lt l.
Proof.
  induction l as [|y l IH]; cbn; [constructor|]. intros Hs. inversion Hs as [|? ? Hs' Hf]; subst.
  constructor; [apply IH; exact Hs'|]. rewrite Forall_forall in *. intros x Hx. apply Hf. apply in_or_app. left. exact Hx.
Qed.

(* no look at the store found a row whose content is not its event's (finding C09-F2) *)
Definition no_bad (l : list act) : bool :=
  forallb (fun a => match a with Check _ _ _ bad => is_nil bad | _ => true end) l.

(* ---- the simulation ---- *)
Record Robs (g : og) (s : st) : Prop := {
  r_lg : o_lg g = lg (sp s);
  r_eff : o_eff g = eff (sp s);
  r_mails : o_mails g = mails (sp s);
  r_last : o_last g = last (g_inv (sg s)) (g_init (sg s))
}.

Section Sim.
Variable gf : bool.
Variable c : cfg.
Hypothesis Hc : cfg_ok c.
Hypothesis Hvl : gf = true -> c_viewlast c = true.
Hypothesis Hnb : c_nonbuf c = true -> gf = true.

Lemma runG_gf l : forall s s', runG false c s l = Some s' -> runG gf c s l = Some s'.
Proof. destruct gf; [intros; apply runG_viewlast; auto | auto]. Qed.

(* one observed action and the canonical hidden steps after it *)
Lemma block_inv s a s1 s2 : Inv gf c s -> input_okb s a = true -> step c s a = Some s1 ->
  run c s1 (settle_acts c fuel0 s1) = Some s2 -> Inv gf c s1 /\ Inv gf c s2.
Proof.
  intros HI Hin Hs Hr.
  assert (H1 : Inv gf c s1).
  { apply (runG_inv gf c Hc [a] s s1 HI). cbn [runG]. rewrite Hin. cbn [andb].
    replace (negb gf || mail_first_okb s a) with true; [rewrite Hs; reflexivity|].
    destruct gf; [|reflexivity]. cbn. symmetry. eapply viewlast_mail_first; [apply Hvl; reflexivity | exact Hs]. }
  split; [exact H1|].
  destruct (runG_quiet c _ (settle_quiet c fuel0 s1) _ _ Hr) as [R1 _].
  eapply runG_inv; [exact Hc | exact H1 | apply runG_gf; exact R1].
Qed.

Lemma block_obs s a s1 s2 : step c s a = Some s1 -> run c s1 (settle_acts c fuel0 s1) = Some s2 ->
  lg (sp s2) = (match a with Append e => lg (sp s) ++ [e] | _ => lg (sp s) end) /\
  eff (sp s2) = (match a with PPutWS _ offs v => if wrote v then eff (sp s) ++ offs else eff (sp s) | _ => eff (sp s) end) /\
  mails (sp s2) = (match a with PMail o ok => if ok then mails (sp s) ++ [o] else mails (sp s) | _ => mails (sp s) end) /\
  (g_init (sg s2), g_inv (sg s2)) = track (g_init (sg s), g_inv (sg s)) a.
Proof.
  intros Hs Hr. destruct (runG_quiet c _ (settle_quiet c fuel0 s1) _ _ Hr) as [_ L].
  destruct (silent_obs c _ (settle_silent c fuel0 s1) _ _ Hr) as (A & B & C & D).
  destruct (step_obs _ _ _ _ Hs) as [E1 E2]. pose proof (step_lg _ _ _ _ Hs) as E3. pose proof (step_track _ _ _ _ Hs) as E4.
  rewrite L, A, B, C, D, E1, E2, E3, E4. repeat split; reflexivity.
Qed.

Lemma inv_covered s : Inv gf c s ->
  covered (c_nonbuf c) (lg (sp s)) (pos (sp s)) (eff (sp s)) (mails (sp s)) = true.
Proof.
  intros [_ _ HE]. apply covered_intro. intros o Ho Ht. split; [apply (i_t2 _ _ _ HE); assumption|].
  intros Hm. apply (i_t2m _ _ _ HE); try assumption. apply Hnb. unfold mailev in Hm. apply andb_true_iff in Hm. tauto.
Qed.

Lemma inv_invoke s o : Inv gf c s -> pc (sj s) = PIn o ->
  trig (lg (sp s)) o = true /\ last (g_inv (sg s)) (g_init (sg s)) < o /\
  (forall x, last (g_inv (sg s)) (g_init (sg s)) < x < o -> trig (lg (sp s)) x = false).
Proof.
  intros [HS HO _] Hpc. destruct (i_pin _ HS o ltac:(rewrite Hpc; reflexivity)) as (_ & Hd & Hlt & Ht).
  unfold InvO, pend in HO. rewrite Hpc, Hd in HO.
  set (F := filter (trig (lg (sp s))) (seqN (g_init (sg s) + 1) (N.to_nat (o - g_init (sg s))))) in *.
  assert (HsF : StronglySorted N.lt F) by (apply filter_sorted, seqN_sorted).
  assert (Hin : forall x, In x (g_inv (sg s)) -> g_init (sg s) < x < o).
  { intros x Hx. split.
    - assert (In x F) by (rewrite <- HO; apply in_or_app; left; exact Hx).
      apply filter_In in H. destruct H as [H _]. apply In_seqN in H. lia.
    - rewrite <- HO in HsF. eapply sorted_app_lt; eassumption. }
  assert (Hlast : g_init (sg s) <= last (g_inv (sg s)) (g_init (sg s)) < o).
  { destruct (last_In_or (g_inv (sg s)) (g_init (sg s))) as [[_ E]|E]; [rewrite E; lia | specialize (Hin _ E); lia]. }
  split; [exact Ht|]. split; [lia|].
  intros x Hx. destruct (trig (lg (sp s)) x) eqn:Etx; [exfalso | reflexivity].
  assert (HxF : In x F).
  { apply filter_In. split; [apply In_seqN; lia | exact Etx]. }
  rewrite <- HO in HxF. apply in_app_or in HxF. destruct HxF as [HxI|[->|[]]]; [|lia].
  rewrite <- HO in HsF. apply sorted_app_l in HsF.
  pose proof (sorted_le_last _ (g_init (sg s)) HsF _ HxI). lia.
Qed.

Lemma oracle_sim : forall l s g l' s', Inv gf c s -> Robs g s -> elaborate c s l = Some (l', s') ->
  dom_ok (len (lg (sp s))) l = true -> (c_earlyrel c = true -> no_bad l = true) -> oracle (c_nonbuf c) g l = true.
Proof.
  induction l as [|a l IH]; intros s g l' s' HI HR H Hd Hbad; [reflexivity|]. cbn [elaborate] in H.
  assert (Hbad2 : c_earlyrel c = true -> no_bad l = true).
  { intros X. specialize (Hbad X). cbn [no_bad forallb] in Hbad. apply andb_true_iff in Hbad. apply Hbad. }
  destruct (step c s a) as [s1|] eqn:Es; [|discriminate].
  destruct (run c s1 (settle_acts c fuel0 s1)) as [s2|] eqn:Er; [|discriminate].
  destruct (elaborate c s2 l) as [[l2 s3]|] eqn:Ee; [|discriminate]. clear H.
  destruct (block_obs _ _ _ _ Es Er) as (OL & OE & OM & OT).
  assert (Hin : input_okb s a = true /\ dom_ok (len (lg (sp s2))) l = true).
  { rewrite OL. destruct a; cbn in Hd |- *; try (split; [reflexivity | exact Hd]).
    - rewrite len_snoc. split; [reflexivity | exact Hd].
    - apply andb_true_iff in Hd. exact Hd. }
  destruct Hin as [Hin Hd2]. destruct (block_inv _ _ _ _ HI Hin Es Er) as [HI1 HI2].
  destruct HR as [Rl Re Rm Rt].
  assert (Step : forall g', Robs g' s2 -> oracle (c_nonbuf c) g' l = true) by (intros g' HR'; eapply IH; eassumption).
  destruct a; cbn [oracle]; cbn [track fst snd] in OT; injection OT as OT1 OT2;
    try (apply Step; constructor; cbn; congruence).
  - (* Check *)
    apply andb_true_iff. split; [|apply Step; constructor; cbn; congruence].
    open_state s. cbn in Es. guards Es. bools. subst. cbn in *.
    apply andb_true_iff. split.
    + match goal with X : _ || is_nil _ = true |- _ => apply orb_true_iff in X; destruct X as [X|X]; [|exact X];
        specialize (Hbad X); cbn [no_bad forallb] in Hbad; apply andb_true_iff in Hbad; apply Hbad end.
    + apply orb_true_iff. right.
      rewrite Rl. pose proof (inv_covered _ HI) as Hcov. cbn in Hcov. unfold covered in *.
      rewrite forallb_forall in *. intros o Ho. specialize (Hcov o Ho).
      destruct (trig L o); [cbn in * | reflexivity]. apply andb_true_iff in Hcov. destruct Hcov as [A B].
      apply andb_true_iff. split; [|exact B]. apply mem_In. eapply ms_eqb_In; [eassumption|]. apply mem_In. exact A.
  - (* RInitOk *)
    apply andb_true_iff. split.
    + apply orb_true_iff. right. rewrite Rl, Re, Rm. pose proof (inv_covered _ HI) as Hcov.
      open_state s. cbn in Es. guards Es. bools. subst. exact Hcov.
    + apply Step. constructor; cbn; try congruence. rewrite OT1, OT2. reflexivity.
  - (* PInvoke *)
    assert (Hpc : pc (sj s) = PIn o).
    { open_state s. cbn in Es. guards Es; bools; subst; reflexivity. }
    destruct (inv_invoke _ _ HI Hpc) as (T1 & T2 & T3).
    apply andb_true_iff. split.
    + apply orb_true_iff. right. rewrite Rl, Rt. rewrite T1. cbn. apply andb_true_iff. split; [apply N.ltb_lt; exact T2|].
      apply none_between_intro. exact T3.
    + apply Step. constructor; cbn; try congruence. rewrite OT1, OT2. rewrite last_last. reflexivity.
  - (* PPutWS *) apply Step. constructor; cbn; try congruence. rewrite OE, Re. reflexivity.
  - (* PPutPos *)
    apply andb_true_iff. split; [|apply Step; constructor; cbn; congruence].
    destruct (wrote v) eqn:Ew; [|rewrite orb_true_r; reflexivity]. apply orb_true_iff. right.
    pose proof (inv_covered _ HI1) as Hcov. destruct (step_obs _ _ _ _ Es) as [E1 E2]. rewrite (step_lg _ _ _ _ Es), E1, E2 in Hcov.
    rewrite Rl, Re, Rm.
    replace (pos (sp s1)) with p in Hcov; [exact Hcov|].
    open_state s. cbn in Es. unfold flow in Es. cbn in Es. guards Es; bools; subst; try discriminate Ew; inversion Es; reflexivity.
  - (* PMail *) apply Step. constructor; cbn; try congruence. rewrite OM, Rm. reflexivity.
Qed.

End Sim.

Lemma elaborate_app c l1 l2 : forall s,
  elaborate c s (l1 ++ l2) =
  match elaborate c s l1 with
  | Some (la, s1) => match elaborate c s1 l2 with Some (lb, s2) => Some (la ++ lb, s2) | None => None end
  | None => None
  end.
Proof.
  induction l1 as [|a l IH]; intros s; cbn [app elaborate].
  - destruct (elaborate c s l2) as [[lb s2]|]; reflexivity.
  - destruct (step c s a) as [s1|]; [|reflexivity].
    destruct (run c s1 (settle_acts c fuel0 s1)) as [s2|]; [|reflexivity].
    rewrite IH. destruct (elaborate c s2 l) as [[la s3]|]; [|reflexivity].
    destruct (elaborate c s3 l2) as [[lb s4]|]; [|reflexivity]. cbn [app]. rewrite app_assoc. reflexivity.
Qed.

Lemma final_log_app l1 l2 : final_log (l1 ++ l2) = final_log l1 ++ final_log l2.
Proof. unfold final_log. apply flat_map_app. Qed.

Lemma elaborate_lg c : forall l s l' s', elaborate c s l = Some (l', s') -> lg (sp s') = lg (sp s) ++ final_log l.
Proof.
  induction l as [|a l IH]; intros s l' s' H; cbn [elaborate] in H.
  - inversion H; subst. cbn. rewrite app_nil_r. reflexivity.
  - destruct (step c s a) as [s1|] eqn:Es; [|discriminate].
    destruct (run c s1 (settle_acts c fuel0 s1)) as [s2|] eqn:Er; [|discriminate].
    destruct (elaborate c s2 l) as [[l2 s3]|] eqn:Ee; [|discriminate]. injection H as _ <-.
    destruct (block_obs c _ _ _ _ Es Er) as (OL & _). rewrite (IH _ _ _ Ee), OL.
    change (final_log (a :: l)) with ((match a with Append e => [e] | _ => [] end) ++ final_log l).
    destruct a; cbn [app]; try reflexivity. rewrite <- app_assoc. reflexivity.
Qed.

(* The trace-level statement.  When the trace claims a quiescent end it must end with a look at the store. *)
Theorem agrees_implies_satisfies_proved t :
  cfg_ok (cfg_of t) -> (t_nonbuf t = true -> c_viewlast (cfg_of t) = true) ->
  (t_quiet t = true -> exists l0 p effs ms bad, t_acts t = l0 ++ [Check p effs ms bad]) ->
  (c_earlyrel (cfg_of t) = true -> no_bad (t_acts t) = true) ->
  agrees t = true -> dom_ok 0 (t_acts t) = true -> satisfies t = true.
Proof.
  intros Hc Hvl Hend Hbad Ha Hd. unfold agrees in Ha. set (c := cfg_of t) in *.
  destruct (elaborate c init (t_acts t)) as [[l' sf]|] eqn:Ee; [|discriminate].
  assert (Hnb : c_nonbuf c = true -> t_nonbuf t = true) by (intros X; exact X).
  unfold satisfies. rewrite Hd. cbn [negb orb]. apply andb_true_iff. split.
  - change (t_nonbuf t) with (c_nonbuf c).
    eapply (oracle_sim (t_nonbuf t) c Hc Hvl Hnb); [apply Inv_init | | exact Ee | exact Hd | exact Hbad].
    constructor; reflexivity.
  - unfold final_ok. destruct (t_quiet t) eqn:Eq; [cbn [negb orb] | reflexivity]. cbn [negb orb] in Ha.
    destruct (Hend eq_refl) as (l0 & p & effs & ms & bad & El). rewrite El in *. rewrite rev_app_distr. cbn [rev app].
    rewrite elaborate_app in Ee.
    destruct (elaborate c init l0) as [[la s0]|] eqn:E0; [|discriminate].
    cbn [elaborate] in Ee. destruct (step c s0 (Check p effs ms bad)) as [s1|] eqn:Es; [|discriminate].
    destruct (run c s1 (settle_acts c fuel0 s1)) as [s2|] eqn:Er; [|discriminate]. injection Ee as _ <-.
    (* the invariants at the final state *)
    assert (Hd0 : dom_ok 0 l0 = true /\ dom_ok (len (lg (sp s0))) [Check p effs ms bad] = true) by (split; [|reflexivity];
      clear - Hd; revert Hd; generalize 0; induction l0 as [|a l IH]; intros n H; [reflexivity|];
      destruct a; cbn in *; try (apply IH; exact H); apply andb_true_iff in H; apply andb_true_iff; split; [tauto | apply IH; tauto]).
    destruct Hd0 as [Hd0 _].
    assert (HI0 : Inv (t_nonbuf t) c s0).
    { eapply runG_inv; [exact Hc | apply Inv_init | apply (runG_gf (t_nonbuf t) c Hvl Hnb)].
      eapply elaborate_runG_proved; [exact E0 | exact Hd0]. }
    destruct (block_inv (t_nonbuf t) c Hc Hvl Hnb s0 (Check p effs ms bad) _ _ HI0 eq_refl Es Er) as [_ HI2].
    destruct (block_obs c _ _ _ _ Es Er) as (OL & OE & OM & _).
    pose proof (elaborate_lg c _ _ _ _ E0) as L0. cbn in L0.
    rewrite final_log_app. cbn [final_log flat_map]. rewrite app_nil_r. fold (final_log l0). rewrite <- L0, <- OL.
    change (t_nonbuf t) with (c_nonbuf c). apply covered_intro. intros o _ Ht.
    destruct (quiescent_inv _ _ _ HI2 Ha o Ht) as [A B].
    open_state s0. cbn in Es. guards Es. inversion Es; subst; clear Es. bools. subst. cbn in *.
    split.
    + eapply ms_eqb_In; [eassumption|]. rewrite <- OE. exact A.
    + intros Hm. rewrite <- OM. apply B; [|exact Hm]. unfold mailev in Hm. apply andb_true_iff in Hm. apply Hm.
Qed.
