From Coq Require Import List NArith ZArith Bool String Lia.
From V Require Import Lib.Check C17_Compile.Model.
Import ListNotations.
