(* C17 - proofs about the reference compiler of Model.v.
   Part 1: `compile_items a Ideal` (the executable spec) holds exactly the items `Declares a` names. *)
From Coq Require Import List NArith ZArith Bool String Lia.
From V Require Import Lib.Check Gen.Params C17_Compile.Model.
Import ListNotations.

(* ------------------------------------------------------------------ generic list facts *)

Lemma nodup_b_NoDup {A} (eqb : A -> A -> bool) (Heq : forall x y, eqb x y = true <-> x = y) l :
  nodup_b eqb l = true -> NoDup l.
Proof.
  induction l as [|x r IH]; cbn; intros H; [constructor|].
  apply andb_true_iff in H as [Hn Hr]. constructor; [|auto].
  intros Hin. apply negb_true_iff in Hn.
  assert (E : existsb (eqb x) r = true) by (apply existsb_exists; exists x; split; [auto | apply Heq; auto]).
  congruence.
Qed.

Lemma qname_eqb_eq (x y : qname) : qname_eqb x y = true <-> x = y.
Proof.
  destruct x as [a b], y as [c d]; unfold qname_eqb; cbn.
  rewrite andb_true_iff, !String.eqb_eq. split; [intros [-> ->]; auto | intros E; inversion E; auto].
Qed.

Lemma in_all_ws a p w : In (p, w) (all_ws a) <-> In_ws a p w.
Proof.
  unfold all_ws, In_ws. rewrite in_flat_map. split.
  - intros (p' & Hp & Hin). apply in_map_iff in Hin as (w' & E & Hw). inversion E; subst. auto.
  - intros [Hp Hw]. exists p. split; auto. apply in_map. auto.
Qed.

(* ------------------------------------------------------------------ nested tables *)

(* induction over tables through the nested item lists *)
Lemma table_ind' (P : table -> Prop) :
  (forall n ab inh its, (forall c t, In (TNested c t) its -> P t) -> P (Table n ab inh its)) ->
  forall t, P t.
Proof.
  intros H. fix IH 1. intros [n ab inh its]. apply H.
  induction its as [|it r IHr]; intros c t Hin; [destruct Hin|].
  destruct it as [f | fn refs nn | c' t' | cn fs].
  1, 2, 4: (destruct Hin as [E | Hin]; [discriminate | eapply IHr; eauto]).
  destruct Hin as [E | Hin]; [|eapply IHr; eauto].
  injection E as E1 E2. rewrite <- E2. apply IH.
Qed.

Fixpoint nested_go (l : list titem) : list table :=
  match l with
  | [] => []
  | TNested _ t' :: r => t' :: nested_tables t' ++ nested_go r
  | _ :: r => nested_go r
  end.

Lemma nested_tables_eq t : nested_tables t = nested_go (t_items t).
Proof.
  destruct t as [n ab inh its]. reflexivity.
Qed.

Lemma in_nested_go l t' :
  In t' (nested_go l) <-> exists c t1, In (TNested c t1) l /\ (t' = t1 \/ In t' (nested_tables t1)).
Proof.
  induction l as [|it r IH]; cbn.
  - split; [tauto | intros (c & t1 & [] & _)].
  - destruct it as [f | n refs nn | c0 t0 | cn fs]; cbn;
      try (rewrite IH; split; [intros (c & t1 & Hin & H); exists c, t1; auto
                              | intros (c & t1 & [E | Hin] & H); [discriminate | exists c, t1; auto]]).
    rewrite in_app_iff, IH. split.
    + intros [E | [Hn | (c & t1 & Hin & H)]].
      * exists c0, t0. split; [left; auto | left; auto].
      * exists c0, t0. auto.
      * exists c, t1. auto.
    + intros (c & t1 & [E | Hin] & H).
      * inversion E; subst. destruct H; auto.
      * right. right. exists c, t1. auto.
Qed.

Lemma nested_tables_Nested t t' : In t' (nested_tables t) <-> Nested t t'.
Proof.
  revert t'. induction t as [n ab inh its IH] using table_ind'. intros t'.
  rewrite nested_tables_eq. cbn [t_items]. rewrite in_nested_go. split.
  - intros (c & t1 & Hin & [E | H]).
    + subst. eapply N_direct. cbn. eauto.
    + eapply N_deep; [cbn; eauto|]. eapply IH; eauto.
  - intros H. inversion H as [t0 c t1 Hin E1 E2 | t0 c t1 t2 Hin Hn E1 E2]; subst; cbn in Hin.
    + exists c, t'. auto.
    + exists c, t1. split; auto. right. eapply IH; eauto.
Qed.

(* ------------------------------------------------------------------ inheritance chains *)

Section Chains.
Variable a : schema.

Lemma chain_eq fuel pn t :
  chain a fuel pn t =
  match t_inh t with
  | None => None
  | Some q =>
    if (fst (resolve pn q) =? "sys")%string then
      match sysbase_of (snd (resolve pn q)) with Some b => Some (b, [(pn, t_items t)]) | None => None end
    else match fuel with
         | O => None
         | S f => match lookup_table a (resolve pn q) with
                  | Some t' => match chain a f (fst (resolve pn q)) t' with
                               | Some (b, ls) => Some (b, ls ++ [(pn, t_items t)])
                               | None => None
                               end
                  | None => None
                  end
         end
  end.
Proof. destruct fuel; reflexivity. Qed.

Lemma chain_sound fuel : forall pn t b ls, chain a fuel pn t = Some (b, ls) -> Chain a pn t b ls.
Proof.
  induction fuel as [|f IH]; intros pn t b ls H; rewrite chain_eq in H;
    destruct (t_inh t) as [q|] eqn:Ei; try discriminate;
    destruct (fst (resolve pn q) =? "sys")%string eqn:Es.
  - destruct (sysbase_of (snd (resolve pn q))) eqn:Eb; [|discriminate]. inversion H; subst.
    eapply Ch_sys; eauto. apply String.eqb_eq; auto.
  - discriminate.
  - destruct (sysbase_of (snd (resolve pn q))) eqn:Eb; [|discriminate]. inversion H; subst.
    eapply Ch_sys; eauto. apply String.eqb_eq; auto.
  - destruct (lookup_table a (resolve pn q)) as [t'|] eqn:El; [|discriminate].
    destruct (chain a f (fst (resolve pn q)) t') as [[b' ls']|] eqn:Ec; [|discriminate].
    inversion H; subst. eapply Ch_user; eauto. apply String.eqb_neq; auto.
Qed.

(* the relation is functional, and whenever the function answers it answers the relation's value *)
Lemma chain_complete : forall pn t b ls, Chain a pn t b ls ->
  forall fuel r, chain a fuel pn t = Some r -> r = (b, ls).
Proof.
  intros pn t b ls HC. induction HC as [pn t q b Ei Es Eb | pn t q t' b ls Ei Es El HC IH]; intros fuel r H;
    rewrite chain_eq, Ei in H.
  - rewrite (proj2 (String.eqb_eq _ _) Es), Eb in H. inversion H; auto.
  - rewrite (proj2 (String.eqb_neq _ _) Es) in H.
    destruct fuel as [|f]; [discriminate|].
    rewrite El in H. destruct (chain a f (fst (resolve pn q)) t') as [[b' ls']|] eqn:Ec; [|discriminate].
    specialize (IH _ _ Ec). inversion IH; subst. congruence.
Qed.

Lemma Chain_own_last pn t b ls : Chain a pn t b ls -> exists ls', ls = ls' ++ [(pn, t_items t)].
Proof. intros H; destruct H; [exists []; auto | eexists; eauto]. Qed.

(* ---- workspace ancestors ---- *)

Definition anc_step (f : nat) (pn : ident) (q : qref) (acc : option (list qname)) : option (list qname) :=
  match acc, lookup_ws a (resolve pn q) with
  | Some l, Some (p', w') =>
    match ws_anc a f (p_name p') (w_inh w') with
    | Some l' => Some (l' ++ resolve pn q :: l)
    | None => None
    end
  | _, _ => None
  end.

Lemma ws_anc_S f pn inh : inh <> [] -> ws_anc a (S f) pn inh = fold_right (anc_step f pn) (Some []) inh.
Proof. destruct inh; [congruence | reflexivity]. Qed.

Lemma fold_anc_in f pn inh l x :
  fold_right (anc_step f pn) (Some []) inh = Some l ->
  (In x l <-> exists q, In q inh /\ (x = resolve pn q \/
     exists p' w' l', lookup_ws a (resolve pn q) = Some (p', w') /\ ws_anc a f (p_name p') (w_inh w') = Some l' /\ In x l')).
Proof.
  revert l. induction inh as [|q r IH]; cbn; intros l H.
  - inversion H; subst. split; [intros [] | intros (q & [] & _)].
  - unfold anc_step at 1 in H.
    destruct (fold_right (anc_step f pn) (Some []) r) as [lr|] eqn:Er; [|discriminate].
    destruct (lookup_ws a (resolve pn q)) as [[p' w']|] eqn:El; [|discriminate].
    destruct (ws_anc a f (p_name p') (w_inh w')) as [l'|] eqn:Ea; [|discriminate].
    inversion H; subst. specialize (IH _ eq_refl). rewrite in_app_iff. cbn [In]. split.
    + intros [Hx | [Hx | Hx]].
      * exists q. split; auto. right. exists p', w', l'. auto.
      * exists q. auto.
      * apply IH in Hx as (q0 & Hq & Hx). exists q0. auto.
    + intros (q0 & [E | Hq] & Hx).
      * subst q0. destruct Hx as [-> | (p2 & w2 & l2 & El2 & Ea2 & Hx)]; auto.
        rewrite El in El2. inversion El2; subst. rewrite Ea in Ea2. inversion Ea2; subst. auto.
      * right. right. apply IH. exists q0. auto.
Qed.

Lemma ws_anc_sound fuel : forall pn inh l x, ws_anc a fuel pn inh = Some l -> In x l -> Anc a pn inh x.
Proof.
  induction fuel as [|f IH]; intros pn inh l x H Hx.
  - destruct inh; cbn in H; [inversion H; subst; destruct Hx | discriminate].
  - destruct inh as [|q0 r] eqn:Ei; [cbn in H; inversion H; subst; destruct Hx|].
    rewrite <- Ei in *. rewrite ws_anc_S in H by (subst; discriminate).
    apply (fold_anc_in _ _ _ _ x) in H. apply H in Hx as (q & Hq & [-> | (p' & w' & l' & El & Ea & Hx)]).
    + apply Anc_direct; auto.
    + eapply Anc_trans; eauto.
Qed.

Lemma ws_anc_complete : forall pn inh x, Anc a pn inh x ->
  forall fuel l, ws_anc a fuel pn inh = Some l -> In x l.
Proof.
  intros pn inh x HA. induction HA as [pn inh q Hq | pn inh q p' w' x Hq El HA IH]; intros fuel l H.
  - destruct fuel as [|f]; [destruct inh; [destruct Hq | discriminate]|].
    rewrite ws_anc_S in H by (intros ->; destruct Hq).
    apply (fold_anc_in _ _ _ _ (resolve pn q)) in H. apply H. exists q. auto.
  - destruct fuel as [|f]; [destruct inh; [destruct Hq | discriminate]|].
    rewrite ws_anc_S in H by (intros ->; destruct Hq).
    pose proof H as H0. apply (fold_anc_in _ _ _ _ x) in H. apply H. exists q. split; auto. right.
    (* the fold succeeded, so the ancestor list of q's workspace was computed *)
    assert (exists l', ws_anc a f (p_name p') (w_inh w') = Some l') as (l' & Ea).
    { clear H IH HA. revert l H0. induction inh as [|q1 r IHr]; [destruct Hq|]. intros l H0. cbn in H0.
      unfold anc_step at 1 in H0.
      destruct (fold_right (anc_step f pn) (Some []) r) as [lr|] eqn:Er; [|discriminate].
      destruct Hq as [E | Hq].
      - subst q1. rewrite El in H0. destruct (ws_anc a f (p_name p') (w_inh w')); [eauto | discriminate].
      - eapply IHr; eauto. }
    exists p', w', l'. split; auto. split; auto. eapply IH; eauto.
Qed.

End Chains.

(* ------------------------------------------------------------------ soundness / completeness *)

Section Exact.
Variable a : schema.

(* every INHERITS list of a workspace resolves (part of `wf`) *)
Definition anc_ok : Prop :=
  forall p w, In_ws a p w -> ws_anc a (fuelw a) (p_name p) (w_inh w) <> None.
(* every table that is compiled has a chain (part of `wf`) *)
Definition chains_ok : Prop :=
  forall p w t, In_ws a p w -> In (ITable t) (w_items w) ->
    chain a (fuel0 a) (p_name p) t <> None /\
    forall t', In t' (nested_tables t) -> t_inh t' <> None -> chain a (fuel0 a) (p_name p) t' <> None.

Lemma repeat_list_1 {A} (l : list A) : repeat_list l 1 = l.
Proof. cbn. apply app_nil_r. Qed.

Lemma ancestors_spec p w : In_ws a p w -> anc_ok -> forall x, In x (ws_ancestors a p w) <-> AncSpec a p w x.
Proof.
  intros Hw Hok x. unfold ws_ancestors, AncSpec, anc_list. specialize (Hok p w Hw).
  destruct (w_inh w) as [|q r] eqn:Ei.
  - cbn. split; [intros [E | []]; auto | intros ->; auto].
  - destruct (ws_anc a (fuelw a) (p_name p) (q :: r)) as [l|] eqn:Ea; [|congruence]. split.
    + intros Hx. eapply ws_anc_sound; eauto.
    + intros HA. eapply ws_anc_complete; eauto.
Qed.

Lemma nested_lists_spec pn t' :
  (t_inh t' <> None -> chain a (fuel0 a) pn t' <> None) -> NestedLists a pn t' (nested_lists a Ideal pn t').
Proof.
  intros Hc. unfold nested_lists. destruct (t_inh t') eqn:Ei.
  - destruct (chain a (fuel0 a) pn t') as [[b ls]|] eqn:Ec.
    + eapply NL_inh. eapply chain_sound; eauto.
    + exfalso. apply Hc; congruence.
  - apply NL_plain; auto.
Qed.

Theorem compile_sound_proved : anc_ok -> chains_ok ->
  forall it, In it (compile_items a Ideal) -> Declares a it.
Proof.
  intros Hanc Hch it Hin. unfold compile_items in Hin. apply in_flat_map in Hin as ([p w] & Hpw & Hin).
  apply in_all_ws in Hpw. cbn [fst snd] in Hin. unfold ws_items in Hin.
  destruct Hin as [E | Hin].
  - subst it. unfold ws_item. cbn [acl_repeat]. rewrite repeat_list_1.
    apply D_ws; auto. apply ancestors_spec; auto.
  - apply in_app_iff in Hin as [Hin | Hin].
    + destruct (w_abstract w) eqn:Ea; [destruct Hin|]. destruct Hin as [E | []]. subst. apply D_desc; auto.
    + apply in_flat_map in Hin as (i & Hi & Hin).
      destruct i as [t | n ys | v | x | f | n pub | r | l | g | n]; cbn in Hin;
        try (destruct Hin as [E | []]; subst it).
      * unfold table_items in Hin. destruct (Hch p w t Hpw Hi) as [Hc Hn].
        destruct (chain a (fuel0 a) (p_name p) t) as [[b ls]|] eqn:Ec; [|congruence].
        apply chain_sound in Ec. destruct Hin as [E | Hin].
        -- subst. eapply D_table; eauto.
        -- apply in_map_iff in Hin as (t' & E & Ht'). subst.
           eapply D_nested; eauto. apply nested_tables_Nested; auto. apply nested_lists_spec. auto.
      * eapply D_type; eauto.
      * eapply D_view; eauto.
      * eapply D_proj; eauto.
      * eapply D_func; eauto.
      * eapply D_role; eauto.
      * eapply D_rate; eauto.
      * eapply D_limit; eauto.
      * destruct Hin.
      * destruct Hin.
Qed.

Lemma in_compile_ws m p w it : In_ws a p w -> In it (ws_items a m p w) -> In it (compile_items a m).
Proof.
  intros Hw Hin. unfold compile_items. apply in_flat_map. exists (p, w). split; [apply in_all_ws; auto | auto].
Qed.

Lemma in_compile_stmt m p w i it :
  In_ws a p w -> In i (w_items w) -> In it (stmt_items a m (p_name p) (p_name p, w_name w) i) -> In it (compile_items a m).
Proof.
  intros Hw Hi Hin. eapply in_compile_ws; eauto. unfold ws_items. right. apply in_app_iff. right.
  apply in_flat_map. eauto.
Qed.

Lemma item_equiv_refl it : item_equiv it it.
Proof. destruct it; cbn; auto. repeat split; auto. Qed.

Theorem compile_complete_proved : anc_ok -> chains_ok ->
  forall it, Declares a it -> exists it', In it' (compile_items a Ideal) /\ item_equiv it it'.
Proof.
  intros Hanc Hch it HD.
  destruct HD as [p w anc Hw Hanc' | p w Hw Hab | p w t b ls Hw Hi HC | p w t b ls t' ls' Hw Hi HC HN HL
                  | p w n ys Hw Hi | p w v Hw Hi | p w x Hw Hi | p w f Hw Hi | p w n pub Hw Hi | p w r Hw Hi | p w l Hw Hi];
    try (eexists; split; [eapply in_compile_stmt; eauto; cbn; left; reflexivity | apply item_equiv_refl]).
  - exists (ws_item a Ideal p w). split.
    + eapply in_compile_ws; eauto. left; auto.
    + unfold ws_item. cbn [acl_repeat]. rewrite repeat_list_1. cbn. repeat split; auto.
      * intros Hx. apply ancestors_spec; auto. apply Hanc'; auto.
      * intros Hx. apply Hanc'. apply ancestors_spec; auto.
  - eexists. split; [|apply item_equiv_refl]. eapply in_compile_ws; eauto. unfold ws_items. right.
    apply in_app_iff. left. rewrite Hab. left; auto.
  - destruct (Hch p w t Hw Hi) as [Hc _].
    destruct (chain a (fuel0 a) (p_name p) t) as [r|] eqn:Ec; [|congruence].
    pose proof (chain_complete a _ _ _ _ HC _ _ Ec) as ->.
    eexists. split; [|apply item_equiv_refl]. eapply in_compile_stmt; eauto. cbn. unfold table_items. rewrite Ec. left; auto.
  - destruct (Hch p w t Hw Hi) as [Hc Hn].
    destruct (chain a (fuel0 a) (p_name p) t) as [r|] eqn:Ec; [|congruence].
    pose proof (chain_complete a _ _ _ _ HC _ _ Ec) as ->.
    apply nested_tables_Nested in HN.
    assert (El : nested_lists a Ideal (p_name p) t' = ls').
    { unfold nested_lists. destruct HL as [Ei | b' ls' HC'].
      - rewrite Ei. auto.
      - assert (Ei : t_inh t' <> None) by (destruct HC'; congruence).
        specialize (Hn t' HN Ei). destruct (t_inh t'); [|congruence].
        destruct (chain a (fuel0 a) (p_name p) t') as [r'|] eqn:Ec'; [|congruence].
        pose proof (chain_complete a _ _ _ _ HC' _ _ Ec') as ->. auto. }
    eexists. split; [|apply item_equiv_refl]. eapply in_compile_stmt; eauto. cbn. unfold table_items. rewrite Ec.
    right. apply in_map_iff. exists t'. split; auto. rewrite El. auto.
Qed.

End Exact.

(* ------------------------------------------------------------------ what `wf` provides *)

Section Wf.
Variable a : schema.
Hypothesis Hwf : wf a = true.

Lemma wf_parts :
  NoDup (map item_key (compile_items a Ideal)) /\ forallb (fun pw => ws_ok a (fst pw) (snd pw)) (all_ws a) = true
  /\ no_unique_collision a Ideal = true.
Proof.
  pose proof Hwf as H. unfold wf in H. rewrite !andb_true_iff in H.
  destruct H as [[[[[_ _] _] Hkeys] Hu] Hws]. split; [|split; auto].
  eapply nodup_b_NoDup; [apply qname_eqb_eq | eauto].
Qed.

Lemma wf_ws_ok p w : In_ws a p w -> ws_ok a p w = true.
Proof.
  intros Hin. destruct wf_parts as (_ & Hws & _). rewrite forallb_forall in Hws.
  apply in_all_ws in Hin. apply (Hws _ Hin).
Qed.

Lemma wf_keys_nodup : NoDup (map item_key (compile_items a Ideal)).
Proof. apply wf_parts. Qed.

Lemma ws_ok_parts p w : ws_ok a p w = true ->
  ws_anc a (fuelw a) (p_name p) (w_inh w) <> None /\ forallb (stmt_ok a p w) (w_items w) = true.
Proof.
  unfold ws_ok. rewrite !andb_true_iff. intros [[[[[[Hanc _] _] _] _] _] Hst]. split; auto.
  destruct (ws_anc a (fuelw a) (p_name p) (w_inh w)); discriminate.
Qed.

Lemma wf_anc_ok : anc_ok a.
Proof. intros p w Hin. apply ws_ok_parts. apply wf_ws_ok; auto. Qed.

Lemma wf_chains_ok : chains_ok a.
Proof.
  intros p w t Hin Hi. destruct (ws_ok_parts p w (wf_ws_ok p w Hin)) as [_ Hst].
  rewrite forallb_forall in Hst. specialize (Hst _ Hi). cbn in Hst. unfold table_ok in Hst.
  apply andb_true_iff in Hst as [_ Hst].
  destruct (chain a (fuel0 a) (p_name p) t) as [[b ls]|] eqn:Ec; [|discriminate].
  split; [discriminate|]. intros t' Ht' Hinh.
  rewrite !andb_true_iff in Hst. destruct Hst as [[_ _] Hnest].
  rewrite forallb_forall in Hnest. specialize (Hnest _ Ht'). unfold nested_ok in Hnest.
  rewrite !andb_true_iff in Hnest. destruct Hnest as [[[_ Hc] _] _].
  destruct (t_inh t'); [|congruence]. apply andb_true_iff in Hc as [_ Hc].
  destruct (chain a (fuel0 a) (p_name p) t'); discriminate.
Qed.

(* Theorems of part 1 under the single hypothesis `wf a = true` *)
Theorem wf_compile_sound it : In it (compile_items a Ideal) -> Declares a it.
Proof. apply compile_sound_proved; [apply wf_anc_ok | apply wf_chains_ok]. Qed.

Theorem wf_compile_complete it : Declares a it -> exists it', In it' (compile_items a Ideal) /\ item_equiv it it'.
Proof. apply compile_complete_proved; [apply wf_anc_ok | apply wf_chains_ok]. Qed.

Lemma item_equiv_key i j : item_equiv i j -> item_key i = item_key j.
Proof.
  destruct i, j; cbn; try (intros E; inversion E; reflexivity); try (intros E; discriminate).
  intros (E & _); auto.
Qed.

Lemma item_equiv_sym i j : item_equiv i j -> item_equiv j i.
Proof.
  destruct i, j; cbn; try (intros E; inversion E; reflexivity); try (intros E; discriminate).
  intros (-> & -> & Hs & -> & -> & ->). repeat split; auto; intros; apply Hs; auto.
Qed.

Lemma item_equiv_trans i j k : item_equiv i j -> item_equiv j k -> item_equiv i k.
Proof.
  destruct i, j; cbn; try (intros E; inversion E; subst; auto; fail); try (intros E; discriminate).
  intros (-> & -> & Hs & -> & -> & ->). destruct k; cbn; try (intros E; discriminate); auto.
  intros (-> & -> & Hs' & -> & -> & ->). repeat split; auto; intros.
  - apply Hs', Hs; auto.
  - apply Hs, Hs'; auto.
Qed.

Lemma NoDup_map_inj {A B} (f : A -> B) l x y : NoDup (map f l) -> In x l -> In y l -> f x = f y -> x = y.
Proof.
  induction l as [|z r IH]; cbn; intros Hn Hx Hy E; [destruct Hx|].
  inversion Hn as [|? ? Hnot Hr]; subst. destruct Hx as [-> | Hx], Hy as [-> | Hy]; auto.
  - exfalso. apply Hnot. rewrite E. apply in_map; auto.
  - exfalso. apply Hnot. rewrite <- E. apply in_map; auto.
Qed.

(* nothing is declared twice: two declared items with one name are the same item *)
Theorem wf_declared_once i j : Declares a i -> Declares a j -> item_key i = item_key j -> item_equiv i j.
Proof.
  intros Hi Hj E.
  apply wf_compile_complete in Hi as (i' & Hi' & Ei). apply wf_compile_complete in Hj as (j' & Hj' & Ej).
  assert (i' = j').
  { eapply NoDup_map_inj; [apply wf_keys_nodup | auto | auto |].
    rewrite <- (item_equiv_key _ _ Ei), <- (item_equiv_key _ _ Ej). auto. }
  subst. eapply item_equiv_trans; eauto. apply item_equiv_sym; auto.
Qed.

End Wf.

(* field order: system fields, then the inherited ones (ancestors first), then the declared ones,
   each list in declaration order *)
Theorem struct_field_order a m pn wq t k sg b ls :
  Chain a pn t b ls ->
  exists inherited,
    ls = inherited ++ [(pn, t_items t)] /\
    struct_item m pn wq t k sg ls =
    ItStruct (pn, t_name t) k wq (t_abstract t) sg
             (sys_fields k ++ flat_map fields_of inherited ++ fields_of (pn, t_items t))
             (flat_map conts_of inherited ++ conts_of (pn, t_items t)) (uniqs_chain m ls).
Proof.
  intros HC. destruct (Chain_own_last a _ _ _ _ HC) as (inh & ->). exists inh. split; auto.
  unfold struct_item. rewrite !flat_map_app. cbn [flat_map]. rewrite !app_nil_r. reflexivity.
Qed.

(* declaration order is kept: the compiled user fields of one item list are its field and
   reference items, in order, nothing else *)
Lemma fields_of_names l : map fd_name (fields_of l) =
  flat_map (fun it => match it with TField f => [f_name f] | TRef n _ _ => [n] | _ => [] end) (snd l).
Proof.
  unfold fields_of. induction (snd l) as [|it r IH]; cbn; auto.
  rewrite map_app, IH. f_equal. destruct it as [f | n refs nn | c t | cn fs]; cbn; auto.
  unfold fd_of_field. destruct (f_type f); reflexivity.
Qed.

(* ------------------------------------------------------------------ part 2: the Go model against the spec *)

(* the Go model's item `g` against the spec's item `i`: identical (kept as a match: the workspace case
   is where the two differed while the ACL block was repeated per heir, finding F28) *)
Definition item_ok (i g : item) : Prop :=
  match i, g with
  | ItWs q ab anc d u acl, ItWs q' ab' anc' d' u' acl' =>
    q = q' /\ ab = ab' /\ anc = anc' /\ d = d' /\ u = u' /\ acl' = acl
  | _, _ => i = g
  end.

Lemma item_ok_refl i : item_ok i i.
Proof. destruct i; cbn; auto. repeat split; auto. Qed.

Lemma Forall2_refl {A} (R : A -> A -> Prop) (Hr : forall x, R x x) l : Forall2 R l l.
Proof. induction l; constructor; auto. Qed.

Lemma Forall2_flat_map {A B} (R : B -> B -> Prop) (f g : A -> list B) l :
  (forall x, In x l -> Forall2 R (f x) (g x)) -> Forall2 R (flat_map f l) (flat_map g l).
Proof.
  induction l as [|x r IH]; cbn; intros H; [constructor|].
  apply Forall2_app; [apply H; auto | apply IH; intros; apply H; auto].
Qed.

(* ---- unique constraint names ---- *)

Lemma uniqs_from_no_unnamed its : count_unnamed its = 0%N -> forall c, uniqs_from c its = uniqs_from 0 its.
Proof.
  unfold count_unnamed. induction its as [|it r IH]; cbn; intros H c; auto.
  destruct it as [f | n refs nn | cn t | [cn|] fs]; cbn in *; auto.
  - f_equal. auto.
  - lia.
Qed.

Lemma uniqs_from_has_01 its : count_unnamed its <> 0%N -> In "01"%string (map ud_name (uniqs_from 0 its)).
Proof.
  unfold count_unnamed. induction its as [|it r IH]; cbn; intros H; [congruence|].
  destruct it as [f | n refs nn | cn t | [cn|] fs]; cbn in *; auto.
Qed.

Lemma NoDup_app_disjoint {A} (l1 l2 : list A) x : NoDup (l1 ++ l2) -> In x l1 -> In x l2 -> False.
Proof.
  induction l1 as [|y r IH]; cbn; intros Hn H1 H2; [destruct H1|].
  inversion Hn as [|? ? Hnot Hr]; subst. destruct H1 as [-> | H1].
  - apply Hnot. apply in_app_iff; auto.
  - eauto.
Qed.

Lemma NoDup_app_r {A} (l1 l2 : list A) : NoDup (l1 ++ l2) -> NoDup l2.
Proof. induction l1; cbn; auto. intros H; inversion H; auto. Qed.

Lemma uniqs_run_eq ls : forall c,
  (c = 0%N \/ Forall (fun l => count_unnamed (snd l) = 0%N) ls) ->
  NoDup (map ud_name (flat_map uniqs_of ls)) -> uniqs_run c ls = flat_map uniqs_of ls.
Proof.
  induction ls as [|l r IH]; cbn; intros c Hc Hn; auto.
  rewrite map_app in Hn. unfold uniqs_of at 1.
  destruct (N.eq_dec (count_unnamed (snd l)) 0) as [E0 | Ne0].
  - rewrite (uniqs_from_no_unnamed _ E0 c). f_equal. rewrite E0, N.add_0_r. apply IH.
    + destruct Hc as [-> | Hf]; auto. right. inversion Hf; auto.
    + eapply NoDup_app_r; eauto.
  - assert (Hr : Forall (fun l0 => count_unnamed (snd l0) = 0%N) r).
    { apply Forall_forall. intros l' Hl'. destruct (N.eq_dec (count_unnamed (snd l')) 0) as [|Ne]; auto.
      exfalso. eapply (NoDup_app_disjoint _ _ "01"%string Hn).
      - apply uniqs_from_has_01; auto.
      - apply in_map_iff. apply uniqs_from_has_01 in Ne. apply in_map_iff in Ne as (u & Eu & Hu).
        exists u. split; auto. apply in_flat_map. exists l'. auto. }
    destruct Hc as [-> | Hf]; [|inversion Hf; congruence].
    f_equal. apply IH; [right; auto | eapply NoDup_app_r; eauto].
Qed.

Lemma uniqs_chain_eq m ls :
  m_uniq_per_type m = true \/ NoDup (map ud_name (flat_map uniqs_of ls)) -> uniqs_chain Ideal ls = uniqs_chain m ls.
Proof.
  intros H. unfold uniqs_chain. cbn [m_uniq_per_type Ideal]. destruct (m_uniq_per_type m); auto.
  destruct H as [H | H]; [discriminate|]. apply uniqs_run_eq; auto.
Qed.

Lemma struct_item_eq m pn wq t k sg ls :
  m_uniq_per_type m = true \/ uniq_names_ok (struct_item m pn wq t k sg ls) = true ->
  struct_item Ideal pn wq t k sg ls = struct_item m pn wq t k sg ls.
Proof.
  intros H. unfold struct_item in *. f_equal. apply uniqs_chain_eq.
  destruct H as [H | H]; [left; auto|]. destruct (m_uniq_per_type m) eqn:E; [left; auto | right].
  cbn in H. unfold uniqs_chain in H. rewrite E in H.
  eapply nodup_b_NoDup; [apply String.eqb_eq | eauto].
Qed.

(* ---- views ---- *)

Definition vitem_plain (x : vitem) : bool := match x with VRef _ (_ :: _) _ => false | _ => true end.

Lemma vfd_key_eq pn part i : vitem_plain i = true -> vfd_key true pn part i = vfd_key false pn part i.
Proof. destruct i as [n ty nn | n [|r rs] nn]; cbn; auto; discriminate. Qed.
Lemma vfd_val_eq pn i : vitem_plain i = true -> vfd_val true pn i = vfd_val false pn i.
Proof. destruct i as [n ty nn | n [|r rs] nn]; cbn; auto; discriminate. Qed.

Lemma view_item_eq pn wq v : forallb vitem_plain (v_items v) = true -> view_item true pn wq v = view_item false pn wq v.
Proof.
  intros H. rewrite forallb_forall in H. unfold view_item.
  assert (Hk : forall part l, flat_map (fun n => map (vfd_key true pn part) (opt_list (find_vitem v n))) l
                              = flat_map (fun n => map (vfd_key false pn part) (opt_list (find_vitem v n))) l).
  { intros part l. induction l as [|n r IH]; cbn; auto. f_equal; auto.
    unfold find_vitem. destruct (find (fun i => vitem_name i =? n)%string (v_items v)) as [i|] eqn:Ef; cbn; auto.
    apply find_some in Ef as [Hin _]. rewrite vfd_key_eq; auto. }
  rewrite !Hk. f_equal. f_equal. apply map_ext_in. intros i Hi. apply filter_In in Hi as [Hi _].
  apply vfd_val_eq; auto.
Qed.

Section GoVsIdeal.
Variable a : schema.
Variable m : mode.
(* at each of the three points the compiler either does what the spec does, or the schema stays
   clear of the shape on which the two differ *)
Hypothesis Hcoll : m_uniq_per_type m = true \/ no_unique_collision a m = true.
Hypothesis Hnest : m_nested_inherit m = true \/ no_nested_user_inherit a = true.
Hypothesis Hview : m_view_refs m = true \/ no_view_ref_targets a = true.
Hypothesis Hacl : m_acl_repeat m = false \/ no_inherited_acl a = true.
Hypothesis Hdesc : m_desc_refs m = true \/ no_desc_ref_targets a = true.

Lemma desc_item_eq p w : In (p, w) (all_ws a) -> desc_item Ideal (p_name p) w = desc_item m (p_name p) w.
Proof.
  intros Hpw. unfold desc_item. cbn [m_desc_refs Ideal]. destruct (m_desc_refs m) eqn:Em; auto.
  destruct Hdesc as [H | H]; [discriminate|]. unfold no_desc_ref_targets in H. rewrite forallb_forall in H.
  specialize (H _ Hpw). cbn [fst snd] in H. f_equal. f_equal. destruct (w_desc w) as [fs|]; auto.
  apply map_ext_in. intros x Hx. rewrite forallb_forall in H. specialize (H _ Hx).
  destruct x as [f | n [|r rs] nn]; cbn [fd_of_ditem]; auto; discriminate.
Qed.

Lemma repeat_list_nil0 {A} n : @repeat_list A [] n = [].
Proof. induction n; cbn; auto. Qed.

Lemma acl_once p w : In (p, w) (all_ws a) ->
  repeat_list (acl_block (p_name p) w) (acl_repeat a m (p_name p, w_name w)) = repeat_list (acl_block (p_name p) w) 1.
Proof.
  intros Hpw. unfold acl_repeat. destruct (m_acl_repeat m) eqn:Em; auto.
  destruct Hacl as [H | H]; [discriminate|]. unfold no_inherited_acl in H. rewrite forallb_forall in H.
  specialize (H _ Hpw). cbn [fst snd] in H. destruct (acl_block (p_name p) w) eqn:Eb.
  - rewrite !repeat_list_nil0. reflexivity.
  - apply Nat.eqb_eq in H. rewrite H. reflexivity.
Qed.

Lemma go_item_uniq_ok it : In it (compile_items a m) -> m_uniq_per_type m = true \/ uniq_names_ok it = true.
Proof.
  intros Hin. destruct Hcoll as [H | H]; [left; auto | right].
  unfold no_unique_collision in H. rewrite forallb_forall in H. auto.
Qed.

Lemma nested_lists_eq p w t t' :
  In (p, w) (all_ws a) -> In (ITable t) (w_items w) -> In t' (nested_tables t) ->
  nested_lists a Ideal (p_name p) t' = nested_lists a m (p_name p) t'.
Proof.
  intros Hpw Hi Ht'. unfold nested_lists. cbn [m_nested_inherit Ideal].
  destruct (m_nested_inherit m) eqn:Em; auto. destruct Hnest as [H | H]; [discriminate|].
  unfold no_nested_user_inherit in H. rewrite forallb_forall in H.
  specialize (H _ Hpw). cbn [fst snd] in H. rewrite forallb_forall in H.
  assert (Hr : In t (ws_roots w)) by (unfold ws_roots; apply in_flat_map; exists (ITable t); cbn; auto).
  specialize (H _ Hr). rewrite forallb_forall in H. specialize (H _ Ht').
  rewrite chain_eq. destruct (t_inh t') as [q|] eqn:Ei; auto.
  rewrite H. destruct (sysbase_of (snd (resolve (p_name p) q))); auto.
Qed.

Lemma stmt_items_ok p w i :
  In (p, w) (all_ws a) -> In i (w_items w) ->
  Forall2 item_ok (stmt_items a Ideal (p_name p) (p_name p, w_name w) i) (stmt_items a m (p_name p) (p_name p, w_name w) i).
Proof.
  intros Hpw Hi. assert (Hw : In_ws a p w) by (apply in_all_ws; auto).
  destruct i as [t | n ys | v | x | f | n pub | r | l | g | n]; cbn [stmt_items];
    try (apply Forall2_refl; apply item_ok_refl).
  - (* tables *)
    assert (Hgo : forall it, In it (table_items a m (p_name p) (p_name p, w_name w) t) ->
                             m_uniq_per_type m = true \/ uniq_names_ok it = true).
    { intros it Hit. apply go_item_uniq_ok. eapply in_compile_stmt; eauto. }
    unfold table_items in *. destruct (chain a (fuel0 a) (p_name p) t) as [[b ls]|]; [|constructor].
    constructor.
    + rewrite (struct_item_eq m); [apply item_ok_refl | apply Hgo; left; auto].
    + assert (Hn : forall t', In t' (nested_tables t) ->
                   m_uniq_per_type m = true \/
                   uniq_names_ok (struct_item m (p_name p) (p_name p, w_name w) t' (nested_kind (base_kind b)) false
                                              (nested_lists a m (p_name p) t')) = true).
      { intros t' Ht'. apply Hgo. right. apply in_map_iff. exists t'. auto. }
      assert (Hl : forall t', In t' (nested_tables t) -> nested_lists a Ideal (p_name p) t' = nested_lists a m (p_name p) t')
        by (intros; eapply nested_lists_eq; eauto).
      revert Hn Hl. generalize (nested_tables t) as nt.
      induction nt as [|t' r IH]; intros Hn Hl; cbn [map]; constructor.
      * rewrite Hl by (left; auto). rewrite (struct_item_eq m); [apply item_ok_refl | apply Hn; left; auto].
      * apply IH; intros; [apply Hn | apply Hl]; right; auto.
  - (* views *)
    constructor; [|constructor]. cbn [m_view_refs Ideal]. destruct (m_view_refs m) eqn:Ev; [apply item_ok_refl|].
    rewrite view_item_eq; [apply item_ok_refl|]. destruct Hview as [H | H]; [discriminate|].
    unfold no_view_ref_targets in H. rewrite forallb_forall in H. specialize (H _ Hpw). cbn [fst snd] in H.
    rewrite forallb_forall in H. apply (H _ Hi).
Qed.

Theorem go_vs_ideal_proved : Forall2 item_ok (compile_items a Ideal) (compile_items a m).
Proof.
  unfold compile_items. apply Forall2_flat_map. intros [p w] Hpw. cbn [fst snd]. unfold ws_items.
  constructor.
  - unfold ws_item. rewrite (acl_once p w Hpw). unfold acl_repeat. cbn [m_acl_repeat Ideal item_ok]. repeat split; auto.
  - apply Forall2_app; [rewrite (desc_item_eq p w Hpw); apply Forall2_refl; apply item_ok_refl|].
    apply Forall2_flat_map. intros i Hi. apply stmt_items_ok; auto.
Qed.

End GoVsIdeal.

(* ------------------------------------------------------------------ part 3: the oracle accepts the model's own output *)

Lemma list_eqb_refl {A} (e : A -> A -> bool) (Hr : forall x, e x x = true) l : list_eqb e l l = true.
Proof. induction l; cbn; auto. rewrite Hr; auto. Qed.

Lemma existsb_refl {A} (e : A -> A -> bool) (Hr : forall x, e x x = true) x l : In x l -> existsb (e x) l = true.
Proof. intros H. apply existsb_exists. exists x; auto. Qed.

Lemma set_eqb_refl {A} (e : A -> A -> bool) (Hr : forall x, e x x = true) l : set_eqb e l l = true.
Proof.
  unfold set_eqb. assert (H : forallb (fun x => existsb (e x) l) l = true).
  { apply forallb_forall. intros x Hx. apply existsb_refl; auto. }
  rewrite H; auto.
Qed.

Lemma opt_eqb_refl {A} (e : A -> A -> bool) (Hr : forall x, e x x = true) o : opt_eqb e o o = true.
Proof. destruct o; cbn; auto. Qed.

Lemma qname_eqb_refl q : qname_eqb q q = true.
Proof. apply qname_eqb_eq; auto. Qed.
Lemma bool_eqb_refl b : bool_eqb b b = true.
Proof. destruct b; auto. Qed.
Lemma op_eqb_refl o : op_eqb o o = true.
Proof. destruct o; auto. Qed.
Lemma tkind_eqb_refl k : tkind_eqb k k = true.
Proof. destruct k; auto. Qed.
Lemma dkind_eqb_refl k : dkind_eqb k k = true.
Proof. destruct k; auto. Qed.
Lemma fkind_eqb_refl k : fkind_eqb k k = true.
Proof. destruct k; auto. Qed.
Lemma scope_eqb_refl k : scope_eqb k k = true.
Proof. destruct k; auto. Qed.

Lemma fdef_eqb_refl f : fdef_eqb f f = true.
Proof.
  unfold fdef_eqb. rewrite String.eqb_refl, dkind_eqb_refl, !bool_eqb_refl.
  rewrite (opt_eqb_refl N.eqb N.eqb_refl), (opt_eqb_refl String.eqb String.eqb_refl).
  rewrite (opt_eqb_refl _ (set_eqb_refl _ qname_eqb_refl)). reflexivity.
Qed.
Lemma cdef_eqb_refl c : cdef_eqb c c = true.
Proof. unfold cdef_eqb. rewrite String.eqb_refl, qname_eqb_refl, !N.eqb_refl. reflexivity. Qed.
Lemma udef_eqb_refl u : udef_eqb u u = true.
Proof. unfold udef_eqb. rewrite String.eqb_refl, (set_eqb_refl _ String.eqb_refl). reflexivity. Qed.
Lemma flt_eqb_refl f : flt_eqb f f = true.
Proof.
  destruct f; cbn; rewrite ?fkind_eqb_refl, ?qname_eqb_refl, ?(set_eqb_refl _ qname_eqb_refl), ?String.eqb_refl; auto.
Qed.
Lemma rule_eqb1_refl r : rule_eqb1 r r = true.
Proof.
  unfold rule_eqb1. rewrite bool_eqb_refl, flt_eqb_refl, (list_eqb_refl _ String.eqb_refl), qname_eqb_refl. reflexivity.
Qed.
Lemma event_eqb_refl e : event_eqb e e = true.
Proof. unfold event_eqb. rewrite (list_eqb_refl _ op_eqb_refl), flt_eqb_refl. reflexivity. Qed.

Lemma item_sim_refl c i : (forall q ab anc d u acl, i <> ItWs q ab anc d u acl) -> item_sim c i i = true.
Proof.
  intros Hn. destruct i; cbn;
    rewrite ?qname_eqb_refl, ?tkind_eqb_refl, ?bool_eqb_refl, ?(list_eqb_refl _ fdef_eqb_refl), ?(list_eqb_refl _ cdef_eqb_refl),
      ?(set_eqb_refl _ udef_eqb_refl), ?N.eqb_refl, ?(opt_eqb_refl _ qname_eqb_refl), ?(list_eqb_refl _ event_eqb_refl),
      ?(set_eqb_refl _ qname_eqb_refl), ?Z.eqb_refl, ?(list_eqb_refl _ scope_eqb_refl), ?(list_eqb_refl _ op_eqb_refl),
      ?flt_eqb_refl, ?String.eqb_refl; auto.
  exfalso. eapply Hn; eauto.
Qed.

(* ---- ACL: normalised operation lists, repetition ---- *)

Lemma mem_op_all o : mem_op o all_ops = true.
Proof. destruct o; reflexivity. Qed.

Lemma op_eqb_eq x y : op_eqb x y = true -> x = y.
Proof. destruct x, y; cbn; congruence. Qed.

Lemma mem_op_filter (P : op -> bool) o L : mem_op o (filter P L) = mem_op o L && P o.
Proof.
  unfold mem_op. induction L as [|x r IH]; cbn; auto.
  destruct (P x) eqn:Ep; cbn; rewrite IH.
  - destruct (op_eqb o x) eqn:E; cbn; auto. apply op_eqb_eq in E. subst. rewrite Ep. auto.
  - destruct (op_eqb o x) eqn:E; cbn; auto. apply op_eqb_eq in E. subst. rewrite Ep.
    rewrite andb_false_r. auto.
Qed.

Lemma norm_ops_idem l : norm_ops (norm_ops l) = norm_ops l.
Proof.
  unfold norm_ops at 1 3. apply filter_ext. intros o. unfold norm_ops. rewrite mem_op_filter, mem_op_all. auto.
Qed.

Lemma norm_ops_single o : norm_ops [o] = [o].
Proof. destruct o; reflexivity. Qed.

Definition rule_valid (r : rule) : bool := list_eqb op_eqb (r_ops r) (norm_ops (r_ops r)).

Lemma ops_refl_eq l : l = norm_ops l -> list_eqb op_eqb l (norm_ops l) = true.
Proof. intros <-. apply list_eqb_refl, op_eqb_refl. Qed.

Lemma grant_rules_valid pn wq g : forallb rule_valid (grant_rules pn wq g) = true.
Proof.
  unfold grant_rules. destruct (g_what g) as [r | c | q | v cols | | | | [acts|] | t cols | t acts]; cbn [forallb];
    unfold rule_valid; cbn [r_ops]; rewrite ?andb_true_r;
    try (apply ops_refl_eq; reflexivity).
  - apply ops_refl_eq. symmetry. apply norm_ops_idem.
  - apply forallb_forall. intros r Hr. apply in_map_iff in Hr as (o & <- & _). cbn [r_ops].
    apply ops_refl_eq. symmetry. apply norm_ops_single.
Qed.

Lemma ops_valid_app l1 l2 : ops_valid (l1 ++ l2) = ops_valid l1 && ops_valid l2.
Proof. unfold ops_valid. apply forallb_app. Qed.

Lemma ops_valid_flat_map {A} (f : A -> list rule) l : (forall x, ops_valid (f x) = true) -> ops_valid (flat_map f l) = true.
Proof. intros H. induction l; cbn; auto. rewrite ops_valid_app, H, IHl. auto. Qed.

Lemma acl_block_valid pn w : ops_valid (acl_block pn w) = true.
Proof.
  unfold acl_block. rewrite ops_valid_app, !ops_valid_flat_map; auto; intros; apply grant_rules_valid.
Qed.

Lemma ops_valid_repeat l n : ops_valid l = true -> ops_valid (repeat_list l n) = true.
Proof. intros H. induction n; cbn; auto. rewrite ops_valid_app, H, IHn. auto. Qed.

Lemma acl_eqb_refl l : ops_valid l = true -> acl_eqb l l = true.
Proof.
  intros H. unfold acl_eqb. rewrite H. cbn [andb]. apply forallb_forall. intros o _.
  apply list_eqb_refl, rule_eqb1_refl.
Qed.

Lemma repeat_list_nil {A} n : @repeat_list A [] n = [].
Proof. induction n; cbn; auto. Qed.

Lemma repeat_list_length {A} (l : list A) n : List.length (repeat_list l n) = n * List.length l.
Proof. induction n; cbn; auto. rewrite app_length, IHn. auto. Qed.

Lemma acl_power_repeat l k : ops_valid l = true -> acl_power l (repeat_list l (S k)) = true.
Proof.
  intros H. unfold acl_power. apply existsb_exists. destruct l as [|r0 l0] eqn:El.
  - exists 1. rewrite !repeat_list_nil. split; [cbn; auto | reflexivity].
  - rewrite <- El in *. exists (S k). split.
    + apply in_seq. rewrite repeat_list_length. subst l. cbn [List.length]. lia.
    + apply acl_eqb_refl. apply ops_valid_repeat; auto.
Qed.

Lemma item_ok_sim i g : (forall q ab anc d u acl, i = ItWs q ab anc d u acl -> ops_valid acl = true) ->
  item_ok i g -> item_sim acl_eqb i g = true.
Proof.
  intros Hv H. destruct i; cbn in H; try (subst g; apply item_sim_refl; intros; discriminate).
  destruct g; try discriminate. destruct H as (-> & -> & -> & -> & -> & ->). cbn.
  rewrite qname_eqb_refl, bool_eqb_refl, !(set_eqb_refl _ qname_eqb_refl), (opt_eqb_refl _ qname_eqb_refl).
  cbn [andb]. apply acl_eqb_refl. eapply Hv; eauto.
Qed.

Lemma item_ok_key i g : item_ok i g -> item_key i = item_key g.
Proof.
  destruct i; cbn; try (intros <-; reflexivity). destruct g; try discriminate. intros (-> & _). reflexivity.
Qed.

Lemma Forall2_keys l1 l2 : Forall2 item_ok l1 l2 -> map item_key l1 = map item_key l2.
Proof. induction 1; cbn; auto. f_equal; auto. apply item_ok_key; auto. Qed.

Lemma NoDup_nodup_b l : NoDup l -> nodup_b qname_eqb l = true.
Proof.
  induction 1 as [|x r Hnot Hn IH]; cbn; auto. rewrite IH, andb_true_r. apply negb_true_iff.
  destruct (existsb (qname_eqb x) r) eqn:E; auto. apply existsb_exists in E as (y & Hy & Ey).
  apply qname_eqb_eq in Ey. subst. contradiction.
Qed.

Lemma Forall2_len {A B} (R : A -> B -> Prop) l1 l2 : Forall2 R l1 l2 -> List.length l1 = List.length l2.
Proof. induction 1; cbn; auto. Qed.

Lemma Forall2_dump_match exp obs :
  Forall2 (fun i g => item_sim acl_eqb i g = true) exp obs -> NoDup (map item_key obs) ->
  dump_match acl_eqb exp obs = true.
Proof.
  intros HF Hn. unfold dump_match. rewrite (NoDup_nodup_b _ Hn), andb_true_r.
  assert (H1 : forallb (fun e => existsb (item_sim acl_eqb e) obs) exp = true).
  { clear Hn. induction HF as [|i g l1 l2 Hs HF IH]; cbn; auto. rewrite Hs. cbn.
    eapply forallb_forall. intros e He. rewrite forallb_forall in IH. rewrite (IH _ He). apply orb_true_r. }
  assert (H2 : forallb (fun o => existsb (fun e => item_sim acl_eqb e o) exp) obs = true).
  { clear Hn H1. induction HF as [|i g l1 l2 Hs HF IH]; cbn; auto. rewrite Hs. cbn.
    eapply forallb_forall. intros o Ho. rewrite forallb_forall in IH. rewrite (IH _ Ho). apply orb_true_r. }
  rewrite H1, H2. cbn. apply Nat.eqb_eq. eapply Forall2_len; eauto.
Qed.

Lemma Forall2_impl_in {A B} (R S : A -> B -> Prop) l1 l2 :
  (forall x y, In x l1 -> R x y -> S x y) -> Forall2 R l1 l2 -> Forall2 S l1 l2.
Proof.
  intros H HF. induction HF; constructor.
  - apply H; [left; auto | auto].
  - apply IHHF. intros; apply H; [right; auto | auto].
Qed.

(* the ACL of every workspace item of the spec is made of normalised rules *)
Lemma ideal_ws_acl_valid a it q ab anc d u acl :
  In it (compile_items a Ideal) -> it = ItWs q ab anc d u acl -> ops_valid acl = true.
Proof.
  intros Hin E. unfold compile_items in Hin. apply in_flat_map in Hin as ([p w] & _ & Hin). cbn [fst snd] in Hin.
  unfold ws_items in Hin. destruct Hin as [Hin | Hin].
  - rewrite <- Hin in E. unfold ws_item in E. inversion E; subst. rewrite app_nil_r. apply acl_block_valid.
  - subst it. exfalso. apply in_app_iff in Hin as [Hin | Hin].
    + destruct (w_abstract w); [destruct Hin|]. destruct Hin as [Hin | []]. discriminate.
    + apply in_flat_map in Hin as (i & _ & Hin).
      destruct i as [t | n ys | v | x | f | n pub | r | l | g | n]; cbn in Hin;
        try (destruct Hin as [Hin | []]; discriminate); try (destruct Hin; fail).
      unfold table_items in Hin. destruct (chain a (fuel0 a) (p_name p) t) as [[b ls]|]; [|destruct Hin].
      destruct Hin as [Hin | Hin]; [discriminate|]. apply in_map_iff in Hin as (t' & Hin & _). discriminate.
Qed.

Lemma item_ok_uniq i g : item_ok i g -> uniq_names_ok g = uniq_names_ok i.
Proof. destruct i; cbn; try (intros <-; reflexivity). destruct g; try discriminate. reflexivity. Qed.

Lemma Forall2_uniq l1 l2 : Forall2 item_ok l1 l2 -> forallb uniq_names_ok l1 = true -> forallb uniq_names_ok l2 = true.
Proof.
  induction 1 as [|i g r1 r2 Hok HF IH]; cbn; auto. rewrite (item_ok_uniq _ _ Hok).
  intros H. apply andb_true_iff in H as [-> H]. auto.
Qed.

(* the oracle accepts what a compiler of mode m yields on a well-formed schema, whenever at each of
   the three points the compiler does what the spec does or the schema avoids the shape *)
Theorem satisfies_model_output_proved a m :
  wf a = true ->
  (m_uniq_per_type m = true \/ no_unique_collision a m = true) ->
  (m_nested_inherit m = true \/ no_nested_user_inherit a = true) ->
  (m_view_refs m = true \/ no_view_ref_targets a = true) ->
  (m_acl_repeat m = false \/ no_inherited_acl a = true) ->
  (m_res_pkg m = true \/ names_distinct a = true) ->
  (m_res_inh m = true \/ inherits_qualified a = true) ->
  (m_desc_refs m = true \/ no_desc_ref_targets a = true) ->
  (m_nested_pkg m = true \/ no_foreign_nested a = true) ->
  (m_diamond m = true \/ no_diamond_below a = true) ->
  (m_grant_inh m = true \/ grant_cols_own a = true) ->
  (m_direct_anc m = true \/ no_indirect_anc a = true) ->
  exists d, compile a m = Some d /\ satisfies (Trace a (render a) (Compiled d true true (direct_anc_shown a m))) = true.
Proof.
  intros Hwf Hc Hn Hv Ha Hrp Hri Hd Hnp Hdm Hgi Hda. exists (compile_items a m).
  assert (Hds : direct_anc_shown a m = true) by (unfold direct_anc_shown; apply orb_true_iff; tauto).
  rewrite Hds.
  pose proof (go_vs_ideal_proved a m Hc Hn Hv Ha Hd) as HF.
  destruct (wf_parts a Hwf) as (Hkeys & _ & Hu).
  assert (Hres : resolves_like_spec a m = true).
  { unfold resolves_like_spec. rewrite !andb_true_iff. repeat split; apply orb_true_iff; tauto. }
  split.
  - unfold compile, accepts. rewrite Hwf, Hres. unfold no_unique_collision in *. rewrite (Forall2_uniq _ _ HF Hu). reflexivity.
  - unfold satisfies. cbn [tr_ast tr_out]. unfold compile, accepts, resolves_like_spec. cbn [m_res_pkg m_res_inh m_nested_pkg m_diamond m_grant_inh Ideal orb].
    rewrite Hwf, Hu. cbn [andb]. rewrite !andb_true_r.
    apply Forall2_dump_match.
    + eapply Forall2_impl_in; [|exact HF]. intros i g Hi Hok. apply item_ok_sim; auto.
      intros. eapply ideal_ws_acl_valid; eauto.
    + rewrite <- (Forall2_keys _ _ HF). auto.
Qed.

Ltac go_flag := unfold Go; cbn [m_uniq_per_type m_nested_inherit m_view_refs m_acl_repeat m_res_pkg m_res_inh m_desc_refs m_nested_pkg m_diamond m_grant_inh m_direct_anc];
  repeat match goal with H : _ = true |- _ => rewrite H; clear H end; reflexivity.

(* the link theorem for the compiler as it is: no hypothesis on the schema beyond well-formedness,
   given that the source does the six things the way the spec does (side conditions on Gen/Params.v) *)
Theorem go_meets_spec_proved :
  parser_uniques_numbered_per_type = true -> parser_nested_tables_inherit = true -> parser_view_refs_recorded = true ->
  parser_inherited_grants_once = true -> parser_lookup_respects_package = true -> parser_inherits_in_own_package = true ->
  parser_descriptor_refs_analysed = true ->
  parser_inherited_nested_in_own_package = true -> parser_diamond_below_heir_accepted = true -> parser_grant_inherited_columns = true ->
  parser_ancestors_direct = true ->
  forall a, wf a = true ->
  exists d, compile a Go = Some d /\ satisfies (Trace a (render a) (Compiled d true true (direct_anc_shown a Go))) = true.
Proof.
  intros H1 H2 H3 H4 H5 H6 H7 H8 H9 H10 H11 a Hwf. apply (satisfies_model_output_proved a Go Hwf); left; go_flag.
Qed.

(* the same with the observation spelled out: with the eleventh flag true the compiler shows the direct ancestors *)
Theorem go_meets_spec_plain_proved :
  parser_uniques_numbered_per_type = true -> parser_nested_tables_inherit = true -> parser_view_refs_recorded = true ->
  parser_inherited_grants_once = true -> parser_lookup_respects_package = true -> parser_inherits_in_own_package = true ->
  parser_descriptor_refs_analysed = true ->
  parser_inherited_nested_in_own_package = true -> parser_diamond_below_heir_accepted = true -> parser_grant_inherited_columns = true ->
  parser_ancestors_direct = true ->
  forall a, wf a = true ->
  exists d, compile a Go = Some d /\ satisfies (Trace a (render a) (Compiled d true true true)) = true.
Proof.
  intros H1 H2 H3 H4 H5 H6 H7 H8 H9 H10 H11 a Hwf.
  destruct (go_meets_spec_proved H1 H2 H3 H4 H5 H6 H7 H8 H9 H10 H11 a Hwf) as (d & Hc & Hs).
  assert (E : direct_anc_shown a Go = true) by (unfold direct_anc_shown, Go; cbn [m_direct_anc]; rewrite H11; reflexivity).
  exists d. split; [exact Hc|]. rewrite E in Hs. exact Hs.
Qed.

(* the same while some repairs are missing: the schema avoids the shapes the missing ones are about *)
Theorem go_meets_spec_within_proved :
  parser_uniques_numbered_per_type = true -> parser_nested_tables_inherit = true -> parser_view_refs_recorded = true ->
  forall a, wf a = true ->
  (parser_inherited_grants_once = true \/ no_inherited_acl a = true) ->
  (parser_lookup_respects_package = true \/ names_distinct a = true) ->
  (parser_inherits_in_own_package = true \/ inherits_qualified a = true) ->
  (parser_descriptor_refs_analysed = true \/ no_desc_ref_targets a = true) ->
  (parser_inherited_nested_in_own_package = true \/ no_foreign_nested a = true) ->
  (parser_diamond_below_heir_accepted = true \/ no_diamond_below a = true) ->
  (parser_grant_inherited_columns = true \/ grant_cols_own a = true) ->
  (parser_ancestors_direct = true \/ no_indirect_anc a = true) ->
  exists d, compile a Go = Some d /\ satisfies (Trace a (render a) (Compiled d true true (direct_anc_shown a Go))) = true.
Proof.
  intros H1 H2 H3 a Hwf H4 H5 H6 H7 H8 H9 H10 H11. apply (satisfies_model_output_proved a Go Hwf).
  - left; clear H4 H5 H6 H7 H8 H9 H10 H11; go_flag.
  - left; clear H4 H5 H6 H7 H8 H9 H10 H11; go_flag.
  - left; clear H4 H5 H6 H7 H8 H9 H10 H11; go_flag.
  - destruct H4 as [H4 | H4]; [left; clear H5 H6 H7 H8 H9 H10 H11; go_flag | right; auto].
  - destruct H5 as [H5 | H5]; [left; clear H4 H6 H7 H8 H9 H10 H11; go_flag | right; auto].
  - destruct H6 as [H6 | H6]; [left; clear H4 H5 H7 H8 H9 H10 H11; go_flag | right; auto].
  - destruct H7 as [H7 | H7]; [left; clear H4 H5 H6 H8 H9 H10 H11; go_flag | right; auto].
  - destruct H8 as [H8 | H8]; [left; clear H4 H5 H6 H7 H9 H10 H11; go_flag | right; auto].
  - destruct H9 as [H9 | H9]; [left; clear H4 H5 H6 H7 H8 H10 H11; go_flag | right; auto].
  - destruct H10 as [H10 | H10]; [left; clear H4 H5 H6 H7 H8 H9 H11; go_flag | right; auto].
  - destruct H11 as [H11 | H11]; [left; clear H4 H5 H6 H7 H8 H9 H10; go_flag | right; auto].
Qed.

Theorem go_item_for_item_proved :
  parser_uniques_numbered_per_type = true -> parser_nested_tables_inherit = true -> parser_view_refs_recorded = true ->
  forall a, (parser_inherited_grants_once = true \/ no_inherited_acl a = true) ->
  (parser_descriptor_refs_analysed = true \/ no_desc_ref_targets a = true) ->
  Forall2 item_ok (compile_items a Ideal) (compile_items a Go).
Proof.
  intros H1 H2 H3 a H4 H7. apply go_vs_ideal_proved.
  - left; clear H4 H7; go_flag.
  - left; clear H4 H7; go_flag.
  - left; clear H4 H7; go_flag.
  - destruct H4 as [H4 | H4]; [left; clear H7; go_flag | right; auto].
  - destruct H7 as [H7 | H7]; [left; clear H4; go_flag | right; auto].
Qed.
