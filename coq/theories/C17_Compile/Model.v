(* C17 - a compiled application definition says exactly what the VSQL source says.

   Definitions only.  Three layers:
   - a structural schema AST (packages / files / workspaces / statements) and `render : schema -> texts`
     (the VSQL text the Go compiler is run on);
   - `compile (m : mode)`: the reference compiler.  `compile Go` is the faithful model of
     pkg/parser (impl_analyse.go, impl_build.go) + appdef builder as they are, quirks included
     (three behaviours that were defects are flags taken from the source by the translator);
     `compile Ideal` is the same translation without the quirks (the executable form of the spec);
   - `Declares a it`: the declarative relation "item `it` is declared by schema `a`, directly or by
     the documented inheritance / system rules" (the property's own words).
   Trace checking: `agrees` compares the observed dump of the Go compiler with `compile Go`,
   `satisfies` judges the observed dump against the spec (`compile Ideal`, proved equivalent to
   `Declares` in Proofs.v) and never looks at `compile Go`. *)
From Coq Require Import List NArith ZArith Bool String Ascii DecimalString.
From V Require Import Lib.Check Gen.Params.
Import ListNotations.
Local Open Scope string_scope.
Infix "+++" := (@app _) (right associativity, at level 60).

(* ------------------------------------------------------------------ AST *)

Definition ident := string.
Definition qname := (string * string)%type.          (* (package local name, entity) *)
Record qref := QR { qr_pkg : string; qr_name : ident }.   (* as written: "" = unqualified *)

Definition resolve (pn : ident) (q : qref) : qname :=
  (if qr_pkg q =? "" then pn else qr_pkg q, qr_name q).

Inductive dtype :=
  | DVarchar (n : option N) | DBytes (n : option N)
  | DInt8 | DInt16 | DInt32 | DInt64 | DFloat32 | DFloat64
  | DTimestamp | DCurrency | DBool | DBlob | DQName.

Record field := Fld { f_name : ident; f_type : dtype; f_notnull : bool; f_verif : bool; f_check : option string }.

Inductive titem :=
  | TField (f : field)
  | TRef (n : ident) (refs : list qref) (nn : bool)
  | TNested (c : ident) (t : table)
  | TUnique (cn : option ident) (fs : list ident)
with table := Table (name : ident) (abstract : bool) (inh : option qref) (items : list titem).

Definition t_name t := match t with Table n _ _ _ => n end.
Definition t_abstract t := match t with Table _ b _ _ => b end.
Definition t_inh t := match t with Table _ _ i _ => i end.
Definition t_items t := match t with Table _ _ _ l => l end.

(* a workspace descriptor holds plain fields and reference fields *)
Inductive ditem := DField (f : field) | DRef (n : ident) (refs : list qref) (nn : bool).
Definition d_name (d : ditem) : ident := match d with DField f => f_name f | DRef n _ _ => n end.

Inductive yitem := YField (f : field) | YCont (n : ident) (ty : qref) (nn : bool).

Inductive vitem := VField (n : ident) (ty : dtype) (nn : bool) | VRef (n : ident) (refs : list qref) (nn : bool).
Record view := View { v_name : ident; v_items : list vitem; v_pk : list ident; v_cc : list ident; v_of : qref }.

Inductive trig :=
  | TrTab (ins upd act deact : bool) (targets : list qref)
  | TrExec (targets : list qref)
  | TrExecParam (targets : list qref).
Record proj := Proj { pj_name : ident; pj_sync : bool; pj_wasm : bool; pj_trigs : list trig; pj_intents : list qref; pj_errors : bool }.

Inductive fparam := PNone | PAny | PVoid | PDef (q : qref).
Record func := Func { fn_name : ident; fn_cmd : bool; fn_wasm : bool; fn_param : fparam; fn_unlogged : fparam; fn_result : fparam }.

Inductive tunit := USecond | UMinute | UHour | UDay | UYear.
Record rate := Rate { rt_name : ident; rt_count : N; rt_amount : option N; rt_unit : tunit;
                      rt_oscope : option bool (* true = PER APP PARTITION, false = PER WORKSPACE *);
                      rt_sscope : option bool (* true = PER SUBJECT, false = PER IP *) }.

Inductive op := OInsert | OUpdate | OActivate | ODeactivate | OSelect | OExecute | OExecParam | OInherits.
Inductive fkind := FkRecords | FkCommand | FkQuery | FkView.
Inductive lfilter := LSingle (k : fkind) (q : qref) | LAll (k : fkind) | LEach (k : fkind).
Record limit := Limit { lm_name : ident; lm_acts : list op; lm_filter : lfilter; lm_rate : qref }.

Inductive gwhat :=
  | GRole (r : qref)
  | GExecCmd (c : qref) | GExecQuery (q : qref)
  | GSelectView (v : qref) (cols : list ident)
  | GAllCommands | GAllQueries | GAllViews
  | GAllTables (acts : option (list op))                (* None = ALL *)
  | GTableAll (t : qref) (cols : list ident)            (* ALL [(cols)] ON TABLE t *)
  | GTable (t : qref) (acts : list (op * list string)). (* SELECT(a, sys.ID), UPDATE ON TABLE t *)
Record grant := Grant { g_revoke : bool; g_what : gwhat; g_role : qref }.

Inductive wsitem :=
  | ITable (t : table) | IType (n : ident) (ys : list yitem) | IView (v : view) | IProj (p : proj)
  | IFunc (f : func) | IRole (n : ident) (published : bool) | IRate (r : rate) | ILimit (l : limit)
  | IGrant (g : grant) | IUse (n : ident).

Record ws := Ws { w_name : ident; w_abstract : bool; w_inh : list qref; w_desc : option (list ditem); w_items : list wsitem }.
Record pkg := Pkg { p_name : ident; p_files : list (list ws) }.
Definition p_wss (p : pkg) : list ws := List.concat (p_files p).
Definition schema := list pkg.     (* head = the application package *)

(* ------------------------------------------------------------------ rendering *)

Definition sep (s : string) (l : list string) : string := String.concat s l.
Definition r_num (n : N) : string := NilZero.string_of_uint (N.to_uint n).
Definition r_qref (q : qref) : string := if qr_pkg q =? "" then qr_name q else qr_pkg q ++ "." ++ qr_name q.
Definition r_len (n : option N) : string := match n with Some k => "(" ++ r_num k ++ ")" | None => "" end.
Definition r_dtype (d : dtype) : string :=
  match d with
  | DVarchar n => "varchar" ++ r_len n | DBytes n => "bytes" ++ r_len n
  | DInt8 => "int8" | DInt16 => "int16" | DInt32 => "int32" | DInt64 => "int64"
  | DFloat32 => "float32" | DFloat64 => "float64" | DTimestamp => "timestamp" | DCurrency => "currency"
  | DBool => "bool" | DBlob => "blob" | DQName => "qname"
  end.
Definition r_nn (b : bool) : string := if b then " NOT NULL" else "".
Definition r_field (f : field) : string :=
  f_name f ++ " " ++ r_dtype (f_type f) ++ r_nn (f_notnull f) ++ (if f_verif f then " VERIFIABLE" else "")
  ++ match f_check f with Some r => " CHECK '" ++ r ++ "'" | None => "" end.
Definition r_refs (l : list qref) : string :=
  match l with [] => "ref" | _ => "ref(" ++ sep ", " (map r_qref l) ++ ")" end.
Definition r_paren (l : list string) : string := "(" ++ sep ", " l ++ ")".

Fixpoint r_table (t : table) : string :=
  match t with
  | Table n ab inh its =>
    (if ab then "ABSTRACT " else "") ++ "TABLE " ++ n
    ++ match inh with Some q => " INHERITS " ++ r_qref q | None => "" end ++ " "
    ++ r_paren ((fix go (l : list titem) : list string :=
         match l with
         | [] => []
         | it :: r =>
           match it with
           | TField f => r_field f
           | TRef fn refs nn => fn ++ " " ++ r_refs refs ++ r_nn nn
           | TNested c t' => c ++ " " ++ r_table t'
           | TUnique cn fs => match cn with Some c => "CONSTRAINT " ++ c ++ " " | None => "" end ++ "UNIQUE " ++ r_paren fs
           end :: go r
         end) its)
  end.

Definition r_yitem (y : yitem) : string :=
  match y with YField f => r_field f | YCont n ty nn => n ++ " " ++ r_qref ty ++ r_nn nn end.
Definition r_vitem (v : vitem) : string :=
  match v with
  | VField n ty nn => n ++ " " ++ r_dtype ty ++ r_nn nn
  | VRef n refs nn => n ++ " " ++ r_refs refs ++ r_nn nn
  end.
Definition r_view (v : view) : string :=
  "VIEW " ++ v_name v ++ " "
  ++ r_paren (map r_vitem (v_items v)
              +++ ["PRIMARY KEY (" ++ match v_pk v with
                                      | [] => sep ", " (v_cc v)      (* no partition key group *)
                                      | _ => r_paren (v_pk v) ++ match v_cc v with [] => "" | _ => ", " ++ sep ", " (v_cc v) end
                                      end ++ ")"])
  ++ " AS RESULT OF " ++ r_qref (v_of v).

Definition r_engine (wasm : bool) (s : string) : string :=
  "EXTENSION ENGINE " ++ (if wasm then "WASM" else "BUILTIN") ++ " ( " ++ s ++ "; )".
Definition r_targets (l : list qref) : string :=
  match l with [q] => r_qref q | _ => r_paren (map r_qref l) end.
Definition r_trig (t : trig) : string :=
  match t with
  | TrTab i u a d l =>
    "AFTER " ++ sep " OR " ((if i then ["INSERT"] else []) +++ (if u then ["UPDATE"] else [])
                            +++ (if a then ["ACTIVATE"] else []) +++ (if d then ["DEACTIVATE"] else []))
    ++ " ON " ++ r_targets l
  | TrExec l => "AFTER EXECUTE ON " ++ r_targets l
  | TrExecParam l => "AFTER EXECUTE WITH PARAM ON " ++ r_targets l
  end.
Definition r_proj (p : proj) : string :=
  r_engine (pj_wasm p)
    ((if pj_sync p then "SYNC " else "") ++ "PROJECTOR " ++ pj_name p ++ " " ++ sep " OR " (map r_trig (pj_trigs p))
     ++ match pj_intents p with [] => "" | l => " INTENTS(sys.View" ++ r_paren (map r_qref l) ++ ")" end
     ++ (if pj_errors p then " INCLUDING ERRORS" else "")).
Definition r_fparam (x : fparam) : string :=
  match x with PNone => "" | PAny => "any" | PVoid => "void" | PDef q => r_qref q end.
Definition is_pnone (x : fparam) : bool := match x with PNone => true | _ => false end.
Definition r_func (f : func) : string :=
  r_engine (fn_wasm f)
    ((if fn_cmd f then "COMMAND " else "QUERY ") ++ fn_name f
     ++ (if is_pnone (fn_param f) && is_pnone (fn_unlogged f) then ""
         else "(" ++ r_fparam (fn_param f)
              ++ (if is_pnone (fn_unlogged f) then ""
                  else (if is_pnone (fn_param f) then "" else ", ") ++ "UNLOGGED " ++ r_fparam (fn_unlogged f))
              ++ ")")
     ++ (if is_pnone (fn_result f) then "" else " RETURNS " ++ r_fparam (fn_result f))).
Definition r_unit (u : tunit) : string :=
  match u with USecond => "SECOND" | UMinute => "MINUTE" | UHour => "HOUR" | UDay => "DAY" | UYear => "YEAR" end.
Definition r_rate (r : rate) : string :=
  "RATE " ++ rt_name r ++ " " ++ r_num (rt_count r) ++ " PER "
  ++ match rt_amount r with Some k => r_num k ++ " " | None => "" end ++ r_unit (rt_unit r)
  ++ match rt_oscope r with Some true => " PER APP PARTITION" | Some false => " PER WORKSPACE" | None => "" end
  ++ match rt_sscope r with Some true => " PER SUBJECT" | Some false => " PER IP" | None => "" end.
Definition r_op (o : op) : string :=
  match o with
  | OInsert => "INSERT" | OUpdate => "UPDATE" | OActivate => "ACTIVATE" | ODeactivate => "DEACTIVATE"
  | OSelect => "SELECT" | OExecute => "EXECUTE" | OExecParam => "EXECUTE WITH PARAM" | OInherits => "INHERITS"
  end.
Definition r_fk1 (k : fkind) : string :=
  match k with FkRecords => "TABLE" | FkCommand => "COMMAND" | FkQuery => "QUERY" | FkView => "VIEW" end.
Definition r_fkn (k : fkind) : string :=
  match k with FkRecords => "TABLES" | FkCommand => "COMMANDS" | FkQuery => "QUERIES" | FkView => "VIEWS" end.
Definition r_limit (l : limit) : string :=
  "LIMIT " ++ lm_name l ++ " "
  ++ match lm_acts l with [] => "" | a => sep ", " (map r_op a) ++ " " end
  ++ match lm_filter l with
     | LSingle k q => "ON " ++ r_fk1 k ++ " " ++ r_qref q
     | LAll k => "ON ALL " ++ r_fkn k
     | LEach k => "ON EACH " ++ r_fk1 k
     end
  ++ " WITH RATE " ++ r_qref (lm_rate l).
Definition r_cols (l : list string) : string := match l with [] => "" | _ => r_paren l end.
Definition r_gwhat (g : gwhat) : string :=
  match g with
  | GRole r => r_qref r
  | GExecCmd c => "EXECUTE ON COMMAND " ++ r_qref c
  | GExecQuery q => "EXECUTE ON QUERY " ++ r_qref q
  | GSelectView v cols => "SELECT" ++ r_cols cols ++ " ON VIEW " ++ r_qref v
  | GAllCommands => "EXECUTE ON ALL COMMANDS"
  | GAllQueries => "EXECUTE ON ALL QUERIES"
  | GAllViews => "SELECT ON ALL VIEWS"
  | GAllTables None => "ALL ON ALL TABLES"
  | GAllTables (Some acts) => sep ", " (map r_op acts) ++ " ON ALL TABLES"
  | GTableAll t cols => "ALL" ++ r_cols cols ++ " ON TABLE " ++ r_qref t
  | GTable t acts => sep ", " (map (fun x => r_op (fst x) ++ r_cols (snd x)) acts) ++ " ON TABLE " ++ r_qref t
  end.
Definition r_grant (g : grant) : string :=
  if g_revoke g then "REVOKE " ++ r_gwhat (g_what g) ++ " FROM " ++ r_qref (g_role g)
  else "GRANT " ++ r_gwhat (g_what g) ++ " TO " ++ r_qref (g_role g).
Definition r_wsitem (i : wsitem) : string :=
  match i with
  | ITable t => r_table t
  | IType n ys => "TYPE " ++ n ++ " " ++ r_paren (map r_yitem ys)
  | IView v => r_view v
  | IProj p => r_proj p
  | IFunc f => r_func f
  | IRole n pub => (if pub then "PUBLISHED " else "") ++ "ROLE " ++ n
  | IRate r => r_rate r
  | ILimit l => r_limit l
  | IGrant g => r_grant g
  | IUse n => "USE WORKSPACE " ++ n
  end.
Definition nl : string := String (ascii_of_nat 10) EmptyString.
Definition r_ws (w : ws) : string :=
  (if w_abstract w then "ABSTRACT " else "") ++ "WORKSPACE " ++ w_name w
  ++ match w_inh w with [] => "" | l => " INHERITS " ++ sep ", " (map r_qref l) end ++ " (" ++ nl
  ++ match w_desc w with Some fs => "  DESCRIPTOR " ++ r_paren (map (fun d => match d with DField f => r_field f | DRef fn refs nn => fn ++ " " ++ r_refs refs ++ r_nn nn end) fs) ++ ";" ++ nl | None => "" end
  ++ sep "" (map (fun i => "  " ++ r_wsitem i ++ ";" ++ nl) (w_items w))
  ++ ");" ++ nl.

Definition pkg_path (n : ident) : string := "github.com/verif/" ++ n.
(* every package imports all the packages that follow it; the application statement sits in the
   first file of the first package *)
Fixpoint render_pkgs (first : bool) (a : schema) : list (string * list string) :=
  match a with
  | [] => []
  | p :: rest =>
    let header :=
      sep "" (map (fun q => "IMPORT SCHEMA '" ++ pkg_path (p_name q) ++ "';" ++ nl) rest)
      ++ (if first then "APPLICATION " ++ p_name p ++ " (" ++ sep "" (map (fun q => " USE " ++ p_name q ++ ";") rest) ++ " );" ++ nl else "") in
    let files := match p_files p with [] => [[]] | fs => fs end in
    (pkg_path (p_name p),
     match map (fun f => sep "" (map r_ws f)) files with
     | [] => [header]
     | f0 :: fr => (header ++ f0) :: fr
     end) :: render_pkgs false rest
  end.
Definition render (a : schema) : list (string * list string) := render_pkgs true a.

(* ------------------------------------------------------------------ compiled definition *)

Inductive dkind := Kint8 | Kint16 | Kint32 | Kint64 | Kfloat32 | Kfloat64 | Kbytes | Kstring | KQName | Kbool | KRecordID.
Inductive tkind := KCDoc | KODoc | KWDoc | KCRecord | KORecord | KWRecord | KObject.
Inductive scope := ScAppPartition | ScWorkspace | ScUser | ScIP.

Record fdef := FD { fd_name : string; fd_kind : dkind; fd_req : bool; fd_sys : bool; fd_ver : bool;
                    fd_max : option N; fd_pat : option string; fd_refs : option (list qname) }.
Record cdef := CD { cd_name : string; cd_type : qname; cd_min : N; cd_max : N }.
Record udef := UD { ud_name : string; ud_fields : list string }.
Inductive flt := FQ (l : list qname) | FT (k : fkind) | FWT (w : qname) (k : fkind) | FAnd (k : fkind) (q : qname) | FOther (s : string).
Record rule := Rule { r_allow : bool; r_ops : list op; r_flt : flt; r_fields : list string; r_role : qname }.

Inductive item :=
  | ItWs (q : qname) (abstract : bool) (anc : list qname) (desc : option qname) (used : list qname) (acl : list rule)
  | ItStruct (q : qname) (k : tkind) (w : qname) (abstract singleton : bool)
             (fields : list fdef) (conts : list cdef) (uniqs : list udef)
  | ItView (q w : qname) (pk cc val : list fdef)
  | ItFunc (q w : qname) (iscmd wasm : bool) (param unlogged result : option qname)
  | ItProj (q w : qname) (sync wasm errors : bool) (events : list (list op * flt)) (intents : list qname)
  | ItRole (q w : qname) (published : bool)
  | ItRate (q w : qname) (count : N) (period_s : Z) (scopes : list scope)
  | ItLimit (q w : qname) (ops : list op) (each : bool) (f : flt) (rt : qname)
  | ItOther (q : qname) (what : string).   (* observed only: something this model has no word for *)

Definition item_key (i : item) : qname :=
  match i with
  | ItWs q _ _ _ _ _ | ItStruct q _ _ _ _ _ _ _ | ItView q _ _ _ _ | ItFunc q _ _ _ _ _ _
  | ItProj q _ _ _ _ _ _ | ItRole q _ _ | ItRate q _ _ _ _ | ItLimit q _ _ _ _ _ | ItOther q _ => q
  end.

(* A mode fixes the four points where compilers of this family have differed:
   - are unnamed UNIQUE constraints numbered over the whole type (or per item list: finding F23),
   - does a nested table that INHERITS get the inherited members (or only its own: F24),
   - do view reference fields keep their targets (or lose them: F25),
   - is the ACL block of an inherited workspace applied again for every heir (finding F28),
   - is a name of package P matched only against statements of package P (or against anything of that
     name in the current workspace: finding F26),
   - is an INHERITS list resolved in the package that wrote it (or in the package of whoever walks the
     chain: finding F27),
   - do the reference fields of a workspace descriptor keep their targets (or lose them, unchecked: F29),
   - are the nested tables of an inherited item list named in the package that declared them (or in the
     heir's package, a phantom copy: F30),
   - is a workspace reached twice below one direct ancestor just an ancestor (or a "circular reference": F31),
   - may a GRANT name an inherited column (or only the table's own ones: F32),
   - does IWorkspace.Ancestors() enumerate the direct ancestors only, as pkg/appdef documents it (or all of
     them, the indirect ones passed off as direct: F33).  The workspace items of the model carry the SET of
     all ancestors (that is what scoping needs, and what the harness reports: the closure of Ancestors());
     whether Ancestors() itself is the list the INHERITS clause names is a separate observation.
   `Ideal` is the spec; `Go` is the compiler as it is: every flag is read off the source by
   translator/parts/c17.py (Gen/Params.v); `GoBefore` is the compiler before all the repairs (kept for
   the conditional refutations). *)
Record mode := Mode { m_uniq_per_type : bool; m_nested_inherit : bool; m_view_refs : bool; m_acl_repeat : bool;
                      m_res_pkg : bool; m_res_inh : bool; m_desc_refs : bool;
                      m_nested_pkg : bool; m_diamond : bool; m_grant_inh : bool; m_direct_anc : bool }.
Definition Ideal : mode := Mode true true true false true true true true true true true.
Definition Go : mode := Mode parser_uniques_numbered_per_type parser_nested_tables_inherit parser_view_refs_recorded
                             (negb parser_inherited_grants_once) parser_lookup_respects_package parser_inherits_in_own_package
                             parser_descriptor_refs_analysed
                             parser_inherited_nested_in_own_package parser_diamond_below_heir_accepted parser_grant_inherited_columns
                             parser_ancestors_direct.
Definition GoBefore : mode := Mode false false false true false false false false false false false.

Record pchecks := PChecks { ck_view_pk : bool; ck_grant_class : bool; ck_func_kinds : bool }.

(* ---- leaf translations (shared by the reference compiler and by the declarative spec) ---- *)

Definition dkind_of (d : dtype) : dkind :=
  match d with
  | DVarchar _ => Kstring | DBytes _ => Kbytes | DInt8 => Kint8 | DInt16 => Kint16 | DInt32 => Kint32
  | DInt64 | DTimestamp | DCurrency => Kint64 | DFloat32 => Kfloat32 | DFloat64 => Kfloat64
  | DBool => Kbool | DBlob => KRecordID | DQName => KQName
  end.
Definition maxlen_of (d : dtype) : option N := match d with DVarchar n | DBytes n => n | _ => None end.
Definition sysq (n : string) : qname := ("sys", n).

(* addDataTypeField: blob = reference to sys.BLOB; CHECK regexp only reaches varchar fields *)
Definition fd_of_field (f : field) : fdef :=
  match f_type f with
  | DBlob => FD (f_name f) KRecordID (f_notnull f) false (f_verif f) None None (Some [sysq "BLOB"])
  | DVarchar n => FD (f_name f) Kstring (f_notnull f) false (f_verif f) n (f_check f) None
  | d => FD (f_name f) (dkind_of d) (f_notnull f) false (f_verif f) (maxlen_of d) None None
  end.
Definition fd_ref (pn : ident) (n : ident) (refs : list qref) (nn : bool) : fdef :=
  FD n KRecordID nn false false None None (Some (map (resolve pn) refs)).
Definition fd_sysf (n : string) (k : dkind) (req : bool) : fdef := FD n k req true false None None None.

Definition sys_fields (k : tkind) : list fdef :=
  let q := fd_sysf "sys.QName" KQName true in
  let id := fd_sysf "sys.ID" KRecordID true in
  let par := fd_sysf "sys.ParentID" KRecordID true in
  let cont := fd_sysf "sys.Container" Kstring true in
  let act := fd_sysf "sys.IsActive" Kbool false in
  match k with
  | KCDoc | KWDoc => [q; id; act]
  | KODoc => [q; id]
  | KCRecord | KWRecord => [q; id; par; cont; act]
  | KORecord => [q; id; par; cont]
  | KObject => [q; fd_sysf "sys.Container" Kstring false]
  end.

Definition nested_kind (k : tkind) : tkind :=
  match k with KCDoc | KCRecord => KCRecord | KODoc | KORecord => KORecord | KWDoc | KWRecord => KWRecord | KObject => KObject end.

Inductive sysbase := BCDoc | BODoc | BWDoc | BCRecord | BORecord | BWRecord | BCSingleton | BWSingleton.
Definition sysbase_of (n : string) : option sysbase :=
  if n =? "CDoc" then Some BCDoc else if n =? "ODoc" then Some BODoc else if n =? "WDoc" then Some BWDoc
  else if n =? "CRecord" then Some BCRecord else if n =? "ORecord" then Some BORecord
  else if n =? "WRecord" then Some BWRecord else if n =? "CSingleton" then Some BCSingleton
  else if n =? "WSingleton" then Some BWSingleton else None.
Definition base_kind (b : sysbase) : tkind :=
  match b with
  | BCDoc | BCSingleton => KCDoc | BODoc => KODoc | BWDoc | BWSingleton => KWDoc
  | BCRecord => KCRecord | BORecord => KORecord | BWRecord => KWRecord
  end.
Definition base_single (b : sysbase) : bool := match b with BCSingleton | BWSingleton => true | _ => false end.

(* one declared item list, with the package whose names it was written in *)
Definition ilist := (ident * list titem)%type.

Definition fields_of (l : ilist) : list fdef :=
  flat_map (fun it => match it with
                      | TField f => [fd_of_field f]
                      | TRef n refs nn => [fd_ref (fst l) n refs nn]
                      | _ => []
                      end) (snd l).
Definition max_occurs : N := 100.   (* maxNestedTableContainerOccurrences *)
Definition conts_of (l : ilist) : list cdef :=
  flat_map (fun it => match it with TNested c t => [CD c (fst l, t_name t) 0 max_occurs] | _ => [] end) (snd l).

Definition two_digits (n : N) : string := if (n <? 10)%N then "0" ++ r_num n else r_num n.
(* addTableItems: unnamed UNIQUE constraints are numbered 01, 02, ... per item list *)
Fixpoint uniqs_from (cnt : N) (its : list titem) : list udef :=
  match its with
  | [] => []
  | TUnique None fs :: r => UD (two_digits (cnt + 1)) fs :: uniqs_from (cnt + 1) r
  | TUnique (Some n) fs :: r => UD n fs :: uniqs_from cnt r
  | _ :: r => uniqs_from cnt r
  end.
Definition uniqs_of (l : ilist) : list udef := uniqs_from 0 (snd l).
(* the spec numbers the unnamed constraints over the whole chain, so that inherited and own ones
   never clash (numbered per list, the second "01" made the builder panic: finding F23) *)
Definition count_unnamed (its : list titem) : N :=
  N.of_nat (List.length (filter (fun it => match it with TUnique None _ => true | _ => false end) its)).
Fixpoint uniqs_run (cnt : N) (ls : list ilist) : list udef :=
  match ls with
  | [] => []
  | l :: r => uniqs_from cnt (snd l) +++ uniqs_run (cnt + count_unnamed (snd l)) r
  end.
Definition uniqs_chain (m : mode) (ls : list ilist) : list udef :=
  if m_uniq_per_type m then uniqs_run 0 ls else flat_map uniqs_of ls.

(* the compiled structure of a table, given its kind and the item lists it is made of
   (ancestors first, own items last): system fields ++ inherited ++ declared *)
Definition struct_item (m : mode) (pn : ident) (wq : qname) (t : table) (k : tkind) (single : bool) (ls : list ilist) : item :=
  ItStruct (pn, t_name t) k wq (t_abstract t) single
           (sys_fields k +++ flat_map fields_of ls) (flat_map conts_of ls) (uniqs_chain m ls).

Definition desc_name (w : ws) : ident := w_name w ++ "Descriptor".
Definition fd_of_ditem (keep : bool) (pn : ident) (d : ditem) : fdef :=
  match d with
  | DField f => fd_of_field f
  | DRef n refs nn => fd_ref pn n (if keep then refs else []) nn
  end.
Definition desc_item (m : mode) (pn : ident) (w : ws) : item :=
  ItStruct (pn, desc_name w) KCDoc (pn, w_name w) false true
           (sys_fields KCDoc +++ map (fd_of_ditem (m_desc_refs m) pn) (match w_desc w with Some l => l | None => [] end)) [] [].

Definition type_item (pn : ident) (wq : qname) (n : ident) (ys : list yitem) : item :=
  ItStruct (pn, n) KObject wq false false
           (sys_fields KObject +++ flat_map (fun y => match y with YField f => [fd_of_field f] | _ => [] end) ys)
           (flat_map (fun y => match y with YCont c ty nn => [CD c (resolve pn ty) (if nn then 1 else 0) 1] | _ => [] end) ys)
           [].

Definition vitem_name (v : vitem) : ident := match v with VField n _ _ | VRef n _ _ => n end.
Definition find_vitem (v : view) (n : ident) : option vitem := find (fun i => vitem_name i =? n) (v_items v).
Definition mem_s (x : string) (l : list string) : bool := existsb (String.eqb x) l.
(* views(): partition key and clustering columns in PRIMARY KEY order, value = the rest in declaration order *)
(* `keep`: whether the targets of a reference field survive.  analyseViewRefFields checks them
   but did not record them, so every view reference field was built without targets
   (finding F25, repaired); the spec keeps them. *)
Definition vrefs (keep : bool) (pn : ident) (refs : list qref) : option (list qname) :=
  Some (if keep then map (resolve pn) refs else []).
Definition vfd_key (keep : bool) (pn : ident) (part : bool) (i : vitem) : fdef :=
  match i with
  | VField n ty _ => FD n (dkind_of ty) part false false (if part then None else maxlen_of ty) None None
  | VRef n refs _ => FD n KRecordID part false false None None (vrefs keep pn refs)
  end.
Definition vfd_val (keep : bool) (pn : ident) (i : vitem) : fdef :=
  match i with
  | VField n ty nn => FD n (dkind_of ty) nn false false (maxlen_of ty) None None
  | VRef n refs nn => FD n KRecordID nn false false None None (vrefs keep pn refs)
  end.
Definition opt_list {A} (o : option A) : list A := match o with Some x => [x] | None => [] end.
Definition view_item (keep : bool) (pn : ident) (wq : qname) (v : view) : item :=
  ItView (pn, v_name v) wq
         (flat_map (fun n => map (vfd_key keep pn true) (opt_list (find_vitem v n))) (v_pk v))
         (flat_map (fun n => map (vfd_key keep pn false) (opt_list (find_vitem v n))) (v_cc v))
         (fd_sysf "sys.QName" KQName true
          :: map (vfd_val keep pn) (filter (fun i => negb (mem_s (vitem_name i) (v_pk v)) && negb (mem_s (vitem_name i) (v_cc v))) (v_items v))).

Definition all_ops : list op := [OInsert; OUpdate; OActivate; ODeactivate; OSelect; OExecute; OExecParam; OInherits].
Definition op_eqb (a b : op) : bool :=
  match a, b with
  | OInsert, OInsert | OUpdate, OUpdate | OActivate, OActivate | ODeactivate, ODeactivate
  | OSelect, OSelect | OExecute, OExecute | OExecParam, OExecParam | OInherits, OInherits => true
  | _, _ => false
  end.
Definition mem_op (o : op) (l : list op) : bool := existsb (op_eqb o) l.
(* set.From(ops...).AsArray(): duplicates removed, enumeration order *)
Definition norm_ops (l : list op) : list op := filter (fun o => mem_op o l) all_ops.
Definition record_ops : list op := [OInsert; OUpdate; OActivate; ODeactivate; OSelect].

Definition fparam_q (pn : ident) (x : fparam) : option qname :=
  match x with PDef q => Some (resolve pn q) | PAny => Some (sysq "ANY") | _ => None end.
Definition func_item (pn : ident) (wq : qname) (f : func) : item :=
  ItFunc (pn, fn_name f) wq (fn_cmd f) (fn_wasm f) (fparam_q pn (fn_param f))
         (if fn_cmd f then fparam_q pn (fn_unlogged f) else None) (fparam_q pn (fn_result f)).

Definition trig_event (pn : ident) (t : trig) : list op * flt :=
  match t with
  | TrTab i u a d l => ((if i then [OInsert] else []) +++ (if u then [OUpdate] else [])
                        +++ (if a then [OActivate] else []) +++ (if d then [ODeactivate] else []), FQ (map (resolve pn) l))
  | TrExec l => ([OExecute], FQ (map (resolve pn) l))
  | TrExecParam l => ([OExecParam], FQ (map (resolve pn) l))
  end.
Definition proj_item (pn : ident) (wq : qname) (p : proj) : item :=
  ItProj (pn, pj_name p) wq (pj_sync p) (pj_wasm p) (pj_errors p) (map (trig_event pn) (pj_trigs p))
         (map (resolve pn) (pj_intents p)).

Definition unit_seconds (u : tunit) : Z :=
  match u with USecond => 1 | UMinute => 60 | UHour => 3600 | UDay => 86400 | UYear => 31536000 end%Z.
Definition rate_scopes (r : rate) : list scope :=
  match rt_oscope r, rt_sscope r with
  | Some false, None => [ScWorkspace] | Some false, Some true => [ScWorkspace; ScUser] | Some false, Some false => [ScWorkspace; ScIP]
  | _, None => [ScAppPartition] | _, Some true => [ScAppPartition; ScUser] | _, Some false => [ScAppPartition; ScIP]
  end.
Definition rate_amount (r : rate) : N := match rt_amount r with Some k => k | None => 1%N end.
Definition rate_item (pn : ident) (wq : qname) (r : rate) : item :=
  ItRate (pn, rt_name r) wq (rt_count r) (Z.of_N (rate_amount r) * unit_seconds (rt_unit r))%Z (rate_scopes r).

Definition fk_ops (k : fkind) : list op :=
  match k with FkRecords => record_ops | FkView => [OSelect] | _ => [OExecute] end.
Definition lfilter_kind (f : lfilter) : fkind := match f with LSingle k _ | LAll k | LEach k => k end.
Definition limit_item (pn : ident) (wq : qname) (l : limit) : item :=
  ItLimit (pn, lm_name l) wq
          (match lm_acts l with [] => fk_ops (lfilter_kind (lm_filter l)) | a => norm_ops a end)
          (match lm_filter l with LAll _ => false | _ => true end)
          (match lm_filter l with LSingle k q => FAnd k (resolve pn q) | LAll k | LEach k => FT k end)
          (resolve pn (lm_rate l)).

(* applyGrantOrRevokeRule: the rules one GRANT / REVOKE statement expands to.  A ... ON TABLE
   statement with an operation list yields one rule per distinct operation (Go map order; emitted
   here in enumeration order), the columns of a repeated operation are collected by `op_cols`. *)
(* analyseGrantOrRevoke: an operation named without columns means the whole table (no column list),
   whatever column lists the same statement gives for it before or after; otherwise the lists are
   concatenated.  Before d412e0d3e an operation named without columns only emptied the list collected so
   far (`UPDATE, UPDATE(a)` gave [a]); the translator tells which of the two the source does. *)
Definition op_cols_before (o : op) (acts : list (op * list string)) : list string :=
  fold_left (fun acc x => if op_eqb (fst x) o then match snd x with [] => [] | c => acc +++ c end else acc) acts [].
Definition op_cols (o : op) (acts : list (op * list string)) : list string :=
  if parser_grant_whole_table_wins
  then if existsb (fun x => op_eqb (fst x) o && match snd x with [] => true | _ => false end) acts
       then [] else flat_map (fun x => if op_eqb (fst x) o then snd x else []) acts
  else op_cols_before o acts.
Definition grant_all_ops : list op := [OInsert; OUpdate; OSelect].   (* norm of grantAllToTableOps *)
Definition grant_rules (pn : ident) (wq : qname) (g : grant) : list rule :=
  let mk ops f fields := Rule (negb (g_revoke g)) ops f fields (resolve pn (g_role g)) in
  match g_what g with
  | GRole r => [mk [OInherits] (FQ [resolve pn r]) []]
  | GExecCmd c => [mk [OExecute] (FQ [resolve pn c]) []]
  | GExecQuery q => [mk [OExecute] (FQ [resolve pn q]) []]
  | GSelectView v cols => [mk [OSelect] (FQ [resolve pn v]) cols]
  | GAllCommands => [mk [OExecute] (FWT wq FkCommand) []]
  | GAllQueries => [mk [OExecute] (FWT wq FkQuery) []]
  | GAllViews => [mk [OSelect] (FWT wq FkView) []]
  | GAllTables None => [mk grant_all_ops (FWT wq FkRecords) []]
  | GAllTables (Some acts) => [mk (norm_ops acts) (FWT wq FkRecords) []]
  | GTableAll t cols => [mk grant_all_ops (FQ [resolve pn t]) cols]
  | GTable t acts =>
    map (fun o => mk [o] (FQ [resolve pn t]) (op_cols o acts)) (norm_ops (map fst acts))
  end.
Definition ws_grants (revoke : bool) (w : ws) : list grant :=
  flat_map (fun i => match i with IGrant g => if Bool.eqb (g_revoke g) revoke then [g] else [] | _ => [] end) (w_items w).
(* handleWorkspace: all grants of the statement list, then all revokes *)
Definition acl_block (pn : ident) (w : ws) : list rule :=
  flat_map (grant_rules pn (pn, w_name w)) (ws_grants false w) +++ flat_map (grant_rules pn (pn, w_name w)) (ws_grants true w).

(* ------------------------------------------------------------------ lookups *)

Definition qname_eqb (a b : qname) : bool := (fst a =? fst b) && (snd a =? snd b).
Definition mem_q (x : qname) (l : list qname) : bool := existsb (qname_eqb x) l.

Section WithSchema.
Variable a : schema.

Definition find_pkg (n : ident) : option pkg := find (fun p => p_name p =? n) a.
Definition all_ws : list (pkg * ws) := flat_map (fun p => map (pair p) (p_wss p)) a.
Definition lookup_ws (q : qname) : option (pkg * ws) :=
  find (fun pw => qname_eqb (p_name (fst pw), w_name (snd pw)) q) all_ws.
Definition ws_roots (w : ws) : list table :=
  flat_map (fun i => match i with ITable t => [t] | _ => [] end) (w_items w).
Definition pkg_roots (p : pkg) : list table := flat_map ws_roots (p_wss p).
(* INHERITS of a table names a top-level table of the named package *)
Definition lookup_table (q : qname) : option table :=
  match find_pkg (fst q) with
  | Some p => find (fun t => t_name t =? snd q) (pkg_roots p)
  | None => None
  end.

(* fillTable / getTableInheritanceChain: the item lists a table is made of, ancestors first, and
   the system table the chain ends in *)
Fixpoint chain (fuel : nat) (pn : ident) (t : table) : option (sysbase * list ilist) :=
  match t_inh t with
  | None => None
  | Some q =>
    let r := resolve pn q in
    if fst r =? "sys" then
      match sysbase_of (snd r) with Some b => Some (b, [(pn, t_items t)]) | None => None end
    else
      match fuel with
      | O => None
      | S f =>
        match lookup_table r with
        | Some t' => match chain f (fst r) t' with
                     | Some (b, ls) => Some (b, ls +++ [(pn, t_items t)])
                     | None => None
                     end
        | None => None
        end
      end
  end.

Fixpoint nested_tables (t : table) : list table :=
  match t with
  | Table _ _ _ its =>
    (fix go (l : list titem) : list table :=
       match l with
       | [] => []
       | TNested _ t' :: r => t' :: nested_tables t' +++ go r
       | _ :: r => go r
       end) its
  end.

Definition n_tables : nat := List.length (flat_map (fun p => flat_map (fun t => t :: nested_tables t) (pkg_roots p)) a).
Definition fuel0 : nat := S n_tables.

(* analyzeWorkspace.checkChain: all ancestors of a workspace, parents before children, with
   repetitions when an ancestor is reachable twice *)
Fixpoint ws_anc (fuel : nat) (pn : ident) (inh : list qref) : option (list qname) :=
  match inh with
  | [] => Some []
  | _ =>
    match fuel with
    | O => None
    | S f =>
      fold_right (fun q acc =>
                    match acc, lookup_ws (resolve pn q) with
                    | Some l, Some (p', w') =>
                      match ws_anc f (p_name p') (w_inh w') with
                      | Some l' => Some (l' +++ resolve pn q :: l)
                      | None => None
                      end
                    | _, _ => None
                    end) (Some []) inh
    end
  end.
Definition fuelw : nat := S (List.length all_ws).
Definition anc_list (p : pkg) (w : ws) : list qname :=
  match ws_anc fuelw (p_name p) (w_inh w) with Some l => l | None => [] end.
Definition ws_ancestors (p : pkg) (w : ws) : list qname :=
  match w_inh w with [] => [sysq "Workspace"] | _ => anc_list p w end.

(* ------------------------------------------------------------------ the reference compiler *)

(* a nested table that INHERITS is made of the inherited item lists and its own (fillTable); before
   the repair of F24 addNestedTableToDef added only the own items *)
Definition nested_lists (m : mode) (pn : ident) (t : table) : list ilist :=
  match t_inh t with
  | Some _ =>
    if m_nested_inherit m
    then match chain fuel0 pn t with Some (_, ls) => ls | None => [(pn, t_items t)] end
    else [(pn, t_items t)]
  | None => [(pn, t_items t)]
  end.

Definition table_items (m : mode) (pn : ident) (wq : qname) (t : table) : list item :=
  match chain fuel0 pn t with
  | Some (b, ls) =>
    struct_item m pn wq t (base_kind b) (base_single b) ls
    :: map (fun t' => struct_item m pn wq t' (nested_kind (base_kind b)) false (nested_lists m pn t')) (nested_tables t)
  | None => []
  end.

Definition count_q (x : qname) (l : list qname) : nat := List.length (filter (qname_eqb x) l).
(* grantsAndRevokes re-applies the statements of every inherited workspace, with the inherited
   workspace's own builder, once per inheriting workspace *)
Definition acl_repeat (m : mode) (q : qname) : nat :=
  if m_acl_repeat m then S (count_q q (flat_map (fun pw => anc_list (fst pw) (snd pw)) all_ws)) else 1.
Fixpoint repeat_list {A} (l : list A) (n : nat) : list A := match n with O => [] | S k => l +++ repeat_list l k end.

Definition ws_item (m : mode) (p : pkg) (w : ws) : item :=
  let pn := p_name p in
  ItWs (pn, w_name w) (w_abstract w) (ws_ancestors p w)
       (if w_abstract w then None else Some (pn, desc_name w))
       (flat_map (fun i => match i with IUse n => [(pn, n)] | _ => [] end) (w_items w))
       (repeat_list (acl_block pn w) (acl_repeat m (pn, w_name w))).

Definition stmt_items (m : mode) (pn : ident) (wq : qname) (i : wsitem) : list item :=
  match i with
  | ITable t => table_items m pn wq t
  | IType n ys => [type_item pn wq n ys]
  | IView v => [view_item (m_view_refs m) pn wq v]
  | IProj p => [proj_item pn wq p]
  | IFunc f => [func_item pn wq f]
  | IRole n pub => [ItRole (pn, n) wq pub]
  | IRate r => [rate_item pn wq r]
  | ILimit l => [limit_item pn wq l]
  | IGrant _ | IUse _ => []
  end.

Definition ws_items (m : mode) (p : pkg) (w : ws) : list item :=
  ws_item m p w
  :: (if w_abstract w then [] else [desc_item m (p_name p) w])
  +++ flat_map (stmt_items m (p_name p) (p_name p, w_name w)) (w_items w).

Definition compile_items (m : mode) : list item := flat_map (fun pw => ws_items m (fst pw) (snd pw)) all_ws.

(* ------------------------------------------------------------------ well-formedness *)

Fixpoint nodup_b {A} (eqb : A -> A -> bool) (l : list A) : bool :=
  match l with [] => true | x :: r => negb (existsb (eqb x) r) && nodup_b eqb r end.

Definition vis_ws (p : pkg) (w : ws) : list (pkg * ws) :=
  (p, w) :: flat_map (fun q => opt_list (lookup_ws q)) (anc_list p w).

(* names of one statement class declared in a workspace *)
Definition sel := ws -> list ident.
Definition in_scope (p : pkg) (w : ws) (s : sel) (q : qname) : bool :=
  existsb (fun pw => (p_name (fst pw) =? fst q) && mem_s (snd q) (s (snd pw))) (vis_ws p w).

Definition all_tables_ws (w : ws) : list table := flat_map (fun t => t :: nested_tables t) (ws_roots w).
Definition s_tables : sel := fun w => map t_name (all_tables_ws w).
Definition s_concrete_tables : sel := fun w => map t_name (filter (fun t => negb (t_abstract t)) (all_tables_ws w)).
Definition s_abstract_roots : sel := fun w => map t_name (filter t_abstract (ws_roots w)).
Definition s_concrete_roots : sel := fun w => map t_name (filter (fun t => negb (t_abstract t)) (ws_roots w)).
Definition s_types : sel := fun w => flat_map (fun i => match i with IType n _ => [n] | _ => [] end) (w_items w).
Definition s_views : sel := fun w => flat_map (fun i => match i with IView v => [v_name v] | _ => [] end) (w_items w).
Definition s_projs : sel := fun w => flat_map (fun i => match i with IProj x => [pj_name x] | _ => [] end) (w_items w).
Definition s_cmds : sel := fun w => flat_map (fun i => match i with IFunc f => if fn_cmd f then [fn_name f] else [] | _ => [] end) (w_items w).
Definition s_queries : sel := fun w => flat_map (fun i => match i with IFunc f => if fn_cmd f then [] else [fn_name f] | _ => [] end) (w_items w).
Definition s_roles : sel := fun w => flat_map (fun i => match i with IRole n _ => [n] | _ => [] end) (w_items w).
Definition s_rates : sel := fun w => flat_map (fun i => match i with IRate r => [rt_name r] | _ => [] end) (w_items w).

(* kind of a table found by name (root: by its chain; nested: nested kind of its root) *)
Definition table_kinds_ws (pn : ident) (w : ws) : list (ident * tkind) :=
  flat_map (fun t => match chain fuel0 pn t with
                     | Some (b, _) => (t_name t, base_kind b) :: map (fun t' => (t_name t', nested_kind (base_kind b))) (nested_tables t)
                     | None => []
                     end) (ws_roots w).
Definition kind_in_scope (p : pkg) (w : ws) (q : qname) : option tkind :=
  match flat_map (fun pw => if p_name (fst pw) =? fst q
                            then flat_map (fun nk => if fst nk =? snd q then [snd nk] else []) (table_kinds_ws (p_name (fst pw)) (snd pw))
                            else []) (vis_ws p w) with
  | k :: _ => Some k
  | [] => None
  end.

Definition tkind_eqb (x y : tkind) : bool :=
  match x, y with
  | KCDoc, KCDoc | KODoc, KODoc | KWDoc, KWDoc | KCRecord, KCRecord | KORecord, KORecord | KWRecord, KWRecord | KObject, KObject => true
  | _, _ => false
  end.
Definition is_o (k : tkind) := match k with KODoc | KORecord => true | _ => false end.
Definition is_w (k : tkind) := match k with KWDoc | KWRecord => true | _ => false end.
Definition is_c (k : tkind) := match k with KCDoc | KCRecord => true | _ => false end.
(* analyseRefFields + canNotReferenceTo *)
Definition ref_allowed (from to : tkind) : bool :=
  if is_o from then true else if is_o to then false else if is_c from then negb (is_w to) else true.

Definition len_ok (d : dtype) : bool :=
  match d with DVarchar (Some n) | DBytes (Some n) => (1 <=? n)%N && (n <=? 65535)%N | _ => true end.
Definition field_ok (in_table : bool) (f : field) : bool :=
  len_ok (f_type f)
  && (match f_type f with DBlob => in_table | _ => true end)
  && (match f_check f, f_type f with Some _, DVarchar _ => true | Some _, _ => false | None, _ => true end).

Definition titem_names (its : list titem) : list ident :=
  flat_map (fun it => match it with TField f => [f_name f] | TRef n _ _ => [n] | TNested c _ => [c] | TUnique _ _ => [] end) its.

(* uniques of one item list: fields declared earlier in the same list, no field in two uniques *)
Fixpoint uniques_ok (seen : list ident) (used : list ident) (its : list titem) : bool :=
  match its with
  | [] => true
  | TField f :: r => uniques_ok (f_name f :: seen) used r
  | TRef n _ _ :: r => uniques_ok (n :: seen) used r
  | TUnique _ fs :: r =>
    negb (match fs with [] => true | _ => false end) && nodup_b String.eqb fs
    && forallb (fun x => mem_s x seen && negb (mem_s x used)) fs && uniques_ok seen (fs +++ used) r
  | _ :: r => uniques_ok seen used r
  end.
Definition cnames (its : list titem) : list ident :=
  flat_map (fun it => match it with TUnique (Some c) _ => [c] | _ => [] end) its.

Definition items_ok (p : pkg) (w : ws) (k : tkind) (its : list titem) : bool :=
  forallb (fun it =>
             match it with
             | TField f => field_ok true f
             | TRef _ refs _ =>
               forallb (fun r => let q := resolve (p_name p) r in
                                 in_scope p w s_concrete_tables q
                                 && match kind_in_scope p w q with Some k' => ref_allowed k k' | None => false end) refs
             | _ => true
             end) its
  && uniques_ok [] [] its && nodup_b String.eqb (cnames its).

Definition ilist_has_nested (l : ilist) : bool := existsb (fun it => match it with TNested _ _ => true | _ => false end) (snd l).

(* a root table: chain resolves through abstract tables visible from the workspace; inherited item
   lists of other packages hold no nested tables; member names distinct over the whole chain *)
Definition inh_ok (p : pkg) (w : ws) (t : table) : bool :=
  match t_inh t with
  | None => false
  | Some q => let r := resolve (p_name p) q in
              if fst r =? "sys" then match sysbase_of (snd r) with Some _ => true | None => false end
                 else in_scope p w s_abstract_roots r
  end.
Definition chain_lists_ok (pn : ident) (ls : list ilist) : bool :=
  nodup_b String.eqb (flat_map (fun l => titem_names (snd l)) ls)
  && true.
(* the shape finding F30 was about: an item list inherited from another package holds nested tables *)
Definition chain_lists_local (pn : ident) (ls : list ilist) : bool :=
  forallb (fun l => (fst l =? pn) || negb (ilist_has_nested l)) ls.

Definition nested_ok (p : pkg) (w : ws) (k : tkind) (t' : table) : bool :=
  negb (t_abstract t')
  && match t_inh t' with
     | None => true
     | Some _ => inh_ok p w t'
                 && match chain fuel0 (p_name p) t' with
                    | Some (b, ls) => tkind_eqb (base_kind b) (nested_kind k) && chain_lists_ok (p_name p) ls
                    | None => false
                    end
     end
  && items_ok p w (nested_kind k) (t_items t')
  && nodup_b String.eqb (titem_names (t_items t')).

Definition table_ok (p : pkg) (w : ws) (t : table) : bool :=
  inh_ok p w t
  && match chain fuel0 (p_name p) t with
     | Some (b, ls) =>
       chain_lists_ok (p_name p) ls
       && items_ok p w (base_kind b) (t_items t)
       && forallb (nested_ok p w (base_kind b)) (nested_tables t)
     | None => false
     end.

Definition yitems_ok (p : pkg) (w : ws) (ys : list yitem) : bool :=
  forallb (fun y => match y with YField f => field_ok false f | YCont _ ty _ => in_scope p w s_types (resolve (p_name p) ty) end) ys
  && nodup_b String.eqb (map (fun y => match y with YField f => f_name f | YCont n _ _ => n end) ys).

Definition is_varlen (i : vitem) : bool := match i with VField _ (DVarchar _ | DBytes _) _ => true | _ => false end.
Definition key_type_ok (i : vitem) : bool :=
  match i with VField _ (DFloat32 | DFloat64 | DBlob) _ => false | _ => true end.
Fixpoint all_but_last {A} (l : list A) : list A := match l with [] | [_] => [] | x :: r => x :: all_but_last r end.
Definition view_ok (p : pkg) (w : ws) (v : view) : bool :=
  let pn := p_name p in
  nodup_b String.eqb (map vitem_name (v_items v))
  && forallb (fun i => match i with
                       | VField _ ty _ => len_ok ty && negb (match ty with DBlob => true | _ => false end)
                       | VRef _ refs _ => forallb (fun r => in_scope p w s_concrete_tables (resolve pn r)) refs
                       end) (v_items v)
  && negb (match v_pk v with [] => true | _ => false end) && negb (match v_cc v with [] => true | _ => false end)
  && nodup_b String.eqb (v_pk v +++ v_cc v)
  && forallb (fun n => match find_vitem v n with Some i => negb (is_varlen i) && key_type_ok i | None => false end) (v_pk v)
  && forallb (fun n => match find_vitem v n with Some i => key_type_ok i | None => false end) (v_cc v)
  && forallb (fun n => match find_vitem v n with Some i => negb (is_varlen i) | None => false end) (all_but_last (v_cc v))
  && in_scope p w s_projs (resolve pn (v_of v))
  (* the projector named by AS RESULT OF declares the view among its intents *)
  && existsb (fun pw => existsb (fun i => match i with
                                          | IProj x => (pj_name x =? qr_name (v_of v))
                                                       && existsb (fun q => (qr_name q =? v_name v) && ((qr_pkg q =? "") || (qr_pkg q =? pn))) (pj_intents x)
                                          | _ => false end) (w_items (snd pw))) (vis_ws p w).

Definition odoc_in_scope (p : pkg) (w : ws) (q : qname) : bool :=
  match kind_in_scope p w q with Some KODoc => in_scope p w s_concrete_tables q | _ => false end.
Definition param_ok (p : pkg) (w : ws) (allow_table : bool) (x : fparam) : bool :=
  match x with
  | PDef q => in_scope p w s_types (resolve (p_name p) q) || (allow_table && odoc_in_scope p w (resolve (p_name p) q))
  | _ => true
  end.
Definition func_ok (p : pkg) (w : ws) (f : func) : bool :=
  param_ok p w (fn_cmd f) (fn_param f)
  && (fn_cmd f || negb (match fn_param f with PVoid => true | _ => false end))
  && (if fn_cmd f then param_ok p w true (fn_unlogged f) && negb (match fn_unlogged f with PVoid | PAny => true | _ => false end)
      else is_pnone (fn_unlogged f))
  && param_ok p w false (fn_result f)
  && (fn_cmd f || match fn_result f with PAny | PDef _ => true | _ => false end).

(* what the analyser checks itself: without `ck_func_kinds` any table in scope passes as a parameter of a
   command (builder.Build() refuses all but an ODoc: finding C16-F12) *)
Definition param_ok_p (ck : pchecks) (p : pkg) (w : ws) (allow_table : bool) (x : fparam) : bool :=
  match x with
  | PDef q => in_scope p w s_types (resolve (p_name p) q)
              || (allow_table && (if ck_func_kinds ck then odoc_in_scope p w (resolve (p_name p) q)
                                  else in_scope p w s_tables (resolve (p_name p) q)))
  | _ => true
  end.
Definition func_ok_p (ck : pchecks) (p : pkg) (w : ws) (f : func) : bool :=
  param_ok_p ck p w (fn_cmd f) (fn_param f)
  && (fn_cmd f || negb (match fn_param f with PVoid => true | _ => false end))
  && (if fn_cmd f then param_ok_p ck p w true (fn_unlogged f) && negb (match fn_unlogged f with PVoid | PAny => true | _ => false end)
      else is_pnone (fn_unlogged f))
  && param_ok p w false (fn_result f)
  && (fn_cmd f || match fn_result f with PAny | PDef _ => true | _ => false end).

Definition trig_ok (p : pkg) (w : ws) (t : trig) : bool :=
  let pn := p_name p in
  match t with
  | TrTab i u a d l =>
    (i || u || a || d) && negb (match l with [] => true | _ => false end)
    (* analyzeProjector recomputes the kind from the INHERITS chain: top-level tables only *)
    && forallb (fun r => in_scope p w s_concrete_roots (resolve pn r)
                         && match kind_in_scope p w (resolve pn r) with
                            | Some k => negb (is_o k) || negb (u || a || d)
                            | None => false end) l
  | TrExec l => negb (match l with [] => true | _ => false end) && forallb (fun r => in_scope p w s_cmds (resolve pn r)) l
  | TrExecParam l => negb (match l with [] => true | _ => false end)
                     && forallb (fun r => in_scope p w s_types (resolve pn r) || odoc_in_scope p w (resolve pn r)) l
  end.
Definition proj_ok (p : pkg) (w : ws) (x : proj) : bool :=
  negb (match pj_trigs x with [] => true | _ => false end) && forallb (trig_ok p w) (pj_trigs x)
  && forallb (fun q => in_scope p w s_views (resolve (p_name p) q)) (pj_intents x).

Definition rate_ok (r : rate) : bool :=
  (1 <=? rt_count r)%N && (rt_count r <? 4294967296)%N && (1 <=? rate_amount r)%N && (rate_amount r <=? 100)%N.
Definition sel_of_fk (k : fkind) : sel :=
  match k with FkRecords => s_concrete_tables | FkCommand => s_cmds | FkQuery => s_queries | FkView => s_views end.
Definition local_nonempty (s : sel) (w : ws) : bool := negb (match s w with [] => true | _ => false end).
Definition limit_ok (p : pkg) (w : ws) (l : limit) : bool :=
  in_scope p w s_rates (resolve (p_name p) (lm_rate l))
  && forallb (fun o => mem_op o (fk_ops (lfilter_kind (lm_filter l)))) (lm_acts l)
  && match lm_filter l with
     | LSingle k q => in_scope p w (sel_of_fk k) (resolve (p_name p) q)
     | LAll FkView | LEach FkView => existsb (fun pw => local_nonempty s_views (snd pw)) (vis_ws p w)
     | _ => true
     end.

(* own fields of a table / a view that a GRANT may name *)
Definition table_cols (p : pkg) (w : ws) (q : qname) : list ident :=
  flat_map (fun pw => if p_name (fst pw) =? fst q
                      then flat_map (fun t => if t_name t =? snd q
                                              then flat_map (fun it => match it with TField f => [f_name f] | TRef n _ _ => [n] | _ => [] end) (t_items t)
                                              else []) (all_tables_ws (snd pw))
                      else []) (vis_ws p w).
(* the same with the fields the table inherits *)
Definition table_cols_all (p : pkg) (w : ws) (q : qname) : list ident :=
  flat_map (fun pw => if p_name (fst pw) =? fst q
                      then flat_map (fun t => if t_name t =? snd q
                                              then match t_inh t, chain fuel0 (p_name (fst pw)) t with
                                                   | Some _, Some (_, ls) =>
                                                     flat_map (fun l => flat_map (fun it => match it with TField f => [f_name f] | TRef n _ _ => [n] | _ => [] end) (snd l)) ls
                                                   | _, _ => flat_map (fun it => match it with TField f => [f_name f] | TRef n _ _ => [n] | _ => [] end) (t_items t)
                                                   end
                                              else []) (all_tables_ws (snd pw))
                      else []) (vis_ws p w).
Definition view_cols (p : pkg) (w : ws) (q : qname) : list ident :=
  flat_map (fun pw => if p_name (fst pw) =? fst q
                      then flat_map (fun i => match i with IView v => if v_name v =? snd q then map vitem_name (v_items v) else [] | _ => [] end) (w_items (snd pw))
                      else []) (vis_ws p w).
Definition sys_cols : list string := ["sys.ID"; "sys.QName"].
Definition grant_ok (p : pkg) (w : ws) (g : grant) : bool :=
  let pn := p_name p in
  in_scope p w s_roles (resolve pn (g_role g))
  && match g_what g with
     | GRole r => in_scope p w s_roles (resolve pn r) && negb (g_revoke g)
     | GExecCmd c => in_scope p w s_cmds (resolve pn c)
     | GExecQuery q => in_scope p w s_queries (resolve pn q)
     | GSelectView v cols => in_scope p w s_views (resolve pn v) && forallb (fun c => mem_s c (view_cols p w (resolve pn v))) cols
     | GAllCommands => local_nonempty s_cmds w
     | GAllQueries => local_nonempty s_queries w
     | GAllViews => local_nonempty s_views w
     | GAllTables None => negb (w_abstract w) || local_nonempty s_tables w
     | GAllTables (Some acts) => (negb (w_abstract w) || local_nonempty s_tables w)
                                 && negb (match acts with [] => true | _ => false end) && forallb (fun o => mem_op o record_ops) acts
     | GTableAll t cols => in_scope p w s_tables (resolve pn t) && forallb (fun c => mem_s c (table_cols_all p w (resolve pn t))) cols
     | GTable t acts =>
       in_scope p w s_tables (resolve pn t) && negb (match acts with [] => true | _ => false end)
       && forallb (fun x => mem_op (fst x) record_ops
                            && forallb (fun c => mem_s c (table_cols_all p w (resolve pn t)) || mem_s c sys_cols) (snd x)) acts
     end.

Fixpoint grants_before_revokes (seen_revoke : bool) (l : list wsitem) : bool :=
  match l with
  | [] => true
  | IGrant g :: r => if g_revoke g then grants_before_revokes true r else negb seen_revoke && grants_before_revokes seen_revoke r
  | _ :: r => grants_before_revokes seen_revoke r
  end.

Definition stmt_ok (p : pkg) (w : ws) (i : wsitem) : bool :=
  match i with
  | ITable t => table_ok p w t
  | IType _ ys => yitems_ok p w ys
  | IView v => view_ok p w v
  | IProj x => proj_ok p w x
  | IFunc f => func_ok p w f
  | IRole _ _ => true
  | IRate r => rate_ok r
  | ILimit l => limit_ok p w l
  | IGrant g => grant_ok p w g
  | IUse n => match lookup_ws (p_name p, n) with Some (_, w') => negb (w_abstract w') | None => false end
  end.

(* a descriptor is a CDoc: plain fields as in a table, reference targets concrete tables in scope that a
   CDoc may refer to *)
Definition ditem_ok (p : pkg) (w : ws) (d : ditem) : bool :=
  match d with
  | DField f => field_ok true f
  | DRef _ refs _ => forallb (fun r => let q := resolve (p_name p) r in
                                       in_scope p w s_concrete_tables q
                                       && match kind_in_scope p w q with Some k' => ref_allowed KCDoc k' | None => false end) refs
  end.

Fixpoint pkgs_after (l : schema) (n : ident) : list ident :=
  match l with [] => [] | p :: r => if p_name p =? n then map p_name r else pkgs_after r n end.

Definition ws_ok (p : pkg) (w : ws) : bool :=
  (* INHERITS: abstract workspaces of this or a later (imported) package, acyclic *)
  match ws_anc fuelw (p_name p) (w_inh w) with Some _ => true | None => false end
  && forallb (fun q => let r := resolve (p_name p) q in (fst r =? p_name p) || mem_s (fst r) (pkgs_after a (p_name p))) (w_inh w)
  && forallb (fun q => match lookup_ws (resolve (p_name p) q) with Some (_, w') => w_abstract w' | None => false end) (w_inh w)
  && (negb (w_abstract w) || match w_desc w with None => true | Some _ => false end)
  && match w_desc w with Some fs => forallb (ditem_ok p w) fs && nodup_b String.eqb (map d_name fs) | None => true end
  && grants_before_revokes false (w_items w)
  && forallb (stmt_ok p w) (w_items w).

(* the unique constraints a table ends up with have distinct names over the inheritance chain; the
   builder panics otherwise (numbered per item list, two unnamed ones clashed: finding F23) *)
Definition uniq_names_ok (i : item) : bool :=
  match i with ItStruct _ _ _ _ _ _ _ us => nodup_b String.eqb (map ud_name us) | _ => true end.
Definition no_unique_collision (m : mode) : bool := forallb uniq_names_ok (compile_items m).

(* the language's rules, as far as this AST reaches: what the property calls a well-formed schema *)
Definition wf : bool :=
  negb (match a with [] => true | _ => false end)
  && nodup_b String.eqb (map p_name a) && negb (mem_s "sys" (map p_name a))
  && nodup_b qname_eqb (map item_key (compile_items Ideal))
  && no_unique_collision Ideal
  && forallb (fun pw => ws_ok (fst pw) (snd pw)) all_ws.

(* ---- the same rules with two of them optional: what the analyser checks itself.  A view needs a
   partition key and `... ON ALL <class>` needs something of the class in the workspace, but only
   builder.Build() says so (findings C16-F6, C16-F7); `ck` says which of the two the analyser checks ---- *)
Definition view_ok_p (ck : pchecks) (p : pkg) (w : ws) (v : view) : bool :=
  let pn := p_name p in
  nodup_b String.eqb (map vitem_name (v_items v))
  && forallb (fun i => match i with
                       | VField _ ty _ => len_ok ty && negb (match ty with DBlob => true | _ => false end)
                       | VRef _ refs _ => forallb (fun r => in_scope p w s_concrete_tables (resolve pn r)) refs
                       end) (v_items v)
  && (negb (ck_view_pk ck) || negb (match v_pk v with [] => true | _ => false end)) && negb (match v_cc v with [] => true | _ => false end)
  && nodup_b String.eqb (v_pk v +++ v_cc v)
  && forallb (fun n => match find_vitem v n with Some i => negb (is_varlen i) && key_type_ok i | None => false end) (v_pk v)
  && forallb (fun n => match find_vitem v n with Some i => key_type_ok i | None => false end) (v_cc v)
  && forallb (fun n => match find_vitem v n with Some i => negb (is_varlen i) | None => false end) (all_but_last (v_cc v))
  && in_scope p w s_projs (resolve pn (v_of v))
  (* the projector named by AS RESULT OF declares the view among its intents *)
  && existsb (fun pw => existsb (fun i => match i with
                                          | IProj x => (pj_name x =? qr_name (v_of v))
                                                       && existsb (fun q => (qr_name q =? v_name v) && ((qr_pkg q =? "") || (qr_pkg q =? pn))) (pj_intents x)
                                          | _ => false end) (w_items (snd pw))) (vis_ws p w).


Definition grant_ok_p (ck : pchecks) (p : pkg) (w : ws) (g : grant) : bool :=
  let pn := p_name p in
  in_scope p w s_roles (resolve pn (g_role g))
  && match g_what g with
     | GRole r => in_scope p w s_roles (resolve pn r) && negb (g_revoke g)
     | GExecCmd c => in_scope p w s_cmds (resolve pn c)
     | GExecQuery q => in_scope p w s_queries (resolve pn q)
     | GSelectView v cols => in_scope p w s_views (resolve pn v) && forallb (fun c => mem_s c (view_cols p w (resolve pn v))) cols
     | GAllCommands => negb (ck_grant_class ck) || local_nonempty s_cmds w
     | GAllQueries => negb (ck_grant_class ck) || local_nonempty s_queries w
     | GAllViews => negb (ck_grant_class ck) || local_nonempty s_views w
     | GAllTables None => negb (ck_grant_class ck) || negb (w_abstract w) || local_nonempty s_tables w
     | GAllTables (Some acts) => (negb (ck_grant_class ck) || negb (w_abstract w) || local_nonempty s_tables w)
                                 && negb (match acts with [] => true | _ => false end) && forallb (fun o => mem_op o record_ops) acts
     | GTableAll t cols => in_scope p w s_tables (resolve pn t) && forallb (fun c => mem_s c (table_cols_all p w (resolve pn t))) cols
     | GTable t acts =>
       in_scope p w s_tables (resolve pn t) && negb (match acts with [] => true | _ => false end)
       && forallb (fun x => mem_op (fst x) record_ops
                            && forallb (fun c => mem_s c (table_cols_all p w (resolve pn t)) || mem_s c sys_cols) (snd x)) acts
     end.


Definition stmt_ok_p (ck : pchecks) (p : pkg) (w : ws) (i : wsitem) : bool :=
  match i with
  | ITable t => table_ok p w t
  | IType _ ys => yitems_ok p w ys
  | IView v => view_ok_p ck p w v
  | IProj x => proj_ok p w x
  | IFunc f => func_ok_p ck p w f
  | IRole _ _ => true
  | IRate r => rate_ok r
  | ILimit l => limit_ok p w l
  | IGrant g => grant_ok_p ck p w g
  | IUse n => match lookup_ws (p_name p, n) with Some (_, w') => negb (w_abstract w') | None => false end
  end.


Definition ws_ok_p (ck : pchecks) (p : pkg) (w : ws) : bool :=
  (* INHERITS: abstract workspaces of this or a later (imported) package, acyclic *)
  match ws_anc fuelw (p_name p) (w_inh w) with Some _ => true | None => false end
  && forallb (fun q => let r := resolve (p_name p) q in (fst r =? p_name p) || mem_s (fst r) (pkgs_after a (p_name p))) (w_inh w)
  && forallb (fun q => match lookup_ws (resolve (p_name p) q) with Some (_, w') => w_abstract w' | None => false end) (w_inh w)
  && (negb (w_abstract w) || match w_desc w with None => true | Some _ => false end)
  && match w_desc w with Some fs => forallb (ditem_ok p w) fs && nodup_b String.eqb (map d_name fs) | None => true end
  && grants_before_revokes false (w_items w)
  && forallb (stmt_ok_p ck p w) (w_items w).


Definition wf_p (ck : pchecks) : bool :=
  negb (match a with [] => true | _ => false end)
  && nodup_b String.eqb (map p_name a) && negb (mem_s "sys" (map p_name a))
  && nodup_b qname_eqb (map item_key (compile_items Ideal))
  && no_unique_collision Ideal
  && forallb (fun pw => ws_ok_p ck (fst pw) (snd pw)) all_ws.


(* nested tables that inherit a user table (the shape finding F24 was about) *)
Definition no_nested_user_inherit : bool :=
  forallb (fun pw => forallb (fun t => forallb (fun t' => match t_inh t' with
                                                          | Some q => fst (resolve (p_name (fst pw)) q) =? "sys"
                                                          | None => true end) (nested_tables t))
                             (ws_roots (snd pw))) all_ws.

(* view reference fields with targets (the shape finding F25 was about) *)
Definition no_view_ref_targets : bool :=
  forallb (fun pw => forallb (fun i => match i with
                                       | IView v => forallb (fun x => match x with VRef _ (_ :: _) _ => false | _ => true end) (v_items v)
                                       | _ => true end) (w_items (snd pw))) all_ws.

(* Two shapes on which a compiler that resolves names the old way goes wrong (it refuses the schema or
   compiles something else), findings F26 and F27:
   - an entity name used in two packages: a qualified name `p.X` was looked up in the statements of the
     current workspace first and matched an `X` of any package;
   - an INHERITS without package: the INHERITS lists of workspaces and tables were re-resolved in the
     package of whoever walks the chain (heirs, projectors), where an unqualified name means something else *)
Definition names_distinct : bool := nodup_b String.eqb (map (fun i => snd (item_key i)) (compile_items Ideal)).
Definition inh_qualified (t : table) : bool := match t_inh t with Some q => negb (qr_pkg q =? "") | None => true end.
Definition inherits_qualified : bool :=
  forallb (fun pw => forallb (fun q => negb (qr_pkg q =? "")) (w_inh (snd pw))
                     && forallb inh_qualified (all_tables_ws (snd pw))) all_ws.
(* three more shapes of the same kind, findings F30, F31, F32: a well-formed schema on which the compiler
   added a phantom nested table / refused a diamond of workspaces below an heir / refused a GRANT on an
   inherited column *)
Definition no_foreign_nested : bool :=
  forallb (fun pw => forallb (fun t => match t_inh t, chain fuel0 (p_name (fst pw)) t with
                                       | Some _, Some (_, ls) => chain_lists_local (p_name (fst pw)) ls
                                       | _, _ => true end) (all_tables_ws (snd pw))) all_ws.
Definition no_diamond_below : bool :=
  forallb (fun pw => forallb (fun q => match ws_anc fuelw (p_name (fst pw)) [q] with
                       | Some l => nodup_b qname_eqb (filter (fun x => match lookup_ws x with
                                                                       | Some (_, w') => negb (match w_inh w' with [] => true | _ => false end)
                                                                       | None => false end) l)
                       | None => true
                       end) (w_inh (snd pw))) all_ws.
Definition grant_cols_own : bool :=
  forallb (fun pw => let p := fst pw in let w := snd pw in let pn := p_name p in
     forallb (fun i => match i with
                       | IGrant g => match g_what g with
                                     | GTableAll t cols => forallb (fun c => mem_s c (table_cols p w (resolve pn t))) cols
                                     | GTable t acts => forallb (fun x => forallb (fun c => mem_s c (table_cols p w (resolve pn t)) || mem_s c sys_cols) (snd x)) acts
                                     | _ => true end
                       | _ => true end) (w_items w)) all_ws.
Definition resolves_like_spec (m : mode) : bool :=
  (m_res_pkg m || names_distinct) && (m_res_inh m || inherits_qualified)
  && (m_nested_pkg m || no_foreign_nested) && (m_diamond m || no_diamond_below) && (m_grant_inh m || grant_cols_own).

(* no workspace that is inherited holds grants or revokes (the shape finding F28 was about) *)
Definition no_inherited_acl : bool :=
  forallb (fun pw => match acl_block (p_name (fst pw)) (snd pw) with
                     | [] => true
                     | _ => Nat.eqb (count_q (p_name (fst pw), w_name (snd pw)) (flat_map (fun pw' => anc_list (fst pw') (snd pw')) all_ws)) 0
                     end) all_ws.

(* descriptor reference fields with targets (the shape finding F29 was about) *)
Definition no_desc_ref_targets : bool :=
  forallb (fun pw => match w_desc (snd pw) with
                     | Some fs => forallb (fun d => match d with DRef _ (_ :: _) _ => false | _ => true end) fs
                     | None => true end) all_ws.

(* no workspace inherits a workspace that itself inherits: all ancestors are direct ones (the shape finding
   F33 was about) *)
Definition no_indirect_anc : bool :=
  forallb (fun pw => forallb (fun q => match lookup_ws (resolve (p_name (fst pw)) q) with
                                       | Some (_, w') => match w_inh w' with [] => true | _ => false end
                                       | None => true end) (w_inh (snd pw))) all_ws.
(* what a compiler of mode m shows for "Ancestors() = the workspaces INHERITS names" *)
Definition direct_anc_shown (m : mode) : bool := m_direct_anc m || no_indirect_anc.

(* a compiler of mode m accepts the well-formed schemas on which its builder does not panic; what a
   compiler with the old name resolution does on the two shapes above is not modelled (None here, and
   `agrees` abstains there: `go_abstains`) *)
Definition accepts (m : mode) : bool := wf && no_unique_collision m && resolves_like_spec m.
(* a compiler that skips the descriptor's reference fields accepts any target, declared or not: what it
   does with a schema that is not well-formed and has such targets is not modelled either (on a
   well-formed one the Go model reproduces it exactly: the fields are there, the targets are not) *)
Definition go_abstains : bool :=
  (wf && negb (resolves_like_spec Go)) || (negb (m_desc_refs Go) && negb no_desc_ref_targets && negb wf).
Definition compile (m : mode) : option (list item) :=
  if accepts m then Some (compile_items m) else None.

(* ------------------------------------------------------------------ the declarative spec *)

Definition In_ws (p : pkg) (w : ws) : Prop := In p a /\ In w (p_wss p).

Inductive Nested : table -> table -> Prop :=
  | N_direct t c t' : In (TNested c t') (t_items t) -> Nested t t'
  | N_deep t c t1 t' : In (TNested c t1) (t_items t) -> Nested t1 t' -> Nested t t'.

(* "t, written in package pn, is made of the item lists ls and ends in system table b" *)
Inductive Chain : ident -> table -> sysbase -> list ilist -> Prop :=
  | Ch_sys pn t q b :
      t_inh t = Some q -> fst (resolve pn q) = "sys" -> sysbase_of (snd (resolve pn q)) = Some b ->
      Chain pn t b [(pn, t_items t)]
  | Ch_user pn t q t' b ls :
      t_inh t = Some q -> fst (resolve pn q) <> "sys" -> lookup_table (resolve pn q) = Some t' ->
      Chain (fst (resolve pn q)) t' b ls ->
      Chain pn t b (ls +++ [(pn, t_items t)]).

(* the members of a nested table: its own items, after the inherited ones if it INHERITS *)
Inductive NestedLists (pn : ident) (t : table) : list ilist -> Prop :=
  | NL_plain : t_inh t = None -> NestedLists pn t [(pn, t_items t)]
  | NL_inh b ls : Chain pn t b ls -> NestedLists pn t ls.

(* "x is an ancestor of a workspace that INHERITS inh (written in package pn)" *)
Inductive Anc : ident -> list qref -> qname -> Prop :=
  | Anc_direct pn inh q : In q inh -> Anc pn inh (resolve pn q)
  | Anc_trans pn inh q p' w' x :
      In q inh -> lookup_ws (resolve pn q) = Some (p', w') -> Anc (p_name p') (w_inh w') x -> Anc pn inh x.
Definition AncSpec (p : pkg) (w : ws) (x : qname) : Prop :=
  match w_inh w with [] => x = sysq "Workspace" | inh => Anc (p_name p) inh x end.

Inductive Declares : item -> Prop :=
  | D_ws p w anc :
      In_ws p w -> (forall x, In x anc <-> AncSpec p w x) ->
      Declares (ItWs (p_name p, w_name w) (w_abstract w) anc
                     (if w_abstract w then None else Some (p_name p, desc_name w))
                     (flat_map (fun i => match i with IUse n => [(p_name p, n)] | _ => [] end) (w_items w))
                     (acl_block (p_name p) w))
  | D_desc p w : In_ws p w -> w_abstract w = false -> Declares (desc_item Ideal (p_name p) w)
  | D_table p w t b ls :
      In_ws p w -> In (ITable t) (w_items w) -> Chain (p_name p) t b ls ->
      Declares (struct_item Ideal (p_name p) (p_name p, w_name w) t (base_kind b) (base_single b) ls)
  | D_nested p w t b ls t' ls' :
      In_ws p w -> In (ITable t) (w_items w) -> Chain (p_name p) t b ls -> Nested t t' ->
      NestedLists (p_name p) t' ls' ->
      Declares (struct_item Ideal (p_name p) (p_name p, w_name w) t' (nested_kind (base_kind b)) false ls')
  | D_type p w n ys : In_ws p w -> In (IType n ys) (w_items w) -> Declares (type_item (p_name p) (p_name p, w_name w) n ys)
  | D_view p w v : In_ws p w -> In (IView v) (w_items w) -> Declares (view_item true (p_name p) (p_name p, w_name w) v)
  | D_proj p w x : In_ws p w -> In (IProj x) (w_items w) -> Declares (proj_item (p_name p) (p_name p, w_name w) x)
  | D_func p w f : In_ws p w -> In (IFunc f) (w_items w) -> Declares (func_item (p_name p) (p_name p, w_name w) f)
  | D_role p w n pub : In_ws p w -> In (IRole n pub) (w_items w) -> Declares (ItRole (p_name p, n) (p_name p, w_name w) pub)
  | D_rate p w r : In_ws p w -> In (IRate r) (w_items w) -> Declares (rate_item (p_name p) (p_name p, w_name w) r)
  | D_limit p w l : In_ws p w -> In (ILimit l) (w_items w) -> Declares (limit_item (p_name p) (p_name p, w_name w) l).

End WithSchema.

(* items equal up to the order / repetition of set-valued attributes (workspace ancestors) *)
Definition same_set (l1 l2 : list qname) : Prop := forall x, In x l1 <-> In x l2.
Definition item_equiv (i j : item) : Prop :=
  match i, j with
  | ItWs q ab anc d u acl, ItWs q' ab' anc' d' u' acl' => q = q' /\ ab = ab' /\ same_set anc anc' /\ d = d' /\ u = u' /\ acl = acl'
  | _, _ => i = j
  end.

(* ------------------------------------------------------------------ comparing dumps *)

Definition bool_eqb := Bool.eqb.
Definition opt_eqb {A} (e : A -> A -> bool) (x y : option A) : bool := option_eqb e x y.
Definition set_eqb {A} (e : A -> A -> bool) (l1 l2 : list A) : bool :=
  forallb (fun x => existsb (e x) l2) l1 && forallb (fun x => existsb (e x) l1) l2.
Definition dkind_eqb (x y : dkind) : bool :=
  match x, y with
  | Kint8, Kint8 | Kint16, Kint16 | Kint32, Kint32 | Kint64, Kint64 | Kfloat32, Kfloat32 | Kfloat64, Kfloat64
  | Kbytes, Kbytes | Kstring, Kstring | KQName, KQName | Kbool, Kbool | KRecordID, KRecordID => true
  | _, _ => false
  end.
Definition fkind_eqb (x y : fkind) : bool :=
  match x, y with FkRecords, FkRecords | FkCommand, FkCommand | FkQuery, FkQuery | FkView, FkView => true | _, _ => false end.
Definition scope_eqb (x y : scope) : bool :=
  match x, y with ScAppPartition, ScAppPartition | ScWorkspace, ScWorkspace | ScUser, ScUser | ScIP, ScIP => true | _, _ => false end.
Definition fdef_eqb (x y : fdef) : bool :=
  (fd_name x =? fd_name y) && dkind_eqb (fd_kind x) (fd_kind y) && bool_eqb (fd_req x) (fd_req y)
  && bool_eqb (fd_sys x) (fd_sys y) && bool_eqb (fd_ver x) (fd_ver y) && opt_eqb N.eqb (fd_max x) (fd_max y)
  && opt_eqb String.eqb (fd_pat x) (fd_pat y)
  (* the targets of a reference field are a set (the builder sorts and deduplicates them) *)
  && opt_eqb (set_eqb qname_eqb) (fd_refs x) (fd_refs y).
Definition cdef_eqb (x y : cdef) : bool :=
  (cd_name x =? cd_name y) && qname_eqb (cd_type x) (cd_type y) && N.eqb (cd_min x) (cd_min y) && N.eqb (cd_max x) (cd_max y).
(* unique fields are a set (the builder sorts them) *)
Definition udef_eqb (x y : udef) : bool := (ud_name x =? ud_name y) && set_eqb String.eqb (ud_fields x) (ud_fields y).
(* the qnames of a QNames filter are a set (the builder sorts and deduplicates them) *)
Definition flt_eqb (x y : flt) : bool :=
  match x, y with
  | FQ l, FQ l' => set_eqb qname_eqb l l'
  | FT k, FT k' => fkind_eqb k k'
  | FWT w k, FWT w' k' => qname_eqb w w' && fkind_eqb k k'
  | FAnd k q, FAnd k' q' => fkind_eqb k k' && qname_eqb q q'
  | FOther s, FOther s' => s =? s'
  | _, _ => false
  end.

(* an ACL is compared operation by operation: the rules that mention an operation, in order.  Rules
   about different operations never interact, and the rules one `... ON TABLE` statement expands
   to are appended by the Go code in map order. *)
Definition rule_proj (o : op) (l : list rule) : list rule := filter (fun r => mem_op o (r_ops r)) l.
Definition rule_eqb1 (x y : rule) : bool :=
  bool_eqb (r_allow x) (r_allow y) && flt_eqb (r_flt x) (r_flt y) && list_eqb String.eqb (r_fields x) (r_fields y)
  && qname_eqb (r_role x) (r_role y).
Definition ops_valid (l : list rule) : bool := forallb (fun r => list_eqb op_eqb (r_ops r) (norm_ops (r_ops r))) l.
Definition acl_eqb (l1 l2 : list rule) : bool :=
  ops_valid l1 && ops_valid l2 && forallb (fun o => list_eqb rule_eqb1 (rule_proj o l1) (rule_proj o l2)) all_ops.
(* observed ACL = the declared block repeated k >= 1 times (k = 1 when nothing inherits the workspace) *)
Definition acl_power (ideal obs : list rule) : bool :=
  existsb (fun k => acl_eqb (repeat_list ideal k) obs) (seq 1 (S (List.length obs))).

Definition event_eqb (x y : list op * flt) : bool := list_eqb op_eqb (fst x) (fst y) && flt_eqb (snd x) (snd y).

(* `aclc` compares the ACL of the expected (first) and observed (second) workspace item *)
Definition item_sim (aclc : list rule -> list rule -> bool) (x y : item) : bool :=
  match x, y with
  | ItWs q ab anc d u acl, ItWs q' ab' anc' d' u' acl' =>
    qname_eqb q q' && bool_eqb ab ab' && set_eqb qname_eqb anc anc' && opt_eqb qname_eqb d d'
    && set_eqb qname_eqb u u' && aclc acl acl'
  | ItStruct q k w ab sg fs cs us, ItStruct q' k' w' ab' sg' fs' cs' us' =>
    qname_eqb q q' && tkind_eqb k k' && qname_eqb w w' && bool_eqb ab ab' && bool_eqb sg sg'
    && list_eqb fdef_eqb fs fs' && list_eqb cdef_eqb cs cs' && set_eqb udef_eqb us us' && N.eqb (N.of_nat (List.length us)) (N.of_nat (List.length us'))
  | ItView q w pk cc val, ItView q' w' pk' cc' val' =>
    qname_eqb q q' && qname_eqb w w' && list_eqb fdef_eqb pk pk' && list_eqb fdef_eqb cc cc' && list_eqb fdef_eqb val val'
  | ItFunc q w c wa pa un re, ItFunc q' w' c' wa' pa' un' re' =>
    qname_eqb q q' && qname_eqb w w' && bool_eqb c c' && bool_eqb wa wa' && opt_eqb qname_eqb pa pa'
    && opt_eqb qname_eqb un un' && opt_eqb qname_eqb re re'
  | ItProj q w s wa er ev it, ItProj q' w' s' wa' er' ev' it' =>
    qname_eqb q q' && qname_eqb w w' && bool_eqb s s' && bool_eqb wa wa' && bool_eqb er er'
    && list_eqb event_eqb ev ev' && set_eqb qname_eqb it it'
  | ItRole q w pb, ItRole q' w' pb' => qname_eqb q q' && qname_eqb w w' && bool_eqb pb pb'
  | ItRate q w c pe sc, ItRate q' w' c' pe' sc' =>
    qname_eqb q q' && qname_eqb w w' && N.eqb c c' && Z.eqb pe pe' && list_eqb scope_eqb sc sc'
  | ItLimit q w ops e f r, ItLimit q' w' ops' e' f' r' =>
    qname_eqb q q' && qname_eqb w w' && list_eqb op_eqb ops ops' && bool_eqb e e' && flt_eqb f f' && qname_eqb r r'
  | ItOther q s, ItOther q' s' => qname_eqb q q' && (s =? s')
  | _, _ => false
  end.

(* expected and observed dumps match item for item (as sets of items; keys are unique) *)
Definition dump_match (aclc : list rule -> list rule -> bool) (expected observed : list item) : bool :=
  forallb (fun e => existsb (item_sim aclc e) observed) expected
  && forallb (fun o => existsb (fun e => item_sim aclc e o) expected) observed
  && Nat.eqb (List.length expected) (List.length observed)
  && nodup_b qname_eqb (map item_key observed).

(* ------------------------------------------------------------------ traces *)

Inductive outcome :=
  | Compiled (items : list item) (sys_unchanged : bool) (deterministic : bool)
             (direct_anc : bool)   (* every workspace's Ancestors() is exactly what its INHERITS names (or sys.Workspace) *)
  | Rejected (panicked : bool).

Record trace := Trace {
  tr_ast : schema;
  tr_texts : list (string * list string);   (* what the Go renderer produced and the compiler was run on *)
  tr_out : outcome }.

Definition texts_eqb (x y : list (string * list string)) : bool :=
  list_eqb (fun p q => (fst p =? fst q) && list_eqb String.eqb (snd p) (snd q)) x y.

(* the implementation model predicts everything the harness observed *)
Definition agrees (t : trace) : bool :=
  texts_eqb (render (tr_ast t)) (tr_texts t)
  && (go_abstains (tr_ast t) ||
     match compile (tr_ast t) Go, tr_out t with
     | Some d, Compiled obs sys_unchanged deterministic direct =>
       dump_match acl_eqb d obs && sys_unchanged && deterministic && Bool.eqb direct (direct_anc_shown (tr_ast t) Go)
     | None, Rejected _ =>
       (* the model predicts the refusal, not whether the compiler reports an error or panics (the
          builder's panics are recovered in buildAppDefs since 2c1d463a7; C16 observes panics) *)
       true
     | _, _ => false
     end).

(* the property, judged on the observed output only: a well-formed schema compiles, and the compiled
   definition holds exactly the declared items (`compile Ideal`, equivalent to `Declares`), twice the
   same, with package sys untouched (ACLs compared operation by operation, rule for rule: a declared rule
   appears once); what is not well-formed is not judged *)
Definition satisfies (t : trace) : bool :=
  match compile (tr_ast t) Ideal, tr_out t with
  | Some d, Compiled obs sys_unchanged deterministic direct => dump_match acl_eqb d obs && sys_unchanged && deterministic && direct
  | Some _, Rejected _ => false
  | None, _ => true
  end.
