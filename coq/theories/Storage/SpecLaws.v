(* Laws of the reference storage semantics (Storage/Spec.v): the clauses of property C06
   stated about the one reference map, for every store, key, value and clock position. *)
From Coq Require Import List NArith ZArith Lia Bool.
From V Require Import Lib.Lex Lib.SMap Storage.Spec.
Import ListNotations.
Local Open Scope Z_scope.

Section Laws.
Context {V : Type} (veqb : V -> V -> bool).
Hypothesis veqb_eq : forall a b, veqb a b = true <-> a = b.

Notation store := (store V).
Notation row := (row V).

Definition parts_sorted (st : store) : Prop := forall pk, sorted (part st pk).

Lemma parts_sorted_nil : parts_sorted [].
Proof. intros pk. constructor. Qed.

(* ---- raw rows under set_row / del_row ---- *)

Lemma part_set_same (st : store) pk cc r : part (set_row st pk cc r) pk = sm_put cc r (part st pk).
Proof. unfold part at 1, set_row. rewrite sm_get_put_same. reflexivity. Qed.

Lemma part_set_other (st : store) pk pk' cc r : pk' <> pk -> part (set_row st pk cc r) pk' = part st pk'.
Proof. intros N. unfold part, set_row. rewrite sm_get_put_other by assumption. reflexivity. Qed.

Lemma part_del_same (st : store) pk cc : part (del_row st pk cc) pk = sm_del cc (part st pk).
Proof. unfold part at 1, del_row. rewrite sm_get_put_same. reflexivity. Qed.

Lemma part_del_other (st : store) pk pk' cc : pk' <> pk -> part (del_row st pk cc) pk' = part st pk'.
Proof. intros N. unfold part, del_row. rewrite sm_get_put_other by assumption. reflexivity. Qed.

Lemma raw_set_same (st : store) pk cc r : raw_lookup (set_row st pk cc r) pk cc = Some r.
Proof. unfold raw_lookup. rewrite part_set_same. apply sm_get_put_same. Qed.

Lemma raw_set_other (st : store) pk cc r pk' cc' :
  (pk', cc') <> (pk, cc) -> raw_lookup (set_row st pk cc r) pk' cc' = raw_lookup st pk' cc'.
Proof.
  intros N. unfold raw_lookup. destruct (lex_eqb pk' pk) eqn:E.
  - apply lex_eqb_eq in E. subst pk'. rewrite part_set_same. apply sm_get_put_other. congruence.
  - apply lex_eqb_neq in E. rewrite part_set_other by assumption. reflexivity.
Qed.

Lemma raw_del_same (st : store) pk cc : parts_sorted st -> raw_lookup (del_row st pk cc) pk cc = None.
Proof. intros S. unfold raw_lookup. rewrite part_del_same. apply sm_get_del_same. apply S. Qed.

Lemma raw_del_other (st : store) pk cc pk' cc' : parts_sorted st ->
  (pk', cc') <> (pk, cc) -> raw_lookup (del_row st pk cc) pk' cc' = raw_lookup st pk' cc'.
Proof.
  intros S N. unfold raw_lookup. destruct (lex_eqb pk' pk) eqn:E.
  - apply lex_eqb_eq in E. subst pk'. rewrite part_del_same. apply sm_get_del_other; [congruence|apply S].
  - apply lex_eqb_neq in E. rewrite part_del_other by assumption. reflexivity.
Qed.

Lemma set_row_sorted (st : store) pk cc r : parts_sorted st -> parts_sorted (set_row st pk cc r).
Proof.
  intros S pk'. destruct (lex_eqb pk' pk) eqn:E.
  - apply lex_eqb_eq in E. subst. rewrite part_set_same. apply sm_put_sorted, S.
  - apply lex_eqb_neq in E. rewrite part_set_other by assumption. apply S.
Qed.

Lemma del_row_sorted (st : store) pk cc : parts_sorted st -> parts_sorted (del_row st pk cc).
Proof.
  intros S pk'. destruct (lex_eqb pk' pk) eqn:E.
  - apply lex_eqb_eq in E. subst. rewrite part_del_same. apply sm_del_sorted, S.
  - apply lex_eqb_neq in E. rewrite part_del_other by assumption. apply S.
Qed.

(* ---- every operation keeps partitions sorted ---- *)

Lemma put_sorted st pk cc (v : V) : parts_sorted st -> parts_sorted (put st pk cc v).
Proof. apply set_row_sorted. Qed.

Lemma put_batch_sorted items : forall st, parts_sorted st -> parts_sorted (put_batch st items).
Proof.
  unfold put_batch. induction items as [|it items IH]; intros st S; cbn; auto.
  apply IH. apply put_sorted. exact S.
Qed.

Lemma ins_sorted now st pk cc (v : V) ttl : parts_sorted st -> parts_sorted (fst (insert_if_not_exists now st pk cc v ttl)).
Proof. intros S. unfold insert_if_not_exists. destruct (lookup now st pk cc); cbn; auto. apply set_row_sorted, S. Qed.

Lemma cas_sorted now st pk cc (o n : V) ttl : parts_sorted st -> parts_sorted (fst (compare_and_swap veqb now st pk cc o n ttl)).
Proof.
  intros S. unfold compare_and_swap. destruct (lookup now st pk cc) as [r|]; cbn; auto.
  destruct (veqb (rval r) o); cbn; auto. apply set_row_sorted, S.
Qed.

Lemma cad_sorted now st pk cc (e : V) : parts_sorted st -> parts_sorted (fst (compare_and_delete veqb now st pk cc e)).
Proof.
  intros S. unfold compare_and_delete. destruct (lookup now st pk cc) as [r|]; cbn; auto.
  destruct (veqb (rval r) e); cbn; auto. apply del_row_sorted, S.
Qed.

(* ---- point reads see the latest write; other keys are untouched ---- *)

Theorem get_put_same now (st : store) pk cc v : get now (put st pk cc v) pk cc = Some v.
Proof. unfold get, lookup, put. rewrite raw_set_same. reflexivity. Qed.

Theorem get_put_other now (st : store) pk cc v pk' cc' :
  (pk', cc') <> (pk, cc) -> get now (put st pk cc v) pk' cc' = get now st pk' cc'.
Proof. intros N. unfold get, lookup, put. rewrite raw_set_other by assumption. reflexivity. Qed.

(* batch reads agree with point reads, position by position *)
Theorem get_batch_pointwise now (st : store) pk ccs i cc :
  nth_error ccs i = Some cc -> nth_error (get_batch now st pk ccs) i = Some (get now st pk cc).
Proof. intros H. unfold get_batch. rewrite nth_error_map, H. reflexivity. Qed.

(* a batch write is the sequence of its point writes *)
Theorem put_batch_cons (st : store) pk cc v items :
  put_batch st ((pk, cc, v) :: items) = put_batch (put st pk cc v) items.
Proof. reflexivity. Qed.

(* ---- range reads: exactly the live rows with start <= key < finish, ascending, each once ---- *)

Definition live_in (now : Z) (st : store) (pk k : bytes) (v : V) : Prop :=
  exists r, raw_lookup st pk k = Some r /\ expired now r = false /\ rval r = v.

Theorem read_exact now (st : store) pk start finish k v : parts_sorted st ->
  (In (k, v) (read now st pk start finish) <->
   live_in now st pk k v /\ lex_le start k = true /\ (finish = [] \/ lex_lt k finish = true)).
Proof.
  intros S. unfold read, live_in, raw_lookup. rewrite in_map_iff. split.
  - intros [[k' r] [E Hin]]. cbn in E. inversion E; subst k' v. clear E.
    apply filter_In in Hin. destruct Hin as [Hin Hexp]. cbn in Hexp.
    apply sm_range_In in Hin. destruct Hin as [Hin Hb].
    unfold in_bounds in Hb. apply andb_prop in Hb. destruct Hb as [Hlo Hhi].
    split; [|split; auto].
    + exists r. split; [apply sm_get_In; [apply S|exact Hin]|]. split; [apply negb_true_iff; exact Hexp|reflexivity].
    + unfold hi_of in Hhi. destruct finish; [left; reflexivity|right; exact Hhi].
  - intros [[r [Hr [Hexp Hv]]] [Hlo Hhi]]. exists (k, r). cbn. split; [congruence|].
    apply filter_In. cbn. split; [|rewrite Hexp; reflexivity].
    apply sm_range_In. split; [apply sm_get_In; [apply S|exact Hr]|].
    unfold in_bounds. rewrite Hlo. cbn. unfold hi_of. destruct finish; auto.
    destruct Hhi as [Hhi|Hhi]; [discriminate|exact Hhi].
Qed.

Fixpoint ascending (ks : list bytes) : Prop :=
  match ks with
  | [] => True
  | k :: r => (match r with [] => True | k' :: _ => lex_lt k k' = true end) /\ ascending r
  end.

Lemma sorted_ascending (m : smap row) : sorted m -> ascending (map fst m).
Proof.
  induction 1 as [|k v|k v k' v' r Hlt Hs IH]; cbn; auto.
Qed.

Theorem read_ascending now (st : store) pk start finish : parts_sorted st ->
  ascending (map fst (read now st pk start finish)).
Proof.
  intros S. unfold read. rewrite map_map. cbn.
  change (fun x : bytes * row => fst x) with (@fst bytes row).
  apply sorted_ascending. apply filter_sorted. apply sm_range_sorted. apply S.
Qed.

Lemma ascending_lt_all k ks : ascending (k :: ks) -> Forall (fun k' => lex_lt k k' = true) ks.
Proof.
  revert k; induction ks as [|k1 ks IH]; intros k H; constructor.
  - destruct H as [H _]. exact H.
  - destruct H as [H1 H2]. specialize (IH k1 H2).
    assert (G : Forall (fun k' => lex_lt k k' = true) ks).
    { eapply Forall_impl; [|exact IH]. intros a Ha. eapply lex_lt_trans; eauto. }
    exact G.
Qed.

Theorem ascending_NoDup ks : ascending ks -> NoDup ks.
Proof.
  induction ks as [|k ks IH]; intros H; constructor.
  - intros Hin. pose proof (ascending_lt_all k ks H) as L. rewrite Forall_forall in L.
    specialize (L _ Hin). rewrite lex_lt_irrefl in L. discriminate.
  - apply IH. destruct H as [_ H]. exact H.
Qed.

(* ---- conditional operations decide on the current non-expired value ---- *)

Theorem insert_if_not_exists_spec now (st : store) pk cc v ttl :
  match get now st pk cc with
  | Some _ => insert_if_not_exists now st pk cc v ttl = (st, false)
  | None => exists st', insert_if_not_exists now st pk cc v ttl = (st', true)
            /\ raw_lookup st' pk cc = Some (mkRow v (exp_of now ttl))
            /\ forall pk' cc', (pk', cc') <> (pk, cc) -> raw_lookup st' pk' cc' = raw_lookup st pk' cc'
  end.
Proof.
  unfold get, insert_if_not_exists. destruct (lookup now st pk cc) as [r|]; cbn; [reflexivity|].
  eexists. split; [reflexivity|]. split; [apply raw_set_same|]. intros. apply raw_set_other. assumption.
Qed.

Theorem compare_and_swap_spec now (st : store) pk cc old new ttl :
  match get now st pk cc with
  | Some cur =>
      if veqb cur old
      then exists st', compare_and_swap veqb now st pk cc old new ttl = (st', true)
             /\ raw_lookup st' pk cc = Some (mkRow new (exp_of now ttl))
             /\ forall pk' cc', (pk', cc') <> (pk, cc) -> raw_lookup st' pk' cc' = raw_lookup st pk' cc'
      else compare_and_swap veqb now st pk cc old new ttl = (st, false)
  | None => compare_and_swap veqb now st pk cc old new ttl = (st, false)
  end.
Proof.
  unfold get, compare_and_swap. destruct (lookup now st pk cc) as [r|]; cbn; [|reflexivity].
  destruct (veqb (rval r) old); [|reflexivity].
  eexists. split; [reflexivity|]. split; [apply raw_set_same|]. intros. apply raw_set_other. assumption.
Qed.

Theorem compare_and_delete_spec now (st : store) pk cc expected : parts_sorted st ->
  match get now st pk cc with
  | Some cur =>
      if veqb cur expected
      then exists st', compare_and_delete veqb now st pk cc expected = (st', true)
             /\ raw_lookup st' pk cc = None
             /\ forall pk' cc', (pk', cc') <> (pk, cc) -> raw_lookup st' pk' cc' = raw_lookup st pk' cc'
      else compare_and_delete veqb now st pk cc expected = (st, false)
  | None => compare_and_delete veqb now st pk cc expected = (st, false)
  end.
Proof.
  intros S. unfold get, compare_and_delete. destruct (lookup now st pk cc) as [r|]; cbn; [|reflexivity].
  destruct (veqb (rval r) expected); [|reflexivity].
  eexists. split; [reflexivity|]. split; [apply raw_del_same; exact S|]. intros. apply raw_del_other; assumption.
Qed.

(* ---- time-to-live: a row is visible until, and not after, the expiry set by its most recent
        successful write ---- *)

Theorem ttl_visibility (st : store) pk cc v now ttl now' :
  0 < ttl -> 0 <= now -> now <= now' ->
  raw_lookup st pk cc = Some (mkRow v (exp_of now ttl)) ->
  (get now' st pk cc = Some v <-> now' < now + ttl * 1000) /\
  (get now' st pk cc = None <-> now + ttl * 1000 <= now').
Proof.
  intros Ht H0n Hn H. unfold get, lookup. rewrite H. unfold expired, exp_of. cbn.
  destruct (Z.ltb_spec 0 ttl); [|lia].
  destruct (Z.ltb_spec 0 (now + ttl * 1000)); destruct (Z.leb_spec (now + ttl * 1000) now'); cbn;
    split; split; intros; try lia; try congruence; try reflexivity.
Qed.

Theorem no_ttl_never_expires (st : store) pk cc v now' :
  raw_lookup st pk cc = Some (mkRow v 0) -> get now' st pk cc = Some v.
Proof. intros H. unfold get, lookup. rewrite H. reflexivity. Qed.

(* an empty value is a present row: nothing in the semantics looks at the value *)
Theorem empty_value_present now (st : store) pk cc (empty : V) : get now (put st pk cc empty) pk cc = Some empty.
Proof. apply get_put_same. Qed.

End Laws.
