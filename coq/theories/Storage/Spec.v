(* The one reference semantics of istorage.IAppStorage (pkg/istorage/interface.go):
   a map (pKey, cCols) -> (value, expireAt) plus a clock.  Every backend model is
   proved to refine it (Storage/Mem*.v, Storage/Bbolt*.v) and every higher model
   (blob storage, views, logs, elections) is written against it.
   Definitions only; the laws are in Storage/SpecLaws.v. *)
From Coq Require Import List NArith ZArith Lia Bool.
From V Require Import Lib.Lex Lib.SMap.
Import ListNotations.
Local Open Scope Z_scope.

Section Spec.
Context {V : Type} (veqb : V -> V -> bool).

(* rexp = 0 : no time-to-live; otherwise absolute expiry in ms *)
Record row := mkRow { rval : V; rexp : Z }.

Definition store := smap (smap row).

Definition expired (now : Z) (r : row) : bool := (0 <? rexp r) && (rexp r <=? now).

Definition part (st : store) (pk : bytes) : smap row :=
  match sm_get pk st with Some p => p | None => [] end.

Definition raw_lookup (st : store) (pk cc : bytes) : option row := sm_get cc (part st pk).

Definition lookup (now : Z) (st : store) (pk cc : bytes) : option row :=
  match raw_lookup st pk cc with
  | Some r => if expired now r then None else Some r
  | None => None
  end.

Definition set_row (st : store) (pk cc : bytes) (r : row) : store :=
  sm_put pk (sm_put cc r (part st pk)) st.

Definition del_row (st : store) (pk cc : bytes) : store :=
  sm_put pk (sm_del cc (part st pk)) st.

Definition exp_of (now : Z) (ttl_s : Z) : Z := if 0 <? ttl_s then now + ttl_s * 1000 else 0.

Definition put (st : store) (pk cc : bytes) (v : V) : store := set_row st pk cc (mkRow v 0).

Definition put_batch (st : store) (items : list (bytes * bytes * V)) : store :=
  fold_left (fun s it => put s (fst (fst it)) (snd (fst it)) (snd it)) items st.

Definition get (now : Z) (st : store) (pk cc : bytes) : option V :=
  option_map rval (lookup now st pk cc).

Definition get_batch (now : Z) (st : store) (pk : bytes) (ccs : list bytes) : list (option V) :=
  map (get now st pk) ccs.

(* empty start = unbounded below, empty finish = unbounded above *)
Definition hi_of (finish : bytes) : option bytes := match finish with [] => None | _ => Some finish end.

Definition read (now : Z) (st : store) (pk start finish : bytes) : list (bytes * V) :=
  map (fun kv => (fst kv, rval (snd kv)))
      (filter (fun kv => negb (expired now (snd kv)))
              (sm_range start (hi_of finish) (part st pk))).

Definition insert_if_not_exists (now : Z) (st : store) (pk cc : bytes) (v : V) (ttl : Z) : store * bool :=
  match lookup now st pk cc with
  | Some _ => (st, false)
  | None => (set_row st pk cc (mkRow v (exp_of now ttl)), true)
  end.

Definition compare_and_swap (now : Z) (st : store) (pk cc : bytes) (old new : V) (ttl : Z) : store * bool :=
  match lookup now st pk cc with
  | Some r => if veqb (rval r) old then (set_row st pk cc (mkRow new (exp_of now ttl)), true) else (st, false)
  | None => (st, false)
  end.

Definition compare_and_delete (now : Z) (st : store) (pk cc : bytes) (expected : V) : store * bool :=
  match lookup now st pk cc with
  | Some r => if veqb (rval r) expected then (del_row st pk cc, true) else (st, false)
  | None => (st, false)
  end.

(* remaining whole seconds; a row without TTL reports (0, true); <= 0 s left counts as gone *)
Definition query_ttl (now : Z) (st : store) (pk cc : bytes) : option Z :=
  match lookup now st pk cc with
  | Some r => if rexp r =? 0 then Some 0
              else let s := (rexp r - now) / 1000 in if s <=? 0 then None else Some s
  | None => None
  end.

(* every partition of the store is sorted and the partition index is sorted *)
Definition wf_store (st : store) : Prop :=
  sorted st /\ Forall (fun p => sorted (snd p)) st.

End Spec.

Arguments row : clear implicits.
Arguments store : clear implicits.
Arguments mkRow {V}.
