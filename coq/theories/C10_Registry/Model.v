(* C10 - model of the three persistent name->ID registries of istructsmem
   (internal/qnames, internal/containers, internal/singletons over internal/vers):
   Prepare = load stored rows (whether the version row must be set for that is a translator flag:
   not since the repair of F20) into the registry object -> collect the names of the
   current schema in enumeration order, giving each unknown name the first unused ID above the
   last one -> store all rows -> store the version row; qnames.Rename moves an ID to a new name
   and leaves a tombstone (ID 0).  One generic registry [rcfg] instantiated three times.
   The registry objects and the version cache live as long as the process: a failed start is
   retried on the same objects ([vol], [proc], ARetry).
   Names are byte strings; application names are assumed different from the few built-in
   system names (".", sys.Error, sys.CUD, sys.Corrupted, the empty container name).
   Definitions only. *)
From Coq Require Import List NArith Bool Lia.
From V Require Import Lib.Lex Lib.SMap Lib.Check Gen.Params.
Import ListNotations.
Local Open Scope N_scope.

(* ---------- one registry ---------- *)

Record rcfg := mkCfg {
  c_sys_last : N;      (* IDs <= c_sys_last are reserved: allocation starts above *)
  c_max : N;           (* allocated IDs are < c_max *)
  c_tomb : bool;       (* a stored ID 0 is a deleted name (skipped on load); 0 < ID <= c_sys_last refuses the load *)
  c_needver : bool;    (* rows are read only when the version row is set *)
  c_late : bool;       (* the pending-changes counter is cleared by store() after a successful write
                          (true, the code as pinned) / by Prepare before it calls store() (false) *)
  c_skipdel : bool;    (* load01 skips a row carrying the deleted mark (ID 0) before any other check (true, the
                          code as pinned) / takes it into the name map as name -> 0 (false) *)
  c_atomic : bool      (* Rename writes its rows with ONE storage call (the PutBatch of store(); true, the
                          code as pinned) / with two independent Puts, both always attempted (false) *)
}.

Definition cfg_q := mkCfg reg_qname_sys_last reg_qname_max true reg_qname_needs_version reg_qname_changes_cleared_by_store reg_qname_skips_deleted reg_rename_atomic.
Definition cfg_c := mkCfg reg_cont_sys_last reg_cont_max true reg_cont_needs_version reg_cont_changes_cleared_by_store reg_cont_skips_deleted true.
Definition cfg_s := mkCfg (reg_first_singleton - 1) reg_max_singleton false reg_single_needs_version reg_single_changes_cleared_by_store true true.

Definition rows := list (bytes * N).        (* sorted by name: the partition of the system view *)
Record pers := mkPers { p_rows : rows; p_ver : N }.   (* p_ver: 0 = no version row, 1 = ver01 *)

(* the in-memory registry: name->ID map, ID->name map (later entries shadow earlier ones), lastID *)
Record mem := mkMem { m_names : rows; m_ids : list (N * bytes); m_last : N }.

Definition mem0 (c : rcfg) : mem := mkMem [] [] (c_sys_last c).

Fixpoint id_name (ids : list (N * bytes)) (id : N) : option bytes :=
  match ids with
  | [] => None
  | (i, n) :: r => if i =? id then Some n else id_name r id
  end.

Definition has_id (ids : list (N * bytes)) (id : N) : bool :=
  match id_name ids id with Some _ => true | None => false end.

Definition add (m : mem) (n : bytes) (id : N) : mem :=
  mkMem (sm_put n id (m_names m)) ((id, n) :: m_ids m) (N.max (m_last m) id).

Definition skip (c : rcfg) (id : N) : bool := c_tomb c && (id =? 0).

(* load01: the read callback per stored row, applied to the registry object as it is (a fresh
   one, or the one a failed start of the same process left behind); false = the callback
   returned an error (the rows before it have been taken in) *)
Fixpoint load_rows (c : rcfg) (rs : rows) (m : mem) : mem * bool :=
  match rs with
  | [] => (m, true)
  | (n, id) :: r =>
      if skip c id then (if c_skipdel c then load_rows c r m else load_rows c r (add m n id))
      else if c_tomb c && (id <=? c_sys_last c) then (m, false)
      else load_rows c r (add m n id)
  end.

(* the volatile state of one registry inside one process: the registry object (it survives a
   failed Prepare and is prepared again by the in-process retry), its pending-changes counter
   (as "> 0") and the version value cached by the vers.Versions object *)
Record vol := mkVol { v_mem : mem; v_changed : bool; v_ver : N }.
Definition vol0 (c : rcfg) : vol := mkVol (mem0 c) false 0.

(* vers.Prepare re-reads the stored version rows into the cache without clearing it: the cached
   value survives where no row is stored (vers.Put caches before it writes) *)
Definition merged_ver (p : pers) (v : vol) : N := if p_ver p =? 0 then v_ver v else p_ver p.

Definition reads (c : rcfg) (ver : N) : bool := (ver =? 1) || ((ver =? 0) && negb (c_needver c)).

(* `for id := lastID+1; id < Max; id++ { if used(id) continue; ... }`; the fuel (one more than
   the number of used IDs) always suffices: at most that many candidates can be in use *)
Fixpoint first_free (fuel : nat) (ids : list (N * bytes)) (id max : N) : option N :=
  match fuel with
  | O => None
  | S f => if max <=? id then None
           else if has_id ids id then first_free f ids (id + 1) max
           else Some id
  end.

Record cst := mkCst { cs_mem : mem; cs_changed : bool; cs_err : bool }.

Definition collect (c : rcfg) (s : cst) (n : bytes) : cst :=
  match sm_get n (m_names (cs_mem s)) with
  | Some _ => s
  | None =>
      let m := cs_mem s in
      match first_free (S (length (m_ids m))) (m_ids m) (m_last m + 1) (c_max c) with
      | Some id => mkCst (mkMem (sm_put n id (m_names m)) ((id, n) :: m_ids m) id) true (cs_err s)
      | None => mkCst m (cs_changed s) true
      end
  end.

Definition collect_all (c : rcfg) (m : mem) (changed : bool) (names : list bytes) : cst :=
  fold_left (collect c) names (mkCst m changed false).

(* which in-memory entries store() writes *)
Definition keep (c : rcfg) (id : N) : bool := (c_sys_last c <? id) || skip c id.

Fixpoint put_all (c : rcfg) (es : rows) (rs : rows) : rows :=
  match es with
  | [] => rs
  | (n, id) :: r => put_all c r (if keep c id then sm_put n id rs else rs)
  end.

(* where an injected storage failure hits this registry *)
Inductive rfault := RNoFault | RFailBatch | RFailVer.

(* store: PutBatch of all entries, then the version row unless the cached version is already the
   latest; returns the new cached version and whether both writes went through *)
Definition store (c : rcfg) (p : pers) (ver : N) (m : mem) (f : rfault) : pers * N * bool :=
  match f with
  | RFailBatch => (p, ver, false)
  | _ =>
      let rs := put_all c (m_names m) (p_rows p) in
      if ver =? 1 then (mkPers rs (p_ver p), ver, true)
      else match f with
           | RFailVer => (mkPers rs (p_ver p), 1, false)
           | _ => (mkPers rs 1, 1, true)
           end
  end.

(* error classes: 1 injected storage failure, 2 ID limit, 3 stored ID in the system range,
   4 unknown view version, 5 rename refused *)
Inductive rres := ROk (m : mem) | RErr (code : N).

Definition prepare (c : rcfg) (p : pers) (v : vol) (names : list bytes) (f : rfault) : pers * vol * rres :=
  let ver := merged_ver p v in
  if 1 <? ver then (p, mkVol (v_mem v) (v_changed v) ver, RErr 4)
  else
    let '(m1, ok) := if reads c ver then load_rows c (p_rows p) (v_mem v) else (v_mem v, true) in
    if negb ok then (p, mkVol m1 (v_changed v) ver, RErr 3)
    else
      let s := collect_all c m1 (v_changed v) names in
      if cs_err s then (p, mkVol (cs_mem s) (cs_changed s) ver, RErr 2)
      else if cs_changed s then
        let '(p', ver', ok) := store c p ver (cs_mem s) f in
        (p', mkVol (cs_mem s) (if c_late c then negb ok else false) ver',
         if ok then ROk (cs_mem s) else RErr 1)
      else (p, mkVol (cs_mem s) false ver, ROk (cs_mem s)).

(* qnames.Rename: its own fresh Versions and QNames objects; Prepare without a schema (never
   stores), move the ID, tombstone the old name.  The rows are written by a sequence of storage
   calls [wop]: as pinned, the one PutBatch of store() (all known rows, among them new := id and
   old := 0) followed by the version-row Put when the version row is absent, the first failure
   aborting; in the other shape two Puts (new := id, old := 0), both attempted whatever happens.
   Failures are injected per storage call. *)
Inductive wop := WBatch (es : rows) | WPut (n : bytes) (id : N) | WVer.

(* RnBatch / RnVer: the rows PutBatch / the version-row Put fails; RnWrite k: the k-th write call
   of the rename fails; RnStop k: the process stops after its k-th write call (0: before any) *)
Inductive rnfault := RnNone | RnBatch | RnVer | RnWrite (k : N) | RnStop (k : N).

Definition wfails (f : rnfault) (k : N) (w : wop) : bool :=
  match f with
  | RnNone => false
  | RnBatch => match w with WBatch _ => true | _ => false end
  | RnVer => match w with WVer => true | _ => false end
  | RnWrite j => k =? j
  | RnStop j => j <? k
  end.

Definition apply_w (c : rcfg) (p : pers) (w : wop) : pers :=
  match w with
  | WBatch es => mkPers (put_all c es (p_rows p)) (p_ver p)
  | WPut n id => mkPers (sm_put n id (p_rows p)) (p_ver p)
  | WVer => mkPers (p_rows p) 1
  end.

Fixpoint exec_writes (c : rcfg) (abort : bool) (f : rnfault) (k : N) (ws : list wop) (p : pers) : pers * bool :=
  match ws with
  | [] => (p, true)
  | w :: r =>
      if wfails f k w then
        if abort then (p, false) else (fst (exec_writes c abort f (k + 1) r p), false)
      else exec_writes c abort f (k + 1) r (apply_w c p w)
  end.

Definition rename (c : rcfg) (p : pers) (old new : bytes) (f : rnfault) : pers * N :=
  if lex_eqb old new then (p, 5)
  else if 1 <? p_ver p then (p, 4)
  else
    let '(m, ok) := if reads c (p_ver p) then load_rows c (p_rows p) (mem0 c) else (mem0 c, true) in
    if negb ok then (p, 3)
    else match sm_get old (m_names m), sm_get new (m_names m) with
         | Some id, None =>
             let ws := if c_atomic c
                       then WBatch (sm_put new id (sm_put old 0 (m_names m))) :: (if p_ver p =? 1 then [] else [WVer])
                       else [WPut new id; WPut old 0] in
             let '(p', ok) := exec_writes c (c_atomic c) f 1 ws p in
             (p', if ok then 0 else 1)
         | _, _ => (p, 5)
         end.

(* ---------- the application: three registries prepared in order on one storage ---------- *)

Record sys := mkSys { s_q : pers; s_c : pers; s_s : pers }.

(* the process: the AppConfigType with its three registry objects and the Versions cache; a new
   process starts from fresh objects; pr_ready = the configuration is prepared (app running) *)
Record proc := mkProc { pr_q : vol; pr_c : vol; pr_s : vol; pr_ready : bool }.
Definition proc0 : proc := mkProc (vol0 cfg_q) (vol0 cfg_c) (vol0 cfg_s) false.

(* registry index: 0 qnames, 1 containers, 2 singletons *)
(* FailWrite / StopAfter count the write calls of a Rename (they do not apply to a start) *)
(* FailNthBatch k: the k-th PutBatch a start issues (whichever registry it belongs to) fails *)
Inductive fault := NoFault | FailBatch (r : N) | FailVer (r : N) | FailWrite (k : N) | StopAfter (k : N)
                 | FailNthBatch (k : N).

(* the failure registry r sees when n PutBatch calls were issued by the start before it *)
Definition fault_at (f : fault) (r n : N) : rfault :=
  match f with
  | FailBatch r' => if r =? r' then RFailBatch else RNoFault
  | FailVer r' => if r =? r' then RFailVer else RNoFault
  | FailNthBatch k => if n + 1 =? k then RFailBatch else RNoFault
  | _ => RNoFault
  end.

(* the registry object Prepare would store, if it gets as far as store() (the rows PutBatch is issued) *)
Definition plan (c : rcfg) (p : pers) (v : vol) (names : list bytes) : option mem :=
  let ver := merged_ver p v in
  if 1 <? ver then None
  else
    let '(m1, ok) := if reads c ver then load_rows c (p_rows p) (v_mem v) else (v_mem v, true) in
    if negb ok then None
    else
      let s := collect_all c m1 (v_changed v) names in
      if cs_err s then None else if cs_changed s then Some (cs_mem s) else None.

Definition batches (c : rcfg) (p : pers) (v : vol) (names : list bytes) : N :=
  match plan c p v names with Some _ => 1 | None => 0 end.

(* storage write calls as the recording wrapper sees them (attempted calls, in order):
   CBatch r n = PutBatch of n rows into the view of registry r; CPut r = a single-row Put into it;
   CVer r = Put of the version row of registry r *)
Inductive scall := CBatch (r n : N) | CPut (r : N) | CVer (r : N).

Definition scall_eqb (a b : scall) : bool :=
  match a, b with
  | CBatch r n, CBatch r' n' => (r =? r') && (n =? n')
  | CPut r, CPut r' => r =? r'
  | CVer r, CVer r' => r =? r'
  | _, _ => false
  end.

Definition nkept (c : rcfg) (es : rows) : N := N.of_nat (length (filter (fun e => keep c (snd e)) es)).

Definition prep_calls (c : rcfg) (r : N) (p : pers) (v : vol) (names : list bytes) (f : rfault) : list scall :=
  match plan c p v names with
  | None => []
  | Some m =>
      CBatch r (nkept c (m_names m)) ::
      match f with
      | RFailBatch => []
      | _ => if merged_ver p v =? 1 then [] else [CVer r]
      end
  end.

Definition rn_fault_for (f : fault) : rnfault :=
  match f with
  | NoFault => RnNone
  | FailBatch r => if r =? 0 then RnBatch else RnNone
  | FailVer r => if r =? 0 then RnVer else RnNone
  | FailWrite k => RnWrite k
  | StopAfter k => RnStop k
  | FailNthBatch _ => RnNone
  end.

Inductive action :=
| AStart (qn cn sn : list bytes) (f : fault)    (* a new process starts the application *)
| ARetry (qn cn sn : list bytes) (f : fault)    (* the same process asks for the application again
                                                   (IAppStructsProvider.BuiltIn on the same config) *)
| ARename (old new : bytes) (f : fault).

Inductive sout := SOk (mq mc ms : mem) | SErr (code : N).

Definition state := (sys * proc)%type.

(* AppConfigType.prepare: versions, qnames, containers, singletons; the first error aborts the
   start and leaves the objects as they are *)
Definition run_start (s : sys) (pr : proc) (qn cn sn : list bytes) (f : fault) : state * sout :=
  let n1 := batches cfg_q (s_q s) (pr_q pr) qn in
  let n2 := n1 + batches cfg_c (s_c s) (pr_c pr) cn in
  let '(q', vq, rq) := prepare cfg_q (s_q s) (pr_q pr) qn (fault_at f 0 0) in
  match rq with
  | RErr e => ((mkSys q' (s_c s) (s_s s), mkProc vq (pr_c pr) (pr_s pr) false), SErr e)
  | ROk mq =>
      let '(c', vc, rc) := prepare cfg_c (s_c s) (pr_c pr) cn (fault_at f 1 n1) in
      match rc with
      | RErr e => ((mkSys q' c' (s_s s), mkProc vq vc (pr_s pr) false), SErr e)
      | ROk mc =>
          let '(s', vs, rs) := prepare cfg_s (s_s s) (pr_s pr) sn (fault_at f 2 n2) in
          match rs with
          | RErr e => ((mkSys q' c' s', mkProc vq vc vs false), SErr e)
          | ROk ms => ((mkSys q' c' s', mkProc vq vc vs true), SOk mq mc ms)
          end
      end
  end.

Definition start_calls (s : sys) (pr : proc) (qn cn sn : list bytes) (f : fault) : list scall :=
  let n1 := batches cfg_q (s_q s) (pr_q pr) qn in
  let n2 := n1 + batches cfg_c (s_c s) (pr_c pr) cn in
  prep_calls cfg_q 0 (s_q s) (pr_q pr) qn (fault_at f 0 0) ++
  match snd (prepare cfg_q (s_q s) (pr_q pr) qn (fault_at f 0 0)) with
  | RErr _ => []
  | ROk _ =>
      prep_calls cfg_c 1 (s_c s) (pr_c pr) cn (fault_at f 1 n1) ++
      match snd (prepare cfg_c (s_c s) (pr_c pr) cn (fault_at f 1 n1)) with
      | RErr _ => []
      | ROk _ => prep_calls cfg_s 2 (s_s s) (pr_s pr) sn (fault_at f 2 n2)
      end
  end.

Definition call_of (c : rcfg) (w : wop) : scall :=
  match w with WBatch es => CBatch 0 (nkept c es) | WPut _ _ => CPut 0 | WVer => CVer 0 end.

Fixpoint exec_calls (c : rcfg) (abort : bool) (f : rnfault) (k : N) (ws : list wop) : list scall :=
  match ws with
  | [] => []
  | w :: r => call_of c w :: (if wfails f k w && abort then [] else exec_calls c abort f (k + 1) r)
  end.

Definition rename_calls (c : rcfg) (p : pers) (old new : bytes) (f : rnfault) : list scall :=
  if lex_eqb old new then []
  else if 1 <? p_ver p then []
  else
    let '(m, ok) := if reads c (p_ver p) then load_rows c (p_rows p) (mem0 c) else (mem0 c, true) in
    if negb ok then []
    else match sm_get old (m_names m), sm_get new (m_names m) with
         | Some id, None =>
             let ws := if c_atomic c
                       then WBatch (sm_put new id (sm_put old 0 (m_names m))) :: (if p_ver p =? 1 then [] else [WVer])
                       else [WPut new id; WPut old 0] in
             exec_calls c (c_atomic c) f 1 ws
         | _, _ => []
         end.

Definition step_calls (st : state) (a : action) : list scall :=
  let '(s, pr) := st in
  match a with
  | AStart qn cn sn f => start_calls s proc0 qn cn sn f
  | ARetry qn cn sn f => if pr_ready pr then [] else start_calls s pr qn cn sn f
  | ARename old new f => rename_calls cfg_q (s_q s) old new (rn_fault_for f)
  end.

Definition sys_step (st : state) (a : action) : state * sout :=
  let '(s, pr) := st in
  match a with
  | AStart qn cn sn f => run_start s proc0 qn cn sn f
  | ARetry qn cn sn f =>
      if pr_ready pr then (st, SOk (v_mem (pr_q pr)) (v_mem (pr_c pr)) (v_mem (pr_s pr)))
      else run_start s pr qn cn sn f
  | ARename old new f =>
      let '(q', code) := rename cfg_q (s_q s) old new (rn_fault_for f) in
      ((mkSys q' (s_c s) (s_s s), pr), if code =? 0 then SOk (mem0 cfg_q) (mem0 cfg_c) (mem0 cfg_s) else SErr code)
  end.

Definition sys_run (st : state) (l : list action) : state := fold_left (fun st a => fst (sys_step st a)) l st.

(* decoding a stored row: QNameID -> name through the ID->name map, then the type must exist *)
Definition decode (mq : mem) (qn : list bytes) (id : N) : option bytes :=
  match id_name (m_ids mq) id with
  | Some n => if existsb (lex_eqb n) qn then Some n else None
  | None => None
  end.

(* ================= trace checking (correspondence + oracle) ================= *)

Record dump := mkDump { d_q : rows; d_c : rows; d_s : rows; d_vq : N; d_vc : N; d_vs : N }.

Inductive dres := DName (n : bytes) | DErr | DAbsent.
(* records: RPut key name ok = PutJSON of a document of type name under record id key;
   RGet key r = Records.Get(key) and the type name it was decoded with *)
Inductive recop :=
| RPut (key : N) (name : bytes) (ok : bool) | RGet (key : N) (r : dres)
(* RPutC key rname cont ok = PutJSON of a record of type rname in container cont; RGetC key r =
   Records.Get(key) and the container name it was decoded with (the row stores the container ID) *)
| RPutC (key : N) (rname cont : bytes) (ok : bool) | RGetC (key : N) (r : dres)
(* the code under test panicked while the running application was being observed: never accepted *)
| RPanic.

Inductive step :=
| TStart (retry : bool) (qn cn sn docs : list bytes) (f : fault) (calls : list scall) (code : N) (d : dump)
         (qids sids : list (bytes * option N)) (recs : list recop)
| TRename (old new : bytes) (f : fault) (calls : list scall) (code : N) (d : dump).

Record trace := mkTrace { t_init : dump; t_steps : list step }.

Definition row_eqb (a b : bytes * N) : bool := lex_eqb (fst a) (fst b) && (snd a =? snd b).
Definition rows_eqb : rows -> rows -> bool := list_eqb row_eqb.

Definition sys_of (d : dump) : sys :=
  mkSys (mkPers (d_q d) (d_vq d)) (mkPers (d_c d) (d_vc d)) (mkPers (d_s d) (d_vs d)).

Definition dump_agrees (s : sys) (d : dump) : bool :=
  rows_eqb (p_rows (s_q s)) (d_q d) && rows_eqb (p_rows (s_c s)) (d_c d) && rows_eqb (p_rows (s_s s)) (d_s d)
  && (p_ver (s_q s) =? d_vq d) && (p_ver (s_c s) =? d_vc d) && (p_ver (s_s s) =? d_vs d).

Definition optN_eqb := option_eqb N.eqb.

Definition lookups_agree (m : mem) (l : list (bytes * option N)) : bool :=
  forallb (fun e => optN_eqb (sm_get (fst e) (m_names m)) (snd e)) l.

Fixpoint assoc {T} (k : N) (l : list (N * T)) : option T :=
  match l with [] => None | (k', v) :: r => if k =? k' then Some v else assoc k r end.

Definition mem_b (n : bytes) (l : list bytes) : bool := existsb (lex_eqb n) l.

(* stored records: record key -> QNameID written in the row header *)
(* Containers.Container(id): the ID->name map of the containers registry; ID 0 is the built-in
   empty container name (collectSys runs after load, so it always wins) *)
Definition cdecode (mc : mem) (id : N) : option bytes :=
  if id =? 0 then Some [] else id_name (m_ids mc) id.

(* stored rows: document key -> QNameID of the row header; record key -> (QNameID, type name it
   was written with, container ID) *)
Record rstore := mkRst { rs_docs : list (N * N); rs_recs : list (N * (N * bytes * N)) }.

Fixpoint recs_agree (mq mc : mem) (qn docs : list bytes) (stored : rstore) (ops : list recop) : bool * rstore :=
  match ops with
  | [] => (true, stored)
  | RPut key name ok :: r =>
      match sm_get name (m_names mq) with
      | Some id => if ok then recs_agree mq mc qn docs (mkRst ((key, id) :: rs_docs stored) (rs_recs stored)) r else (false, stored)
      | None => if ok then (false, stored) else recs_agree mq mc qn docs stored r
      end
  | RGet key res :: r =>
      let good :=
        match assoc key (rs_docs stored) with
        | None => match res with DAbsent => true | _ => false end
        | Some id =>
            match decode mq qn id with
            | None => match res with DErr => true | _ => false end
            | Some n =>
                (* decoded as a type that is not a document (workspace, record, data type):
                   what the row codec then reports is not modelled *)
                if mem_b n docs then match res with DName x => lex_eqb x n | _ => false end else true
            end
        end in
      if good then recs_agree mq mc qn docs stored r else (false, stored)
  | RPutC key rname cont ok :: r =>
      match sm_get rname (m_names mq), sm_get cont (m_names mc) with
      | Some qid, Some cid =>
          if ok then recs_agree mq mc qn docs (mkRst (rs_docs stored) ((key, (qid, rname, cid)) :: rs_recs stored)) r
          else (false, stored)
      | _, _ => if ok then (false, stored) else recs_agree mq mc qn docs stored r
      end
  | RGetC key res :: r =>
      let good :=
        match assoc key (rs_recs stored) with
        | None => match res with DAbsent => true | _ => false end
        | Some (qid, rname, cid) =>
            match decode mq qn qid with
            | None => match res with DErr => true | _ => false end
            | Some n =>
                if lex_eqb n rname then
                  match cdecode mc cid with
                  | Some cn => match res with DName x => lex_eqb x cn | _ => false end
                  | None => match res with DErr => true | _ => false end
                  end
                else true   (* decoded as another type: not modelled *)
            end
        end in
      if good then recs_agree mq mc qn docs stored r else (false, stored)
  | RPanic :: _ => (false, stored)
  end.

Definition code_of (o : sout) : N := match o with SOk _ _ _ => 0 | SErr e => e end.

Fixpoint agrees_from (st : state) (stored : rstore) (t : list step) : bool :=
  match t with
  | [] => true
  | TStart retry qn cn sn docs f calls code d qids sids recs :: rest =>
      let a := if retry then ARetry qn cn sn f else AStart qn cn sn f in
      let '(st', o) := sys_step st a in
      (code_of o =? code) && dump_agrees (fst st') d && list_eqb scall_eqb (step_calls st a) calls &&
      match o with
      | SOk mq mc ms =>
          lookups_agree mq qids && lookups_agree ms sids &&
          (let '(ok, stored') := recs_agree mq mc qn docs stored recs in ok && agrees_from st' stored' rest)
      | SErr _ => agrees_from st' stored rest
      end
  | TRename old new f calls code d :: rest =>
      let '(st', o) := sys_step st (ARename old new f) in
      (code_of o =? code) && dump_agrees (fst st') d &&
      list_eqb scall_eqb (step_calls st (ARename old new f)) calls && agrees_from st' stored rest
  end.

Definition agrees (t : trace) : bool := agrees_from (sys_of (t_init t), proc0) (mkRst [] []) (t_steps t).

(* ---------- the oracle: the property judged on the observed outputs only ----------
   After every successful start (of a new process or an in-process retry):
   - every name of the schema has an ID, outside the reserved range and below the limit;
   - no two names of the schema share an ID;
   - a name that had an ID at an earlier successful start still has that ID, unless it was
     renamed away by a successful Rename in between; a Rename moves the IDs of the old name
     (QNameID and, for a singleton, the singleton ID) to the new name;
   - a Rename that reported a storage failure took effect completely or not at all;
   - a record written under a name that is still in the schema (and was not renamed) is decoded
     with that name; if the name has left the schema it is never decoded with another name.
   Observed: QNameID / GetSingletonID lookups, the raw container rows, Records.Get. *)

Fixpoint lookup (n : bytes) (l : list (bytes * N)) : option N :=
  match l with [] => None | (k, v) :: r => if lex_eqb n k then Some v else lookup n r end.

Fixpoint lookup_o (n : bytes) (l : list (bytes * option N)) : option N :=
  match l with [] => None | (k, v) :: r => if lex_eqb n k then v else lookup_o n r end.

Fixpoint dedup (l : list bytes) : list bytes :=
  match l with [] => [] | x :: r => if mem_b x r then dedup r else x :: dedup r end.

Fixpoint nodup_ids (l : list N) : bool :=
  match l with [] => true | x :: r => negb (existsb (N.eqb x) r) && nodup_ids r end.

(* ids of the live names, None if one has no ID in range *)
Fixpoint live_ids (lo hi : N) (get : bytes -> option N) (names : list bytes) : option (list N) :=
  match names with
  | [] => Some []
  | n :: r =>
      match get n, live_ids lo hi get r with
      | Some id, Some l => if (lo <? id) && (id <? hi) then Some (id :: l) else None
      | _, _ => None
      end
  end.

Definition stable_with (known : list (bytes * N)) (get : bytes -> option N) (names : list bytes) : bool :=
  forallb (fun n => match lookup n known, get n with
                    | Some id0, Some id => id0 =? id
                    | _, _ => true
                    end) names.

Definition learn (known : list (bytes * N)) (get : bytes -> option N) (names : list bytes) : list (bytes * N) :=
  fold_right (fun n acc => match get n with Some id => (n, id) :: acc | None => acc end) known names.

Definition forget (n : bytes) (known : list (bytes * N)) : list (bytes * N) :=
  filter (fun e => negb (lex_eqb n (fst e))) known.

(* one registry's judgement at a successful start *)
Definition reg_ok (lo hi : N) (known : list (bytes * N)) (get : bytes -> option N) (names : list bytes) : bool :=
  let live := dedup names in
  match live_ids lo hi get live with
  | Some ids => nodup_ids ids && stable_with known get live
  | None => false
  end.

(* written: document key -> type name; record key -> container name *)
Record wstore := mkWst { w_docs : list (N * bytes); w_recs : list (N * bytes) }.

Fixpoint recs_ok (qn cn : list bytes) (written : wstore) (ops : list recop) : bool * wstore :=
  match ops with
  | [] => (true, written)
  | RPut key name ok :: r => recs_ok qn cn (if ok then mkWst ((key, name) :: w_docs written) (w_recs written) else written) r
  | RGet key res :: r =>
      let good :=
        match assoc key (w_docs written) with
        | None => true
        | Some w =>
            if mem_b w qn then match res with DName x => lex_eqb x w | _ => false end
            else match res with DName x => lex_eqb x w | _ => true end
        end in
      if good then recs_ok qn cn written r else (false, written)
  | RPutC key _ cont ok :: r => recs_ok qn cn (if ok then mkWst (w_docs written) ((key, cont) :: w_recs written) else written) r
  | RGetC key res :: r =>
      (* the container ID written into the row leads back to the container name while the
         container is in the schema; afterwards never to another name *)
      let good :=
        match assoc key (w_recs written) with
        | None => true
        | Some w =>
            if mem_b w cn then match res with DName x => lex_eqb x w | _ => false end
            else match res with DName x => lex_eqb x w | _ => true end
        end in
      if good then recs_ok qn cn written r else (false, written)
  | RPanic :: _ => (false, written)
  end.

(* a Rename that reported a storage failure must have taken effect completely or not at all:
   (old, new, the ID old had) waits for the next successful start, where the observed lookups of
   the two names decide which; anything else (both names with the ID, or neither) is a violation *)
Record ost := mkOst { o_kq : list (bytes * N); o_kc : list (bytes * N); o_ks : list (bytes * N);
                      o_written : wstore; o_pend : list (bytes * bytes * N);
                      o_newproc : bool (* a new process has begun since the last Rename *) }.

Definition has (g : bytes -> option N) (n : bytes) (id : N) : bool :=
  match g n with Some x => x =? id | None => false end.

Definition drop_written (old : bytes) (w : wstore) : wstore :=
  mkWst (filter (fun e => negb (lex_eqb old (snd e))) (w_docs w)) (w_recs w).

(* a Rename moves the ID: what was known for the old name is from now on expected of the new one *)
Definition move (old new : bytes) (known : list (bytes * N)) : list (bytes * N) :=
  match lookup old known with
  | Some id => (new, id) :: forget new (forget old known)
  | None => forget old known
  end.

Fixpoint resolve (g : bytes -> option N) (pend : list (bytes * bytes * N))
         (kq ks : list (bytes * N)) (w : wstore) : bool * list (bytes * N) * list (bytes * N) * wstore :=
  match pend with
  | [] => (true, kq, ks, w)
  | (old, new, id) :: r =>
      if has g new id && negb (has g old id) then resolve g r (move old new kq) (move old new ks) (drop_written old w)
      else if has g old id && negb (has g new id) then resolve g r kq ks w
      else (false, kq, ks, w)
  end.

Definition touches (a b : bytes) (e : bytes * bytes * N) : bool :=
  let '(o, n, _) := e in lex_eqb a o || lex_eqb a n || lex_eqb b o || lex_eqb b n.

Fixpoint satisfies_from (o : ost) (t : list step) : bool :=
  match t with
  | [] => true
  | TStart retry qn cn sn docs f _ code d qids sids recs :: rest =>
      if code =? 99 then false   (* the start panicked *)
      else if code =? 0 then
        let gq := fun n => lookup_o n qids in
        let gc := fun n => lookup n (d_c d) in
        let gs := fun n => lookup_o n sids in
        (* only a process begun after the Rename reads the storage afresh: an in-process retry of an
           older process may answer from objects loaded before the Rename *)
        let fresh := negb retry || o_newproc o in
        let '(rok, kq, ks, written) := if fresh then resolve gq (o_pend o) (o_kq o) (o_ks o) (o_written o)
                                       else (true, o_kq o, o_ks o, o_written o) in
        rok &&
        reg_ok reg_qname_sys_last reg_qname_max kq gq qn &&
        reg_ok reg_cont_sys_last reg_cont_max (o_kc o) gc cn &&
        reg_ok (reg_first_singleton - 1) reg_max_singleton ks gs sn &&
        (let '(ok, written') := recs_ok qn cn written recs in
         ok && satisfies_from (mkOst (learn kq gq (dedup qn)) (learn (o_kc o) gc (dedup cn))
                                     (learn ks gs (dedup sn)) written' (if fresh then [] else o_pend o) fresh) rest)
      else satisfies_from (mkOst (o_kq o) (o_kc o) (o_ks o) (o_written o) (o_pend o) (negb retry || o_newproc o)) rest
  | TRename old new f _ code d :: rest =>
      let pend := filter (fun e => negb (touches old new e)) (o_pend o) in
      if code =? 99 then false   (* the Rename panicked *)
      else if code =? 0 then
        satisfies_from (mkOst (move old new (o_kq o)) (o_kc o) (move old new (o_ks o)) (drop_written old (o_written o)) pend false) rest
      else if code =? 1 then
        match lookup old (o_kq o) with
        | Some id => satisfies_from (mkOst (o_kq o) (o_kc o) (o_ks o) (o_written o) ((old, new, id) :: pend) false) rest
        | None => satisfies_from (mkOst (o_kq o) (o_kc o) (o_ks o) (o_written o) pend false) rest
        end
      else satisfies_from o rest
  end.

Definition satisfies (t : trace) : bool := satisfies_from (mkOst [] [] [] (mkWst [] []) [] true) (t_steps t).
