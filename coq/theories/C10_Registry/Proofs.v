(* C10 - proofs about the registry model: invariants of load / collect / store / rename for an
   arbitrary registry configuration (with the volatile registry object that survives a failed
   Prepare inside one process), then the three-registry application with in-process retries. *)
From Coq Require Import List NArith Bool Lia.
From V Require Import Lib.Lex Lib.SMap Lib.Check Gen.Params C10_Registry.Model.
Import ListNotations.
Local Open Scope N_scope.

Definition bytes_eq_dec : forall a b : bytes, {a = b} + {a <> b} := list_eq_dec N.eq_dec.

(* ---------- small facts on sorted maps ---------- *)

Lemma sm_get_None_keys (m : rows) n : sorted m -> sm_get n m = None -> ~ In n (map fst m).
Proof.
  intros Hs Hg Hin. apply in_map_iff in Hin. destruct Hin as [[k v] [Hk Hin]]. cbn in Hk; subst k.
  apply (sm_get_In n v m Hs) in Hin. congruence.
Qed.

Lemma sm_get_put (m : rows) n k v :
  sm_get n (sm_put k v m) = if bytes_eq_dec n k then Some v else sm_get n m.
Proof.
  destruct (bytes_eq_dec n k) as [->|Hne]; [apply sm_get_put_same | apply sm_get_put_other; exact Hne].
Qed.

(* ---------- invariants ---------- *)

(* stored rows: strictly sorted by name; every live ID lies strictly between the reserved range
   and the limit; no two names share a live ID *)
Definition rows_ok (c : rcfg) (rs : rows) : Prop :=
  sorted rs /\
  (forall n id, sm_get n rs = Some id -> skip c id = false -> c_sys_last c < id < c_max c) /\
  (forall n1 n2 id, sm_get n1 rs = Some id -> sm_get n2 rs = Some id -> skip c id = false -> n1 = n2).

(* in-memory registry: every name's ID is above the reserved range, at most lastID, and the
   ID->name map leads back to the name (hence the name->ID map is injective); no ID above lastID
   is in use; lastID is below the limit *)
Definition mem_ok (c : rcfg) (m : mem) : Prop :=
  sorted (m_names m) /\
  (forall n id, sm_get n (m_names m) = Some id -> c_sys_last c < id <= m_last m /\ id_name (m_ids m) id = Some n) /\
  (forall i n, In (i, n) (m_ids m) -> i <= m_last m) /\
  c_sys_last c <= m_last m < c_max c.

Lemma mem_ok_injective c m n1 n2 id :
  mem_ok c m -> sm_get n1 (m_names m) = Some id -> sm_get n2 (m_names m) = Some id -> n1 = n2.
Proof.
  intros (_ & He & _) H1 H2. apply He in H1. apply He in H2. destruct H1 as [_ H1], H2 as [_ H2]. congruence.
Qed.

Section Registry.
Variable c : rcfg.
Hypothesis Hwf : c_sys_last c < c_max c.
(* the code as pinned: a row carrying the deleted mark is skipped on load *)
Hypothesis Hskipdel : c_skipdel c = true.

Lemma mem0_ok : mem_ok c (mem0 c).
Proof.
  unfold mem_ok, mem0; cbn. split; [constructor|split; [discriminate|split; [contradiction|lia]]].
Qed.

Lemma skip_in_range id : c_sys_last c < id -> skip c id = false.
Proof.
  intros H. unfold skip. destruct (c_tomb c); cbn; auto. apply N.eqb_neq. lia.
Qed.

(* ---------- load ---------- *)

Lemma add_ok m n id :
  mem_ok c m -> c_sys_last c < id < c_max c ->
  sm_get n (m_names m) = None -> id_name (m_ids m) id = None ->
  mem_ok c (add m n id).
Proof.
  intros (Hs & He & Hi & Hl) Hr Hn Hid. unfold mem_ok, add; cbn. split; [|split; [|split]].
  - apply sm_put_sorted; exact Hs.
  - intros n0 id0 H. rewrite sm_get_put in H. destruct (bytes_eq_dec n0 n) as [->|Hne].
    + inversion H; subst. rewrite N.eqb_refl. split; [lia|reflexivity].
    + apply He in H. destruct H as [Hb H]. split; [lia|]. destruct (id =? id0) eqn:E; [|exact H].
      apply N.eqb_eq in E; subst. congruence.
  - intros i n0 [H|H]; [inversion H; subst; lia | apply Hi in H; lia].
  - lia.
Qed.

Lemma add_same_ok m n id :
  mem_ok c m -> sm_get n (m_names m) = Some id -> mem_ok c (add m n id).
Proof.
  intros (Hs & He & Hi & Hl) Hg. destruct (He n id Hg) as [Hb Hn]. unfold mem_ok, add; cbn. split; [|split; [|split]].
  - apply sm_put_sorted; exact Hs.
  - intros n0 id0 H. rewrite sm_get_put in H. destruct (bytes_eq_dec n0 n) as [->|Hne].
    + inversion H; subst. rewrite N.eqb_refl. split; [lia|reflexivity].
    + destruct (He n0 id0 H) as [Hb0 Hn0]. split; [lia|]. destruct (id =? id0) eqn:E; [|exact Hn0].
      apply N.eqb_eq in E; subst. congruence.
  - intros i n0 [H|H]; [inversion H; subst; lia | apply Hi in H; lia].
  - lia.
Qed.

(* the registry object and the stored rows do not contradict each other: a stored live row is
   either already in the object with the same ID, or neither its name nor its ID is *)
Definition compat (rs : rows) (m : mem) : Prop :=
  forall n id, sm_get n rs = Some id -> skip c id = false ->
    sm_get n (m_names m) = Some id \/ (sm_get n (m_names m) = None /\ id_name (m_ids m) id = None).

Lemma load_rows_spec rs : forall m,
  NoDup (map fst rs) ->
  (forall n id, In (n, id) rs -> skip c id = false -> c_sys_last c < id < c_max c) ->
  (forall n1 n2 id, In (n1, id) rs -> In (n2, id) rs -> skip c id = false -> n1 = n2) ->
  mem_ok c m ->
  (forall n id, In (n, id) rs -> skip c id = false ->
     sm_get n (m_names m) = Some id \/ (sm_get n (m_names m) = None /\ id_name (m_ids m) id = None)) ->
  exists m', load_rows c rs m = (m', true) /\ mem_ok c m' /\
    (forall n id, sm_get n (m_names m') = Some id <->
                  (sm_get n (m_names m) = Some id \/ (In (n, id) rs /\ skip c id = false))).
Proof.
  induction rs as [|[n id] r IH]; intros m Hnd Hrange Hinj Hok Hcomp.
  - exists m. split; [reflexivity|split; [exact Hok|]]. intros n id; split; [auto | intros [H|[[] _]]; exact H].
  - inversion Hnd as [|? ? Hnotin Hnd']; subst. cbn [load_rows].
    assert (Hrange' : forall n0 id0, In (n0, id0) r -> skip c id0 = false -> c_sys_last c < id0 < c_max c)
      by (intros n0 id0 Hin; apply (Hrange n0 id0); right; exact Hin).
    assert (Hinj' : forall n1 n2 id0, In (n1, id0) r -> In (n2, id0) r -> skip c id0 = false -> n1 = n2)
      by (intros n1 n2 id0 H1 H2; apply (Hinj n1 n2 id0); right; assumption).
    destruct (skip c id) eqn:Esk.
    + rewrite Hskipdel. destruct (IH m) as (m' & Hl & Hok' & Hiff); auto.
      * intros n0 id0 Hin; apply (Hcomp n0 id0); right; exact Hin.
      * exists m'. split; [exact Hl|split; [exact Hok'|]]. intros n0 id0; split.
        -- intros H. apply Hiff in H. destruct H as [H|[H1 H2]]; [left; exact H | right; split; [right; exact H1|exact H2]].
        -- intros [H|[[H|H] H2]]; apply Hiff; [left; exact H | inversion H; subst; congruence | right; split; assumption].
    + assert (Hr : c_sys_last c < id < c_max c) by (apply (Hrange n id); [left; reflexivity | exact Esk]).
      replace (c_tomb c && (id <=? c_sys_last c)) with false
        by (symmetry; apply andb_false_iff; right; apply N.leb_gt; lia).
      assert (Hhead := Hcomp n id (or_introl eq_refl) Esk).
      assert (Hok1 : mem_ok c (add m n id)).
      { destruct Hhead as [Hsame|[Hn Hi]]; [apply add_same_ok; auto | apply add_ok; auto]. }
      assert (Hne_r : forall n0 id0, In (n0, id0) r -> n0 <> n).
      { intros n0 id0 Hin ->. apply Hnotin. apply in_map_iff. exists (n, id0). split; auto. }
      destruct (IH (add m n id)) as (m' & Hl & Hok' & Hiff); auto.
      * intros n0 id0 Hin Hsk0. cbn. rewrite sm_get_put.
        destruct (bytes_eq_dec n0 n) as [->|Hne]; [exfalso; eapply Hne_r; eauto|].
        destruct (Hcomp n0 id0 (or_intror Hin) Hsk0) as [Hs0|[Hn0 Hi0]]; [left; exact Hs0|right].
        split; [exact Hn0|]. destruct (id =? id0) eqn:E; [|exact Hi0].
        apply N.eqb_eq in E; subst id0. exfalso. apply Hne.
        apply (Hinj n0 n id); [right; exact Hin | left; reflexivity | exact Esk].
      * exists m'. split; [exact Hl|split; [exact Hok'|]]. intros n0 id0; split.
        -- intros H. apply Hiff in H. cbn in H. rewrite sm_get_put in H. destruct H as [H|[H1 H2]].
           ++ destruct (bytes_eq_dec n0 n) as [->|Hne]; [inversion H; subst; right; split; [left; reflexivity|exact Esk] | left; exact H].
           ++ right; split; [right; exact H1|exact H2].
        -- intros H. apply Hiff. cbn. rewrite sm_get_put. destruct H as [H|[[H|H] H2]].
           ++ left. destruct (bytes_eq_dec n0 n) as [->|Hne]; [|exact H].
              destruct Hhead as [Hsame|[Hn _]]; congruence.
           ++ inversion H; subst. left. destruct (bytes_eq_dec n0 n0); [reflexivity|contradiction].
           ++ right; split; assumption.
Qed.

(* ---------- collect ---------- *)

Lemma id_name_above ids last id :
  (forall i n, In (i, n) ids -> i <= last) -> last < id -> id_name ids id = None.
Proof.
  induction ids as [|[i n] r IH]; intros Hb Hlt; cbn; auto.
  destruct (i =? id) eqn:E.
  - apply N.eqb_eq in E; subst. specialize (Hb id n (or_introl eq_refl)). lia.
  - apply IH; auto. intros; eapply Hb; right; eauto.
Qed.

(* the `continue` branch of the allocation loop is never taken: the first candidate is free *)
Lemma first_free_spec m k :
  mem_ok c m ->
  first_free (S k) (m_ids m) (m_last m + 1) (c_max c) =
  if c_max c <=? m_last m + 1 then None else Some (m_last m + 1).
Proof.
  intros (_ & _ & Hi & _). cbn. destruct (c_max c <=? m_last m + 1); auto.
  unfold has_id. rewrite (id_name_above _ (m_last m)); auto. lia.
Qed.

Definition extends (m m' : mem) : Prop :=
  forall n id, sm_get n (m_names m) = Some id -> sm_get n (m_names m') = Some id.

Lemma collect_spec s n :
  mem_ok c (cs_mem s) ->
  let s' := collect c s n in
  mem_ok c (cs_mem s') /\ extends (cs_mem s) (cs_mem s') /\
  (cs_err s = true -> cs_err s' = true) /\
  (cs_err s' = false -> exists id, sm_get n (m_names (cs_mem s')) = Some id) /\
  (cs_changed s' = false -> cs_mem s' = cs_mem s /\ cs_changed s = false) /\
  m_last (cs_mem s) <= m_last (cs_mem s') <= m_last (cs_mem s) + 1.
Proof.
  intros Hok. unfold collect. destruct (sm_get n (m_names (cs_mem s))) as [id|] eqn:Eg; cbn zeta.
  - split; [exact Hok|]. split; [red; auto|]. split; [auto|]. split; [intros _; exists id; exact Eg|].
    split; [auto|lia].
  - rewrite first_free_spec by exact Hok. destruct (c_max c <=? m_last (cs_mem s) + 1) eqn:El; cbn.
    + split; [exact Hok|]. split; [red; auto|]. split; [auto|]. split; [discriminate|]. split; [auto|lia].
    + apply N.leb_gt in El. destruct Hok as (Hs & He & Hi & Hl).
      split; [|split; [|split; [auto|split; [|split; [discriminate|lia]]]]].
      * unfold mem_ok; cbn. split; [|split; [|split]].
        -- apply sm_put_sorted; exact Hs.
        -- intros n0 id0 H. rewrite sm_get_put in H. destruct (bytes_eq_dec n0 n) as [->|Hne].
           ++ inversion H; subst. rewrite N.eqb_refl. split; [lia|reflexivity].
           ++ apply He in H. destruct H as [Hb H]. split; [lia|].
              replace (m_last (cs_mem s) + 1 =? id0) with false; [exact H|]. symmetry. apply N.eqb_neq. lia.
        -- intros i n0 [H|H]; [inversion H; subst; lia | apply Hi in H; lia].
        -- lia.
      * intros n0 id0 H. cbn. rewrite sm_get_put. destruct (bytes_eq_dec n0 n) as [->|Hne]; [congruence|exact H].
      * intros _. exists (m_last (cs_mem s) + 1). cbn. apply sm_get_put_same.
Qed.

Lemma collect_all_spec names : forall s,
  mem_ok c (cs_mem s) ->
  let s' := fold_left (collect c) names s in
  mem_ok c (cs_mem s') /\ extends (cs_mem s) (cs_mem s') /\
  (cs_err s = true -> cs_err s' = true) /\
  (cs_err s' = false -> forall n, In n names -> exists id, sm_get n (m_names (cs_mem s')) = Some id) /\
  (cs_changed s' = false -> cs_mem s' = cs_mem s /\ cs_changed s = false) /\
  m_last (cs_mem s') <= m_last (cs_mem s) + N.of_nat (length names).
Proof.
  induction names as [|n r IH]; intros s Hok; cbn [fold_left].
  - cbn. split; [exact Hok|]. split; [red; auto|]. split; [auto|]. split; [intros _ ? []|]. split; [auto|lia].
  - destruct (collect_spec s n Hok) as (Hok1 & Hext1 & Herr1 & Hb1 & Hch1 & Hl1).
    destruct (IH (collect c s n) Hok1) as (Hok2 & Hext2 & Herr2 & Hb2 & Hch2 & Hl2).
    cbn zeta in *. split; [exact Hok2|]. split; [|split; [auto|split; [|split]]].
    + red; intros; apply Hext2, Hext1; assumption.
    + intros Hne n0 [<-|Hin]; [|apply Hb2; auto].
      destruct (cs_err (collect c s n)) eqn:Ee; [rewrite Herr2 in Hne by reflexivity; discriminate|].
      destruct (Hb1 eq_refl) as [id Hid]. exists id. apply Hext2. exact Hid.
    + intros Hc. destruct (Hch2 Hc) as [Em Ec]. destruct (Hch1 Ec) as [Em1 Ec1]. split; congruence.
    + cbn [length]. lia.
Qed.

(* ---------- store ---------- *)

Lemma put_all_sorted es : forall rs, sorted rs -> sorted (put_all c es rs).
Proof.
  induction es as [|[n id] r IH]; intros rs Hs; cbn; auto.
  apply IH. destruct (keep c id); auto. apply sm_put_sorted; exact Hs.
Qed.

Lemma put_all_get es : forall rs,
  NoDup (map fst es) -> (forall n id, In (n, id) es -> keep c id = true) ->
  (forall n id, In (n, id) es -> sm_get n (put_all c es rs) = Some id) /\
  (forall n, ~ In n (map fst es) -> sm_get n (put_all c es rs) = sm_get n rs).
Proof.
  induction es as [|[k v] r IH]; intros rs Hnd Hk; cbn [put_all].
  - split; [intros ? ? []|reflexivity].
  - inversion Hnd as [|? ? Hnotin Hnd']; subst.
    rewrite (Hk k v) by (left; reflexivity).
    destruct (IH (sm_put k v rs) Hnd') as [H1 H2]; [intros; eapply Hk; right; eauto|].
    split.
    + intros n id [H|H]; [|apply H1; exact H]. inversion H; subst.
      rewrite H2 by exact Hnotin. apply sm_get_put_same.
    + intros n Hn. cbn in Hn. rewrite H2 by tauto. apply sm_get_put_other. intros ->. apply Hn. left; reflexivity.
Qed.

Lemma keep_mem_ok m n id : mem_ok c m -> In (n, id) (m_names m) -> keep c id = true.
Proof.
  intros (Hs & He & _) Hin. apply (sm_get_In n id _ Hs) in Hin. apply He in Hin.
  unfold keep. apply orb_true_iff. left. apply N.ltb_lt. lia.
Qed.

(* the rows after store(): the in-memory entries overwrite, everything else stays *)
Lemma store_rows_get m rs n :
  mem_ok c m -> sorted rs ->
  sm_get n (put_all c (m_names m) rs) =
  match sm_get n (m_names m) with Some id => Some id | None => sm_get n rs end.
Proof.
  intros Hok Hsr. pose proof Hok as (Hs & _).
  destruct (put_all_get (m_names m) rs) as [H1 H2].
  - apply (sorted_NoDup_keys _ Hs).
  - intros; eapply keep_mem_ok; eauto.
  - destruct (sm_get n (m_names m)) as [id|] eqn:Eg.
    + apply H1. apply sm_get_In; auto.
    + apply H2. apply sm_get_None_keys; auto.
Qed.

Definition absorbed (rs : rows) (m : mem) : Prop :=
  forall n id, sm_get n rs = Some id -> skip c id = false -> exists id', sm_get n (m_names m) = Some id'.

Lemma store_rows_ok m rs :
  mem_ok c m -> sorted rs -> absorbed rs m -> rows_ok c (put_all c (m_names m) rs).
Proof.
  intros Hok Hsr Habs. pose proof Hok as (Hs & He & Hi & Hl).
  assert (Hfrom : forall n id, sm_get n (put_all c (m_names m) rs) = Some id -> skip c id = false ->
                               sm_get n (m_names m) = Some id).
  { intros n id H Hsk. rewrite store_rows_get in H by auto.
    destruct (sm_get n (m_names m)) as [id'|] eqn:Eg; [exact H|].
    destruct (Habs n id H Hsk) as [id' Hid']. congruence. }
  repeat split.
  - apply put_all_sorted; exact Hsr.
  - apply Hfrom in H; auto. apply He in H. lia.
  - apply Hfrom in H; auto. apply He in H. lia.
  - intros n1 n2 id H1 H2 Hsk. eapply mem_ok_injective; eauto.
Qed.

Lemma collect_room s n :
  mem_ok c (cs_mem s) -> m_last (cs_mem s) + 1 < c_max c -> cs_err (collect c s n) = cs_err s.
Proof.
  intros Hok Hroom. unfold collect. destruct (sm_get n (m_names (cs_mem s))); auto.
  rewrite first_free_spec by exact Hok.
  replace (c_max c <=? m_last (cs_mem s) + 1) with false by (symmetry; apply N.leb_gt; lia). reflexivity.
Qed.

Lemma collect_all_room names : forall s,
  mem_ok c (cs_mem s) -> m_last (cs_mem s) + N.of_nat (length names) < c_max c ->
  cs_err (fold_left (collect c) names s) = cs_err s.
Proof.
  induction names as [|n r IH]; intros s Hok Hroom; cbn [fold_left]; auto.
  destruct (collect_spec s n Hok) as (Hok1 & _ & _ & _ & _ & Hl1). cbn zeta in *. cbn [length] in Hroom.
  rewrite IH; auto; [apply collect_room; auto; lia | lia].
Qed.

(* ---------- prepare, on the registry object of the process ---------- *)

(* the code as pinned: rows are read whether or not the version row exists (F20 repaired), and the
   pending-changes counter is cleared only by a store() whose two writes went through *)
Hypothesis Hread : c_needver c = false.
Hypothesis Hlate : c_late c = true.

Definition loaded (rs : rows) (m : mem) : Prop :=
  forall n id, sm_get n rs = Some id -> skip c id = false -> sm_get n (m_names m) = Some id.

Definition persisted (rs : rows) (m : mem) : Prop :=
  forall n id, sm_get n (m_names m) = Some id -> sm_get n rs = Some id.

(* the invariant tying the volatile registry object to the stored rows: well-formed, compatible,
   and - the point of the changes counter - everything in it is stored unless changes are pending *)
Definition vol_ok (p : pers) (v : vol) : Prop :=
  mem_ok c (v_mem v) /\ compat (p_rows p) (v_mem v) /\
  (v_changed v = false -> persisted (p_rows p) (v_mem v)).

Lemma loaded_compat rs m : loaded rs m -> compat rs m.
Proof. intros H n id Hg Hsk. left. apply H; assumption. Qed.

Lemma vol0_ok p : vol_ok p (vol0 c).
Proof.
  split; [apply mem0_ok|split].
  - intros n id _ _. right. split; reflexivity.
  - intros _ n id H. cbn in H. discriminate.
Qed.

Lemma reads_le1 ver : ver <= 1 -> reads c ver = true.
Proof.
  intros H. unfold reads. rewrite Hread. cbn. destruct (ver =? 1) eqn:E1; auto. apply N.eqb_neq in E1.
  replace (ver =? 0) with true; [reflexivity|]. symmetry. apply N.eqb_eq. lia.
Qed.

Lemma load_vol_spec rs m :
  rows_ok c rs -> mem_ok c m -> compat rs m ->
  exists m1, load_rows c rs m = (m1, true) /\ mem_ok c m1 /\ loaded rs m1 /\ extends m m1 /\
             (persisted rs m -> persisted rs m1) /\
             (forall n id, sm_get n (m_names m1) = Some id ->
                sm_get n (m_names m) = Some id \/ (sm_get n rs = Some id /\ skip c id = false)).
Proof.
  intros (Hs & Hr & Hi) Hok Hcomp.
  destruct (load_rows_spec rs m) as (m1 & Hl & Hok1 & Hiff).
  - apply (sorted_NoDup_keys _ Hs).
  - intros n id Hin. apply Hr with n. apply sm_get_In; auto.
  - intros n1 n2 id H1 H2. apply Hi; apply sm_get_In; auto.
  - exact Hok.
  - intros n id Hin. apply Hcomp. apply sm_get_In; auto.
  - exists m1. split; [exact Hl|split; [exact Hok1|split; [|split; [|split]]]].
    + intros n id Hg Hsk. apply Hiff. right. split; [apply sm_get_In; auto|exact Hsk].
    + intros n id Hg. apply Hiff. left. exact Hg.
    + intros Hp n id Hg. apply Hiff in Hg. destruct Hg as [Hg|[Hin _]]; [apply Hp; exact Hg|apply sm_get_In; auto].
    + intros n id Hg. apply Hiff in Hg. destruct Hg as [Hg|[Hin Hsk]]; [left; exact Hg|right; split; [apply sm_get_In; auto|exact Hsk]].
Qed.

Lemma store_rows_from m rs n id :
  mem_ok c m -> sorted rs -> absorbed rs m ->
  sm_get n (put_all c (m_names m) rs) = Some id -> skip c id = false -> sm_get n (m_names m) = Some id.
Proof.
  intros Hok Hsr Habs H Hsk. rewrite store_rows_get in H by auto.
  destruct (sm_get n (m_names m)) as [id'|] eqn:Eg; [exact H|].
  destruct (Habs n id H Hsk) as [id' Hid']. congruence.
Qed.

Lemma loaded_absorbed rs m : loaded rs m -> absorbed rs m.
Proof. intros H n id Hg Hsk. exists id. apply H; assumption. Qed.

(* everything Prepare guarantees, whatever its outcome *)
Definition prep_post (p : pers) (names : list bytes) (p' : pers) (v' : vol) (r : rres) : Prop :=
  rows_ok c (p_rows p') /\ vol_ok p' v' /\
  (forall n id, sm_get n (p_rows p) = Some id -> skip c id = false -> sm_get n (p_rows p') = Some id) /\
  (p_ver p' = p_ver p \/ p_ver p' = 1) /\
  (forall m, r = ROk m ->
     m = v_mem v' /\ v_changed v' = false /\ loaded (p_rows p') m /\
     (forall n, In n names -> exists id, sm_get n (m_names m) = Some id)) /\
  (r = RErr 2 -> p' = p) /\
  (r = RErr 1 -> v_changed v' = true).

Lemma vol_ok_ver p m ch ver ver' : vol_ok p (mkVol m ch ver) -> vol_ok p (mkVol m ch ver').
Proof. intros H; exact H. Qed.

Theorem prepare_spec p v names f p' v' r :
  rows_ok c (p_rows p) -> vol_ok p v -> prepare c p v names f = (p', v', r) -> prep_post p names p' v' r.
Proof.
  intros Hrows (Hok & Hcomp & Hpers) E. unfold prepare in E.
  destruct (1 <? merged_ver p v) eqn:Ev.
  { inversion E; subst. split; [exact Hrows|]. split; [split; [exact Hok|split; [exact Hcomp|exact Hpers]]|].
    split; [auto|]. split; [auto|]. split; [discriminate|]. split; discriminate. }
  apply N.ltb_ge in Ev. rewrite (reads_le1 _ Ev) in E.
  destruct (load_vol_spec (p_rows p) (v_mem v) Hrows Hok Hcomp) as (m1 & Hl & Hok1 & Hld1 & Hext1 & Hp1 & Hfrom1).
  rewrite Hl in E. cbn [negb] in E. cbn iota in E.
  destruct (collect_all_spec names (mkCst m1 (v_changed v) false) Hok1) as (Hok2 & Hext2 & _ & Hall & Hch & _).
  fold (collect_all c m1 (v_changed v) names) in Hok2, Hext2, Hall, Hch. cbn [cs_mem cs_changed cs_err] in *.
  set (s := collect_all c m1 (v_changed v) names) in *.
  assert (Hld2 : loaded (p_rows p) (cs_mem s)) by (intros n id Hg Hsk; apply Hext2, Hld1; assumption).
  assert (Hpers2 : cs_changed s = false -> persisted (p_rows p) (cs_mem s)).
  { intros Hc. destruct (Hch Hc) as [Em Ec]. rewrite Em. apply Hp1. apply Hpers. exact Ec. }
  destruct (cs_err s) eqn:Ee.
  { inversion E; subst. split; [exact Hrows|]. split; [split; [exact Hok2|split; [apply loaded_compat; exact Hld2|exact Hpers2]]|].
    split; [auto|]. split; [auto|]. split; [discriminate|]. split; [reflexivity|discriminate]. }
  destruct (cs_changed s) eqn:Ec.
  2:{ inversion E; subst. split; [exact Hrows|].
      split; [split; [exact Hok2|split; [apply loaded_compat; exact Hld2|intros _; apply Hpers2; reflexivity]]|].
      split; [auto|]. split; [auto|]. split; [|split; discriminate].
      intros m Hm. inversion Hm; subst m. split; [reflexivity|]. split; [reflexivity|]. split; [exact Hld2|apply Hall; reflexivity]. }
  (* the store path *)
  pose proof Hrows as (Hsr & _).
  set (rs' := put_all c (m_names (cs_mem s)) (p_rows p)).
  assert (Hrows' : rows_ok c rs') by (apply store_rows_ok; auto; apply loaded_absorbed; exact Hld2).
  assert (Hld' : loaded rs' (cs_mem s)).
  { intros n id Hg Hsk. eapply store_rows_from; eauto. apply loaded_absorbed; exact Hld2. }
  assert (Hpers' : persisted rs' (cs_mem s)).
  { intros n id Hg. unfold rs'. rewrite store_rows_get by auto. rewrite Hg. reflexivity. }
  assert (Hstable' : forall n id, sm_get n (p_rows p) = Some id -> skip c id = false -> sm_get n rs' = Some id).
  { intros n id Hg Hsk. apply Hpers'. apply Hld2; assumption. }
  assert (Hbound : forall n, In n names -> exists id, sm_get n (m_names (cs_mem s)) = Some id) by (apply Hall; reflexivity).
  rewrite Hlate in E. unfold store in E. fold rs' in E.
  destruct f; cbn in E; destruct (merged_ver p v =? 1) eqn:E1; cbn in E; inversion E; subst; clear E; cbn [p_rows p_ver v_mem v_changed];
    (split; [first [exact Hrows'|exact Hrows]|]);
    (split; [split; [exact Hok2|split; [first [apply loaded_compat; exact Hld'|apply loaded_compat; exact Hld2]|
                                         first [intros _; exact Hpers'|discriminate]]]|]);
    (split; [first [exact Hstable'|auto]|]); (split; [auto|]);
    (split; [first [discriminate|intros m Hm; inversion Hm; subst m; split; [reflexivity|]; split; [reflexivity|]; split; [exact Hld'|exact Hbound]]|]);
    (split; [discriminate|first [reflexivity|discriminate]]).
Qed.

(* T (what the retry relies on): a store that failed leaves the changes pending *)
Theorem failed_store_keeps_changes p v names f p' v' :
  rows_ok c (p_rows p) -> vol_ok p v -> prepare c p v names f = (p', v', RErr 1) -> v_changed v' = true.
Proof. intros Hrows Hv E. apply (prepare_spec _ _ _ _ _ _ _ Hrows Hv E). reflexivity. Qed.

(* T (limit): running out of IDs is an error that stores nothing; with enough room it cannot happen *)
Theorem prepare_limit_keeps p v names f p' v' :
  rows_ok c (p_rows p) -> vol_ok p v -> prepare c p v names f = (p', v', RErr 2) -> p' = p.
Proof. intros Hrows Hv E. apply (prepare_spec _ _ _ _ _ _ _ Hrows Hv E). reflexivity. Qed.

Theorem prepare_room p v names f m1 :
  rows_ok c (p_rows p) -> vol_ok p v ->
  load_rows c (p_rows p) (v_mem v) = (m1, true) ->
  m_last m1 + N.of_nat (length names) < c_max c ->
  forall p' v', prepare c p v names f <> (p', v', RErr 2).
Proof.
  intros Hrows (Hok & Hcomp & _) Hl Hroom p' v' E. unfold prepare in E.
  destruct (1 <? merged_ver p v) eqn:Ev; [inversion E|]. apply N.ltb_ge in Ev. rewrite (reads_le1 _ Ev) in E.
  destruct (load_vol_spec (p_rows p) (v_mem v) Hrows Hok Hcomp) as (m1' & Hl' & Hok1 & _).
  rewrite Hl in Hl'; inversion Hl'; subst m1'. rewrite Hl in E. cbn [negb] in E. cbn iota in E.
  pose proof (collect_all_room names (mkCst m1 (v_changed v) false) Hok1 Hroom) as Hne. cbn in Hne.
  unfold collect_all in E. rewrite Hne in E.
  destruct (cs_changed _); [|inversion E].
  destruct (store c p _ _ f) as [[p1 ver1] []]; inversion E.
Qed.

(* ---------- rename ---------- *)

Hypothesis Htomb : c_tomb c = true.

(* the code as pinned: Rename writes its rows with the one PutBatch of store() *)
Hypothesis Hatomic : c_atomic c = true.

Lemma exec_atomic p es f :
  let ws := WBatch es :: (if p_ver p =? 1 then [] else [WVer]) in
  exec_writes c true f 1 ws p = (p, false) \/
  (p_rows (fst (exec_writes c true f 1 ws p)) = put_all c es (p_rows p) /\
   (p_ver (fst (exec_writes c true f 1 ws p)) = p_ver p \/ p_ver (fst (exec_writes c true f 1 ws p)) = 1)).
Proof.
  cbn zeta. destruct (p_ver p =? 1); destruct f as [| | |j|j]; cbn;
    repeat match goal with |- context [if ?b then _ else _] => destruct b; cbn end; auto.
Qed.

Lemma load0_spec rs :
  rows_ok c rs ->
  exists m, load_rows c rs (mem0 c) = (m, true) /\ mem_ok c m /\
    (forall n id, sm_get n (m_names m) = Some id <-> (sm_get n rs = Some id /\ skip c id = false)).
Proof.
  intros Hrows. destruct (load_vol_spec rs (mem0 c) Hrows mem0_ok) as (m & Hl & Hok & Hld & _ & _ & Hfrom).
  - intros n id _ _. right. split; reflexivity.
  - exists m. split; [exact Hl|split; [exact Hok|]]. intros n id; split.
    + intros H. destruct (Hfrom n id H) as [H0|H0]; [cbn in H0; discriminate|exact H0].
    + intros [H1 H2]. apply Hld; assumption.
Qed.

Lemma rename_cases p old new f :
  rows_ok c (p_rows p) ->
  (fst (rename c p old new f) = p /\ snd (rename c p old new f) <> 0) \/
  (exists id, old <> new /\
     sm_get old (p_rows p) = Some id /\ skip c id = false /\
     (forall i, sm_get new (p_rows p) = Some i -> skip c i = true) /\
     (forall n, sm_get n (p_rows (fst (rename c p old new f))) =
                if bytes_eq_dec n new then Some id else if bytes_eq_dec n old then Some 0 else sm_get n (p_rows p)) /\
     sorted (p_rows (fst (rename c p old new f))) /\
     (p_ver (fst (rename c p old new f)) = p_ver p \/ p_ver (fst (rename c p old new f)) = 1)).
Proof.
  intros Hrows. unfold rename. destruct (lex_eqb old new) eqn:Eon; [left; split; [reflexivity|discriminate]|].
  apply lex_eqb_neq in Eon.
  destruct (1 <? p_ver p) eqn:Ev; [left; split; [reflexivity|discriminate]|].
  apply N.ltb_ge in Ev. rewrite (reads_le1 _ Ev).
  destruct (load0_spec (p_rows p) Hrows) as (m & Hl & Hok & Hread0). rewrite Hl. cbn [negb]. cbn iota.
  destruct (sm_get old (m_names m)) as [id|] eqn:Eo; [|left; split; [reflexivity|discriminate]].
  destruct (sm_get new (m_names m)) eqn:En; [left; split; [reflexivity|discriminate]|].
  rewrite Hatomic.
  pose proof (exec_atomic p (sm_put new id (sm_put old 0 (m_names m))) f) as Hsf. cbn zeta in Hsf.
  destruct (exec_writes c true f 1 _ p) as [p1 ok]. cbn [fst snd] in *.
  destruct Hsf as [Ef|[Ef Hver]]; [left; inversion Ef; subst; split; [reflexivity|discriminate]|right].
  apply Hread0 in Eo. destruct Eo as [Eo Hsk].
  exists id. split; [exact Eon|]. split; [exact Eo|]. split; [exact Hsk|].
  split.
  { intros i Hi. destruct (skip c i) eqn:Ei; auto.
    assert (sm_get new (m_names m) = Some i) by (apply Hread0; split; assumption). congruence. }
  pose proof Hok as (Hs & He & _). destruct Hrows as (Hsr & _).
  assert (Hs' : sorted (sm_put new id (sm_put old 0 (m_names m)))) by (repeat apply sm_put_sorted; exact Hs).
  assert (Hold_m : sm_get old (m_names m) = Some id) by (apply Hread0; split; assumption).
  split; [|split; [rewrite Ef; apply put_all_sorted; exact Hsr | exact Hver]].
  intros n. rewrite Ef.
  destruct (put_all_get (sm_put new id (sm_put old 0 (m_names m))) (p_rows p)) as [H1 H2].
  - apply (sorted_NoDup_keys _ Hs').
  - intros k v Hin. apply (sm_get_In k v _ Hs') in Hin. rewrite !sm_get_put in Hin.
    destruct (bytes_eq_dec k new); [inversion Hin; subst; unfold keep; apply orb_true_iff; left; apply N.ltb_lt; apply He in Hold_m; lia|].
    destruct (bytes_eq_dec k old); [inversion Hin; subst; unfold keep, skip; rewrite Htomb; cbn; apply orb_true_r|].
    unfold keep; apply orb_true_iff; left; apply N.ltb_lt; apply He in Hin; lia.
  - destruct (sm_get n (sm_put new id (sm_put old 0 (m_names m)))) as [v|] eqn:Eg.
    + rewrite (H1 n v) by (apply sm_get_In; auto). rewrite !sm_get_put in Eg.
      destruct (bytes_eq_dec n new); [symmetry; exact Eg|]. destruct (bytes_eq_dec n old); [symmetry; exact Eg|].
      symmetry. apply Hread0 in Eg. tauto.
    + rewrite H2 by (apply sm_get_None_keys; auto). rewrite !sm_get_put in Eg.
      destruct (bytes_eq_dec n new); [discriminate|]. destruct (bytes_eq_dec n old); [discriminate|]. reflexivity.
Qed.

Lemma skip0 : skip c 0 = true.
Proof. unfold skip. rewrite Htomb. reflexivity. Qed.

(* T (invariant): Rename keeps the stored rows well-formed *)
Theorem rename_rows_ok p old new f :
  rows_ok c (p_rows p) -> rows_ok c (p_rows (fst (rename c p old new f))).
Proof.
  intros Hrows. destruct (rename_cases p old new f Hrows) as [[E _]|(id & Hne & Ho & Hsk & Hn & Hget & Hsorted & _)]; [rewrite E; exact Hrows|].
  destruct Hrows as (Hs & Hrange & Hinj).
  split; [exact Hsorted|split].
  - intros n i H Hski. rewrite Hget in H. destruct (bytes_eq_dec n new); [inversion H; subst; eapply Hrange; eauto|].
    destruct (bytes_eq_dec n old); [inversion H; subst; rewrite skip0 in Hski; discriminate|]. eapply Hrange; eauto.
  - intros n1 n2 i H1 H2 Hski. rewrite Hget in H1, H2.
    destruct (bytes_eq_dec n1 new) as [->|N1], (bytes_eq_dec n2 new) as [->|N2]; auto.
    + inversion H1; subst i. destruct (bytes_eq_dec n2 old) as [->|O2]; [inversion H2; subst; rewrite skip0 in Hski; discriminate|].
      exfalso. apply O2. eapply Hinj; eauto.
    + inversion H2; subst i. destruct (bytes_eq_dec n1 old) as [->|O1]; [inversion H1; subst; rewrite skip0 in Hski; discriminate|].
      exfalso. apply O1. eapply Hinj; eauto.
    + destruct (bytes_eq_dec n1 old); [inversion H1; subst; rewrite skip0 in Hski; discriminate|].
      destruct (bytes_eq_dec n2 old); [inversion H2; subst; rewrite skip0 in Hski; discriminate|].
      eapply Hinj; eauto.
Qed.

(* T (stable): Rename changes the ID of the renamed name only; the new name takes the ID over *)
Theorem rename_stable p old new f n id :
  rows_ok c (p_rows p) -> sm_get n (p_rows p) = Some id -> skip c id = false -> n <> old ->
  sm_get n (p_rows (fst (rename c p old new f))) = Some id.
Proof.
  intros Hrows Hg Hsk Hne. destruct (rename_cases p old new f Hrows) as [[E _]|(i & Hon & Ho & Hski & Hn & Hget & _)]; [rewrite E; exact Hg|].
  rewrite Hget. destruct (bytes_eq_dec n new) as [->|]; [|destruct (bytes_eq_dec n old); [contradiction|exact Hg]].
  exfalso. rewrite (Hn id Hg) in Hsk. discriminate.
Qed.

Theorem rename_moves_id p old new f :
  rows_ok c (p_rows p) -> snd (rename c p old new f) = 0 ->
  exists id, sm_get old (p_rows p) = Some id /\ skip c id = false /\
             sm_get new (p_rows (fst (rename c p old new f))) = Some id /\
             sm_get old (p_rows (fst (rename c p old new f))) = Some 0.
Proof.
  intros Hrows Hcode.
  destruct (rename_cases p old new f Hrows) as [[_ E]|(i & Hon & Ho & Hsk & Hn & Hget & _)]; [contradiction|].
  exists i. split; [exact Ho|split; [exact Hsk|]]. rewrite !Hget. split.
  - destruct (bytes_eq_dec new new); [reflexivity|contradiction].
  - destruct (bytes_eq_dec old new); [contradiction|]. destruct (bytes_eq_dec old old); [reflexivity|contradiction].
Qed.


(* T (all or nothing): whatever storage call of the Rename fails, or after whichever the process
   stops, the rows are either untouched or completely renamed *)
Theorem rename_all_or_nothing p old new f :
  rows_ok c (p_rows p) ->
  p_rows (fst (rename c p old new f)) = p_rows p \/
  (exists id, sm_get old (p_rows p) = Some id /\ skip c id = false /\
     forall n, sm_get n (p_rows (fst (rename c p old new f))) =
               if bytes_eq_dec n new then Some id else if bytes_eq_dec n old then Some 0 else sm_get n (p_rows p)).
Proof.
  intros Hrows. destruct (rename_cases p old new f Hrows) as [[E _]|(id & _ & Ho & Hsk & _ & Hget & _)].
  - left. rewrite E. reflexivity.
  - right. exists id. split; [exact Ho|split; [exact Hsk|exact Hget]].
Qed.

End Registry.

(* ---------- the application ---------- *)

Lemma cfg_q_wf : c_sys_last cfg_q < c_max cfg_q. Proof. vm_compute. reflexivity. Qed.
Lemma cfg_c_wf : c_sys_last cfg_c < c_max cfg_c. Proof. vm_compute. reflexivity. Qed.
Lemma cfg_s_wf : c_sys_last cfg_s < c_max cfg_s. Proof. vm_compute. reflexivity. Qed.
(* the shape of the Go code the proofs depend on (translator flags) *)
Lemma cfg_q_read : c_needver cfg_q = false. Proof. reflexivity. Qed.
Lemma cfg_c_read : c_needver cfg_c = false. Proof. reflexivity. Qed.
Lemma cfg_s_read : c_needver cfg_s = false. Proof. reflexivity. Qed.
Lemma cfg_q_late : c_late cfg_q = true. Proof. reflexivity. Qed.
Lemma cfg_c_late : c_late cfg_c = true. Proof. reflexivity. Qed.
Lemma cfg_s_late : c_late cfg_s = true. Proof. reflexivity. Qed.
Lemma cfg_q_atomic : c_atomic cfg_q = true. Proof. reflexivity. Qed.
Lemma cfg_q_skipdel : c_skipdel cfg_q = true. Proof. reflexivity. Qed.
Lemma cfg_c_skipdel : c_skipdel cfg_c = true. Proof. reflexivity. Qed.
Lemma cfg_s_skipdel : c_skipdel cfg_s = true. Proof. reflexivity. Qed.

Definition sys_ok (s : sys) : Prop :=
  rows_ok cfg_q (p_rows (s_q s)) /\ rows_ok cfg_c (p_rows (s_c s)) /\ rows_ok cfg_s (p_rows (s_s s)).

Definition vols_ok (s : sys) (pr : proc) : Prop :=
  vol_ok cfg_q (s_q s) (pr_q pr) /\ vol_ok cfg_c (s_c s) (pr_c pr) /\ vol_ok cfg_s (s_s s) (pr_s pr).

Lemma vols_ok_fresh s : vols_ok s proc0.
Proof. split; [|split]; apply vol0_ok; auto using cfg_q_wf, cfg_c_wf, cfg_s_wf. Qed.

(* registry selector: 0 qnames, 1 containers, 2 singletons *)
Definition cfg_of (r : N) : rcfg := if r =? 0 then cfg_q else if r =? 1 then cfg_c else cfg_s.
Definition sel (r : N) (s : sys) : pers := if r =? 0 then s_q s else if r =? 1 then s_c s else s_s s.
Definition mem_of (r : N) (mq mc ms : mem) : mem := if r =? 0 then mq else if r =? 1 then mc else ms.

(* what a successful start hands to the application, per registry: every schema name has an ID;
   no two names share one; each ID lies strictly between the reserved range and the limit, maps
   back to its name, and is stored; every stored live ID is returned *)
Definition lookup_ok (c : rcfg) (m : mem) (names : list bytes) (p' : pers) : Prop :=
  (forall n, In n names -> exists id, sm_get n (m_names m) = Some id) /\
  (forall n1 n2 id, sm_get n1 (m_names m) = Some id -> sm_get n2 (m_names m) = Some id -> n1 = n2) /\
  (forall n id, sm_get n (m_names m) = Some id ->
     c_sys_last c < id < c_max c /\ id_name (m_ids m) id = Some n /\ sm_get n (p_rows p') = Some id) /\
  (forall n id, sm_get n (p_rows p') = Some id -> skip c id = false -> sm_get n (m_names m) = Some id).

Lemma prepare_lookup_ok c p v names f p' v' m :
  c_sys_last c < c_max c -> c_skipdel c = true -> c_needver c = false -> c_late c = true ->
  rows_ok c (p_rows p) -> vol_ok c p v ->
  prepare c p v names f = (p', v', ROk m) -> lookup_ok c m names p'.
Proof.
  intros Hwf Hsd Hread Hlate Hrows Hv E.
  destruct (prepare_spec c Hwf Hsd Hread Hlate _ _ _ _ _ _ _ Hrows Hv E) as (_ & (Hok & _ & Hpers) & _ & _ & Hm & _).
  destruct (Hm m eq_refl) as (Em & Ech & Hld & Hall). subst m.
  split; [exact Hall|split; [|split; [|exact Hld]]].
  - intros n1 n2 id H1 H2. eapply mem_ok_injective; eauto.
  - intros n id Hg. destruct Hok as (_ & He & _ & Hl). destruct (He n id Hg) as [Hb Hn].
    split; [lia|split; [exact Hn|apply (Hpers Ech); exact Hg]].
Qed.

Lemma run_start_spec s pr qn cn sn f s' pr' o :
  sys_ok s -> vols_ok s pr -> run_start s pr qn cn sn f = ((s', pr'), o) ->
  sys_ok s' /\ vols_ok s' pr' /\
  (forall r n id, sm_get n (p_rows (sel r s)) = Some id -> skip (cfg_of r) id = false ->
                  sm_get n (p_rows (sel r s')) = Some id) /\
  (forall mq mc ms, o = SOk mq mc ms ->
     lookup_ok cfg_q mq qn (s_q s') /\ lookup_ok cfg_c mc cn (s_c s') /\ lookup_ok cfg_s ms sn (s_s s')).
Proof.
  intros (Hq & Hc & Hs) (Vq & Vc & Vs) E. unfold run_start in E. cbn zeta in E.
  destruct (prepare cfg_q (s_q s) (pr_q pr) qn (fault_at f 0 0)) as [[q' vq] rq] eqn:Eq.
  pose proof (prepare_spec cfg_q cfg_q_wf cfg_q_skipdel cfg_q_read cfg_q_late _ _ _ _ _ _ _ Hq Vq Eq) as (Rq & Wq & Sq & _).
  assert (Hstab : forall (q1 c1 s1 : pers),
            (forall n id, sm_get n (p_rows (s_q s)) = Some id -> skip cfg_q id = false -> sm_get n (p_rows q1) = Some id) ->
            (forall n id, sm_get n (p_rows (s_c s)) = Some id -> skip cfg_c id = false -> sm_get n (p_rows c1) = Some id) ->
            (forall n id, sm_get n (p_rows (s_s s)) = Some id -> skip cfg_s id = false -> sm_get n (p_rows s1) = Some id) ->
            forall r n id, sm_get n (p_rows (sel r s)) = Some id -> skip (cfg_of r) id = false ->
                           sm_get n (p_rows (sel r (mkSys q1 c1 s1))) = Some id).
  { intros q1 c1 s1 H0 H1 H2 r n id. unfold sel, cfg_of. cbn. destruct (r =? 0); [apply H0|]. destruct (r =? 1); [apply H1|apply H2]. }
  destruct rq as [mq|e].
  2:{ inversion E; subst. split; [split; [exact Rq|split; [exact Hc|exact Hs]]|]. split; [split; [exact Wq|split; [exact Vc|exact Vs]]|].
      split; [apply Hstab; auto|discriminate]. }
  destruct (prepare cfg_c (s_c s) (pr_c pr) cn (fault_at f 1 _)) as [[c' vc] rc] eqn:Ec.
  pose proof (prepare_spec cfg_c cfg_c_wf cfg_c_skipdel cfg_c_read cfg_c_late _ _ _ _ _ _ _ Hc Vc Ec) as (Rc & Wc & Sc & _).
  destruct rc as [mc|e].
  2:{ inversion E; subst. split; [split; [exact Rq|split; [exact Rc|exact Hs]]|]. split; [split; [exact Wq|split; [exact Wc|exact Vs]]|].
      split; [apply Hstab; auto|discriminate]. }
  destruct (prepare cfg_s (s_s s) (pr_s pr) sn (fault_at f 2 _)) as [[t' vs] rs] eqn:Es.
  pose proof (prepare_spec cfg_s cfg_s_wf cfg_s_skipdel cfg_s_read cfg_s_late _ _ _ _ _ _ _ Hs Vs Es) as (Rs & Ws & Ss & _).
  destruct rs as [ms|e].
  2:{ inversion E; subst. split; [split; [exact Rq|split; [exact Rc|exact Rs]]|]. split; [split; [exact Wq|split; [exact Wc|exact Ws]]|].
      split; [apply Hstab; auto|discriminate]. }
  inversion E; subst. split; [split; [exact Rq|split; [exact Rc|exact Rs]]|]. split; [split; [exact Wq|split; [exact Wc|exact Ws]]|].
  split; [apply Hstab; auto|]. intros mq' mc' ms' Ho. inversion Ho; subst. cbn.
  split; [|split].
  - exact (prepare_lookup_ok _ _ _ _ _ _ _ _ cfg_q_wf cfg_q_skipdel cfg_q_read cfg_q_late Hq Vq Eq).
  - exact (prepare_lookup_ok _ _ _ _ _ _ _ _ cfg_c_wf cfg_c_skipdel cfg_c_read cfg_c_late Hc Vc Ec).
  - exact (prepare_lookup_ok _ _ _ _ _ _ _ _ cfg_s_wf cfg_s_skipdel cfg_s_read cfg_s_late Hs Vs Es).
Qed.

(* ---------- histories ---------- *)

(* the one sequencing the theorems exclude: an in-process retry of a failed start after the
   storage was changed behind the process's back by a Rename (the registry objects are then
   stale); a Rename belongs to a running application or to a maintenance run between processes *)
Fixpoint hist_ok (renamed : bool) (l : list action) : Prop :=
  match l with
  | [] => True
  | AStart _ _ _ _ :: r => hist_ok false r
  | ARetry _ _ _ _ :: r => renamed = false /\ hist_ok renamed r
  | ARename _ _ _ :: r => hist_ok true r
  end.

Fixpoint flag_after (renamed : bool) (l : list action) : bool :=
  match l with
  | [] => renamed
  | AStart _ _ _ _ :: r => flag_after false r
  | ARetry _ _ _ _ :: r => flag_after renamed r
  | ARename _ _ _ :: r => flag_after true r
  end.

Lemma hist_ok_app l1 : forall b l2, hist_ok b (l1 ++ l2) <-> hist_ok b l1 /\ hist_ok (flag_after b l1) l2.
Proof.
  induction l1 as [|a r IH]; intros b l2; cbn; [tauto|].
  destruct a; rewrite ?IH; tauto.
Qed.

Lemma flag_after_app l1 : forall b l2, flag_after b (l1 ++ l2) = flag_after (flag_after b l1) l2.
Proof. induction l1 as [|a r IH]; intros b l2; cbn; auto. destruct a; apply IH. Qed.

Definition inv (renamed : bool) (st : state) : Prop :=
  sys_ok (fst st) /\ (renamed = false -> vols_ok (fst st) (snd st)).

Lemma inv_fresh s b : sys_ok s -> inv b (s, proc0).
Proof. intros H. split; [exact H|intros _; apply vols_ok_fresh]. Qed.

(* a step that runs AppConfigType.prepare: a new process, or a retry while not yet prepared *)
Inductive prepares : state -> action -> list bytes -> list bytes -> list bytes -> Prop :=
| P_start st qn cn sn f : prepares st (AStart qn cn sn f) qn cn sn
| P_retry st qn cn sn f : pr_ready (snd st) = false -> prepares st (ARetry qn cn sn f) qn cn sn.

Lemma prepares_step b st a qn cn sn :
  inv b st -> hist_ok b [a] -> prepares st a qn cn sn ->
  exists pr f, sys_step st a = run_start (fst st) pr qn cn sn f /\ vols_ok (fst st) pr.
Proof.
  intros (Hok & Hv) Hh Hp. destruct st as [s pr]. inversion Hp; subst; cbn in *.
  - exists proc0, f. split; [reflexivity|apply vols_ok_fresh].
  - exists pr, f. rewrite H. split; [reflexivity|]. apply Hv. tauto.
Qed.

Lemma sys_step_inv b st a : inv b st -> hist_ok b [a] -> inv (flag_after b [a]) (fst (sys_step st a)).
Proof.
  intros Hinv Hh. pose proof Hinv as (Hok & Hv). destruct st as [s pr]. destruct a as [qn cn sn f|qn cn sn f|old new f].
  - destruct (prepares_step b (s, pr) _ qn cn sn Hinv Hh (P_start _ _ _ _ _)) as (pr0 & f0 & E & Hv0).
    rewrite E. cbn [fst snd] in *. destruct (run_start s pr0 qn cn sn f0) as [[s' pr'] o] eqn:Er.
    destruct (run_start_spec _ _ _ _ _ _ _ _ _ Hok Hv0 Er) as (H1 & H2 & _). split; [exact H1|intros _; exact H2].
  - cbn in Hh. destruct Hh as [-> _]. cbn [flag_after]. destruct (pr_ready pr) eqn:Erdy.
    + cbn. rewrite Erdy. exact Hinv.
    + assert (Hh1 : hist_ok false [ARetry qn cn sn f]) by (cbn; auto).
      destruct (prepares_step false (s, pr) _ qn cn sn Hinv Hh1 (P_retry (s, pr) qn cn sn f Erdy)) as (pr0 & f0 & E & Hv0).
      rewrite E. cbn [fst snd] in *. destruct (run_start s pr0 qn cn sn f0) as [[s' pr'] o] eqn:Er.
      destruct (run_start_spec _ _ _ _ _ _ _ _ _ Hok Hv0 Er) as (H1 & H2 & _). split; [exact H1|intros _; exact H2].
  - cbn. destruct (rename cfg_q (s_q s) old new (rn_fault_for f)) as [q' code] eqn:Er. cbn.
    split; [|discriminate]. destruct Hok as (Hq & Hc & Hs). split; [|split; [exact Hc|exact Hs]]. cbn.
    replace q' with (fst (rename cfg_q (s_q s) old new (rn_fault_for f))) by (rewrite Er; reflexivity).
    apply rename_rows_ok; auto using cfg_q_wf, cfg_q_skipdel, cfg_q_read, cfg_q_atomic.
Qed.

Theorem sys_run_inv l : forall b st, inv b st -> hist_ok b l -> inv (flag_after b l) (sys_run st l).
Proof.
  induction l as [|a r IH]; intros b st Hinv Hh; cbn [sys_run fold_left flag_after]; [exact Hinv|].
  change (a :: r) with ([a] ++ r) in Hh. apply hist_ok_app in Hh. destruct Hh as [Ha Hr].
  pose proof (sys_step_inv b st a Hinv Ha) as Hinv'.
  specialize (IH _ _ Hinv' Hr). destruct a; exact IH.
Qed.

(* ---------- stability across histories ---------- *)

Definition never_renamed (n : bytes) (l : list action) : Prop := forall new f, ~ In (ARename n new f) l.

Lemma skip_cfg_of_range r id : c_sys_last (cfg_of r) < id -> skip (cfg_of r) id = false.
Proof.
  intros H. unfold skip. destruct (c_tomb (cfg_of r)); cbn; auto. apply N.eqb_neq. lia.
Qed.

Lemma sys_step_stable b st a r n id :
  inv b st -> hist_ok b [a] ->
  sm_get n (p_rows (sel r (fst st))) = Some id -> skip (cfg_of r) id = false ->
  (r = 0 -> forall new f, a <> ARename n new f) ->
  sm_get n (p_rows (sel r (fst (fst (sys_step st a))))) = Some id.
Proof.
  intros Hinv Hh Hg Hsk Hnr. pose proof Hinv as (Hok & Hv).
  assert (Hprep : forall qn cn sn, prepares st a qn cn sn -> sm_get n (p_rows (sel r (fst (fst (sys_step st a))))) = Some id).
  { intros qn cn sn Hp. destruct (prepares_step b st a qn cn sn Hinv Hh Hp) as (pr0 & f0 & E & Hv0).
    rewrite E. destruct (run_start (fst st) pr0 qn cn sn f0) as [[s' pr'] o] eqn:Er.
    destruct (run_start_spec _ _ _ _ _ _ _ _ _ Hok Hv0 Er) as (_ & _ & Hst & _). cbn. apply Hst; assumption. }
  destruct a as [qn cn sn f|qn cn sn f|old new f].
  - apply (Hprep qn cn sn). constructor.
  - destruct (pr_ready (snd st)) eqn:Erdy.
    + destruct st as [s pr]. cbn in *. rewrite Erdy. exact Hg.
    + apply (Hprep qn cn sn). constructor. exact Erdy.
  - destruct st as [s pr]. cbn in *. destruct (rename cfg_q (s_q s) old new (rn_fault_for f)) as [q' code] eqn:Er. cbn.
    unfold sel, cfg_of in *. cbn. destruct (r =? 0) eqn:E0; [|exact Hg].
    apply N.eqb_eq in E0.
    replace q' with (fst (rename cfg_q (s_q s) old new (rn_fault_for f))) by (rewrite Er; reflexivity).
    destruct Hok as (Hq & _). apply rename_stable; auto using cfg_q_wf, cfg_q_skipdel, cfg_q_read, cfg_q_atomic.
    intros ->. apply (Hnr E0 new f). reflexivity.
Qed.

Theorem sys_run_stable r l : forall b st n id,
  inv b st -> hist_ok b l ->
  sm_get n (p_rows (sel r (fst st))) = Some id -> skip (cfg_of r) id = false ->
  (r = 0 -> never_renamed n l) ->
  sm_get n (p_rows (sel r (fst (sys_run st l)))) = Some id.
Proof.
  induction l as [|a rest IH]; intros b st n id Hinv Hh Hg Hsk Hnr; cbn [sys_run fold_left]; [exact Hg|].
  change (a :: rest) with ([a] ++ rest) in Hh. apply hist_ok_app in Hh. destruct Hh as [Ha Hr].
  apply (IH (flag_after b [a])); auto.
  - apply sys_step_inv; assumption.
  - apply (sys_step_stable b); auto. intros E0 new f ->. apply (Hnr E0 new f). left; reflexivity.
  - intros E0 new f Hin. apply (Hnr E0 new f). right; exact Hin.
Qed.

(* T: what a successful preparing step hands to the application *)
Theorem start_lookup_ok b st a qn cn sn st' mq mc ms :
  inv b st -> hist_ok b [a] -> prepares st a qn cn sn ->
  sys_step st a = (st', SOk mq mc ms) ->
  lookup_ok cfg_q mq qn (s_q (fst st')) /\ lookup_ok cfg_c mc cn (s_c (fst st')) /\ lookup_ok cfg_s ms sn (s_s (fst st')).
Proof.
  intros Hinv Hh Hp E. pose proof Hinv as (Hok & _).
  destruct (prepares_step b st a qn cn sn Hinv Hh Hp) as (pr0 & f0 & E' & Hv0).
  rewrite E' in E. destruct st' as [s' pr'].
  destruct (run_start_spec _ _ _ _ _ _ _ _ _ Hok Hv0 E) as (_ & _ & _ & Hl). apply Hl. reflexivity.
Qed.

Lemma lookup_ok_of r mq mc ms qn cn sn s' :
  lookup_ok cfg_q mq qn (s_q s') /\ lookup_ok cfg_c mc cn (s_c s') /\ lookup_ok cfg_s ms sn (s_s s') ->
  exists names, lookup_ok (cfg_of r) (mem_of r mq mc ms) names (sel r s').
Proof.
  intros (Hq & Hc & Hs). unfold cfg_of, mem_of, sel. destruct (r =? 0); [exists qn; exact Hq|].
  destruct (r =? 1); [exists cn; exact Hc|exists sn; exact Hs].
Qed.

(* T (stable, as observed): the ID a successful start returned for a name is returned again by
   every later successful start or retry, whatever happened in between (failed starts, in-process
   retries, other schemas, renames of other names) *)
Theorem start_ids_stable r b st a1 qn cn sn st1 mq mc ms n id l a2 qn' cn' sn' st2 mq' mc' ms' :
  inv b st -> hist_ok b (a1 :: l ++ [a2]) ->
  prepares st a1 qn cn sn -> sys_step st a1 = (st1, SOk mq mc ms) ->
  sm_get n (m_names (mem_of r mq mc ms)) = Some id ->
  (r = 0 -> never_renamed n l) ->
  prepares (sys_run st1 l) a2 qn' cn' sn' ->
  sys_step (sys_run st1 l) a2 = (st2, SOk mq' mc' ms') ->
  sm_get n (m_names (mem_of r mq' mc' ms')) = Some id.
Proof.
  intros Hinv Hh Hp1 E1 Hg Hnr Hp2 E2.
  change (a1 :: l ++ [a2]) with ([a1] ++ (l ++ [a2])) in Hh. apply hist_ok_app in Hh. destruct Hh as [H1 H23].
  apply hist_ok_app in H23. destruct H23 as [H2 H3].
  destruct (lookup_ok_of r _ _ _ _ _ _ _ (start_lookup_ok _ _ _ _ _ _ _ _ _ _ Hinv H1 Hp1 E1)) as (names1 & _ & _ & L1 & _).
  destruct (L1 n id Hg) as (Hrange & _ & Hrow1).
  assert (Hsk : skip (cfg_of r) id = false) by (apply skip_cfg_of_range; lia).
  assert (Hinv1 : inv (flag_after b [a1]) st1).
  { replace st1 with (fst (sys_step st a1)) by (rewrite E1; reflexivity). apply sys_step_inv; assumption. }
  pose proof (sys_run_stable r l _ st1 n id Hinv1 H2 Hrow1 Hsk Hnr) as Hrow2.
  pose proof (sys_run_inv l _ st1 Hinv1 H2) as Hinv2.
  assert (Hrow3 : sm_get n (p_rows (sel r (fst st2))) = Some id).
  { replace st2 with (fst (sys_step (sys_run st1 l) a2)) by (rewrite E2; reflexivity).
    apply (sys_step_stable _ _ _ _ _ _ Hinv2 H3 Hrow2 Hsk). intros _ new f ->. inversion Hp2. }
  destruct (lookup_ok_of r _ _ _ _ _ _ _ (start_lookup_ok _ _ _ _ _ _ _ _ _ _ Hinv2 H3 Hp2 E2)) as (names2 & _ & _ & _ & L2).
  apply L2; assumption.
Qed.

(* T (data): a row written under a name's ID is decoded with that name by every later start
   whose schema still has the name *)
Theorem decode_stable b st a1 qn cn sn st1 mq mc ms n id l a2 qn' cn' sn' st2 mq' mc' ms' :
  inv b st -> hist_ok b (a1 :: l ++ [a2]) ->
  prepares st a1 qn cn sn -> sys_step st a1 = (st1, SOk mq mc ms) ->
  sm_get n (m_names mq) = Some id ->
  never_renamed n l ->
  prepares (sys_run st1 l) a2 qn' cn' sn' ->
  sys_step (sys_run st1 l) a2 = (st2, SOk mq' mc' ms') ->
  In n qn' -> decode mq' qn' id = Some n.
Proof.
  intros Hinv Hh Hp1 E1 Hg Hnr Hp2 E2 Hin.
  assert (Hg2 : sm_get n (m_names mq') = Some id).
  { apply (start_ids_stable 0 b st a1 qn cn sn st1 mq mc ms n id l a2 qn' cn' sn' st2 mq' mc' ms'); auto. }
  pose proof Hh as Hh'. change (a1 :: l ++ [a2]) with ([a1] ++ (l ++ [a2])) in Hh'. apply hist_ok_app in Hh'. destruct Hh' as [H1 H23].
  apply hist_ok_app in H23. destruct H23 as [H2 H3].
  assert (Hinv1 : inv (flag_after b [a1]) st1).
  { replace st1 with (fst (sys_step st a1)) by (rewrite E1; reflexivity). apply sys_step_inv; assumption. }
  pose proof (sys_run_inv l _ st1 Hinv1 H2) as Hinv2.
  destruct (start_lookup_ok _ _ _ _ _ _ _ _ _ _ Hinv2 H3 Hp2 E2) as ((_ & _ & L & _) & _).
  destruct (L n id Hg2) as (_ & Hn & _). unfold decode. rewrite Hn.
  replace (existsb (lex_eqb n) qn') with true; [reflexivity|].
  symmetry. apply existsb_exists. exists n. split; [exact Hin|apply lex_eqb_refl].
Qed.

Definition fresh : sys := mkSys (mkPers [] 0) (mkPers [] 0) (mkPers [] 0).

Lemma fresh_ok : sys_ok fresh.
Proof.
  assert (H : forall c, rows_ok c []).
  { intros c. split; [constructor|split]; cbn; discriminate. }
  split; [|split]; apply H.
Qed.

Theorem start_lookup_after b st l a qn cn sn st' mq mc ms :
  inv b st -> hist_ok b (l ++ [a]) -> prepares (sys_run st l) a qn cn sn ->
  sys_step (sys_run st l) a = (st', SOk mq mc ms) ->
  lookup_ok cfg_q mq qn (s_q (fst st')) /\ lookup_ok cfg_c mc cn (s_c (fst st')) /\ lookup_ok cfg_s ms sn (s_s (fst st')).
Proof.
  intros Hinv Hh Hp E. apply hist_ok_app in Hh. destruct Hh as [H1 H2].
  exact (start_lookup_ok _ _ _ _ _ _ _ _ _ _ (sys_run_inv l b st Hinv H1) H2 Hp E).
Qed.

Theorem sys_run_ok b st l : inv b st -> hist_ok b l -> sys_ok (fst (sys_run st l)).
Proof. intros Hinv Hh. exact (proj1 (sys_run_inv l b st Hinv Hh)). Qed.

(* histories without in-process retries satisfy the sequencing condition trivially *)
Definition is_retry (a : action) : bool := match a with ARetry _ _ _ _ => true | _ => false end.

Lemma hist_ok_no_retry l : forall b, forallb (fun a => negb (is_retry a)) l = true -> hist_ok b l.
Proof.
  induction l as [|a r IH]; intros b H; cbn in *; auto.
  apply andb_true_iff in H. destruct H as [Ha Hr]. destruct a; cbn in Ha; try discriminate; apply IH; exact Hr.
Qed.
