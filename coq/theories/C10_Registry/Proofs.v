(* C10 - proofs about the registry model: invariants of load / collect / store / rename for an
   arbitrary registry configuration, then the three-registry application. *)
From Coq Require Import List NArith Bool Lia.
From V Require Import Lib.Lex Lib.SMap Lib.Check Gen.Params C10_Registry.Model.
Import ListNotations.
Local Open Scope N_scope.

Definition bytes_eq_dec : forall a b : bytes, {a = b} + {a <> b} := list_eq_dec N.eq_dec.

(* ---------- small facts on sorted maps ---------- *)

Lemma sm_get_None_keys (m : rows) n : sorted m -> sm_get n m = None -> ~ In n (map fst m).
Proof.
  intros Hs Hg Hin. apply in_map_iff in Hin. destruct Hin as [[k v] [Hk Hin]]. cbn in Hk; subst k.
  apply (sm_get_In n v m Hs) in Hin. congruence.
Qed.

Lemma sm_get_put (m : rows) n k v :
  sm_get n (sm_put k v m) = if bytes_eq_dec n k then Some v else sm_get n m.
Proof.
  destruct (bytes_eq_dec n k) as [->|Hne]; [apply sm_get_put_same | apply sm_get_put_other; exact Hne].
Qed.

(* ---------- invariants ---------- *)

(* stored rows: strictly sorted by name; every live ID lies strictly between the reserved range
   and the limit; no two names share a live ID *)
Definition rows_ok (c : rcfg) (rs : rows) : Prop :=
  sorted rs /\
  (forall n id, sm_get n rs = Some id -> skip c id = false -> c_sys_last c < id < c_max c) /\
  (forall n1 n2 id, sm_get n1 rs = Some id -> sm_get n2 rs = Some id -> skip c id = false -> n1 = n2).

(* in-memory registry: every name's ID is above the reserved range, at most lastID, and the
   ID->name map leads back to the name (hence the name->ID map is injective); no ID above lastID
   is in use; lastID is below the limit *)
Definition mem_ok (c : rcfg) (m : mem) : Prop :=
  sorted (m_names m) /\
  (forall n id, sm_get n (m_names m) = Some id -> c_sys_last c < id <= m_last m /\ id_name (m_ids m) id = Some n) /\
  (forall i n, In (i, n) (m_ids m) -> i <= m_last m) /\
  c_sys_last c <= m_last m < c_max c.

Lemma mem_ok_injective c m n1 n2 id :
  mem_ok c m -> sm_get n1 (m_names m) = Some id -> sm_get n2 (m_names m) = Some id -> n1 = n2.
Proof.
  intros (_ & He & _) H1 H2. apply He in H1. apply He in H2. destruct H1 as [_ H1], H2 as [_ H2]. congruence.
Qed.

Section Registry.
Variable c : rcfg.
Hypothesis Hwf : c_sys_last c < c_max c.

Lemma mem0_ok : mem_ok c (mem0 c).
Proof.
  unfold mem_ok, mem0; cbn. split; [constructor|split; [discriminate|split; [contradiction|lia]]].
Qed.

Lemma skip_in_range id : c_sys_last c < id -> skip c id = false.
Proof.
  intros H. unfold skip. destruct (c_tomb c); cbn; auto. apply N.eqb_neq. lia.
Qed.

(* ---------- load ---------- *)

Lemma add_ok m n id :
  mem_ok c m -> c_sys_last c < id < c_max c ->
  sm_get n (m_names m) = None -> id_name (m_ids m) id = None ->
  mem_ok c (add m n id).
Proof.
  intros (Hs & He & Hi & Hl) Hr Hn Hid. unfold mem_ok, add; cbn. split; [|split; [|split]].
  - apply sm_put_sorted; exact Hs.
  - intros n0 id0 H. rewrite sm_get_put in H. destruct (bytes_eq_dec n0 n) as [->|Hne].
    + inversion H; subst. rewrite N.eqb_refl. split; [lia|reflexivity].
    + apply He in H. destruct H as [Hb H]. split; [lia|]. destruct (id =? id0) eqn:E; [|exact H].
      apply N.eqb_eq in E; subst. congruence.
  - intros i n0 [H|H]; [inversion H; subst; lia | apply Hi in H; lia].
  - lia.
Qed.

Lemma load_rows_spec rs : forall m,
  NoDup (map fst rs) ->
  (forall n id, In (n, id) rs -> skip c id = false -> c_sys_last c < id < c_max c) ->
  (forall n1 n2 id, In (n1, id) rs -> In (n2, id) rs -> skip c id = false -> n1 = n2) ->
  mem_ok c m ->
  (forall n id, In (n, id) rs -> sm_get n (m_names m) = None) ->
  (forall n id, In (n, id) rs -> skip c id = false -> id_name (m_ids m) id = None) ->
  exists m', load_rows c rs m = Some m' /\ mem_ok c m' /\
    (forall n id, sm_get n (m_names m') = Some id <->
                  (sm_get n (m_names m) = Some id \/ (In (n, id) rs /\ skip c id = false))).
Proof.
  induction rs as [|[n id] r IH]; intros m Hnd Hrange Hinj Hok Hfresh Hidfresh.
  - exists m. split; [reflexivity|split; [exact Hok|]]. intros n id; split; [auto | intros [H|[[] _]]; exact H].
  - inversion Hnd as [|? ? Hnotin Hnd']; subst. cbn [load_rows].
    assert (Hrange' : forall n0 id0, In (n0, id0) r -> skip c id0 = false -> c_sys_last c < id0 < c_max c)
      by (intros n0 id0 Hin; apply (Hrange n0 id0); right; exact Hin).
    assert (Hinj' : forall n1 n2 id0, In (n1, id0) r -> In (n2, id0) r -> skip c id0 = false -> n1 = n2)
      by (intros n1 n2 id0 H1 H2; apply (Hinj n1 n2 id0); right; assumption).
    destruct (skip c id) eqn:Esk.
    + destruct (IH m) as (m' & Hl & Hok' & Hiff); auto.
      * intros n0 id0 Hin; apply (Hfresh n0 id0); right; exact Hin.
      * intros n0 id0 Hin; apply (Hidfresh n0 id0); right; exact Hin.
      * exists m'. split; [exact Hl|split; [exact Hok'|]]. intros n0 id0; split.
        -- intros H. apply Hiff in H. destruct H as [H|[H1 H2]]; [left; exact H | right; split; [right; exact H1|exact H2]].
        -- intros [H|[[H|H] H2]]; apply Hiff; [left; exact H | inversion H; subst; congruence | right; split; assumption].
    + assert (Hr : c_sys_last c < id < c_max c) by (apply (Hrange n id); [left; reflexivity | exact Esk]).
      replace (c_tomb c && (id <=? c_sys_last c)) with false
        by (symmetry; apply andb_false_iff; right; apply N.leb_gt; lia).
      assert (Hok1 : mem_ok c (add m n id)).
      { apply add_ok; auto; [apply (Hfresh n id); left; reflexivity | apply (Hidfresh n id); [left; reflexivity|exact Esk]]. }
      destruct (IH (add m n id)) as (m' & Hl & Hok' & Hiff); auto.
      * intros n0 id0 Hin. cbn. rewrite sm_get_put. destruct (bytes_eq_dec n0 n) as [->|Hne].
        -- exfalso. apply Hnotin. apply in_map_iff. exists (n, id0). split; auto.
        -- apply (Hfresh n0 id0); right; exact Hin.
      * intros n0 id0 Hin Hsk0. cbn. destruct (id =? id0) eqn:E.
        -- apply N.eqb_eq in E; subst id0. exfalso. apply Hnotin.
           assert (n0 = n) by (apply (Hinj n0 n id); [right; exact Hin | left; reflexivity | exact Esk]). subst.
           apply in_map_iff. exists (n, id). split; auto.
        -- apply (Hidfresh n0 id0); [right; exact Hin|exact Hsk0].
      * exists m'. split; [exact Hl|split; [exact Hok'|]]. intros n0 id0; split.
        -- intros H. apply Hiff in H. cbn in H. rewrite sm_get_put in H. destruct H as [H|[H1 H2]].
           ++ destruct (bytes_eq_dec n0 n) as [->|Hne]; [inversion H; subst; right; split; [left; reflexivity|exact Esk] | left; exact H].
           ++ right; split; [right; exact H1|exact H2].
        -- intros H. apply Hiff. cbn. rewrite sm_get_put. destruct H as [H|[[H|H] H2]].
           ++ left. destruct (bytes_eq_dec n0 n) as [->|Hne]; [|exact H].
              rewrite (Hfresh n id) in H by (left; reflexivity). discriminate.
           ++ inversion H; subst. left. destruct (bytes_eq_dec n0 n0); [reflexivity|contradiction].
           ++ right; split; assumption.
Qed.

Lemma load_spec p :
  rows_ok c (p_rows p) -> p_ver p <= 1 ->
  exists m, load c p = LOk m /\ mem_ok c m /\
    (reads_rows c p = true ->
       forall n id, sm_get n (m_names m) = Some id <-> (sm_get n (p_rows p) = Some id /\ skip c id = false)) /\
    (reads_rows c p = false -> m = mem0 c).
Proof.
  intros (Hs & Hr & Hi) Hv. unfold load.
  replace (1 <? p_ver p) with false by (symmetry; apply N.ltb_ge; exact Hv).
  destruct (reads_rows c p) eqn:Er.
  - destruct (load_rows_spec (p_rows p) (mem0 c)) as (m & Hl & Hok & Hiff).
    + apply (sorted_NoDup_keys _ Hs).
    + intros n id Hin. apply Hr with n. apply sm_get_In; auto.
    + intros n1 n2 id H1 H2. apply Hi; apply sm_get_In; auto.
    + apply mem0_ok.
    + reflexivity.
    + reflexivity.
    + rewrite Hl. exists m. split; [reflexivity|split; [exact Hok|split; [|discriminate]]].
      intros _ n id; split.
      * intros H. apply Hiff in H. cbn in H. destruct H as [H|[H1 H2]]; [discriminate|].
        split; [apply sm_get_In; auto | exact H2].
      * intros [H1 H2]. apply Hiff. right. split; [apply sm_get_In; auto | exact H2].
  - exists (mem0 c). split; [reflexivity|split; [apply mem0_ok|split; [discriminate|reflexivity]]].
Qed.

(* ---------- collect ---------- *)

Lemma id_name_above ids last id :
  (forall i n, In (i, n) ids -> i <= last) -> last < id -> id_name ids id = None.
Proof.
  induction ids as [|[i n] r IH]; intros Hb Hlt; cbn; auto.
  destruct (i =? id) eqn:E.
  - apply N.eqb_eq in E; subst. specialize (Hb id n (or_introl eq_refl)). lia.
  - apply IH; auto. intros; eapply Hb; right; eauto.
Qed.

(* the `continue` branch of the allocation loop is never taken: the first candidate is free *)
Lemma first_free_spec m k :
  mem_ok c m ->
  first_free (S k) (m_ids m) (m_last m + 1) (c_max c) =
  if c_max c <=? m_last m + 1 then None else Some (m_last m + 1).
Proof.
  intros (_ & _ & Hi & _). cbn. destruct (c_max c <=? m_last m + 1); auto.
  unfold has_id. rewrite (id_name_above _ (m_last m)); auto. lia.
Qed.

Definition extends (m m' : mem) : Prop :=
  forall n id, sm_get n (m_names m) = Some id -> sm_get n (m_names m') = Some id.

Lemma collect_spec s n :
  mem_ok c (cs_mem s) ->
  let s' := collect c s n in
  mem_ok c (cs_mem s') /\ extends (cs_mem s) (cs_mem s') /\
  (cs_err s = true -> cs_err s' = true) /\
  (cs_err s' = false -> exists id, sm_get n (m_names (cs_mem s')) = Some id) /\
  (cs_changed s' = false -> cs_mem s' = cs_mem s /\ cs_changed s = false) /\
  m_last (cs_mem s) <= m_last (cs_mem s') <= m_last (cs_mem s) + 1.
Proof.
  intros Hok. unfold collect. destruct (sm_get n (m_names (cs_mem s))) as [id|] eqn:Eg; cbn zeta.
  - split; [exact Hok|]. split; [red; auto|]. split; [auto|]. split; [intros _; exists id; exact Eg|].
    split; [auto|lia].
  - rewrite first_free_spec by exact Hok. destruct (c_max c <=? m_last (cs_mem s) + 1) eqn:El; cbn.
    + split; [exact Hok|]. split; [red; auto|]. split; [auto|]. split; [discriminate|]. split; [auto|lia].
    + apply N.leb_gt in El. destruct Hok as (Hs & He & Hi & Hl).
      split; [|split; [|split; [auto|split; [|split; [discriminate|lia]]]]].
      * unfold mem_ok; cbn. split; [|split; [|split]].
        -- apply sm_put_sorted; exact Hs.
        -- intros n0 id0 H. rewrite sm_get_put in H. destruct (bytes_eq_dec n0 n) as [->|Hne].
           ++ inversion H; subst. rewrite N.eqb_refl. split; [lia|reflexivity].
           ++ apply He in H. destruct H as [Hb H]. split; [lia|].
              replace (m_last (cs_mem s) + 1 =? id0) with false; [exact H|]. symmetry. apply N.eqb_neq. lia.
        -- intros i n0 [H|H]; [inversion H; subst; lia | apply Hi in H; lia].
        -- lia.
      * intros n0 id0 H. cbn. rewrite sm_get_put. destruct (bytes_eq_dec n0 n) as [->|Hne]; [congruence|exact H].
      * intros _. exists (m_last (cs_mem s) + 1). cbn. apply sm_get_put_same.
Qed.

Lemma collect_all_spec names : forall s,
  mem_ok c (cs_mem s) ->
  let s' := fold_left (collect c) names s in
  mem_ok c (cs_mem s') /\ extends (cs_mem s) (cs_mem s') /\
  (cs_err s = true -> cs_err s' = true) /\
  (cs_err s' = false -> forall n, In n names -> exists id, sm_get n (m_names (cs_mem s')) = Some id) /\
  (cs_changed s' = false -> cs_mem s' = cs_mem s /\ cs_changed s = false) /\
  m_last (cs_mem s') <= m_last (cs_mem s) + N.of_nat (length names).
Proof.
  induction names as [|n r IH]; intros s Hok; cbn [fold_left].
  - cbn. split; [exact Hok|]. split; [red; auto|]. split; [auto|]. split; [intros _ ? []|]. split; [auto|lia].
  - destruct (collect_spec s n Hok) as (Hok1 & Hext1 & Herr1 & Hb1 & Hch1 & Hl1).
    destruct (IH (collect c s n) Hok1) as (Hok2 & Hext2 & Herr2 & Hb2 & Hch2 & Hl2).
    cbn zeta in *. split; [exact Hok2|]. split; [|split; [auto|split; [|split]]].
    + red; intros; apply Hext2, Hext1; assumption.
    + intros Hne n0 [<-|Hin]; [|apply Hb2; auto].
      destruct (cs_err (collect c s n)) eqn:Ee; [rewrite Herr2 in Hne by reflexivity; discriminate|].
      destruct (Hb1 eq_refl) as [id Hid]. exists id. apply Hext2. exact Hid.
    + intros Hc. destruct (Hch2 Hc) as [Em Ec]. destruct (Hch1 Ec) as [Em1 Ec1]. split; congruence.
    + cbn [length]. lia.
Qed.

(* ---------- store ---------- *)

Lemma put_all_sorted es : forall rs, sorted rs -> sorted (put_all c es rs).
Proof.
  induction es as [|[n id] r IH]; intros rs Hs; cbn; auto.
  apply IH. destruct (keep c id); auto. apply sm_put_sorted; exact Hs.
Qed.

Lemma put_all_get es : forall rs,
  NoDup (map fst es) -> (forall n id, In (n, id) es -> keep c id = true) ->
  (forall n id, In (n, id) es -> sm_get n (put_all c es rs) = Some id) /\
  (forall n, ~ In n (map fst es) -> sm_get n (put_all c es rs) = sm_get n rs).
Proof.
  induction es as [|[k v] r IH]; intros rs Hnd Hk; cbn [put_all].
  - split; [intros ? ? []|reflexivity].
  - inversion Hnd as [|? ? Hnotin Hnd']; subst.
    rewrite (Hk k v) by (left; reflexivity).
    destruct (IH (sm_put k v rs) Hnd') as [H1 H2]; [intros; eapply Hk; right; eauto|].
    split.
    + intros n id [H|H]; [|apply H1; exact H]. inversion H; subst.
      rewrite H2 by exact Hnotin. apply sm_get_put_same.
    + intros n Hn. cbn in Hn. rewrite H2 by tauto. apply sm_get_put_other. intros ->. apply Hn. left; reflexivity.
Qed.

Lemma keep_mem_ok m n id : mem_ok c m -> In (n, id) (m_names m) -> keep c id = true.
Proof.
  intros (Hs & He & _) Hin. apply (sm_get_In n id _ Hs) in Hin. apply He in Hin.
  unfold keep. apply orb_true_iff. left. apply N.ltb_lt. lia.
Qed.

(* the rows after store(): the in-memory entries overwrite, everything else stays *)
Lemma store_rows_get m rs n :
  mem_ok c m -> sorted rs ->
  sm_get n (put_all c (m_names m) rs) =
  match sm_get n (m_names m) with Some id => Some id | None => sm_get n rs end.
Proof.
  intros Hok Hsr. pose proof Hok as (Hs & _).
  destruct (put_all_get (m_names m) rs) as [H1 H2].
  - apply (sorted_NoDup_keys _ Hs).
  - intros; eapply keep_mem_ok; eauto.
  - destruct (sm_get n (m_names m)) as [id|] eqn:Eg.
    + apply H1. apply sm_get_In; auto.
    + apply H2. apply sm_get_None_keys; auto.
Qed.

Definition absorbed (rs : rows) (m : mem) : Prop :=
  forall n id, sm_get n rs = Some id -> skip c id = false -> exists id', sm_get n (m_names m) = Some id'.

Lemma store_rows_ok m rs :
  mem_ok c m -> sorted rs -> absorbed rs m -> rows_ok c (put_all c (m_names m) rs).
Proof.
  intros Hok Hsr Habs. pose proof Hok as (Hs & He & Hi & Hl).
  assert (Hfrom : forall n id, sm_get n (put_all c (m_names m) rs) = Some id -> skip c id = false ->
                               sm_get n (m_names m) = Some id).
  { intros n id H Hsk. rewrite store_rows_get in H by auto.
    destruct (sm_get n (m_names m)) as [id'|] eqn:Eg; [exact H|].
    destruct (Habs n id H Hsk) as [id' Hid']. congruence. }
  repeat split.
  - apply put_all_sorted; exact Hsr.
  - apply Hfrom in H; auto. apply He in H. lia.
  - apply Hfrom in H; auto. apply He in H. lia.
  - intros n1 n2 id H1 H2 Hsk. eapply mem_ok_injective; eauto.
Qed.

(* ---------- prepare ---------- *)

(* the stored rows are taken into account by this Prepare: either they are read, or every
   stored live name is in the schema being prepared (so that its row is overwritten) *)
Definition covers (p : pers) (names : list bytes) : Prop :=
  reads_rows c p = true \/
  (forall n id, sm_get n (p_rows p) = Some id -> skip c id = false -> In n names).

Lemma store_fst p m f :
  (fst (store c p m f) = p /\ snd (store c p m f) = false) \/
  (p_rows (fst (store c p m f)) = put_all c (m_names m) (p_rows p) /\
   (p_ver (fst (store c p m f)) = 1 \/ p_ver (fst (store c p m f)) = p_ver p)).
Proof.
  unfold store. destruct f; cbn; auto; destruct (p_ver p =? 1) eqn:E; cbn; auto.
Qed.

Lemma store_ver p m f : p_ver p = 1 -> p_ver (fst (store c p m f)) = 1.
Proof. intros H. unfold store. rewrite H. destruct f; cbn; auto. Qed.

Lemma prepare_cases p names f :
  rows_ok c (p_rows p) ->
  (p_ver p > 1 /\ prepare c p names f = (p, RErr 4)) \/
  (p_ver p <= 1 /\ exists m0, load c p = LOk m0 /\ mem_ok c m0 /\
     let s := collect_all c m0 names in
     (cs_err s = true /\ prepare c p names f = (p, RErr 2)) \/
     (cs_err s = false /\ cs_changed s = false /\ cs_mem s = m0 /\ prepare c p names f = (p, ROk m0)) \/
     (cs_err s = false /\ cs_changed s = true /\
      prepare c p names f = (fst (store c p (cs_mem s) f),
                             if snd (store c p (cs_mem s) f) then ROk (cs_mem s) else RErr 1))).
Proof.
  intros Hrows. destruct (1 <? p_ver p) eqn:Ev.
  - left. apply N.ltb_lt in Ev. split; [lia|]. unfold prepare, load. replace (1 <? p_ver p) with true by (symmetry; apply N.ltb_lt; lia). reflexivity.
  - right. apply N.ltb_ge in Ev. split; [exact Ev|].
    destruct (load_spec p Hrows Ev) as (m0 & Hl & Hok & _). exists m0.
    split; [exact Hl|split; [exact Hok|]].
    unfold prepare. rewrite Hl. cbn zeta.
    destruct (cs_err (collect_all c m0 names)) eqn:Ee; [left; auto|right].
    destruct (cs_changed (collect_all c m0 names)) eqn:Ec.
    + right. split; [reflexivity|split; [reflexivity|]].
      destruct (store c p (cs_mem (collect_all c m0 names)) f); reflexivity.
    + left. destruct (collect_all_spec names (mkCst m0 false false) Hok) as (_ & _ & _ & _ & Hch & _).
      unfold collect_all in *. cbn in Hch. destruct (Hch Ec) as [Em _]. rewrite Em.
      split; [reflexivity|split; [reflexivity|split; reflexivity]].
Qed.

Lemma collect_all_from m0 names :
  mem_ok c m0 ->
  let s := collect_all c m0 names in
  mem_ok c (cs_mem s) /\ extends m0 (cs_mem s) /\
  (cs_err s = false -> forall n, In n names -> exists id, sm_get n (m_names (cs_mem s)) = Some id).
Proof.
  intros Hok. destruct (collect_all_spec names (mkCst m0 false false) Hok) as (H1 & H2 & _ & H4 & _).
  cbn in *. split; [exact H1|split; [exact H2|exact H4]].
Qed.

Lemma absorbed_after_collect p names m0 :
  rows_ok c (p_rows p) -> p_ver p <= 1 -> covers p names -> load c p = LOk m0 ->
  let s := collect_all c m0 names in
  cs_err s = false -> absorbed (p_rows p) (cs_mem s).
Proof.
  intros Hrows Hv Hcov Hl s Herr n id Hg Hsk.
  destruct (load_spec p Hrows Hv) as (m0' & Hl' & Hok & Hread & Hnoread).
  rewrite Hl in Hl'. inversion Hl'; subst m0'.
  destruct (collect_all_from m0 names Hok) as (_ & Hext & Hall).
  destruct (reads_rows c p) eqn:Er.
  - exists id. apply Hext. apply (Hread eq_refl). split; assumption.
  - destruct Hcov as [Hc|Hc]; [congruence|]. apply Hall; auto. eapply Hc; eauto.
Qed.

(* T (invariant): Prepare keeps the stored rows well-formed *)
Theorem prepare_rows_ok p names f :
  rows_ok c (p_rows p) -> covers p names -> rows_ok c (p_rows (fst (prepare c p names f))).
Proof.
  intros Hrows Hcov. destruct (prepare_cases p names f Hrows) as [[_ E]|[Hv (m0 & Hl & Hok & Hc)]].
  - rewrite E. exact Hrows.
  - cbn zeta in Hc. destruct Hc as [[_ E]|[(_ & _ & _ & E)|(Herr & _ & E)]]; rewrite E; cbn [fst]; auto.
    destruct (store_fst p (cs_mem (collect_all c m0 names)) f) as [[E' _]|[E' _]]; rewrite E'; auto.
    destruct (collect_all_from m0 names Hok) as (Hok' & _).
    apply store_rows_ok; auto. apply Hrows.
    eapply absorbed_after_collect; eauto.
Qed.

Lemma prepare_ver p names f : p_ver p = 1 -> p_ver (fst (prepare c p names f)) = 1.
Proof.
  intros H. unfold prepare. destruct (load c p); auto. cbn zeta.
  destruct (cs_err _); auto. destruct (cs_changed _); auto.
  pose proof (store_ver p (cs_mem (collect_all c m names)) f H).
  destruct (store c p _ f); cbn in *; auto.
Qed.

(* T: what a successful Prepare hands to the application *)
Theorem prepare_mem_ok p names f p' m :
  rows_ok c (p_rows p) -> covers p names -> prepare c p names f = (p', ROk m) ->
  mem_ok c m /\
  (forall n, In n names -> exists id, sm_get n (m_names m) = Some id) /\
  (forall n id, sm_get n (m_names m) = Some id -> sm_get n (p_rows p') = Some id) /\
  (reads_rows c p = true -> forall n id, sm_get n (p_rows p) = Some id -> skip c id = false ->
                                         sm_get n (m_names m) = Some id).
Proof.
  intros Hrows Hcov E. destruct (prepare_cases p names f Hrows) as [[_ E']|[Hv (m0 & Hl & Hok & Hc)]]; [congruence|].
  destruct (load_spec p Hrows Hv) as (m0' & Hl' & _ & Hread & Hnoread). rewrite Hl in Hl'; inversion Hl'; subst m0'.
  destruct (collect_all_from m0 names Hok) as (Hok' & Hext & Hall).
  cbn zeta in Hc. destruct Hc as [[_ E']|[(Herr & _ & Em & E')|(Herr & _ & E')]]; rewrite E' in E.
  - discriminate.
  - inversion E; subst p' m. rewrite Em in Hall.
    split; [exact Hok|]. split; [exact (Hall Herr)|]. split.
    + intros n id Hg. destruct (reads_rows c p) eqn:Er.
      * apply (Hread eq_refl) in Hg. tauto.
      * rewrite (Hnoread eq_refl) in Hg. cbn in Hg. discriminate.
    + intros Hr n id Hg Hsk. apply (Hread Hr). tauto.
  - destruct (snd (store c p (cs_mem (collect_all c m0 names)) f)) eqn:Eok; inversion E; subst p' m.
    split; [exact Hok'|]. split; [exact (Hall Herr)|]. split.
    + intros n id Hg. destruct (store_fst p (cs_mem (collect_all c m0 names)) f) as [[Ef Es]|[Ef _]]; [congruence|].
      rewrite Ef. rewrite store_rows_get by (auto; apply Hrows). rewrite Hg. reflexivity.
    + intros Hr n id Hg Hsk. apply Hext. apply (Hread Hr). tauto.
Qed.

(* T (stable): a live row of a registry whose rows are read survives every Prepare *)
Theorem prepare_stable p names f n id :
  rows_ok c (p_rows p) -> reads_rows c p = true ->
  sm_get n (p_rows p) = Some id -> skip c id = false ->
  sm_get n (p_rows (fst (prepare c p names f))) = Some id.
Proof.
  intros Hrows Hr Hg Hsk. destruct (prepare_cases p names f Hrows) as [[_ E]|[Hv (m0 & Hl & Hok & Hc)]].
  - rewrite E; exact Hg.
  - destruct (load_spec p Hrows Hv) as (m0' & Hl' & _ & Hread & _). rewrite Hl in Hl'; inversion Hl'; subst m0'.
    destruct (collect_all_from m0 names Hok) as (Hok' & Hext & _).
    cbn zeta in Hc. destruct Hc as [[_ E]|[(_ & _ & _ & E)|(_ & _ & E)]]; rewrite E; cbn [fst]; auto.
    destruct (store_fst p (cs_mem (collect_all c m0 names)) f) as [[Ef _]|[Ef _]]; rewrite Ef; auto.
    rewrite store_rows_get by (auto; apply Hrows).
    rewrite (Hext n id); auto. apply (Hread Hr). tauto.
Qed.

(* T (limit): running out of IDs is an error that stores nothing; with enough room it cannot happen *)
Theorem prepare_limit_keeps p names f p' : prepare c p names f = (p', RErr 2) -> p' = p.
Proof.
  unfold prepare. destruct (load c p); try (intros H; inversion H; reflexivity).
  cbn zeta. destruct (cs_err _); [intros H; inversion H; reflexivity|].
  destruct (cs_changed _); [|discriminate].
  destruct (store c p _ f) as [p1 []]; intros H; inversion H.
Qed.

Lemma collect_room s n :
  mem_ok c (cs_mem s) -> m_last (cs_mem s) + 1 < c_max c -> cs_err (collect c s n) = cs_err s.
Proof.
  intros Hok Hroom. unfold collect. destruct (sm_get n (m_names (cs_mem s))); auto.
  rewrite first_free_spec by exact Hok.
  replace (c_max c <=? m_last (cs_mem s) + 1) with false by (symmetry; apply N.leb_gt; lia). reflexivity.
Qed.

Lemma collect_all_room names : forall s,
  mem_ok c (cs_mem s) -> m_last (cs_mem s) + N.of_nat (length names) < c_max c ->
  cs_err (fold_left (collect c) names s) = cs_err s.
Proof.
  induction names as [|n r IH]; intros s Hok Hroom; cbn [fold_left]; auto.
  destruct (collect_spec s n Hok) as (Hok1 & _ & _ & _ & _ & Hl1). cbn zeta in *. cbn [length] in Hroom.
  rewrite IH; auto; [apply collect_room; auto; lia | lia].
Qed.

Theorem prepare_room p names f m0 :
  rows_ok c (p_rows p) -> load c p = LOk m0 ->
  m_last m0 + N.of_nat (length names) < c_max c ->
  forall p', prepare c p names f <> (p', RErr 2).
Proof.
  intros Hrows Hl Hroom p' E.
  destruct (prepare_cases p names f Hrows) as [[_ E']|[Hv (m0' & Hl' & Hok & Hc)]]; [congruence|].
  rewrite Hl in Hl'; inversion Hl'; subst m0'.
  pose proof (collect_all_room names (mkCst m0 false false) Hok Hroom) as Hne. cbn in Hne.
  cbn zeta in Hc. unfold collect_all in Hc. rewrite Hne in Hc.
  destruct Hc as [[? _]|[(_ & _ & _ & E')|(_ & _ & E')]]; try discriminate; rewrite E' in E; inversion E.
  destruct (snd (store c p _ f)); discriminate.
Qed.

(* ---------- rename ---------- *)

Hypothesis Htomb : c_tomb c = true.

Lemma rename_cases p old new f :
  rows_ok c (p_rows p) ->
  (fst (rename c p old new f) = p /\ snd (rename c p old new f) <> 0) \/
  (exists m id, load c p = LOk m /\ reads_rows c p = true /\ old <> new /\
     sm_get old (m_names m) = Some id /\ sm_get new (m_names m) = None /\
     (forall n, sm_get n (p_rows (fst (rename c p old new f))) =
                if bytes_eq_dec n new then Some id else if bytes_eq_dec n old then Some 0 else sm_get n (p_rows p)) /\
     sorted (p_rows (fst (rename c p old new f))) /\
     (p_ver p = 1 -> p_ver (fst (rename c p old new f)) = 1)).
Proof.
  intros Hrows. unfold rename. destruct (lex_eqb old new) eqn:Eon; [left; split; [reflexivity|discriminate]|].
  apply lex_eqb_neq in Eon.
  destruct (1 <? p_ver p) eqn:Ev.
  { left. unfold load. rewrite Ev. split; [reflexivity|discriminate]. }
  apply N.ltb_ge in Ev. destruct (load_spec p Hrows Ev) as (m & Hl & Hok & Hread & Hnoread). rewrite Hl.
  destruct (sm_get old (m_names m)) as [id|] eqn:Eo; [|left; split; [reflexivity|discriminate]].
  destruct (sm_get new (m_names m)) eqn:En; [left; split; [reflexivity|discriminate]|].
  destruct (reads_rows c p) eqn:Er; [|rewrite (Hnoread eq_refl) in Eo; cbn in Eo; discriminate].
  set (m' := mkMem _ _ _).
  pose proof (store_fst p m' f) as Hsf. pose proof (store_ver p m' f) as Hsv.
  destruct (store c p m' f) as [p1 ok]. cbn [fst snd] in *.
  destruct Hsf as [[Ef Es]|[Ef _]]; [left; subst; split; [reflexivity|discriminate]|right].
  exists m, id. split; [reflexivity|]. split; [reflexivity|]. split; [exact Eon|].
  split; [exact Eo|]. split; [exact En|].
  pose proof Hok as (Hs & He & _). destruct Hrows as (Hsr & _).
  assert (Hs' : sorted (sm_put new id (sm_put old 0 (m_names m)))) by (repeat apply sm_put_sorted; exact Hs).
  split; [|split; [rewrite Ef; apply put_all_sorted; exact Hsr | exact Hsv]].
  intros n. rewrite Ef. subst m'. cbn [m_names].
  destruct (put_all_get (sm_put new id (sm_put old 0 (m_names m))) (p_rows p)) as [H1 H2].
  - apply (sorted_NoDup_keys _ Hs').
  - intros k v Hin. apply (sm_get_In k v _ Hs') in Hin. rewrite !sm_get_put in Hin.
    destruct (bytes_eq_dec k new); [inversion Hin; subst; unfold keep; apply orb_true_iff; left; apply N.ltb_lt; apply He in Eo; lia|].
    destruct (bytes_eq_dec k old); [inversion Hin; subst; unfold keep, skip; rewrite Htomb; cbn; apply orb_true_r|].
    unfold keep; apply orb_true_iff; left; apply N.ltb_lt; apply He in Hin; lia.
  - destruct (sm_get n (sm_put new id (sm_put old 0 (m_names m)))) as [v|] eqn:Eg.
    + rewrite (H1 n v) by (apply sm_get_In; auto). rewrite !sm_get_put in Eg.
      destruct (bytes_eq_dec n new); [symmetry; exact Eg|]. destruct (bytes_eq_dec n old); [symmetry; exact Eg|].
      symmetry. apply (Hread eq_refl) in Eg. tauto.
    + rewrite H2 by (apply sm_get_None_keys; auto). rewrite !sm_get_put in Eg.
      destruct (bytes_eq_dec n new); [discriminate|]. destruct (bytes_eq_dec n old); [discriminate|]. reflexivity.
Qed.

Lemma skip0 : skip c 0 = true.
Proof. unfold skip. rewrite Htomb. reflexivity. Qed.

Lemma load_ok_ver p m : load c p = LOk m -> p_ver p <= 1.
Proof. unfold load. destruct (1 <? p_ver p) eqn:E; [discriminate|]. intros _. apply N.ltb_ge in E. exact E. Qed.

Lemma rename_old_row p m old id :
  rows_ok c (p_rows p) -> load c p = LOk m -> reads_rows c p = true ->
  (sm_get old (m_names m) = Some id <-> (sm_get old (p_rows p) = Some id /\ skip c id = false)).
Proof.
  intros Hrows Hl Hr. destruct (load_spec p Hrows (load_ok_ver p m Hl)) as (m' & Hl' & _ & Hread & _).
  rewrite Hl in Hl'; inversion Hl'; subst m'. apply (Hread Hr).
Qed.

(* T (invariant): Rename keeps the stored rows well-formed *)
Theorem rename_rows_ok p old new f :
  rows_ok c (p_rows p) -> rows_ok c (p_rows (fst (rename c p old new f))).
Proof.
  intros Hrows. destruct (rename_cases p old new f Hrows) as [[E _]|(m & id & Hl & Hr & Hne & Ho & Hn & Hget & Hsorted & _)]; [rewrite E; exact Hrows|].
  apply (rename_old_row p m old id Hrows Hl Hr) in Ho. destruct Ho as [Ho Hsk].
  destruct Hrows as (Hs & Hrange & Hinj).
  split; [exact Hsorted|split].
  - intros n i H Hski. rewrite Hget in H. destruct (bytes_eq_dec n new); [inversion H; subst; eapply Hrange; eauto|].
    destruct (bytes_eq_dec n old); [inversion H; subst; rewrite skip0 in Hski; discriminate|]. eapply Hrange; eauto.
  - intros n1 n2 i H1 H2 Hski. rewrite Hget in H1, H2.
    destruct (bytes_eq_dec n1 new) as [->|N1], (bytes_eq_dec n2 new) as [->|N2]; auto.
    + inversion H1; subst i. destruct (bytes_eq_dec n2 old) as [->|O2]; [inversion H2; subst; rewrite skip0 in Hski; discriminate|].
      exfalso. apply O2. eapply Hinj; eauto.
    + inversion H2; subst i. destruct (bytes_eq_dec n1 old) as [->|O1]; [inversion H1; subst; rewrite skip0 in Hski; discriminate|].
      exfalso. apply O1. eapply Hinj; eauto.
    + destruct (bytes_eq_dec n1 old); [inversion H1; subst; rewrite skip0 in Hski; discriminate|].
      destruct (bytes_eq_dec n2 old); [inversion H2; subst; rewrite skip0 in Hski; discriminate|].
      eapply Hinj; eauto.
Qed.

Lemma rename_ver p old new f : p_ver p = 1 -> p_ver (fst (rename c p old new f)) = 1.
Proof.
  intros Hv. unfold rename. destruct (lex_eqb old new); auto. destruct (load c p); auto.
  destruct (sm_get old (m_names m)); auto. destruct (sm_get new (m_names m)); auto.
  match goal with |- context [store c p ?mm f] => pose proof (store_ver p mm f Hv) as Hsv; destruct (store c p mm f) end.
  exact Hsv.
Qed.

(* T (stable): Rename changes the ID of the renamed name only; the new name takes the ID over *)
Theorem rename_stable p old new f n id :
  rows_ok c (p_rows p) -> sm_get n (p_rows p) = Some id -> skip c id = false -> n <> old ->
  sm_get n (p_rows (fst (rename c p old new f))) = Some id.
Proof.
  intros Hrows Hg Hsk Hne. destruct (rename_cases p old new f Hrows) as [[E _]|(m & i & Hl & Hr & Hon & Ho & Hn & Hget & _)]; [rewrite E; exact Hg|].
  rewrite Hget. destruct (bytes_eq_dec n new) as [->|]; [|destruct (bytes_eq_dec n old); [contradiction|exact Hg]].
  exfalso. assert (sm_get new (m_names m) = Some id) by (apply (rename_old_row p m new id Hrows Hl Hr); tauto). congruence.
Qed.

Theorem rename_moves_id p old new f :
  rows_ok c (p_rows p) -> snd (rename c p old new f) = 0 ->
  exists id, sm_get old (p_rows p) = Some id /\ skip c id = false /\
             sm_get new (p_rows (fst (rename c p old new f))) = Some id /\
             sm_get old (p_rows (fst (rename c p old new f))) = Some 0.
Proof.
  intros Hrows Hcode.
  destruct (rename_cases p old new f Hrows) as [[_ E]|(m & i & Hl & Hr & Hon & Ho & Hn & Hget & _)]; [contradiction|].
  apply (rename_old_row p m old i Hrows Hl Hr) in Ho. destruct Ho as [Ho Hsk].
  exists i. split; [exact Ho|split; [exact Hsk|]]. rewrite !Hget. split.
  - destruct (bytes_eq_dec new new); [reflexivity|contradiction].
  - destruct (bytes_eq_dec old new); [contradiction|]. destruct (bytes_eq_dec old old); [reflexivity|contradiction].
Qed.

End Registry.

(* ---------- one registry: steps and histories ---------- *)

Definition act_covers (c : rcfg) (p : pers) (a : raction) : Prop :=
  match a with RPrepare names _ => covers c p names | _ => True end.

(* Rename exists for registries with tombstones only (qnames) *)
Definition act_wf (c : rcfg) (a : raction) : Prop :=
  match a with RRename _ _ _ => c_tomb c = true | _ => True end.

Definition act_fault (a : raction) : rfault :=
  match a with RPrepare _ f => f | RRename _ _ f => f | RNop => RNoFault end.

Fixpoint racts_covered (c : rcfg) (p : pers) (l : list raction) : Prop :=
  match l with
  | [] => True
  | a :: r => act_wf c a /\ act_covers c p a /\ racts_covered c (rstep c p a) r
  end.

Section RegistrySteps.
Variable c : rcfg.
Hypothesis Hwf : c_sys_last c < c_max c.

Lemma rstep_rows_ok p a :
  act_wf c a -> rows_ok c (p_rows p) -> act_covers c p a -> rows_ok c (p_rows (rstep c p a)).
Proof.
  destruct a as [names f|old new f|]; cbn; intros Hw Hrows Hcov; auto.
  - apply prepare_rows_ok; auto.
  - apply rename_rows_ok; auto.
Qed.

Lemma rstep_ver p a : p_ver p = 1 -> p_ver (rstep c p a) = 1.
Proof. destruct a; cbn; intros H; auto; [apply prepare_ver | apply rename_ver]; exact H. Qed.

Lemma store_ver_cases p m f : p_ver (fst (store c p m f)) = p_ver p \/ p_ver (fst (store c p m f)) = 1.
Proof. unfold store. destruct f; cbn; auto; destruct (p_ver p =? 1) eqn:E; cbn; auto. Qed.

Lemma rstep_ver_cases p a : p_ver (rstep c p a) = p_ver p \/ p_ver (rstep c p a) = 1.
Proof.
  destruct a as [names f|old new f|]; cbn; auto.
  - unfold prepare. destruct (load c p); auto. cbn zeta. destruct (cs_err _); auto. destruct (cs_changed _); auto.
    match goal with |- context [store c p ?mm f] => pose proof (store_ver_cases p mm f) as H; destruct (store c p mm f) end. exact H.
  - unfold rename. destruct (lex_eqb old new); auto. destruct (load c p); auto.
    destruct (sm_get old (m_names m)); auto. destruct (sm_get new (m_names m)); auto.
    match goal with |- context [store c p ?mm f] => pose proof (store_ver_cases p mm f) as H; destruct (store c p mm f) end. exact H.
Qed.

Lemma reads_rows_step p a : reads_rows c p = true -> reads_rows c (rstep c p a) = true.
Proof.
  unfold reads_rows. intros H. destruct (rstep_ver_cases p a) as [E|E]; rewrite E; auto.
Qed.

Lemma rstep_stable p a n id :
  act_wf c a -> rows_ok c (p_rows p) -> reads_rows c p = true ->
  sm_get n (p_rows p) = Some id -> skip c id = false ->
  (forall new f, a <> RRename n new f) ->
  sm_get n (p_rows (rstep c p a)) = Some id.
Proof.
  destruct a as [names f|old new f|]; cbn; intros Hw Hrows Hr Hg Hsk Hnr; auto.
  - apply prepare_stable; auto.
  - apply rename_stable; auto. intros ->. apply (Hnr new f). reflexivity.
Qed.

Theorem rrun_rows_ok l : forall p,
  rows_ok c (p_rows p) -> racts_covered c p l -> rows_ok c (p_rows (rrun c p l)).
Proof.
  induction l as [|a r IH]; intros p Hrows Hcov; cbn; auto.
  destruct Hcov as (Hw & Hc & Hrest). apply IH; auto. apply rstep_rows_ok; auto.
Qed.

Theorem rrun_stable l : forall p n id,
  rows_ok c (p_rows p) -> racts_covered c p l -> reads_rows c p = true ->
  sm_get n (p_rows p) = Some id -> skip c id = false ->
  (forall new f, ~ In (RRename n new f) l) ->
  sm_get n (p_rows (rrun c p l)) = Some id /\ reads_rows c (rrun c p l) = true.
Proof.
  induction l as [|a r IH]; intros p n id Hrows Hcov Hr Hg Hsk Hnr; cbn; auto.
  destruct Hcov as (Hw & Hc & Hrest). apply IH; auto.
  - apply rstep_rows_ok; auto.
  - apply reads_rows_step; auto.
  - apply rstep_stable; auto. intros new f ->. apply (Hnr new f). left; reflexivity.
  - intros new f Hin. apply (Hnr new f). right; exact Hin.
Qed.

(* no interruption between the rows and the version row: the registry is always either
   empty or read, hence every Prepare covers its rows *)
Definition clean (p : pers) : Prop := reads_rows c p = true \/ p_rows p = [].

Lemma clean_covers p names : clean p -> covers c p names.
Proof. intros [H|H]; [left; exact H | right; rewrite H; cbn; discriminate]. Qed.

Lemma store_clean p m f : f <> RFailVer -> fst (store c p m f) = p \/ p_ver (fst (store c p m f)) = 1.
Proof. unfold store. destruct f; cbn; auto; try contradiction; destruct (p_ver p =? 1); cbn; auto. Qed.

Lemma rstep_clean p a : act_fault a <> RFailVer -> clean p -> clean (rstep c p a).
Proof.
  intros Hf Hc.
  assert (Hcases : rstep c p a = p \/ p_ver (rstep c p a) = 1).
  { destruct a as [names f|old new f|]; cbn in *; auto.
    - unfold prepare. destruct (load c p); auto. cbn zeta. destruct (cs_err _); auto. destruct (cs_changed _); auto.
      match goal with |- context [store c p ?mm f] => pose proof (store_clean p mm f Hf) as H; destruct (store c p mm f) end. exact H.
    - unfold rename. destruct (lex_eqb old new); auto. destruct (load c p); auto.
      destruct (sm_get old (m_names m)); auto. destruct (sm_get new (m_names m)); auto.
      match goal with |- context [store c p ?mm f] => pose proof (store_clean p mm f Hf) as H; destruct (store c p mm f) end. exact H. }
  destruct Hcases as [E|E]; [rewrite E; exact Hc|]. left. unfold reads_rows. rewrite E. reflexivity.
Qed.

End RegistrySteps.

(* ---------- the application ---------- *)

Lemma cfg_q_wf : c_sys_last cfg_q < c_max cfg_q. Proof. vm_compute. reflexivity. Qed.
Lemma cfg_c_wf : c_sys_last cfg_c < c_max cfg_c. Proof. vm_compute. reflexivity. Qed.
Lemma cfg_s_wf : c_sys_last cfg_s < c_max cfg_s. Proof. vm_compute. reflexivity. Qed.

Definition sys_ok (s : sys) : Prop :=
  rows_ok cfg_q (p_rows (s_q s)) /\ rows_ok cfg_c (p_rows (s_c s)) /\ rows_ok cfg_s (p_rows (s_s s)).

Definition sys_covers (s : sys) (a : action) : Prop :=
  act_covers cfg_q (s_q s) (act_q s a) /\ act_covers cfg_c (s_c s) (act_c s a) /\ act_covers cfg_s (s_s s) (act_s s a).

Fixpoint sys_covered (s : sys) (l : list action) : Prop :=
  match l with
  | [] => True
  | a :: r => sys_covers s a /\ sys_covered (fst (sys_step s a)) r
  end.

Lemma sys_step_proj s a :
  s_q (fst (sys_step s a)) = rstep cfg_q (s_q s) (act_q s a) /\
  s_c (fst (sys_step s a)) = rstep cfg_c (s_c s) (act_c s a) /\
  s_s (fst (sys_step s a)) = rstep cfg_s (s_s s) (act_s s a).
Proof.
  destruct a as [qn cn sn f|old new f]; cbn.
  - destruct (prepare cfg_q (s_q s) qn (fault_for f 0)) as [q' [mq|e]]; cbn; [|auto].
    destruct (prepare cfg_c (s_c s) cn (fault_for f 1)) as [c' [mc|e]]; cbn; [|auto].
    destruct (prepare cfg_s (s_s s) sn (fault_for f 2)) as [s' [ms|e]]; cbn; auto.
  - destruct (rename cfg_q (s_q s) old new (fault_for f 0)) as [q' code]; cbn; auto.
Qed.

Lemma act_wf_q s a : act_wf cfg_q (act_q s a). Proof. destruct a; cbn; auto. Qed.
Lemma act_wf_c s a : act_wf cfg_c (act_c s a).
Proof. destruct a; cbn; auto. destruct (snd _); cbn; auto. Qed.
Lemma act_wf_s s a : act_wf cfg_s (act_s s a).
Proof. destruct a; cbn; auto. destruct (snd _); cbn; auto. destruct (snd _); cbn; auto. Qed.

Lemma sys_step_ok s a : sys_ok s -> sys_covers s a -> sys_ok (fst (sys_step s a)).
Proof.
  intros (Hq & Hc & Hs) (Cq & Cc & Cs). destruct (sys_step_proj s a) as (Eq & Ec & Es).
  unfold sys_ok. rewrite Eq, Ec, Es. split; [|split].
  - apply rstep_rows_ok; auto using cfg_q_wf, act_wf_q.
  - apply rstep_rows_ok; auto using cfg_c_wf, act_wf_c.
  - apply rstep_rows_ok; auto using cfg_s_wf, act_wf_s.
Qed.

Theorem sys_run_ok l : forall s, sys_ok s -> sys_covered s l -> sys_ok (sys_run s l).
Proof.
  induction l as [|a r IH]; intros s Hok Hcov; cbn; auto.
  destruct Hcov as [Hc Hrest]. apply IH; auto. apply sys_step_ok; auto.
Qed.

(* registry selector: 0 qnames, 1 containers, 2 singletons *)
Definition cfg_of (r : N) : rcfg := if r =? 0 then cfg_q else if r =? 1 then cfg_c else cfg_s.
Definition sel (r : N) (s : sys) : pers := if r =? 0 then s_q s else if r =? 1 then s_c s else s_s s.
Definition act_of (r : N) (s : sys) (a : action) : raction :=
  if r =? 0 then act_q s a else if r =? 1 then act_c s a else act_s s a.

Lemma cfg_of_wf r : c_sys_last (cfg_of r) < c_max (cfg_of r).
Proof. unfold cfg_of. destruct (r =? 0); [apply cfg_q_wf|]. destruct (r =? 1); [apply cfg_c_wf|apply cfg_s_wf]. Qed.

Lemma sel_step r s a : sel r (fst (sys_step s a)) = rstep (cfg_of r) (sel r s) (act_of r s a).
Proof.
  destruct (sys_step_proj s a) as (Eq & Ec & Es). unfold sel, cfg_of, act_of.
  destruct (r =? 0); [exact Eq|]. destruct (r =? 1); [exact Ec|exact Es].
Qed.

Lemma sel_ok r s : sys_ok s -> rows_ok (cfg_of r) (p_rows (sel r s)).
Proof. intros (Hq & Hc & Hs). unfold sel, cfg_of. destruct (r =? 0); auto. destruct (r =? 1); auto. Qed.

Lemma sel_covers r s a : sys_covers s a -> act_covers (cfg_of r) (sel r s) (act_of r s a).
Proof. intros (Hq & Hc & Hs). unfold sel, cfg_of, act_of. destruct (r =? 0); auto. destruct (r =? 1); auto. Qed.

Lemma act_of_wf r s a : act_wf (cfg_of r) (act_of r s a).
Proof.
  unfold cfg_of, act_of. destruct (r =? 0); [apply act_wf_q|]. destruct (r =? 1); [apply act_wf_c|apply act_wf_s].
Qed.

(* a system action renames n in registry r only if it is a Rename of n and r is the qnames registry *)
Lemma act_of_rename r s a n new f : act_of r s a = RRename n new f -> r = 0 /\ exists f', a = ARename n new f'.
Proof.
  unfold act_of. destruct (r =? 0) eqn:E0.
  - apply N.eqb_eq in E0. destruct a; cbn; intros H; inversion H; subst. split; auto. eexists; reflexivity.
  - destruct (r =? 1).
    + destruct a; cbn; [destruct (snd _)|]; discriminate.
    + destruct a; cbn; [destruct (snd _); [destruct (snd _)|]|]; discriminate.
Qed.

Theorem sys_run_stable r l : forall s n id,
  sys_ok s -> sys_covered s l -> reads_rows (cfg_of r) (sel r s) = true ->
  sm_get n (p_rows (sel r s)) = Some id -> skip (cfg_of r) id = false ->
  (r = 0 -> forall new f, ~ In (ARename n new f) l) ->
  sm_get n (p_rows (sel r (sys_run s l))) = Some id /\ reads_rows (cfg_of r) (sel r (sys_run s l)) = true.
Proof.
  induction l as [|a rest IH]; intros s n id Hok Hcov Hr Hg Hsk Hnr; cbn; auto.
  destruct Hcov as [Hc Hrest]. apply IH; auto.
  - apply sys_step_ok; auto.
  - rewrite sel_step. apply reads_rows_step. exact Hr.
  - rewrite sel_step. apply rstep_stable; auto using cfg_of_wf, act_of_wf, sel_ok.
    intros new f E. apply act_of_rename in E. destruct E as [E0 [f' Ea]]. subst a.
    apply (Hnr E0 new f'). left; reflexivity.
  - intros E0 new f Hin. apply (Hnr E0 new f). right; exact Hin.
Qed.

(* what a successful start hands to the application, per registry *)
Definition lookup_ok (c : rcfg) (m : mem) (names : list bytes) (p' : pers) : Prop :=
  (forall n, In n names -> exists id, sm_get n (m_names m) = Some id) /\
  (forall n1 n2 id, sm_get n1 (m_names m) = Some id -> sm_get n2 (m_names m) = Some id -> n1 = n2) /\
  (forall n id, sm_get n (m_names m) = Some id ->
     c_sys_last c < id < c_max c /\ id_name (m_ids m) id = Some n /\ sm_get n (p_rows p') = Some id).

Lemma prepare_lookup_ok c p names f p' m :
  c_sys_last c < c_max c -> rows_ok c (p_rows p) -> covers c p names ->
  prepare c p names f = (p', ROk m) -> lookup_ok c m names p'.
Proof.
  intros Hwf Hrows Hcov E. destruct (prepare_mem_ok c Hwf p names f p' m Hrows Hcov E) as (Hok & Hall & Hrow & _).
  split; [exact Hall|split].
  - intros n1 n2 id H1 H2. eapply mem_ok_injective; eauto.
  - intros n id Hg. destruct Hok as (_ & He & _ & Hl). destruct (He n id Hg) as [Hb Hn].
    split; [lia|split; [exact Hn|apply Hrow; exact Hg]].
Qed.

Lemma start_inv s qn cn sn f s' mq mc ms :
  sys_step s (AStart qn cn sn f) = (s', SOk mq mc ms) ->
  prepare cfg_q (s_q s) qn (fault_for f 0) = (s_q s', ROk mq) /\
  prepare cfg_c (s_c s) cn (fault_for f 1) = (s_c s', ROk mc) /\
  prepare cfg_s (s_s s) sn (fault_for f 2) = (s_s s', ROk ms).
Proof.
  cbn. destruct (prepare cfg_q (s_q s) qn (fault_for f 0)) as [q' [mq'|e]]; [|discriminate].
  destruct (prepare cfg_c (s_c s) cn (fault_for f 1)) as [c' [mc'|e]]; [|discriminate].
  destruct (prepare cfg_s (s_s s) sn (fault_for f 2)) as [t' [ms'|e]]; [|discriminate].
  intros H; inversion H; subst; cbn. auto.
Qed.

Theorem start_lookup_ok s qn cn sn f s' mq mc ms :
  sys_ok s -> sys_covers s (AStart qn cn sn f) ->
  sys_step s (AStart qn cn sn f) = (s', SOk mq mc ms) ->
  lookup_ok cfg_q mq qn (s_q s') /\ lookup_ok cfg_c mc cn (s_c s') /\ lookup_ok cfg_s ms sn (s_s s').
Proof.
  intros (Hq & Hc & Hs) (Cq & Cc & Cs) E. destruct (start_inv _ _ _ _ _ _ _ _ _ E) as (Eq & Ec & Es).
  cbn in Cq, Cc, Cs. rewrite Eq in Cc, Cs. rewrite Ec in Cs. cbn in Cc, Cs.
  split; [|split]; eapply prepare_lookup_ok; eauto using cfg_q_wf, cfg_c_wf, cfg_s_wf.
Qed.

Definition mem_of (r : N) (mq mc ms : mem) : mem := if r =? 0 then mq else if r =? 1 then mc else ms.

(* a successful start returns the stored ID of every stored live name *)
Theorem start_returns_stored s qn cn sn f s' mq mc ms r n id :
  sys_ok s -> sys_covers s (AStart qn cn sn f) ->
  sys_step s (AStart qn cn sn f) = (s', SOk mq mc ms) ->
  reads_rows (cfg_of r) (sel r s) = true ->
  sm_get n (p_rows (sel r s)) = Some id -> skip (cfg_of r) id = false ->
  sm_get n (m_names (mem_of r mq mc ms)) = Some id.
Proof.
  intros (Hq & Hc & Hs) (Cq & Cc & Cs) E. destruct (start_inv _ _ _ _ _ _ _ _ _ E) as (Eq & Ec & Es).
  cbn in Cq, Cc, Cs. rewrite Eq in Cc, Cs. rewrite Ec in Cs. cbn in Cc, Cs.
  unfold cfg_of, sel, mem_of. destruct (r =? 0); [|destruct (r =? 1)]; intros Hr Hg Hsk.
  - destruct (prepare_mem_ok cfg_q cfg_q_wf _ _ _ _ _ Hq Cq Eq) as (_ & _ & _ & H). apply H; auto.
  - destruct (prepare_mem_ok cfg_c cfg_c_wf _ _ _ _ _ Hc Cc Ec) as (_ & _ & _ & H). apply H; auto.
  - destruct (prepare_mem_ok cfg_s cfg_s_wf _ _ _ _ _ Hs Cs Es) as (_ & _ & _ & H). apply H; auto.
Qed.

(* data written under an ID is decoded with the name it was written under *)
Theorem decode_roundtrip s qn cn sn f s' mq mc ms n id :
  sys_ok s -> sys_covers s (AStart qn cn sn f) ->
  sys_step s (AStart qn cn sn f) = (s', SOk mq mc ms) ->
  In n qn -> sm_get n (m_names mq) = Some id -> decode mq qn id = Some n.
Proof.
  intros Hok Hcov E Hin Hg. destruct (start_lookup_ok _ _ _ _ _ _ _ _ _ Hok Hcov E) as ((_ & _ & H) & _).
  destruct (H n id Hg) as (_ & Hn & _). unfold decode. rewrite Hn.
  replace (existsb (lex_eqb n) qn) with true; [reflexivity|].
  symmetry. apply existsb_exists. exists n. split; [exact Hin|apply lex_eqb_refl].
Qed.

(* ---------- histories without an interruption between rows and version row ---------- *)

Definition fault_of (a : action) : fault := match a with AStart _ _ _ f => f | ARename _ _ f => f end.
Definition no_ver_failure (a : action) : Prop := match fault_of a with FailVer _ => False | _ => True end.

Definition sys_clean (s : sys) : Prop := clean cfg_q (s_q s) /\ clean cfg_c (s_c s) /\ clean cfg_s (s_s s).

Lemma fault_for_not_ver f r : match f with FailVer _ => False | _ => True end -> fault_for f r <> RFailVer.
Proof. destruct f; cbn; intros H; try contradiction; try discriminate. destruct (r =? r0); discriminate. Qed.

Lemma act_fault_q s a : no_ver_failure a -> act_fault (act_q s a) <> RFailVer.
Proof. destruct a; cbn; apply fault_for_not_ver. Qed.
Lemma act_fault_c s a : no_ver_failure a -> act_fault (act_c s a) <> RFailVer.
Proof. destruct a; cbn; intros H; [destruct (snd _); cbn; [apply fault_for_not_ver; exact H|discriminate]|discriminate]. Qed.
Lemma act_fault_s s a : no_ver_failure a -> act_fault (act_s s a) <> RFailVer.
Proof.
  destruct a; cbn; intros H; [|discriminate].
  destruct (snd _); cbn; [destruct (snd _); cbn; [apply fault_for_not_ver; exact H|discriminate]|discriminate].
Qed.

Lemma sys_clean_covers s a : sys_clean s -> sys_covers s a.
Proof.
  intros (Hq & Hc & Hs). split; [|split].
  - destruct (act_q s a); cbn; auto. apply clean_covers; auto.
  - destruct (act_c s a); cbn; auto. apply clean_covers; auto.
  - destruct (act_s s a); cbn; auto. apply clean_covers; auto.
Qed.

Lemma sys_step_clean s a : no_ver_failure a -> sys_clean s -> sys_clean (fst (sys_step s a)).
Proof.
  intros Hf (Hq & Hc & Hs). destruct (sys_step_proj s a) as (Eq & Ec & Es). unfold sys_clean. rewrite Eq, Ec, Es.
  split; [|split]; apply rstep_clean; auto using act_fault_q, act_fault_c, act_fault_s.
Qed.

Theorem clean_history_covered l : forall s, sys_clean s -> Forall no_ver_failure l -> sys_covered s l.
Proof.
  induction l as [|a r IH]; intros s Hc Hf; cbn; auto.
  inversion Hf; subst. split; [apply sys_clean_covers; exact Hc|]. apply IH; auto. apply sys_step_clean; auto.
Qed.

Definition fresh : sys := mkSys (mkPers [] 0) (mkPers [] 0) (mkPers [] 0).

Lemma fresh_ok : sys_ok fresh.
Proof.
  assert (H : forall c, rows_ok c []).
  { intros c. split; [constructor|split]; cbn; discriminate. }
  split; [|split]; apply H.
Qed.

Lemma fresh_clean : sys_clean fresh.
Proof. split; [|split]; right; reflexivity. Qed.

(* ---------- the interrupted first store (F20) ---------- *)

Lemma collect_all_only c names : forall s n,
  sm_get n (m_names (cs_mem (fold_left (collect c) names s))) <> None ->
  sm_get n (m_names (cs_mem s)) <> None \/ In n names.
Proof.
  induction names as [|x r IH]; intros s n H; cbn in *; auto.
  destruct (IH _ _ H) as [H1|H1]; [|right; right; exact H1].
  unfold collect in H1. destruct (sm_get x (m_names (cs_mem s))) eqn:Ex; auto.
  destruct (first_free _ _ _ _); cbn in H1; auto.
  rewrite sm_get_put in H1. destruct (bytes_eq_dec n x) as [->|Hne]; [right; left; reflexivity|left; exact H1].
Qed.

(* starting from an empty registry, whatever a Prepare leaves behind (even when interrupted
   between rows and version row) are rows of names of its schema *)
Lemma prepare_from_empty c p names f n id :
  c_sys_last c < c_max c -> p_rows p = [] ->
  sm_get n (p_rows (fst (prepare c p names f))) = Some id -> In n names.
Proof.
  intros Hwf He Hg.
  assert (Hrows : rows_ok c (p_rows p)) by (rewrite He; split; [constructor|split]; cbn; discriminate).
  destruct (prepare_cases c Hwf p names f Hrows) as [[_ E]|[Hv (m0 & Hl & Hok & Hc)]].
  - rewrite E in Hg. cbn [fst] in Hg. rewrite He in Hg. discriminate.
  - assert (Hm0 : forall k, sm_get k (m_names m0) = None).
    { intros k. destruct (load_spec c Hwf p Hrows Hv) as (m0' & Hl' & _ & Hread & Hnoread).
      rewrite Hl in Hl'; inversion Hl'; subst m0'. destruct (reads_rows c p) eqn:Er.
      - destruct (sm_get k (m_names m0)) eqn:Ek; auto. apply (Hread eq_refl) in Ek. rewrite He in Ek. destruct Ek; discriminate.
      - rewrite (Hnoread eq_refl). reflexivity. }
    cbn zeta in Hc. destruct Hc as [[_ E]|[(_ & _ & _ & E)|(_ & _ & E)]]; rewrite E in Hg; cbn [fst] in Hg;
      try (rewrite He in Hg; discriminate).
    destruct (store_fst c p (cs_mem (collect_all c m0 names)) f) as [[Ef _]|[Ef _]]; rewrite Ef in Hg;
      [rewrite He in Hg; discriminate|].
    destruct (collect_all_from c Hwf m0 names Hok) as (Hok' & _).
    rewrite store_rows_get in Hg by (auto; rewrite He; constructor). rewrite He in Hg.
    destruct (collect_all_only c names (mkCst m0 false false) n) as [H|H]; auto.
    + unfold collect_all in Hg. destruct (sm_get n (m_names (cs_mem (fold_left (collect c) names (mkCst m0 false false))))); [discriminate|discriminate].
    + cbn in H. rewrite Hm0 in H. contradiction.
Qed.

Lemma rstep_from_empty c p a n id :
  c_sys_last c < c_max c -> p_rows p = [] ->
  sm_get n (p_rows (rstep c p a)) = Some id ->
  match a with RPrepare names _ => In n names | _ => False end.
Proof.
  intros Hwf He Hg. destruct a as [names f|old new f|]; cbn in *.
  - eapply prepare_from_empty; eauto.
  - assert (Hrows : rows_ok c (p_rows p)) by (rewrite He; split; [constructor|split]; cbn; discriminate).
    assert (E : fst (rename c p old new f) = p).
    { unfold rename. destruct (lex_eqb old new); [reflexivity|].
      destruct (1 <? p_ver p) eqn:Ev; [unfold load; rewrite Ev; reflexivity|]. apply N.ltb_ge in Ev.
      destruct (load_spec c Hwf p Hrows Ev) as (m & Hl & _ & Hread & Hnoread). rewrite Hl.
      assert (Ho : sm_get old (m_names m) = None).
      { destruct (reads_rows c p) eqn:Er.
        - destruct (sm_get old (m_names m)) eqn:Ek; auto. apply (Hread eq_refl) in Ek. rewrite He in Ek. destruct Ek; discriminate.
        - rewrite (Hnoread eq_refl). reflexivity. }
      rewrite Ho. reflexivity. }
    rewrite E, He in Hg. discriminate.
  - rewrite He in Hg. discriminate.
Qed.

Definition sys_empty (s : sys) : Prop := p_rows (s_q s) = [] /\ p_rows (s_c s) = [] /\ p_rows (s_s s) = [].

(* T: a first start interrupted anywhere (any failure point, any registry) is harmless when the
   retry's schema still contains every name of the interrupted one *)
Theorem interrupted_first_store_covered s qn1 cn1 sn1 f1 qn2 cn2 sn2 f2 :
  sys_empty s -> incl qn1 qn2 -> incl cn1 cn2 -> incl sn1 sn2 ->
  sys_covered s [AStart qn1 cn1 sn1 f1; AStart qn2 cn2 sn2 f2].
Proof.
  intros (Eq & Ec & Es) Iq Ic Is.
  assert (Hemp : forall c p names, p_rows p = [] -> covers c p names)
    by (intros c p names E; right; rewrite E; cbn; discriminate).
  split; [|split; [|exact I]].
  - split; [|split].
    + cbn. apply Hemp; auto.
    + destruct (act_c s (AStart qn1 cn1 sn1 f1)); cbn; auto.
    + destruct (act_s s (AStart qn1 cn1 sn1 f1)); cbn; auto.
  - destruct (sys_step_proj s (AStart qn1 cn1 sn1 f1)) as (Pq & Pc & Ps).
    set (s1 := fst (sys_step s (AStart qn1 cn1 sn1 f1))) in *.
    split; [|split].
    + cbn. right. intros n id Hg _. rewrite Pq in Hg.
      apply (rstep_from_empty cfg_q _ _ _ _ cfg_q_wf Eq) in Hg. cbn in Hg. apply Iq; exact Hg.
    + destruct (act_c s1 (AStart qn2 cn2 sn2 f2)) as [names f| |] eqn:Ea; cbn; auto.
      assert (names = cn2) by (cbn in Ea; destruct (snd _); inversion Ea; reflexivity). subst names.
      right. intros n id Hg _. rewrite Pc in Hg.
      apply (rstep_from_empty cfg_c _ _ _ _ cfg_c_wf Ec) in Hg.
      cbn in Hg. destruct (snd _); [apply Ic; exact Hg|contradiction].
    + destruct (act_s s1 (AStart qn2 cn2 sn2 f2)) as [names f| |] eqn:Ea; cbn; auto.
      assert (names = sn2) by (cbn in Ea; destruct (snd _); [destruct (snd _)|]; inversion Ea; reflexivity). subst names.
      right. intros n id Hg _. rewrite Ps in Hg.
      apply (rstep_from_empty cfg_s _ _ _ _ cfg_s_wf Es) in Hg.
      cbn in Hg. destruct (snd _); [destruct (snd _)|]; try contradiction. apply Is; exact Hg.
Qed.

(* ---------- stability across a whole history, as seen by the application ---------- *)

Lemma prepare_ok_reads c p names f p' m n id :
  c_sys_last c < c_max c -> rows_ok c (p_rows p) ->
  prepare c p names f = (p', ROk m) -> sm_get n (m_names m) = Some id -> reads_rows c p' = true.
Proof.
  intros Hwf Hrows E Hg.
  destruct (prepare_cases c Hwf p names f Hrows) as [[_ E']|[Hv (m0 & Hl & Hok & Hc)]]; [congruence|].
  destruct (load_spec c Hwf p Hrows Hv) as (m0' & Hl' & _ & _ & Hnoread). rewrite Hl in Hl'; inversion Hl'; subst m0'.
  cbn zeta in Hc. destruct Hc as [[_ E']|[(_ & _ & _ & E')|(_ & _ & E')]]; rewrite E' in E.
  - discriminate.
  - inversion E; subst p' m. destruct (reads_rows c p) eqn:Er; auto.
    rewrite (Hnoread eq_refl) in Hg. cbn in Hg. discriminate.
  - revert E. unfold store. destruct f; cbn; try discriminate; destruct (p_ver p =? 1) eqn:Ev; cbn; try discriminate;
      intros E; inversion E; subst p'; unfold reads_rows; cbn; reflexivity.
Qed.

Definition never_renamed (n : bytes) (l : list action) : Prop := forall new f, ~ In (ARename n new f) l.

(* T (stable, as observed): the ID a successful start returned for a name is returned again by
   every later successful start, whatever happened in between except a Rename of that name *)
Theorem start_ids_stable r s qn cn sn f s1 mq mc ms n id l qn' cn' sn' f' s2 mq' mc' ms' :
  sys_ok s -> sys_covers s (AStart qn cn sn f) ->
  sys_step s (AStart qn cn sn f) = (s1, SOk mq mc ms) ->
  sm_get n (m_names (mem_of r mq mc ms)) = Some id ->
  sys_covered s1 l -> (r = 0 -> never_renamed n l) ->
  sys_covers (sys_run s1 l) (AStart qn' cn' sn' f') ->
  sys_step (sys_run s1 l) (AStart qn' cn' sn' f') = (s2, SOk mq' mc' ms') ->
  sm_get n (m_names (mem_of r mq' mc' ms')) = Some id.
Proof.
  intros Hok Hcov E Hg Hcl Hnr Hcov' E'.
  assert (Hok1 : sys_ok s1) by (replace s1 with (fst (sys_step s (AStart qn cn sn f))) by (rewrite E; reflexivity); apply sys_step_ok; auto).
  destruct (start_inv _ _ _ _ _ _ _ _ _ E) as (Eq & Ec & Es).
  destruct (start_lookup_ok _ _ _ _ _ _ _ _ _ Hok Hcov E) as (Lq & Lc & Ls).
  destruct Hok as (Hq & Hc & Hs).
  assert (H1 : reads_rows (cfg_of r) (sel r s1) = true /\ sm_get n (p_rows (sel r s1)) = Some id /\ skip (cfg_of r) id = false).
  { unfold cfg_of, sel, mem_of in *. destruct (r =? 0); [|destruct (r =? 1)].
    - destruct Lq as (_ & _ & L). destruct (L n id Hg) as (Hr & _ & Hrow).
      split; [eapply prepare_ok_reads; eauto using cfg_q_wf|split; [exact Hrow|apply skip_in_range; lia]].
    - destruct Lc as (_ & _ & L). destruct (L n id Hg) as (Hr & _ & Hrow).
      split; [eapply prepare_ok_reads; eauto using cfg_c_wf|split; [exact Hrow|apply skip_in_range; lia]].
    - destruct Ls as (_ & _ & L). destruct (L n id Hg) as (Hr & _ & Hrow).
      split; [eapply prepare_ok_reads; eauto using cfg_s_wf|split; [exact Hrow|apply skip_in_range; lia]]. }
  destruct H1 as (Hr1 & Hg1 & Hsk).
  destruct (sys_run_stable r l s1 n id Hok1 Hcl Hr1 Hg1 Hsk Hnr) as [Hg2 Hr2].
  apply (start_returns_stored (sys_run s1 l) qn' cn' sn' f' s2 mq' mc' ms' r n id); auto. apply sys_run_ok; auto.
Qed.

(* T (data): a row written under a name's ID is decoded with that name by every later start
   whose schema still has the name *)
Theorem decode_stable s qn cn sn f s1 mq mc ms n id l qn' cn' sn' f' s2 mq' mc' ms' :
  sys_ok s -> sys_covers s (AStart qn cn sn f) ->
  sys_step s (AStart qn cn sn f) = (s1, SOk mq mc ms) ->
  sm_get n (m_names mq) = Some id ->
  sys_covered s1 l -> never_renamed n l ->
  sys_covers (sys_run s1 l) (AStart qn' cn' sn' f') ->
  sys_step (sys_run s1 l) (AStart qn' cn' sn' f') = (s2, SOk mq' mc' ms') ->
  In n qn' -> decode mq' qn' id = Some n.
Proof.
  intros Hok Hcov E Hg Hcl Hnr Hcov' E' Hin.
  assert (Hok1 : sys_ok s1) by (replace s1 with (fst (sys_step s (AStart qn cn sn f))) by (rewrite E; reflexivity); apply sys_step_ok; auto).
  apply (decode_roundtrip (sys_run s1 l) qn' cn' sn' f' s2 mq' mc' ms' n id); auto; [apply sys_run_ok; auto|].
  apply (start_ids_stable 0 s qn cn sn f s1 mq mc ms n id l qn' cn' sn' f' s2 mq' mc' ms'); auto.
Qed.

(* ---------- registries that read their rows whether or not the version row exists ----------
   (c_needver = false: the shape of load() after the repair proposed for F20; vacuous for the
   code as pinned, where the translator reports c_needver = true) *)

Lemma covers_when_always_read c p names : c_needver c = false -> p_ver p <= 1 -> covers c p names.
Proof.
  intros Hn Hv. left. unfold reads_rows. rewrite Hn. cbn.
  destruct (p_ver p =? 1) eqn:E1; auto. apply N.eqb_neq in E1.
  replace (p_ver p =? 0) with true; [reflexivity|]. symmetry. apply N.eqb_eq. lia.
Qed.

Definition ver_le1 (s : sys) : Prop := p_ver (s_q s) <= 1 /\ p_ver (s_c s) <= 1 /\ p_ver (s_s s) <= 1.

Theorem always_read_histories_covered l : forall s,
  c_needver cfg_q = false -> c_needver cfg_c = false -> c_needver cfg_s = false ->
  ver_le1 s -> sys_covered s l.
Proof.
  induction l as [|a r IH]; intros s Nq Nc Ns (Vq & Vc & Vs); cbn; auto. split.
  - split; [|split].
    + destruct (act_q s a); cbn; auto. apply covers_when_always_read; auto.
    + destruct (act_c s a); cbn; auto. apply covers_when_always_read; auto.
    + destruct (act_s s a); cbn; auto. apply covers_when_always_read; auto.
  - apply IH; auto. destruct (sys_step_proj s a) as (Eq & Ec & Es). unfold ver_le1. rewrite Eq, Ec, Es.
    split; [|split].
    + destruct (rstep_ver_cases cfg_q (s_q s) (act_q s a)) as [E|E]; rewrite E; lia.
    + destruct (rstep_ver_cases cfg_c (s_c s) (act_c s a)) as [E|E]; rewrite E; lia.
    + destruct (rstep_ver_cases cfg_s (s_s s) (act_s s a)) as [E|E]; rewrite E; lia.
Qed.
