(* C06 - operation histories on the key-value backends.
   spec_step : the reference semantics (Storage/Spec.v; pkg/istorage/mem is written exactly
               like it, so it is also the implementation model of the mem backend);
   bb_step   : implementation model of pkg/istorage/bbolt/impl.go (data bucket keyed by
               safeKey(cCols), ttl index, hourly cleaner, cursor range scan).
   Definitions only. *)
From Coq Require Import List NArith ZArith Lia Bool.
From V Require Import Lib.Lex Lib.SMap Lib.Check Storage.Spec Gen.Params.
Import ListNotations.
Local Open Scope Z_scope.

Inductive sop :=
| OPut (pk cc v : bytes)
| OPutBatch (items : list (bytes * bytes * bytes))
| OGet (pk cc : bytes)
| OGetBatch (pk : bytes) (ccs : list bytes)
| ORead (pk start finish : bytes)
| OIns (pk cc v : bytes) (ttl : Z)
| OCas (pk cc old new : bytes) (ttl : Z)
| OCad (pk cc expected : bytes)
| OTTLGet (pk cc : bytes)
| OTTLRead (pk start finish : bytes)
| OQueryTTL (pk cc : bytes)
| OAdvance (ms : Z).

Inductive sout :=
| RUnit
| RErr
| RGet (v : option bytes)
| RBatch (vs : list (option bytes))
| RRows (rows : list (bytes * bytes))
| RBool (b : bool)
| RTTL (t : option Z).

Definition obytes_eqb := option_eqb lex_eqb.
Definition row_eqb (a b : bytes * bytes) : bool := lex_eqb (fst a) (fst b) && lex_eqb (snd a) (snd b).

Definition sout_eqb (a b : sout) : bool :=
  match a, b with
  | RUnit, RUnit => true
  | RErr, RErr => true
  | RGet x, RGet y => obytes_eqb x y
  | RBatch x, RBatch y => list_eqb obytes_eqb x y
  | RRows x, RRows y => list_eqb row_eqb x y
  | RBool x, RBool y => Bool.eqb x y
  | RTTL x, RTTL y => option_eqb Z.eqb x y
  | _, _ => false
  end.

(* ================= reference semantics ================= *)

Definition sstate := (store bytes * Z)%type.   (* rows, now (ms) *)

Definition spec_step (s : sstate) (o : sop) : sstate * sout :=
  let '(st, now) := s in
  match o with
  | OPut pk cc v => ((put st pk cc v, now), RUnit)
  | OPutBatch items => ((put_batch st items, now), RUnit)
  | OGet pk cc => (s, RGet (get now st pk cc))
  | OGetBatch pk ccs => (s, RBatch (get_batch now st pk ccs))
  | ORead pk a b => (s, RRows (read now st pk a b))
  | OIns pk cc v ttl => let '(st', ok) := insert_if_not_exists now st pk cc v ttl in ((st', now), RBool ok)
  | OCas pk cc old new ttl => let '(st', ok) := compare_and_swap lex_eqb now st pk cc old new ttl in ((st', now), RBool ok)
  | OCad pk cc e => let '(st', ok) := compare_and_delete lex_eqb now st pk cc e in ((st', now), RBool ok)
  | OTTLGet pk cc => (s, RGet (get now st pk cc))
  | OTTLRead pk a b => (s, RRows (read now st pk a b))
  | OQueryTTL pk cc => (s, RTTL (query_ttl now st pk cc))
  | OAdvance d => ((st, now + d), RUnit)
  end.

Fixpoint run_spec (s : sstate) (ops : list sop) : list sout :=
  match ops with
  | [] => []
  | o :: r => let '(s', out) := spec_step s o in out :: run_spec s' r
  end.

(* ================= bbolt ================= *)

Definition null_key : bytes := [0%N].
Definition safe_key (cc : bytes) : bytes := match cc with [] => null_key | _ => cc end.
Definition unsafe_key (k : bytes) : bytes :=
  match k with
  | [] => []
  | [0%N] => []
  | _ => k
  end.

Record bb := mkBB {
  bdata : store bytes;                    (* pKey -> bolt key -> (value, expireAt) *)
  bttl : smap (Z * bytes * bytes);        (* ttl-bucket key -> (expireAt, pKey, bolt key) *)
  bnow : Z;
  bnext_clean : Z                         (* when the cleaner's armed timer is due *)
}.

(* makeTTLKey: expireAt(8, BE) ++ len(pKey)(8, BE) ++ pKey ++ safeKey(cCols) *)
Definition ttl_key (exp : Z) (pk scc : bytes) : bytes :=
  be_bytes 8 (Z.to_N exp) ++ be_bytes 8 (N.of_nat (length pk)) ++ pk ++ scc.

Definition bb_raw (b : bb) (pk scc : bytes) : option (row bytes) := raw_lookup (bdata b) pk scc.

(* the TTL-aware lookup used by InsertIfNotExists / findValue / TTLGet / QueryTTL *)
Definition bb_live (b : bb) (pk cc : bytes) : option (row bytes) :=
  match bb_raw b pk (safe_key cc) with
  | Some r => if expired (bnow b) r then None else Some r
  | None => None
  end.

(* putValue *)
Definition bb_put_value (b : bb) (pk cc v : bytes) (ttl : Z) : bb :=
  let exp := exp_of (bnow b) ttl in
  let d := set_row (bdata b) pk (safe_key cc) (mkRow v exp) in
  let t := if 0 <? ttl then sm_put (ttl_key exp pk (safe_key cc)) (exp, pk, safe_key cc) (bttl b) else bttl b in
  mkBB d t (bnow b) (bnext_clean b).

(* bolt refuses an empty key: Put/Delete with the raw (unsafe) empty cCols *)
Definition bolt_key_ok (k : bytes) : bool := match k with [] => false | _ => true end.

(* cursor scan of one bucket: Seek(start) .. while k <= / < finish *)
Definition bb_scan (b : bb) (pk start finish : bytes) (check_ttl : bool) : list (bytes * bytes) :=
  let start' := unsafe_key start in
  let finish' := unsafe_key finish in
  let rows := part (bdata b) pk in
  let from := match start' with [] => rows | _ => filter (fun kv => lex_le (safe_key start') (fst kv)) rows end in
  let upto := match finish' with
              | [] => from
              | _ => filter (fun kv => if bbolt_finish_inclusive then lex_le (fst kv) finish' else lex_lt (fst kv) finish') from
              end in
  let vis := if check_ttl then filter (fun kv => negb (expired (bnow b) (snd kv))) upto else upto in
  map (fun kv => (unsafe_key (fst kv), rval (snd kv))) vis.

Definition absurd_range (start finish : bytes) : bool :=
  match start, finish with
  | _ :: _, _ :: _ => lex_le finish start
  | _, _ => false
  end.

(* removeKey, as the cleaner calls it for one ttl-bucket entry *)
Definition bb_remove_key (b : bb) (tk : bytes) (e : Z * bytes * bytes) : bb :=
  let '(exp, pk, scc) := e in
  let keep := if bbolt_cleaner_checks_expiry
              then match bb_raw b pk scc with Some r => negb (rexp r =? exp) | None => true end
              else false in
  let d := if keep then bdata b else del_row (bdata b) pk scc in
  mkBB d (sm_del tk (bttl b)) (bnow b) (bnext_clean b).

(* the cleaner walks the ttl bucket in key order and stops at the first entry not yet due *)
Fixpoint bb_clean_entries (b : bb) (es : list (bytes * (Z * bytes * bytes))) : bb :=
  match es with
  | [] => b
  | (tk, (exp, pk, scc)) :: r =>
      if bnow b <? exp then b else bb_clean_entries (bb_remove_key b tk (exp, pk, scc)) r
  end.

Definition bb_clean (b : bb) : bb := bb_clean_entries b (bttl b).

Definition bb_step (b : bb) (o : sop) : bb * sout :=
  match o with
  | OPut pk cc v =>
      (mkBB (set_row (bdata b) pk (safe_key cc) (mkRow v 0)) (bttl b) (bnow b) (bnext_clean b), RUnit)
  | OPutBatch items =>
      (* one transaction: any refused key fails the whole batch *)
      if forallb (fun it => bbolt_putbatch_safekey || bolt_key_ok (snd (fst it))) items
      then (mkBB (fold_left (fun d it => set_row d (fst (fst it)) (safe_key (snd (fst it))) (mkRow (snd it) 0)) items (bdata b))
                 (bttl b) (bnow b) (bnext_clean b), RUnit)
      else (b, RErr)
  | OGet pk cc => (b, RGet (option_map rval (bb_raw b pk (safe_key cc))))
  | OGetBatch pk ccs =>
      (b, RBatch (map (fun cc => match bb_raw b pk (safe_key cc) with
                                 | Some r => if bbolt_getbatch_ok_nonempty
                                             then (match rval r with [] => None | _ => Some (rval r) end)
                                             else Some (rval r)
                                 | None => None
                                 end) ccs))
  | ORead pk a f => (b, RRows (if absurd_range a f then [] else bb_scan b pk a f false))
  | OIns pk cc v ttl =>
      match bb_live b pk cc with
      | Some _ => (b, RBool false)
      | None => (bb_put_value b pk cc v ttl, RBool true)
      end
  | OCas pk cc old new ttl =>
      match bb_live b pk cc with
      | Some r => if lex_eqb (rval r) old then (bb_put_value b pk cc new ttl, RBool true) else (b, RBool false)
      | None => (b, RBool false)
      end
  | OCad pk cc e =>
      match bb_live b pk cc with
      | Some r =>
          if lex_eqb (rval r) e
          then (* bucket.Delete(cCols) / bucket.Delete(safeKey(cCols)) *)
               let k := if bbolt_cad_safekey then safe_key cc else cc in
               ((if bolt_key_ok k then mkBB (del_row (bdata b) pk k) (bttl b) (bnow b) (bnext_clean b) else b), RBool true)
          else (b, RBool false)
      | None => (b, RBool false)
      end
  | OTTLGet pk cc => (b, RGet (option_map rval (bb_live b pk cc)))
  | OTTLRead pk a f => (b, RRows (if absurd_range a f then [] else bb_scan b pk a f true))
  | OQueryTTL pk cc =>
      (b, RTTL (match bb_live b pk cc with
                | Some r => if rexp r =? 0 then Some 0
                            else if rexp r - bnow b <=? 0 then None else Some ((rexp r - bnow b) / 1000)
                | None => None
                end))
  | OAdvance d =>
      let b1 := mkBB (bdata b) (bttl b) (bnow b + d) (bnext_clean b) in
      if bnext_clean b1 <=? bnow b1
      then let b2 := bb_clean b1 in (mkBB (bdata b2) (bttl b2) (bnow b2) (bnow b2 + bbolt_cleanup_interval_ms), RUnit)
      else (b1, RUnit)
  end.

Definition bb_init : bb := mkBB [] [] 0 bbolt_cleanup_interval_ms.

Fixpoint run_bb (b : bb) (ops : list sop) : list sout :=
  match ops with
  | [] => []
  | o :: r => let '(b', out) := bb_step b o in out :: run_bb b' r
  end.

(* ================= trace checking ================= *)

Inductive backend := Mem | Bbolt.
Record trace := mkTrace { t_backend : backend; t_ops : list sop; t_outs : list sout }.

Definition agrees (t : trace) : bool :=
  list_eqb sout_eqb
    (match t_backend t with Mem => run_spec ([], 0) (t_ops t) | Bbolt => run_bb bb_init (t_ops t) end)
    (t_outs t).

(* Outputs the interface leaves open (pkg/istorage/interface.go): a plain Get/GetBatch/Read that
   touches a row written with a TTL may or may not honour the TTL ("BBolt implementation ignores
   TTL, other - checks TTL"); QueryTTL has whole-second granularity, so with less than one
   second left "0 s" and "gone" are both accepted. Everything else must equal the reference. *)
Definition part_has_ttl (st : store bytes) (pk : bytes) : bool :=
  existsb (fun kv => negb (rexp (snd kv) =? 0)) (part st pk).

Definition dont_care (s : sstate) (o : sop) : bool :=
  let '(st, now) := s in
  match o with
  | OGet pk cc => match raw_lookup st pk cc with Some r => negb (rexp r =? 0) | None => false end
  | OGetBatch pk ccs => existsb (fun cc => match raw_lookup st pk cc with Some r => negb (rexp r =? 0) | None => false end) ccs
  | ORead pk _ _ => part_has_ttl st pk
  | OQueryTTL pk cc => match raw_lookup st pk cc with
                       | Some r => (0 <? rexp r) && (now <? rexp r) && (rexp r - now <? 1000)
                       | None => false
                       end
  | _ => false
  end.

Fixpoint satisfies_from (s : sstate) (ops : list sop) (outs : list sout) : bool :=
  match ops, outs with
  | [], [] => true
  | o :: ro, out :: routs =>
      let '(s', expect) := spec_step s o in
      (dont_care s o || sout_eqb expect out) && satisfies_from s' ro routs
  | _, _ => false
  end.

(* ---- batch reads agree with point reads ----
   Independent of [dont_care]: whatever a backend decides about a plain read of a row written with
   a TTL (mem hides it once expired, bbolt shows it until its cleaner has run), at one instant it
   decides the same for Get and for GetBatch.  "One instant" = a stretch of the history made of
   read operations only: no write, no conditional operation (whatever it answered), no clock
   advance (hence no cleaner run).  Within such a stretch every answer of a Get is remembered in
   [gets] and every item of a GetBatch in [batch] (partition key, clustering columns, observed
   found flag and value); a Get must equal every remembered batch item for its key, and every item
   of a GetBatch must equal every remembered Get of its key.  A GetBatch that answers with another
   number of items than it was asked for fails the clause. *)
Definition is_read (o : sop) : bool :=
  match o with
  | OGet _ _ | OGetBatch _ _ | ORead _ _ _ | OTTLGet _ _ | OTTLRead _ _ _ | OQueryTTL _ _ => true
  | _ => false
  end.

Definition memo := list (bytes * bytes * option bytes).

Definition memo_ok (m : memo) (pk cc : bytes) (v : option bytes) : bool :=
  forallb (fun e => negb (lex_eqb (fst (fst e)) pk && lex_eqb (snd (fst e)) cc) || obytes_eqb (snd e) v) m.

Definition batch_items (pk : bytes) (ccs : list bytes) (vs : list (option bytes)) : memo :=
  map (fun cv => (pk, fst cv, snd cv)) (combine ccs vs).

(* the clause at one position: does this (op, observed output) contradict what was remembered? *)
Definition bp_ok (gets batch : memo) (o : sop) (out : sout) : bool :=
  match o, out with
  | OGet pk cc, RGet v => memo_ok batch pk cc v
  | OGetBatch pk ccs, RBatch vs =>
      Nat.eqb (length ccs) (length vs) && forallb (fun e => memo_ok gets (fst (fst e)) (snd (fst e)) (snd e)) (batch_items pk ccs vs)
  | _, _ => true
  end.

Definition bp_next (gets batch : memo) (o : sop) (out : sout) : memo * memo :=
  match o, out with
  | OGet pk cc, RGet v => ((pk, cc, v) :: gets, batch)
  | OGetBatch pk ccs, RBatch vs => (gets, batch_items pk ccs vs ++ batch)
  | _, _ => if is_read o then (gets, batch) else ([], [])
  end.

Fixpoint batch_point_from (gets batch : memo) (ops : list sop) (outs : list sout) : bool :=
  match ops, outs with
  | o :: ro, out :: routs =>
      bp_ok gets batch o out
      && batch_point_from (fst (bp_next gets batch o out)) (snd (bp_next gets batch o out)) ro routs
  | _, _ => true
  end.

Definition batch_point (ops : list sop) (outs : list sout) : bool := batch_point_from [] [] ops outs.

Definition satisfies (t : trace) : bool :=
  satisfies_from ([], 0) (t_ops t) (t_outs t) && batch_point (t_ops t) (t_outs t).

(* diagnostics: positions of the ops whose output differs from the reference, then the positions of
   the Get / GetBatch ops that contradict a batch item / a Get of the same read-only stretch *)
Fixpoint violations_from (i : N) (s : sstate) (ops : list sop) (outs : list sout) : list N :=
  match ops, outs with
  | o :: ro, out :: routs =>
      let '(s', expect) := spec_step s o in
      (if dont_care s o || sout_eqb expect out then [] else [i]) ++ violations_from (i + 1) s' ro routs
  | _, _ => []
  end.
Fixpoint bp_violations_from (i : N) (gets batch : memo) (ops : list sop) (outs : list sout) : list N :=
  match ops, outs with
  | o :: ro, out :: routs =>
      (if bp_ok gets batch o out then [] else [i])
      ++ bp_violations_from (i + 1) (fst (bp_next gets batch o out)) (snd (bp_next gets batch o out)) ro routs
  | _, _ => []
  end.
Definition violations_at (t : trace) : list N :=
  violations_from 0 ([], 0) (t_ops t) (t_outs t) ++ bp_violations_from 0 [] [] (t_ops t) (t_outs t).
Definition expected_outs (t : trace) : list sout := run_spec ([], 0) (t_ops t).
