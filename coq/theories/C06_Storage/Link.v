(* C06 - link theorem: a history on which a backend agrees with its model passes the oracle. *)
From Coq Require Import List NArith ZArith Lia Bool.
From V Require Import Lib.Lex Lib.SMap Lib.Check Storage.Spec Storage.SpecLaws Gen.Params
     C06_Storage.Model C06_Storage.Proofs C06_Storage.Scan.
Import ListNotations.
Local Open Scope Z_scope.

Lemma obytes_eqb_eq a b : obytes_eqb a b = true <-> a = b.
Proof.
  unfold obytes_eqb, option_eqb. destruct a, b; split; intros H; try discriminate; try reflexivity.
  - apply lex_eqb_eq in H. congruence.
  - inversion H. apply lex_eqb_refl.
Qed.

Lemma row_eqb_eq a b : row_eqb a b = true <-> a = b.
Proof.
  unfold row_eqb. destruct a as [a1 a2], b as [b1 b2]. cbn. rewrite andb_true_iff, !lex_eqb_eq.
  split; [intros [-> ->]; reflexivity|intros E; inversion E; auto].
Qed.

Lemma oz_eqb_eq (a b : option Z) : option_eqb Z.eqb a b = true <-> a = b.
Proof.
  unfold option_eqb. destruct a, b; split; intros H; try discriminate; try reflexivity.
  - apply Z.eqb_eq in H. congruence.
  - inversion H. apply Z.eqb_refl.
Qed.

Lemma sout_eqb_eq a b : sout_eqb a b = true <-> a = b.
Proof.
  destruct a, b; cbn; try (split; intros; congruence).
  - rewrite obytes_eqb_eq. split; congruence.
  - rewrite (list_eqb_eq obytes_eqb obytes_eqb_eq). split; congruence.
  - rewrite (list_eqb_eq row_eqb row_eqb_eq). split; congruence.
  - rewrite Bool.eqb_true_iff. split; congruence.
  - rewrite oz_eqb_eq. split; congruence.
Qed.

Lemma souts_eqb_eq a b : list_eqb sout_eqb a b = true <-> a = b.
Proof. apply list_eqb_eq. exact sout_eqb_eq. Qed.

Lemma refines_run_satisfies ops : forall s b, refines_run s b ops -> satisfies_from s ops (run_bb b ops) = true.
Proof.
  induction ops as [|o ops IH]; intros s b H; cbn [run_bb satisfies_from]; [reflexivity|].
  destruct H as [Hout Hrest].
  destruct (bb_step b o) as [b' ob] eqn:Eb. destruct (spec_step s o) as [s' os] eqn:Es.
  cbn [fst snd] in *. rewrite (IH s' b' Hrest), andb_true_r.
  destruct Hout as [Hd|He]; [rewrite Hd; reflexivity|].
  subst os. rewrite (proj2 (sout_eqb_eq ob ob) eq_refl). apply orb_true_r.
Qed.

Lemma run_spec_satisfies ops : forall s, satisfies_from s ops (run_spec s ops) = true.
Proof.
  induction ops as [|o ops IH]; intros s; cbn [run_spec satisfies_from]; [reflexivity|].
  destruct (spec_step s o) as [s' os] eqn:Es. cbn [fst]. rewrite IH, andb_true_r.
  rewrite (proj2 (sout_eqb_eq os os) eq_refl). apply orb_true_r.
Qed.

(* on every history over clustering columns other than the reserved key on which the observed
   outputs equal the backend model's, the observed outputs pass the oracle: they equal the
   reference wherever the interface does not leave them open, and - everywhere - a GetBatch and a
   Get of one read-only stretch answer alike *)
Theorem agrees_implies_satisfies_proved t : Forall cc_ok_op (t_ops t) -> agrees t = true -> satisfies t = true.
Proof.
  intros Hok H. unfold agrees in H. apply souts_eqb_eq in H. unfold satisfies. rewrite <- H.
  destruct (t_backend t); apply andb_true_intro; split.
  - apply run_spec_satisfies.
  - apply spec_batch_point_proved.
  - apply refines_run_satisfies. apply bbolt_refines_proved; [exact R_init|exact Hok].
  - apply bb_batch_point_proved.
Qed.
