(* C06 - the bbolt cursor scan (Read / TTLRead) returns what the reference range read returns. *)
From Coq Require Import List NArith ZArith Lia Bool.
From V Require Import Lib.Lex Lib.SMap Lib.Check Storage.Spec Storage.SpecLaws Gen.Params C06_Storage.Model C06_Storage.Proofs.
Import ListNotations.
Local Open Scope Z_scope.

(* ---- order facts about the reserved key ---- *)

Lemma null_lt x : x <> [] -> x <> null_key -> lex_lt null_key x = true.
Proof.
  unfold null_key, lex_lt. destruct x as [|y r]; [congruence|]. intros _ H.
  destruct y as [|p]; cbn.
  - destruct r; [congruence|reflexivity].
  - reflexivity.
Qed.

Lemma safe_unsafe k : k <> [] -> safe_key (unsafe_key k) = k /\ okcc (unsafe_key k).
Proof.
  intros H. unfold okcc, null_key. destruct k as [|x [|y r]]; [congruence| |].
  - destruct x; cbn; split; auto; discriminate.
  - cbn. destruct x; cbn; split; auto; discriminate.
Qed.

Lemma le_safe a cc : a <> [] -> okcc a -> okcc cc -> lex_le a (safe_key cc) = lex_le a cc.
Proof.
  intros Ha Oa Oc. destruct cc as [|x r]; [|reflexivity]. cbn [safe_key].
  pose proof (null_lt a Ha Oa) as L. rewrite lex_lt_not_le in L. apply negb_true_iff in L. rewrite L.
  destruct a; [congruence|reflexivity].
Qed.

Lemma lt_safe f cc : f <> [] -> okcc f -> okcc cc -> lex_lt (safe_key cc) f = lex_lt cc f.
Proof.
  intros Hf Of Oc. destruct cc as [|x r]; [|reflexivity]. cbn [safe_key].
  rewrite (null_lt f Hf Of). destruct f; [congruence|reflexivity].
Qed.

Lemma unsafe_ok x : okcc x -> unsafe_key x = x.
Proof. intros H. apply unsafe_safe in H. destruct x; [reflexivity|exact H]. Qed.

(* unsafe_key is strictly monotone on non-empty keys *)
Lemma unsafe_mono a b : a <> [] -> b <> [] -> lex_lt a b = true -> lex_lt (unsafe_key a) (unsafe_key b) = true.
Proof.
  intros Ha Hb L.
  destruct (lex_eqb a null_key) eqn:Ea.
  - apply lex_eqb_eq in Ea. subst a. change (unsafe_key null_key) with (@nil N).
    assert (Nb : b <> null_key) by (intros E; subst; rewrite lex_lt_irrefl in L; discriminate).
    rewrite unsafe_ok by exact Nb. destruct b; [congruence|reflexivity].
  - apply lex_eqb_neq in Ea. rewrite (unsafe_ok a Ea).
    assert (Nb : b <> null_key).
    { intros E. subst b. pose proof (null_lt a Ha Ea) as L2.
      pose proof (lex_lt_trans _ _ _ L L2) as L3. rewrite lex_lt_irrefl in L3. discriminate. }
    rewrite unsafe_ok by exact Nb. exact L.
Qed.

(* ---- sorted lists with the same elements are equal ---- *)
Lemma sorted_ext_In {V} (m1 m2 : smap V) : sorted m1 -> sorted m2 ->
  (forall k v, In (k, v) m1 <-> In (k, v) m2) -> m1 = m2.
Proof.
  intros S1 S2 H. apply sorted_ext; auto. intros k.
  destruct (sm_get k m1) as [v|] eqn:E1.
  - apply sm_get_In in E1; auto. apply H in E1. apply sm_get_In in E1; auto.
  - destruct (sm_get k m2) as [v|] eqn:E2; auto.
    apply sm_get_In in E2; auto. apply H in E2. apply sm_get_In in E2; auto. congruence.
Qed.

Lemma sorted_map_keys {V} (f : bytes -> bytes) (m : smap V) :
  (forall a b, In a (keys m) -> In b (keys m) -> lex_lt a b = true -> lex_lt (f a) (f b) = true) ->
  sorted m -> sorted (map (fun kv => (f (fst kv), snd kv)) m).
Proof.
  intros Hf S. induction S as [|k v|k v k' v' r Hlt Hs IH]; cbn; try constructor.
  - apply Hf; cbn; auto.
  - apply IH. intros a b Ha Hb. apply Hf; cbn in *; auto.
Qed.

(* ---- the scan ---- *)
Section Scan.
Variables (s : sstate) (b : bb).
Hypothesis HR : R s b.

Let st := fst s.
Let now := snd s.

Definition bolt_in_bounds (a f : bytes) (k : bytes) : bool :=
  (match unsafe_key a with [] => true | a' => lex_le (safe_key a') k end)
  && (match unsafe_key f with [] => true | f' => lex_lt k f' end).

Lemma bounds_agree a f cc : okcc a -> okcc f -> okcc cc ->
  bolt_in_bounds a f (safe_key cc) = in_bounds a (hi_of f) cc.
Proof.
  intros Oa Of Oc. unfold bolt_in_bounds, in_bounds, hi_of. rewrite !unsafe_ok by assumption. f_equal.
  - destruct a as [|x r] eqn:Ea; [rewrite lex_nil_le; reflexivity|].
    rewrite <- Ea in *. assert (Na : a <> []) by (subst; discriminate).
    replace (safe_key a) with a by (subst; reflexivity). apply le_safe; auto.
  - destruct f as [|x r] eqn:Ef; [reflexivity|].
    rewrite <- Ef in *. assert (Nf : f <> []) by (subst; discriminate). apply lt_safe; auto.
Qed.

(* the rows the cursor loop passes, before the TTL filter and the key translation *)
Definition bolt_rows (pk a f : bytes) : smap (row bytes) :=
  filter (fun kv => bolt_in_bounds a f (fst kv)) (part (bdata b) pk).

Lemma filter_none {T} (f : T -> bool) (l : list T) : (forall x, In x l -> f x = false) -> filter f l = [].
Proof.
  induction l as [|x l IH]; cbn; auto. intros H. rewrite (H x) by (left; reflexivity). apply IH. intros y Hy. apply H. right. exact Hy.
Qed.

Lemma filter_true' {T} (l : list T) : filter (fun _ => true) l = l.
Proof. induction l as [|x l IH]; cbn; congruence. Qed.

Lemma opt_filter_list {T} (l0 : bytes) (p : T -> bool) (l : list T) :
  (match l0 with [] => l | _ :: _ => filter p l end) = filter (fun x => match l0 with [] => true | _ :: _ => p x end) l.
Proof. destruct l0; [symmetry; apply filter_true'|reflexivity]. Qed.

Lemma opt_filter_bool {T} (c : bool) (p : T -> bool) (l : list T) :
  (if c then filter p l else l) = filter (fun x => if c then p x else true) l.
Proof. destruct c; [reflexivity|symmetry; apply filter_true']. Qed.

Lemma filter_filter {T} (p q : T -> bool) (l : list T) : filter q (filter p l) = filter (fun x => p x && q x) l.
Proof. induction l as [|x l IH]; cbn; auto. destruct (p x); cbn; [destruct (q x); rewrite IH; reflexivity|exact IH]. Qed.

Lemma bb_scan_unfold pk a f ttl :
  bb_scan b pk a f ttl =
  map (fun kv => (unsafe_key (fst kv), rval (snd kv)))
      (filter (fun kv => if ttl then negb (expired (bnow b) (snd kv)) else true) (bolt_rows pk a f)).
Proof.
  unfold bb_scan, bolt_rows, bolt_in_bounds. cbv zeta. rewrite flag_finish_exclusive.
  rewrite opt_filter_bool.
  destruct (unsafe_key a) as [|xa ra], (unsafe_key f) as [|xf rf]; cbv beta iota;
    rewrite ?filter_filter; f_equal; apply filter_ext; intros x; cbn [andb];
    repeat match goal with |- context [?u && true] => rewrite (andb_true_r u) end; rewrite <- ?andb_assoc; reflexivity.
Qed.

(* membership: a live bolt row in bounds <-> a live reference row in bounds *)
Lemma rows_correspond pk a f cc r : okcc a -> okcc f ->
  (In (cc, r) (map (fun kv => (unsafe_key (fst kv), snd kv))
                   (filter (fun kv => negb (expired (bnow b) (snd kv))) (bolt_rows pk a f)))
   <-> In (cc, r) (filter (fun kv => negb (expired now (snd kv))) (sm_range a (hi_of f) (part st pk)))).
Proof.
  intros Oa Of. rewrite (R_now _ _ HR). fold now.
  rewrite in_map_iff. split.
  - intros [[k r'] [E Hin]]. cbn in E. inversion E; subst cc r'. clear E.
    apply filter_In in Hin. destruct Hin as [Hin Hlive]. cbn in Hlive.
    unfold bolt_rows in Hin. apply filter_In in Hin. destruct Hin as [Hin Hb]. cbn in Hb.
    assert (Hget : raw_lookup (bdata b) pk k = Some r) by (apply sm_get_In; [apply (R_bsorted _ _ HR)|exact Hin]).
    pose proof (R_bkeys _ _ HR pk k r Hget) as Hk.
    destruct (safe_unsafe k Hk) as [Es Ok].
    assert (Hs : raw_lookup st pk (unsafe_key k) = Some r).
    { apply (R_sub _ _ HR); auto. unfold bb_raw. rewrite Es. exact Hget. }
    apply filter_In. cbn. split; [|exact Hlive].
    apply sm_range_In. split; [apply sm_get_In; [apply (R_ssorted _ _ HR)|exact Hs]|].
    rewrite <- bounds_agree by assumption. rewrite Es. exact Hb.
  - intros Hin. apply filter_In in Hin. destruct Hin as [Hin Hlive]. cbn in Hlive.
    apply sm_range_In in Hin. destruct Hin as [Hin Hb].
    assert (Hs : raw_lookup st pk cc = Some r) by (apply sm_get_In; [apply (R_ssorted _ _ HR)|exact Hin]).
    pose proof (R_skeys _ _ HR pk cc r Hs) as Oc.
    assert (Hg : bb_raw b pk (safe_key cc) = Some r).
    { apply (R_live _ _ HR); auto. apply negb_true_iff. exact Hlive. }
    exists (safe_key cc, r). cbn. split; [rewrite unsafe_safe by exact Oc; reflexivity|].
    apply filter_In. cbn. split; [|exact Hlive].
    unfold bolt_rows. apply filter_In. cbn. split.
    + apply sm_get_In; [apply (R_bsorted _ _ HR)|exact Hg].
    + rewrite bounds_agree by assumption. exact Hb.
Qed.

Lemma bolt_rows_sorted pk a f : sorted (bolt_rows pk a f).
Proof. unfold bolt_rows. apply filter_sorted. apply (R_bsorted _ _ HR). Qed.

Lemma bolt_rows_keys_nonempty pk a f k : In k (keys (bolt_rows pk a f)) -> k <> [].
Proof.
  unfold keys. rewrite in_map_iff. intros [[k' r] [E Hin]]. cbn in E. subst k'.
  unfold bolt_rows in Hin. apply filter_In in Hin. destruct Hin as [Hin _].
  apply (R_bkeys _ _ HR pk k r). apply sm_get_In; [apply (R_bsorted _ _ HR)|exact Hin].
Qed.

(* TTLRead: the scan equals the reference read *)
Theorem ttl_scan_equals_reference pk a f : okcc a -> okcc f ->
  (if absurd_range a f then [] else bb_scan b pk a f true) = read now st pk a f.
Proof.
  intros Oa Of.
  assert (Main : bb_scan b pk a f true = read now st pk a f).
  { rewrite bb_scan_unfold. unfold read.
    set (L := filter (fun kv => negb (expired (bnow b) (snd kv))) (bolt_rows pk a f)).
    set (Rr := filter (fun kv => negb (expired now (snd kv))) (sm_range a (hi_of f) (part st pk))).
    assert (E : map (fun kv : bytes * row bytes => (unsafe_key (fst kv), snd kv)) L = Rr).
    { apply sorted_ext_In.
      - apply sorted_map_keys; [|apply filter_sorted, bolt_rows_sorted].
        intros x y Hx Hy Hlt. apply unsafe_mono; auto.
        + apply (bolt_rows_keys_nonempty pk a f). unfold keys in *. rewrite in_map_iff in *.
          destruct Hx as [kv [E1 E2]]. exists kv. split; auto. apply filter_In in E2. tauto.
        + apply (bolt_rows_keys_nonempty pk a f). unfold keys in *. rewrite in_map_iff in *.
          destruct Hy as [kv [E1 E2]]. exists kv. split; auto. apply filter_In in E2. tauto.
      - apply filter_sorted, sm_range_sorted, (R_ssorted _ _ HR).
      - intros k v. apply rows_correspond; assumption. }
    rewrite <- E. rewrite map_map. reflexivity. }
  destruct (absurd_range a f) eqn:Ab; [|exact Main].
  (* an absurd range is empty in the reference too *)
  rewrite <- Main. rewrite Main. unfold read.
  assert (Z : sm_range a (hi_of f) (part st pk) = []).
  { unfold sm_range. apply filter_none. intros [k r] _. cbn. unfold in_bounds, hi_of.
    unfold absurd_range in Ab. destruct a as [|xa ra]; [discriminate|]. destruct f as [|xf rf]; [discriminate|].
    destruct (lex_le (xa :: ra) k) eqn:L1; cbn; auto.
    destruct (lex_lt k (xf :: rf)) eqn:L2; auto.
    pose proof (lex_le_lt_trans _ _ _ L1 L2) as L3. pose proof (lex_lt_le_trans _ _ _ L3 Ab) as L4.
    rewrite lex_lt_irrefl in L4. discriminate. }
  rewrite Z. reflexivity.
Qed.

(* plain Read: the same whenever no row of the partition carries a TTL (otherwise the interface
   leaves the output open) *)
Theorem plain_scan_equals_reference pk a f : okcc a -> okcc f -> part_has_ttl st pk = false ->
  (if absurd_range a f then [] else bb_scan b pk a f false) = read now st pk a f.
Proof.
  intros Oa Of Hn. rewrite <- (ttl_scan_equals_reference pk a f Oa Of).
  destruct (absurd_range a f); [reflexivity|].
  rewrite !bb_scan_unfold. f_equal. apply filter_ext_in. intros [k r] Hin. cbn.
  (* every bolt row of the partition is a reference row, and those have no expiry *)
  unfold bolt_rows in Hin. apply filter_In in Hin. destruct Hin as [Hin _].
  assert (Hget : raw_lookup (bdata b) pk k = Some r) by (apply sm_get_In; [apply (R_bsorted _ _ HR)|exact Hin]).
  pose proof (R_bkeys _ _ HR pk k r Hget) as Hk. destruct (safe_unsafe k Hk) as [Es Ok].
  assert (Hs : raw_lookup st pk (unsafe_key k) = Some r).
  { apply (R_sub _ _ HR); auto. unfold bb_raw. rewrite Es. exact Hget. }
  unfold part_has_ttl in Hn.
  assert (Hz : rexp r = 0).
  { destruct (Z.eqb_spec (rexp r) 0); auto. exfalso.
    assert (T : existsb (fun kv : bytes * row bytes => negb (rexp (snd kv) =? 0)) (part st pk) = true).
    { apply existsb_exists. exists (unsafe_key k, r). split.
      - apply sm_get_In; [apply (R_ssorted _ _ HR)|exact Hs].
      - cbn. destruct (Z.eqb_spec (rexp r) 0); [contradiction|reflexivity]. }
    fold st in T. rewrite T in Hn. discriminate. }
  unfold expired. rewrite Hz. reflexivity.
Qed.

End Scan.

(* ---- every operation, range reads included ---- *)

Theorem bb_step_refines_all s b o : R s b -> cc_ok_op o ->
  R (fst (spec_step s o)) (fst (bb_step b o)) /\
  (dont_care s o = true \/ snd (spec_step s o) = snd (bb_step b o)).
Proof.
  intros HR Hok. destruct o; try (apply bb_step_refines; [exact HR|exact Hok|exact I]).
  - (* Read *) destruct s as [st now]. destruct Hok as [Oa Of].
    cbn [spec_step bb_step fst snd dont_care]. split; [exact HR|].
    destruct (part_has_ttl st pk) eqn:Ht; [left; reflexivity|right]. f_equal. symmetry.
    exact (plain_scan_equals_reference (st, now) b HR pk start finish Oa Of Ht).
  - (* TTLRead *) destruct s as [st now]. destruct Hok as [Oa Of].
    cbn [spec_step bb_step fst snd dont_care]. split; [exact HR|right]. f_equal. symmetry.
    exact (ttl_scan_equals_reference (st, now) b HR pk start finish Oa Of).
Qed.

Theorem bbolt_refines_proved ops : forall s b, R s b -> Forall cc_ok_op ops -> refines_run s b ops.
Proof.
  induction ops as [|o ops IH]; intros s b HR H1; cbn; auto.
  inversion H1 as [|? ? Ho1 Hr1]; subst.
  destruct (bb_step_refines_all s b o HR Ho1) as [HR' Hout].
  split; [exact Hout|]. apply IH; auto.
Qed.
