(* C06 - conditional operations act atomically: concurrent conditional inserts on one key.
   n processes each perform one InsertIfNotExists on the same absent row.  [single] says whether the
   backend checks and writes in one transaction (true: the code since the repair of finding F6) or in
   two (false: check in a read transaction, write in a later one). *)
From Coq Require Import List NArith Lia Bool Arith.
From V Require Import Lib.Check Gen.Params C06_Storage.Model.
Import ListNotations.

Inductive cpc := CIdle | CChecked (found : bool) | CDone (ok : bool).

Record cst := mkCst { c_row : option nat; c_pcs : list cpc }.

Fixpoint set_at {T} (l : list T) (i : nat) (x : T) : list T :=
  match l, i with
  | [], _ => []
  | _ :: r, O => x :: r
  | y :: r, S j => y :: set_at r j x
  end.

Definition is_some {T} (o : option T) : bool := match o with Some _ => true | None => false end.

Definition cstep (single : bool) (s : cst) (i : nat) : option cst :=
  match nth_error (c_pcs s) i with
  | Some CIdle =>
      if single then
        match c_row s with
        | None => Some (mkCst (Some i) (set_at (c_pcs s) i (CDone true)))
        | Some _ => Some (mkCst (c_row s) (set_at (c_pcs s) i (CDone false)))
        end
      else Some (mkCst (c_row s) (set_at (c_pcs s) i (CChecked (is_some (c_row s)))))
  | Some (CChecked found) =>
      if found then Some (mkCst (c_row s) (set_at (c_pcs s) i (CDone false)))
      else Some (mkCst (Some i) (set_at (c_pcs s) i (CDone true)))
  | _ => None
  end.

Fixpoint crun (single : bool) (s : cst) (sched : list nat) : option cst :=
  match sched with
  | [] => Some s
  | i :: r => match cstep single s i with Some s' => crun single s' r | None => None end
  end.

Definition cinit (n : nat) : cst := mkCst None (repeat CIdle n).

Definition is_winner (p : cpc) : bool := match p with CDone true => true | _ => false end.
Definition is_done (p : cpc) : bool := match p with CDone _ => true | _ => false end.
Definition winners (s : cst) : nat := length (filter is_winner (c_pcs s)).

(* ---- what the check evaluates: histories as before, plus concurrency cases observed on the real
   backends (n goroutines released together on a fresh key; winners = how many got ok=true) ---- *)
Inductive ccase :=
| CHist (t : trace)
| CConc (b : backend) (n : N) (winners_per_key : list N).

Definition agrees_c (c : ccase) : bool := match c with CHist t => agrees t | CConc _ _ _ => true end.

Definition satisfies_c (c : ccase) : bool :=
  match c with
  | CHist t => satisfies t
  | CConc _ n ws => (1 <=? n)%N && forallb (N.eqb 1) ws
  end.

(* ---- proofs ---- *)

Lemma set_at_length {T} (l : list T) i x : length (set_at l i x) = length l.
Proof. revert i; induction l as [|y r IH]; intros [|j]; cbn; auto. Qed.

Lemma filter_set_at (f : cpc -> bool) l i x y : nth_error l i = Some y ->
  length (filter f (set_at l i x)) + (if f y then 1 else 0) = length (filter f l) + (if f x then 1 else 0).
Proof.
  revert i; induction l as [|z r IH]; intros [|j] H; cbn [nth_error set_at filter] in *; try discriminate.
  - inversion H; subst. destruct (f y), (f x); cbn [length]; lia.
  - specialize (IH j H). destruct (f z); cbn [length]; lia.
Qed.

(* with the single transaction: the row is present exactly when somebody has won, nobody is between
   check and write, and a process that is done saw or made the row *)
Record CInv (s : cst) : Prop := mkCInv {
  ci_none : c_row s = None -> forall p, In p (c_pcs s) -> p = CIdle;
  ci_some : c_row s <> None -> winners s = 1;
  ci_nochecked : forall f, ~ In (CChecked f) (c_pcs s)
}.

Lemma CInv_init n : CInv (cinit n).
Proof.
  constructor; cbn.
  - intros _ p H. apply repeat_spec in H. exact H.
  - intros H. congruence.
  - intros f H. apply repeat_spec in H. discriminate.
Qed.

Lemma In_set_at {T} (l : list T) i x p : In p (set_at l i x) -> p = x \/ In p l.
Proof.
  revert i; induction l as [|z r IH]; intros [|j] H; cbn in *; auto.
  - destruct H as [H|H]; auto.
  - destruct H as [H|H]; auto. destruct (IH j H); auto.
Qed.

Lemma winners_all_idle l : (forall p, In p l -> p = CIdle) -> length (filter is_winner l) = 0.
Proof.
  induction l as [|z r IH]; intros H; cbn; auto.
  rewrite (H z (or_introl eq_refl)). cbn. apply IH. intros p Hp. apply H. right. exact Hp.
Qed.

Lemma cstep_inv s i s' : CInv s -> cstep true s i = Some s' -> CInv s'.
Proof.
  intros [Hn Hs Hc] E. unfold cstep in E.
  destruct (nth_error (c_pcs s) i) as [[|f|ok]|] eqn:En; try discriminate.
  - destruct (c_row s) as [v|] eqn:Er; inversion E; subst s'; clear E; constructor; cbn [c_row c_pcs].
    + intros H; discriminate.
    + intros _. unfold winners in *. cbn [c_pcs].
      pose proof (filter_set_at is_winner _ i (CDone false) _ En) as F. cbn in F.
      assert (Hw : length (filter is_winner (c_pcs s)) = 1) by (apply Hs; congruence). lia.
    + intros f H. apply In_set_at in H. destruct H as [H|H]; [discriminate|]. exact (Hc f H).
    + intros H; discriminate.
    + intros _. unfold winners. cbn [c_pcs].
      pose proof (filter_set_at is_winner _ i (CDone true) _ En) as F. cbn in F.
      rewrite (winners_all_idle _ (Hn eq_refl)) in F. lia.
    + intros f H. apply In_set_at in H. destruct H as [H|H]; [discriminate|]. exact (Hc f H).
  - exfalso. apply (Hc f). eapply nth_error_In. exact En.
Qed.

Lemma crun_inv sched : forall s s', CInv s -> crun true s sched = Some s' -> CInv s'.
Proof.
  induction sched as [|i r IH]; intros s s' HI H; cbn in H.
  - inversion H; subst. exact HI.
  - destruct (cstep true s i) as [s1|] eqn:E; [|discriminate]. eapply IH; [|exact H]. eapply cstep_inv; eauto.
Qed.

(* any number of concurrent conditional inserts on one absent row, any interleaving: never two
   winners; and once any of them has returned, exactly one has won *)
Theorem one_winner_proved n sched s :
  crun true (cinit n) sched = Some s ->
  winners s <= 1 /\ (existsb is_done (c_pcs s) = true -> winners s = 1).
Proof.
  intros H. pose proof (crun_inv sched _ _ (CInv_init n) H) as [Hn Hs Hc].
  destruct (c_row s) as [v|] eqn:Er.
  - assert (W : winners s = 1) by (apply Hs; congruence). split; [lia|auto].
  - unfold winners. rewrite (winners_all_idle _ (Hn eq_refl)). split; [lia|].
    intros E. apply existsb_exists in E. destruct E as [p [Hp Hd]]. rewrite (Hn eq_refl p Hp) in Hd. discriminate.
Qed.
