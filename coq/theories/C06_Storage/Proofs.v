(* C06 - the bbolt model refines the reference storage. *)
From Coq Require Import List NArith ZArith Lia Bool.
From V Require Import Lib.Lex Lib.SMap Lib.Check Storage.Spec Storage.SpecLaws Gen.Params C06_Storage.Model.
Import ListNotations.
Local Open Scope Z_scope.

(* ---- the decisions the translator read from pkg/istorage/bbolt/impl.go ---- *)
Lemma flag_finish_exclusive : bbolt_finish_inclusive = false. Proof. reflexivity. Qed.
Lemma flag_putbatch_safekey : bbolt_putbatch_safekey = true. Proof. reflexivity. Qed.
Lemma flag_cad_safekey : bbolt_cad_safekey = true. Proof. reflexivity. Qed.
Lemma flag_getbatch_any_value : bbolt_getbatch_ok_nonempty = false. Proof. reflexivity. Qed.
Lemma flag_cleaner_checks_expiry : bbolt_cleaner_checks_expiry = true. Proof. reflexivity. Qed.
Lemma flag_interval_pos : 0 < bbolt_cleanup_interval_ms. Proof. reflexivity. Qed.

(* ---- the reserved key ---- *)
Definition okcc (cc : bytes) : Prop := cc <> null_key.

Lemma safe_key_nonempty cc : safe_key cc <> [].
Proof. destruct cc; cbn; discriminate. Qed.

Lemma safe_key_inj a b : okcc a -> okcc b -> safe_key a = safe_key b -> a = b.
Proof. intros Ha Hb E. unfold okcc in *. destruct a, b; cbn in *; unfold null_key in *; congruence. Qed.

Lemma unsafe_safe cc : okcc cc -> unsafe_key (safe_key cc) = cc.
Proof.
  intros H. unfold okcc, null_key in *. destruct cc as [|x [|y r]]; cbn; auto.
  - destruct x; auto. congruence.
  - destruct x; auto.
Qed.

(* without the restriction the two keys collide: finding F2 *)
Example safe_key_collision : safe_key [] = safe_key null_key /\ [] <> null_key.
Proof. split; [reflexivity|discriminate]. Qed.

Lemma lex_eqb_true_iff a b : lex_eqb a b = true <-> a = b.
Proof. apply lex_eqb_eq. Qed.

(* ---- the simulation relation ---- *)
Record R (s : sstate) (b : bb) : Prop := mkR {
  R_now : bnow b = snd s;
  R_now0 : 0 <= snd s;
  R_sub : forall pk cc r, okcc cc -> bb_raw b pk (safe_key cc) = Some r -> raw_lookup (fst s) pk cc = Some r;
  R_live : forall pk cc r, okcc cc -> raw_lookup (fst s) pk cc = Some r -> expired (snd s) r = false ->
             bb_raw b pk (safe_key cc) = Some r;
  R_ttl : Forall (fun e => 0 < fst (fst (snd e))) (bttl b);
  R_bsorted : parts_sorted (bdata b);
  R_ssorted : parts_sorted (fst s);
  (* bolt keys are never empty; reference keys are never the reserved key *)
  R_bkeys : forall pk k r, raw_lookup (bdata b) pk k = Some r -> k <> [];
  R_skeys : forall pk cc r, raw_lookup (fst s) pk cc = Some r -> okcc cc
}.

Lemma R_init : R ([], 0) bb_init.
Proof.
  constructor; cbn; try lia; try constructor; try (intros; discriminate); try apply parts_sorted_nil.
Qed.

Lemma raw_set_cases {V} (st : store V) pk cc r pk' cc' r' :
  raw_lookup (set_row st pk cc r) pk' cc' = Some r' ->
  ((pk', cc') = (pk, cc) /\ r' = r) \/ ((pk', cc') <> (pk, cc) /\ raw_lookup st pk' cc' = Some r').
Proof.
  intros H. destruct (lex_eqb pk' pk) eqn:E1; [destruct (lex_eqb cc' cc) eqn:E2|].
  - apply lex_eqb_eq in E1, E2. subst. rewrite raw_set_same in H. inversion H. auto.
  - apply lex_eqb_neq in E2. right. assert (N : (pk', cc') <> (pk, cc)) by congruence. rewrite raw_set_other in H by exact N. auto.
  - apply lex_eqb_neq in E1. right. assert (N : (pk', cc') <> (pk, cc)) by congruence. rewrite raw_set_other in H by exact N. auto.
Qed.

Lemma raw_del_cases {V} (st : store V) pk cc pk' cc' r' : parts_sorted st ->
  raw_lookup (del_row st pk cc) pk' cc' = Some r' -> raw_lookup st pk' cc' = Some r'.
Proof.
  intros S H. destruct (lex_eqb pk' pk) eqn:E1; [destruct (lex_eqb cc' cc) eqn:E2|].
  - apply lex_eqb_eq in E1, E2. subst. rewrite raw_del_same in H by exact S. discriminate.
  - apply lex_eqb_neq in E2. rewrite raw_del_other in H by (auto; congruence). exact H.
  - apply lex_eqb_neq in E1. rewrite raw_del_other in H by (auto; congruence). exact H.
Qed.

Lemma live_agree s b pk cc : R s b -> okcc cc -> bb_live b pk cc = lookup (snd s) (fst s) pk cc.
Proof.
  intros HR Hc. unfold bb_live, lookup. rewrite (R_now _ _ HR).
  destruct (raw_lookup (fst s) pk cc) as [r|] eqn:Es.
  - destruct (expired (snd s) r) eqn:Ex.
    + destruct (bb_raw b pk (safe_key cc)) as [r'|] eqn:Eb; auto.
      rewrite (R_sub _ _ HR _ _ _ Hc Eb) in Es. inversion Es; subst. rewrite Ex. reflexivity.
    + rewrite (R_live _ _ HR _ _ _ Hc Es Ex), Ex. reflexivity.
  - destruct (bb_raw b pk (safe_key cc)) as [r'|] eqn:Eb; auto.
    rewrite (R_sub _ _ HR _ _ _ Hc Eb) in Es. discriminate.
Qed.

Lemma key_cases (pk cc pk' cc' : bytes) : okcc cc -> okcc cc' ->
  {(pk', cc') = (pk, cc)} + {(pk', cc') <> (pk, cc) /\ (pk', safe_key cc') <> (pk, safe_key cc)}.
Proof.
  intros H H'. destruct (lex_eqb pk' pk) eqn:E1; [destruct (lex_eqb cc' cc) eqn:E2|].
  - left. apply lex_eqb_eq in E1, E2. congruence.
  - right. apply lex_eqb_neq in E2. split; [congruence|]. intros E. inversion E as [[Ek Es]].
    apply safe_key_inj in Es; auto.
  - right. apply lex_eqb_neq in E1. split; congruence.
Qed.

(* writing one row on both sides keeps the relation *)
Lemma R_set_row st now b pk cc r tt : R (st, now) b -> okcc cc ->
  Forall (fun e => 0 < fst (fst (snd e))) tt ->
  R (set_row st pk cc r, now) (mkBB (set_row (bdata b) pk (safe_key cc) r) tt (bnow b) (bnext_clean b)).
Proof.
  intros HR Hc Htt. destruct HR as [Hn H0 Hsub Hlive Httl Hbs Hss Hbk Hsk]. cbn in *.
  constructor; cbn; auto.
  - intros pk' cc' r' Hc' Hb. unfold bb_raw in *. cbn in *.
    destruct (key_cases pk cc pk' cc' Hc Hc') as [E|[N1 N2]].
    + inversion E; subst. rewrite raw_set_same in *. exact Hb.
    + rewrite raw_set_other in * by assumption. apply Hsub; assumption.
  - intros pk' cc' r' Hc' Hs Hx. unfold bb_raw in *. cbn in *.
    destruct (key_cases pk cc pk' cc' Hc Hc') as [E|[N1 N2]].
    + inversion E; subst. rewrite raw_set_same in *. exact Hs.
    + rewrite raw_set_other in * by assumption. apply Hlive; assumption.
  - apply set_row_sorted. exact Hbs.
  - apply set_row_sorted. exact Hss.
  - intros pk' k r' Hk. apply raw_set_cases in Hk. destruct Hk as [[E _]|[_ Hk]].
    + inversion E; subst. apply safe_key_nonempty.
    + eapply Hbk; eauto.
  - intros pk' cc' r' Hk. apply raw_set_cases in Hk. destruct Hk as [[E _]|[_ Hk]].
    + inversion E; subst. exact Hc.
    + eapply Hsk; eauto.
Qed.

Lemma R_del_row st now b pk cc : R (st, now) b -> okcc cc ->
  R (del_row st pk cc, now) (mkBB (del_row (bdata b) pk (safe_key cc)) (bttl b) (bnow b) (bnext_clean b)).
Proof.
  intros HR Hc. destruct HR as [Hn H0 Hsub Hlive Httl Hbs Hss Hbk Hsk]. cbn in *.
  constructor; cbn; auto.
  - intros pk' cc' r' Hc' Hb. unfold bb_raw in *. cbn in *.
    destruct (key_cases pk cc pk' cc' Hc Hc') as [E|[N1 N2]].
    + inversion E; subst. rewrite raw_del_same in Hb by assumption. discriminate.
    + rewrite raw_del_other in * by assumption. apply Hsub; assumption.
  - intros pk' cc' r' Hc' Hs Hx. unfold bb_raw in *. cbn in *.
    destruct (key_cases pk cc pk' cc' Hc Hc') as [E|[N1 N2]].
    + inversion E; subst. rewrite raw_del_same in Hs by assumption. discriminate.
    + rewrite raw_del_other in * by assumption. apply Hlive; assumption.
  - apply del_row_sorted. exact Hbs.
  - apply del_row_sorted. exact Hss.
  - intros pk' k r' Hk. apply raw_del_cases in Hk; auto. eapply Hbk; eauto.
  - intros pk' cc' r' Hk. apply raw_del_cases in Hk; auto. eapply Hsk; eauto.
Qed.

Lemma exp_of_pos now ttl : 0 <= now -> 0 < ttl -> 0 < exp_of now ttl.
Proof. intros. unfold exp_of. destruct (Z.ltb_spec 0 ttl); lia. Qed.

Lemma Forall_sm_put {T} (P : bytes * T -> Prop) k v (m : smap T) : P (k, v) -> Forall P m -> Forall P (sm_put k v m).
Proof.
  intros Hk. induction m as [|[k' v'] r IH]; intros F; cbn.
  - constructor; auto.
  - inversion F as [|? ? Hh Ht]; subst. destruct (lex_cmp k k'); repeat (constructor; auto).
Qed.

Lemma Forall_sm_del {T} (P : bytes * T -> Prop) k (m : smap T) : Forall P m -> Forall P (sm_del k m).
Proof.
  induction m as [|[k' v'] r IH]; intros F; cbn; auto.
  inversion F as [|? ? Hh Ht]; subst. destruct (lex_cmp k k'); auto.
Qed.

(* putValue on the bbolt side = a row with the same expiry on the reference side *)
Lemma R_put_value st now b pk cc v ttl : R (st, now) b -> okcc cc ->
  R (set_row st pk cc (mkRow v (exp_of now ttl)), now) (bb_put_value b pk cc v ttl).
Proof.
  intros HR Hc. unfold bb_put_value.
  assert (En : bnow b = now) by apply (R_now _ _ HR).
  replace (exp_of (bnow b) ttl) with (exp_of now ttl) by (rewrite En; reflexivity).
  apply R_set_row; auto.
  destruct (Z.ltb_spec 0 ttl); [|apply (R_ttl _ _ HR)].
  apply Forall_sm_put; [|apply (R_ttl _ _ HR)]. cbn. apply exp_of_pos; auto. apply (R_now0 _ _ HR).
Qed.


(* ---- clock and cleaner ---- *)

Lemma expired_mono now d (r : row bytes) : 0 <= d -> expired (now + d) r = false -> expired now r = false.
Proof.
  unfold expired. intros Hd H. destruct (Z.ltb_spec 0 (rexp r)); cbn in *; auto.
  apply Z.leb_gt in H. apply Z.leb_gt. lia.
Qed.

Lemma R_advance st now b d nc : R (st, now) b -> 0 <= d ->
  R (st, now + d) (mkBB (bdata b) (bttl b) (bnow b + d) nc).
Proof.
  intros HR Hd. destruct HR as [Hn H0 Hsub Hlive Httl Hbs Hss Hbk Hsk]. cbn in *.
  constructor; cbn; auto; try lia.
  intros pk cc r Hc Hs Hx. apply Hlive; auto. eapply expired_mono; eauto.
Qed.

Lemma R_next_clean s b nc : R s b -> R s (mkBB (bdata b) (bttl b) (bnow b) nc).
Proof. intros [Hn H0 Hsub Hlive Httl Hbs Hss Hbk Hsk]. constructor; auto. Qed.

(* the cleaner removes a data row only when the row carries exactly the (due) expiry of the index
   entry: such a row is expired, so no live row is ever lost *)
Lemma R_remove_key s b tk exp pk scc : R s b -> 0 < exp -> exp <= bnow b ->
  R s (bb_remove_key b tk (exp, pk, scc)).
Proof.
  intros HR Hpos Hdue. unfold bb_remove_key. rewrite flag_cleaner_checks_expiry.
  destruct HR as [Hn H0 Hsub Hlive Httl Hbs Hss Hbk Hsk].
  destruct (bb_raw b pk scc) as [r|] eqn:Er.
  2:{ cbn. constructor; cbn; auto. apply Forall_sm_del. exact Httl. }
  destruct (Z.eqb_spec (rexp r) exp) as [Ee|Ee]; cbn [negb].
  2:{ constructor; cbn; auto. apply Forall_sm_del. exact Httl. }
  assert (Hexp : expired (snd s) r = true).
  { unfold expired. rewrite Ee, <- Hn. destruct (Z.ltb_spec 0 exp); [|lia]. destruct (Z.leb_spec exp (bnow b)); [reflexivity|lia]. }
  constructor; cbn; auto.
  - intros pk' cc' r' Hc' Hb. unfold bb_raw in *. cbn in *.
    destruct (lex_eqb pk' pk) eqn:E1; [destruct (lex_eqb (safe_key cc') scc) eqn:E2|].
    + apply lex_eqb_eq in E1, E2. subst. rewrite raw_del_same in Hb by assumption. discriminate.
    + apply lex_eqb_neq in E2. rewrite raw_del_other in Hb by (auto; congruence). apply Hsub; auto.
    + apply lex_eqb_neq in E1. rewrite raw_del_other in Hb by (auto; congruence). apply Hsub; auto.
  - intros pk' cc' r' Hc' Hs Hx. unfold bb_raw in *. cbn in *.
    pose proof (Hlive _ _ _ Hc' Hs Hx) as Hb.
    destruct (lex_eqb pk' pk) eqn:E1; [destruct (lex_eqb (safe_key cc') scc) eqn:E2|].
    + apply lex_eqb_eq in E1, E2. subst. rewrite Er in Hb. inversion Hb; subst. congruence.
    + apply lex_eqb_neq in E2. rewrite raw_del_other by (auto; congruence). exact Hb.
    + apply lex_eqb_neq in E1. rewrite raw_del_other by (auto; congruence). exact Hb.
  - apply Forall_sm_del. exact Httl.
  - apply del_row_sorted. exact Hbs.
  - intros pk' k r' Hk. apply raw_del_cases in Hk; auto. eapply Hbk; eauto.
Qed.

Lemma bnow_remove_key b tk e : bnow (bb_remove_key b tk e) = bnow b.
Proof. destruct e as [[exp pk] scc]. reflexivity. Qed.

Lemma R_clean_entries s es : forall b, R s b -> Forall (fun e => 0 < fst (fst (snd e))) es ->
  R s (bb_clean_entries b es) /\ bnow (bb_clean_entries b es) = bnow b.
Proof.
  induction es as [|[tk [[exp pk] scc]] es IH]; intros b HR HF; cbn [bb_clean_entries]; [auto|].
  inversion HF as [|? ? Hh Ht]; subst. cbn in Hh.
  destruct (Z.ltb_spec (bnow b) exp); [auto|].
  assert (HR' : R s (bb_remove_key b tk (exp, pk, scc))) by (apply R_remove_key; auto).
  destruct (IH (bb_remove_key b tk (exp, pk, scc)) HR' Ht) as [H1 H2].
  split; [exact H1|]. rewrite H2. reflexivity.
Qed.

Lemma R_clean s b : R s b -> R s (bb_clean b) /\ bnow (bb_clean b) = bnow b.
Proof. intros HR. apply R_clean_entries; auto. apply (R_ttl _ _ HR). Qed.

(* ---- operations ---- *)

Definition cc_ok_op (o : sop) : Prop :=
  match o with
  | OPut _ cc _ | OGet _ cc | OIns _ cc _ _ | OCas _ cc _ _ _ | OCad _ cc _ | OTTLGet _ cc | OQueryTTL _ cc => okcc cc
  | OPutBatch items => Forall (fun it => okcc (snd (fst it))) items
  | OGetBatch _ ccs => Forall okcc ccs
  | ORead _ a f | OTTLRead _ a f => okcc a /\ okcc f
  | OAdvance d => 0 <= d
  end.

Definition point_op (o : sop) : Prop :=
  match o with ORead _ _ _ | OTTLRead _ _ _ => False | _ => True end.

Lemma put_batch_R items : forall st now b, R (st, now) b -> Forall (fun it => okcc (snd (fst it))) items ->
  R (put_batch st items, now)
    (mkBB (fold_left (fun d it => set_row d (fst (fst it)) (safe_key (snd (fst it))) (mkRow (snd it) 0)) items (bdata b))
          (bttl b) (bnow b) (bnext_clean b)).
Proof.
  unfold put_batch. induction items as [|[[pk cc] v] items IH]; intros st now b HR HF; cbn [fold_left fst snd].
  - destruct b; exact HR.
  - inversion HF as [|? ? Hh Ht]; subst. cbn in Hh.
    pose proof (R_set_row st now b pk cc (mkRow v 0) (bttl b) HR Hh (R_ttl _ _ HR)) as HR1.
    specialize (IH _ _ _ HR1 Ht). cbn in IH. exact IH.
Qed.

Lemma get_agree s b pk cc : R s b -> okcc cc ->
  (match raw_lookup (fst s) pk cc with Some r => negb (rexp r =? 0) | None => false end) = false ->
  option_map rval (bb_raw b pk (safe_key cc)) = get (snd s) (fst s) pk cc.
Proof.
  intros HR Hc Hd. unfold get, lookup.
  destruct (raw_lookup (fst s) pk cc) as [r|] eqn:Es.
  - apply negb_false_iff, Z.eqb_eq in Hd.
    assert (Hx : expired (snd s) r = false) by (unfold expired; rewrite Hd; reflexivity).
    rewrite Hx, (R_live _ _ HR _ _ _ Hc Es Hx). reflexivity.
  - destruct (bb_raw b pk (safe_key cc)) as [r'|] eqn:Eb; auto.
    rewrite (R_sub _ _ HR _ _ _ Hc Eb) in Es. discriminate.
Qed.

Theorem bb_step_refines s b o : R s b -> cc_ok_op o -> point_op o ->
  R (fst (spec_step s o)) (fst (bb_step b o)) /\
  (dont_care s o = true \/ snd (spec_step s o) = snd (bb_step b o)).
Proof.
  intros HR Hok Hp. destruct s as [st now].
  destruct o as [pk cc v|items|pk cc|pk ccs|pk a f|pk cc v ttl|pk cc old new ttl|pk cc e|pk cc|pk a f|pk cc|d];
    cbn [cc_ok_op point_op] in *; try contradiction.
  - (* Put *) cbn. split; [|right; reflexivity].
    apply R_set_row; auto. apply (R_ttl _ _ HR).
  - (* PutBatch *) cbn [spec_step bb_step fst snd]. rewrite flag_putbatch_safekey. cbn [orb].
    assert (E : forallb (fun _ : bytes * bytes * bytes => true) items = true) by (apply forallb_forall; auto).
    rewrite E. cbn [fst snd]. split; [|right; reflexivity]. apply put_batch_R; auto.
  - (* Get *) cbn [spec_step bb_step fst snd dont_care]. split; [exact HR|].
    destruct (match raw_lookup st pk cc with Some r => negb (rexp r =? 0) | None => false end) eqn:Ed; [left; reflexivity|right].
    f_equal. symmetry. exact (get_agree (st, now) b pk cc HR Hok Ed).
  - (* GetBatch *) cbn [spec_step bb_step fst snd dont_care]. split; [exact HR|].
    destruct (existsb _ ccs) eqn:Ed; [left; reflexivity|right]. f_equal.
    unfold get_batch. apply map_ext_in. intros cc Hin.
    rewrite flag_getbatch_any_value.
    rewrite Forall_forall in Hok. specialize (Hok _ Hin).
    assert (Hd : (match raw_lookup st pk cc with Some r => negb (rexp r =? 0) | None => false end) = false).
    { destruct (match raw_lookup st pk cc with Some r => negb (rexp r =? 0) | None => false end) eqn:Ex; auto.
      exfalso. assert (T : existsb (fun cc => match raw_lookup st pk cc with Some r => negb (rexp r =? 0) | None => false end) ccs = true).
      { apply existsb_exists. exists cc. split; auto. }
      rewrite T in Ed. discriminate. }
    pose proof (get_agree (st, now) b pk cc HR Hok Hd) as G. cbn [fst snd] in G. rewrite <- G.
    destruct (bb_raw b pk (safe_key cc)); reflexivity.
  - (* Ins *) cbn [spec_step bb_step fst snd dont_care]. unfold insert_if_not_exists.
    rewrite (live_agree (st, now) b pk cc HR Hok). cbn [fst snd].
    destruct (lookup now st pk cc); cbn [fst snd]; (split; [|right; reflexivity]); auto.
    apply R_put_value; auto.
  - (* Cas *) cbn [spec_step bb_step fst snd dont_care]. unfold compare_and_swap.
    rewrite (live_agree (st, now) b pk cc HR Hok). cbn [fst snd].
    destruct (lookup now st pk cc) as [r|]; cbn [fst snd]; [|split; [exact HR|right; reflexivity]].
    destruct (lex_eqb (rval r) old); cbn [fst snd]; (split; [|right; reflexivity]); auto.
    apply R_put_value; auto.
  - (* Cad *) cbn [spec_step bb_step fst snd dont_care]. unfold compare_and_delete.
    rewrite (live_agree (st, now) b pk cc HR Hok). cbn [fst snd].
    destruct (lookup now st pk cc) as [r|]; cbn [fst snd]; [|split; [exact HR|right; reflexivity]].
    destruct (lex_eqb (rval r) e); cbn [fst snd]; [|split; [exact HR|right; reflexivity]].
    rewrite flag_cad_safekey. split; [|right; reflexivity].
    assert (K : bolt_key_ok (safe_key cc) = true) by (destruct cc; reflexivity).
    rewrite K. apply R_del_row; auto.
  - (* TTLGet *) cbn [spec_step bb_step fst snd dont_care]. split; [exact HR|right].
    rewrite (live_agree (st, now) b pk cc HR Hok). reflexivity.
  - (* QueryTTL *) cbn [spec_step bb_step fst snd dont_care]. split; [exact HR|].
    rewrite (live_agree (st, now) b pk cc HR Hok). cbn [fst snd]. rewrite (R_now _ _ HR). cbn [snd].
    unfold query_ttl, lookup.
    destruct (raw_lookup st pk cc) as [r|] eqn:Es; [|right; reflexivity].
    unfold expired. destruct (Z.ltb_spec 0 (rexp r)) as [Hpos|Hpos]; cbn [andb].
    + destruct (Z.leb_spec (rexp r) now) as [Hl|Hl]; [right; reflexivity|].
      destruct (Z.ltb_spec now (rexp r)); [|lia]. cbn [andb].
      destruct (Z.ltb_spec (rexp r - now) 1000) as [Hs|Hs]; [left; reflexivity|right].
      destruct (Z.eqb_spec (rexp r) 0); [lia|].
      destruct (Z.leb_spec (rexp r - now) 0); [lia|].
      assert (1 <= (rexp r - now) / 1000) by (apply Z.div_le_lower_bound; lia).
      destruct (Z.leb_spec ((rexp r - now) / 1000) 0); [lia|reflexivity].
    + right. destruct (Z.eqb_spec (rexp r) 0) as [E0|E0]; [reflexivity|].
      (* a negative expiry never occurs (R keeps expiries >= 0 only for indexed rows), both sides treat it as "no expiry" *)
      destruct (Z.leb_spec (rexp r - now) 0) as [Hl|Hl].
      * assert ((rexp r - now) / 1000 <= 0) by (apply Z.div_le_upper_bound; lia).
        destruct (Z.leb_spec ((rexp r - now) / 1000) 0); [reflexivity|lia].
      * pose proof (R_now0 _ _ HR). cbn in *. lia.
  - (* Advance: handled separately *) cbn [spec_step bb_step fst snd dont_care]. split; [|right].
    2:{ destruct (_ <=? _); reflexivity. }
    pose proof (R_advance st now b d (bnext_clean b) HR Hok) as HA.
    destruct (_ <=? _); [|exact HA].
    destruct (R_clean _ _ HA) as [HC _]. cbn [fst]. apply (R_next_clean _ _ _ HC).
Qed.

(* ---- whole histories ---- *)

Fixpoint refines_run (s : sstate) (b : bb) (ops : list sop) : Prop :=
  match ops with
  | [] => True
  | o :: r => (dont_care s o = true \/ snd (spec_step s o) = snd (bb_step b o))
              /\ refines_run (fst (spec_step s o)) (fst (bb_step b o)) r
  end.

Theorem bbolt_refines_point_proved ops : forall s b, R s b ->
  Forall cc_ok_op ops -> Forall point_op ops -> refines_run s b ops.
Proof.
  induction ops as [|o ops IH]; intros s b HR H1 H2; cbn; auto.
  inversion H1 as [|? ? Ho1 Hr1]; inversion H2 as [|? ? Ho2 Hr2]; subst.
  destruct (bb_step_refines s b o HR Ho1 Ho2) as [HR' Hout].
  split; [exact Hout|]. apply IH; auto.
Qed.

(* the relation is an invariant of every history, so the TTL-aware view of bbolt is always the
   reference's view, whatever the cleaner did *)
Theorem bbolt_live_view_proved ops : forall s b, R s b ->
  Forall cc_ok_op ops -> Forall point_op ops ->
  let s' := fold_left (fun s o => fst (spec_step s o)) ops s in
  let b' := fold_left (fun b o => fst (bb_step b o)) ops b in
  forall pk cc, okcc cc -> bb_live b' pk cc = lookup (snd s') (fst s') pk cc.
Proof.
  induction ops as [|o ops IH]; intros s b HR H1 H2; cbn [fold_left].
  - intros pk cc Hc. apply live_agree; auto.
  - inversion H1 as [|? ? Ho1 Hr1]; inversion H2 as [|? ? Ho2 Hr2]; subst.
    destruct (bb_step_refines s b o HR Ho1 Ho2) as [HR' _]. apply IH; auto.
Qed.

(* ---- batch reads agree with point reads ----
   Both models answer a GetBatch item by item with what Get answers at the same state, and no read
   operation changes the state: so within a stretch of reads every Get equals every batch item of
   its key - also for rows written with a TTL, where the two models differ from each other. *)

(* the answer of a plain point read at a state *)
Definition spec_point (s : sstate) (pk cc : bytes) : option bytes := get (snd s) (fst s) pk cc.
Definition bb_point (b : bb) (pk cc : bytes) : option bytes := option_map rval (bb_raw b pk (safe_key cc)).

Lemma spec_read_keeps_state s o : is_read o = true -> fst (spec_step s o) = s.
Proof. destruct s as [st now]. destruct o; cbn; intros H; try discriminate; reflexivity. Qed.

Lemma bb_read_keeps_state b o : is_read o = true -> fst (bb_step b o) = b.
Proof. destruct o; cbn; intros H; try discriminate; reflexivity. Qed.

Lemma spec_get_point s pk cc : snd (spec_step s (OGet pk cc)) = RGet (spec_point s pk cc).
Proof. destruct s; reflexivity. Qed.

Lemma spec_batch_point s pk ccs : snd (spec_step s (OGetBatch pk ccs)) = RBatch (map (spec_point s pk) ccs).
Proof. destruct s; reflexivity. Qed.

Lemma bb_get_point b pk cc : snd (bb_step b (OGet pk cc)) = RGet (bb_point b pk cc).
Proof. reflexivity. Qed.

(* needs the repaired F4: GetBatch reports an empty value as found, like Get *)
Lemma bb_batch_point b pk ccs : snd (bb_step b (OGetBatch pk ccs)) = RBatch (map (bb_point b pk) ccs).
Proof.
  cbn [bb_step snd]. rewrite flag_getbatch_any_value. reflexivity.
Qed.

Lemma obytes_eqb_refl v : obytes_eqb v v = true.
Proof. unfold obytes_eqb, option_eqb. destruct v; [apply lex_eqb_refl|reflexivity]. Qed.

Section BatchPoint.
Context {S : Type} (step : S -> sop -> S * sout) (pt : S -> bytes -> bytes -> option bytes).
Hypothesis Hread : forall s o, is_read o = true -> fst (step s o) = s.
Hypothesis Hget : forall s pk cc, snd (step s (OGet pk cc)) = RGet (pt s pk cc).
Hypothesis Hbatch : forall s pk ccs, snd (step s (OGetBatch pk ccs)) = RBatch (map (pt s pk) ccs).

Fixpoint run_gen (s : S) (ops : list sop) : list sout :=
  match ops with
  | [] => []
  | o :: r => snd (step s o) :: run_gen (fst (step s o)) r
  end.

(* everything remembered is what a point read answers at the current state *)
Definition memo_inv (s : S) (m : memo) : Prop :=
  Forall (fun e => snd e = pt s (fst (fst e)) (snd (fst e))) m.

Lemma memo_inv_ok s m pk cc : memo_inv s m -> memo_ok m pk cc (pt s pk cc) = true.
Proof.
  intros H. unfold memo_ok. apply forallb_forall. intros e He.
  unfold memo_inv in H. rewrite Forall_forall in H. specialize (H e He).
  destruct (lex_eqb (fst (fst e)) pk) eqn:E1; [|reflexivity].
  destruct (lex_eqb (snd (fst e)) cc) eqn:E2; [|reflexivity].
  apply lex_eqb_eq in E1, E2. subst pk cc. rewrite H. cbn. apply obytes_eqb_refl.
Qed.

Lemma batch_items_inv s pk ccs : memo_inv s (batch_items pk ccs (map (pt s pk) ccs)).
Proof. unfold memo_inv, batch_items. induction ccs as [|cc r IH]; cbn; constructor; auto. Qed.

Lemma batch_items_ok s gets pk ccs : memo_inv s gets ->
  forallb (fun e => memo_ok gets (fst (fst e)) (snd (fst e)) (snd e)) (batch_items pk ccs (map (pt s pk) ccs)) = true.
Proof.
  intros H. unfold batch_items. induction ccs as [|cc r IH]; cbn; [reflexivity|].
  rewrite (memo_inv_ok s gets pk cc H). exact IH.
Qed.

Theorem batch_point_gen ops : forall s gets batch, memo_inv s gets -> memo_inv s batch ->
  batch_point_from gets batch ops (run_gen s ops) = true.
Proof.
  induction ops as [|o ops IH]; intros s gets batch Hg Hb; cbn [run_gen batch_point_from]; [reflexivity|].
  apply andb_true_intro; split.
  - destruct o; try reflexivity.
    + rewrite Hget. cbn. apply memo_inv_ok. exact Hb.
    + rewrite Hbatch. cbn [bp_ok]. rewrite map_length, Nat.eqb_refl. cbn [andb]. apply batch_items_ok. exact Hg.
  - destruct (is_read o) eqn:Er.
    + rewrite (Hread s o Er). destruct o; try discriminate Er.
      * rewrite Hget. cbn [bp_next fst snd]. apply IH; [constructor; [reflexivity|exact Hg]|exact Hb].
      * rewrite Hbatch. cbn [bp_next fst snd]. apply IH; [exact Hg|].
        unfold memo_inv. apply Forall_app. split; [apply batch_items_inv|exact Hb].
      * cbn [bp_next is_read fst snd]. apply IH; assumption.
      * cbn [bp_next is_read fst snd]. apply IH; assumption.
      * cbn [bp_next is_read fst snd]. apply IH; assumption.
      * cbn [bp_next is_read fst snd]. apply IH; assumption.
    + destruct o; try discriminate Er; cbn [bp_next is_read fst snd]; apply IH; constructor.
Qed.
End BatchPoint.

Lemma run_spec_gen ops : forall s, run_spec s ops = run_gen spec_step s ops.
Proof.
  induction ops as [|o ops IH]; intros s; cbn [run_spec run_gen]; [reflexivity|].
  destruct (spec_step s o) as [s' out]. cbn [fst snd]. rewrite IH. reflexivity.
Qed.

Lemma run_bb_gen ops : forall b, run_bb b ops = run_gen bb_step b ops.
Proof.
  induction ops as [|o ops IH]; intros b; cbn [run_bb run_gen]; [reflexivity|].
  destruct (bb_step b o) as [b' out]. cbn [fst snd]. rewrite IH. reflexivity.
Qed.

(* the clause holds of every history of either model, from every state *)
Theorem spec_batch_point_proved s ops : batch_point ops (run_spec s ops) = true.
Proof.
  rewrite run_spec_gen. unfold batch_point.
  apply (batch_point_gen spec_step spec_point spec_read_keeps_state spec_get_point spec_batch_point); constructor.
Qed.

Theorem bb_batch_point_proved b ops : batch_point ops (run_bb b ops) = true.
Proof.
  rewrite run_bb_gen. unfold batch_point.
  apply (batch_point_gen bb_step bb_point bb_read_keeps_state bb_get_point bb_batch_point); constructor.
Qed.
