(* C16 - proofs: what the reference compiler of C17 emits for a well-formed schema passes the model of
   the builder's validation, clause by clause. *)
From Coq Require Import List NArith ZArith Bool String Ascii Lia.
From V Require Import Lib.Check Gen.Params C17_Compile.Model C17_Compile.Proofs C16_Total.Model.
Import ListNotations.

(* ------------------------------------------------------------------ generic *)

Lemma map_flat_map' {A B C} (f : B -> C) (g : A -> list B) l :
  map f (flat_map g l) = flat_map (fun x => map f (g x)) l.
Proof. induction l; cbn; auto. rewrite map_app, IHl. auto. Qed.

Lemma flat_map_ext_in {A B} (f g : A -> list B) l : (forall x, In x l -> f x = g x) -> flat_map f l = flat_map g l.
Proof. induction l; cbn; intros H; auto. rewrite H, IHl; auto. Qed.

Lemma forallb_map {A B} (f : B -> bool) (g : A -> B) l : forallb f (map g l) = forallb (fun x => f (g x)) l.
Proof. induction l; cbn; auto. rewrite IHl; auto. Qed.

Lemma mem_s_In x l : mem_s x l = true <-> In x l.
Proof.
  unfold mem_s. rewrite existsb_exists. split.
  - intros (y & Hy & E). apply String.eqb_eq in E. subst; auto.
  - intros H. exists x. split; auto. apply String.eqb_refl.
Qed.

Lemma mem_q_In x l : mem_q x l = true <-> In x l.
Proof.
  unfold mem_q. rewrite existsb_exists. split.
  - intros (y & Hy & E). apply qname_eqb_eq in E. subst; auto.
  - intros H. exists x. split; auto. apply qname_eqb_refl.
Qed.

Lemma NoDup_nodup_s l : NoDup l -> nodup_b String.eqb l = true.
Proof.
  induction 1 as [|x r Hnot Hn IH]; cbn; auto. rewrite IH, andb_true_r. apply negb_true_iff.
  destruct (existsb (String.eqb x) r) eqn:E; auto. apply existsb_exists in E as (y & Hy & Ey).
  apply String.eqb_eq in Ey. subst. contradiction.
Qed.

Lemma nodup_s_NoDup l : nodup_b String.eqb l = true -> NoDup l.
Proof. apply nodup_b_NoDup. apply String.eqb_eq. Qed.

Lemma find_item_in d i : NoDup (map item_key d) -> In i d -> find_item d (item_key i) = Some i.
Proof.
  unfold find_item. induction d as [|x r IH]; cbn; intros Hn Hin; [destruct Hin|].
  inversion Hn as [|? ? Hnot Hr]; subst. destruct Hin as [-> | Hin].
  - rewrite qname_eqb_refl. auto.
  - destruct (qname_eqb (item_key x) (item_key i)) eqn:E; [|auto].
    apply qname_eqb_eq in E. exfalso. apply Hnot. rewrite E. apply in_map; auto.
Qed.

(* ------------------------------------------------------------------ the shape of the compiled list *)

Section Compiled.
Variable a : schema.
Variable m : mode.

Lemma compiled_cases it : In it (compile_items a m) ->
  exists p w, In (p, w) (all_ws a) /\
    (it = ws_item a m p w \/ (w_abstract w = false /\ it = desc_item m (p_name p) w) \/
     exists i, In i (w_items w) /\ In it (stmt_items a m (p_name p) (p_name p, w_name w) i)).
Proof.
  unfold compile_items. intros Hin. apply in_flat_map in Hin as ([p w] & Hpw & Hin). exists p, w. split; auto.
  cbn [fst snd] in Hin. unfold ws_items in Hin. destruct Hin as [E | Hin]; [left; auto|].
  apply in_app_iff in Hin as [Hin | Hin].
  - destruct (w_abstract w) eqn:Ea; [destruct Hin|]. destruct Hin as [E | []]. right. left. auto.
  - right. right. apply in_flat_map in Hin as (i & Hi & Hin). eauto.
Qed.

Lemma in_compiled_ws p w : In (p, w) (all_ws a) -> In (ws_item a m p w) (compile_items a m).
Proof. intros H. eapply in_compile_ws; [apply in_all_ws; eauto | left; auto]. Qed.

Lemma in_compiled_desc p w : In (p, w) (all_ws a) -> w_abstract w = false -> In (desc_item m (p_name p) w) (compile_items a m).
Proof.
  intros H Ha. eapply in_compile_ws; [apply in_all_ws; eauto|]. unfold ws_items. right. apply in_app_iff. left.
  rewrite Ha. left; auto.
Qed.

Lemma in_compiled_stmt p w i it :
  In (p, w) (all_ws a) -> In i (w_items w) -> In it (stmt_items a m (p_name p) (p_name p, w_name w) i) ->
  In it (compile_items a m).
Proof. intros H Hi Hit. eapply in_compile_stmt; eauto. apply in_all_ws; auto. Qed.

(* keys do not depend on the mode *)
Lemma stmt_keys pn wq i : map item_key (stmt_items a m pn wq i) = map item_key (stmt_items a Ideal pn wq i).
Proof.
  destruct i; cbn; auto. unfold table_items. destruct (chain a (fuel0 a) pn t) as [[b ls]|]; auto.
  cbn. f_equal. rewrite !map_map. apply map_ext. intros; reflexivity.
Qed.

Lemma keys_mode : map item_key (compile_items a m) = map item_key (compile_items a Ideal).
Proof.
  unfold compile_items. rewrite !map_flat_map'. apply flat_map_ext_in. intros [p w] _. cbn [fst snd].
  unfold ws_items. cbn [map]. f_equal. rewrite !map_app. f_equal.
  - destruct (w_abstract w); reflexivity.
  - rewrite !map_flat_map'. apply flat_map_ext_in. intros i _. apply stmt_keys.
Qed.

End Compiled.

(* ------------------------------------------------------------------ scope -> compiled item *)

Section Scope.
Variable a : schema.
Variable m : mode.
Hypothesis Hwf : wf a = true.

Let d := compile_items a m.

Lemma d_nodup : NoDup (map item_key d).
Proof. unfold d. rewrite keys_mode. apply wf_keys_nodup; auto. Qed.

Lemma cls_of_in i : In i d -> cls_of d (item_key i) = Some (item_cls i).
Proof. intros H. unfold cls_of. rewrite (find_item_in d i d_nodup H). auto. Qed.

Lemma lookup_ws_in q p w : lookup_ws a q = Some (p, w) -> In (p, w) (all_ws a) /\ q = (p_name p, w_name w).
Proof.
  unfold lookup_ws. intros H. apply find_some in H as [Hin E]. cbn in E. apply qname_eqb_eq in E. auto.
Qed.

Lemma vis_ws_all p w p' w' : In (p, w) (all_ws a) -> In (p', w') (vis_ws a p w) -> In (p', w') (all_ws a).
Proof.
  intros Hpw [E | Hin]; [inversion E; subst; auto|].
  apply in_flat_map in Hin as (q & _ & Hin). destruct (lookup_ws a q) as [[p2 w2]|] eqn:El; [|destruct Hin].
  destruct Hin as [E | []]. inversion E; subst. apply lookup_ws_in in El. tauto.
Qed.

Lemma in_scope_elim p w s q : In (p, w) (all_ws a) -> in_scope a p w s q = true ->
  exists p' w', In (p', w') (all_ws a) /\ In (p', w') (vis_ws a p w) /\ p_name p' = fst q /\ In (snd q) (s w').
Proof.
  intros Hpw H. unfold in_scope in H. apply existsb_exists in H as ([p' w'] & Hin & H). cbn [fst snd] in H.
  apply andb_true_iff in H as [E Hm]. apply String.eqb_eq in E. apply mem_s_In in Hm.
  exists p', w'. repeat split; auto. eapply vis_ws_all; eauto.
Qed.

(* one lemma per statement class: a name the selector lists is the key of a compiled item of that class *)
Ltac sel_item Hn :=
  apply in_flat_map in Hn as (i & Hi & Hn); destruct i; try (destruct Hn; fail).

Lemma role_compiled p' w' n : In (p', w') (all_ws a) -> In n (s_roles w') ->
  exists it, In it d /\ item_key it = (p_name p', n) /\ item_cls it = ClRole /\ item_ws it = Some (p_name p', w_name w').
Proof.
  intros Hpw Hn. unfold s_roles in Hn. sel_item Hn. destruct Hn as [<- | []].
  eexists. split; [eapply in_compiled_stmt; eauto; cbn; left; reflexivity|]. cbn. auto.
Qed.

Lemma rate_compiled p' w' n : In (p', w') (all_ws a) -> In n (s_rates w') ->
  exists it, In it d /\ item_key it = (p_name p', n) /\ item_cls it = ClRate /\ item_ws it = Some (p_name p', w_name w').
Proof.
  intros Hpw Hn. unfold s_rates in Hn. sel_item Hn. destruct Hn as [<- | []].
  eexists. split; [eapply in_compiled_stmt; eauto; cbn; left; reflexivity|]. cbn. auto.
Qed.

Lemma type_compiled p' w' n : In (p', w') (all_ws a) -> In n (s_types w') ->
  exists it, In it d /\ item_key it = (p_name p', n) /\ item_cls it = ClStruct KObject /\ item_ws it = Some (p_name p', w_name w').
Proof.
  intros Hpw Hn. unfold s_types in Hn. sel_item Hn. destruct Hn as [<- | []].
  eexists. split; [eapply in_compiled_stmt; eauto; cbn; left; reflexivity|]. cbn. auto.
Qed.

Lemma view_compiled p' w' n : In (p', w') (all_ws a) -> In n (s_views w') ->
  exists it, In it d /\ item_key it = (p_name p', n) /\ item_cls it = ClView /\ item_ws it = Some (p_name p', w_name w').
Proof.
  intros Hpw Hn. unfold s_views in Hn. sel_item Hn. destruct Hn as [<- | []].
  eexists. split; [eapply in_compiled_stmt; eauto; cbn; left; reflexivity|]. cbn. auto.
Qed.

Lemma cmd_compiled p' w' n : In (p', w') (all_ws a) -> In n (s_cmds w') ->
  exists it, In it d /\ item_key it = (p_name p', n) /\ item_cls it = ClCmd /\ item_ws it = Some (p_name p', w_name w').
Proof.
  intros Hpw Hn. unfold s_cmds in Hn. sel_item Hn. destruct (fn_cmd f) eqn:Ec; [|destruct Hn]. destruct Hn as [<- | []].
  eexists. split; [eapply in_compiled_stmt; eauto; cbn; left; reflexivity|]. cbn. rewrite Ec. auto.
Qed.

Lemma query_compiled p' w' n : In (p', w') (all_ws a) -> In n (s_queries w') ->
  exists it, In it d /\ item_key it = (p_name p', n) /\ item_cls it = ClQuery /\ item_ws it = Some (p_name p', w_name w').
Proof.
  intros Hpw Hn. unfold s_queries in Hn. sel_item Hn. destruct (fn_cmd f) eqn:Ec; [destruct Hn|]. destruct Hn as [<- | []].
  eexists. split; [eapply in_compiled_stmt; eauto; cbn; left; reflexivity|]. cbn. rewrite Ec. auto.
Qed.

(* tables: every table of a workspace (top-level or nested) is compiled, with the kind `table_kinds_ws` gives *)
Lemma table_kind_compiled p' w' n k : In (p', w') (all_ws a) -> In (n, k) (table_kinds_ws a (p_name p') w') ->
  exists it, In it d /\ item_key it = (p_name p', n) /\ item_cls it = ClStruct k /\ item_ws it = Some (p_name p', w_name w')
             /\ k <> KObject.
Proof.
  intros Hpw Hn. unfold table_kinds_ws in Hn. apply in_flat_map in Hn as (t & Ht & Hn).
  unfold ws_roots in Ht. apply in_flat_map in Ht as (i & Hi & Ht). destruct i; try (destruct Ht; fail).
  destruct Ht as [<- | []].
  destruct (chain a (fuel0 a) (p_name p') t0) as [[b ls]|] eqn:Ec; [|destruct Hn].
  destruct Hn as [E | Hn].
  - inversion E; subst. eexists. split.
    + eapply in_compiled_stmt; eauto. cbn. unfold table_items. rewrite Ec. left. reflexivity.
    + cbn. repeat split; auto. destruct b; discriminate.
  - apply in_map_iff in Hn as (t' & E & Ht'). inversion E; subst. eexists. split.
    + eapply in_compiled_stmt; eauto. cbn. unfold table_items. rewrite Ec. right. apply in_map_iff. eauto.
    + cbn. repeat split; auto. destruct b; discriminate.
Qed.

Lemma kind_in_scope_compiled p w q k : In (p, w) (all_ws a) -> kind_in_scope a p w q = Some k ->
  exists it, In it d /\ item_key it = q /\ item_cls it = ClStruct k /\ k <> KObject
             /\ exists p' w', In (p', w') (vis_ws a p w) /\ item_ws it = Some (p_name p', w_name w').
Proof.
  intros Hpw H. unfold kind_in_scope in H.
  match type of H with match ?l with _ => _ end = _ => destruct l as [|k0 r] eqn:El; [discriminate|] end.
  inversion H; subst k0.
  assert (Hin : In k (k :: r)) by (left; auto). rewrite <- El in Hin.
  apply in_flat_map in Hin as ([p' w'] & Hvis & Hin). cbn [fst snd] in Hin.
  destruct (p_name p' =? fst q)%string eqn:Ep; [|destruct Hin]. apply String.eqb_eq in Ep.
  apply in_flat_map in Hin as ([n k'] & Hnk & Hin). cbn [fst snd] in Hin.
  destruct (n =? snd q)%string eqn:En; [|destruct Hin]. apply String.eqb_eq in En. destruct Hin as [<- | []].
  destruct (table_kind_compiled p' w' n k' (vis_ws_all _ _ _ _ Hpw Hvis) Hnk) as (it & Hit & Hk & Hc & Hw & Hne).
  exists it. repeat split; auto.
  - rewrite Hk, Ep, En. destruct q; auto.
  - exists p', w'. auto.
Qed.

End Scope.

(* ------------------------------------------------------------------ what wf says about one statement *)

Section Clauses.
Variable a : schema.
Variable m : mode.
Hypothesis Hwf : wf a = true.

Let d := compile_items a m.

Lemma stmt_ok_in p w i : In (p, w) (all_ws a) -> In i (w_items w) -> stmt_ok a p w i = true.
Proof.
  intros Hpw Hi. apply in_all_ws in Hpw. destruct (ws_ok_parts a p w (wf_ws_ok a Hwf p w Hpw)) as [_ Hst].
  rewrite forallb_forall in Hst. auto.
Qed.

Lemma ws_item_key p w : item_key (ws_item a m p w) = (p_name p, w_name w).
Proof. reflexivity. Qed.

Lemma lookup_ws_compiled q p' w' : lookup_ws a q = Some (p', w') -> cls_of d q = Some ClWs.
Proof.
  intros H. unfold d. apply lookup_ws_in in H as [Hin ->]. rewrite <- (ws_item_key p' w').
  rewrite (cls_of_in a m Hwf _ (in_compiled_ws a m p' w' Hin)). reflexivity.
Qed.

(* to show a per-item clause: the workspace item, the descriptor, and the items of each statement *)
Lemma forall_compiled (P : item -> bool) :
  (forall p w, In (p, w) (all_ws a) -> P (ws_item a m p w) = true) ->
  (forall p w, In (p, w) (all_ws a) -> w_abstract w = false -> P (desc_item m (p_name p) w) = true) ->
  (forall p w i it, In (p, w) (all_ws a) -> In i (w_items w) ->
                    In it (stmt_items a m (p_name p) (p_name p, w_name w) i) -> P it = true) ->
  forallb P d = true.
Proof.
  intros H1 H2 H3. apply forallb_forall. intros it Hit.
  destruct (compiled_cases a m it Hit) as (p & w & Hpw & [-> | [[Ha ->] | (i & Hi & Hin)]]); eauto.
Qed.

Inductive stmt_case (pn : ident) (wq : qname) : wsitem -> item -> Prop :=
  | SC_root t b ls : chain a (fuel0 a) pn t = Some (b, ls) ->
      stmt_case pn wq (ITable t) (struct_item m pn wq t (base_kind b) (base_single b) ls)
  | SC_nested t b ls t' : chain a (fuel0 a) pn t = Some (b, ls) -> In t' (nested_tables t) ->
      stmt_case pn wq (ITable t) (struct_item m pn wq t' (nested_kind (base_kind b)) false (nested_lists a m pn t'))
  | SC_type n ys : stmt_case pn wq (IType n ys) (type_item pn wq n ys)
  | SC_view v : stmt_case pn wq (IView v) (view_item (m_view_refs m) pn wq v)
  | SC_proj x : stmt_case pn wq (IProj x) (proj_item pn wq x)
  | SC_func f : stmt_case pn wq (IFunc f) (func_item pn wq f)
  | SC_role n pub : stmt_case pn wq (IRole n pub) (ItRole (pn, n) wq pub)
  | SC_rate r : stmt_case pn wq (IRate r) (rate_item pn wq r)
  | SC_limit l : stmt_case pn wq (ILimit l) (limit_item pn wq l).

Lemma stmt_cases pn wq i it : In it (stmt_items a m pn wq i) -> stmt_case pn wq i it.
Proof.
  destruct i as [t | n ys | v | x | f | n pub | r | l | g | n]; cbn; intros Hin;
    try (destruct Hin as [<- | []]; constructor); try (destruct Hin; fail).
  unfold table_items in Hin. destruct (chain a (fuel0 a) pn t) as [[b ls]|] eqn:Ec; [|destruct Hin].
  destruct Hin as [<- | Hin]; [econstructor; eauto|]. apply in_map_iff in Hin as (t' & <- & Ht').
  econstructor; eauto.
Qed.

Lemma compiled_key_pkg it : In it d -> exists p, In p a /\ fst (item_key it) = p_name p.
Proof.
  intros Hit. destruct (compiled_cases a m it Hit) as (p & w & Hpw & Hc). exists p. split; [apply in_all_ws in Hpw; apply Hpw|].
  destruct Hc as [-> | [[_ ->] | (i & Hi & Hin)]]; try reflexivity.
  destruct (stmt_cases _ _ _ _ Hin); reflexivity.
Qed.

Lemma sys_not_compiled q : fst q = "sys"%string -> find_item d q = None.
Proof.
  intros Hq. unfold find_item. destruct (find _ d) as [i|] eqn:Ef; auto. exfalso.
  apply find_some in Ef as [Hin E]. apply qname_eqb_eq in E.
  destruct (compiled_key_pkg i Hin) as (p & Hp & Ek). rewrite E, Hq in Ek.
  pose proof Hwf as H. unfold wf in H. rewrite !andb_true_iff in H. destruct H as [[[[[_ _] Hs] _] _] _].
  apply negb_true_iff in Hs. assert (mem_s "sys" (map p_name a) = true); [|congruence].
  apply mem_s_In. rewrite Ek. apply in_map; auto.
Qed.

Lemma cls_of_sys q : fst q = "sys"%string -> cls_of d q = sys_cls q.
Proof. intros H. unfold cls_of. rewrite sys_not_compiled; auto. Qed.

(* ---- bv_keys ---- *)
Theorem bv_keys_proved : bv_keys d = true.
Proof. unfold bv_keys. apply NoDup_nodup_b. apply d_nodup; auto. Qed.

(* ---- bv_views ---- *)
Lemma kind_fixed_key keep pn part i : is_varlen i = false -> kind_fixed (fd_kind (vfd_key keep pn part i)) = true.
Proof. destruct i as [n ty nn | n refs nn]; cbn; auto. destruct ty; cbn; auto; discriminate. Qed.

Lemma view_keys_found keep pn part (v : view) (P : vitem -> bool) l :
  forallb (fun n => match find_vitem v n with Some i => P i | None => false end) l = true ->
  Forall (fun f => exists i, f = vfd_key keep pn part i /\ P i = true)
         (flat_map (fun n => map (vfd_key keep pn part) (opt_list (find_vitem v n))) l)
  /\ List.length (flat_map (fun n => map (vfd_key keep pn part) (opt_list (find_vitem v n))) l) = List.length l.
Proof.
  induction l as [|n r IH]; cbn; intros H; [split; auto|].
  apply andb_true_iff in H as [Hn Hr]. destruct (IH Hr) as [IH1 IH2].
  destruct (find_vitem v n) as [i|]; [|discriminate]. cbn. split; [constructor; eauto | auto].
Qed.

Lemma var_only_last_spec keep pn (v : view) l :
  forallb (fun n => match find_vitem v n with Some i => negb (is_varlen i) | None => false end) (all_but_last l) = true ->
  forallb (fun n => match find_vitem v n with Some i => key_type_ok i | None => false end) l = true ->
  var_only_last (flat_map (fun n => map (vfd_key keep pn false) (opt_list (find_vitem v n))) l) = true.
Proof.
  induction l as [|n r IH]; cbn [flat_map all_but_last]; intros H1 H2; auto.
  cbn [forallb] in H2. apply andb_true_iff in H2 as [Hn H2].
  destruct (find_vitem v n) as [i|] eqn:Ef; [|discriminate]. cbn [opt_list map app].
  destruct r as [|n2 r2].
  - cbn. auto.
  - cbn [forallb] in H1. rewrite Ef in H1. apply andb_true_iff in H1 as [Hv H1]. specialize (IH H1 H2).
    cbn [forallb] in H2. apply andb_true_iff in H2 as [Hn2 _].
    destruct (find_vitem v n2) as [i2|] eqn:Ef2; [|discriminate].
    cbn [flat_map opt_list map app] in *. cbn [var_only_last]. rewrite Ef2 in *. cbn [opt_list map app] in *.
    rewrite IH, andb_true_r. apply kind_fixed_key. apply negb_true_iff; auto.
Qed.

Lemma nonempty_len {A B} (l1 : list A) (l2 : list B) :
  List.length l1 = List.length l2 -> negb (match l2 with [] => true | _ => false end) = true ->
  negb (match l1 with [] => true | _ => false end) = true.
Proof. destruct l1, l2; cbn; auto; discriminate. Qed.

Theorem bv_views_proved : bv_views d = true.
Proof.
  unfold bv_views. apply forallb_forall. intros it Hit.
  destruct (compiled_cases a m it Hit) as (p & w & Hpw & [-> | [[_ ->] | (i & Hi & Hin)]]); [reflexivity | reflexivity |].
  destruct i as [t | n ys | v | x | f | n pub | r | l | g | n]; cbn in Hin;
    try (destruct Hin as [<- | []]; reflexivity); try (destruct Hin; fail).
  - unfold table_items in Hin. destruct (chain a (fuel0 a) (p_name p) t) as [[b ls]|]; [|destruct Hin].
    destruct Hin as [<- | Hin]; [reflexivity|]. apply in_map_iff in Hin as (t' & <- & _). reflexivity.
  - destruct Hin as [<- | []]. pose proof (stmt_ok_in p w _ Hpw Hi) as Hok. cbn in Hok. unfold view_ok in Hok.
    rewrite !andb_true_iff in Hok. destruct Hok as [[[[[[[[[_ _] Hpk] Hcc] _] Hpkf] Hccf] Hccl] _] _].
    unfold view_item, bv_views_item.
    destruct (view_keys_found (m_view_refs m) (p_name p) true v (fun i => negb (is_varlen i) && key_type_ok i) (v_pk v) Hpkf) as [Fpk Lpk].
    destruct (view_keys_found (m_view_refs m) (p_name p) false v key_type_ok (v_cc v) Hccf) as [_ Lcc].
    rewrite !andb_true_iff. repeat split.
    + eapply nonempty_len; eauto.
    + eapply nonempty_len; eauto.
    + apply forallb_forall. intros f Hf. rewrite Forall_forall in Fpk. destruct (Fpk f Hf) as (i & -> & Hi').
      apply andb_true_iff in Hi' as [Hv _]. apply kind_fixed_key. apply negb_true_iff; auto.
    + apply var_only_last_spec; auto.
Qed.

(* ---- bv_funcs ---- *)
Lemma scoped_type_cls p w q : In (p, w) (all_ws a) -> in_scope a p w s_types q = true -> cls_of d q = Some (ClStruct KObject).
Proof.
  intros Hpw H. destruct (in_scope_elim a p w _ q Hpw H) as (p' & w' & Hin & _ & Ep & Hn).
  destruct (type_compiled a m p' w' _ Hin Hn) as (it & Hit & Hk & Hc & _).
  unfold d. rewrite <- Hc. replace q with (item_key it) by (rewrite Hk, Ep; destruct q; auto).
  apply cls_of_in; auto.
Qed.

Lemma scoped_odoc_cls p w q : In (p, w) (all_ws a) -> odoc_in_scope a p w q = true -> cls_of d q = Some (ClStruct KODoc).
Proof.
  intros Hpw H. unfold odoc_in_scope in H. destruct (kind_in_scope a p w q) as [k|] eqn:Ek; [|discriminate].
  destruct k; try discriminate.
  destruct (kind_in_scope_compiled a m p w q _ Hpw Ek) as (it & Hit & Hk & Hc & _).
  unfold d. rewrite <- Hc, <- Hk. apply cls_of_in; auto.
Qed.

Lemma param_ok_cls p w allow x docs : In (p, w) (all_ws a) -> param_ok a p w allow x = true ->
  param_cls_ok d (fparam_q (p_name p) x) docs = true.
Proof.
  intros Hpw H. destruct x as [| | |q]; cbn [fparam_q param_cls_ok]; auto.
  destruct (qname_eqb (resolve (p_name p) q) (sysq "ANY")); auto.
  unfold param_ok in H. apply orb_true_iff in H as [H | H].
  - rewrite (scoped_type_cls p w _ Hpw H). auto.
  - apply andb_true_iff in H as [_ H]. rewrite (scoped_odoc_cls p w _ Hpw H). auto.
Qed.

Theorem bv_funcs_proved : bv_funcs d = true.
Proof.
  unfold bv_funcs. apply forall_compiled; try reflexivity.
  intros p w i it Hpw Hi Hin. destruct (stmt_cases _ _ _ _ Hin); try reflexivity.
  pose proof (stmt_ok_in p w _ Hpw Hi) as Hok. cbn in Hok. unfold func_ok in Hok.
  rewrite !andb_true_iff in Hok. destruct Hok as [[[[Hp _] Hu] Hr] _].
  unfold func_item, bv_funcs_item. rewrite (param_ok_cls p w _ _ false Hpw Hp), (param_ok_cls p w _ _ true Hpw Hr). cbn [andb].
  rewrite andb_true_r. destruct (fn_cmd f); [|reflexivity].
  apply andb_true_iff in Hu as [Hu _]. apply (param_ok_cls p w _ _ false Hpw Hu).
Qed.

(* ---- bv_ws ---- *)
Lemma ws_anc_lookup fuel : forall pn inh l x, ws_anc a fuel pn inh = Some l -> In x l ->
  exists p' w', lookup_ws a x = Some (p', w').
Proof.
  induction fuel as [|f IH]; intros pn inh l x H Hx.
  - destruct inh; cbn in H; [inversion H; subst; destruct Hx | discriminate].
  - destruct inh as [|q0 r] eqn:Ei; [cbn in H; inversion H; subst; destruct Hx|].
    rewrite <- Ei in *. rewrite ws_anc_S in H by (subst; discriminate).
    pose proof H as H0. apply (fold_anc_in a _ _ _ _ x) in H. apply H in Hx as (q & Hq & Hx).
    (* the fold succeeded: q's workspace was found *)
    assert (exists p' w' l', lookup_ws a (resolve pn q) = Some (p', w') /\ ws_anc a f (p_name p') (w_inh w') = Some l') as (p' & w' & l' & El & Ea).
    { clear H Hx Ei. revert l H0. induction inh as [|q1 r1 IHr]; [destruct Hq|]. intros l H0. cbn in H0.
      unfold anc_step at 1 in H0.
      destruct (fold_right (anc_step a f pn) (Some []) r1) as [lr|] eqn:Er; [|discriminate].
      destruct Hq as [E | Hq].
      - subst q1. destruct (lookup_ws a (resolve pn q)) as [[p' w']|] eqn:El; [|discriminate].
        destruct (ws_anc a f (p_name p') (w_inh w')) eqn:Ea; [|discriminate]. eauto 6.
      - eapply IHr; eauto. }
    destruct Hx as [-> | (p2 & w2 & l2 & El2 & Ea2 & Hx)]; [eauto|].
    apply (IH _ _ _ _ Ea2 Hx).
Qed.

Theorem bv_ws_proved : bv_ws d = true.
Proof.
  unfold bv_ws. apply forall_compiled.
  - intros p w Hpw. unfold ws_item, bv_ws_item. apply andb_true_iff. split.
    + apply forallb_forall. intros q Hq. apply in_app_iff in Hq as [Hq | Hq].
      * unfold ws_ancestors in Hq. destruct (w_inh w) as [|q0 inh0] eqn:Ei.
        -- destruct Hq as [<- | []]. rewrite cls_of_sys; reflexivity.
        -- unfold anc_list in Hq.
           destruct (ws_anc a (fuelw a) (p_name p) (w_inh w)) as [la|] eqn:Ea; [|destruct Hq].
           destruct (ws_anc_lookup _ _ _ _ _ Ea Hq) as (p' & w' & El). rewrite (lookup_ws_compiled _ _ _ El). auto.
      * apply in_flat_map in Hq as (i & Hi & Hq). destruct i; try (destruct Hq; fail). destruct Hq as [<- | []].
        pose proof (stmt_ok_in p w _ Hpw Hi) as Hok. cbn in Hok.
        destruct (lookup_ws a (p_name p, n)) as [[p' w']|] eqn:El; [|discriminate].
        rewrite (lookup_ws_compiled _ _ _ El). auto.
    + destruct (w_abstract w) eqn:Eab; [reflexivity|].
      change (p_name p, desc_name w) with (item_key (desc_item m (p_name p) w)).
      unfold d. rewrite (find_item_in _ _ (d_nodup a m Hwf) (in_compiled_desc a m p w Hpw Eab)).
      cbn. apply qname_eqb_refl.
  - reflexivity.
  - intros p w i it Hpw Hi Hin. destruct (stmt_cases _ _ _ _ Hin); reflexivity.
Qed.

(* ---- visibility: what a workspace's scope reaches is among the types the builder lets it see ---- *)
Lemma closure_head f q : In q (ws_closure f d q).
Proof. destruct f; cbn; auto. Qed.

Lemma find_ws_item p w : In (p, w) (all_ws a) -> find_item d (p_name p, w_name w) = Some (ws_item a m p w).
Proof.
  intros Hpw. rewrite <- (ws_item_key p w). unfold d. apply find_item_in; [apply d_nodup; auto | apply in_compiled_ws; auto].
Qed.

Lemma visible_scope p w p' w' : In (p, w) (all_ws a) -> In (p', w') (vis_ws a p w) ->
  In (p_name p', w_name w') (visible_ws d (p_name p, w_name w)).
Proof.
  intros Hpw Hv. unfold visible_ws.
  assert (Hd : In (ws_item a m p w) d) by (apply in_compiled_ws; auto).
  destruct (List.length d) as [|f] eqn:El; [destruct d; [destruct Hd | discriminate]|].
  cbn [ws_closure]. destruct Hv as [E | Hv]; [inversion E; subst; left; auto|]. right.
  apply in_flat_map in Hv as (q & Hq & Hv). destruct (lookup_ws a q) as [[p2 w2]|] eqn:Elk; [|destruct Hv].
  destruct Hv as [E | []]. inversion E; subst p2 w2. apply lookup_ws_in in Elk as [_ ->].
  apply in_flat_map. exists (p_name p', w_name w'). split; [|apply closure_head].
  unfold ws_anc_of. rewrite (find_ws_item p w Hpw). unfold ws_item, ws_ancestors.
  destruct (w_inh w) eqn:Ei; auto. unfold anc_list in Hq. rewrite Ei in Hq.
  destruct (fuelw a); cbn in Hq; destruct Hq.
Qed.

Lemma visible_item p w p' w' it : In (p, w) (all_ws a) -> In (p', w') (vis_ws a p w) -> In it d ->
  item_ws it = Some (p_name p', w_name w') ->
  visible_q d (p_name p, w_name w) (item_key it) = Some (item_cls it) /\ visible d (p_name p, w_name w) it = true.
Proof.
  intros Hpw Hv Hit Hw. assert (Hvis : visible d (p_name p, w_name w) it = true).
  { unfold visible. rewrite Hw. apply mem_q_In. apply visible_scope; auto. }
  split; auto. unfold visible_q. unfold d in *. rewrite (find_item_in _ _ (d_nodup a m Hwf) Hit). rewrite Hvis. auto.
Qed.

(* a name in scope, of a statement class whose declarations are compiled to class c, is visible with class c *)
Lemma scoped_visible p w (s : sel) q c :
  In (p, w) (all_ws a) -> in_scope a p w s q = true ->
  (forall p' w' n, In (p', w') (all_ws a) -> In n (s w') ->
     exists it, In it d /\ item_key it = (p_name p', n) /\ item_cls it = c /\ item_ws it = Some (p_name p', w_name w')) ->
  visible_q d (p_name p, w_name w) q = Some c.
Proof.
  intros Hpw H Hc. destruct (in_scope_elim a p w _ q Hpw H) as (p' & w' & Hin & Hv & Ep & Hn).
  destruct (Hc p' w' _ Hin Hn) as (it & Hit & Hk & Hcl & Hw).
  destruct (visible_item p w p' w' it Hpw Hv Hit Hw) as [Hq _].
  rewrite Hk, Ep, Hcl in Hq. destruct q; auto.
Qed.

(* every table of a workspace has a kind: its root's chain resolves (wf) *)
Lemma tables_have_kinds p' w' n : In (p', w') (all_ws a) -> In n (s_tables w') ->
  exists k, In (n, k) (table_kinds_ws a (p_name p') w').
Proof.
  intros Hpw Hn. unfold s_tables, all_tables_ws in Hn. apply in_map_iff in Hn as (t' & <- & Ht').
  apply in_flat_map in Ht' as (t & Ht & Ht'). pose proof Ht as Hr.
  unfold ws_roots in Ht. apply in_flat_map in Ht as (i & Hi & Ht). destruct i; try (destruct Ht; fail).
  destruct Ht as [<- | []].
  destruct (wf_chains_ok a Hwf p' w' t0 (proj1 (in_all_ws a p' w') Hpw) Hi) as [Hc _].
  destruct (chain a (fuel0 a) (p_name p') t0) as [[b ls]|] eqn:Ec; [|congruence].
  destruct Ht' as [<- | Ht'].
  - exists (base_kind b). unfold table_kinds_ws. apply in_flat_map. exists t0. split; auto. rewrite Ec. left; auto.
  - exists (nested_kind (base_kind b)). unfold table_kinds_ws. apply in_flat_map. exists t0. split; auto. rewrite Ec.
    right. apply in_map_iff. exists t'. auto.
Qed.

Lemma table_compiled p' w' n : In (p', w') (all_ws a) -> In n (s_tables w') ->
  exists it k, In it d /\ item_key it = (p_name p', n) /\ item_cls it = ClStruct k /\ k <> KObject
               /\ item_ws it = Some (p_name p', w_name w').
Proof.
  intros Hpw Hn. destruct (tables_have_kinds p' w' n Hpw Hn) as (k & Hk).
  destruct (table_kind_compiled a m p' w' n k Hpw Hk) as (it & Hit & Hkey & Hc & Hw & Hne). exists it, k. auto.
Qed.

Lemma concrete_sub w' n : In n (s_concrete_tables w') -> In n (s_tables w').
Proof. unfold s_concrete_tables, s_tables. intros H. apply in_map_iff in H as (t & <- & Ht). apply filter_In in Ht as [Ht _]. apply in_map; auto. Qed.

Lemma roots_sub w' n : In n (s_concrete_roots w') -> In n (s_tables w').
Proof.
  unfold s_concrete_roots, s_tables, all_tables_ws. intros H. apply in_map_iff in H as (t & <- & Ht). apply filter_In in Ht as [Ht _].
  apply in_map. apply in_flat_map. exists t. split; auto. left; auto.
Qed.

(* a table in scope (through a selector contained in s_tables) is visible as a record *)
Lemma scoped_table_visible p w (s : sel) q : In (p, w) (all_ws a) -> (forall w' n, In n (s w') -> In n (s_tables w')) ->
  in_scope a p w s q = true ->
  exists k, visible_q d (p_name p, w_name w) q = Some (ClStruct k) /\ k <> KObject /\ cls_of d q = Some (ClStruct k).
Proof.
  intros Hpw Hsub H. destruct (in_scope_elim a p w _ q Hpw H) as (p' & w' & Hin & Hv & Ep & Hn).
  destruct (table_compiled p' w' _ Hin (Hsub _ _ Hn)) as (it & k & Hit & Hk & Hcl & Hne & Hw).
  destruct (visible_item p w p' w' it Hpw Hv Hit Hw) as [Hq _].
  assert (Eq : item_key it = q) by (rewrite Hk, Ep; destruct q; auto).
  exists k. rewrite <- Eq, Hq, Hcl. repeat split; auto. unfold d. rewrite cls_of_in; auto. rewrite Hcl; auto.
Qed.

(* ---- bv_acl ---- *)
Lemma forallb_repeat {A} (f : A -> bool) l n : forallb f l = true -> forallb f (repeat_list l n) = true.
Proof. intros H. induction n; cbn; auto. rewrite forallb_app, H, IHn. auto. Qed.

Lemma ops_compatible_single o : ops_compatible [o] = true.
Proof. destruct o; reflexivity. Qed.

Lemma ops_compatible_records l : l <> [] -> forallb (fun x => mem_op x record_ops) l = true -> ops_compatible l = true.
Proof.
  destruct l as [|o r]; [congruence|]. intros _ H. unfold ops_compatible. pose proof H as H'. cbn [forallb] in H'.
  apply andb_true_iff in H' as [Ho _]. rewrite Ho. auto.
Qed.

Lemma norm_ops_sub l o : In o (norm_ops l) -> mem_op o l = true.
Proof. unfold norm_ops. intros H. apply filter_In in H as [_ H]. auto. Qed.

Lemma mem_op_In o l : mem_op o l = true <-> In o l.
Proof.
  unfold mem_op. rewrite existsb_exists. split.
  - intros (y & Hy & E). apply op_eqb_eq in E. subst; auto.
  - intros H. exists o. split; auto. apply op_eqb_refl.
Qed.

Lemma norm_ops_records l : l <> [] -> forallb (fun x => mem_op x record_ops) l = true -> ops_compatible (norm_ops l) = true.
Proof.
  intros Hne H. apply ops_compatible_records.
  - destruct l as [|o r]; [congruence|]. intros E.
    assert (Hin : In o (norm_ops (o :: r))).
    { unfold norm_ops. apply filter_In. split; [destruct o; cbn; tauto | cbn; rewrite op_eqb_refl; auto]. }
    rewrite E in Hin. destruct Hin.
  - apply forallb_forall. intros o Ho. apply norm_ops_sub in Ho. apply mem_op_In in Ho.
    rewrite forallb_forall in H. auto.
Qed.

Lemma local_visible p w it : In (p, w) (all_ws a) -> In it d -> item_ws it = Some (p_name p, w_name w) ->
  visible d (p_name p, w_name w) it = true.
Proof. intros Hpw Hit Hw. eapply visible_item; eauto. left; auto. Qed.

Lemma fwt_match p w k (s : sel) c : In (p, w) (all_ws a) -> local_nonempty s w = true -> fk_matches k c = true ->
  (forall n, In n (s w) -> exists it, In it d /\ item_cls it = c /\ item_ws it = Some (p_name p, w_name w)) ->
  forall good, good c = true -> flt_has_match d (p_name p, w_name w) good (FWT (p_name p, w_name w) k) = true.
Proof.
  intros Hpw Hl Hk Hc good Hg. unfold local_nonempty in Hl. destruct (s w) as [|n r] eqn:Es; [discriminate|].
  destruct (Hc n (or_introl eq_refl)) as (it & Hit & Hcl & Hw). cbn. apply existsb_exists. exists it. split; auto.
  rewrite Hw, qname_eqb_refl, (local_visible p w it Hpw Hit Hw), Hcl, Hk. auto.
Qed.

Lemma all_tables_match p w : In (p, w) (all_ws a) -> negb (w_abstract w) || local_nonempty s_tables w = true ->
  flt_has_match d (p_name p, w_name w) acl_cls (FWT (p_name p, w_name w) FkRecords) = true.
Proof.
  intros Hpw H. cbn. apply existsb_exists. apply orb_true_iff in H as [H | H].
  - apply negb_true_iff in H. exists (desc_item m (p_name p) w).
    assert (Hit : In (desc_item m (p_name p) w) d) by (apply in_compiled_desc; auto).
    split; auto. cbn [item_ws desc_item]. rewrite qname_eqb_refl.
    rewrite (local_visible p w _ Hpw Hit eq_refl). reflexivity.
  - unfold local_nonempty in H. destruct (s_tables w) as [|n r] eqn:Es; [discriminate|].
    destruct (table_compiled p w n Hpw) as (it & k & Hit & _ & Hcl & Hne & Hw); [rewrite Es; left; auto|].
    exists it. split; auto. rewrite Hw, qname_eqb_refl, (local_visible p w it Hpw Hit Hw), Hcl. destruct k; try reflexivity. congruence.
Qed.

Lemma grant_rule_ok p w g r : In (p, w) (all_ws a) -> In (IGrant g) (w_items w) ->
  In r (grant_rules (p_name p) (p_name p, w_name w) g) ->
  ops_compatible (r_ops r) = true
  /\ visible_q d (p_name p, w_name w) (r_role r) = Some ClRole
  /\ flt_has_match d (p_name p, w_name w) acl_cls (r_flt r) = true.
Proof.
  intros Hpw Hi Hr. pose proof (stmt_ok_in p w _ Hpw Hi) as Hok. cbn in Hok. unfold grant_ok in Hok.
  apply andb_true_iff in Hok as [Hrole Hw].
  assert (Hvr : visible_q d (p_name p, w_name w) (resolve (p_name p) (g_role g)) = Some ClRole).
  { eapply scoped_visible; eauto. intros. apply role_compiled; auto. }
  unfold grant_rules in Hr.
  assert (Hfq : forall q c, visible_q d (p_name p, w_name w) q = Some c -> acl_cls c = true ->
                flt_has_match d (p_name p, w_name w) acl_cls (FQ [q]) = true).
  { intros q c Hq Hc. cbn. rewrite Hq, Hc. auto. }
  destruct (g_what g) as [ro | c | q | v cols | | | | [acts|] | t cols | t acts].
  - destruct Hr as [<- | []]. cbn. apply andb_true_iff in Hw as [Hw _]. repeat split; auto.
    eapply Hfq; [eapply scoped_visible; eauto; intros; apply role_compiled; auto | auto].
  - destruct Hr as [<- | []]. cbn. repeat split; auto.
    eapply Hfq; [eapply scoped_visible; eauto; intros; apply cmd_compiled; auto | auto].
  - destruct Hr as [<- | []]. cbn. repeat split; auto.
    eapply Hfq; [eapply scoped_visible; eauto; intros; apply query_compiled; auto | auto].
  - destruct Hr as [<- | []]. cbn. apply andb_true_iff in Hw as [Hw _]. repeat split; auto.
    eapply Hfq; [eapply scoped_visible; eauto; intros; apply view_compiled; auto | auto].
  - destruct Hr as [<- | []]. cbn [r_ops r_role r_flt]. repeat split; auto.
    eapply (fwt_match p w FkCommand s_cmds ClCmd); eauto.
    intros n Hn. destruct (cmd_compiled a m p w n Hpw Hn) as (it & ? & ? & ? & ?). eauto.
  - destruct Hr as [<- | []]. cbn [r_ops r_role r_flt]. repeat split; auto.
    eapply (fwt_match p w FkQuery s_queries ClQuery); eauto.
    intros n Hn. destruct (query_compiled a m p w n Hpw Hn) as (it & ? & ? & ? & ?). eauto.
  - destruct Hr as [<- | []]. cbn [r_ops r_role r_flt]. repeat split; auto.
    eapply (fwt_match p w FkView s_views ClView); eauto.
    intros n Hn. destruct (view_compiled a m p w n Hpw Hn) as (it & ? & ? & ? & ?). eauto.
  - (* operations ON ALL TABLES *)
    destruct Hr as [<- | []]. cbn [r_ops r_role r_flt]. rewrite !andb_true_iff in Hw. destruct Hw as [[Hloc Hne] Hrec].
    split; [apply norm_ops_records; auto; destruct acts; [discriminate | congruence]|]. split; auto.
    apply (all_tables_match p w Hpw Hloc).
  - destruct Hr as [<- | []]. cbn [r_ops r_role r_flt]. repeat split; auto. apply (all_tables_match p w Hpw Hw).
  - destruct Hr as [<- | []]. cbn [r_ops r_role r_flt]. apply andb_true_iff in Hw as [Hw _]. repeat split; auto.
    destruct (scoped_table_visible p w s_tables _ Hpw (fun _ _ H => H) Hw) as (k & Hv & _ & _). eapply Hfq; eauto.
  - apply in_map_iff in Hr as (o & <- & Ho). cbn [r_ops r_role r_flt]. rewrite !andb_true_iff in Hw. destruct Hw as [[Hw _] _].
    split; [apply ops_compatible_single|]. split; auto.
    destruct (scoped_table_visible p w s_tables _ Hpw (fun _ _ H => H) Hw) as (k & Hv & _ & _). eapply Hfq; eauto.
Qed.

Theorem bv_acl_proved : bv_acl d = true.
Proof.
  unfold bv_acl. apply forall_compiled.
  - intros p w Hpw. unfold ws_item, bv_acl_item. apply forallb_repeat. unfold acl_block. rewrite forallb_app.
    assert (H : forall b, forallb (fun r => ops_compatible (r_ops r)
                      && match visible_q d (p_name p, w_name w) (r_role r) with Some ClRole => true | _ => false end
                      && flt_has_match d (p_name p, w_name w) acl_cls (r_flt r))
                  (flat_map (grant_rules (p_name p) (p_name p, w_name w)) (ws_grants b w)) = true).
    { intros b. apply forallb_forall. intros r Hr. apply in_flat_map in Hr as (g & Hg & Hr).
      unfold ws_grants in Hg. apply in_flat_map in Hg as (i & Hi & Hg). destruct i; try (destruct Hg; fail).
      destruct (Bool.eqb (g_revoke g0) b); [|destruct Hg]. destruct Hg as [<- | []].
      destruct (grant_rule_ok p w g0 r Hpw Hi Hr) as (H1 & H2 & H3). rewrite H1, H2, H3. auto. }
    rewrite !H. auto.
  - reflexivity.
  - intros p w i it Hpw Hi Hin. destruct (stmt_cases _ _ _ _ Hin); reflexivity.
Qed.

(* ---- bv_limit ---- *)
Lemma ops_compatible_all_eq l x : l <> [] -> (forall o, In o l -> o = x) -> ops_compatible l = true.
Proof.
  destruct l as [|o r]; [congruence|]. intros _ H. unfold ops_compatible.
  assert (Ho : o = x) by (apply H; left; auto).
  destruct (mem_op o record_ops) eqn:Em; apply forallb_forall; intros y Hy; rewrite (H y Hy), <- Ho; auto.
  apply op_eqb_refl.
Qed.

Lemma norm_ops_nonempty l : l <> [] -> norm_ops l <> [].
Proof.
  destruct l as [|o r]; [congruence|]. intros _ E.
  assert (Hin : In o (norm_ops (o :: r))).
  { unfold norm_ops. apply filter_In. split; [destruct o; cbn; tauto | cbn; rewrite op_eqb_refl; auto]. }
  rewrite E in Hin. destruct Hin.
Qed.

Lemma visible_cls_of w q c : visible_q d w q = Some c -> cls_of d q = Some c.
Proof.
  unfold visible_q, cls_of. destruct (find_item d q) as [i|]; auto. destruct (visible d w i); congruence.
Qed.

Lemma limit_ops_ok k acts : forallb (fun o => mem_op o (fk_ops k)) acts = true ->
  let ops := match acts with [] => fk_ops k | _ => norm_ops acts end in
  ops_compatible ops = true /\ forallb (fun o => mem_op o (OExecute :: record_ops)) ops = true.
Proof.
  intros H. destruct acts as [|a0 r] eqn:Ea.
  - cbn. destruct k; split; reflexivity.
  - rewrite <- Ea in *. assert (Hne : acts <> []) by (subst; discriminate). cbn zeta.
    assert (Hsub : forall o, In o (norm_ops acts) -> In o (fk_ops k)).
    { intros o Ho. apply norm_ops_sub in Ho. apply mem_op_In in Ho. rewrite forallb_forall in H. apply mem_op_In. auto. }
    split.
    + destruct k.
      * apply norm_ops_records; auto.
      * apply (ops_compatible_all_eq _ OExecute); [apply norm_ops_nonempty; auto|]. intros o Ho. apply Hsub in Ho. cbn in Ho. destruct Ho as [<- | []]; reflexivity.
      * apply (ops_compatible_all_eq _ OExecute); [apply norm_ops_nonempty; auto|]. intros o Ho. apply Hsub in Ho. cbn in Ho. destruct Ho as [<- | []]; reflexivity.
      * apply (ops_compatible_all_eq _ OSelect); [apply norm_ops_nonempty; auto|]. intros o Ho. apply Hsub in Ho. cbn in Ho. destruct Ho as [<- | []]; reflexivity.
    + apply forallb_forall. intros o Ho. apply Hsub in Ho. apply mem_op_In. destruct k; cbn in Ho; cbn; tauto.
Qed.

Lemma scoped_fk_visible p w k q : In (p, w) (all_ws a) -> in_scope a p w (sel_of_fk k) q = true ->
  exists c, visible_q d (p_name p, w_name w) q = Some c /\ fk_matches k c = true /\ limitable c = true.
Proof.
  intros Hpw H. destruct k; cbn [sel_of_fk] in H.
  - destruct (scoped_table_visible p w s_concrete_tables q Hpw concrete_sub H) as (k & Hv & Hne & _).
    exists (ClStruct k). split; auto. destruct k; auto; congruence.
  - exists ClCmd. split; auto. eapply scoped_visible; eauto. intros; apply cmd_compiled; auto.
  - exists ClQuery. split; auto. eapply scoped_visible; eauto. intros; apply query_compiled; auto.
  - exists ClView. split; auto. eapply scoped_visible; eauto. intros; apply view_compiled; auto.
Qed.

Lemma ft_match p w k (good : cls -> bool) : In (p, w) (all_ws a) -> good ClView = true ->
  match k with FkView => existsb (fun pw => local_nonempty s_views (snd pw)) (vis_ws a p w) | _ => true end = true ->
  flt_has_match d (p_name p, w_name w) good (FT k) = true.
Proof.
  intros Hpw Hg H. cbn [flt_has_match]. destruct k; try reflexivity. cbn [sys_has orb].
  apply existsb_exists in H as ([p' w'] & Hv & H). cbn [snd] in H. unfold local_nonempty in H.
  destruct (s_views w') as [|n r] eqn:Es; [discriminate|].
  destruct (view_compiled a m p' w' n (vis_ws_all a _ _ _ _ Hpw Hv)) as (it & Hit & _ & Hcl & Hw); [rewrite Es; left; auto|].
  apply existsb_exists. exists it. split; auto.
  destruct (visible_item p w p' w' it Hpw Hv Hit Hw) as [_ Hvis]. rewrite Hvis, Hcl. reflexivity.
Qed.

Theorem bv_limit_proved : bv_limit d = true.
Proof.
  unfold bv_limit. apply forall_compiled; try reflexivity.
  intros p w i it Hpw Hi Hin. destruct (stmt_cases _ _ _ _ Hin); try reflexivity.
  pose proof (stmt_ok_in p w _ Hpw Hi) as Hok. cbn in Hok. unfold limit_ok in Hok.
  rewrite !andb_true_iff in Hok. destruct Hok as [[Hrate Hacts] Hflt].
  unfold limit_item, bv_limit_item.
  destruct (limit_ops_ok _ _ Hacts) as [Hc Hl]. cbn zeta in Hc, Hl.
  match goal with |- context [ops_compatible ?x] =>
    assert (Hx : x = match lm_acts l with [] => fk_ops (lfilter_kind (lm_filter l)) | _ :: _ => norm_ops (lm_acts l) end)
      by (destruct (lm_acts l); reflexivity); rewrite Hx end.
  rewrite Hc, Hl. cbn [andb].
  rewrite (scoped_visible p w s_rates _ ClRate Hpw Hrate) by (intros; apply rate_compiled; auto). cbn [andb].
  destruct (lm_filter l) as [k q | k | k]; cbn [lfilter_kind] in *.
  - destruct (scoped_fk_visible p w k _ Hpw Hflt) as (c & Hv & Hk & Hlim). cbn. rewrite Hv, Hk, Hlim. auto.
  - apply ft_match; auto.
  - apply ft_match; auto.
Qed.

(* ---- bv_projs ---- *)
Lemma fq_first_match w (good : cls -> bool) q c l :
  visible_q d w q = Some c -> good c = true -> flt_has_match d w good (FQ (q :: l)) = true.
Proof. intros Hv Hg. cbn. rewrite Hv, Hg. auto. Qed.

Theorem bv_projs_proved : bv_projs d = true.
Proof.
  unfold bv_projs. apply forall_compiled; try reflexivity.
  intros p w i it Hpw Hi Hin. destruct (stmt_cases _ _ _ _ Hin); try reflexivity.
  pose proof (stmt_ok_in p w _ Hpw Hi) as Hok. cbn in Hok. unfold proj_ok in Hok.
  rewrite !andb_true_iff in Hok. destruct Hok as [[_ Htr] Hint].
  unfold proj_item, bv_projs_item. apply andb_true_iff. split.
  - rewrite forallb_map. apply forallb_forall. intros t Ht. rewrite forallb_forall in Htr. specialize (Htr t Ht).
    destruct t as [ins upd act deact l | l | l]; cbn [trig_ok] in Htr; cbn [trig_event fst snd].
    + rewrite !andb_true_iff in Htr. destruct Htr as [[Hany Hne] Hall].
      apply andb_true_iff. split.
      * destruct ins, upd, act, deact; try reflexivity. discriminate.
      * destruct l as [|q0 r]; [discriminate|]. cbn [forallb] in Hall. apply andb_true_iff in Hall as [H0 _].
        apply andb_true_iff in H0 as [H0 _]. cbn [map].
        destruct (scoped_table_visible p w s_concrete_roots _ Hpw roots_sub H0) as (k & Hv & _ & _).
        eapply fq_first_match; eauto.
    + apply andb_true_iff in Htr as [Hne Hall]. destruct l as [|q0 r]; [discriminate|]. cbn [forallb] in Hall.
      apply andb_true_iff in Hall as [H0 _]. cbn [map andb negb].
      eapply fq_first_match; [eapply scoped_visible; eauto; intros; apply cmd_compiled; auto | reflexivity].
    + apply andb_true_iff in Htr as [Hne Hall]. destruct l as [|q0 r]; [discriminate|]. cbn [forallb] in Hall.
      apply andb_true_iff in Hall as [H0 _]. cbn [map andb negb]. apply orb_true_iff in H0 as [H0 | H0].
      * eapply fq_first_match; [eapply scoped_visible; eauto; intros; apply type_compiled; auto | reflexivity].
      * unfold odoc_in_scope in H0. destruct (kind_in_scope a p w (resolve (p_name p) q0)) as [[]|]; try discriminate.
        destruct (scoped_table_visible p w s_concrete_tables _ Hpw concrete_sub H0) as (k & Hv & _ & _).
        eapply fq_first_match; eauto.
  - rewrite forallb_map. apply forallb_forall. intros q Hq. rewrite forallb_forall in Hint. specialize (Hint q Hq).
    rewrite (visible_cls_of (p_name p, w_name w) _ ClView); auto.
    eapply scoped_visible; eauto. intros; apply view_compiled; auto.
Qed.

(* ---- bv_refs: the item lists a compiled structure is made of are own lists of declared tables ---- *)

Lemma lookup_table_in r t' : lookup_table a r = Some t' ->
  exists p' w', In (p', w') (all_ws a) /\ p_name p' = fst r /\ In (ITable t') (w_items w').
Proof.
  unfold lookup_table. destruct (find_pkg a (fst r)) as [p'|] eqn:Ep; [|discriminate]. intros H.
  unfold find_pkg in Ep. apply find_some in Ep as [Hp Epn]. apply String.eqb_eq in Epn.
  apply find_some in H as [Hin _]. unfold pkg_roots in Hin. apply in_flat_map in Hin as (w' & Hw' & Hin).
  unfold ws_roots in Hin. apply in_flat_map in Hin as (i & Hi & Hin). destruct i; try (destruct Hin; fail).
  destruct Hin as [<- | []]. exists p', w'. repeat split; auto. apply in_all_ws. split; auto.
Qed.

Lemma chain_lists pn t b ls : Chain a pn t b ls -> forall l, In l ls ->
  l = (pn, t_items t) \/
  exists p' w' t' ls', In (p', w') (all_ws a) /\ In (ITable t') (w_items w') /\ l = (p_name p', t_items t') /\ Chain a (p_name p') t' b ls'.
Proof.
  induction 1 as [pn t q b Ei Es Eb | pn t q t' b ls Ei Es El HC IH]; intros l Hl.
  - destruct Hl as [<- | []]. auto.
  - apply in_app_iff in Hl as [Hl | [<- | []]]; auto. right.
    destruct (lookup_table_in _ _ El) as (p' & w' & Hpw & Ep & Hi).
    destruct (IH l Hl) as [-> | H]; [|exact H].
    exists p', w', t', ls. rewrite Ep. auto.
Qed.

(* l is the own item list of a declared table whose compiled kind is k *)
Definition Declared (l : ilist) (k : tkind) : Prop :=
  exists p' w' T b lsT, In (p', w') (all_ws a) /\ In (ITable T) (w_items w') /\
    chain a (fuel0 a) (p_name p') T = Some (b, lsT) /\
    ((l = (p_name p', t_items T) /\ k = base_kind b) \/
     (exists t', In t' (nested_tables T) /\ l = (p_name p', t_items t') /\ k = nested_kind (base_kind b))).

Lemma root_chain_value p' w' T b ls : In (p', w') (all_ws a) -> In (ITable T) (w_items w') -> Chain a (p_name p') T b ls ->
  chain a (fuel0 a) (p_name p') T = Some (b, ls).
Proof.
  intros Hpw Hi HC. destruct (wf_chains_ok a Hwf p' w' T (proj1 (in_all_ws a p' w') Hpw) Hi) as [Hc _].
  destruct (chain a (fuel0 a) (p_name p') T) as [r|] eqn:Ec; [|congruence].
  rewrite (chain_complete a _ _ _ _ HC _ _ Ec). auto.
Qed.

Lemma lists_declared_root p w t b ls : In (p, w) (all_ws a) -> In (ITable t) (w_items w) ->
  chain a (fuel0 a) (p_name p) t = Some (b, ls) -> forall l, In l ls -> Declared l (base_kind b).
Proof.
  intros Hpw Hi Ec l Hl. destruct (chain_lists _ _ _ _ (chain_sound a _ _ _ _ _ Ec) l Hl) as [-> | (p' & w' & t' & ls' & Hpw' & Hi' & -> & HC)].
  - exists p, w, t, b, ls. auto 8.
  - exists p', w', t', b, ls'. split; [auto|]. split; [auto|]. split; [eapply root_chain_value; eauto|]. left; auto.
Qed.

Lemma table_ok_parts p w t : In (p, w) (all_ws a) -> In (ITable t) (w_items w) ->
  exists b ls, chain a (fuel0 a) (p_name p) t = Some (b, ls) /\ chain_lists_ok (p_name p) ls = true /\
    items_ok a p w (base_kind b) (t_items t) = true /\ forallb (nested_ok a p w (base_kind b)) (nested_tables t) = true.
Proof.
  intros Hpw Hi. pose proof (stmt_ok_in p w _ Hpw Hi) as Hok. cbn in Hok. unfold table_ok in Hok.
  apply andb_true_iff in Hok as [_ Hok]. destruct (chain a (fuel0 a) (p_name p) t) as [[b ls]|]; [|discriminate].
  rewrite !andb_true_iff in Hok. destruct Hok as [[H1 H2] H3]. eauto 8.
Qed.

Lemma lists_declared_nested p w t b ls t' : In (p, w) (all_ws a) -> In (ITable t) (w_items w) ->
  chain a (fuel0 a) (p_name p) t = Some (b, ls) -> In t' (nested_tables t) ->
  forall l, In l (nested_lists a m (p_name p) t') -> Declared l (nested_kind (base_kind b)).
Proof.
  intros Hpw Hi Ec Ht' l Hl.
  assert (Hown : Declared (p_name p, t_items t') (nested_kind (base_kind b))).
  { exists p, w, t, b, ls. repeat split; auto. right. exists t'. auto. }
  unfold nested_lists in Hl. destruct (t_inh t') as [q|] eqn:Ei; [|destruct Hl as [<- | []]; auto].
  destruct (m_nested_inherit m); [|destruct Hl as [<- | []]; auto].
  destruct (chain a (fuel0 a) (p_name p) t') as [[b' ls']|] eqn:Ec'; [|destruct Hl as [<- | []]; auto].
  destruct (table_ok_parts p w t Hpw Hi) as (b0 & ls0 & Ec0 & _ & _ & Hn). rewrite Ec in Ec0. inversion Ec0; subst b0 ls0.
  rewrite forallb_forall in Hn. specialize (Hn t' Ht'). unfold nested_ok in Hn. rewrite Ei, Ec' in Hn.
  rewrite !andb_true_iff in Hn. destruct Hn as [[[_ [_ [Hk _]]] _] _]. 
  assert (Ek : base_kind b' = nested_kind (base_kind b)) by (destruct (base_kind b'), (nested_kind (base_kind b)); try discriminate; auto).
  destruct (chain_lists _ _ _ _ (chain_sound a _ _ _ _ _ Ec') l Hl) as [-> | (p' & w' & T & lsT & Hpw' & Hi' & -> & HC)]; auto.
  exists p', w', T, b', lsT. split; [auto|]. split; [auto|]. split; [eapply root_chain_value; eauto|]. left; auto.
Qed.

Lemma nested_kind_idem k : nested_kind (nested_kind k) = nested_kind k.
Proof. destruct k; reflexivity. Qed.

Lemma cont_kind_nested k : k <> KObject -> cont_kind_ok k (nested_kind k) = true.
Proof. intros H; destruct k; reflexivity || congruence. Qed.

Lemma Nested_trans t1 t2 t3 : Nested t1 t2 -> Nested t2 t3 -> Nested t1 t3.
Proof. induction 1; intros H3; [eapply N_deep; eauto | eapply N_deep; eauto]. Qed.

Lemma nested_tables_trans t t' tn : In t' (nested_tables t) -> In tn (nested_tables t') -> In tn (nested_tables t).
Proof. rewrite !nested_tables_Nested. apply Nested_trans. Qed.

Lemma nested_direct t c tn : In (TNested c tn) (t_items t) -> In tn (nested_tables t).
Proof. intros H. apply nested_tables_Nested. eapply N_direct; eauto. Qed.

Lemma items_refs_ok p' w' k its : In (p', w') (all_ws a) -> items_ok a p' w' k its = true ->
  refs_ok d (fields_of (p_name p', its)) = true.
Proof.
  intros Hpw H. unfold items_ok in H. rewrite !andb_true_iff in H. destruct H as [[H _] _].
  unfold refs_ok, fields_of. cbn [fst snd]. apply forallb_forall. intros f Hf. apply in_flat_map in Hf as (it & Hit & Hf).
  rewrite forallb_forall in H. specialize (H it Hit).
  destruct it as [fl | n refs nn | c tn | cn fs]; try (destruct Hf; fail); destruct Hf as [<- | []].
  - unfold fd_of_field. destruct (f_type fl); cbn [fd_refs]; auto. cbn. unfold d. rewrite cls_of_sys; reflexivity.
  - cbn [fd_refs fd_ref]. rewrite forallb_map. apply forallb_forall. intros r Hr. rewrite forallb_forall in H. specialize (H r Hr).
    apply andb_true_iff in H as [_ H]. destruct (kind_in_scope a p' w' (resolve (p_name p') r)) as [k'|] eqn:Ek; [|discriminate].
    destruct (kind_in_scope_compiled a m p' w' _ _ Hpw Ek) as (it & Hit' & Hkey & Hc & Hne & _).
    unfold d. rewrite <- Hkey, (cls_of_in a m Hwf it Hit'), Hc. destruct k'; auto; congruence.
Qed.

Lemma declared_facts l k : Declared l k ->
  refs_ok d (fields_of l) = true /\
  forallb (fun c => (1 <=? cd_max c)%N && (cd_min c <=? cd_max c)%N
                    && match cls_of d (cd_type c) with Some (ClStruct k') => cont_kind_ok k k' | _ => false end) (conts_of l) = true.
Proof.
  intros (p' & w' & T & b & lsT & Hpw & Hi & Ec & Hl).
  destruct (table_ok_parts p' w' T Hpw Hi) as (b0 & ls0 & Ec0 & _ & Hitems & Hn). rewrite Ec in Ec0. inversion Ec0; subst b0 ls0.
  assert (Hbk : base_kind b <> KObject) by (destruct b; discriminate).
  assert (Hchild : forall tn, In tn (nested_tables T) ->
            cls_of d (p_name p', t_name tn) = Some (ClStruct (nested_kind (base_kind b)))).
  { intros tn Htn. assert (Hin : In (struct_item m (p_name p') (p_name p', w_name w') tn (nested_kind (base_kind b)) false (nested_lists a m (p_name p') tn)) d).
    { eapply in_compiled_stmt; eauto. cbn. unfold table_items. rewrite Ec. right. apply in_map_iff. eauto. }
    apply (cls_of_in a m Hwf _ Hin). }
  destruct Hl as [[-> ->] | (t' & Ht' & -> & ->)].
  - split; [eapply items_refs_ok; eauto|]. unfold conts_of. cbn [fst snd]. apply forallb_forall. intros c Hc.
    apply in_flat_map in Hc as (it & Hit & Hc). destruct it as [fl0 | n0 r0 nn0 | c0 tn | cn0 fs0]; try (destruct Hc; fail). destruct Hc as [<- | []].
    cbn [cd_max cd_min cd_type]. rewrite (Hchild tn (nested_direct _ _ _ Hit)). cbn [andb]. rewrite cont_kind_nested; auto.
  - rewrite forallb_forall in Hn. specialize (Hn t' Ht'). unfold nested_ok in Hn. rewrite !andb_true_iff in Hn.
    destruct Hn as [[_ Hit'] _]. split; [eapply items_refs_ok; eauto|]. unfold conts_of. cbn [fst snd].
    apply forallb_forall. intros c Hc. apply in_flat_map in Hc as (it & Hit & Hc). destruct it as [fl0 | n0 r0 nn0 | c0 tn | cn0 fs0]; try (destruct Hc; fail).
    destruct Hc as [<- | []]. cbn [cd_max cd_min cd_type].
    rewrite (Hchild tn (nested_tables_trans _ _ _ Ht' (nested_direct _ _ _ Hit))). cbn [andb].
    destruct b; reflexivity.
Qed.

Lemma refs_ok_app l1 l2 : refs_ok d (l1 ++ l2) = refs_ok d l1 && refs_ok d l2.
Proof. unfold refs_ok. apply forallb_app. Qed.

Lemma refs_ok_flat {A} (f : A -> list fdef) l : (forall x, In x l -> refs_ok d (f x) = true) -> refs_ok d (flat_map f l) = true.
Proof.
  intros H. induction l as [|x r IH]; cbn [flat_map]; [reflexivity|].
  rewrite refs_ok_app, H, IH; [reflexivity | intros; apply H; right; auto | left; auto].
Qed.

Lemma forallb_flat {A B} (P : B -> bool) (f : A -> list B) l : (forall x, In x l -> forallb P (f x) = true) -> forallb P (flat_map f l) = true.
Proof.
  intros H. induction l as [|x r IH]; cbn [flat_map]; [reflexivity|].
  rewrite forallb_app, H, IH; [reflexivity | intros; apply H; right; auto | left; auto].
Qed.

Lemma sys_fields_refs k : refs_ok d (sys_fields k) = true.
Proof. destruct k; reflexivity. Qed.

Lemma struct_refs_ok pn wq t k sg ls : (forall l, In l ls -> Declared l k) ->
  bv_refs_item d (struct_item m pn wq t k sg ls) = true.
Proof.
  intros H. unfold struct_item, bv_refs_item. apply andb_true_iff. split.
  - rewrite refs_ok_app, sys_fields_refs. cbn [andb]. apply refs_ok_flat. intros l Hl. apply (declared_facts l k (H l Hl)).
  - apply forallb_flat. intros l Hl. apply (declared_facts l k (H l Hl)).
Qed.

Theorem bv_refs_proved : bv_refs d = true.
Proof.
  unfold bv_refs. apply forall_compiled.
  - reflexivity.
  - intros p w Hpw Hab. unfold desc_item, bv_refs_item. rewrite andb_true_r, refs_ok_app, sys_fields_refs. cbn [andb].
    unfold refs_ok. rewrite forallb_map. apply forallb_forall. intros x Hx. destruct x as [f | n refs nn]; cbn [fd_of_ditem].
    + unfold fd_of_field. destruct (f_type f); cbn [fd_refs]; auto. cbn. unfold d. rewrite cls_of_sys; reflexivity.
    + (* a reference field of the descriptor: targets are concrete tables in scope (ws_ok) *)
      cbn [fd_ref fd_refs]. destruct (m_desc_refs m); [|reflexivity]. rewrite forallb_map. apply forallb_forall. intros r Hr.
      pose proof (wf_ws_ok a Hwf p w (proj1 (in_all_ws a p w) Hpw)) as Hok. unfold ws_ok in Hok. rewrite !andb_true_iff in Hok.
      destruct Hok as [[[_ Hdesc] _] _]. destruct (w_desc w) as [fs|]; [|destruct Hx].
      apply andb_true_iff in Hdesc as [Hdesc _]. rewrite forallb_forall in Hdesc. specialize (Hdesc _ Hx). cbn [ditem_ok] in Hdesc.
      rewrite forallb_forall in Hdesc. specialize (Hdesc _ Hr). cbv zeta in Hdesc. apply andb_true_iff in Hdesc as [Hs _].
      destruct (scoped_table_visible p w s_concrete_tables _ Hpw concrete_sub Hs) as (k & _ & Hne & Hc). rewrite Hc.
      destruct k; auto; congruence.
  - intros p w i it Hpw Hi Hin. destruct (stmt_cases _ _ _ _ Hin); try reflexivity.
    + apply struct_refs_ok. eapply lists_declared_root; eauto.
    + apply struct_refs_ok. eapply lists_declared_nested; eauto.
    + (* types *)
      pose proof (stmt_ok_in p w _ Hpw Hi) as Hok. cbn in Hok. unfold yitems_ok in Hok. apply andb_true_iff in Hok as [Hok _].
      unfold type_item, bv_refs_item. apply andb_true_iff. split.
      * rewrite refs_ok_app, sys_fields_refs. cbn [andb]. apply refs_ok_flat. intros y Hy. destruct y; [|reflexivity].
        unfold refs_ok. cbn [forallb]. rewrite andb_true_r. unfold fd_of_field.
        destruct (f_type f); cbn [fd_refs]; auto. cbn. unfold d. rewrite cls_of_sys; reflexivity.
      * apply forallb_flat. intros y Hy. destruct y; [reflexivity|]. cbn [forallb cd_max cd_min cd_type]. rewrite andb_true_r.
        rewrite forallb_forall in Hok. specialize (Hok _ Hy). cbv beta iota in Hok.
        rewrite (scoped_type_cls p w _ Hpw Hok). destruct nn; reflexivity.
    + (* views *)
      pose proof (stmt_ok_in p w _ Hpw Hi) as Hok. cbn in Hok. unfold view_ok in Hok.
      rewrite !andb_true_iff in Hok. destruct Hok as [[[[[[[[[_ Hitems] _] _] _] _] _] _] _] _].
      assert (Hv : forall keep x, In x (v_items v) -> match x with VRef _ refs _ => forallb (fun q => match cls_of d q with Some c => is_record c | None => false end) (match vrefs keep (p_name p) refs with Some l => l | None => [] end) = true | _ => True end).
      { intros keep x Hx. destruct x as [n ty nn | n refs nn]; auto. rewrite forallb_forall in Hitems. specialize (Hitems _ Hx). cbv beta iota in Hitems.
        unfold vrefs. destruct keep; [|reflexivity]. rewrite forallb_map. apply forallb_forall. intros r Hr.
        rewrite forallb_forall in Hitems. specialize (Hitems r Hr).
        destruct (scoped_table_visible p w s_concrete_tables _ Hpw concrete_sub Hitems) as (k & _ & Hne & Hc). rewrite Hc.
        destruct k; auto; congruence. }
      unfold view_item, bv_refs_item. rewrite !refs_ok_app. rewrite !andb_true_iff. repeat split.
      * apply refs_ok_flat. intros n _. unfold find_vitem. destruct (find _ (v_items v)) as [x|] eqn:Ef; [|reflexivity].
        apply find_some in Ef as [Hx _]. specialize (Hv (m_view_refs m) x Hx). unfold refs_ok. cbn [opt_list map forallb]. rewrite andb_true_r.
        destruct x; cbn [vfd_key fd_refs]; auto.
      * apply refs_ok_flat. intros n _. unfold find_vitem. destruct (find _ (v_items v)) as [x|] eqn:Ef; [|reflexivity].
        apply find_some in Ef as [Hx _]. specialize (Hv (m_view_refs m) x Hx). unfold refs_ok. cbn [opt_list map forallb]. rewrite andb_true_r.
        destruct x; cbn [vfd_key fd_refs]; auto.
      * unfold refs_ok. cbn [forallb fd_refs fd_sysf]. rewrite forallb_map. apply forallb_forall. intros x Hx.
        apply filter_In in Hx as [Hx _]. specialize (Hv (m_view_refs m) x Hx). destruct x; cbn [vfd_val fd_refs]; auto.
Qed.

(* ---- bv_members: member names are used once, unique constraints name existing fields ---- *)
Hypothesis Hlex : lexical a = true.
Hypothesis Hcoll : no_unique_collision a m = true.

Definition fnames (its : list titem) : list string :=
  flat_map (fun it => match it with TField f => [f_name f] | TRef n _ _ => [n] | _ => [] end) its.
Definition ctnames (its : list titem) : list string :=
  flat_map (fun it => match it with TNested c _ => [c] | _ => [] end) its.

Lemma flat_map_flat {A B C} (f : B -> list C) (g : A -> list B) l :
  flat_map f (flat_map g l) = flat_map (fun x => flat_map f (g x)) l.
Proof. induction l; cbn; auto. rewrite flat_map_app, IHl. auto. Qed.

Lemma NoDup_app_l {A} (l1 l2 : list A) : NoDup (l1 ++ l2) -> NoDup l1.
Proof.
  induction l1 as [|x r IH]; cbn; intros H; [constructor|]. inversion H as [|? ? Hn Hr]; subst.
  constructor; [intros Hin; apply Hn; apply in_app_iff; auto | auto].
Qed.

Lemma NoDup_flat_sub {A B} (f g : A -> list B) l :
  (forall x, g x = f x \/ g x = []) -> NoDup (flat_map f l) -> NoDup (flat_map g l).
Proof.
  intros Hs. assert (Hin : forall r y, In y (flat_map g r) -> In y (flat_map f r)).
  { induction r as [|x r IH]; cbn; intros y Hy; auto. apply in_app_iff in Hy as [Hy | Hy]; apply in_app_iff.
    - destruct (Hs x) as [E | E]; rewrite E in Hy; [auto | destruct Hy].
    - auto. }
  induction l as [|x r IH]; cbn; intros Hn; [constructor|].
  pose proof (NoDup_app_r _ _ Hn) as Hr. specialize (IH Hr).
  destruct (Hs x) as [E | E]; rewrite E; [|exact IH].
  clear E. revert Hn. induction (f x) as [|z zs IHz]; cbn; intros Hn; auto.
  inversion Hn as [|? ? Hnot Hn']; subst. constructor; [|auto].
  intros Hz. apply Hnot. apply in_app_iff in Hz as [Hz | Hz]; apply in_app_iff; auto.
Qed.

Lemma fnames_fields l : map fd_name (fields_of l) = fnames (snd l).
Proof. apply fields_of_names. Qed.

Lemma ctnames_conts l : map cd_name (conts_of l) = ctnames (snd l).
Proof.
  unfold conts_of, ctnames. induction (snd l) as [|it r IH]; cbn; auto. rewrite map_app, IH. f_equal. destruct it; reflexivity.
Qed.

Lemma lists_fnames_nodup ls :
  NoDup (flat_map (fun l : ilist => titem_names (snd l)) ls) -> NoDup (flat_map (fun l : ilist => fnames (snd l)) ls).
Proof.
  intros Hn. unfold titem_names in Hn. unfold fnames. rewrite <- flat_map_flat in *.
  eapply NoDup_flat_sub; [|exact Hn]. intros it. destruct it; auto.
Qed.

Lemma lists_ctnames_nodup ls :
  NoDup (flat_map (fun l : ilist => titem_names (snd l)) ls) -> NoDup (flat_map (fun l : ilist => ctnames (snd l)) ls).
Proof.
  intros Hn. unfold titem_names in Hn. unfold ctnames. rewrite <- flat_map_flat in *.
  eapply NoDup_flat_sub; [|exact Hn]. intros it. destruct it; auto.
Qed.

Lemma NoDup_app_intro {A} (l1 l2 : list A) :
  NoDup l1 -> NoDup l2 -> (forall x, In x l1 -> In x l2 -> False) -> NoDup (l1 ++ l2).
Proof.
  induction l1 as [|x r IH]; cbn; intros H1 H2 Hd; auto. inversion H1 as [|? ? Hn Hr]; subst. constructor.
  - intros Hin. apply in_app_iff in Hin as [Hin | Hin]; [auto | eapply Hd; eauto].
  - apply IH; auto. intros y Hy1 Hy2. eapply Hd; eauto.
Qed.

Lemma sys_name_not_lex n k : In n (map fd_name (sys_fields k)) -> lex_ident n = false.
Proof. destruct k; cbn; intros H; repeat (destruct H as [<- | H]; [reflexivity|]); destruct H. Qed.

Lemma sys_names_nodup k : NoDup (map fd_name (sys_fields k)).
Proof. apply nodup_s_NoDup. destruct k; reflexivity. Qed.

(* the lexer's guarantee, table by table *)
Fixpoint titems_lex (its : list titem) : bool :=
  match its with
  | [] => true
  | it :: r =>
    match it with
    | TField f => field_lex f
    | TRef fn _ _ => lex_ident fn
    | TNested c t' => lex_ident c && table_lex t'
    | TUnique cn fs => match cn with Some c => lex_ident c | None => true end
    end && titems_lex r
  end.

Lemma table_lex_eq t : table_lex t = lex_ident (t_name t) && titems_lex (t_items t).
Proof. destruct t; reflexivity. Qed.

Lemma titems_lex_cons it r : titems_lex (it :: r) = true ->
  titems_lex r = true /\
  match it with
  | TField f => lex_ident (f_name f) = true
  | TRef fn _ _ => lex_ident fn = true
  | TNested c t' => lex_ident c = true /\ table_lex t' = true
  | TUnique (Some c) _ => lex_ident c = true
  | TUnique None _ => True
  end.
Proof.
  cbn [titems_lex]. intros H. apply andb_true_iff in H as [Hit Hr]. split; auto.
  destruct it as [f | n refs nn | c t' | [cn|] fs]; auto. apply andb_true_iff in Hit. auto.
Qed.

Lemma titems_lex_facts its : titems_lex its = true ->
  (forall n, In n (fnames its) -> lex_ident n = true) /\ (forall n, In n (ctnames its) -> lex_ident n = true)
  /\ (forall c t', In (TNested c t') its -> table_lex t' = true)
  /\ (forall c fs, In (TUnique (Some c) fs) its -> lex_ident c = true).
Proof.
  induction its as [|it r IH]; intros H.
  - repeat split; intros; cbn in *; tauto.
  - destruct (titems_lex_cons _ _ H) as [Hr Hit]. destruct (IH Hr) as (I1 & I2 & I3 & I4).
    split; [|split; [|split]].
    + intros n Hn. cbn [fnames flat_map] in Hn. apply in_app_iff in Hn as [Hn | Hn]; [|apply I1; auto].
      destruct it as [f | fn refs nn | c t' | cn fs]; cbn in Hn; try tauto; destruct Hn as [<- | []]; auto.
    + intros n Hn. cbn [ctnames flat_map] in Hn. apply in_app_iff in Hn as [Hn | Hn]; [|apply I2; auto].
      destruct it as [f | fn refs nn | c t' | cn fs]; cbn in Hn; try tauto. destruct Hn as [<- | []]. tauto.
    + intros c t' [E | Hin]; [|eapply I3; eauto]. subst it. tauto.
    + intros c fs [E | Hin]; [|eapply I4; eauto]. subst it. auto.
Qed.

Lemma table_lex_nested T t' : table_lex T = true -> Nested T t' -> table_lex t' = true.
Proof.
  intros H HN. induction HN as [t c t' Hin | t c t1 t' Hin HN IH].
  - rewrite table_lex_eq in H. apply andb_true_iff in H as [_ H]. eapply (titems_lex_facts _ H); eauto.
  - apply IH. rewrite table_lex_eq in H. apply andb_true_iff in H as [_ H]. eapply (titems_lex_facts _ H); eauto.
Qed.

Lemma ws_lex_in p' w' : In (p', w') (all_ws a) -> ws_lex w' = true /\ lex_ident (p_name p') = true.
Proof.
  intros H. apply in_all_ws in H as [Hp Hw]. unfold lexical in Hlex. rewrite forallb_forall in Hlex.
  specialize (Hlex _ Hp). apply andb_true_iff in Hlex as [Hn Hws]. rewrite forallb_forall in Hws. auto.
Qed.

Lemma wsitem_lex_in p' w' i : In (p', w') (all_ws a) -> In i (w_items w') -> wsitem_lex i = true.
Proof.
  intros Hpw Hi. destruct (ws_lex_in p' w' Hpw) as [H _]. unfold ws_lex in H. rewrite !andb_true_iff in H.
  destruct H as [[_ H] _]. rewrite forallb_forall in H. auto.
Qed.

Lemma declared_table_lex l k : Declared l k -> titems_lex (snd l) = true.
Proof.
  intros (p' & w' & T & b & lsT & Hpw & Hi & _ & Hl). pose proof (wsitem_lex_in p' w' _ Hpw Hi) as HT. cbn in HT.
  destruct Hl as [[-> _] | (t' & Ht' & -> & _)]; cbn [snd].
  - rewrite table_lex_eq in HT. apply andb_true_iff in HT as [_ HT]. auto.
  - apply nested_tables_Nested in Ht'. pose proof (table_lex_nested _ _ HT Ht') as H.
    rewrite table_lex_eq in H. apply andb_true_iff in H as [_ H]. auto.
Qed.

Lemma declared_uniques l k : Declared l k -> uniques_ok [] [] (snd l) = true.
Proof.
  intros (p' & w' & T & b & lsT & Hpw & Hi & Ec & Hl).
  destruct (table_ok_parts p' w' T Hpw Hi) as (b0 & ls0 & Ec0 & _ & Hitems & Hn). rewrite Ec in Ec0. inversion Ec0; subst b0 ls0.
  destruct Hl as [[-> _] | (t' & Ht' & -> & _)]; cbn [snd].
  - unfold items_ok in Hitems. rewrite !andb_true_iff in Hitems. tauto.
  - rewrite forallb_forall in Hn. specialize (Hn t' Ht'). unfold nested_ok in Hn. rewrite !andb_true_iff in Hn.
    destruct Hn as [[_ Hit] _]. unfold items_ok in Hit. rewrite !andb_true_iff in Hit. tauto.
Qed.

Lemma uniques_ok_facts its : forall seen used, uniques_ok seen used its = true ->
  forall cn fs, In (TUnique cn fs) its -> NoDup fs /\ forall x, In x fs -> In x seen \/ In x (fnames its).
Proof.
  induction its as [|it r IH]; intros seen used H cn fs Hin; [destruct Hin|].
  destruct it as [f | n refs nn | c t' | cn0 fs0]; cbn [uniques_ok] in H; cbn [fnames flat_map app].
  - destruct Hin as [E | Hin]; [discriminate|]. destruct (IH _ _ H _ _ Hin) as [Hn Hx]. split; auto.
    intros x Hxf. destruct (Hx x Hxf) as [[<- | Hs] | Hf]; cbn; auto.
  - destruct Hin as [E | Hin]; [discriminate|]. destruct (IH _ _ H _ _ Hin) as [Hn Hx]. split; auto.
    intros x Hxf. destruct (Hx x Hxf) as [[<- | Hs] | Hf]; cbn; auto.
  - destruct Hin as [E | Hin]; [discriminate|]. apply (IH _ _ H _ _ Hin).
  - rewrite !andb_true_iff in H. destruct H as [[[_ Hnd] Hall] Hr]. destruct Hin as [E | Hin].
    + inversion E; subst. split; [apply nodup_s_NoDup; auto|]. intros x Hx. rewrite forallb_forall in Hall.
      specialize (Hall x Hx). apply andb_true_iff in Hall as [Hs _]. apply mem_s_In in Hs. auto.
    + apply (IH _ _ Hr _ _ Hin).
Qed.

Lemma uniqs_from_in its : forall c u, In u (uniqs_from c its) -> exists cn, In (TUnique cn (ud_fields u)) its.
Proof.
  induction its as [|it r IH]; intros c u H; [destruct H|].
  destruct it as [f | n refs nn | c0 t' | [cn|] fs]; cbn [uniqs_from] in H;
    try (destruct (IH _ _ H) as (cn' & Hc); exists cn'; right; auto; fail).
  - destruct H as [<- | H]; [exists (Some cn); left; auto | destruct (IH _ _ H) as (cn' & Hc); exists cn'; right; auto].
  - destruct H as [<- | H]; [exists None; left; auto | destruct (IH _ _ H) as (cn' & Hc); exists cn'; right; auto].
Qed.

Lemma uniqs_run_in ls : forall c u, In u (uniqs_run c ls) -> exists l cn, In l ls /\ In (TUnique cn (ud_fields u)) (snd l).
Proof.
  induction ls as [|l r IH]; intros c u H; [destruct H|]. cbn [uniqs_run] in H. apply in_app_iff in H as [H | H].
  - destruct (uniqs_from_in _ _ _ H) as (cn & Hc). exists l, cn. split; [left; auto | auto].
  - destruct (IH _ _ H) as (l' & cn & Hl & Hc). exists l', cn. split; [right; auto | auto].
Qed.

Lemma uniqs_chain_in ls u : In u (uniqs_chain m ls) -> exists l cn, In l ls /\ In (TUnique cn (ud_fields u)) (snd l).
Proof.
  unfold uniqs_chain. destruct (m_uniq_per_type m); [apply uniqs_run_in|]. intros H.
  apply in_flat_map in H as (l & Hl & H). destruct (uniqs_from_in _ _ _ H) as (cn & Hc). eauto.
Qed.

Lemma struct_members_ok pn wq t k sg ls :
  (forall l, In l ls -> Declared l k) -> NoDup (flat_map (fun l : ilist => titem_names (snd l)) ls) ->
  In (struct_item m pn wq t k sg ls) d -> bv_members_item (struct_item m pn wq t k sg ls) = true.
Proof.
  intros Hd Hn Hin. unfold struct_item, bv_members_item.
  assert (Hf : map fd_name (flat_map fields_of ls) = flat_map (fun l : ilist => fnames (snd l)) ls).
  { rewrite map_flat_map'. apply flat_map_ext_in. intros l _. apply fnames_fields. }
  assert (Hlexf : forall n, In n (flat_map (fun l : ilist => fnames (snd l)) ls) -> lex_ident n = true).
  { intros n H. apply in_flat_map in H as (l & Hl & H). destruct (titems_lex_facts _ (declared_table_lex l k (Hd l Hl))) as (I1 & _). apply I1; auto. }
  rewrite !andb_true_iff. repeat split.
  - apply NoDup_nodup_s. rewrite map_app, Hf. apply NoDup_app_intro; [apply sys_names_nodup | apply lists_fnames_nodup; auto|].
    intros x H1 H2. apply sys_name_not_lex in H1. rewrite (Hlexf x H2) in H1. discriminate.
  - apply NoDup_nodup_s. rewrite map_flat_map'.
    replace (flat_map (fun x => map cd_name (conts_of x)) ls) with (flat_map (fun l : ilist => ctnames (snd l)) ls)
      by (apply flat_map_ext_in; intros l _; symmetry; apply ctnames_conts).
    apply lists_ctnames_nodup; auto.
  - unfold no_unique_collision in Hcoll. rewrite forallb_forall in Hcoll. apply (Hcoll _ Hin).
  - apply forallb_forall. intros u Hu. destruct (uniqs_chain_in _ _ Hu) as (l & cn & Hl & Hc).
    destruct (uniques_ok_facts _ _ _ (declared_uniques l k (Hd l Hl)) _ _ Hc) as [Hnd Hsub].
    rewrite (NoDup_nodup_s _ Hnd). cbn [andb]. unfold subset_s. apply forallb_forall. intros x Hx. apply mem_s_In.
    rewrite map_app, Hf. apply in_app_iff. right. destruct (Hsub x Hx) as [[] | Hxf]. apply in_flat_map. eauto.
Qed.

Lemma fd_of_field_name f : fd_name (fd_of_field f) = f_name f.
Proof. unfold fd_of_field. destruct (f_type f); reflexivity. Qed.

Lemma fd_of_ditem_name keep pn x : fd_name (fd_of_ditem keep pn x) = d_name x.
Proof. destruct x; cbn [fd_of_ditem d_name]; [apply fd_of_field_name | reflexivity]. Qed.

Lemma chain_lists_nodup pn ls : chain_lists_ok pn ls = true -> NoDup (flat_map (fun l : ilist => titem_names (snd l)) ls).
Proof. unfold chain_lists_ok. intros H. apply andb_true_iff in H as [H _]. apply nodup_s_NoDup; auto. Qed.

Lemma nested_lists_nodup p w t b ls t' : In (p, w) (all_ws a) -> In (ITable t) (w_items w) ->
  chain a (fuel0 a) (p_name p) t = Some (b, ls) -> In t' (nested_tables t) ->
  NoDup (flat_map (fun l : ilist => titem_names (snd l)) (nested_lists a m (p_name p) t')).
Proof.
  intros Hpw Hi Ec Ht'. destruct (table_ok_parts p w t Hpw Hi) as (b0 & ls0 & Ec0 & _ & _ & Hn). rewrite Ec in Ec0. inversion Ec0; subst b0 ls0.
  rewrite forallb_forall in Hn. specialize (Hn t' Ht'). unfold nested_ok in Hn. rewrite !andb_true_iff in Hn.
  destruct Hn as [[[_ Hinh] _] Hown].
  assert (Ho : NoDup (flat_map (fun l : ilist => titem_names (snd l)) [(p_name p, t_items t')])).
  { cbn. rewrite app_nil_r. apply nodup_s_NoDup; auto. }
  unfold nested_lists. destruct (t_inh t') as [q|]; auto. destruct (m_nested_inherit m); auto.
  destruct (chain a (fuel0 a) (p_name p) t') as [[b' ls']|]; auto.
  rewrite !andb_true_iff in Hinh. destruct Hinh as [_ [_ Hc]]. apply chain_lists_nodup in Hc. auto.
Qed.

Lemma view_key_names keep pn part (v : view) l :
  forallb (fun n => match find_vitem v n with Some _ => true | None => false end) l = true ->
  map fd_name (flat_map (fun n => map (vfd_key keep pn part) (opt_list (find_vitem v n))) l) = l.
Proof.
  induction l as [|n r IH]; cbn [forallb flat_map]; intros H; auto. apply andb_true_iff in H as [Hn Hr].
  unfold find_vitem in *. destruct (find (fun i => vitem_name i =? n)%string (v_items v)) as [i|] eqn:Ef; [|discriminate].
  apply find_some in Ef as [_ E]. apply String.eqb_eq in E. cbn [opt_list map app]. rewrite IH by auto. f_equal.
  destruct i; cbn in *; auto.
Qed.

Lemma found_weaken (v : view) (P : vitem -> bool) l :
  forallb (fun n => match find_vitem v n with Some i => P i | None => false end) l = true ->
  forallb (fun n => match find_vitem v n with Some _ => true | None => false end) l = true.
Proof. intros H. rewrite forallb_forall in *. intros n Hn. specialize (H n Hn). destruct (find_vitem v n); auto. Qed.

Lemma found_is_item (v : view) l : forallb (fun n => match find_vitem v n with Some _ => true | None => false end) l = true ->
  forall n, In n l -> In n (map vitem_name (v_items v)).
Proof.
  intros H n Hn. rewrite forallb_forall in H. specialize (H n Hn). unfold find_vitem in H.
  destruct (find (fun i => vitem_name i =? n)%string (v_items v)) as [i|] eqn:Ef; [|discriminate].
  apply find_some in Ef as [Hi E]. apply String.eqb_eq in E. subst. apply in_map; auto.
Qed.

Lemma vfd_val_name keep pn i : fd_name (vfd_val keep pn i) = vitem_name i.
Proof. destruct i; reflexivity. Qed.

Lemma NoDup_map_filter {A B} (f : A -> B) (P : A -> bool) l : NoDup (map f l) -> NoDup (map f (filter P l)).
Proof.
  induction l as [|x r IH]; cbn; intros H; auto. inversion H as [|? ? Hn Hr]; subst.
  destruct (P x); cbn; auto. constructor; auto. intros Hin. apply Hn. apply in_map_iff in Hin as (y & E & Hy).
  apply filter_In in Hy as [Hy _]. rewrite <- E. apply in_map; auto.
Qed.

Theorem bv_members_proved : bv_members d = true.
Proof.
  unfold bv_members. apply forall_compiled.
  - reflexivity.
  - intros p w Hpw Hab. unfold desc_item, bv_members_item. cbn [map nodup_b forallb]. rewrite !andb_true_r.
    pose proof (wf_ws_ok a Hwf p w (proj1 (in_all_ws a p w) Hpw)) as Hok. unfold ws_ok in Hok. rewrite !andb_true_iff in Hok.
    destruct Hok as [[[_ Hdesc] _] _]. destruct (ws_lex_in p w Hpw) as [Hwl _]. unfold ws_lex in Hwl. apply andb_true_iff in Hwl as [_ Hdl].
    apply NoDup_nodup_s. rewrite map_app, map_map.
    replace (map (fun x => fd_name (fd_of_ditem (m_desc_refs m) (p_name p) x)) (match w_desc w with Some l => l | None => [] end))
      with (map d_name (match w_desc w with Some l => l | None => [] end)) by (apply map_ext; intros; symmetry; apply fd_of_ditem_name).
    apply NoDup_app_intro; [apply sys_names_nodup | |].
    + destruct (w_desc w); [|constructor]. apply andb_true_iff in Hdesc as [_ Hd]. apply nodup_s_NoDup; auto.
    + intros x H1 H2. apply sys_name_not_lex in H1. destruct (w_desc w) as [fs|]; [|destruct H2].
      apply in_map_iff in H2 as (f & <- & Hf). rewrite forallb_forall in Hdl. specialize (Hdl f Hf). unfold field_lex in Hdl. congruence.
  - intros p w i it Hpw Hi Hin. pose proof Hin as Hin0. destruct (stmt_cases _ _ _ _ Hin); try reflexivity.
    + destruct (table_ok_parts p w t Hpw Hi) as (b0 & ls0 & Ec0 & Hcl & _ & _). rewrite H in Ec0. inversion Ec0; subst b0 ls0.
      apply struct_members_ok; [eapply lists_declared_root; eauto | apply chain_lists_nodup in Hcl; auto | eapply in_compiled_stmt; eauto].
    + apply struct_members_ok; [eapply lists_declared_nested; eauto | eapply nested_lists_nodup; eauto | eapply in_compiled_stmt; eauto].
    + (* types *)
      pose proof (stmt_ok_in p w _ Hpw Hi) as Hok. cbn in Hok. unfold yitems_ok in Hok. apply andb_true_iff in Hok as [_ Hnd].
      apply nodup_s_NoDup in Hnd. pose proof (wsitem_lex_in p w _ Hpw Hi) as Hl. cbn in Hl. apply andb_true_iff in Hl as [_ Hl].
      assert (Hall : map (fun y => match y with YField f => f_name f | YCont c _ _ => c end) ys
                     = flat_map (fun y => [match y with YField f => f_name f | YCont c _ _ => c end]) ys)
        by (induction ys; cbn; auto; f_equal; auto).
      rewrite Hall in Hnd. unfold type_item, bv_members_item. cbn [map nodup_b forallb]. rewrite !andb_true_r. apply andb_true_iff. split.
      * apply NoDup_nodup_s. rewrite map_app, map_flat_map'. apply NoDup_app_intro; [apply sys_names_nodup | |].
        -- eapply NoDup_flat_sub; [|exact Hnd]. intros y. destruct y; cbn; rewrite ?fd_of_field_name; auto.
        -- intros x H1 H2. apply sys_name_not_lex in H1. apply in_flat_map in H2 as (y & Hy & H2). destruct y; [|destruct H2].
           destruct H2 as [<- | []]. rewrite fd_of_field_name in H1. rewrite forallb_forall in Hl. specialize (Hl _ Hy). cbn in Hl. unfold field_lex in Hl. congruence.
      * apply NoDup_nodup_s. rewrite map_flat_map'. eapply NoDup_flat_sub; [|exact Hnd]. intros y. destruct y; cbn; auto.
    + (* views *)
      pose proof (stmt_ok_in p w _ Hpw Hi) as Hok. cbn in Hok. unfold view_ok in Hok.
      rewrite !andb_true_iff in Hok. destruct Hok as [[[[[[[[[Hnd _] _] _] Hkeys] Hpkf] Hccf] _] _] _].
      apply nodup_s_NoDup in Hnd. apply nodup_s_NoDup in Hkeys.
      pose proof (wsitem_lex_in p w _ Hpw Hi) as Hl. cbn in Hl. apply andb_true_iff in Hl as [_ Hl].
      assert (Hlexn : forall n, In n (map vitem_name (v_items v)) -> lex_ident n = true).
      { intros n Hn. apply in_map_iff in Hn as (x & <- & Hx). rewrite forallb_forall in Hl. auto. }
      pose proof (found_weaken _ _ _ Hpkf) as Fpk. pose proof (found_weaken _ _ _ Hccf) as Fcc.
      unfold view_item, bv_members_item. apply NoDup_nodup_s. rewrite !map_app.
      rewrite (view_key_names _ _ _ _ _ Fpk), (view_key_names _ _ _ _ _ Fcc). cbn [map fd_name fd_sysf].
      rewrite map_map. rewrite (map_ext _ vitem_name) by (intros; apply vfd_val_name).
      rewrite app_assoc. apply NoDup_app_intro; auto.
      * constructor.
        -- intros Hq. apply in_map_iff in Hq as (x & E & Hx). apply filter_In in Hx as [Hx _].
           assert (lex_ident "sys.QName" = true) by (rewrite <- E; apply Hlexn; apply in_map; auto). discriminate.
        -- apply NoDup_map_filter; auto.
      * intros x H1 [<- | H2].
        -- assert (lex_ident "sys.QName" = true); [|discriminate]. apply Hlexn.
           apply in_app_iff in H1 as [H1 | H1]; [apply (found_is_item _ _ Fpk _ H1) | apply (found_is_item _ _ Fcc _ H1)].
        -- apply in_map_iff in H2 as (y & <- & Hy). apply filter_In in Hy as [_ Hy]. apply andb_true_iff in Hy as [Hy1 Hy2].
           apply negb_true_iff in Hy1, Hy2. apply in_app_iff in H1 as [H1 | H1]; apply mem_s_In in H1; congruence.
Qed.

(* ---- bv_names: every name is what the lexer delivered, or a generated name within the guard ---- *)
Hypothesis Hmax : appdef_max_ident_len = 255%N.

Definition okc (x : ascii) : bool := is_first x || is_digit x.

Lemma all_chars_app f s1 s2 : all_chars f (s1 ++ s2) = all_chars f s1 && all_chars f s2.
Proof. induction s1 as [|c r IH]; cbn; auto. rewrite IH. apply andb_assoc. Qed.

Lemma all_chars_impl (f g : ascii -> bool) s : (forall c, f c = true -> g c = true) -> all_chars f s = true -> all_chars g s = true.
Proof. intros H. induction s as [|c r IH]; cbn; auto. intros H'. apply andb_true_iff in H' as [Hc Hr]. rewrite (H c Hc), IH; auto. Qed.

Lemma lex_parts s : lex_ident s = true ->
  exists c r, s = String c r /\ is_first c = true /\ all_chars okc r = true /\ (N.of_nat (String.length s) <=? 255)%N = true.
Proof.
  unfold lex_ident. destruct s as [|c r]; [discriminate|]. intros H. rewrite !andb_true_iff in H. destruct H as [[Hc Hr] Hl].
  exists c, r. repeat split; auto.
  - unfold is_first. rewrite Hc. auto.
  - eapply all_chars_impl; [|exact Hr]. intros x Hx. unfold okc, is_first.
    apply orb_true_iff in Hx as [Hx | Hx]; [apply orb_true_iff in Hx as [Hx | Hx]|]; rewrite Hx; rewrite ?orb_true_r; auto.
Qed.

Lemma lex_valid s : lex_ident s = true -> valid_ident s = true.
Proof.
  intros H. destruct (lex_parts s H) as (c & r & -> & Hc & Hr & Hl). unfold valid_ident. fold okc. rewrite Hc, Hr, Hmax, Hl. auto.
Qed.

Lemma valid_app s t : lex_ident s = true -> all_chars okc t = true ->
  (N.of_nat (String.length (s ++ t)) <=? appdef_max_ident_len)%N = true -> valid_ident (s ++ t) = true.
Proof.
  intros H Ht Hl. destruct (lex_parts s H) as (c & r & -> & Hc & Hr & _). unfold valid_ident. fold okc.
  cbn [append]. rewrite Hc, all_chars_app, Hr, Ht. cbn [andb]. exact Hl.
Qed.

Lemma digits_okc (u : Decimal.uint) : all_chars okc (DecimalString.NilEmpty.string_of_uint u) = true.
Proof. induction u; cbn; auto. Qed.

Lemma r_num_okc n : all_chars okc (r_num n) = true.
Proof. unfold r_num, DecimalString.NilZero.string_of_uint. destruct (N.to_uint n); try reflexivity; apply digits_okc. Qed.

Lemma two_digits_okc n : all_chars okc (two_digits n) = true.
Proof. unfold two_digits. destruct (n <? 10)%N; [cbn; apply r_num_okc | apply r_num_okc]. Qed.

Lemma lex_okc_all s : lex_ident s = true -> all_chars okc s = true.
Proof.
  intros H. destruct (lex_parts s H) as (c & r & -> & Hc & Hr & _). cbn. unfold okc at 1. rewrite Hc, Hr. auto.
Qed.

Lemma uniqs_from_names its : titems_lex its = true -> forall c u, In u (uniqs_from c its) -> all_chars okc (ud_name u) = true.
Proof.
  induction its as [|it r IH]; intros Hl c u H; [destruct H|]. destruct (titems_lex_cons _ _ Hl) as [Hr Hit].
  destruct it as [f | n refs nn | c0 t' | [cn|] fs]; cbn [uniqs_from] in H; try (eapply IH; eauto; fail).
  - destruct H as [<- | H]; [cbn; apply lex_okc_all; auto | eapply IH; eauto].
  - destruct H as [<- | H]; [cbn; apply two_digits_okc | eapply IH; eauto].
Qed.

Lemma uniqs_run_names ls : (forall l, In l ls -> titems_lex (snd l) = true) ->
  forall c u, In u (uniqs_run c ls) -> all_chars okc (ud_name u) = true.
Proof.
  induction ls as [|l r IH]; intros Hl c u H; [destruct H|]. cbn [uniqs_run] in H. apply in_app_iff in H as [H | H].
  - eapply uniqs_from_names; [apply Hl; left; auto | eauto].
  - eapply IH; eauto. intros; apply Hl; right; auto.
Qed.

Lemma uniqs_chain_names ls u : (forall l, In l ls -> titems_lex (snd l) = true) -> In u (uniqs_chain m ls) ->
  all_chars okc (ud_name u) = true.
Proof.
  intros Hl. unfold uniqs_chain. destruct (m_uniq_per_type m); [apply uniqs_run_names; auto|]. intros H.
  apply in_flat_map in H as (l & Hin & H). eapply uniqs_from_names; [apply Hl; eauto | eauto].
Qed.

Lemma sys_fields_sys k f : In f (sys_fields k) -> fd_sys f = true.
Proof. destruct k; cbn; intros H; repeat (destruct H as [<- | H]; [reflexivity|]); destruct H. Qed.

Lemma struct_names_ok pn wq t k sg ls :
  lex_ident pn = true -> lex_ident (t_name t) = true -> (forall l, In l ls -> Declared l k) ->
  gen_names_short d = true -> In (struct_item m pn wq t k sg ls) d ->
  bv_names_item (struct_item m pn wq t k sg ls) = true.
Proof.
  intros Hpn Ht Hd Hg Hin. unfold gen_names_short in Hg. rewrite forallb_forall in Hg. specialize (Hg _ Hin).
  unfold struct_item in *. cbn [bv_names_item item_key] in *. apply andb_true_iff in Hg as [_ Hgu].
  assert (Hlx : forall l, In l ls -> titems_lex (snd l) = true) by (intros l Hl; apply (declared_table_lex l k (Hd l Hl))).
  unfold bv_names_item. cbn [item_key]. rewrite !andb_true_iff. repeat split.
  - unfold valid_qname. cbn [fst snd]. rewrite !lex_valid; auto.
  - rewrite forallb_app. apply andb_true_iff. split; apply forallb_forall; intros f Hf.
    + rewrite (sys_fields_sys k f Hf). auto.
    + apply orb_true_iff. right. apply lex_valid. apply in_flat_map in Hf as (l & Hl & Hf).
      destruct (titems_lex_facts _ (Hlx l Hl)) as (I1 & _). apply I1. rewrite <- fnames_fields. apply in_map; auto.
  - apply forallb_forall. intros c Hc. apply lex_valid. apply in_flat_map in Hc as (l & Hl & Hc).
    destruct (titems_lex_facts _ (Hlx l Hl)) as (_ & I2 & _). apply I2. rewrite <- ctnames_conts. apply in_map; auto.
  - apply forallb_forall. intros u Hu. rewrite forallb_forall in Hgu. specialize (Hgu u Hu). cbn [snd] in *.
    unfold uniq_entity in *. apply valid_app; auto. rewrite all_chars_app. rewrite (uniqs_chain_names ls u Hlx Hu). reflexivity.
Qed.

Lemma table_lex_name t : table_lex t = true -> lex_ident (t_name t) = true.
Proof. rewrite table_lex_eq. intros H. apply andb_true_iff in H. tauto. Qed.

Theorem bv_names_proved : gen_names_short d = true -> bv_names d = true.
Proof.
  intros Hg. unfold bv_names. apply forall_compiled.
  - intros p w Hpw. destruct (ws_lex_in p w Hpw) as [Hw Hp]. unfold ws_lex in Hw. rewrite !andb_true_iff in Hw. destruct Hw as [[Hn _] _].
    unfold ws_item. cbv zeta. unfold bv_names_item, valid_qname. cbn [item_key fst snd]. rewrite !lex_valid; auto.
  - intros p w Hpw Hab. destruct (ws_lex_in p w Hpw) as [Hw Hp]. unfold ws_lex in Hw. rewrite !andb_true_iff in Hw. destruct Hw as [[Hn _] Hd].
    pose proof (in_compiled_desc a m p w Hpw Hab) as Hin. unfold gen_names_short in Hg. rewrite forallb_forall in Hg. specialize (Hg _ Hin).
    unfold desc_item in *. unfold bv_names_item. cbn [item_key fst snd forallb] in *. rewrite !andb_true_r in *.
    apply andb_true_iff. split.
    + unfold valid_qname. cbn [fst snd]. rewrite (lex_valid _ Hp). cbn [andb]. unfold desc_name in *. apply valid_app; auto.
    + rewrite forallb_app. apply andb_true_iff. split; apply forallb_forall; intros f Hf.
      * rewrite (sys_fields_sys _ f Hf). auto.
      * apply in_map_iff in Hf as (fl & <- & Hfl). apply orb_true_iff. right. rewrite fd_of_ditem_name. apply lex_valid.
        destruct (w_desc w) as [fs|]; [|destruct Hfl]. rewrite forallb_forall in Hd. apply (Hd _ Hfl).
  - intros p w i it Hpw Hi Hin. destruct (ws_lex_in p w Hpw) as [_ Hp]. pose proof (wsitem_lex_in p w _ Hpw Hi) as Hl.
    pose proof Hin as Hin0. destruct (stmt_cases _ _ _ _ Hin).
    + cbn in Hl. apply struct_names_ok; auto; [apply table_lex_name; auto | eapply lists_declared_root; eauto | eapply in_compiled_stmt; eauto].
    + cbn in Hl. apply struct_names_ok; auto;
        [apply table_lex_name; eapply table_lex_nested; eauto; apply nested_tables_Nested; auto
        | eapply lists_declared_nested; eauto | eapply in_compiled_stmt; eauto].
    + cbn in Hl. apply andb_true_iff in Hl as [Hn Hys]. unfold type_item, bv_names_item. cbn [item_key forallb]. rewrite andb_true_r.
      rewrite !andb_true_iff. repeat split.
      * unfold valid_qname. cbn [fst snd]. rewrite !lex_valid; auto.
      * rewrite forallb_app. apply andb_true_iff. split; apply forallb_forall; intros f Hf.
        -- rewrite (sys_fields_sys _ f Hf). auto.
        -- apply in_flat_map in Hf as (y & Hy & Hf). destruct y; [|destruct Hf]. destruct Hf as [<- | []].
           apply orb_true_iff. right. rewrite fd_of_field_name. apply lex_valid. rewrite forallb_forall in Hys. apply (Hys _ Hy).
      * apply forallb_forall. intros c Hc. apply in_flat_map in Hc as (y & Hy & Hc). destruct y; [destruct Hc|]. destruct Hc as [<- | []].
        cbn. apply lex_valid. rewrite forallb_forall in Hys. apply (Hys _ Hy).
    + cbn in Hl. apply andb_true_iff in Hl as [Hn Hvs]. unfold view_item, bv_names_item. cbn [item_key]. apply andb_true_iff. split.
      * unfold valid_qname. cbn [fst snd]. rewrite !lex_valid; auto.
      * assert (Hk : forall part l, forallb (fun f => fd_sys f || valid_ident (fd_name f))
                  (flat_map (fun n => map (vfd_key (m_view_refs m) (p_name p) part) (opt_list (find_vitem v n))) l) = true).
        { intros part l. apply forallb_flat. intros n _. unfold find_vitem. destruct (find _ (v_items v)) as [x|] eqn:Ef; [|reflexivity].
          apply find_some in Ef as [Hx _]. cbn [opt_list map forallb]. rewrite andb_true_r. apply orb_true_iff. right. apply lex_valid.
          rewrite forallb_forall in Hvs. specialize (Hvs _ Hx). destruct x; exact Hvs. }
        rewrite !forallb_app, !Hk. cbn [andb forallb fd_sys fd_sysf orb]. rewrite forallb_map. apply forallb_forall. intros x Hx.
        apply filter_In in Hx as [Hx _]. apply orb_true_iff. right. rewrite vfd_val_name. apply lex_valid. rewrite forallb_forall in Hvs. apply (Hvs _ Hx).
    + cbn in Hl. unfold proj_item, bv_names_item, valid_qname. cbn [item_key fst snd]. rewrite !lex_valid; auto.
    + cbn in Hl. unfold func_item, bv_names_item, valid_qname. cbn [item_key fst snd]. rewrite !lex_valid; auto.
    + cbn in Hl. unfold bv_names_item, valid_qname. cbn [item_key fst snd]. rewrite !lex_valid; auto.
    + cbn in Hl. unfold rate_item, bv_names_item, valid_qname. cbn [item_key fst snd]. rewrite !lex_valid; auto.
    + cbn in Hl. unfold limit_item, bv_names_item, valid_qname. cbn [item_key fst snd]. rewrite !lex_valid; auto.
Qed.

(* ---- all clauses ---- *)
(* What the parser does not check and the builder does - the number of members of a type and the
   length of the two kinds of generated names (<workspace>Descriptor, <table>$uniques$<n>) - and the
   one clause left unproved (no unique's fields contain another's) are explicit guards. *)
Definition guards (d0 : defn) : bool := gen_names_short d0 && bv_limits d0 && bv_overlap d0.

Theorem builder_valid_proved : guards d = true -> builder_valid d = true.
Proof.
  unfold guards, builder_valid. intros H. rewrite !andb_true_iff in H. destruct H as [[Hn Hl] Ho].
  rewrite bv_keys_proved, (bv_names_proved Hn), Hl, bv_members_proved, Ho, bv_refs_proved, bv_views_proved, bv_funcs_proved,
    bv_projs_proved, bv_limit_proved, bv_acl_proved, bv_ws_proved. reflexivity.
Qed.

End Clauses.

(* within the guards a well-formed, lexically sound schema is compiled (whatever the flags), and what
   is handed out passes the validation model *)
Theorem compile16_compiles_proved r ck a :
  appdef_max_ident_len = 255%N -> wf a = true -> lexical a = true -> no_unique_collision a Go = true ->
  guards (compile_items a Go) = true ->
  compile16_with r ck a = VCompiled (compile_items a Go) /\ builder_valid (compile_items a Go) = true.
Proof.
  intros Hmax Hwf Hlex Hc Hg. pose proof (builder_valid_proved a Go Hwf Hlex Hc Hmax Hg) as Hv.
  unfold compile16_with. rewrite Hwf, Hc, Hv. auto.
Qed.

Theorem compile16_accepts_valid_proved r ck a d : compile16_with r ck a = VCompiled d -> builder_valid d = true /\ wf a = true.
Proof.
  unfold compile16_with, refused. destruct (wf a) eqn:E; [|destruct (wf_p a ck); discriminate].
  destruct (no_unique_collision a Go && builder_valid (compile_items a Go)) eqn:Ev; [|destruct r; discriminate].
  intros H. inversion H; subst. apply andb_true_iff in Ev. tauto.
Qed.

(* with the recover in buildAppDefs the compiler model never panics, on any schema *)
Theorem compile16_total_proved ck : forall a, compile16_with true ck a <> VPanic.
Proof.
  intros a. unfold compile16_with, refused.
  destruct (wf a); [|destruct (wf_p a ck); discriminate].
  destruct (no_unique_collision a Go && builder_valid (compile_items a Go)); discriminate.
Qed.

(* when the analyser checks both rules itself, its rules are the language's rules (`wf`), so the
   model never hands out a definition that builder.Build() refuses *)
Lemma view_ok_p_all a p w v : view_ok_p a (PChecks true true true) p w v = view_ok a p w v.
Proof. reflexivity. Qed.
Lemma grant_ok_p_all a p w g : grant_ok_p a (PChecks true true true) p w g = grant_ok a p w g.
Proof. unfold grant_ok_p, grant_ok. destruct (g_what g) as [ | | | | | | | [|] | | ]; reflexivity. Qed.
Lemma stmt_ok_p_all a p w i : stmt_ok_p a (PChecks true true true) p w i = stmt_ok a p w i.
Proof. destruct i; cbn [stmt_ok_p stmt_ok]; auto using view_ok_p_all, grant_ok_p_all. Qed.
Lemma forallb_ext' {A} (f g : A -> bool) l : (forall x, f x = g x) -> forallb f l = forallb g l.
Proof. intros H. induction l; cbn; auto. rewrite H, IHl. auto. Qed.
Lemma ws_ok_p_all a p w : ws_ok_p a (PChecks true true true) p w = ws_ok a p w.
Proof. reflexivity. Qed.
Lemma wf_p_all a : wf_p a (PChecks true true true) = wf a.
Proof. reflexivity. Qed.

Theorem compile16_never_invalid_proved r a : compile16_with r (PChecks true true true) a <> VInvalid.
Proof.
  unfold compile16_with, refused. rewrite wf_p_all. destruct (wf a); [|discriminate].
  destruct (no_unique_collision a Go && builder_valid (compile_items a Go)); destruct r; discriminate.
Qed.

Theorem compile16_total_flag : parser_recovers_builder_panics = true -> forall a, compile16 a <> VPanic.
Proof. intros Hr a. unfold compile16. rewrite Hr. apply compile16_total_proved. Qed.

Theorem compile16_never_invalid_flag :
  parser_checks_view_partition_key = true -> parser_checks_grant_matches = true -> parser_command_parameter_kinds_checked = true ->
  forall a, compile16 a <> VInvalid.
Proof. intros Hv Hg Hf a. unfold compile16, go_checks. rewrite Hv, Hg, Hf. apply compile16_never_invalid_proved. Qed.

Theorem wf_chains_end_proved a : wf a = true -> forall p w, In_ws a p w ->
  (exists l, ws_anc a (fuelw a) (p_name p) (w_inh w) = Some l)
  /\ forall t, In (ITable t) (w_items w) ->
     (exists b ls, Chain a (p_name p) t b ls)
     /\ forall t', In t' (nested_tables t) -> t_inh t' <> None -> exists b ls, Chain a (p_name p) t' b ls.
Proof.
  intros Hwf p w Hpw. split.
  - pose proof (wf_anc_ok a Hwf p w Hpw) as H. destruct (ws_anc a (fuelw a) (p_name p) (w_inh w)) as [l|]; [eauto | congruence].
  - intros t Hi. destruct (wf_chains_ok a Hwf p w t Hpw Hi) as [Hc Hn]. split.
    + destruct (chain a (fuel0 a) (p_name p) t) as [[b ls]|] eqn:Ec; [|congruence]. exists b, ls. eapply chain_sound; eauto.
    + intros t' Ht' Hinh. specialize (Hn t' Ht' Hinh).
      destruct (chain a (fuel0 a) (p_name p) t') as [[b ls]|] eqn:Ec; [|congruence]. exists b, ls. eapply chain_sound; eauto.
Qed.
