(* C16 - the VSQL compiler is total and deterministic (partial claim).

   What a model can carry: "a definition the compiler hands out passes the builder's validation".
   `builder_valid d` is a Gallina model of the rules pkg/appdef's builder applies to the item
   classes the reference compiler of C17 emits - both the preconditions of the Add... calls (a
   violation panics inside BuildAppDefs) and the Validate() pass of Build() (a violation is an error
   after a nil error of the parser).  File:line beside each clause refer to /repo/pkg/appdef.
   Definitions only; traces at the end. *)
From Coq Require Import List NArith ZArith Bool String Ascii.
From V Require Import Lib.Check Gen.Params C17_Compile.Model.
Import ListNotations.
Local Open Scope string_scope.
Infix "+++" := (@app _) (right associativity, at level 60).

Definition defn := list item.

(* ------------------------------------------------------------------ names *)

(* utils_qname.go:23-59 ValidIdent: 1..MaxIdentLen chars, letters, '_', '$', digits not first *)
Definition is_letter (c : ascii) : bool :=
  let n := N_of_ascii c in ((65 <=? n) && (n <=? 90) || (97 <=? n) && (n <=? 122))%N.
Definition is_digit (c : ascii) : bool := let n := N_of_ascii c in ((48 <=? n) && (n <=? 57))%N.
Definition is_first (c : ascii) : bool := is_letter c || (N_of_ascii c =? 95)%N || (N_of_ascii c =? 36)%N.
Fixpoint all_chars (f : ascii -> bool) (s : string) : bool :=
  match s with EmptyString => true | String c r => f c && all_chars f r end.
Definition valid_ident (s : string) : bool :=
  match s with
  | EmptyString => false
  | String c r => is_first c && all_chars (fun x => is_first x || is_digit x) r
  end && (N.of_nat (String.length s) <=? appdef_max_ident_len)%N.
Definition valid_qname (q : qname) : bool := valid_ident (fst q) && valid_ident (snd q).

(* the lexer's Ident rule (pkg/parser/const.go identifierRegexp): a letter, then up to 254 word chars *)
Definition lex_ident (s : string) : bool :=
  match s with
  | EmptyString => false
  | String c r => is_letter c && all_chars (fun x => is_letter x || is_digit x || (N_of_ascii x =? 95)%N) r
  end && (N.of_nat (String.length s) <=? 255)%N.

(* ------------------------------------------------------------------ classes and lookups *)

Inductive cls := ClWs | ClStruct (k : tkind) | ClView | ClCmd | ClQuery | ClProj | ClRole | ClRate | ClLimit | ClOther.
Definition item_cls (i : item) : cls :=
  match i with
  | ItWs _ _ _ _ _ _ => ClWs | ItStruct _ k _ _ _ _ _ _ => ClStruct k | ItView _ _ _ _ _ => ClView
  | ItFunc _ _ c _ _ _ _ => if c then ClCmd else ClQuery | ItProj _ _ _ _ _ _ _ => ClProj
  | ItRole _ _ _ => ClRole | ItRate _ _ _ _ _ => ClRate | ItLimit _ _ _ _ _ _ => ClLimit | ItOther _ _ => ClOther
  end.
Definition item_ws (i : item) : option qname :=
  match i with
  | ItWs _ _ _ _ _ _ | ItOther _ _ => None
  | ItStruct _ _ w _ _ _ _ _ | ItView _ w _ _ _ | ItFunc _ w _ _ _ _ _ | ItProj _ w _ _ _ _ _
  | ItRole _ w _ | ItRate _ w _ _ _ | ItLimit _ w _ _ _ _ => Some w
  end.
Definition find_item (d : defn) (q : qname) : option item := find (fun i => qname_eqb (item_key i) q) d.

(* what package sys (harness/c17/sys.vsql) and the builder itself provide, as far as the fragment
   can refer to it *)
Definition sys_cls (q : qname) : option cls :=
  if negb (fst q =? "sys") then None
  else if snd q =? "BLOB" then Some (ClStruct KWDoc)
  else if snd q =? "ChildWorkspace" then Some (ClStruct KCDoc)
  else if (snd q =? "Raw") || (snd q =? "CreateLoginParams") || (snd q =? "CreateLoginUnloggedParams") then Some (ClStruct KObject)
  else if (snd q =? "Workspace") then Some ClWs
  else if (snd q =? "Anyone") then Some ClRole
  else None.
Definition cls_of (d : defn) (q : qname) : option cls :=
  match find_item d q with Some i => Some (item_cls i) | None => sys_cls q end.

Definition is_record (c : cls) : bool := match c with ClStruct KObject => false | ClStruct _ => true | _ => false end.
Definition is_doc (c : cls) : bool := match c with ClStruct (KCDoc | KODoc | KWDoc) => true | _ => false end.
Definition fk_matches (k : fkind) (c : cls) : bool :=
  match k, c with
  | FkRecords, ClStruct KObject => false | FkRecords, ClStruct _ => true
  | FkCommand, ClCmd | FkQuery, ClQuery | FkView, ClView => true
  | _, _ => false
  end.
(* sys.Workspace, ancestor of every workspace, holds tables, commands and a query but no view *)
Definition sys_has (k : fkind) : bool := match k with FkView => false | _ => true end.

(* ---- the types a workspace sees: its own, those of its ancestors (transitively), sys.Workspace's
   (internal/workspaces/workspace.go:270-296 enumerateTypes) ---- *)
Definition ws_anc_of (d : defn) (w : qname) : list qname :=
  match find_item d w with Some (ItWs _ _ anc _ _ _) => anc | _ => [] end.
Fixpoint ws_closure (fuel : nat) (d : defn) (w : qname) : list qname :=
  match fuel with
  | O => [w]
  | S f => w :: flat_map (ws_closure f d) (ws_anc_of d w)
  end.
Definition visible_ws (d : defn) (w : qname) : list qname := ws_closure (List.length d) d w.
Definition visible (d : defn) (w : qname) (i : item) : bool :=
  match item_ws i with Some w' => mem_q w' (visible_ws d w) | None => false end.
Definition visible_q (d : defn) (w : qname) (q : qname) : option cls :=
  match find_item d q with
  | Some i => if visible d w i then Some (item_cls i) else None
  | None => sys_cls q
  end.

(* ------------------------------------------------------------------ clauses *)

(* types/type.go:181-189 AppendType: a type name is used once *)
Definition bv_keys (d : defn) : bool := nodup_b qname_eqb (map item_key d).

(* types/type.go (MakeType -> ValidQName), fields/field.go:206-209 ValidFieldName,
   containers/container.go:86-88 ValidIdent, uniques/unique.go:112-114 ValidQName of T$uniques$n *)
Definition uniq_entity (t : string) (n : string) : string := t ++ "$uniques$" ++ n.
Definition bv_names_item (i : item) : bool :=
  valid_qname (item_key i)
  && match i with
     | ItStruct q _ _ _ _ fs cs us =>
       forallb (fun f => fd_sys f || valid_ident (fd_name f)) fs
       && forallb (fun c => valid_ident (cd_name c)) cs
       && forallb (fun u => valid_ident (uniq_entity (snd q) (ud_name u))) us
     | ItView _ _ pk cc val => forallb (fun f => fd_sys f || valid_ident (fd_name f)) (pk +++ cc +++ val)
     | _ => true
     end.
Definition bv_names (d : defn) : bool := forallb bv_names_item d.

(* fields/field.go:199-201 MaxTypeFieldCount, containers/container.go:109-111 MaxTypeContainerCount,
   uniques/unique.go:144-146 MaxTypeUniqueCount, :122-131 1..MaxTypeUniqueFieldsCount fields *)
Definition len {A} (l : list A) : N := N.of_nat (List.length l).
Definition bv_limits_item (i : item) : bool :=
  match i with
  | ItStruct _ _ _ _ _ fs cs us =>
    (len fs <=? appdef_max_type_fields)%N && (len cs <=? appdef_max_type_containers)%N
    && (len us <=? appdef_max_type_uniques)%N
    && forallb (fun u => (1 <=? len (ud_fields u))%N && (len (ud_fields u) <=? appdef_max_unique_fields)%N) us
  | ItView _ _ pk cc val => (len (pk +++ cc +++ val) <=? appdef_max_type_fields)%N
  | _ => true
  end.
Definition bv_limits (d : defn) : bool := forallb bv_limits_item d.

(* fields/field.go:196-198 a field name is used once; containers/container.go:89-91; uniques/unique.go:115-117
   unique names; :126-128 no field twice in a unique; unique.go:26-38 NewUnique: its fields exist *)
Definition subset_s (l1 l2 : list string) : bool := forallb (fun x => mem_s x l2) l1.
Fixpoint pairwise {A} (f : A -> A -> bool) (l : list A) : bool :=
  match l with [] => true | x :: r => forallb (f x) r && pairwise f r end.
Definition bv_members_item (i : item) : bool :=
  match i with
  | ItStruct _ _ _ _ _ fs cs us =>
    nodup_b String.eqb (map fd_name fs) && nodup_b String.eqb (map cd_name cs)
    && nodup_b String.eqb (map ud_name us)
    && forallb (fun u => nodup_b String.eqb (ud_fields u) && subset_s (ud_fields u) (map fd_name fs)) us
  | ItView _ _ pk cc val => nodup_b String.eqb (map fd_name (pk +++ cc +++ val))
  | _ => true
  end.
(* uniques/unique.go:133-142 (slicex.Overlaps): no unique's field set contains another's *)
Definition bv_overlap_item (i : item) : bool :=
  match i with
  | ItStruct _ _ _ _ _ _ _ us =>
    pairwise (fun u v => negb (subset_s (ud_fields u) (ud_fields v)) && negb (subset_s (ud_fields v) (ud_fields u))) us
  | _ => true
  end.
Definition bv_overlap (d : defn) : bool := forallb bv_overlap_item d.
Definition bv_members (d : defn) : bool := forallb bv_members_item d.

(* fields/field.go:316-332 ValidateTypeFields: every target of a reference field is a record;
   containers/container.go:131-150 ValidateTypeContainers + :96-107: the contained type exists and its
   kind may sit in the parent (utils_type.go:445-545 containerKinds); :93-98 occurrences *)
Definition cont_kind_ok (parent child : tkind) : bool :=
  match parent, child with
  | KCDoc, KCRecord | KCRecord, KCRecord | KWDoc, KWRecord | KWRecord, KWRecord
  | KODoc, KORecord | KODoc, KODoc | KORecord, KORecord | KObject, KObject => true
  | _, _ => false
  end.
Definition refs_ok (d : defn) (fs : list fdef) : bool :=
  forallb (fun f => match fd_refs f with
                    | Some l => forallb (fun q => match cls_of d q with Some c => is_record c | None => false end) l
                    | None => true end) fs.
Definition bv_refs_item (d : defn) (i : item) : bool :=
  match i with
  | ItStruct _ k _ _ _ fs cs _ =>
    refs_ok d fs
    && forallb (fun c => (1 <=? cd_max c)%N && (cd_min c <=? cd_max c)%N
                         && match cls_of d (cd_type c) with Some (ClStruct k') => cont_kind_ok k k' | _ => false end) cs
  | ItView _ _ pk cc val => refs_ok d (pk +++ cc +++ val)
  | _ => true
  end.
Definition bv_refs (d : defn) : bool := forallb (bv_refs_item d) d.

(* views/view.go:174-178, 270-274 both key parts non-empty; :152-155 partition key fields of fixed
   size; :254-261 at most one variable-size clustering column, the last (utils_data.go:25-40 IsFixed) *)
Definition kind_fixed (k : dkind) : bool := match k with Kbytes | Kstring => false | _ => true end.
Fixpoint var_only_last (l : list fdef) : bool :=
  match l with [] | [_] => true | f :: r => kind_fixed (fd_kind f) && var_only_last r end.
Definition bv_views_item (i : item) : bool :=
  match i with
  | ItView _ _ pk cc _ =>
    negb (match pk with [] => true | _ => false end) && negb (match cc with [] => true | _ => false end)
    && forallb (fun f => kind_fixed (fd_kind f)) pk && var_only_last cc
  | _ => true
  end.
Definition bv_views (d : defn) : bool := forallb bv_views_item d.

(* extensions/function.go:40-62, command.go:34-48: parameter (and unlogged parameter) ANY, ODoc or
   Object; result ANY, a document or Object; all must exist *)
Definition param_cls_ok (d : defn) (o : option qname) (allow_docs : bool) : bool :=
  match o with
  | None => true
  | Some q => if qname_eqb q (sysq "ANY") then true
              else match cls_of d q with
                   | Some (ClStruct KObject) | Some (ClStruct KODoc) => true
                   | Some c => allow_docs && is_doc c
                   | None => false
                   end
  end.
Definition bv_funcs_item (d : defn) (i : item) : bool :=
  match i with
  | ItFunc _ _ _ _ pa un re => param_cls_ok d pa false && param_cls_ok d un false && param_cls_ok d re true
  | _ => true
  end.
Definition bv_funcs (d : defn) : bool := forallb (bv_funcs_item d) d.

(* extensions/projector.go:163-176 every event filter matches a type the workspace sees that can
   trigger a projector (utils... TypeKind_ProjectorTriggers: functions, records, views, objects);
   extensions/storage.go:41-49 the entities of a storage (here: the views of sys.View) exist *)
Definition trigger_cls (c : cls) : bool :=
  match c with ClStruct _ | ClCmd | ClQuery | ClView => true | _ => false end.
Definition flt_has_match (d : defn) (w : qname) (good : cls -> bool) (f : flt) : bool :=
  match f with
  | FQ l => existsb (fun q => match visible_q d w q with Some c => good c | None => false end) l
  | FAnd k q => match visible_q d w q with Some c => fk_matches k c && good c | None => false end
  | FT k => sys_has k || existsb (fun i => visible d w i && fk_matches k (item_cls i)) d
  | FWT w' k => existsb (fun i => match item_ws i with Some x => qname_eqb x w' | None => false end
                                  && visible d w i && fk_matches k (item_cls i)) d
  | FOther _ => false
  end.
Definition bv_projs_item (d : defn) (i : item) : bool :=
  match i with
  | ItProj _ w _ _ _ evs intents =>
    forallb (fun e => negb (match fst e with [] => true | _ => false end) && flt_has_match d w trigger_cls (snd e)) evs
    && forallb (fun q => match cls_of d q with Some _ => true | None => false end) intents
  | _ => true
  end.
Definition bv_projs (d : defn) : bool := forallb (bv_projs_item d) d.

(* rates/ratelimit.go:94-120 NewLimit: limitable operations, the rate is a rate the workspace sees;
   :139-160 Validate: the filter matches something the workspace sees and all of it is limitable *)
Definition limitable (c : cls) : bool := match c with ClStruct KObject => false | ClStruct _ | ClCmd | ClQuery | ClView => true | _ => false end.
Definition ops_compatible (ops : list op) : bool :=
  match ops with
  | [] => false
  | o :: _ => if mem_op o record_ops then forallb (fun x => mem_op x record_ops) ops else forallb (op_eqb o) ops
  end.
Definition bv_limit_item (d : defn) (i : item) : bool :=
  match i with
  | ItLimit _ w ops _ f rt =>
    ops_compatible ops && forallb (fun o => mem_op o (OExecute :: record_ops)) ops
    && match visible_q d w rt with Some ClRate => true | _ => false end
    && flt_has_match d w limitable f
  | _ => true
  end.
Definition bv_limit (d : defn) : bool := forallb (bv_limit_item d) d.

(* acl/rule.go:51-90 NewRule: ACL operations, compatible; workspaces/workspace.go:298-304 the role is
   a role the workspace sees; acl/rule.go:160-173 the filter matches something the workspace sees *)
Definition acl_cls (c : cls) : bool := match c with ClStruct _ | ClView | ClCmd | ClQuery | ClRole => true | _ => false end.
Definition bv_acl_item (d : defn) (i : item) : bool :=
  match i with
  | ItWs w _ _ _ _ acl =>
    forallb (fun r => ops_compatible (r_ops r)
                      && match visible_q d w (r_role r) with Some ClRole => true | _ => false end
                      && flt_has_match d w acl_cls (r_flt r)) acl
  | _ => true
  end.
Definition bv_acl (d : defn) : bool := forallb (bv_acl_item d) d.

(* workspaces/workspace.go:330-347 setAncestors: ancestors are workspaces; :349-368 the descriptor is
   a CDoc of the workspace; :370-384 used workspaces exist *)
Definition bv_ws_item (d : defn) (i : item) : bool :=
  match i with
  | ItWs w _ anc desc used _ =>
    forallb (fun q => match cls_of d q with Some ClWs => true | _ => false end) (anc +++ used)
    && match desc with
       | None => true
       | Some q => match find_item d q with
                   | Some (ItStruct _ KCDoc w' _ _ _ _ _) => qname_eqb w w'
                   | _ => false end
       end
  | _ => true
  end.
Definition bv_ws (d : defn) : bool := forallb (bv_ws_item d) d.

(* the two kinds of names the compiler makes up itself - <workspace>Descriptor and
   <table>$uniques$<name> - must fit MaxIdentLen (types/type.go, uniques/unique.go:112-114); the parser
   checks neither *)
Definition gen_names_short (d : defn) : bool :=
  forallb (fun i => match i with
                    | ItStruct q _ _ _ _ _ _ us =>
                      (N.of_nat (String.length (snd q)) <=? appdef_max_ident_len)%N
                      && forallb (fun u => (N.of_nat (String.length (uniq_entity (snd q) (ud_name u))) <=? appdef_max_ident_len)%N) us
                    | _ => true
                    end) d.

Definition builder_valid (d : defn) : bool :=
  bv_keys d && bv_names d && bv_limits d && bv_members d && bv_overlap d && bv_refs d && bv_views d
  && bv_funcs d && bv_projs d && bv_limit d && bv_acl d && bv_ws d.

(* ------------------------------------------------------------------ the compiler model of C16 *)

(* what the lexer guarantees about every name of an AST that was parsed from text *)
Section Lexical.
Definition field_lex (f : field) : bool := lex_ident (f_name f).
Fixpoint table_lex (t : table) : bool :=
  match t with
  | Table n _ _ its =>
    lex_ident n
    && (fix go (l : list titem) : bool :=
          match l with
          | [] => true
          | it :: r =>
            match it with
            | TField f => field_lex f
            | TRef fn _ _ => lex_ident fn
            | TNested c t' => lex_ident c && table_lex t'
            | TUnique cn fs => match cn with Some c => lex_ident c | None => true end
            end && go r
          end) its
  end.
Definition wsitem_lex (i : wsitem) : bool :=
  match i with
  | ITable t => table_lex t
  | IType n ys => lex_ident n && forallb (fun y => match y with YField f => field_lex f | YCont c _ _ => lex_ident c end) ys
  | IView v => lex_ident (v_name v) && forallb (fun x => lex_ident (vitem_name x)) (v_items v)
  | IProj x => lex_ident (pj_name x)
  | IFunc f => lex_ident (fn_name f)
  | IRole n _ => lex_ident n
  | IRate r => lex_ident (rt_name r)
  | ILimit l => lex_ident (lm_name l)
  | IGrant _ | IUse _ => true
  end.
Definition ws_lex (w : ws) : bool :=
  lex_ident (w_name w) && forallb wsitem_lex (w_items w)
  && match w_desc w with Some fs => forallb (fun d => lex_ident (d_name d)) fs | None => true end.
Definition lexical (a : schema) : bool :=
  forallb (fun p => lex_ident (p_name p) && forallb ws_lex (p_wss p)) a.
End Lexical.

(* The compiler: a well-formed schema is handed to the builder.  When a precondition of an Add...
   call fails the builder panics; `recovers` says whether buildAppDefs turns that panic into an error
   (pkg/parser/impl.go since the repair of C16-F1; read off the source by translator/parts/c16.py) or
   lets it escape. *)
(* VInvalid: the parser returns no error, builder.Build() refuses the definition.  It happens for the
   schemas that break only a rule the analyser does not check itself (`wf_p ck` holds, `wf` does not):
   findings C16-F6 (view without partition key group), C16-F7 (GRANT ... ON ALL <class> matching nothing);
   `ck` is read off the source. *)
Inductive verdict := VCompiled (d : defn) | VError | VPanic | VInvalid.
Definition refused (recovers : bool) : verdict := if recovers then VError else VPanic.
Definition compile16_with (recovers : bool) (ck : pchecks) (a : schema) : verdict :=
  if wf a
  then if no_unique_collision a Go && builder_valid (compile_items a Go) then VCompiled (compile_items a Go) else refused recovers
  else if wf_p a ck then VInvalid else VError.
Definition go_checks : pchecks := PChecks parser_checks_view_partition_key parser_checks_grant_matches parser_command_parameter_kinds_checked.
Definition compile16 (a : schema) : verdict := compile16_with parser_recovers_builder_panics go_checks a.

(* ------------------------------------------------------------------ traces *)

(* what one compilation of a text (outside the model's fragment) showed *)
Record text_obs := TextObs {
  to_panicked : bool; to_hung : bool;
  to_accepted : bool;            (* parser + BuildAppDefs returned no error *)
  to_built : bool;               (* ... and builder.Build() succeeded *)
  to_positioned : bool;          (* every error about a construct of the text carries file:line:col *)
  to_deterministic : bool }.     (* second compilation (and permuted file order): same outcome, same definition *)

Inductive trace :=
  (* stream (a): a generated AST, its rendering, what the Go compiler did with it *)
  | TModel (a : schema) (texts : list (string * list string)) (out : outcome) (obs : text_obs)
  (* a definition put together through the builder API, bypassing the parser: did Build() accept it? *)
  | TBuilder (d : defn) (accepted : bool)
  (* streams (b), (c): mutated shipped sources, byte strings - observed only *)
  | TText (obs : text_obs)
  (* a text built to be well-formed (a control of a crafted shape): it must compile and build *)
  | TTextOk (obs : text_obs)
  (* a text built to be refused for a stated reason (a guard the parser has): `as_expected` = the compiler's
     error names that reason *)
  | TTextErr (obs : text_obs) (as_expected : bool).

Definition obs_total (o : text_obs) : bool :=
  negb (to_panicked o) && negb (to_hung o) && (negb (to_accepted o) || to_built o)
  && to_positioned o && to_deterministic o.

(* ACLs rule by rule, in order: since the repair of C16-F2 the rules of one `... ON TABLE` statement come
   in operation order, which is the order the model emits them in; before, only per operation *)
Definition acl_exact (l1 l2 : list rule) : bool :=
  list_eqb (fun x y => list_eqb op_eqb (r_ops x) (r_ops y) && rule_eqb1 x y) l1 l2.
Definition acl_cmp : list rule -> list rule -> bool := if parser_grant_rules_sorted then acl_exact else acl_eqb.

(* model <-> code: same text, same compiled / error / panic verdict, the observed definition passes the
   validation model and is the model's definition; for builder-API definitions the validation model
   predicts Build().  For a malformed schema only the refusal is predicted. *)
Definition agrees (t : trace) : bool :=
  match t with
  | TModel a texts out obs =>
    texts_eqb (render a) texts
    && (go_abstains a (* name resolution / descriptor references as they were before F26, F27, F29: not modelled *) ||
       match compile16 a, out with
       | VCompiled d, Compiled items _ _ _ => builder_valid items && dump_match acl_cmp d items && to_built obs
       | VPanic, Rejected true => true
       | VError, Rejected panicked => negb (to_accepted obs) && (negb panicked || negb (wf a))
       | VInvalid, Rejected false => to_accepted obs && negb (to_built obs)
       | _, _ => false
       end)
  | TBuilder d accepted => Bool.eqb (builder_valid d) accepted
  | TText _ | TTextOk _ | TTextErr _ _ => true
  end.

(* the property on the observed behaviour: no panic, no hang, an accepted program builds, errors are
   positioned, two compilations agree *)
Definition satisfies (t : trace) : bool :=
  match t with
  | TModel _ _ out obs => obs_total obs && match out with Rejected true => false | _ => true end
  | TBuilder _ _ => true
  | TText obs => obs_total obs
  | TTextOk obs => obs_total obs && to_built obs
  | TTextErr obs as_expected => obs_total obs && negb (to_accepted obs) && as_expected
  end.
