(* C19 - model of pkg/iratesce (token buckets behind irates.IBuckets).
   One generic bucket system (lookup/lazy creation, TakeTokens with give-back, Get/Set/Reset)
   instantiated twice:
     F  - bit-exact replica of the Go limiter over primitive floats (used by `agrees`);
     X  - exact integer model: credit counted in nanoseconds (one token = I ns), with the one
          rounding freedom the float code has: when the credit was refilled by a fractional amount
          a request that is exactly 1 ns short may be admitted ("coin").  The theorems of
          Proofs.v quantify over all coins.
   Times are nanoseconds since Go's zero time.Time (year 1).  Definitions only. *)
From Coq Require Import List NArith ZArith Bool Floats Uint63.
From V Require Import Lib.Check Gen.Params.
Import ListNotations.
Local Open Scope Z_scope.

Record bstate := mkBS { bs_period : Z; bs_max : Z; bs_taken : Z }.
Definition bstate_eqb (a b : bstate) : bool :=
  (bs_period a =? bs_period b) && (bs_max a =? bs_max b) && (bs_taken a =? bs_taken b).
Definition bs_zero := mkBS 0 0 0.

(* (rate limit name id, id of the remaining BucketKey fields) *)
Definition key := (N * N)%type.
Definition key_eqb (a b : key) : bool := (fst a =? fst b)%N && (snd a =? snd b)%N.

Fixpoint aget {K V} (eqb : K -> K -> bool) (k : K) (m : list (K * V)) : option V :=
  match m with
  | [] => None
  | (k', v) :: r => if eqb k k' then Some v else aget eqb k r
  end.

Definition maxd : Z := 9223372036854775807.   (* math.MaxInt64: time.Duration saturation *)
Definition mind : Z := -9223372036854775808.
Definition clampd (x : Z) : Z := if maxd <? x then maxd else if x <? mind then mind else x.
Definition two32 : Z := 4294967296.

(* ------------------------------------------------------------------ generic bucket system *)
Section Sys.
Context {L : Type}.
Variable lnew : bstate -> Z -> L.                      (* newBucket / resetToState *)
Variable lallow : bool -> L -> Z -> Z -> bool * L.     (* Limiter.allowN (coin, limiter, now, n) *)
Variable ltaken : L -> Z -> Z.                         (* recalcBuketState *)

Record sys := mkSys { s_b : list (key * (L * bstate)); s_d : list (N * bstate) }.
Definition sys0 := mkSys [] [].

Definition put_b (s : sys) (k : key) (b : L * bstate) : sys := mkSys ((k, b) :: s_b s) (s_d s).

(* bucketByKey: the bucket, created from the default state of its limit when missing *)
Definition bucket_by_key (s : sys) (now : Z) (k : key) : option (L * bstate) * sys :=
  match aget key_eqb k (s_b s) with
  | Some b => (Some b, s)
  | None =>
      match aget N.eqb (fst k) (s_d s) with
      | None => (None, s)
      | Some d => let b := (lnew d now, d) in (Some b, put_b s k b)
      end
  end.

Fixpoint give_back (s : sys) (now n : Z) (done : list key) : sys :=
  match done with
  | [] => s
  | k :: r =>
      match bucket_by_key s now k with
      | (None, s1) => give_back s1 now n r
      | (Some b, s1) => give_back (put_b s1 k (snd (lallow false (fst b) now (- n)), snd b)) now n r
      end
  end.

(* TakeTokens: coins are consumed by position in the key list *)
Fixpoint take_loop (s : sys) (now n : Z) (coins : list bool) (todo done : list key) : bool * N * sys :=
  match todo with
  | [] => (true, 0%N, s)
  | k :: r =>
      match bucket_by_key s now k with
      | (None, s1) => take_loop s1 now n (tl coins) r (done ++ [k])
      | (Some b, s1) =>
          let '(ok, l') := lallow (hd false coins) (fst b) now n in
          let s2 := put_b s1 k (l', snd b) in
          if ok then take_loop s2 now n (tl coins) r (done ++ [k])
          else (false, fst k, give_back s2 now n done)
      end
  end.
Definition take (s : sys) (now : Z) (coins : list bool) (keys : list key) (n : Z) := take_loop s now n coins keys [].

Definition get_state (s : sys) (now : Z) (k : key) : option bstate * sys :=
  match bucket_by_key s now k with
  | (None, s1) => (None, s1)
  | (Some b, s1) =>
      let st := mkBS (bs_period (snd b)) (bs_max (snd b)) (ltaken (fst b) now) in
      (Some st, put_b s1 k (fst b, st))
  end.

Definition set_state (s : sys) (now : Z) (k : key) (st : bstate) : bool * sys :=
  match bucket_by_key s now k with
  | (None, s1) => (false, s1)
  | (Some _, s1) => (true, put_b s1 k (lnew st now, st))
  end.

Definition reset_name (s : sys) (now : Z) (name : N) (st : bstate) : sys :=
  match aget N.eqb name (s_d s) with
  | None => s
  | Some _ => mkSys (map (fun e => if (fst (fst e) =? name)%N then (fst e, (lnew st now, st)) else e) (s_b s)) (s_d s)
  end.

Definition set_default (s : sys) (name : N) (st : bstate) : sys := mkSys (s_b s) ((name, st) :: s_d s).
End Sys.
Arguments sys : clear implicits.

(* The shapes pkg/iratesce had over time; the translator tells which one the source has now
   (Gen/Params.v), the functions below take the shape as parameters so that the earlier ones stay
   expressible (the ..._refuted witnesses of Properties/C19.v):
   clamp - 7348cd5bb: an interval Period/Count of 0 ns with Period >= 0 is 1 ns (before: Inf, F23);
   neg   - e448004d7: every interval <= 0 is 1 ns, negative periods included (before: Inf, NEGP);
   cap   - 4e20ebf0e: a new bucket is primed with min(TakenTokens, Count) (before: TakenTokens, F24);
   full  - ca6594b47: a new limiter starts with tokens = burst (before: 0 and the zero time, F18);
   sat   - ca6594b47: durationFromTokens returns InfDuration from 2^63 ns on (before: overflow, F18);
   ceil  - d872ef03d: GetBucketState reports ceil(burst - tokens) (before: truncation, RTRIP). *)
Definition interval_of (clamp neg : bool) (s : bstate) : Z :=
  let i := Z.quot (bs_period s) (bs_max s) in
  if neg && (i <=? 0) then 1
  else if clamp && (i =? 0) && (0 <=? bs_period s) then 1 else i.
Definition primed_of (cap : bool) (s : bstate) : Z :=
  if cap then Z.min (bs_taken s) (bs_max s) else bs_taken s.
Definition max_u32 : Z := 4294967295.

(* ------------------------------------------------------------------ F: float replica *)
Definition f_of_Z (z : Z) : float :=
  if z <? 0 then
    if z <=? mind then PrimFloat.opp (PrimFloat.mul 2 (PrimFloat.of_uint63 (Uint63.of_Z 4611686018427387904)))
    else PrimFloat.opp (PrimFloat.of_uint63 (Uint63.of_Z (- z)))
  else PrimFloat.of_uint63 (Uint63.of_Z z).

(* Go float64 -> int64 on amd64: truncation toward zero; NaN, infinities and out-of-range values
   give MinInt64 *)
Definition to_int64 (f : float) : Z :=
  match Prim2SF f with
  | S754_zero _ => 0
  | S754_finite s m e =>
      let v := match e with
               | Z0 => Zpos m
               | Zpos p => Zpos m * 2 ^ Zpos p
               | Zneg p => Zpos m / 2 ^ Zpos p
               end in
      let z := if s then - v else v in
      if (mind <=? z) && (z <=? maxd) then z else mind
  | _ => mind
  end.

Definition f_inf : float := 0x1.fffffffffffffp+1023%float.   (* math.MaxFloat64 = iratesce.Inf *)
Definition f_1e9 : float := f_of_Z 1000000000.

(* time.Duration.Seconds *)
Definition secs (d : Z) : float :=
  PrimFloat.add (f_of_Z (Z.quot d 1000000000)) (PrimFloat.div (f_of_Z (Z.rem d 1000000000)) f_1e9).

Record flim := mkFL { fl_limit : float; fl_burst : Z; fl_tokens : float; fl_last : Z }.

(* Limiter.advance *)
Definition f_advance (l : flim) (now : Z) : Z * float :=
  let last := if now <? fl_last l then now else fl_last l in
  let el := clampd (now - last) in
  let delta := if PrimFloat.leb (fl_limit l) 0 then 0%float else PrimFloat.mul (secs el) (fl_limit l) in
  let tok := PrimFloat.add (fl_tokens l) delta in
  let b := f_of_Z (fl_burst l) in
  (last, if PrimFloat.ltb b tok then b else tok).

Definition f_dur_from_tokens_gen (sat : bool) (limit tokens : float) : Z :=
  if PrimFloat.leb limit 0 then maxd
  else let nanos := PrimFloat.mul f_1e9 (PrimFloat.div tokens limit) in
       if sat && PrimFloat.leb (f_of_Z maxd) nanos then maxd else to_int64 nanos.
Definition f_dur_from_tokens := f_dur_from_tokens_gen rates_wait_saturates.

(* Limiter.reserveN as called by allowN (maxFutureReserve taken from the source) *)
Definition f_allow_gen (sat : bool) (_ : bool) (l : flim) (now n : Z) : bool * flim :=
  if PrimFloat.eqb (fl_limit l) f_inf then (true, l)
  else if PrimFloat.eqb (fl_limit l) 0 then
    if n <=? fl_burst l then (true, mkFL (fl_limit l) (fl_burst l - n) (fl_tokens l) (fl_last l)) else (false, l)
  else
    let '(last, tok0) := f_advance l now in
    let tok := PrimFloat.sub tok0 (f_of_Z n) in
    let wait := if PrimFloat.ltb tok 0 then f_dur_from_tokens_gen sat (fl_limit l) (PrimFloat.opp tok) else 0 in
    if (n <=? fl_burst l) && (wait <=? rates_max_future_reserve)
    then (true, mkFL (fl_limit l) (fl_burst l) tok now)
    else (false, mkFL (fl_limit l) (fl_burst l) (fl_tokens l) last).
Definition f_allow := f_allow_gen rates_wait_saturates.

Definition f_every (interval : Z) : float :=
  if interval <=? 0 then f_inf else PrimFloat.div 1 (secs interval).

(* bucketType.reset *)
Definition f_new_gen (clamp neg cap full sat : bool) (s : bstate) (now : Z) : flim :=
  let limit := if 0 <? bs_max s then f_every (interval_of clamp neg s) else 0%float in
  let tokens := if full then f_of_Z (bs_max s) else 0%float in
  snd (f_allow_gen sat false (mkFL limit (bs_max s) tokens 0) now (primed_of cap s)).
Definition f_new := f_new_gen rates_sub_ns_interval_clamped rates_negative_interval_clamped rates_taken_capped_at_count
                              rates_new_bucket_full rates_wait_saturates.

(* math.Ceil of a float as an integer (None: NaN; infinities saturate far outside uint32) *)
Definition f_ceil (v : float) : option Z :=
  match Prim2SF v with
  | S754_nan => None
  | S754_infinity s => Some (if s then mind else maxd)
  | _ => let z := to_int64 v in Some (if PrimFloat.ltb (f_of_Z z) v then z + 1 else z)
  end.

(* recalcBuketState: uint32(max(0, burst - tokens)), since d872ef03d rounded up and capped at MaxUint32 *)
Definition f_taken_gen (ceil : bool) (l : flim) (now : Z) : Z :=
  let v := PrimFloat.sub (f_of_Z (fl_burst l)) (snd (f_advance l now)) in
  if ceil then
    match f_ceil v with
    | None => 0
    | Some c => Z.min max_u32 (Z.max 0 c)
    end
  else
    let v := if PrimFloat.ltb v 0 then 0%float else v in
    (to_int64 v) mod two32.
Definition f_taken := f_taken_gen rates_taken_rounded_up.

(* ------------------------------------------------------------------ X: exact model with slack *)
Inductive xkind := XInf | XZero | XNorm.
Record xlim := mkXL { xk : xkind; xburst : Z; xI : Z; xc : Z; xlast : Z; xfrac : bool }.

Definition xcap (l : xlim) : Z := xburst l * xI l.

(* credit available at [now]: (last', credit, noisy) *)
Definition x_avail (l : xlim) (now : Z) : Z * Z * bool :=
  let last := Z.min now (xlast l) in
  let el := Z.min (now - last) maxd in
  let raw := xc l + el in
  (last, Z.min (xcap l) raw, if xcap l <? raw then false else xfrac l || (0 <? el)).

Definition x_allow (coin : bool) (l : xlim) (now n : Z) : bool * xlim :=
  match xk l with
  | XInf => (true, l)
  | XZero => if n <=? xburst l then (true, mkXL XZero (xburst l - n) (xI l) (xc l) (xlast l) (xfrac l)) else (false, l)
  | XNorm =>
      let '(last, c1, fr) := x_avail l now in
      let c2 := c1 - n * xI l in
      if (n <=? xburst l) && ((0 <=? c2) || (coin && fr && (c2 =? -1)))
      then (true, mkXL XNorm (xburst l) (xI l) c2 now fr)
      else (false, mkXL XNorm (xburst l) (xI l) (xc l) last (xfrac l))
  end.

Definition x_new_gen (clamp neg cap full : bool) (s : bstate) (now : Z) : xlim :=
  let i := if 0 <? bs_max s then interval_of clamp neg s else 0 in
  let k := if 0 <? bs_max s then (if i <=? 0 then XInf else XNorm) else XZero in
  snd (x_allow false (mkXL k (bs_max s) i (if full then bs_max s * i else 0) 0 false) now (primed_of cap s)).
Definition x_new := x_new_gen rates_sub_ns_interval_clamped rates_negative_interval_clamped rates_taken_capped_at_count
                              rates_new_bucket_full.

Definition x_taken_gen (ceil : bool) (l : xlim) (now : Z) : Z :=
  let report (v : Z) := if ceil then Z.min max_u32 v else v mod two32 in
  match xk l with
  | XInf => if Z.min now (xlast l) <? now then 0 else report (xburst l)
  | XZero => report (xburst l)
  | XNorm => let '(_, c1, _) := x_avail l now in
             report (if ceil then (xcap l - c1 + xI l - 1) / xI l else (xcap l - c1) / xI l)
  end.
Definition x_taken := x_taken_gen rates_taken_rounded_up.

(* single operations requested from one F limiter at one instant *)
Fixpoint f_takes_gen (sat : bool) (l : flim) (t : Z) (m : nat) : list bool :=
  match m with O => [] | S m' => let '(ok, l') := f_allow_gen sat false l t 1 in ok :: f_takes_gen sat l' t m' end.
Definition f_takes := f_takes_gen rates_wait_saturates.

Definition fsys := sys flim.
Definition xsys := sys xlim.

(* ------------------------------------------------------------------ the limiter layer
   pkg/appparts/internal/limiter: which limits of the application apply to a request and in which
   bucket each is accounted.  A limit's filter is data here (the resources it matches). *)
Record limit := mkLimit { l_name : N; l_ops : list N; l_each : bool; l_ws : bool; l_ip : bool;
                          l_matches : list N; l_period : Z; l_count : Z }.
Record request := mkReq { r_res : N; r_op : N; r_ws : N; r_addr : N }.
Definition mem_N (x : N) (l : list N) : bool := existsb (N.eqb x) l.
Definition applies (q : request) (l : limit) : bool := mem_N (r_res q) (l_matches l) && mem_N (r_op q) (l_ops l).
(* the limits that cover (resource, operation), in the order of the application's limit list *)
Definition limits_for (ls : list limit) (q : request) : list limit := filter (applies q) ls.
Definition rest_id (ws addr res : N) : N := (1000000 + ws * 10000 + addr * 100 + res)%N.
(* BucketKey: workspace / address only for rates of that scope, the resource only for EACH *)
Definition key_of (q : request) (l : limit) : key :=
  (l_name l, rest_id (if l_ws l then r_ws q else 0%N) (if l_ip l then r_addr q else 0%N) (if l_each l then r_res q else 0%N)).
Definition req_keys (ls : list limit) (q : request) : list key := map (key_of q) (limits_for ls q).
Definition limit_default (l : limit) : bstate := mkBS (l_period l) (l_count l) 0.

(* ------------------------------------------------------------------ traces *)
Inductive op :=
| OSetDefault (name : N) (s : bstate)
| OTake (keys : list key) (n : Z) (ok : bool) (exc : N)      (* exc = 0: NullQName *)
| OGet (k : key) (found : bool) (s : bstate)
| OSet (k : key) (s : bstate) (found : bool)
| OReset (name : N) (s : bstate)
(* through the limiter (IAppPartition.IsLimitExceeded / ResetRateLimit); lowered before replay *)
| OExceeded (q : request) (exceeded : bool) (exc : N)
| OResetLimits (q : request).
Inductive ev := Ev (t : Z) (o : op).
(* tr_xdiff: number of observables outside the X model, as counted by the harness' port of X *)
Record trace := mkTrace { tr_xdiff : N; tr_limits : list limit; tr_evs : list ev }.

(* Limiter.init registers every limit's rate as default state; Exceeded is one TakeTokens(keys, 1)
   over the applicable limits (no call at all when there is none); ResetLimits sets each applicable
   bucket to its default state.  None: a request without applicable limit was reported exceeded. *)
Fixpoint lower (ls : list limit) (l : list ev) : option (list ev) :=
  match l with
  | [] => Some []
  | Ev t o :: r =>
      match lower ls r with
      | None => None
      | Some r' =>
          match o with
          | OExceeded q ex exc =>
              match req_keys ls q with
              | [] => if ex || negb (exc =? 0)%N then None else Some r'
              | keys => Some (Ev t (OTake keys 1 (negb ex) exc) :: r')
              end
          | OResetLimits q => Some (map (fun lm => Ev t (OSet (key_of q lm) (limit_default lm) true)) (limits_for ls q) ++ r')
          | _ => Some (Ev t o :: r')
          end
      end
  end.
Definition lowered (t : trace) : option (list ev) :=
  match lower (tr_limits t) (tr_evs t) with
  | None => None
  | Some r => Some (map (fun lm => Ev 0 (OSetDefault (l_name lm) (limit_default lm))) (tr_limits t) ++ r)
  end.

Definition opt_state (o : option bstate) : bool * bstate :=
  match o with Some s => (true, s) | None => (false, bs_zero) end.

(* replay on F; every observable must be equal *)
Fixpoint f_replay (s : fsys) (l : list ev) : bool :=
  match l with
  | [] => true
  | Ev t o :: r =>
      match o with
      | OSetDefault name st => f_replay (set_default s name st) r
      | OTake keys n ok exc =>
          let '(ok', exc', s') := take f_new f_allow s t [] keys n in
          Bool.eqb ok ok' && (exc =? exc')%N && f_replay s' r
      | OGet k found st =>
          let '(o', s') := get_state f_new f_taken s t k in
          let '(found', st') := opt_state o' in
          Bool.eqb found found' && bstate_eqb st st' && f_replay s' r
      | OSet k st found =>
          let '(found', s') := set_state f_new s t k st in
          Bool.eqb found found' && f_replay s' r
      | OReset name st => f_replay (reset_name f_new s t name st) r
      | _ => f_replay s r
      end
  end.

(* all coin vectors of a given length, the strict one (all false) first *)
Fixpoint coin_vectors (n : nat) : list (list bool) :=
  match n with
  | O => [[]]
  | S m => map (cons false) (coin_vectors m) ++ map (cons true) (coin_vectors m)
  end.
Definition candidates (len : nat) : list (list bool) :=
  if Nat.leb len 3 then coin_vectors len else [repeat false len; repeat true len].

Fixpoint first_match (s : xsys) (t : Z) (keys : list key) (n : Z) (ok : bool) (exc : N) (cs : list (list bool)) : option xsys :=
  match cs with
  | [] => None
  | c :: r =>
      let '(ok', exc', s') := take x_new x_allow s t c keys n in
      if Bool.eqb ok ok' && (exc =? exc')%N then Some s' else first_match s t keys n ok exc r
  end.

(* follow the observed history on X; count the observables no behaviour of X explains *)
Fixpoint x_follow (s : xsys) (l : list ev) : N :=
  match l with
  | [] => 0%N
  | Ev t o :: r =>
      match o with
      | OSetDefault name st => x_follow (set_default s name st) r
      | OTake keys n ok exc =>
          match first_match s t keys n ok exc (candidates (length keys)) with
          | Some s' => x_follow s' r
          | None => (1 + x_follow (snd (take x_new x_allow s t [] keys n)) r)%N
          end
      | OGet k found st =>
          let '(o', s') := get_state x_new x_taken s t k in
          let '(found', st') := opt_state o' in
          let same := Bool.eqb found found' && (bs_period st =? bs_period st') && (bs_max st =? bs_max st')
                      && (Z.abs (bs_taken st - bs_taken st') <=? 1) in
          ((if same then 0 else 1) + x_follow s' r)%N
      | OSet k st found =>
          let '(found', s') := set_state x_new s t k st in
          ((if Bool.eqb found found' then 0 else 1) + x_follow s' r)%N
      | OReset name st => x_follow (reset_name x_new s t name st) r
      | _ => x_follow s r
      end
  end.

Definition agrees (t : trace) : bool :=
  match lowered t with
  | None => false
  | Some evs => f_replay (sys0 (L:=flim)) evs && (x_follow (sys0 (L:=xlim)) evs =? tr_xdiff t)%N
  end.

(* ------------------------------------------------------------------ the property oracle
   Judges the statement on the observed outputs only.  Per bucket it keeps the configuration in
   force, the admissions since the last override, and - only where the statement fixes it - the
   exact capacity (a fresh/reset bucket at the instant of its creation, and a full bucket while
   idle).  A bucket whose configuration cannot be known from the outputs (it may or may not have
   been created by a refused multi-limit request; it was handed a negative amount) is not judged
   until its next SetBucketState. *)
Inductive ckind := CZero | CUnl | CNorm (i : Z).
Definition ckind_of (s : bstate) : ckind :=
  if bs_max s =? 0 then CZero
  else CNorm (Z.max 1 (Z.quot (bs_period s) (bs_max s))).
(* N >= 1 operations per period P < N (also P = 0 and negative P, which is what a period too long
   for time.Duration wraps to) declare more than one operation per ns or nothing at all; the
   statement's bound divides by P/N = 0 there.  Such a bucket is judged as the tightest bucket
   that never exceeds the declared rate: interval 1 ns (window bound N + T + 1 <= N + T*N/P + 1),
   exactly N at once when fresh, at most N at one instant.  (The code made it unlimited until
   7348cd5bb - finding F23, fixed.) *)

Record orec := mkO { o_known : bool; o_cfg : bstate; o_at : Z; o_avail : option Z;
                     o_adm : list (Z * Z); o_get : option (Z * Z) }.
Record ostate := mkOS { os_b : list (key * orec); os_d : list (N * bstate) }.

Definition o_fresh (s : bstate) (t : Z) : orec :=
  let av := match ckind_of s with
            | CNorm _ => if maxd <=? t then Some (Z.max 0 (bs_max s - bs_taken s)) else None
            | _ => None
            end in
  mkO true s t av [] None.

Definition o_unknown (r : orec) : orec := mkO false (o_cfg r) (o_at r) None [] None.

(* moving to instant t: only a full bucket keeps a known capacity *)
Definition o_touch (t : Z) (r : orec) : orec :=
  if t =? o_at r then r
  else if t <? o_at r then o_unknown r
  else mkO (o_known r) (o_cfg r) t
           (match o_avail r with Some a => if a =? bs_max (o_cfg r) then Some a else None | None => None end)
           (o_adm r) None.

Definition o_put (s : ostate) (k : key) (r : orec) : ostate := mkOS ((k, r) :: os_b s) (os_d s).

Definition o_bucket (s : ostate) (t : Z) (k : key) : option orec * ostate :=
  match aget key_eqb k (os_b s) with
  | Some r => let r' := o_touch t r in (Some r', o_put s k r')
  | None =>
      match aget N.eqb (fst k) (os_d s) with
      | None => (None, s)
      | Some d => let r := o_fresh d t in (Some r, o_put s k r)
      end
  end.

(* windows ending at the newest admission: sums of the admitted amounts, newest first *)
Fixpoint windows_ok (nmax i t : Z) (adm : list (Z * Z)) (sum : Z) : bool :=
  match adm with
  | [] => true
  | (tj, a) :: r =>
      let s := sum + a in
      ((i =? 0) || (s <=? nmax + (t - tj) / i + 1)) && (if tj =? t then s <=? nmax else true) && windows_ok nmax i t r s
  end.

(* an admitted request of n charged to one bucket; None = the statement is violated *)
Definition o_charge (r : orec) (t n : Z) : option orec :=
  if negb (o_known r) then Some r
  else match ckind_of (o_cfg r) with
  | CZero => if 1 <=? n then None else Some r
  | CUnl => Some r
  | CNorm i =>
      if n =? 0 then Some r else
      let adm := (t, n) :: o_adm r in
      let av := match o_avail r with Some a => if n <=? a then Some (Some (a - n)) else None | None => Some None end in
      let g := match o_get r with
               | Some (g, m) => if m + n <=? bs_max (o_cfg r) - g + 1 then Some (Some (g, m + n)) else None
               | None => Some None
               end in
      match av, g with
      | Some av', Some g' => if windows_ok (bs_max (o_cfg r)) i t adm 0 then Some (mkO true (o_cfg r) t av' adm g') else None
      | _, _ => None
      end
  end.

Fixpoint o_charge_all (s : ostate) (t n : Z) (keys : list key) : option ostate :=
  match keys with
  | [] => Some s
  | k :: r =>
      match aget key_eqb k (os_b s) with
      | None => o_charge_all s t n r
      | Some rec => match o_charge (o_touch t rec) t n with
                    | None => None
                    | Some rec' => o_charge_all (o_put s k rec') t n r
                    end
      end
  end.

Inductive pred := GiveUp | Expect (refusing : N).

(* the decision the statement fixes, when the capacity of every bucket involved is known exactly *)
Fixpoint o_walk (s : ostate) (t n : Z) (keys : list key) : pred :=
  match keys with
  | [] => Expect 0%N
  | k :: r =>
      match aget key_eqb k (os_b s) with
      | None => o_walk s t n r
      | Some rec0 =>
          let rec := o_touch t rec0 in
          if negb (o_known rec) then GiveUp
          else match ckind_of (o_cfg rec) with
          | CZero => if 1 <=? n then Expect (fst k) else o_walk s t n r
          | CUnl => o_walk s t n r
          | CNorm _ =>
              match o_avail rec with
              | None => GiveUp
              | Some a =>
                  if n <=? a
                  then o_walk (o_put s k (mkO true (o_cfg rec) t (Some (a - n)) (o_adm rec) (o_get rec))) t n r
                  else Expect (fst k)
              end
          end
      end
  end.

Fixpoint split_at_name (name : N) (keys : list key) : option (list key * list key) :=
  match keys with
  | [] => None
  | k :: r => if (fst k =? name)%N then Some ([k], r)
              else match split_at_name name r with Some (a, b) => Some (k :: a, b) | None => None end
  end.

Fixpoint o_visit (s : ostate) (t : Z) (keys : list key) : ostate :=
  match keys with [] => s | k :: r => o_visit (snd (o_bucket s t k)) t r end.

(* keys after the refusing one: not visited, unless an earlier key of the same name refused *)
Fixpoint o_maybe (s : ostate) (t : Z) (keys : list key) : ostate :=
  match keys with
  | [] => s
  | k :: r =>
      match aget key_eqb k (os_b s), aget N.eqb (fst k) (os_d s) with
      | None, Some d => o_maybe (o_put s k (o_unknown (o_fresh d t))) t r
      | _, _ => o_maybe s t r
      end
  end.

Fixpoint o_forget (s : ostate) (keys : list key) : ostate :=
  match keys with
  | [] => s
  | k :: r => match aget key_eqb k (os_b s) with
              | Some rec => o_forget (o_put s k (o_unknown rec)) r
              | None => o_forget s r
              end
  end.

Definition o_step (s : ostate) (e : ev) : option ostate :=
  let 'Ev t o := e in
  match o with
  | OSetDefault name st => Some (mkOS (os_b s) ((name, st) :: os_d s))
  | OTake keys n ok exc =>
      match (if ok then Some (keys, []) else split_at_name exc keys) with
      | None => None                       (* refused, but by no limit of the request *)
      | Some (visited, rest) =>
          let s1 := o_maybe (o_visit s t visited) t rest in
          if n <? 0 then Some (o_forget s1 keys)
          else
            let decided := match o_walk s1 t n keys with
                           | GiveUp => true
                           | Expect e => Bool.eqb ok (e =? 0)%N && (exc =? e)%N
                           end in
            if negb decided then None
            else if ok then o_charge_all s1 t n visited else Some s1
      end
  | OGet k found st =>
      match o_bucket s t k with
      | (None, s1) => if found then None else Some s1
      | (Some r, s1) =>
          if negb found then None
          else if negb (o_known r) then Some s1
          else
            let cfg_ok := (bs_period st =? bs_period (o_cfg r)) && (bs_max st =? bs_max (o_cfg r)) in
            let av_ok := match ckind_of (o_cfg r), o_avail r with
                         | CNorm _, Some a => bs_taken st =? bs_max (o_cfg r) - a
                         | _, _ => true
                         end in
            let get_ok := match ckind_of (o_cfg r), o_get r with
                          | CNorm _, Some (g, m) => if m =? 0 then bs_taken st =? g else Z.abs (bs_taken st - (g + m)) <=? 1
                          | _, _ => true
                          end in
            if cfg_ok && av_ok && get_ok
            then Some (o_put s1 k (mkO true (o_cfg r) t (o_avail r) (o_adm r) (Some (bs_taken st, 0))))
            else None
      end
  | OSet k st found =>
      let exists_ := match aget key_eqb k (os_b s), aget N.eqb (fst k) (os_d s) with None, None => false | _, _ => true end in
      if negb (Bool.eqb found exists_) then None
      else if negb found then Some s
      else
        (* writing back the state GetBucketState has just reported is no override: the bucket's
           history goes on (its windows are not restarted); it holds exactly N - taken *)
        let identity := match aget key_eqb k (os_b s) with
                        | Some r0 =>
                            let r := o_touch t r0 in
                            match o_get r with
                            | Some (g, m) =>
                                if o_known r && (m =? 0) && (bs_taken st =? g) && (bs_period st =? bs_period (o_cfg r))
                                   && (bs_max st =? bs_max (o_cfg r))
                                then Some (mkO true (o_cfg r) t (o_avail (o_fresh st t)) (o_adm r) (Some (g, 0)))
                                else None
                            | None => None
                            end
                        | None => None
                        end in
        match identity with
        | Some r => Some (o_put s k r)
        | None => Some (o_put s k (o_fresh st t))
        end
  | OReset name st =>
      match aget N.eqb name (os_d s) with
      | None => Some s
      | Some _ => Some (mkOS (map (fun e => if (fst (fst e) =? name)%N && o_known (snd e) then (fst e, o_fresh st t) else e) (os_b s)) (os_d s))
      end
  | _ => Some s
  end.

Fixpoint o_run (s : ostate) (l : list ev) : bool :=
  match l with
  | [] => true
  | e :: r => match o_step s e with None => false | Some s' => o_run s' r end
  end.

Definition satisfies (t : trace) : bool :=
  match lowered t with
  | None => false
  | Some evs => o_run (mkOS [] []) evs
  end.

(* ------------------------------------------------------------------ histories on X
   (what the theorems of Properties/C19.v quantify over) *)
Definition xtake := take x_new x_allow.
Definition xget := get_state x_new x_taken.
Definition xset := set_state x_new.
Definition xreset := reset_name x_new.

Inductive xin :=
| ITake (coins : list bool) (keys : list key) (n : Z)
| IGet (k : key)
| ISet (k : key) (s : bstate)
| IReset (name : N) (s : bstate)
| ISetDefault (name : N) (s : bstate).

Definition xstep (s : xsys) (t : Z) (i : xin) : xsys :=
  match i with
  | ITake c keys n => snd (xtake s t c keys n)
  | IGet k => snd (xget s t k)
  | ISet k st => snd (xset s t k st)
  | IReset name st => xreset s t name st
  | ISetDefault name st => set_default s name st
  end.

Fixpoint xrun (s : xsys) (h : list (Z * xin)) : xsys :=
  match h with [] => s | (t, i) :: r => xrun (xstep s t i) r end.

Definition count_key (k : key) (keys : list key) : Z := Z.of_nat (length (filter (key_eqb k) keys)).

(* operations admitted for bucket k by one step / by a history *)
Definition step_admitted (k : key) (s : xsys) (t : Z) (i : xin) : Z :=
  match i with
  | ITake c keys n => if fst (fst (xtake s t c keys n)) then n * count_key k keys else 0
  | _ => 0
  end.

Fixpoint admitted (k : key) (s : xsys) (h : list (Z * xin)) : Z :=
  match h with [] => 0 | (t, i) :: r => step_admitted k s t i + admitted k (xstep s t i) r end.

(* the step replaces bucket k's configuration (SetBucketState on k, ResetRateBuckets of its limit) *)
Definition overrides (k : key) (i : xin) : bool :=
  match i with
  | ISet k' _ => key_eqb k k'
  | IReset name _ => (fst k =? name)%N
  | _ => false
  end.

(* the step hands bucket k to the limiter at all *)
Definition touches (k : key) (i : xin) : bool :=
  match i with
  | ITake _ keys _ => existsb (key_eqb k) keys
  | IGet k' => key_eqb k k'
  | ISet k' _ => key_eqb k k'
  | IReset name _ => (fst k =? name)%N
  | ISetDefault _ _ => false
  end.

Definition nonneg_in (i : xin) : Prop := match i with ITake _ _ n => 0 <= n | _ => True end.

(* a history on a monotone clock inside the window [t0, t1] *)
Fixpoint timeline (t0 : Z) (h : list (Z * xin)) (t1 : Z) : Prop :=
  match h with [] => t0 <= t1 | (t, _) :: r => t0 <= t /\ timeline t r t1 end.

(* stated domain: a period of at most MaxInt64 - 2 ns: the Duration saturation then cannot be told
   from exact time (the two periods above are served correctly by the code since ca6594b47, but
   the exact model marks a bucket of credit MaxInt64 as noisy) *)
Definition capmax : Z := 9223372036854775805.
Definition lim_ok (l : xlim) : Prop := 1 <= xI l /\ 0 <= xburst l /\ -1 <= xc l /\ xcap l <= capmax.

(* credit (ns) the bucket holds at time t >= xlast: what every later decision depends on *)
Definition pot (l : xlim) (t : Z) : Z := Z.min (xcap l) (xc l + Z.min (t - xlast l) maxd).

Definition has_bucket (s : xsys) (k : key) (l : xlim) : Prop :=
  exists st, aget key_eqb k (s_b s) = Some (l, st).

(* two limiter states that no later request can tell apart (from time t on) *)
Definition lim_equiv (t : Z) (a b : xlim) : Prop :=
  xk a = xk b /\ xburst a = xburst b /\ xI a = xI b /\ xlast a <= t /\ xlast b <= t /\
  match xk a with
  | XNorm => forall t', t <= t' -> snd (fst (x_avail a t')) = snd (fst (x_avail b t')) /\ snd (x_avail a t') = snd (x_avail b t')
  | _ => a = b
  end.

(* a request for one operation repeated at one instant, one coin list per request *)
Fixpoint take_seq (s : xsys) (t : Z) (k : key) (cs : list (list bool)) : list bool :=
  match cs with
  | [] => []
  | c :: r => let '(ok, _, s') := xtake s t c [k] 1 in ok :: take_seq s' t k r
  end.

(* ------------------------------------------------------------------ requests through the limiter on X *)
Definition xexceeded (s : xsys) (t : Z) (coins : list bool) (ls : list limit) (q : request) : bool * N * xsys :=
  match req_keys ls q with
  | [] => (false, 0%N, s)
  | keys => let '(ok, exc, s') := xtake s t coins keys 1 in (negb ok, exc, s')
  end.

(* would the bucket of key k (created from its default when missing; none: no limit) admit n now *)
Definition bucket_admits (coin : bool) (s : xsys) (t : Z) (k : key) (n : Z) : bool :=
  match fst (bucket_by_key x_new s t k) with
  | None => true
  | Some b => fst (x_allow coin (fst b) t n)
  end.

Fixpoint all_admit (s : xsys) (t n : Z) (coins : list bool) (keys : list key) : bool :=
  match keys with
  | [] => true
  | k :: r => bucket_admits (hd false coins) s t k n && all_admit s t n (tl coins) r
  end.
