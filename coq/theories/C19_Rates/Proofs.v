(* C19 - proofs about the exact token-bucket model X (all coins, all histories). *)
From Coq Require Import List NArith ZArith Lia Bool ZifyBool.
From V Require Import C19_Rates.Model.
Import ListNotations.
Local Open Scope Z_scope.

(* ---------- keys and association lists ---------- *)
Lemma key_eqb_eq a b : key_eqb a b = true <-> a = b.
Proof.
  destruct a as [a1 a2], b as [b1 b2]; unfold key_eqb; cbn.
  rewrite andb_true_iff, !N.eqb_eq. split; [intros [-> ->]; reflexivity | intros E; inversion E; auto].
Qed.
Lemma key_eqb_refl a : key_eqb a a = true.
Proof. apply key_eqb_eq; reflexivity. Qed.
Lemma key_eqb_sym a b : key_eqb a b = key_eqb b a.
Proof.
  destruct (key_eqb a b) eqn:E.
  - apply key_eqb_eq in E; subst; symmetry; apply key_eqb_refl.
  - destruct (key_eqb b a) eqn:E'; auto. apply key_eqb_eq in E'; subst. rewrite key_eqb_refl in E; discriminate.
Qed.

Lemma count_key_nil k : count_key k [] = 0.
Proof. reflexivity. Qed.
Lemma count_key_cons k k' r : count_key k (k' :: r) = (if key_eqb k k' then 1 else 0) + count_key k r.
Proof. unfold count_key; cbn. destruct (key_eqb k k'); cbn [length]; lia. Qed.
Lemma count_key_app k a b : count_key k (a ++ b) = count_key k a + count_key k b.
Proof. unfold count_key. rewrite filter_app, app_length. lia. Qed.
Lemma count_key_nonneg k l : 0 <= count_key k l.
Proof. unfold count_key; lia. Qed.
Lemma count_key_zero k l : existsb (key_eqb k) l = false -> count_key k l = 0.
Proof.
  induction l as [|x l IH]; cbn; auto. intros H. apply orb_false_iff in H. destruct H as [H1 H2].
  rewrite count_key_cons, H1, IH; auto.
Qed.

(* ---------- the limiter: potential (credit at time t) ---------- *)
Lemma xcap_nonneg l : lim_ok l -> 0 <= xcap l.
Proof. unfold lim_ok, xcap. intros (H1 & H2 & _). nia. Qed.

Lemma pot_le_cap l t : pot l t <= xcap l.
Proof. unfold pot. lia. Qed.

Lemma pot_lower l t : lim_ok l -> xlast l <= t -> -1 <= pot l t.
Proof. intros H L. pose proof (xcap_nonneg l H). destruct H as (_ & _ & H & _). unfold pot, maxd. lia. Qed.

Lemma pot_step l t t' : xlast l <= t -> t <= t' -> pot l t <= pot l t' <= pot l t + (t' - t).
Proof. unfold pot. lia. Qed.

Lemma x_avail_eq l t : xlast l <= t ->
  x_avail l t = (xlast l, pot l t,
                 if xcap l <? xc l + Z.min (t - xlast l) maxd then false else xfrac l || (0 <? Z.min (t - xlast l) maxd)).
Proof. intros H. unfold x_avail, pot. rewrite (Z.min_r t (xlast l)) by lia. reflexivity. Qed.

(* the limiter as it stands after a visit at time t, d ns of credit below what it held at t *)
Definition lifted (l : xlim) (t d : Z) : xlim :=
  mkXL XNorm (xburst l) (xI l) (pot l t - d) t (snd (x_avail l t)).

Lemma xcap_lifted l t d : xcap (lifted l t d) = xcap l.
Proof. reflexivity. Qed.

Lemma lifted_avail l t d : 0 <= d -> x_avail (lifted l t d) t = (t, pot l t - d, snd (x_avail l t)).
Proof.
  intros Hd. unfold x_avail at 1. rewrite xcap_lifted. cbn [lifted xlast xc xfrac].
  rewrite Z.min_id, Z.sub_diag. change (Z.min 0 maxd) with 0. rewrite Z.add_0_r.
  pose proof (pot_le_cap l t).
  rewrite Z.min_r by lia.
  replace (xcap l <? pot l t - d) with false by lia.
  rewrite orb_false_r. reflexivity.
Qed.

Lemma lifted_pot l t d : 0 <= d -> pot (lifted l t d) t = pot l t - d.
Proof.
  intros Hd. unfold pot at 1. rewrite xcap_lifted. cbn [lifted xlast xc].
  rewrite Z.sub_diag. change (Z.min 0 maxd) with 0. pose proof (pot_le_cap l t). lia.
Qed.

Lemma lifted_ok l t d : lim_ok l -> 0 <= d -> -1 <= pot l t - d -> lim_ok (lifted l t d).
Proof. unfold lim_ok, lifted, xcap; cbn. intuition. Qed.

Lemma rebuild l : xk l = XNorm -> mkXL XNorm (xburst l) (xI l) (xc l) (xlast l) (xfrac l) = l.
Proof. destruct l; cbn; intros ->; reflexivity. Qed.

Lemma ok_cond n b X (coin fr : bool) :
  (n <=? b) && ((0 <=? X) || (coin && fr && (X =? -1))) = true -> -1 <= X /\ n <= b.
Proof. intros H. apply andb_prop in H. destruct H as [H1 H2]. apply orb_prop in H2. destruct coin, fr; cbn in H2; lia. Qed.

(* a visit of an untouched limiter *)
Lemma allow_untouched coin l t n : xk l = XNorm -> xlast l <= t ->
  x_allow coin l t n = (true, lifted l t (n * xI l)) /\ -1 <= pot l t - n * xI l
  \/ x_allow coin l t n = (false, l).
Proof.
  intros K L. unfold x_allow. rewrite K, (x_avail_eq l t L).
  destruct ((n <=? xburst l) && ((0 <=? pot l t - n * xI l) || (coin && _ && (pot l t - n * xI l =? -1)))) eqn:E.
  - left. split; [|apply ok_cond in E; lia]. unfold lifted. rewrite (x_avail_eq l t L). reflexivity.
  - right. rewrite rebuild; auto.
Qed.

(* a visit of a limiter already lifted at this instant *)
Lemma allow_lifted coin l t d n : 0 <= d ->
  x_allow coin (lifted l t d) t n = (true, lifted l t (d + n * xI l)) /\ -1 <= pot l t - (d + n * xI l)
  \/ x_allow coin (lifted l t d) t n = (false, lifted l t d).
Proof.
  intros Hd. unfold x_allow. cbn [xk lifted]. fold (lifted l t d). rewrite (lifted_avail l t d Hd).
  cbn [xburst xI xc xlast xfrac lifted].
  destruct ((n <=? xburst l) && ((0 <=? pot l t - d - n * xI l) || (coin && _ && (pot l t - d - n * xI l =? -1)))) eqn:E.
  - left. split; [|apply ok_cond in E; lia]. unfold lifted. replace (pot l t - d - n * xI l) with (pot l t - (d + n * xI l)) by lia. reflexivity.
  - right. reflexivity.
Qed.

(* giving back m*I to a lifted limiter always lands on the lifted form d - m*I *)
Lemma giveback_lifted l t d m : lim_ok l -> 0 <= m -> m * xI l <= d -> -1 <= pot l t - d ->
  snd (x_allow false (lifted l t d) t (- m)) = lifted l t (d - m * xI l).
Proof.
  intros H Hm Hd Hp. assert (0 <= d) by (destruct H; nia).
  destruct (allow_lifted false l t d (- m)) as [[E _]|E]; auto; rewrite E; cbn [snd].
  - f_equal. lia.
  - (* refused: only when nothing is handed back *)
    unfold x_allow in E. cbn [xk lifted] in E. fold (lifted l t d) in E. rewrite (lifted_avail l t d) in E by auto.
    cbn [xburst xI xc xlast xfrac lifted] in E.
    destruct H as (H1 & H2 & H3 & H4).
    destruct ((- m <=? xburst l) && ((0 <=? pot l t - d - - m * xI l) || (false && _ && _))) eqn:E'.
    + discriminate.
    + assert (m * xI l = 0) by nia. f_equal. lia.
Qed.

(* ---------- frames of the bucket map ---------- *)
Definition bk (s : xsys) (k : key) := aget key_eqb k (s_b s).

Lemma bk_put s k k' b : bk (put_b s k' b) k = if key_eqb k k' then Some b else bk s k.
Proof. reflexivity. Qed.

Lemma bbk_hit s t k b : bk s k = Some b -> bucket_by_key x_new s t k = (Some b, s).
Proof. unfold bk, bucket_by_key. intros ->. reflexivity. Qed.

Lemma bbk_other s t k k' : key_eqb k k' = false -> bk (snd (bucket_by_key x_new s t k')) k = bk s k.
Proof.
  intros N. unfold bucket_by_key. destruct (aget key_eqb k' (s_b s)); cbn [snd]; auto.
  destruct (aget N.eqb (fst k') (s_d s)); cbn [snd]; auto. rewrite bk_put, N. reflexivity.
Qed.

Lemma bbk_defaults s t k : s_d (snd (bucket_by_key x_new s t k)) = s_d s.
Proof.
  unfold bucket_by_key. destruct (aget key_eqb k (s_b s)); cbn; auto.
  destruct (aget N.eqb (fst k) (s_d s)); cbn; auto.
Qed.

(* ---------- TakeTokens seen from one bucket k ---------- *)
Section OneBucket.
Variables (k : key) (l : xlim) (t n : Z).
Hypothesis K : xk l = XNorm.
Hypothesis OK : lim_ok l.
Hypothesis L : xlast l <= t.
Hypothesis Nn : 0 <= n.

Local Notation a := (n * xI l).

(* bucket k is either untouched (and then no visit of it has been recorded) or lifted by exactly
   the amount taken so far *)
Definition shape (s : xsys) (cnt : Z) : Prop :=
  exists st, (cnt = 0 /\ bk s k = Some (l, st))
          \/ (bk s k = Some (lifted l t (cnt * a), st) /\ -1 <= pot l t - cnt * a).

Lemma a_nonneg : 0 <= a.
Proof. destruct OK. nia. Qed.

Lemma shape_put_other s cnt k' b : key_eqb k k' = false -> shape s cnt -> shape (put_b s k' b) cnt.
Proof. intros N [st H]. exists st. rewrite !bk_put, N. exact H. Qed.

Lemma shape_bbk_other s cnt k' : key_eqb k k' = false -> shape s cnt -> shape (snd (bucket_by_key x_new s t k')) cnt.
Proof. intros N [st H]. exists st. rewrite !bbk_other by exact N. exact H. Qed.

Lemma give_back_shape done : forall s cnt, 0 <= cnt -> count_key k done <= cnt -> shape s cnt ->
  shape (give_back x_new x_allow s t n done) (cnt - count_key k done).
Proof.
  pose proof a_nonneg as Ha.
  induction done as [|k' r IH]; intros s cnt Hc Hle Hs.
  - rewrite count_key_nil, Z.sub_0_r. exact Hs.
  - rewrite count_key_cons in Hle. cbn [give_back].
    destruct (key_eqb k k') eqn:E.
    + apply key_eqb_eq in E; subst k'.
      pose proof (count_key_nonneg k r).
      destruct Hs as [st [[Hz Hb]|[Hb Hp]]]; [lia|].
      rewrite (bbk_hit s t k _ Hb). cbn [fst snd].
      rewrite (giveback_lifted l t (cnt * a) n) by (auto; nia).
      replace (cnt * a - n * xI l) with ((cnt - 1) * a) by lia.
      rewrite count_key_cons, key_eqb_refl.
      replace (cnt - (1 + count_key k r)) with ((cnt - 1) - count_key k r) by lia.
      apply IH; try lia; auto.
      exists st. right. rewrite bk_put, key_eqb_refl. split; auto. nia.
    + rewrite count_key_cons, E, Z.add_0_l.
      destruct (bucket_by_key x_new s t k') as [[b|] s1] eqn:B.
      * apply IH; auto; try lia. apply shape_put_other; auto.
        replace s1 with (snd (bucket_by_key x_new s t k')) by (rewrite B; reflexivity).
        apply shape_bbk_other; auto.
      * apply IH; auto; try lia.
        replace s1 with (snd (bucket_by_key x_new s t k')) by (rewrite B; reflexivity).
        apply shape_bbk_other; auto.
Qed.

Lemma shape_bucket s cnt : 0 <= cnt -> shape s cnt ->
  exists lk st, bk s k = Some (lk, st) /\ xk lk = XNorm /\ xburst lk = xburst l /\ xI lk = xI l /\ lim_ok lk /\ xlast lk <= t
                /\ pot lk t = pot l t - cnt * a.
Proof.
  pose proof a_nonneg as Ha.
  intros Hc [st [[-> Hb]|[Hb Hp]]].
  - exists l, st. repeat split; auto; try apply OK. lia.
  - assert (0 <= cnt * a) by nia.
    exists (lifted l t (cnt * a)), st.
    split; [exact Hb|]. split; [reflexivity|]. split; [reflexivity|]. split; [reflexivity|].
    split; [apply lifted_ok; auto|]. split; [cbn; lia|]. apply lifted_pot; auto.
Qed.

Lemma take_loop_shape todo : forall s done coins ok exc s' cnt,
  take_loop x_new x_allow s t n coins todo done = (ok, exc, s') ->
  cnt = count_key k done -> shape s cnt ->
  shape s' (if ok then cnt + count_key k todo else 0).
Proof.
  pose proof a_nonneg as Ha.
  induction todo as [|k' r IH]; intros s done coins ok exc s' cnt E Hc Hs.
  - cbn in E. inversion E; subst. rewrite count_key_nil, Z.add_0_r. exact Hs.
  - pose proof (count_key_nonneg k done) as Hd.
    cbn [take_loop] in E. destruct (key_eqb k k') eqn:EK.
    + apply key_eqb_eq in EK; subst k'. rewrite count_key_cons, key_eqb_refl.
      destruct Hs as [st [[Hz Hb]|[Hb Hp]]].
      * rewrite (bbk_hit s t k _ Hb) in E. cbn [fst snd] in E.
        destruct (allow_untouched (hd false coins) l t n K L) as [[EA HA]|EA]; rewrite EA in E.
        -- eapply IH in E; [|reflexivity|].
           ++ rewrite count_key_app, count_key_cons, key_eqb_refl, count_key_nil in E.
              destruct ok; auto. replace (cnt + (1 + count_key k r)) with (count_key k done + (1 + 0) + count_key k r) by lia. exact E.
           ++ exists st. right. rewrite bk_put, key_eqb_refl, count_key_app, count_key_cons, key_eqb_refl, count_key_nil.
              replace ((count_key k done + (1 + 0)) * a) with a by nia. split; auto.
        -- inversion E; subst ok exc s'. clear E.
           replace 0 with (0 - count_key k done) by lia.
           apply give_back_shape; try lia. exists st. left. rewrite bk_put, key_eqb_refl. auto.
      * rewrite (bbk_hit s t k _ Hb) in E. cbn [fst snd] in E.
        destruct (allow_lifted (hd false coins) l t (cnt * a) n) as [[EA HA]|EA]; [nia| |]; rewrite EA in E.
        -- eapply IH in E; [|reflexivity|].
           ++ rewrite count_key_app, count_key_cons, key_eqb_refl, count_key_nil in E.
              destruct ok; auto. replace (cnt + (1 + count_key k r)) with (count_key k done + (1 + 0) + count_key k r) by lia. exact E.
           ++ exists st. right. rewrite bk_put, key_eqb_refl, count_key_app, count_key_cons, key_eqb_refl, count_key_nil.
              replace ((count_key k done + (1 + 0)) * a) with (cnt * a + a) by nia. split; auto.
        -- inversion E; subst ok exc s'. clear E.
           replace 0 with (cnt - count_key k done) by lia.
           apply give_back_shape; try lia. exists st. right. rewrite bk_put, key_eqb_refl. auto.
    + rewrite count_key_cons, EK, Z.add_0_l.
      assert (Hs1 : shape (snd (bucket_by_key x_new s t k')) cnt) by (apply shape_bbk_other; auto).
      destruct (bucket_by_key x_new s t k') as [[b|] s1]; cbn [snd] in Hs1.
      * destruct (x_allow (hd false coins) (fst b) t n) as [ok1 l'].
        destruct ok1.
        -- eapply IH in E; [exact E| |apply shape_put_other; auto].
           rewrite count_key_app, count_key_cons, EK, count_key_nil. lia.
        -- inversion E; subst ok exc s'. clear E.
           replace 0 with (cnt - count_key k done) by lia.
           apply give_back_shape; try lia. apply shape_put_other; auto.
      * eapply IH in E; [exact E| |exact Hs1].
        rewrite count_key_app, count_key_cons, EK, count_key_nil. lia.
Qed.

End OneBucket.

(* ---------- one bucket through whole histories ---------- *)
Definition normk (s : xsys) (k : key) (t N I p : Z) : Prop :=
  exists lk st, bk s k = Some (lk, st) /\ xk lk = XNorm /\ xburst lk = N /\ xI lk = I /\ lim_ok lk /\ xlast lk <= t /\ pot lk t = p.

Lemma take_normk s k t N I p coins keys n ok exc s' :
  normk s k t N I p -> 0 <= n -> xtake s t coins keys n = (ok, exc, s') ->
  normk s' k t N I (if ok then p - count_key k keys * (n * I) else p).
Proof.
  intros (lk & st & Hb & K & HN & HI & OK & L & HP) Hn E.
  unfold xtake, take in E.
  eapply (take_loop_shape k lk t n K OK L Hn) with (cnt := 0) in E; [|reflexivity|exists st; left; auto].
  apply (shape_bucket k lk t n K OK L Hn) in E; [|destruct ok; [pose proof (count_key_nonneg k keys)|]; lia].
  destruct E as (lk' & st' & Hb' & K' & HN' & HI' & OK' & L' & HP').
  exists lk', st'. repeat (split; [congruence || auto|]); auto. subst I p. rewrite HP'. destruct ok; lia.
Qed.

Lemma aget_reset_other k name (f : xlim * bstate) (m : list (key * (xlim * bstate))) :
  (fst k =? name)%N = false ->
  aget key_eqb k (map (fun e => if (fst (fst e) =? name)%N then (fst e, f) else e) m) = aget key_eqb k m.
Proof.
  intros Hn. induction m as [|[k0 v] m IH]; cbn [map aget fst snd]; auto.
  destruct (fst k0 =? name)%N eqn:E0; cbn [aget]; rewrite IH; auto.
  destruct (key_eqb k k0) eqn:EK; auto. apply key_eqb_eq in EK; subst. congruence.
Qed.

(* a step that does not override bucket k leaves it a bucket of the same limit, its credit
   reduced by exactly what was admitted *)
Lemma step_normk s k t N I p i :
  normk s k t N I p -> nonneg_in i -> overrides k i = false ->
  normk (xstep s t i) k t N I (p - step_admitted k s t i * I).
Proof.
  intros H Hn Ho. destruct i as [coins keys n|k'|k' st'|name st'|name st']; cbn [xstep step_admitted nonneg_in overrides] in *.
  - destruct (xtake s t coins keys n) as [[ok exc] s'] eqn:E. cbn [fst snd].
    eapply take_normk in E; eauto. destruct ok; [|rewrite Z.sub_0_r; auto].
    replace (p - n * count_key k keys * I) with (p - count_key k keys * (n * I)) by lia. exact E.
  - rewrite Z.sub_0_r. destruct H as (lk & st & Hb & Hrest). unfold xget, get_state.
    destruct (key_eqb k k') eqn:EK.
    + apply key_eqb_eq in EK; subst k'. rewrite (bbk_hit s t k _ Hb). cbn [fst snd].
      eexists lk, _. rewrite bk_put, key_eqb_refl. split; [reflexivity|exact Hrest].
    + pose proof (bbk_other s t k k' EK) as F.
      destruct (bucket_by_key x_new s t k') as [[b|] s1]; cbn [snd] in *.
      * exists lk, st. rewrite bk_put, EK, F. auto.
      * exists lk, st. rewrite F. auto.
  - rewrite Z.sub_0_r. destruct H as (lk & st & Hb & Hrest). unfold xset, set_state.
    pose proof (bbk_other s t k k' Ho) as F.
    destruct (bucket_by_key x_new s t k') as [[b|] s1]; cbn [snd] in *.
    + exists lk, st. rewrite bk_put, Ho, F. auto.
    + exists lk, st. rewrite F. auto.
  - rewrite Z.sub_0_r. destruct H as (lk & st & Hb & Hrest). unfold xreset, reset_name.
    destruct (aget N.eqb name (s_d s)); [|exists lk, st; auto].
    exists lk, st. split; auto. unfold bk; cbn [s_b]. rewrite aget_reset_other; auto.
  - rewrite Z.sub_0_r. exact H.
Qed.

Lemma normk_later s k t t' N I p : normk s k t N I p -> t <= t' ->
  exists p', p <= p' <= p + (t' - t) /\ normk s k t' N I p'.
Proof.
  intros (lk & st & Hb & K & HN & HI & OK & L & HP) Ht.
  exists (pot lk t'). split; [subst p; apply pot_step; auto|].
  exists lk, st. repeat (split; auto). lia.
Qed.

Lemma normk_bounds s k t N I p : normk s k t N I p -> -1 <= p <= N * I /\ 1 <= I /\ 0 <= N.
Proof.
  intros (lk & st & Hb & K & HN & HI & OK & L & HP). subst.
  pose proof (pot_lower lk t OK L). pose proof (pot_le_cap lk t). unfold xcap in *. destruct OK as (? & ? & ?). lia.
Qed.

Lemma admitted_pot k N I : forall h s t0 t1 p,
  normk s k t0 N I p -> timeline t0 h t1 ->
  Forall (fun e => nonneg_in (snd e)) h -> Forall (fun e => overrides k (snd e) = false) h ->
  admitted k s h * I <= p + 1 + (t1 - t0).
Proof.
  induction h as [|[t i] r IH]; intros s t0 t1 p Hk Ht Hn Ho; cbn [admitted timeline] in *.
  - apply normk_bounds in Hk. lia.
  - destruct Ht as [Ht0 Ht]. inversion Hn as [|? ? Hn1 Hn2]; subst. inversion Ho as [|? ? Ho1 Ho2]; subst. cbn [snd] in *.
    destruct (normk_later s k t0 t N I p Hk Ht0) as (p1 & Hp1 & Hk1).
    pose proof (step_normk s k t N I p1 i Hk1 Hn1 Ho1) as Hk2.
    specialize (IH _ _ _ _ Hk2 Ht Hn2 Ho2). lia.
Qed.

Lemma div_bound a N I T : 1 <= I -> 0 <= T -> a * I <= N * I + 1 + T -> a <= N + T / I + 1.
Proof.
  intros HI HT H. pose proof (Z.div_mod T I ltac:(lia)) as E. pose proof (Z.mod_pos_bound T I ltac:(lia)) as B.
  assert (a * I <= (N + T / I + 1) * I) by nia. nia.
Qed.

Theorem window_bound_proved : forall s k l h t0 t1,
  has_bucket s k l -> xk l = XNorm -> lim_ok l -> xlast l <= t0 ->
  timeline t0 h t1 ->
  Forall (fun e => nonneg_in (snd e)) h -> Forall (fun e => overrides k (snd e) = false) h ->
  admitted k s h <= xburst l + (t1 - t0) / xI l + 1.
Proof.
  intros s k l h t0 t1 [st Hb] K OK L Ht Hn Ho.
  assert (Hk : normk s k t0 (xburst l) (xI l) (pot l t0)) by (exists l, st; repeat (split; auto)).
  pose proof (admitted_pot k _ _ h s t0 t1 _ Hk Ht Hn Ho) as H.
  pose proof (pot_le_cap l t0). unfold xcap in *.
  assert (t0 <= t1). { clear -Ht. revert t0 Ht. induction h as [|[t i] r IH]; cbn; intros; [lia|]. destruct Ht. specialize (IH _ H0). lia. }
  apply div_bound; try lia. destruct OK; lia.
Qed.

(* capacity regained while idle never exceeds N tokens; what one instant can admit *)
Theorem idle_cap_proved : forall s k l h t0 t1,
  has_bucket s k l -> xk l = XNorm -> lim_ok l -> xlast l <= t0 -> t0 <= t1 ->
  pot l t1 <= xburst l * xI l /\
  (timeline t1 h t1 ->
   Forall (fun e => nonneg_in (snd e)) h -> Forall (fun e => overrides k (snd e) = false) h ->
   admitted k s h <= xburst l + 1 /\ (2 <= xI l -> admitted k s h <= xburst l)).
Proof.
  intros s k l h t0 t1 [st Hb] K OK L Ht01. split; [apply pot_le_cap|]. intros Ht Hn Ho.
  assert (Hk : normk s k t1 (xburst l) (xI l) (pot l t1)) by (exists l, st; repeat (split; auto); lia).
  pose proof (admitted_pot k _ _ h s t1 t1 _ Hk Ht Hn Ho) as H.
  pose proof (pot_le_cap l t1). unfold xcap in *. destruct OK as (HI & HB & _). split; [nia|intros; nia].
Qed.

(* ---------- all-or-nothing ---------- *)
Lemma equiv_arith c last cap (f : bool) t t' :
  -1 <= c -> 0 <= cap <= capmax -> last <= t -> t <= t' ->
  let e := Z.min (t - last) maxd in
  let p := Z.min cap (c + e) in
  let fr0 := if cap <? c + e then false else f || (0 <? e) in
  let el := Z.min (t' - t) maxd in
  let E := Z.min (t' - last) maxd in
  Z.min cap (p + el) = Z.min cap (c + E) /\
  (if cap <? p + el then false else fr0 || (0 <? el)) = (if cap <? c + E then false else f || (0 <? E)).
Proof.
  intros Hc Hcap Hl Ht e p fr0 el E. subst e p fr0 el E. unfold maxd, capmax in *.
  repeat match goal with |- context [Z.ltb ?a ?b] => destruct (Z.ltb_spec a b) end;
    destruct f; cbn [orb]; (split; [lia|]); try reflexivity; exfalso; lia.
Qed.

Lemma lifted0_equiv l t : xk l = XNorm -> lim_ok l -> xlast l <= t -> lim_equiv t (lifted l t 0) l.
Proof.
  intros K OK L. unfold lim_equiv. cbn [xk xburst xI xlast lifted]. rewrite K.
  repeat (split; [reflexivity || lia|]). intros t' Ht'.
  unfold x_avail at 1 3. rewrite xcap_lifted. cbn [lifted xc xlast xfrac fst snd].
  rewrite (Z.min_r t' t) by lia. rewrite (x_avail_eq l t L). cbn [snd].
  unfold x_avail. cbn [fst snd]. rewrite (Z.min_r t' (xlast l)) by lia. rewrite Z.sub_0_r.
  pose proof (xcap_nonneg l OK). destruct OK as (_ & _ & Hc & Hcap).
  apply (equiv_arith (xc l) (xlast l) (xcap l) (xfrac l) t t'); auto; lia.
Qed.

Lemma lim_equiv_refl t l : xlast l <= t -> lim_equiv t l l.
Proof. intros L. unfold lim_equiv. repeat (split; auto). destruct (xk l); auto. Qed.

(* limiter states that are equivalent take the same decisions at every later time and stay
   equivalent: "unchanged" as far as any caller can ever observe *)
Lemma lim_equiv_future t a b t' coin n : lim_equiv t a b -> t <= t' ->
  fst (x_allow coin a t' n) = fst (x_allow coin b t' n) /\
  lim_equiv t' (snd (x_allow coin a t' n)) (snd (x_allow coin b t' n)).
Proof.
  intros (K & HB & HI & La & Lb & H) Ht.
  destruct (xk a) eqn:Ka; try (subst b; split; [reflexivity|apply lim_equiv_refl]).
  - unfold x_allow. rewrite Ka. cbn. lia.
  - unfold x_allow. rewrite Ka. destruct (n <=? xburst a); cbn; lia.
  - symmetry in K. destruct (H t' Ht) as [H1 H2].
    unfold x_allow. rewrite Ka, K.
    destruct (x_avail a t') as [[la ca] fa] eqn:Ea. destruct (x_avail b t') as [[lb cb] fb] eqn:Eb.
    cbn [fst snd] in H1, H2. subst cb fb. rewrite <- HB, <- HI.
    assert (la = xlast a) by (unfold x_avail in Ea; inversion Ea; lia).
    assert (lb = xlast b) by (unfold x_avail in Eb; inversion Eb; lia). subst la lb.
    destruct ((n <=? xburst a) && _) eqn:E; cbn [fst snd].
    + split; auto. apply lim_equiv_refl. cbn. lia.
    + split; auto. rewrite (rebuild a Ka), HB, HI, (rebuild b K).
      unfold lim_equiv. rewrite Ka. split; [congruence|]. split; [auto|]. split; [auto|]. split; [lia|]. split; [lia|].
      intros t'' Ht''. apply H. lia.
Qed.

Theorem all_or_nothing_proved : forall s t coins keys n ok exc s' k l,
  xtake s t coins keys n = (ok, exc, s') -> 0 <= n ->
  has_bucket s k l -> xk l = XNorm -> lim_ok l -> xlast l <= t ->
  exists l', has_bucket s' k l' /\
    if ok then xk l' = XNorm /\ xburst l' = xburst l /\ xI l' = xI l /\ xlast l' <= t /\
               pot l' t = pot l t - count_key k keys * n * xI l
    else lim_equiv t l' l.
Proof.
  intros s t coins keys n ok exc s' k l E Hn [st Hb] K OK L.
  unfold xtake, take in E.
  eapply (take_loop_shape k l t n K OK L Hn) with (cnt := 0) in E; [|reflexivity|exists st; left; auto].
  destruct ok.
  - apply (shape_bucket k l t n K OK L Hn) in E; [|pose proof (count_key_nonneg k keys); lia].
    destruct E as (lk' & st' & Hb' & K' & HN' & HI' & OK' & L' & HP').
    exists lk'. split; [exists st'; exact Hb'|]. repeat (split; auto). rewrite HP'. lia.
  - destruct E as [st' [[_ Hb']|[Hb' _]]].
    + exists l. split; [exists st'; exact Hb'|apply lim_equiv_refl; auto].
    + exists (lifted l t (0 * (n * xI l))). split; [exists st'; exact Hb'|]. rewrite Z.mul_0_l. apply lifted0_equiv; auto.
Qed.

Lemma take_loop_exc todo : forall s t n coins done exc s',
  take_loop x_new x_allow s t n coins todo done = (false, exc, s') -> exists k0, In k0 todo /\ exc = fst k0.
Proof.
  induction todo as [|k' r IH]; intros s t n coins done exc s' E; cbn [take_loop] in E; [discriminate|].
  destruct (bucket_by_key x_new s t k') as [[b|] s1].
  - destruct (x_allow (hd false coins) (fst b) t n) as [ok1 l']. destruct ok1.
    + apply IH in E. destruct E as (k0 & Hin & ->). exists k0; split; [right|]; auto.
    + inversion E; subst. exists k'; split; [left|]; auto.
  - apply IH in E. destruct E as (k0 & Hin & ->). exists k0; split; [right|]; auto.
Qed.

(* ---------- key isolation ---------- *)
Lemma give_back_frame k done : forall s t n, existsb (key_eqb k) done = false ->
  bk (give_back x_new x_allow s t n done) k = bk s k.
Proof.
  induction done as [|k' r IH]; intros s t n H; cbn [give_back existsb] in *; auto.
  apply orb_false_iff in H. destruct H as [H1 H2].
  pose proof (bbk_other s t k k' H1) as F.
  destruct (bucket_by_key x_new s t k') as [[b|] s1]; cbn [snd] in F; rewrite IH by auto; [rewrite bk_put, H1|]; auto.
Qed.

Lemma take_loop_frame k todo : forall s t n coins done ok exc s',
  take_loop x_new x_allow s t n coins todo done = (ok, exc, s') ->
  existsb (key_eqb k) todo = false -> existsb (key_eqb k) done = false -> bk s' k = bk s k.
Proof.
  induction todo as [|k' r IH]; intros s t n coins done ok exc s' E Ht Hd; cbn [take_loop existsb] in *.
  - inversion E; subst; auto.
  - apply orb_false_iff in Ht. destruct Ht as [H1 H2].
    assert (Hd' : existsb (key_eqb k) (done ++ [k']) = false) by (rewrite existsb_app, Hd; cbn; rewrite H1; auto).
    pose proof (bbk_other s t k k' H1) as F.
    destruct (bucket_by_key x_new s t k') as [[b|] s1]; cbn [snd] in F.
    + destruct (x_allow (hd false coins) (fst b) t n) as [ok1 l']. destruct ok1.
      * apply IH in E; auto. rewrite E, bk_put, H1. auto.
      * inversion E; subst. rewrite give_back_frame by auto. rewrite bk_put, H1. auto.
    + apply IH in E; auto. congruence.
Qed.

Theorem key_isolation_proved : forall s t i k, touches k i = false -> bk (xstep s t i) k = bk s k.
Proof.
  intros s t i k H. destruct i as [coins keys n|k'|k' st'|name st'|name st']; cbn [xstep touches] in *.
  - destruct (xtake s t coins keys n) as [[ok exc] s'] eqn:E. cbn [snd].
    unfold xtake, take in E. eapply take_loop_frame in E; eauto.
  - unfold xget, get_state. pose proof (bbk_other s t k k' H) as F.
    destruct (bucket_by_key x_new s t k') as [[b|] s1]; cbn [snd] in *; [rewrite bk_put, H|]; auto.
  - unfold xset, set_state. pose proof (bbk_other s t k k' H) as F.
    destruct (bucket_by_key x_new s t k') as [[b|] s1]; cbn [snd] in *; [rewrite bk_put, H|]; auto.
  - unfold xreset, reset_name. destruct (aget N.eqb name (s_d s)); auto.
    unfold bk; cbn [s_b]. apply aget_reset_other; auto.
  - reflexivity.
Qed.

(* ---------- a fresh or reset bucket ---------- *)
(* bucket k holds exactly j whole tokens at instant t and its credit carries no rounding noise *)
Definition cleank (s : xsys) (k : key) (t N I j : Z) : Prop :=
  exists st, bk s k = Some (mkXL XNorm N I (j * I) t false, st).

Lemma take1_clean s k t N I j c : 1 <= I -> 0 <= j <= N -> cleank s k t N I j ->
  exists s', xtake s t c [k] 1 = (0 <? j, if 0 <? j then 0%N else fst k, s')
             /\ cleank s' k t N I (if 0 <? j then j - 1 else 0).
Proof.
  intros HI Hj [st Hb]. unfold xtake, take. cbn [take_loop]. rewrite (bbk_hit _ _ _ _ Hb). cbn [fst snd].
  unfold x_allow. cbn [xk]. unfold x_avail. cbn [xlast xc xfrac]. unfold xcap. cbn [xburst xI].
  rewrite Z.min_id, Z.sub_diag. change (Z.min 0 maxd) with 0. rewrite Z.add_0_r.
  rewrite (Z.min_r (N * I) (j * I)) by nia.
  replace (N * I <? j * I) with false by nia. cbn [orb Z.ltb Z.compare].
  rewrite andb_false_r, orb_false_r. cbn [andb].
  destruct (Z.ltb_spec 0 j) as [J|J].
  - replace ((1 <=? N) && (0 <=? j * I - 1 * I)) with true by nia. cbn [give_back].
    eexists. split; [reflexivity|]. exists st. rewrite bk_put, key_eqb_refl.
    replace (j * I - 1 * I) with ((j - 1) * I) by lia. reflexivity.
  - assert (j = 0) by lia. subst j.
    replace ((1 <=? N) && (0 <=? 0 * I - 1 * I)) with false by nia. cbn [give_back].
    eexists. split; [reflexivity|]. exists st. rewrite bk_put, key_eqb_refl. reflexivity.
Qed.

Lemma take_seq_clean k t N I : 1 <= I -> forall cs s j, 0 <= j <= N -> cleank s k t N I j ->
  length cs = (Z.to_nat j + 1)%nat ->
  take_seq s t k cs = repeat true (Z.to_nat j) ++ [false].
Proof.
  intros HI. induction cs as [|c cs IH]; intros s j Hj Hc Hl; cbn [length] in Hl; [lia|].
  cbn [take_seq]. destruct (take1_clean s k t N I j c HI Hj Hc) as (s' & E & Hc'). rewrite E.
  destruct (Z.ltb_spec 0 j) as [J|J].
  - replace (Z.to_nat j) with (S (Z.to_nat (j - 1))) by lia. cbn [repeat app]. f_equal.
    apply IH; auto; lia.
  - assert (j = 0) by lia. subst j. cbn [Z.to_nat repeat app]. f_equal.
    destruct cs; [reflexivity|cbn in Hl; lia].
Qed.

(* the source has the repaired form of bucketType.reset (re-opened when the translator says otherwise) *)
Lemma x_new_is_repaired : x_new = x_new_gen true true true true.
Proof. reflexivity. Qed.

(* the refill interval the bucket works with, and the tokens it holds when set to st *)
Definition eff_interval (st : bstate) : Z := interval_of true true st.
Definition fresh_tokens (st : bstate) : Z := bs_max st - Z.min (bs_taken st) (bs_max st).

(* any count >= 1 with any period P <= MaxInt64 - 2 ns - also P < count, zero, negative - and any taken >= 0 *)
Definition fresh_cfg (st : bstate) : Prop :=
  1 <= bs_max st <= capmax /\ bs_period st <= capmax /\ 0 <= bs_taken st.

Lemma quot_cap p n : 1 <= n -> 0 <= p -> n * Z.quot p n <= p.
Proof. intros. rewrite Z.quot_div_nonneg by lia. apply Z.mul_div_le. lia. Qed.

Lemma quot_neg p n : 1 <= n -> p < 0 -> Z.quot p n <= 0.
Proof.
  intros. pose proof (Z.quot_opp_l p n ltac:(lia)). pose proof (Z.quot_pos (- p) n ltac:(lia) ltac:(lia)). lia.
Qed.

Lemma eff_interval_spec st : 1 <= bs_max st ->
  1 <= eff_interval st /\ (0 <= bs_period st /\ bs_max st * eff_interval st <= bs_period st \/ eff_interval st = 1).
Proof.
  intros HM. unfold eff_interval, interval_of. cbn [andb].
  destruct (Z.lt_ge_cases (bs_period st) 0) as [HP|HP].
  - pose proof (quot_neg (bs_period st) (bs_max st) HM HP). replace (Z.quot (bs_period st) (bs_max st) <=? 0) with true by lia. lia.
  - pose proof (quot_cap (bs_period st) (bs_max st) HM HP).
    pose proof (Z.quot_pos (bs_period st) (bs_max st) HP ltac:(lia)).
    destruct (Z.leb_spec (Z.quot (bs_period st) (bs_max st)) 0); [lia|].
    replace (Z.quot (bs_period st) (bs_max st) =? 0) with false by lia. cbn [andb]. lia.
Qed.

Lemma x_new_clean st t : fresh_cfg st -> maxd <= t ->
  x_new st t = mkXL XNorm (bs_max st) (eff_interval st) (fresh_tokens st * eff_interval st) t false.
Proof.
  intros ((H1 & H1') & HP' & HT) Ht. rewrite x_new_is_repaired.
  destruct (eff_interval_spec st H1) as [HI HC].
  unfold x_new_gen, primed_of, fresh_tokens. fold (eff_interval st). replace (0 <? bs_max st) with true by lia.
  replace (eff_interval st <=? 0) with false by lia.
  set (I := eff_interval st) in *. set (j := Z.min (bs_taken st) (bs_max st)).
  assert (0 <= j <= bs_max st) by (subst j; lia).
  unfold x_allow. cbn [xk]. unfold x_avail. cbn [xlast xc xfrac]. unfold xcap. cbn [xburst xI].
  unfold capmax, maxd in *.
  assert (bs_max st * I <= 9223372036854775805) by (destruct HC as [[? HC]| ->]; lia).
  assert (0 <= bs_max st * I) by nia.
  rewrite (Z.min_r t 0) by lia. rewrite Z.sub_0_r. rewrite (Z.min_r t) by lia.
  rewrite (Z.min_l (bs_max st * I)) by lia.
  replace (bs_max st * I <? bs_max st * I + 9223372036854775807) with true by lia.
  replace ((j <=? bs_max st) && ((0 <=? bs_max st * I - j * I) || (false && false && (bs_max st * I - j * I =? -1)))) with true by nia.
  cbn [snd]. f_equal. lia.
Qed.

(* SetBucketState leaves exactly max 0 (N - taken) tokens *)
Lemma xset_clean s t k st : fresh_cfg st -> maxd <= t -> fst (xset s t k st) = true ->
  cleank (snd (xset s t k st)) k t (bs_max st) (eff_interval st) (fresh_tokens st).
Proof.
  intros F Ht. unfold xset, set_state. destruct (bucket_by_key x_new s t k) as [[b|] s1]; cbn [fst snd]; [|discriminate].
  intros _. exists st. rewrite bk_put, key_eqb_refl, (x_new_clean st t F Ht). reflexivity.
Qed.

Lemma fresh_tokens_range st : fresh_cfg st -> 0 <= fresh_tokens st <= bs_max st.
Proof. intros ((H1 & _) & _ & HT). unfold fresh_tokens. lia. Qed.

Theorem fresh_admits_exactly_N_proved : forall s t k st cs,
  fresh_cfg st -> maxd <= t -> fst (xset s t k st) = true ->
  length cs = (Z.to_nat (fresh_tokens st) + 1)%nat ->
  take_seq (snd (xset s t k st)) t k cs = repeat true (Z.to_nat (fresh_tokens st)) ++ [false].
Proof.
  intros s t k st cs F Ht Hf Hl. pose proof F as ((H1 & _) & _ & _).
  destruct (eff_interval_spec st H1) as [HI _].
  apply (take_seq_clean k t (bs_max st) (eff_interval st) HI cs _ (fresh_tokens st)); [apply fresh_tokens_range; auto| |exact Hl].
  apply xset_clean; auto.
Qed.

(* the same for a bucket that is created by its first request *)
Lemma xtake_created s t c k r n d : bk s k = None -> aget N.eqb (fst k) (s_d s) = Some d ->
  xtake s t c (k :: r) n = xtake (put_b s k (x_new d t, d)) t c (k :: r) n.
Proof.
  intros Hb Hd. unfold xtake, take. cbn [take_loop]. unfold bucket_by_key at 1 2.
  unfold bk in Hb. rewrite Hb, Hd. cbn [s_b put_b aget]. rewrite key_eqb_refl. reflexivity.
Qed.

Theorem first_use_admits_exactly_N_proved : forall s t k st cs,
  fresh_cfg st -> maxd <= t -> bk s k = None -> aget N.eqb (fst k) (s_d s) = Some st ->
  length cs = (Z.to_nat (fresh_tokens st) + 1)%nat ->
  take_seq s t k cs = repeat true (Z.to_nat (fresh_tokens st)) ++ [false].
Proof.
  intros s t k st cs F Ht Hb Hd Hl. pose proof F as ((H1 & _) & _ & _).
  destruct (eff_interval_spec st H1) as [H2 _].
  destruct cs as [|c cs]; [cbn in Hl; lia|].
  assert (E : take_seq s t k (c :: cs) = take_seq (put_b s k (x_new st t, st)) t k (c :: cs)).
  { cbn [take_seq]. rewrite (xtake_created s t c k [] 1 st Hb Hd). reflexivity. }
  rewrite E. apply (take_seq_clean k t (bs_max st) (eff_interval st) H2 (c :: cs) _ (fresh_tokens st)); [apply fresh_tokens_range; auto| |exact Hl].
  exists st. rewrite bk_put, key_eqb_refl, (x_new_clean st t F Ht). reflexivity.
Qed.

(* ---------- a limit of 0 ---------- *)
Definition zerok (s : xsys) (k : key) : Prop :=
  exists lk st, bk s k = Some (lk, st) /\ xk lk = XZero /\ xburst lk = 0.

Lemma allow_zero coin lk t n : xk lk = XZero -> xburst lk = 0 -> 0 <= n ->
  xk (snd (x_allow coin lk t n)) = XZero /\ xburst (snd (x_allow coin lk t n)) = 0 /\
  (fst (x_allow coin lk t n) = true -> n = 0).
Proof.
  intros K B Hn. unfold x_allow. rewrite K, B. destruct (Z.leb_spec n 0); cbn; repeat split; auto; try lia; discriminate.
Qed.

Lemma zerok_put_other s k k' b : key_eqb k k' = false -> zerok s k -> zerok (put_b s k' b) k.
Proof. intros N (lk & st & H). exists lk, st. rewrite bk_put, N. exact H. Qed.

Lemma zerok_bbk_other s t k k' : key_eqb k k' = false -> zerok s k -> zerok (snd (bucket_by_key x_new s t k')) k.
Proof. intros N (lk & st & H). exists lk, st. rewrite bbk_other by exact N. exact H. Qed.

Lemma give_back_zero k t n done : forall s, zerok s k -> (existsb (key_eqb k) done = true -> n = 0) ->
  zerok (give_back x_new x_allow s t n done) k.
Proof.
  induction done as [|k' r IH]; intros s Hz Hd; cbn [give_back existsb] in *; auto.
  destruct (key_eqb k k') eqn:EK.
  - apply key_eqb_eq in EK; subst k'. rewrite (Hd eq_refl) in *. destruct Hz as (lk & st & Hb & K & B).
    rewrite (bbk_hit s t k _ Hb). cbn [fst snd]. apply IH; [|intros; reflexivity].
    destruct (allow_zero false lk t (- 0) K B ltac:(lia)) as (K' & B' & _).
    eexists _, st. rewrite bk_put, key_eqb_refl. split; [reflexivity|]. auto.
  - cbn [orb] in Hd. pose proof (zerok_bbk_other s t k k' EK Hz) as Hz1.
    destruct (bucket_by_key x_new s t k') as [[b|] s1]; cbn [snd] in Hz1; apply IH; auto.
    apply zerok_put_other; auto.
Qed.

Lemma take_loop_zero k t n todo : forall s done coins ok exc s',
  take_loop x_new x_allow s t n coins todo done = (ok, exc, s') -> 0 <= n ->
  zerok s k -> (existsb (key_eqb k) done = true -> n = 0) ->
  zerok s' k /\ (ok = true -> existsb (key_eqb k) todo = true -> n = 0).
Proof.
  induction todo as [|k' r IH]; intros s done coins ok exc s' E Hn Hz Hd; cbn [take_loop existsb] in *.
  - inversion E; subst. split; auto. discriminate.
  - destruct (key_eqb k k') eqn:EK.
    + apply key_eqb_eq in EK; subst k'. destruct Hz as (lk & st & Hb & K & B).
      rewrite (bbk_hit s t k _ Hb) in E. cbn [fst snd] in E.
      destruct (allow_zero (hd false coins) lk t n K B Hn) as (K' & B' & Hok).
      destruct (x_allow (hd false coins) lk t n) as [ok1 l']. cbn [fst snd] in *.
      assert (Hz2 : zerok (put_b s k (l', st)) k) by (exists l', st; rewrite bk_put, key_eqb_refl; auto).
      destruct ok1.
      * apply IH in E; auto. destruct E as [E1 E2]. split; auto.
      * inversion E; subst. split; [|discriminate]. apply give_back_zero; auto.
    + cbn [orb]. pose proof (zerok_bbk_other s t k k' EK Hz) as Hz1.
      assert (Hd' : existsb (key_eqb k) (done ++ [k']) = true -> n = 0).
      { rewrite existsb_app. cbn. rewrite EK, !orb_false_r. exact Hd. }
      destruct (bucket_by_key x_new s t k') as [[b|] s1]; cbn [snd] in Hz1.
      * destruct (x_allow (hd false coins) (fst b) t n) as [ok1 l']. destruct ok1.
        -- apply IH in E; auto. apply zerok_put_other; auto.
        -- inversion E; subst. split; [|discriminate]. apply give_back_zero; auto. apply zerok_put_other; auto.
      * apply IH in E; auto.
Qed.

Lemma step_zero s k t i : zerok s k -> nonneg_in i -> overrides k i = false ->
  zerok (xstep s t i) k /\ step_admitted k s t i = 0.
Proof.
  intros H Hn Ho. destruct i as [coins keys n|k'|k' st'|name st'|name st']; cbn [xstep step_admitted nonneg_in overrides] in *.
  - destruct (xtake s t coins keys n) as [[ok exc] s'] eqn:E. cbn [fst snd].
    unfold xtake, take in E. eapply take_loop_zero in E; eauto; [|cbn; discriminate].
    destruct E as [E1 E2]. split; auto. destruct ok; auto.
    destruct (existsb (key_eqb k) keys) eqn:EX; [rewrite E2; auto|rewrite count_key_zero; auto; lia].
  - split; auto. destruct H as (lk & st & Hb & Hrest). unfold xget, get_state.
    destruct (key_eqb k k') eqn:EK.
    + apply key_eqb_eq in EK; subst k'. rewrite (bbk_hit s t k _ Hb). cbn [fst snd].
      eexists lk, _. rewrite bk_put, key_eqb_refl. split; [reflexivity|exact Hrest].
    + pose proof (bbk_other s t k k' EK) as F.
      destruct (bucket_by_key x_new s t k') as [[b|] s1]; cbn [snd] in *.
      * exists lk, st. rewrite bk_put, EK, F. auto.
      * exists lk, st. rewrite F. auto.
  - split; auto. destruct H as (lk & st & Hb & Hrest). unfold xset, set_state.
    pose proof (bbk_other s t k k' Ho) as F.
    destruct (bucket_by_key x_new s t k') as [[b|] s1]; cbn [snd] in *.
    + exists lk, st. rewrite bk_put, Ho, F. auto.
    + exists lk, st. rewrite F. auto.
  - split; auto. destruct H as (lk & st & Hb & Hrest). unfold xreset, reset_name.
    destruct (aget N.eqb name (s_d s)); [|exists lk, st; auto].
    exists lk, st. split; auto. unfold bk; cbn [s_b]. rewrite aget_reset_other; auto.
  - split; auto.
Qed.

Theorem zero_admits_nothing_proved : forall h s k, zerok s k ->
  Forall (fun e => nonneg_in (snd e)) h -> Forall (fun e => overrides k (snd e) = false) h ->
  admitted k s h = 0.
Proof.
  induction h as [|[t i] r IH]; intros s k Hz Hn Ho; cbn [admitted]; auto.
  inversion Hn as [|? ? Hn1 Hn2]; subst. inversion Ho as [|? ? Ho1 Ho2]; subst. cbn [snd] in *.
  destruct (step_zero s k t i Hz Hn1 Ho1) as [Hz' ->]. rewrite (IH _ _ Hz' Hn2 Ho2). reflexivity.
Qed.

Lemma x_new_zero st t : bs_max st = 0 -> 0 <= bs_taken st -> xk (x_new st t) = XZero /\ xburst (x_new st t) = 0.
Proof.
  intros HM HT. rewrite x_new_is_repaired. unfold x_new_gen, primed_of. rewrite HM. cbn [Z.ltb Z.compare].
  destruct (allow_zero false (mkXL XZero 0 0 0 0 false) t (Z.min (bs_taken st) 0) eq_refl eq_refl ltac:(lia)) as (K & B & _). auto.
Qed.

(* both ways a zero-limit bucket comes into being *)
Lemma xset_zero s t k st : bs_max st = 0 -> 0 <= bs_taken st -> fst (xset s t k st) = true -> zerok (snd (xset s t k st)) k.
Proof.
  intros HM HT. unfold xset, set_state. destruct (bucket_by_key x_new s t k) as [[b|] s1]; cbn [fst snd]; [|discriminate].
  intros _. destruct (x_new_zero st t HM HT). exists (x_new st t), st. rewrite bk_put, key_eqb_refl. auto.
Qed.

Lemma created_zero s t k d : bk s k = None -> aget N.eqb (fst k) (s_d s) = Some d -> bs_max d = 0 -> 0 <= bs_taken d ->
  zerok (snd (bucket_by_key x_new s t k)) k.
Proof.
  intros Hb Hd HM HT. unfold bucket_by_key. unfold bk in Hb. rewrite Hb, Hd. cbn [snd].
  destruct (x_new_zero d t HM HT). exists (x_new d t), d. rewrite bk_put, key_eqb_refl. auto.
Qed.

(* ---------- every reachable state meets the hypotheses above ---------- *)
Definition binv (t : Z) (l : xlim) : Prop := xk l = XNorm -> lim_ok l /\ xlast l <= t.
Definition wf_cfg (st : bstate) : Prop := bs_period st <= capmax /\ 0 <= bs_max st <= capmax.
Definition good (t : Z) (s : xsys) : Prop :=
  Forall (fun e => binv t (fst (snd e))) (s_b s) /\ Forall (fun e => wf_cfg (snd e)) (s_d s).
Definition wf_in (i : xin) : Prop :=
  match i with ISet _ st | IReset _ st | ISetDefault _ st => wf_cfg st | _ => True end.

Lemma binv_mono t t' l : binv t l -> t <= t' -> binv t' l.
Proof. intros H Ht K. destruct (H K). split; auto; lia. Qed.

Lemma x_allow_binv coin l t0 t n : binv t0 l -> t0 <= t -> binv t (snd (x_allow coin l t n)).
Proof.
  intros H Ht. unfold x_allow. destruct (xk l) eqn:K.
  - cbn [snd]. intros K'. congruence.
  - destruct (n <=? xburst l); cbn [snd]; intros K'; [discriminate|congruence].
  - destruct (H K) as [OK L]. rewrite (x_avail_eq l t ltac:(lia)).
    destruct ((n <=? xburst l) && _) eqn:E; cbn [snd]; intros _.
    + apply ok_cond in E. destruct OK as (H1 & H2 & H3 & H4). unfold lim_ok, xcap in *; cbn. repeat split; lia.
    + rewrite (rebuild l K). split; auto. lia.
Qed.

Lemma x_new_binv st t : wf_cfg st -> 0 <= t -> binv t (x_new st t).
Proof.
  intros [HP [HM HM']] Ht. rewrite x_new_is_repaired. unfold x_new_gen. apply (x_allow_binv false _ 0 t); auto.
  intros K. cbn [xk] in K. destruct (Z.ltb_spec 0 (bs_max st)) as [M|M]; [|discriminate].
  destruct (eff_interval_spec st ltac:(lia)) as [HI HC]. unfold eff_interval in *.
  unfold lim_ok, xcap, capmax in *; cbn [xI xburst xc xlast]. repeat split; try lia; try nia; destruct HC as [[? HC]|HC]; try lia; rewrite HC; lia.
Qed.

Lemma aget_in {V} k (m : list (key * V)) v : aget key_eqb k m = Some v -> exists k', In (k', v) m.
Proof.
  induction m as [|[k0 v0] m IH]; cbn; [discriminate|]. destruct (key_eqb k k0).
  - intros E; inversion E; subst. exists k0; auto.
  - intros E. destruct (IH E) as [k' H]. exists k'; auto.
Qed.

Lemma good_put t s k b : good t s -> binv t (fst b) -> good t (put_b s k b).
Proof. intros [G1 G2] H. split; auto. cbn [s_b put_b]. constructor; auto. Qed.

Lemma good_bbk t s k : good t s -> 0 <= t ->
  good t (snd (bucket_by_key x_new s t k)) /\
  (forall b, fst (bucket_by_key x_new s t k) = Some b -> binv t (fst b)).
Proof.
  intros G Ht. unfold bucket_by_key. destruct (aget key_eqb k (s_b s)) as [b|] eqn:E; cbn [fst snd].
  - split; auto. intros b' Eb; inversion Eb; subst. apply aget_in in E. destruct E as [k' Hin].
    destruct G as [G1 _]. rewrite Forall_forall in G1. apply (G1 _ Hin).
  - destruct (aget N.eqb (fst k) (s_d s)) as [d|] eqn:Ed; cbn [fst snd]; [|split; auto; discriminate].
    assert (wf_cfg d).
    { destruct G as [_ G2]. rewrite Forall_forall in G2. clear -Ed G2. revert Ed G2.
      generalize (s_d s). induction l as [|[n0 d0] l IH]; cbn; [discriminate|]. intros E G.
      destruct (fst k =? n0)%N; [inversion E; subst; apply (G (n0, d)); left; auto|]. apply IH; auto. }
    pose proof (x_new_binv d t H Ht). split; [apply good_put; auto|]. intros b Eb; inversion Eb; subst; auto.
Qed.

Lemma good_give_back t n done : forall s, good t s -> 0 <= t -> good t (give_back x_new x_allow s t n done).
Proof.
  induction done as [|k r IH]; intros s G Ht; cbn [give_back]; auto.
  destruct (good_bbk t s k G Ht) as [G1 Hb]. destruct (bucket_by_key x_new s t k) as [[b|] s1]; cbn [fst snd] in *.
  - apply IH; auto. apply good_put; auto. cbn [fst]. apply (x_allow_binv _ _ t t); [apply Hb; auto|lia].
  - apply IH; auto.
Qed.

Lemma good_take_loop t n todo : forall s coins done ok exc s', good t s -> 0 <= t ->
  take_loop x_new x_allow s t n coins todo done = (ok, exc, s') -> good t s'.
Proof.
  induction todo as [|k r IH]; intros s coins done ok exc s' G Ht E; cbn [take_loop] in E.
  - inversion E; subst; auto.
  - destruct (good_bbk t s k G Ht) as [G1 Hb]. destruct (bucket_by_key x_new s t k) as [[b|] s1]; cbn [fst snd] in *.
    + pose proof (x_allow_binv (hd false coins) (fst b) t t n (Hb _ eq_refl) ltac:(lia)) as Hl.
      destruct (x_allow (hd false coins) (fst b) t n) as [ok1 l']. cbn [snd] in Hl.
      assert (G2 : good t (put_b s1 k (l', snd b))) by (apply good_put; auto).
      destruct ok1; [eapply IH; eauto|]. inversion E; subst. apply good_give_back; auto.
    + eapply IH; eauto.
Qed.

Lemma good_mono t t' s : good t s -> t <= t' -> good t' s.
Proof.
  intros [G1 G2] Ht. split; auto. eapply Forall_impl; [|exact G1]. intros e H. apply (binv_mono t t'); auto.
Qed.

Theorem reachable_good_proved : forall s t t' i, good t s -> t <= t' -> 0 <= t' -> wf_in i -> good t' (xstep s t' i).
Proof.
  intros s t t' i G Ht Ht' Hw. apply (good_mono t t') in G; auto. clear Ht t.
  destruct i as [coins keys n|k|k st|name st|name st]; cbn [xstep wf_in] in *.
  - destruct (xtake s t' coins keys n) as [[ok exc] s'] eqn:E. cbn [snd]. unfold xtake, take in E.
    eapply good_take_loop; eauto.
  - unfold xget, get_state. destruct (good_bbk t' s k G Ht') as [G1 Hb].
    destruct (bucket_by_key x_new s t' k) as [[b|] s1]; cbn [fst snd] in *; auto.
    apply good_put; auto. cbn [fst]. apply Hb; auto.
  - unfold xset, set_state. destruct (good_bbk t' s k G Ht') as [G1 Hb].
    destruct (bucket_by_key x_new s t' k) as [[b|] s1]; cbn [fst snd] in *; auto.
    apply good_put; auto. cbn [fst]. apply x_new_binv; auto.
  - unfold xreset, reset_name. destruct (aget N.eqb name (s_d s)); auto.
    destruct G as [G1 G2]. split; auto. cbn [s_b]. rewrite Forall_map. eapply Forall_impl; [|exact G1].
    intros e H. destruct (fst (fst e) =? name)%N; auto. cbn [fst snd]. apply x_new_binv; auto.
  - destruct G as [G1 G2]. split; auto. cbn [s_d set_default]. constructor; auto.
Qed.

Lemma good_bucket t s k l : good t s -> has_bucket s k l -> xk l = XNorm -> lim_ok l /\ xlast l <= t.
Proof.
  intros [G1 _] [st Hb] K. apply aget_in in Hb. destruct Hb as [k' Hin]. rewrite Forall_forall in G1.
  apply (G1 _ Hin K).
Qed.

(* ---------- the limiter layer: a request is admitted iff every applicable limit admits ---------- *)
Lemma bucket_admits_frame coin s s' t k n : bk s' k = bk s k -> s_d s' = s_d s ->
  bucket_admits coin s' t k n = bucket_admits coin s t k n.
Proof.
  intros Hb Hd. unfold bucket_admits, bucket_by_key. unfold bk in Hb. rewrite Hb, Hd.
  destruct (aget key_eqb k (s_b s)); auto. destruct (aget N.eqb (fst k) (s_d s)); auto.
Qed.

Lemma all_admit_frame s s' t n keys : forall coins, (forall k, In k keys -> bk s' k = bk s k) -> s_d s' = s_d s ->
  all_admit s' t n coins keys = all_admit s t n coins keys.
Proof.
  induction keys as [|k r IH]; intros coins Hb Hd; cbn [all_admit]; auto.
  rewrite (bucket_admits_frame _ s s') by (auto; apply Hb; left; auto). rewrite IH; auto. intros; apply Hb; right; auto.
Qed.

Lemma key_neq_eqb (a b : key) : a <> b -> key_eqb a b = false.
Proof. intros H. destruct (key_eqb a b) eqn:E; auto. apply key_eqb_eq in E. contradiction. Qed.

Lemma take_loop_all_admit todo : forall s t n coins done, NoDup todo ->
  fst (fst (take_loop x_new x_allow s t n coins todo done)) = all_admit s t n coins todo.
Proof.
  induction todo as [|k r IH]; intros s t n coins done ND; cbn [take_loop all_admit]; auto.
  inversion ND as [|? ? Hnin ND']; subst.
  assert (F : forall k', In k' r -> bk (snd (bucket_by_key x_new s t k)) k' = bk s k').
  { intros k' Hin. apply bbk_other. apply key_neq_eqb. intros ->. contradiction. }
  pose proof (bbk_defaults s t k) as D. unfold bucket_admits.
  destruct (bucket_by_key x_new s t k) as [[b|] s1]; cbn [fst snd] in *.
  - destruct (x_allow (hd false coins) (fst b) t n) as [ok1 l'] eqn:EA. cbn [fst]. destruct ok1; cbn [andb fst]; auto.
    rewrite IH by auto. apply all_admit_frame; auto.
    intros k' Hin. rewrite bk_put, key_neq_eqb; auto. intros ->. contradiction.
  - cbn [andb]. rewrite IH by auto. apply all_admit_frame; auto.
Qed.

Lemma req_keys_nodup ls q : NoDup (map l_name ls) -> NoDup (req_keys ls q).
Proof.
  unfold req_keys, limits_for. induction ls as [|a ls IH]; cbn [map filter]; intros ND; [constructor|].
  inversion ND as [|? ? Hnin ND']; subst. destruct (applies q a); cbn [map]; auto.
  constructor; auto. intros Hin. apply in_map_iff in Hin. destruct Hin as (l' & E & Hl').
  apply filter_In in Hl'. destruct Hl' as [Hl' _]. apply Hnin. apply in_map_iff. exists l'. split; auto.
  unfold key_of in E. inversion E; auto.
Qed.

Theorem request_admitted_iff_proved : forall ls q s t coins, NoDup (map l_name ls) ->
  fst (fst (xexceeded s t coins ls q)) = negb (all_admit s t 1 coins (req_keys ls q)).
Proof.
  intros ls q s t coins ND. unfold xexceeded. pose proof (req_keys_nodup ls q ND) as NK.
  destruct (req_keys ls q) as [|k r] eqn:E; [reflexivity|].
  pose proof (take_loop_all_admit (k :: r) s t 1 coins [] NK) as H. unfold xtake, take.
  destruct (take_loop x_new x_allow s t 1 coins (k :: r) []) as [[ok exc] s']. cbn [fst] in *. rewrite H. reflexivity.
Qed.

Lemma all_admit_strict s t n keys : all_admit s t n [] keys = forallb (fun k => bucket_admits false s t k n) keys.
Proof. induction keys as [|k r IH]; cbn; auto. rewrite IH. reflexivity. Qed.

Theorem request_admitted_iff_strict_proved : forall ls q s t, NoDup (map l_name ls) ->
  (fst (fst (xexceeded s t [] ls q)) = false <->
   forall l, In l ls -> applies q l = true -> bucket_admits false s t (key_of q l) 1 = true).
Proof.
  intros ls q s t ND. rewrite (request_admitted_iff_proved ls q s t [] ND), all_admit_strict, negb_false_iff, forallb_forall.
  unfold req_keys, limits_for. split.
  - intros H l Hin Ha. apply H. apply in_map. apply filter_In; auto.
  - intros H k Hk. apply in_map_iff in Hk. destruct Hk as (l & <- & Hl). apply filter_In in Hl. destruct Hl. auto.
Qed.

Lemma not_in_existsb k keys : ~ In k keys -> existsb (key_eqb k) keys = false.
Proof.
  induction keys as [|x r IH]; cbn; auto. intros H. rewrite IH by tauto. rewrite key_neq_eqb; auto.
Qed.

(* buckets of limits that do not apply - and every other bucket of those that do - are untouched *)
Theorem non_applicable_untouched_proved : forall ls q s t coins k,
  ~ In k (req_keys ls q) -> bk (snd (xexceeded s t coins ls q)) k = bk s k.
Proof.
  intros ls q s t coins k Hnin. unfold xexceeded. destruct (req_keys ls q) as [|k0 r] eqn:E; [reflexivity|].
  unfold xtake, take. destruct (take_loop x_new x_allow s t 1 coins (k0 :: r) []) as [[ok exc] s'] eqn:ET. cbn [snd].
  eapply take_loop_frame; eauto. apply not_in_existsb; auto.
Qed.

Theorem refused_request_consumes_nothing_proved : forall ls q s t coins exc s' k l,
  xexceeded s t coins ls q = (true, exc, s') ->
  has_bucket s k l -> xk l = XNorm -> lim_ok l -> xlast l <= t ->
  exists l', has_bucket s' k l' /\ lim_equiv t l' l.
Proof.
  intros ls q s t coins exc s' k l E Hb K OK L. unfold xexceeded in E.
  destruct (req_keys ls q) as [|k0 r]; [discriminate|].
  destruct (xtake s t coins (k0 :: r) 1) as [[ok exc1] s1] eqn:ET. inversion E; subst. destruct ok; [discriminate|].
  exact (all_or_nothing_proved s t coins (k0 :: r) 1 false exc s' k l ET ltac:(lia) Hb K OK L).
Qed.

(* a declared rate above one operation per ns (0 <= P < N): the bucket works at 1 token per ns *)
Lemma sub_ns_interval_is_clamped st : 1 <= bs_max st -> bs_period st < bs_max st -> eff_interval st = 1.
Proof.
  intros HM HP. destruct (eff_interval_spec st HM) as [HI [[H0 HC]|HC]]; auto. nia.
Qed.

Theorem sub_ns_bucket_proved : forall st t, fresh_cfg st -> bs_period st < bs_max st -> maxd <= t ->
  x_new st t = mkXL XNorm (bs_max st) 1 (fresh_tokens st) t false.
Proof.
  intros st t F HP Ht. pose proof F as ((H1 & _) & _ & _).
  rewrite (x_new_clean st t F Ht), (sub_ns_interval_is_clamped st H1 HP), Z.mul_1_r. reflexivity.
Qed.

(* ---------- GetBucketState -> SetBucketState ---------- *)
Lemma x_taken_rounds_up : x_taken = x_taken_gen true.
Proof. reflexivity. Qed.

(* the tokens SetBucketState leaves when handed the reported state (N - taken) never exceed the
   credit the bucket holds: writing a state back cannot mint capacity *)
Theorem round_trip_never_mints_proved : forall l t,
  xk l = XNorm -> lim_ok l -> xlast l <= t -> xburst l + 1 <= max_u32 ->
  (xburst l - x_taken l t) * xI l <= pot l t.
Proof.
  intros l t K OK L HB. rewrite x_taken_rounds_up. unfold x_taken_gen. rewrite K, (x_avail_eq l t L).
  pose proof (pot_lower l t OK L) as Hp. pose proof (pot_le_cap l t) as Hc. destruct OK as (HI & HN & _ & _).
  unfold xcap in *. set (p := pot l t) in *. set (I := xI l) in *. set (N := xburst l) in *.
  pose proof (Z.div_mod (N * I - p + I - 1) I ltac:(lia)) as E. pose proof (Z.mod_pos_bound (N * I - p + I - 1) I ltac:(lia)) as B.
  set (v := (N * I - p + I - 1) / I) in *.
  assert (v <= N + 1) by nia.
  rewrite Z.min_r by (unfold max_u32 in *; lia). nia.
Qed.
