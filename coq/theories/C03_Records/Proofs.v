(* C03 - proofs about the record-store model: key injectivity, one-step characterisation of
   Apply, the fold specification, re-apply idempotence, frame. *)
From Coq Require Import List NArith ZArith Lia Bool Arith.
From V Require Import Lib.Lex Lib.SMap Lib.Check Gen.Params C03_Records.Model.
Import ListNotations.
Local Open Scope N_scope.

(* ---------- generic list helpers ---------- *)

Lemma app_inj_len {A} (a a' b b' : list A) :
  length a = length a' -> a ++ b = a' ++ b' -> a = a' /\ b = b'.
Proof.
  revert a'; induction a as [|x a IH]; intros [|x' a'] HL E; cbn in *; try discriminate; auto.
  inversion E as [[Ex Et]]. destruct (IH a' (eq_add_S _ _ HL) Et) as [-> ->]. auto.
Qed.

Lemma filter_key_not_in {A} (key : A -> N) (l : list A) id :
  ~ In id (map key l) -> filter (fun y => key y =? id) l = [].
Proof.
  induction l as [|x l IH]; cbn; intros NI; auto.
  destruct (key x =? id) eqn:E.
  - apply N.eqb_eq in E. exfalso; apply NI; auto.
  - apply IH. intros H; apply NI; auto.
Qed.

Lemma filter_key_nodup {A} (key : A -> N) (l : list A) x :
  NoDup (map key l) -> In x l -> filter (fun y => key y =? key x) l = [x].
Proof.
  induction l as [|y l IH]; cbn; intros ND HI; [contradiction|].
  inversion ND as [|k ks NI ND']; subst.
  destruct HI as [->|HI].
  - rewrite N.eqb_refl. f_equal. apply filter_key_not_in; exact NI.
  - destruct (key y =? key x) eqn:E.
    + apply N.eqb_eq in E. exfalso; apply NI. rewrite E. apply in_map; exact HI.
    + apply IH; auto.
Qed.

Lemma nodupb_NoDup l : nodupb l = true -> NoDup l.
Proof.
  induction l as [|x l IH]; cbn; intros H; [constructor|].
  apply andb_true_iff in H as [H1 H2]. constructor; auto.
  intros HI. apply negb_true_iff in H1.
  assert (existsb (N.eqb x) l = true) as C by (apply existsb_exists; exists x; split; auto; apply N.eqb_refl).
  congruence.
Qed.

Lemma NoDup_nodupb l : NoDup l -> nodupb l = true.
Proof.
  induction 1 as [|x l NI ND IH]; cbn; auto.
  rewrite IH, andb_true_r. apply negb_true_iff.
  destruct (existsb (N.eqb x) l) eqn:E; auto.
  apply existsb_exists in E as [y [HI E]]. apply N.eqb_eq in E; subst. contradiction.
Qed.

(* ---------- equality tests ---------- *)

Lemma fval_eqb_eq a b : fval_eqb a b = true <-> a = b.
Proof.
  destruct a as [x|x], b as [y|y]; cbn; try (split; congruence).
  - rewrite Z.eqb_eq. split; congruence.
  - rewrite lex_eqb_eq. split; congruence.
Qed.

Lemma ofval_eqb_eq (a b : option fval) : option_eqb fval_eqb a b = true <-> a = b.
Proof.
  destruct a, b; cbn; try (split; congruence).
  rewrite fval_eqb_eq. split; congruence.
Qed.

Lemma rec_eqb_eq a b : rec_eqb a b = true <-> a = b.
Proof.
  destruct a as [i q p c act f], b as [i' q' p' c' act' f']; unfold rec_eqb; cbn.
  rewrite !andb_true_iff, !N.eqb_eq, Bool.eqb_true_iff, (list_eqb_eq _ ofval_eqb_eq).
  split; [intros [[[[[-> ->] ->] ->] ->] ->]; reflexivity | intros E; inversion E; auto 10].
Qed.

Lemma orec_eqb_eq (a b : option rec) : option_eqb rec_eqb a b = true <-> a = b.
Proof.
  destruct a, b; cbn; try (split; congruence).
  rewrite rec_eqb_eq. split; congruence.
Qed.

(* ---------- record key ---------- *)

Lemma nbytes_length w n : length (nbytes w n) = w.
Proof. unfold nbytes; destruct rec_key_endian; [apply le_bytes_length | apply be_bytes_length]. Qed.

Lemma nbytes_inj w a b : a < 256 ^ N.of_nat w -> b < 256 ^ N.of_nat w -> nbytes w a = nbytes w b -> a = b.
Proof. unfold nbytes; destruct rec_key_endian; [apply le_bytes_inj | apply be_bytes_inj]. Qed.

Lemma crack_inj bits a b :
  N.shiftr a bits = N.shiftr b bits -> N.land a (N.ones bits) = N.land b (N.ones bits) -> a = b.
Proof.
  rewrite !N.shiftr_div_pow2, !N.land_ones. intros Hd Hm.
  assert (2 ^ bits <> 0) as NZ by (apply N.pow_nonzero; lia).
  rewrite (N.div_mod a (2 ^ bits) NZ), (N.div_mod b (2 ^ bits) NZ). congruence.
Qed.

Section Key.
Hypothesis Hmask : rec_low_mask = N.ones rec_partition_bits.
Hypothesis Hbits : rec_partition_bits <= 16.
Hypothesis Hreload : rec_apply_reloads_origin = true.

Lemma rec_key_inj ws id ws' id' :
  ws < bound64 -> id < bound64 -> ws' < bound64 -> id' < bound64 ->
  rec_key ws id = rec_key ws' id' -> ws = ws' /\ id = id'.
Proof.
  unfold bound64. intros Hw Hi Hw' Hi' E. unfold rec_key in E.
  assert (256 ^ N.of_nat 8 = 2 ^ 64) as P8 by reflexivity.
  assert (256 ^ N.of_nat 2 = 2 ^ 16) as P2 by reflexivity.
  apply app_inj_len in E as [E1 E2]; [|rewrite !nbytes_length; reflexivity].
  apply app_inj_len in E2 as [E2 E3]; [|rewrite !nbytes_length; reflexivity].
  assert (forall x, x < 2 ^ 64 -> N.shiftr x rec_partition_bits < 2 ^ 64) as SH.
  { intros x Hx. rewrite N.shiftr_div_pow2. eapply N.le_lt_trans; [|exact Hx].
    apply N.div_le_upper_bound; [apply N.pow_nonzero; lia|].
    assert (2 ^ rec_partition_bits <> 0) by (apply N.pow_nonzero; lia). nia. }
  assert (forall x, N.land x rec_low_mask < 2 ^ 16) as LM.
  { intros x. rewrite Hmask, N.land_ones.
    eapply N.lt_le_trans; [apply N.mod_lt, N.pow_nonzero; lia|].
    apply N.pow_le_mono_r; [lia|exact Hbits]. }
  apply nbytes_inj in E1; [|rewrite P8; assumption..].
  apply nbytes_inj in E2; [|rewrite P8; apply SH; assumption..].
  apply nbytes_inj in E3; [|rewrite P2; apply LM..].
  split; [exact E1|]. rewrite Hmask in E3. eapply crack_inj; eassumption.
Qed.

(* ---------- store laws ---------- *)

Lemma lookup_put_same st ws id r : lookup (put st ws id r) ws id = Some r.
Proof. apply sm_get_put_same. Qed.

Lemma lookup_put_other st ws id r ws' id' :
  ws < bound64 -> id < bound64 -> ws' < bound64 -> id' < bound64 ->
  (ws', id') <> (ws, id) -> lookup (put st ws id r) ws' id' = lookup st ws' id'.
Proof.
  intros Hw Hi Hw' Hi' NE. apply sm_get_put_other. intros E.
  apply rec_key_inj in E as [-> ->]; auto.
Qed.

Lemma sm_put_get_id {V} k (v : V) m : sm_get k m = Some v -> sm_put k v m = m.
Proof.
  induction m as [|[k' v'] r IH]; cbn; [discriminate|].
  destruct (lex_cmp k k') eqn:E; intros H.
  - apply lex_cmp_eq in E. congruence.
  - discriminate.
  - rewrite IH; auto.
Qed.

Lemma put_same_id st ws id r : lookup st ws id = Some r -> put st ws id r = st.
Proof. apply sm_put_get_id. Qed.

(* ---------- overlay ---------- *)

Lemma app_change_idem c o : app_change c (app_change c o) = app_change c o.
Proof. destruct c as [|[z|[|x s]]|]; reflexivity. Qed.

Lemma overlay_nil_r o : overlay o [] = o.
Proof. destruct o; reflexivity. Qed.

Lemma overlay_idem o c : overlay (overlay o c) c = overlay o c.
Proof.
  revert c; induction o as [|x o IH]; intros [|y c]; cbn; auto.
  rewrite app_change_idem, IH. reflexivity.
Qed.

Lemma overlay_length o c : length (overlay o c) = length o.
Proof. revert c; induction o as [|x o IH]; intros [|y c]; cbn; auto. Qed.

Lemma nth_overlay o : forall c i, (i < length o)%nat ->
  nth i (overlay o c) None = app_change (nth i c Keep) (nth i o None).
Proof.
  induction o as [|x o IH]; intros c i HL; cbn in HL; [lia|].
  destruct c as [|y c]; destruct i as [|i]; cbn; auto.
  apply IH. lia.
Qed.

Lemma overlay_map_seq (f : nat -> option fval) n : forall s cs,
  overlay (map f (seq s n)) cs = map (fun i => app_change (nth (i - s) cs Keep) (f i)) (seq s n).
Proof.
  induction n as [|n IH]; intros s cs; [reflexivity|].
  cbn [seq map]. destruct cs as [|y cs].
  - rewrite overlay_nil_r. cbn [map]. f_equal.
    + destruct (s - s)%nat; reflexivity.
    + apply map_ext. intros i. destruct (i - s)%nat; reflexivity.
  - cbn [overlay]. rewrite Nat.sub_diag. cbn [nth]. f_equal.
    rewrite IH. apply map_ext_in. intros i HI. apply in_seq in HI.
    replace (i - s)%nat with (S (i - S s)) by lia. reflexivity.
Qed.

Lemma map_nth_seq {A B} (g : A -> B) (d : A) (cs : list A) : forall s,
  map (fun i => g (nth (i - s) cs d)) (seq s (length cs)) = map g cs.
Proof.
  induction cs as [|c cs IH]; intros s; [reflexivity|].
  cbn [length seq map]. rewrite Nat.sub_diag. cbn [nth]. f_equal.
  rewrite <- (IH (S s)). apply map_ext_in. intros i HI. apply in_seq in HI.
  replace (i - s)%nat with (S (i - S s)) by lia. reflexivity.
Qed.

Lemma upd_active_idem o u i q p c f : upd_active (mkRec i q p c (upd_active o u) f) u = upd_active o u.
Proof.
  unfold upd_active. cbn [r_active]. destruct (u_assign u); [reflexivity|].
  destruct rec_update_activity_from_store; reflexivity.
Qed.

Lemma build_update_idem o u r : build_update o u = Some r -> build_update r u = Some r.
Proof.
  unfold build_update. destruct (negb (r_id o =? u_id u)) eqn:E1; [discriminate|].
  destruct (negb (u_parent u =? 0) && negb (u_parent u =? r_parent o)) eqn:E2; [discriminate|].
  destruct (negb (u_container u =? 0) && negb (u_container u =? r_container o)) eqn:E3; [discriminate|].
  intros H; inversion H; subst r; clear H. cbn [r_id r_parent r_container r_active r_fields r_qname].
  rewrite E1, E2, E3, overlay_idem, upd_active_idem. reflexivity.
Qed.

Lemma build_update_shape o u r : build_update o u = Some r ->
  r_id o = u_id u /\
  r = mkRec (r_id o) (r_qname o) (r_parent o) (r_container o) (upd_active o u) (overlay (r_fields o) (u_changes u)).
Proof.
  unfold build_update. destruct (negb (r_id o =? u_id u)) eqn:E1; [discriminate|].
  destruct (_ && _); [discriminate|]. destruct (_ && _); [discriminate|].
  intros H; inversion H; subst r; clear H.
  apply negb_false_iff, N.eqb_eq in E1. split; auto.
Qed.

(* ---------- batches ---------- *)

Definition it_id (it : item) : N := fst (fst it).
Definition it_rec (it : item) : rec := snd (fst it).

(* the row a batch finally leaves under id: the last item with that id *)
Fixpoint item_of (id : N) (items : list item) : option rec :=
  match items with
  | [] => None
  | it :: rest => match item_of id rest with
                  | Some x => Some x
                  | None => if it_id it =? id then Some (it_rec it) else None
                  end
  end.

Lemma item_of_not_in id items : ~ In id (map it_id items) -> item_of id items = None.
Proof.
  induction items as [|it rest IH]; cbn; intros NI; auto.
  rewrite IH by tauto. destruct (it_id it =? id) eqn:E; auto.
  apply N.eqb_eq in E. tauto.
Qed.

Lemma item_of_in it items : NoDup (map it_id items) -> In it items -> item_of (it_id it) items = Some (it_rec it).
Proof.
  induction items as [|x rest IH]; cbn; intros ND HI; [contradiction|].
  inversion ND as [|k ks NI ND']; subst. destruct HI as [->|HI].
  - rewrite item_of_not_in by exact NI. rewrite N.eqb_refl. reflexivity.
  - rewrite IH; auto.
Qed.

Definition items_bounded (items : list item) := Forall (fun it => it_id it < bound64) items.

Lemma lookup_put_all items : forall st ws ws' id',
  ws < bound64 -> ws' < bound64 -> id' < bound64 -> items_bounded items ->
  lookup (put_all st ws items) ws' id' =
  if ws' =? ws then match item_of id' items with Some r => Some r | None => lookup st ws' id' end
  else lookup st ws' id'.
Proof.
  induction items as [|[[i r] b] rest IH]; intros st ws ws' id' Hw Hw' Hi' HB.
  - cbn. destruct (ws' =? ws); reflexivity.
  - inversion HB as [|x xs Hx HB']; subst. cbn in Hx. cbn [put_all item_of].
    rewrite IH by assumption. unfold it_id, it_rec; cbn [fst snd].
    destruct (ws' =? ws) eqn:EW.
    + apply N.eqb_eq in EW; subst ws'. destruct (item_of id' rest); auto.
      destruct (i =? id') eqn:EI.
      * apply N.eqb_eq in EI; subst. apply lookup_put_same.
      * apply lookup_put_other; auto. intros C; inversion C; subst. rewrite N.eqb_refl in EI. discriminate.
    + apply lookup_put_other; auto. intros C; inversion C; subst. rewrite N.eqb_refl in EW. discriminate.
Qed.

Lemma put_batch0_ok items : forall st ws,
  ws < bound64 -> items_bounded items -> NoDup (map it_id items) ->
  (forall it, In it items -> snd it = true -> lookup st ws (it_id it) = None) ->
  put_batch0 st ws items = (put_all st ws items, 0).
Proof.
  induction items as [|[[i r] b] rest IH]; intros st ws Hw HB ND HF; [reflexivity|].
  inversion HB as [|x xs Hx HB']; subst. inversion ND as [|k ks NI ND']; subst. cbn in Hx, NI.
  assert (put_batch0 (put st ws i r) ws rest = (put_all (put st ws i r) ws rest, 0)) as Step.
  { apply IH; auto. intros it HI Hn.
    rewrite lookup_put_other; auto.
    - apply HF; [right; exact HI | exact Hn].
    - eapply Forall_forall in HB'; [exact HB'|exact HI].
    - intros C; inversion C as [E]. apply NI. rewrite <- E. apply in_map; exact HI. }
  cbn [put_batch0 put_all]. destruct b; [|exact Step].
  assert (lookup st ws i = None) as HN by (apply (HF (i, r, true)); [left; reflexivity | reflexivity]).
  rewrite HN. exact Step.
Qed.

Lemma put_all_same items : forall st ws,
  (forall it, In it items -> lookup st ws (it_id it) = Some (it_rec it)) -> put_all st ws items = st.
Proof.
  induction items as [|[[i r] b] rest IH]; intros st ws H; [reflexivity|].
  cbn [put_all]. rewrite put_same_id by (apply (H (i, r, b)); left; reflexivity).
  apply IH. intros it HI. apply H. right; exact HI.
Qed.

(* writes outside the batch's ids never happen, even when the batch stops half-way *)
Lemma put_batch0_frame items : forall st ws ws' id',
  ws < bound64 -> ws' < bound64 -> id' < bound64 -> items_bounded items ->
  (ws' <> ws \/ ~ In id' (map it_id items)) ->
  lookup (fst (put_batch0 st ws items)) ws' id' = lookup st ws' id'.
Proof.
  induction items as [|[[i r] b] rest IH]; intros st ws ws' id' Hw Hw' Hi' HB HN; [reflexivity|].
  inversion HB as [|x xs Hx HB']; subst. cbn in Hx.
  assert (lookup (fst (put_batch0 (put st ws i r) ws rest)) ws' id' = lookup st ws' id') as Step.
  { rewrite IH; auto.
    - apply lookup_put_other; auto. intros C; inversion C; subst. destruct HN as [HN|HN]; [congruence|].
      apply HN. left; reflexivity.
    - destruct HN as [HN|HN]; [left; exact HN|right]. intros C. apply HN. right; exact C. }
  cbn [put_batch0]. destruct b; [|exact Step].
  destruct (lookup st ws i); [reflexivity|exact Step].
Qed.

(* ---------- one event ---------- *)

Lemma first_err_0 l : first_err l = 0 -> forall c, In c l -> c = 0.
Proof.
  unfold first_err. intros H c HI. destruct (c =? 0) eqn:E; [apply N.eqb_eq in E; exact E|].
  assert (In c (filter (fun c => negb (c =? 0)) l)) as HF by (apply filter_In; rewrite E; auto).
  destruct (filter (fun c => negb (c =? 0)) l) as [|d r] eqn:EF; [contradiction|]. subst d.
  assert (In 0 (filter (fun c => negb (c =? 0)) l)) as H0 by (rewrite EF; left; reflexivity).
  apply filter_In in H0 as [_ H0]. discriminate.
Qed.

Lemma NoDup_app_disjoint {A} (a b : list A) x : NoDup (a ++ b) -> In x a -> ~ In x b.
Proof.
  induction a as [|y a IH]; cbn; intros ND HI; [contradiction|].
  inversion ND as [|k ks NI ND']; subst. destruct HI as [->|HI]; [|apply IH; auto].
  intros HB. apply NI. apply in_or_app. right; exact HB.
Qed.

Lemma NoDup_app_l {A} (a b : list A) : NoDup (a ++ b) -> NoDup a.
Proof.
  induction a as [|y a IH]; cbn; intros ND; [constructor|].
  inversion ND as [|k ks NI ND']; subst. constructor; auto.
  intros C. apply NI. apply in_or_app. left; exact C.
Qed.

Lemma NoDup_app_r {A} (a b : list A) : NoDup (a ++ b) -> NoDup b.
Proof.
  induction a as [|y a IH]; cbn; intros ND; [exact ND|].
  inversion ND; subst. auto.
Qed.

Lemma update_items_ext f g us : (forall u, In u us -> f u = g u) -> update_items f us = update_items g us.
Proof.
  induction us as [|u us IH]; cbn; intros H; auto.
  rewrite <- (H u) by (left; reflexivity). rewrite IH; auto.
Qed.

(* the row an update leaves, computed from the stored row (total; junk when the update is not applicable) *)
Definition res_of (st : store) (ws : N) (u : update) : rec :=
  match lookup st ws (u_id u) with
  | Some o => match build_update o u with Some r => r | None => o end
  | None => u_origin u
  end.

Definition upd_item (st : store) (ws : N) (u : update) : item := (u_id u, res_of st ws u, false).

Definition ev_items (st : store) (e : event) : list item :=
  create_items (e_creates e) ++ map (upd_item st (e_ws e)) (e_updates e).

Lemma ev_items_ids st e : map it_id (ev_items st e) = event_ids e.
Proof.
  unfold ev_items, event_ids, create_items. rewrite map_app, !map_map. reflexivity.
Qed.

Lemma update_items_stored st ws f us :
  (forall u, In u us -> exists o r, f u = Some o /\ lookup st ws (u_id u) = Some o /\ build_update o u = Some r) ->
  update_items f us = Some (map (upd_item st ws) us).
Proof.
  induction us as [|u us IH]; cbn; intros H; auto.
  destruct (H u (or_introl eq_refl)) as [o [r [Hf [Hl Hb]]]].
  rewrite Hf, Hb, IH by (intros u' HI; apply H; right; exact HI). cbn.
  unfold upd_item at 2, res_of. rewrite Hl, Hb.
  apply build_update_shape in Hb as [Hid ->]. cbn [r_id]. rewrite Hid. reflexivity.
Qed.

Record event_facts (st : store) (e : event) : Prop := {
  ef_ws : e_ws e < bound64;
  ef_ids : Forall (fun i => i < bound64) (event_ids e);
  ef_nodup : NoDup (event_ids e);
  ef_new : forall c, In c (e_creates e) -> lookup st (e_ws e) (c_id c) = None;
  ef_upd : forall u, In u (e_updates e) -> exists o r,
      lookup st (e_ws e) (u_id u) = Some o /\ build_update o u = Some r /\
      eff_origin st (e_ws e) u = Some o;
  ef_act : forall u o, In u (e_updates e) -> lookup st (e_ws e) (u_id u) = Some o ->
      upd_active o u = match u_assign u with Some b => b | None => r_active o end
}.

Lemma valid_event_facts st e : valid_event st e = true -> event_facts st e.
Proof.
  unfold valid_event, valid_event_but_activity, accepts, ev_bounded, fresh_origins, new_ids_fresh.
  rewrite !andb_true_iff, !forallb_forall, N.eqb_eq, N.ltb_lt.
  intros [[[[HA [HW HB]] HFr] HN] HAct]. constructor.
  - exact HW.
  - apply Forall_forall. intros i HI. apply N.ltb_lt. apply HB; exact HI.
  - apply nodupb_NoDup. destruct (nodupb (event_ids e)) eqn:E; [reflexivity|].
    assert ((2 : N) = 0) as C; [|discriminate].
    apply (first_err_0 _ HA). unfold check_event. apply in_or_app; right. rewrite E. left; reflexivity.
  - intros c HI. specialize (HN c HI). destruct (lookup st (e_ws e) (c_id c)); [discriminate|reflexivity].
  - intros u HI. specialize (HFr u HI). apply andb_true_iff in HFr as [Hid HFr]. apply N.eqb_eq in Hid.
    destruct (lookup st (e_ws e) (u_id u)) as [o|] eqn:EL; [|discriminate].
    destruct (build_update o u) as [r|] eqn:EB; [|discriminate].
    exists o, r. repeat split; auto. unfold eff_origin. rewrite Hreload, Hid. exact EL.
  - intros u o HI HL. unfold upd_active. destruct (u_assign u) as [b|] eqn:EA; [reflexivity|].
    unfold activity_ok in HAct. destruct rec_update_activity_from_store; [reflexivity|].
    cbn [orb] in HAct. rewrite forallb_forall in HAct. specialize (HAct u HI).
    rewrite EA, HL in HAct. apply Bool.eqb_prop in HAct. exact HAct.
Qed.

Lemma ef_id_lt st e i : event_facts st e -> In i (event_ids e) -> i < bound64.
Proof. intros F HI. pose proof (ef_ids _ _ F) as HB. rewrite Forall_forall in HB. apply HB; exact HI. Qed.

Lemma ev_items_bounded st e : event_facts st e -> items_bounded (ev_items st e).
Proof.
  intros F. unfold items_bounded. apply Forall_forall. intros it HI.
  apply (ef_id_lt st e _ F). rewrite <- (ev_items_ids st e). apply in_map; exact HI.
Qed.

Lemma valid_apply_items st e : event_facts st e ->
  apply_items st e = Some (ev_items st e) /\ reapply_items st e = Some (ev_items st e).
Proof.
  intros F. unfold apply_items, reapply_items, ev_items. split.
  - rewrite (update_items_stored st (e_ws e)); [reflexivity|].
    intros u HI. destruct (ef_upd _ _ F u HI) as [o [r [Hl [Hb He]]]]. exists o, r; auto.
  - rewrite (update_items_stored st (e_ws e)); [reflexivity|].
    intros u HI. destruct (ef_upd _ _ F u HI) as [o [r [Hl [Hb He]]]]. exists o, r; auto.
Qed.

Lemma apply_valid st e : event_facts st e -> apply st e = (put_all st (e_ws e) (ev_items st e), 0).
Proof.
  intros F. unfold apply. rewrite (proj1 (valid_apply_items st e F)).
  apply put_batch0_ok.
  - exact (ef_ws _ _ F).
  - apply ev_items_bounded; exact F.
  - rewrite ev_items_ids. exact (ef_nodup _ _ F).
  - intros it HI Hn. unfold ev_items in HI. apply in_app_or in HI as [HI|HI].
    + unfold create_items in HI. apply in_map_iff in HI as [c [<- HC]]. apply (ef_new _ _ F c HC).
    + apply in_map_iff in HI as [u [<- HU]]. discriminate.
Qed.

(* what the store says about (ws', id') after a valid event *)
Lemma lookup_apply_valid st e ws' id' : event_facts st e -> ws' < bound64 -> id' < bound64 ->
  lookup (fst (apply st e)) ws' id' =
  if ws' =? e_ws e then match item_of id' (ev_items st e) with Some r => Some r | None => lookup st ws' id' end
  else lookup st ws' id'.
Proof.
  intros F Hw Hi. rewrite (apply_valid st e F). cbn [fst].
  apply lookup_put_all; auto; [exact (ef_ws _ _ F) | apply ev_items_bounded; exact F].
Qed.

Lemma item_of_create st e c : event_facts st e -> In c (e_creates e) ->
  item_of (c_id c) (ev_items st e) = Some (create_rec c).
Proof.
  intros F HI. apply (item_of_in (c_id c, create_rec c, true)).
  - rewrite ev_items_ids. exact (ef_nodup _ _ F).
  - unfold ev_items. apply in_or_app; left. unfold create_items.
    apply (in_map (fun c => (c_id c, create_rec c, true))). exact HI.
Qed.

Lemma item_of_update st e u : event_facts st e -> In u (e_updates e) ->
  item_of (u_id u) (ev_items st e) = Some (res_of st (e_ws e) u).
Proof.
  intros F HI. apply (item_of_in (upd_item st (e_ws e) u)).
  - rewrite ev_items_ids. exact (ef_nodup _ _ F).
  - unfold ev_items. apply in_or_app; right. apply in_map. exact HI.
Qed.

(* ---------- the fold specification ---------- *)

Definition spec_ok (st : store) (hr : list event) : Prop :=
  forall ws id, ws < bound64 -> id < bound64 -> lookup st ws id = spec_rec (touches hr ws id) id.

Lemma touches_cons e hr ws id : touches (e :: hr) ws id = ev_touches ws id e ++ touches hr ws id.
Proof. reflexivity. Qed.

Lemma ev_touches_none e ws id : (e_ws e <> ws \/ ~ In id (event_ids e)) -> ev_touches ws id e = [].
Proof.
  unfold ev_touches. intros [H|H].
  - destruct (e_ws e =? ws) eqn:E; auto. apply N.eqb_eq in E. contradiction.
  - destruct (e_ws e =? ws); auto. unfold event_ids in H.
    rewrite (filter_key_not_in c_id), (filter_key_not_in u_id); auto.
    + intros C. apply H. apply in_or_app. right; exact C.
    + intros C. apply H. apply in_or_app. left; exact C.
Qed.

Lemma ev_touches_create e c : NoDup (event_ids e) -> In c (e_creates e) ->
  ev_touches (e_ws e) (c_id c) e = [TCreate c].
Proof.
  intros ND HI. unfold ev_touches. rewrite N.eqb_refl. unfold event_ids in ND.
  rewrite (filter_key_nodup c_id) by (try exact HI; eapply NoDup_app_l; exact ND).
  rewrite (filter_key_not_in u_id); [reflexivity|].
  eapply NoDup_app_disjoint; [exact ND|]. apply in_map; exact HI.
Qed.

Lemma ev_touches_update e u : NoDup (event_ids e) -> In u (e_updates e) ->
  ev_touches (e_ws e) (u_id u) e = [TUpdate u].
Proof.
  intros ND HI. unfold ev_touches. rewrite N.eqb_refl. unfold event_ids in ND.
  rewrite (filter_key_nodup u_id) by (try exact HI; eapply NoDup_app_r; exact ND).
  rewrite (filter_key_not_in c_id); [reflexivity|].
  intros C. eapply NoDup_app_disjoint; [exact ND|exact C|]. apply in_map; exact HI.
Qed.

Lemma spec_create c older :
  spec_rec (TCreate c :: older) (c_id c) = Some (create_rec c).
Proof.
  unfold spec_rec, create_rec. cbn [created_by active_of]. do 2 f_equal.
  rewrite <- (map_nth_seq (fun ch => app_change ch None) Keep (c_sets c) 0).
  apply map_ext. intros i. cbn [field_of]. rewrite Nat.sub_0_r. reflexivity.
Qed.

Lemma spec_update u older o r :
  spec_rec older (u_id u) = Some o -> build_update o u = Some r ->
  upd_active o u = match u_assign u with Some b => b | None => r_active o end ->
  spec_rec (TUpdate u :: older) (u_id u) = Some r.
Proof.
  unfold spec_rec. cbn [created_by active_of]. destruct (created_by older) as [c|]; [|discriminate].
  intros H B A. inversion H; subst o; clear H. apply build_update_shape in B as [_ ->].
  cbn [r_id r_qname r_parent r_container r_fields r_active] in *. rewrite A. f_equal. f_equal.
  rewrite overlay_map_seq. apply map_ext. intros i. cbn [field_of]. rewrite Nat.sub_0_r. reflexivity.
Qed.

Lemma step_spec st hr e : spec_ok st hr -> valid_event st e = true -> spec_ok (fst (apply st e)) (e :: hr).
Proof.
  intros I V ws id Hw Hi. pose proof (valid_event_facts st e V) as F.
  rewrite (lookup_apply_valid st e ws id F Hw Hi), touches_cons.
  destruct (ws =? e_ws e) eqn:EW.
  - apply N.eqb_eq in EW; subst ws.
    destruct (in_dec N.eq_dec id (event_ids e)) as [HI|HN].
    + unfold event_ids in HI. apply in_app_or in HI as [HI|HI]; apply in_map_iff in HI as [x [<- HX]].
      * rewrite (item_of_create st e x F HX), (ev_touches_create e x (ef_nodup _ _ F) HX).
        cbn [app]. symmetry. apply spec_create.
      * rewrite (item_of_update st e x F HX), (ev_touches_update e x (ef_nodup _ _ F) HX).
        cbn [app]. destruct (ef_upd _ _ F x HX) as [o [r [Hl [Hb _]]]].
        unfold res_of. rewrite Hl, Hb. symmetry. eapply spec_update; [|exact Hb|exact (ef_act _ _ F x o HX Hl)].
        rewrite <- Hl. symmetry. apply I; auto.
    + rewrite item_of_not_in by (rewrite ev_items_ids; exact HN).
      rewrite ev_touches_none by (right; exact HN). cbn [app]. apply I; auto.
  - rewrite ev_touches_none; [cbn [app]; apply I; auto|].
    left. intros C. subst ws. rewrite N.eqb_refl in EW. discriminate.
Qed.

Lemma spec_ok_init : spec_ok [] [].
Proof. intros ws id _ _. reflexivity. Qed.

Lemma run_spec h : forall st hr, spec_ok st hr -> valid_history st h = true -> spec_ok (run st h) (rev h ++ hr).
Proof.
  induction h as [|e h IH]; intros st hr I V; [exact I|].
  cbn in V. apply andb_true_iff in V as [V1 V2].
  cbn [rev]. rewrite <- app_assoc. cbn [app]. change (run st (e :: h)) with (run (fst (apply st e)) h).
  apply IH; [apply step_spec; assumption | exact V2].
Qed.

Theorem apply_fold_spec_proved h ws id :
  valid_history [] h = true -> ws < bound64 -> id < bound64 ->
  lookup (run [] h) ws id = spec_rec (touches (rev h) ws id) id.
Proof.
  intros V Hw Hi. pose proof (run_spec h [] [] spec_ok_init V) as S. rewrite app_nil_r in S.
  apply S; assumption.
Qed.

(* a record no event created does not exist *)
Lemma spec_untouched ts id : created_by ts = None -> spec_rec ts id = None.
Proof. unfold spec_rec. intros ->. reflexivity. Qed.

Lemma touches_no_create hr ws id :
  (forall e c, In e hr -> e_ws e = ws -> In c (e_creates e) -> c_id c <> id) -> created_by (touches hr ws id) = None.
Proof.
  induction hr as [|e hr IH]; intros H; [reflexivity|].
  rewrite touches_cons.
  assert (forall l older, created_by (map TUpdate l ++ older) = created_by older) as UP.
  { induction l as [|u l IHl]; intros older; cbn; auto. }
  unfold ev_touches. destruct (e_ws e =? ws) eqn:EW; [|cbn [app]; apply IH; intros e' c HI; apply H; right; exact HI].
  apply N.eqb_eq in EW.
  assert (filter (fun c => c_id c =? id) (e_creates e) = []) as FC.
  { apply filter_key_not_in. intros C. apply in_map_iff in C as [c [E HC]].
    apply (H e c (or_introl eq_refl) EW HC E). }
  rewrite FC. cbn [map app]. rewrite <- map_rev, UP. apply IH. intros e' c HI. apply H. right; exact HI.
Qed.

(* ---------- re-apply ---------- *)

Section Reapply.
Hypothesis Hover : rec_reapply_overwrites = true.

Theorem reapply_idem_proved st e :
  valid_event st e = true -> reapply (fst (apply st e)) e = (fst (apply st e), 0).
Proof.
  intros V. pose proof (valid_event_facts st e V) as F.
  set (st' := fst (apply st e)).
  assert (forall u, In u (e_updates e) -> lookup st' (e_ws e) (u_id u) = Some (res_of st (e_ws e) u)) as LU.
  { intros u HU. unfold st'. rewrite (lookup_apply_valid st e _ _ F (ef_ws _ _ F)).
    - rewrite N.eqb_refl, (item_of_update st e u F HU). reflexivity.
    - apply (ef_id_lt st e _ F). unfold event_ids. apply in_or_app; right. apply in_map; exact HU. }
  assert (forall c, In c (e_creates e) -> lookup st' (e_ws e) (c_id c) = Some (create_rec c)) as LC.
  { intros c HC. unfold st'. rewrite (lookup_apply_valid st e _ _ F (ef_ws _ _ F)).
    - rewrite N.eqb_refl, (item_of_create st e c F HC). reflexivity.
    - apply (ef_id_lt st e _ F). unfold event_ids. apply in_or_app; left. apply in_map; exact HC. }
  assert (forall u, In u (e_updates e) -> res_of st' (e_ws e) u = res_of st (e_ws e) u) as RU.
  { intros u HU. unfold res_of at 1. rewrite (LU u HU).
    destruct (ef_upd _ _ F u HU) as [o [r [Hl [Hb _]]]]. unfold res_of. rewrite Hl, Hb.
    rewrite (build_update_idem o u r Hb). reflexivity. }
  unfold reapply, reapply_items. rewrite Hover.
  rewrite (update_items_stored st' (e_ws e)).
  - cbn [option_map]. f_equal. apply put_all_same. intros it HI.
    apply in_app_or in HI as [HI|HI].
    + unfold create_items in HI. apply in_map_iff in HI as [c [<- HC]]. apply LC; exact HC.
    + apply in_map_iff in HI as [u [<- HU]]. unfold upd_item, it_id, it_rec; cbn [fst snd].
      rewrite (RU u HU). apply LU; exact HU.
  - intros u HU. destruct (ef_upd _ _ F u HU) as [o [r [Hl [Hb _]]]].
    exists (res_of st (e_ws e) u), (res_of st (e_ws e) u). rewrite (LU u HU). repeat split.
    unfold res_of. rewrite Hl, Hb. apply (build_update_idem o u r Hb).
Qed.

(* recovery of an event that was logged but not yet applied does what Apply would have done *)
Theorem reapply_completes_apply_proved st e :
  valid_event st e = true -> reapply st e = apply st e.
Proof.
  intros V. pose proof (valid_event_facts st e V) as F.
  rewrite (apply_valid st e F). unfold reapply. rewrite (proj2 (valid_apply_items st e F)), Hover. reflexivity.
Qed.

(* histories in which any prefix may be followed by re-applies of its last event *)
Lemma run_ops_applied ops : forall st last,
  (forall e, last = Some e -> reapply st e = (st, 0)) ->
  valid_ops st last ops = true ->
  run_ops st last ops = run st (applied ops) /\ valid_history st (applied ops) = true.
Proof.
  induction ops as [|[e|] ops IH]; intros st last HL V; [split; reflexivity| |].
  - cbn in V. apply andb_true_iff in V as [V1 V2]. cbn [run_ops applied valid_history].
    rewrite V1. cbn [andb]. change (run st (e :: applied ops)) with (run (fst (apply st e)) (applied ops)).
    apply IH; [|exact V2]. intros e' E. inversion E; subst e'. apply reapply_idem_proved; exact V1.
  - cbn in V. destruct last as [e|]; [|discriminate]. cbn [run_ops applied].
    rewrite (HL e eq_refl) in *. cbn [fst] in *. apply IH; assumption.
Qed.

Theorem fold_spec_with_reapply_proved ops ws id :
  valid_ops [] None ops = true -> ws < bound64 -> id < bound64 ->
  lookup (run_ops [] None ops) ws id = spec_rec (touches (rev (applied ops)) ws id) id.
Proof.
  intros V Hw Hi. destruct (run_ops_applied ops [] None) as [E VH]; [discriminate|exact V|].
  rewrite E. apply apply_fold_spec_proved; assumption.
Qed.

End Reapply.

(* ---------- frame ---------- *)

Lemma update_items_ids f us its : update_items f us = Some its -> map it_id its = map u_id us.
Proof.
  revert its; induction us as [|u us IH]; cbn; intros its H; [inversion H; reflexivity|].
  destruct (f u) as [o|]; [|discriminate]. destruct (build_update o u) as [r|] eqn:B; [|discriminate].
  destruct (update_items f us) as [its'|]; [|discriminate]. inversion H; subst its; clear H.
  cbn [map]. rewrite (IH its' eq_refl). f_equal.
  apply build_update_shape in B as [Hid ->]. exact Hid.
Qed.

(* any Apply - accepted or not, complete or stopped half-way - leaves every record that the event
   does not name exactly as it was, in every workspace *)
Theorem apply_frame_proved st e ws' id' :
  ev_bounded e = true -> ws' < bound64 -> id' < bound64 ->
  (ws' <> e_ws e \/ ~ In id' (event_ids e)) ->
  lookup (fst (apply st e)) ws' id' = lookup st ws' id'.
Proof.
  intros B Hw Hi HN. unfold apply, apply_items.
  destruct (update_items (eff_origin st (e_ws e)) (e_updates e)) as [its|] eqn:EU; [|reflexivity].
  cbn [option_map]. unfold ev_bounded in B. apply andb_true_iff in B as [BW BI]. apply N.ltb_lt in BW.
  assert (map it_id (create_items (e_creates e) ++ its) = event_ids e) as IDS.
  { unfold event_ids, create_items. rewrite map_app, map_map. cbn. rewrite (update_items_ids _ _ _ EU). reflexivity. }
  apply put_batch0_frame; auto.
  - apply Forall_forall. intros it HI. apply N.ltb_lt. rewrite forallb_forall in BI. apply BI.
    rewrite <- IDS. apply in_map; exact HI.
  - rewrite IDS. exact HN.
Qed.

(* an update leaves every field it does not name as it was *)
Theorem update_keeps_unnamed_proved o u r i :
  build_update o u = Some r -> (i < length (r_fields o))%nat -> nth i (u_changes u) Keep = Keep ->
  nth i (r_fields r) None = nth i (r_fields o) None.
Proof.
  intros B HL HK. apply build_update_shape in B as [_ ->]. cbn [r_fields].
  rewrite nth_overlay by exact HL. rewrite HK. reflexivity.
Qed.

End Key.

Section Corollaries.
Hypothesis Hmask : rec_low_mask = N.ones rec_partition_bits.
Hypothesis Hbits : rec_partition_bits <= 16.
Hypothesis Hreload : rec_apply_reloads_origin = true.

Theorem untouched_absent_proved h ws id :
  valid_history [] h = true -> ws < bound64 -> id < bound64 ->
  (forall e c, In e h -> e_ws e = ws -> In c (e_creates e) -> c_id c <> id) ->
  lookup (run [] h) ws id = None.
Proof.
  intros V Hw Hi H. rewrite (apply_fold_spec_proved Hmask Hbits Hreload h ws id V Hw Hi).
  apply spec_untouched, touches_no_create. intros e c HI. apply H. apply in_rev; exact HI.
Qed.

End Corollaries.

(* ---------- link: the oracle accepts every run of the model on a valid history ---------- *)

Section Link.
Hypothesis Hmask : rec_low_mask = N.ones rec_partition_bits.
Hypothesis Hbits : rec_partition_bits <= 16.
Hypothesis Hreload : rec_apply_reloads_origin = true.
Hypothesis Hover : rec_reapply_overwrites = true.

Lemma orec_eqb_refl (a : option rec) : option_eqb rec_eqb a a = true.
Proof. apply orec_eqb_eq. reflexivity. Qed.

Definition qs_bounded (qs : list (N * N)) := Forall (fun q => fst q < bound64 /\ snd q < bound64) qs.

Lemma satisfies_obs_all st hr qs rest :
  spec_ok st hr -> qs_bounded qs ->
  satisfies_from hr (obs_all st qs ++ rest) = satisfies_from hr rest.
Proof.
  intros I. induction qs as [|[ws id] qs IH]; intros B; [reflexivity|].
  inversion B as [|x xs [Hw Hi] B']; subst. cbn in Hw, Hi. cbn [obs_all map app satisfies_from fst snd].
  rewrite (I ws id Hw Hi), orec_eqb_refl. cbn [andb]. apply IH; exact B'.
Qed.

Lemma valid_in_domain st hr e : spec_ok st hr -> valid_event st e = true -> in_domain hr e = true.
Proof.
  intros I V. pose proof (valid_event_facts Hreload st e V) as F.
  unfold in_domain. rewrite !andb_true_iff, !forallb_forall. repeat split.
  - apply NoDup_nodupb. exact (ef_nodup _ _ F).
  - intros c HC. rewrite <- (I (e_ws e) (c_id c)).
    + rewrite (ef_new _ _ F c HC). reflexivity.
    + exact (ef_ws _ _ F).
    + apply (ef_id_lt st e _ F). unfold event_ids. apply in_or_app; left. apply in_map; exact HC.
Qed.

Lemma list_eqb_refl {T} (eqb : T -> T -> bool) (l : list T) : (forall x, In x l -> eqb x x = true) -> list_eqb eqb l l = true.
Proof.
  induction l as [|x l IH]; cbn; intros H; [reflexivity|].
  rewrite (H x (or_introl eq_refl)), IH; auto.
Qed.

Lemma fchange_eqb_refl c : fchange_eqb c c = true.
Proof.
  unfold fchange_eqb. destruct (norm_change c) as [|v|]; try reflexivity. apply fval_eqb_eq. reflexivity.
Qed.

Lemma create_eqb_refl c : create_eqb c c = true.
Proof.
  unfold create_eqb. rewrite !N.eqb_refl, !Bool.eqb_reflx, list_eqb_refl; [reflexivity|].
  intros x _. apply fchange_eqb_refl.
Qed.

Lemma update_built_eqb_refl u : update_built_eqb u u = true.
Proof.
  unfold update_built_eqb. rewrite N.eqb_refl, list_eqb_refl by (intros x _; apply fchange_eqb_refl).
  destruct (u_assign u) as [[|]|]; reflexivity.
Qed.

Lemma built_eqb_refl e : built_eqb e e = true.
Proof.
  unfold built_eqb. rewrite N.eqb_refl, Nat.eqb_refl, list_eqb_refl by (intros x _; apply create_eqb_refl).
  cbn [andb]. apply forallb_forall. intros u HU. apply existsb_exists. exists u. split; [exact HU|apply update_built_eqb_refl].
Qed.

Lemma satisfies_model_trace_from ops qs : forall st last hr,
  spec_ok st hr -> qs_bounded qs ->
  (forall e, last = Some e -> reapply st e = (st, 0)) ->
  valid_ops st last ops = true ->
  satisfies_from hr (model_trace st last ops qs) = true.
Proof.
  induction ops as [|[e|] ops IH]; intros st last hr I B HL V; [reflexivity| |].
  - cbn in V. apply andb_true_iff in V as [V1 V2]. cbn [model_trace].
    pose proof (valid_event_facts Hreload st e V1) as F.
    rewrite (apply_valid Hmask Hbits st e F) in *. cbn [fst snd] in *. cbn [satisfies_from].
    rewrite N.eqb_refl, (valid_in_domain st hr e I V1). cbn [satisfies_from]. rewrite built_eqb_refl. cbn [andb].
    assert (spec_ok (put_all st (e_ws e) (ev_items st e)) (e :: hr)) as I'.
    { pose proof (step_spec Hmask Hbits Hreload st hr e I V1) as S. rewrite (apply_valid Hmask Hbits st e F) in S. exact S. }
    rewrite (satisfies_obs_all _ _ _ _ I' B).
    apply IH; auto. intros e' E. inversion E; subst e'.
    pose proof (reapply_idem_proved Hmask Hbits Hreload Hover st e V1) as R.
    rewrite (apply_valid Hmask Hbits st e F) in R. exact R.
  - cbn in V. destruct last as [e|]; [|discriminate]. cbn [model_trace].
    rewrite (HL e eq_refl) in *. cbn [fst snd] in *. cbn [satisfies_from].
    rewrite (satisfies_obs_all _ _ _ _ I B). apply IH; auto.
Qed.

Theorem satisfies_model_trace_proved ops qs :
  valid_ops [] None ops = true -> qs_bounded qs -> satisfies (model_trace [] None ops qs) = true.
Proof.
  intros V B. apply satisfies_model_trace_from; auto; [apply spec_ok_init | discriminate].
Qed.

End Link.

(* ---------- F-C03-2 repaired: the activity hypothesis is vacuous ---------- *)

Section Activity.
Hypothesis Hact : rec_update_activity_from_store = true.

Lemma valid_event_but_activity_eq st e : valid_event st e = valid_event_but_activity st e.
Proof. unfold valid_event, activity_ok. rewrite Hact. cbn [orb]. apply andb_true_r. Qed.

Lemma valid_history_but_activity_eq h : forall st, valid_history st h = valid_history_but_activity st h.
Proof.
  induction h as [|e h IH]; intros st; [reflexivity|].
  cbn [valid_history valid_history_but_activity]. rewrite valid_event_but_activity_eq, IH. reflexivity.
Qed.

End Activity.
