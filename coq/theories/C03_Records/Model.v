(* C03 - model of the record store of pkg/istructsmem: IRecords.Apply (cudType.applyRecs,
   updateRecType.build, apply2/putRecordsBatch at trust level 0), BuildRawEvent's storage
   dependent validation (validEvent) and IEventReapplier.ApplyRecords, over a map keyed by
   recordKey(ws, id).  A record's user fields are the positions of its type's field list
   (the dynobuffers scheme); a change list names a position with SetTo/Clear and skips it with Keep.
   Definitions only. *)
From Coq Require Import List NArith ZArith Lia Bool.
From V Require Import Lib.Lex Lib.SMap Lib.Check Gen.Params.
Import ListNotations.
Local Open Scope N_scope.

(* ---------- values, records ---------- *)

(* FNum: int32/int64/bool/RecordID fields; FStr: string/bytes fields *)
Inductive fval := FNum (z : Z) | FStr (s : bytes).
Inductive fchange := Keep | SetTo (v : fval) | Clear.

Record rec := mkRec { r_id : N; r_qname : N; r_parent : N; r_container : N; r_active : bool;
                      r_fields : list (option fval) }.

Definition fval_eqb (a b : fval) : bool :=
  match a, b with
  | FNum x, FNum y => (x =? y)%Z
  | FStr x, FStr y => lex_eqb x y
  | _, _ => false
  end.

Definition rec_eqb (a b : rec) : bool :=
  (r_id a =? r_id b) && (r_qname a =? r_qname b) && (r_parent a =? r_parent b)
  && (r_container a =? r_container b) && Bool.eqb (r_active a) (r_active b)
  && list_eqb (option_eqb fval_eqb) (r_fields a) (r_fields b).

(* rowType.empty(): no user field holds a value *)
Definition rec_empty (r : rec) : bool :=
  forallb (fun o => match o with None => true | Some _ => false end) (r_fields r).

(* putValue + checkPutNil + dynobuffers: an empty string/bytes value is "no value";
   zero numbers and false are values *)
Definition app_change (c : fchange) (o : option fval) : option fval :=
  match c with
  | Keep => o
  | SetTo (FStr []) => None
  | SetTo v => Some v
  | Clear => None
  end.

(* updateRecType.build: result = origin, then every named field overwritten *)
Fixpoint overlay (o : list (option fval)) (c : list fchange) : list (option fval) :=
  match o, c with
  | [], _ => []
  | _, [] => o
  | x :: o', y :: c' => app_change y x :: overlay o' c'
  end.

(* ---------- the store ---------- *)

Definition nbytes (w : nat) (n : N) : bytes :=
  match rec_key_endian with BE => be_bytes w n | LE => le_bytes w n end.

(* utils.go recordKey / crackID (the constant 2-byte view id in front is omitted);
   partition key and clustering columns concatenated *)
Definition rec_key (ws id : N) : bytes :=
  nbytes 8 ws ++ nbytes 8 (N.shiftr id rec_partition_bits) ++ nbytes 2 (N.land id rec_low_mask).

Definition store := smap rec.
Definition lookup (st : store) (ws id : N) : option rec := sm_get (rec_key ws id) st.
Definition put (st : store) (ws id : N) (r : rec) : store := sm_put (rec_key ws id) r st.

(* ---------- events ---------- *)

(* a created record after ID regeneration: c_sets has one entry per field of the type *)
Record create := mkCreate { c_single : bool; c_id : N; c_qname : N; c_parent : N; c_container : N;
                            c_active : bool; c_sets : list fchange }.

(* an update as built by ICUD.Update(origin): u_id/u_parent/u_container are the system fields of
   the `changes` row (initialised from the origin object, overwritten by explicit puts);
   u_assign = the value the event assigned to sys.IsActive, if it did (rowType.isActiveModified);
   u_origin exists in memory only: the log keeps the changes row *)
Record update := mkUpdate { u_id : N; u_origin : rec; u_parent : N; u_container : N; u_assign : option bool;
                            u_changes : list fchange }.

(* the activity VALUE the changes row carries (and logs): newUpdateRec initialises it from the object
   handed to ICUD.Update *)
Definition u_active (u : update) : bool :=
  match u_assign u with Some b => b | None => r_active (u_origin u) end.

Record event := mkEvent { e_ws : N; e_creates : list create; e_updates : list update }.

Definition create_rec (c : create) : rec :=
  mkRec (c_id c) (c_qname c) (c_parent c) (c_container c) (c_active c)
        (map (fun ch => app_change ch None) (c_sets c)).

(* the activity an update leaves: updateRecType.build sets the result's flag to the VALUE of the
   changes row whenever it differs from the record's, whether or not the event assigned it.  That
   value is the assigned one; otherwise the one of the object handed to ICUD.Update (finding
   F-C03-2) or, once validEvent refreshes it, the one of the stored record *)
Definition upd_active (o : rec) (u : update) : bool :=
  match u_assign u with
  | Some b => b
  | None => if rec_update_activity_from_store then r_active o else r_active (u_origin u)
  end.

(* updateRecType.build; None = ErrUnableToUpdateSystemField *)
Definition build_update (o : rec) (u : update) : option rec :=
  if negb (r_id o =? u_id u) then None
  else if negb (u_parent u =? 0) && negb (u_parent u =? r_parent o) then None
  else if negb (u_container u =? 0) && negb (u_container u =? r_container o) then None
  else Some (mkRec (r_id o) (r_qname o) (r_parent o) (r_container o)
                   (upd_active o u)
                   (overlay (r_fields o) (u_changes u))).

Definition event_ids (e : event) : list N := map c_id (e_creates e) ++ map u_id (e_updates e).

Fixpoint nodupb (l : list N) : bool :=
  match l with
  | [] => true
  | x :: r => negb (existsb (N.eqb x) r) && nodupb r
  end.

Definition first_err (l : list N) : N := match filter (fun c => negb (c =? 0)) l with [] => 0 | c :: _ => c end.

(* BuildRawEvent: 0 = accepted; 1 = unable to update system field (build), 2 = record ID
   duplicates / singleton violation (validateEventCUDsIDs, validEvent), 3 = ID not found,
   4 = wrong type (validEvent) *)
Definition check_event (st : store) (e : event) : N :=
  let ws := e_ws e in
  first_err
    (map (fun u => match build_update (u_origin u) u with None => 1 | Some _ => 0 end) (e_updates e)
     ++ [if nodupb (event_ids e) then 0 else 2]
     ++ map (fun c => if c_single c then match lookup st ws (c_id c) with Some _ => 2 | None => 0 end else 0) (e_creates e)
     ++ map (fun u => match lookup st ws (r_id (u_origin u)) with
                      | None => 3
                      | Some old => if r_qname old =? r_qname (u_origin u) then 0 else 4
                      end) (e_updates e)).

Definition accepts (st : store) (e : event) : bool := check_event st e =? 0.

(* the rows an apply writes: (id, row, isNew) *)
Definition item := (N * rec * bool)%type.

(* applyRecs before e4efa7ee7 (F-C03-1): the in-memory origin was used unless it had no user field,
   in which case the stored row was loaded and the result rebuilt.  Kept as the shape the model
   falls back to when the translator no longer finds the unconditional reload. *)
Definition eff_origin_old (st : store) (ws : N) (u : update) : option rec :=
  if rec_empty (u_origin u) then lookup st ws (r_id (u_origin u)) else Some (u_origin u).

(* applyRecs: every update is rebuilt over the row stored now; the object handed to ICUD.Update
   supplies the id only *)
Definition eff_origin (st : store) (ws : N) (u : update) : option rec :=
  if rec_apply_reloads_origin then lookup st ws (r_id (u_origin u)) else eff_origin_old st ws u.

Fixpoint update_items (origin : update -> option rec) (us : list update) : option (list item) :=
  match us with
  | [] => Some []
  | u :: r =>
      match origin u with
      | None => None
      | Some o => match build_update o u with
                  | None => None
                  | Some res => option_map (cons (r_id res, res, false)) (update_items origin r)
                  end
      end
  end.

Definition create_items (cs : list create) : list item := map (fun c => (c_id c, create_rec c, true)) cs.

(* putRecordsBatch, SequencesTrustLevel_0: new rows by InsertIfNotExists (refused => stop with
   ErrSequencesViolation, earlier rows stay), others by Put *)
Fixpoint put_batch0 (st : store) (ws : N) (items : list item) : store * N :=
  match items with
  | [] => (st, 0)
  | (id, r, isNew) :: rest =>
      if isNew then match lookup st ws id with
                    | Some _ => (st, 7)
                    | None => put_batch0 (put st ws id r) ws rest
                    end
      else put_batch0 (put st ws id r) ws rest
  end.

(* putRecordsBatch with isReapply: PutBatch, everything overwritten *)
Fixpoint put_all (st : store) (ws : N) (items : list item) : store :=
  match items with
  | [] => st
  | (id, r, _) :: rest => put_all (put st ws id r) ws rest
  end.

Definition apply_items (st : store) (e : event) : option (list item) :=
  option_map (app (create_items (e_creates e))) (update_items (eff_origin st (e_ws e)) (e_updates e)).

(* IRecords.Apply: result code 0 ok, 1 load/build error (nothing written), 7 sequences violation *)
Definition apply (st : store) (e : event) : store * N :=
  match apply_items st e with
  | None => (st, 1)
  | Some items => put_batch0 st (e_ws e) items
  end.

(* IEventReapplier.ApplyRecords on the event read back from the log: origins are reloaded *)
Definition reapply_items (st : store) (e : event) : option (list item) :=
  option_map (app (create_items (e_creates e))) (update_items (fun u => lookup st (e_ws e) (u_id u)) (e_updates e)).

Definition reapply (st : store) (e : event) : store * N :=
  match reapply_items st e with
  | None => (st, 1)
  | Some items => if rec_reapply_overwrites then (put_all st (e_ws e) items, 0)
                  else put_batch0 st (e_ws e) items
  end.

Definition run (st : store) (h : list event) : store := fold_left (fun s e => fst (apply s e)) h st.

(* the shape before 001f02315 (F-C03-2), whatever the flag says: the result takes the activity VALUE
   of the changes row, which for an update that does not assign it is the one of the object handed
   to ICUD.Update (witness of F-C03-2) *)
Definition build_update_leak (o : rec) (u : update) : option rec :=
  match build_update o u with
  | Some r => Some (mkRec (r_id r) (r_qname r) (r_parent r) (r_container r) (u_active u) (r_fields r))
  | None => None
  end.

Fixpoint update_items_leak (origin : update -> option rec) (us : list update) : option (list item) :=
  match us with
  | [] => Some []
  | u :: r =>
      match origin u with
      | None => None
      | Some o => match build_update_leak o u with
                  | None => None
                  | Some res => option_map (cons (r_id res, res, false)) (update_items_leak origin r)
                  end
      end
  end.

Definition apply_leak (st : store) (e : event) : store * N :=
  match option_map (app (create_items (e_creates e))) (update_items_leak (eff_origin st (e_ws e)) (e_updates e)) with
  | None => (st, 1)
  | Some items => put_batch0 st (e_ws e) items
  end.
Definition run_leak (st : store) (h : list event) : store := fold_left (fun s e => fst (apply_leak s e)) h st.

(* the same with the old applyRecs, whatever the flag says (witness of F-C03-1) *)
Definition apply_old (st : store) (e : event) : store * N :=
  match option_map (app (create_items (e_creates e))) (update_items (eff_origin_old st (e_ws e)) (e_updates e)) with
  | None => (st, 1)
  | Some items => put_batch0 st (e_ws e) items
  end.
Definition run_old (st : store) (h : list event) : store := fold_left (fun s e => fst (apply_old s e)) h st.

(* ---------- validity of an event in a state (the property's "valid events") ---------- *)

Definition bound64 : N := 2 ^ 64.

Definition ev_bounded (e : event) : bool :=
  (e_ws e <? bound64) && forallb (fun i => i <? bound64) (event_ids e).

(* every update names a stored record over which it can be built (same id; parent and container,
   if the changes carry them, are the stored ones), so that Apply succeeds.  Nothing is required of
   the content of the record object handed to ICUD.Update. *)
Definition fresh_origins (st : store) (e : event) : bool :=
  forallb (fun u => (r_id (u_origin u) =? u_id u) &&
                    match lookup st (e_ws e) (u_id u) with
                    | Some o => match build_update o u with Some _ => true | None => false end
                    | None => false
                    end) (e_updates e).

(* created ids are new in their workspace (ID generation, C04) *)
Definition new_ids_fresh (st : store) (e : event) : bool :=
  forallb (fun c => match lookup st (e_ws e) (c_id c) with None => true | Some _ => false end) (e_creates e).

(* an update that does not assign sys.IsActive must not carry another activity than the stored
   record's: true by construction once validEvent refreshes the changes row; until then (finding
   F-C03-2) it is a hypothesis on the object handed to ICUD.Update *)
Definition activity_ok (st : store) (e : event) : bool :=
  rec_update_activity_from_store ||
  forallb (fun u => match u_assign u, lookup st (e_ws e) (u_id u) with
                    | None, Some o => Bool.eqb (r_active (u_origin u)) (r_active o)
                    | _, _ => true
                    end) (e_updates e).

(* valid up to the activity hypothesis *)
Definition valid_event_but_activity (st : store) (e : event) : bool :=
  accepts st e && ev_bounded e && fresh_origins st e && new_ids_fresh st e.

Definition valid_event (st : store) (e : event) : bool :=
  valid_event_but_activity st e && activity_ok st e.

Fixpoint valid_history_but_activity (st : store) (h : list event) : bool :=
  match h with
  | [] => true
  | e :: r => valid_event_but_activity st e && valid_history_but_activity (fst (apply st e)) r
  end.

(* what BuildRawEvent + ID generation alone guarantee (no statement about the stored rows the updates meet) *)
Definition accepted_event (st : store) (e : event) : bool :=
  accepts st e && ev_bounded e && new_ids_fresh st e.

Fixpoint accepted_history (st : store) (h : list event) : bool :=
  match h with
  | [] => true
  | e :: r => accepted_event st e && accepted_history (fst (apply st e)) r
  end.

Fixpoint valid_history (st : store) (h : list event) : bool :=
  match h with
  | [] => true
  | e :: r => valid_event st e && valid_history (fst (apply st e)) r
  end.

(* ---------- the specification: per-field last writer over the log ---------- *)

Inductive touch := TCreate (c : create) | TUpdate (u : update).

(* what one event says about record (ws, id), newest first (updates are applied after creates) *)
Definition ev_touches (ws id : N) (e : event) : list touch :=
  if e_ws e =? ws
  then rev (map TCreate (filter (fun c => c_id c =? id) (e_creates e))
            ++ map TUpdate (filter (fun u => u_id u =? id) (e_updates e)))
  else [].

(* hr: the log, newest event first *)
Definition touches (hr : list event) (ws id : N) : list touch := flat_map (ev_touches ws id) hr.

(* value of field i: named by the newest touch that mentions it *)
Fixpoint field_of (ts : list touch) (i : nat) : option fval :=
  match ts with
  | [] => None
  | TUpdate u :: older => app_change (nth i (u_changes u) Keep) (field_of older i)
  | TCreate c :: _ => app_change (nth i (c_sets c) Keep) None
  end.

Fixpoint active_of (ts : list touch) : bool :=
  match ts with
  | [] => true
  | TUpdate u :: older => match u_assign u with Some b => b | None => active_of older end
  | TCreate c :: _ => c_active c
  end.

Fixpoint created_by (ts : list touch) : option create :=
  match ts with
  | [] => None
  | TCreate c :: _ => Some c
  | TUpdate _ :: older => created_by older
  end.

(* a record exists iff some event created it; its type, parent and container are those of the
   create, its activation flag that of the newest touch, each field that of its newest mention *)
Definition spec_rec (ts : list touch) (id : N) : option rec :=
  match created_by ts with
  | None => None
  | Some c => Some (mkRec id (c_qname c) (c_parent c) (c_container c) (active_of ts)
                          (map (field_of ts) (seq 0 (length (c_sets c)))))
  end.

(* ---------- histories with re-apply (recovery) ---------- *)

Inductive op := OApply (e : event) | OReapply.   (* OReapply: re-apply the last applied event *)

Fixpoint run_ops (st : store) (last : option event) (ops : list op) : store :=
  match ops with
  | [] => st
  | OApply e :: r => run_ops (fst (apply st e)) (Some e) r
  | OReapply :: r => run_ops (match last with Some e => fst (reapply st e) | None => st end) last r
  end.

Fixpoint applied (ops : list op) : list event :=
  match ops with
  | [] => []
  | OApply e :: r => e :: applied r
  | OReapply :: r => applied r
  end.

(* ================= trace checking (correspondence + oracle) ================= *)

Inductive step :=
| SApply (e : event) (res : N)   (* 0 applied; 1..4 rejected by BuildRawEvent (class); 9 Apply failed to load/build, 7 sequences violation *)
| SReapply (mode res : N)        (* the last applied event again: 1 = cached PLog object, 2 = read from storage after restart *)
| SObs (via ws id : N) (r : option rec)   (* 0 Get, 1 GetBatch, 2 GetSingleton; None = null record *)
| SLogged (e : event)            (* the last applied event as decoded from the stored PLog row by a reader that never saw the object *)
| SHeld (first again : option rec).  (* a record object returned by a read, rendered when returned and again after later log/record traffic *)

Definition trace := list step.

(* what the log keeps of an event: rows without the in-memory origin, emptying = empty value *)
Definition norm_change (c : fchange) : fchange :=
  match c with SetTo (FStr []) => Clear | _ => c end.

Definition fchange_eqb (a b : fchange) : bool :=
  match norm_change a, norm_change b with
  | Keep, Keep => true
  | Clear, Clear => true
  | SetTo x, SetTo y => fval_eqb x y
  | _, _ => false
  end.

Definition create_eqb (a b : create) : bool :=
  Bool.eqb (c_single a) (c_single b) && (c_id a =? c_id b) && (c_qname a =? c_qname b) && (c_parent a =? c_parent b)
  && (c_container a =? c_container b) && Bool.eqb (c_active a) (c_active b)
  && list_eqb fchange_eqb (c_sets a) (c_sets b).

(* act: the activity value the logged row of the generated update must carry *)
Definition update_logged_eqb (act : update -> bool) (a b : update) : bool :=
  (u_id a =? u_id b) && (u_parent a =? u_parent b) && (u_container a =? u_container b)
  && Bool.eqb (act a) (u_active b) && option_eqb Bool.eqb (u_assign a) (u_assign b)
  && list_eqb fchange_eqb (u_changes a) (u_changes b).

(* update rows are stored in Go map order: compared as sets (ids are distinct in an accepted event) *)
Definition logged_eqb (act : update -> bool) (a b : event) : bool :=
  (e_ws a =? e_ws b) && list_eqb create_eqb (e_creates a) (e_creates b)
  && (length (e_updates a) =? length (e_updates b))%nat
  && forallb (fun u => existsb (update_logged_eqb act u) (e_updates b)) (e_updates a).

(* what the builder was given and the logged row must carry, whatever else the row holds: the rows
   of the event, for every update the assigned activity (assigned with that value, or not assigned),
   the named fields with their values and the emptied fields *)
Definition update_built_eqb (a b : update) : bool :=
  (u_id a =? u_id b) && option_eqb Bool.eqb (u_assign a) (u_assign b)
  && list_eqb fchange_eqb (u_changes a) (u_changes b).

Definition built_eqb (a b : event) : bool :=
  (e_ws a =? e_ws b) && list_eqb create_eqb (e_creates a) (e_creates b)
  && (length (e_updates a) =? length (e_updates b))%nat
  && forallb (fun u => existsb (update_built_eqb u) (e_updates b)) (e_updates a).

(* the value logged for an update: assigned, else the activity of the object handed to Update
   (F-C03-2) or - once validEvent refreshes it - of the stored record, which an unassigned update
   leaves as it is (st: the store after the event) *)
Definition logged_activity (st : store) (ws : N) (u : update) : bool :=
  match u_assign u with
  | Some b => b
  | None => if rec_update_activity_from_store
            then match lookup st ws (u_id u) with Some o => r_active o | None => r_active (u_origin u) end
            else r_active (u_origin u)
  end.

Fixpoint agrees_from (st : store) (last : option (event * list item)) (t : trace) : bool :=
  match t with
  | [] => true
  | SApply e res :: rest =>
      let c := check_event st e in
      if negb (c =? 0) then (res =? c) && agrees_from st last rest
      else match apply_items st e with
           | None => (res =? 9) && agrees_from st last rest
           | Some items =>
               let '(st', code) := put_batch0 st (e_ws e) items in
               if code =? 0 then (res =? 0) && agrees_from st' (Some (e, items)) rest
               else (res =? code) && agrees_from st' last rest
           end
  | SReapply mode res :: rest =>
      match last with
      | None => false
      | Some (e, items) =>
          if (mode =? 1) && negb rec_apply_reloads_origin
          then (res =? 0) && agrees_from (put_all st (e_ws e) items) last rest
          else let '(st', code) := reapply st e in (res =? code) && agrees_from st' last rest
      end
  | SObs _ ws id o :: rest => option_eqb rec_eqb o (lookup st ws id) && agrees_from st last rest
  | SLogged e' :: rest =>
      match last with
      | None => false
      | Some (e, _) => logged_eqb (logged_activity st (e_ws e)) e e' && agrees_from st last rest
      end
  | SHeld a b :: rest => option_eqb rec_eqb a b && agrees_from st last rest
  end.

Definition agrees (t : trace) : bool := agrees_from [] None t.

(* the oracle's domain: ids of one event distinct and created ids new (ID generation, C04).
   Nothing is assumed about the records handed to ICUD.Update: every accepted update is judged
   by the fold, also one built from an older snapshot or a foreign record (finding F-C03-1) *)
Definition in_domain (hr : list event) (e : event) : bool :=
  nodupb (event_ids e)
  && forallb (fun c => match spec_rec (touches hr (e_ws e) (c_id c)) (c_id c) with None => true | Some _ => false end) (e_creates e).

(* satisfies: every observed record equals the per-field fold of the LOGGED events: an applied
   event enters the history as generated and is replaced by its decoded stored form as soon as
   that is observed (SLogged) - which must carry what the builder was given (rows, assigned
   activity, named and emptied fields: the log is not taken on trust for what the event was built
   to do); re-applies add nothing; a record object never changes after it was
   returned; the implementation model is not consulted *)
Fixpoint satisfies_from (hr : list event) (t : trace) : bool :=
  match t with
  | [] => true
  | SApply e res :: rest =>
      if res =? 0 then (if in_domain hr e then satisfies_from (e :: hr) rest else true)
      else satisfies_from hr rest
  | SReapply _ _ :: rest => satisfies_from hr rest
  | SObs _ ws id o :: rest => option_eqb rec_eqb o (spec_rec (touches hr ws id) id) && satisfies_from hr rest
  | SLogged e' :: rest =>
      match hr with
      | e :: older => built_eqb e e' && satisfies_from (e' :: older) rest
      | [] => false
      end
  | SHeld a b :: rest => option_eqb rec_eqb a b && satisfies_from hr rest
  end.

Definition satisfies (t : trace) : bool := satisfies_from [] t.

(* validity of a history with re-applies: every event valid where it is applied; a re-apply
   needs an applied event to repeat *)
Fixpoint valid_ops (st : store) (last : option event) (ops : list op) : bool :=
  match ops with
  | [] => true
  | OApply e :: r => valid_event st e && valid_ops (fst (apply st e)) (Some e) r
  | OReapply :: r =>
      match last with
      | Some e => valid_ops (fst (reapply st e)) last r
      | None => false
      end
  end.

(* the trace the model itself produces for a history with re-applies, reading every (ws, id) of
   qs after every step (used by the link theorem: the oracle accepts every model run) *)
Definition obs_all (st : store) (qs : list (N * N)) : trace :=
  map (fun q => SObs 0 (fst q) (snd q) (lookup st (fst q) (snd q))) qs.

Fixpoint model_trace (st : store) (last : option event) (ops : list op) (qs : list (N * N)) : trace :=
  match ops with
  | [] => []
  | OApply e :: r =>
      let st' := fst (apply st e) in
      SApply e (snd (apply st e)) :: SLogged e :: obs_all st' qs ++ model_trace st' (Some e) r qs
  | OReapply :: r =>
      match last with
      | Some e => let st' := fst (reapply st e) in
                  SReapply 2 (snd (reapply st e)) :: obs_all st' qs ++ model_trace st' last r qs
      | None => model_trace st last r qs
      end
  end.
